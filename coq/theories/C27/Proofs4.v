(** C27 — "rejected blocks are as if they had never arrived", for histories
    whose rejected blocks stay clear of the findings that are still open:
    every delivery that fails a validity check
      - is below the reorganisation margin (it cannot start a reorganisation:
        finding 2),
      - has a hash under which no valid delivery arrives (no poisoning:
        finding 1),
      - is nobody's parent (no block is indexed or attached through it:
        findings 1 and 2).
    Such blocks may arrive on any path, before or after their parents, wait in
    the orphan pool in front of valid blocks, be executed and fail, or stay
    unexecuted side blocks.  The run over the whole history and the run over
    the valid deliveries only are related step by step ([Rel]); in particular
    the best chains are equal.  The proof needs the repaired ProcessOrphans:
    a refused orphan no longer keeps its siblings in the pool. *)
From Coq Require Import List ZArith NArith Bool Lia.
From C33 Require Import C27.Model C27.Proofs C27.ProofsRefute C27.Proofs2 C27.Proofs3.
Import ListNotations.
Open Scope Z_scope.

(** ---- the guard ---- *)
Definition bad_hash (verr : N -> N -> N) (U : list item) (h : N) : bool :=
  existsb (fun j => N.eqb (ihash j) h && negb (valid_item verr j)) U.

Definition quiet_rejects (verr : N -> N -> N) (fin : Z) (g : block) (U : list item) : bool :=
  N.eqb (verr (bid g) 0%N) 0%N &&
  forallb (fun j =>
    valid_item verr j ||
    ((bht (iblk j) <? fin + margin)
     && negb (N.eqb (ihash j) (bid g))
     && negb (N.eqb (bpar g) (ihash j))
     && forallb (fun k => negb (N.eqb (ihash k) (ihash j)) || negb (valid_item verr k)) U
     && forallb (fun k => negb (N.eqb (bpar (iblk k)) (ihash j))) U)) U.

(** ---- list lemmas ---- *)
Lemma find_filter_some : forall (A : Type) (P Q : A -> bool) l c,
  find P l = Some c -> Q c = true -> find P (filter Q l) = Some c.
Proof.
  intros A P Q l c. induction l as [|a l IH]; intros H Hq; simpl in *; [discriminate|].
  destruct (P a) eqn:Pa.
  - inversion H; subst. rewrite Hq. simpl. rewrite Pa. reflexivity.
  - destruct (Q a); simpl; [rewrite Pa|]; apply IH; assumption.
Qed.

Lemma find_filter_none : forall (A : Type) (P Q : A -> bool) l,
  find P l = None -> find P (filter Q l) = None.
Proof.
  intros A P Q l. induction l as [|a l IH]; intros H; simpl in *; [reflexivity|].
  destruct (P a) eqn:Pa; [discriminate|].
  destruct (Q a); simpl; [rewrite Pa|]; apply IH; exact H.
Qed.

Lemma filter_filter_absorb : forall (A : Type) (P Q : A -> bool) l,
  (forall x, In x l -> P x = true -> Q x = true) -> filter P (filter Q l) = filter P l.
Proof.
  intros A P Q l. induction l as [|a l IH]; intros H; simpl; [reflexivity|].
  destruct (Q a) eqn:Qa; simpl.
  - destruct (P a); [f_equal|]; apply IH; intros; apply H; auto; right; assumption.
  - destruct (P a) eqn:Pa.
    + rewrite (H a (or_introl eq_refl) Pa) in Qa. discriminate.
    + apply IH. intros; apply H; auto; right; assumption.
Qed.

Lemma filter_comm : forall (A : Type) (P Q : A -> bool) l, filter P (filter Q l) = filter Q (filter P l).
Proof.
  intros A P Q l. induction l as [|a l IH]; simpl; [reflexivity|].
  destruct (Q a) eqn:Qa; destruct (P a) eqn:Pa; simpl; rewrite ?Qa, ?Pa, IH; reflexivity.
Qed.

Lemma filter_len_le : forall (A : Type) (f : A -> bool) l, (length (filter f l) <= length l)%nat.
Proof. intros A f l. induction l as [|a l IH]; simpl; [lia|]. destruct (f a); simpl; lia. Qed.

Lemma filter_length_lt : forall (A : Type) (f : A -> bool) l x,
  In x l -> f x = false -> (length (filter f l) < length l)%nat.
Proof.
  intros A f l x. induction l as [|a l IH]; intros Hin Hf; [destruct Hin|].
  simpl. destruct Hin as [E|Hin].
  - subst a. rewrite Hf. pose proof (filter_len_le A f l). lia.
  - specialize (IH Hin Hf). destruct (f a); simpl; lia.
Qed.

Lemma remove_vorph_lt : forall c o, In c o -> (length (remove_vorph (ihash c) o) < length o)%nat.
Proof.
  intros c o H. unfold remove_vorph. apply (filter_length_lt _ _ o c H). rewrite N.eqb_refl. reflexivity.
Qed.

Lemma find_vnode_filter_gen : forall (Q : vnode -> bool) h ix,
  (forall n, vid n = h -> Q n = true) -> find_vnode h (filter Q ix) = find_vnode h ix.
Proof.
  intros Q h ix HQ. unfold find_vnode. induction ix as [|a ix IH]; simpl; [reflexivity|].
  destruct (N.eqb (vid a) h) eqn:E.
  - apply N.eqb_eq in E. rewrite (HQ a E). simpl. rewrite (proj2 (N.eqb_eq _ _) E). reflexivity.
  - destruct (Q a); simpl; [rewrite E|]; exact IH.
Qed.

Lemma find_vnode_map : forall (f : vnode -> vnode) h ix,
  (forall n, vid (f n) = vid n) -> find_vnode h (map f ix) = option_map f (find_vnode h ix).
Proof.
  intros f h ix Hf. unfold find_vnode. induction ix as [|a ix IH]; simpl; [reflexivity|].
  rewrite Hf. destruct (N.eqb (vid a) h); [reflexivity | exact IH].
Qed.

Lemma sget_cons : forall h k b st, sget h ((k, b) :: st) = if N.eqb k h then Some b else sget h st.
Proof. intros. unfold sget. simpl. destruct (N.eqb k h); reflexivity. Qed.

Lemma sget_maybe_store_other : forall h k b st, N.eqb k h = false -> sget h (maybe_store k b st) = sget h st.
Proof.
  intros h k b st E. unfold maybe_store. destruct (sget k st); [reflexivity|]. rewrite sget_cons, E. reflexivity.
Qed.

Lemma load_all_fst : forall st p lp, load_all st p = Some lp -> map fst lp = p.
Proof.
  intros st p. induction p as [|h p IH]; intros lp H; simpl in H.
  - inversion H. reflexivity.
  - destruct (sget h st) as [b|]; [|discriminate]. destruct (load_all st p) as [r|]; [|discriminate].
    inversion H; subst. simpl. rewrite (IH r eq_refl). reflexivity.
Qed.

Lemma orph_vaccept : forall verr fin s i, vorph (fst (fst (vaccept verr fin s i))) = vorph s.
Proof.
  intros. unfold vaccept. destruct (find_vnode _ _); [|reflexivity]. destruct (negb _); [reflexivity|].
  rewrite orph_vconnect_best. reflexivity.
Qed.

Lemma root_in_main : forall (g : block) mn, mn <> [] /\ last mn 0%N = bid g -> In (bid g) mn.
Proof.
  intros g mn [A B]. rewrite <- B. destruct mn as [|x l]; [contradiction|].
  apply (@exists_last _ (x :: l)) in A as [l' [a E]]. rewrite E, last_last. apply in_or_app. right. left. reflexivity.
Qed.

(** the walk to the fork point never ends in nil when every node is linked *)
Lemma vbranch_not_nil : forall (g : block) ix mn,
  (forall n, In n ix -> vcut n = false) ->
  (forall n, In n ix -> vid n = bid g \/ in_vidx (bpar (vblk n)) ix = true) ->
  In (bid g) mn ->
  forall fuel h, in_vidx h ix = true -> vbranch fuel ix mn h <> BNil.
Proof.
  intros g ix mn Hcut Hcl Hr fuel. induction fuel as [|f IH]; intros h Hin; simpl; [discriminate|].
  destruct (memN h mn) eqn:M; [discriminate|].
  unfold in_vidx in Hin. destruct (find_vnode h ix) as [n|] eqn:F; [|discriminate].
  destruct (find_vnode_some _ _ _ F) as [Hn Hv]. rewrite (Hcut n Hn).
  assert (Hp : in_vidx (bpar (vblk n)) ix = true).
  { destruct (Hcl n Hn) as [E|E]; [|exact E]. exfalso.
    assert (memN h mn = true).
    { unfold memN. apply existsb_exists. exists (bid g). split; [exact Hr|]. apply N.eqb_eq. congruence. }
    congruence. }
  specialize (IH _ Hp). destruct (vbranch f ix mn (bpar (vblk n))); [discriminate | contradiction | discriminate].
Qed.

Lemma vbranch_fork_in : forall ix mn fuel h p fk, vbranch fuel ix mn h = BFork p fk -> In fk mn.
Proof.
  intros ix mn fuel. induction fuel as [|f IH]; intros h p fk H; simpl in H; [discriminate|].
  destruct (memN h mn) eqn:M.
  - inversion H; subst. apply memN_in. exact M.
  - destruct (find_vnode h ix) as [n|]; [|discriminate]. destruct (vcut n); [discriminate|].
    destruct (vbranch f ix mn (bpar (vblk n))) as [| |p' fk'] eqn:E; try discriminate.
    inversion H; subst. eapply IH; exact E.
Qed.

Section Invisible.
Variable verr : N -> N -> N.
Variable fin : Z.
Variable g : block.
Variable U : list item.
Hypothesis HQ : quiet_rejects verr fin g U = true.

Let bad := bad_hash verr U.
Definition nbn (n : vnode) : bool := negb (bad (vid n)).
Definition nbi (i : item) : bool := negb (bad (ihash i)).
Definition nbh (h : N) : bool := negb (bad h).

(** ---- what the guard says ---- *)
Lemma q_root_valid : verr (bid g) 0%N = 0%N.
Proof. unfold quiet_rejects in HQ. apply andb_prop in HQ. destruct HQ as [A _]. apply N.eqb_eq. exact A. Qed.

Lemma q_item : forall j, In j U -> valid_item verr j = false ->
  (bht (iblk j) <? fin + margin) = true
  /\ N.eqb (ihash j) (bid g) = false
  /\ N.eqb (bpar g) (ihash j) = false
  /\ (forall k, In k U -> ihash k = ihash j -> valid_item verr k = false)
  /\ (forall k, In k U -> N.eqb (bpar (iblk k)) (ihash j) = false).
Proof.
  intros j Hj Hv. unfold quiet_rejects in HQ. apply andb_prop in HQ. destruct HQ as [_ A].
  rewrite forallb_forall in A. specialize (A j Hj). rewrite Hv in A. simpl in A.
  apply andb_prop in A. destruct A as [A A5]. apply andb_prop in A. destruct A as [A A4].
  apply andb_prop in A. destruct A as [A A3]. apply andb_prop in A. destruct A as [A1 A2].
  split; [exact A1|]. split; [apply negb_true_iff; exact A2|]. split; [apply negb_true_iff; exact A3|]. split.
  - intros k Hk E. rewrite forallb_forall in A4. specialize (A4 k Hk). rewrite E, N.eqb_refl in A4. simpl in A4.
    apply negb_true_iff. exact A4.
  - intros k Hk. rewrite forallb_forall in A5. specialize (A5 k Hk). apply negb_true_iff. exact A5.
Qed.

Lemma bad_spec : forall h, bad h = true -> exists j, In j U /\ ihash j = h /\ valid_item verr j = false.
Proof.
  intros h H. unfold bad, bad_hash in H. apply existsb_exists in H. destruct H as [j [Hj E]].
  apply andb_prop in E. destruct E as [E1 E2]. apply N.eqb_eq in E1. apply negb_true_iff in E2. exists j. auto.
Qed.

Lemma bad_intro : forall j, In j U -> valid_item verr j = false -> bad (ihash j) = true.
Proof.
  intros j Hj Hv. unfold bad, bad_hash. apply existsb_exists. exists j. split; [exact Hj|].
  rewrite N.eqb_refl, Hv. reflexivity.
Qed.

Lemma valid_nb : forall j, In j U -> valid_item verr j = true -> bad (ihash j) = false.
Proof.
  intros j Hj Hv. destruct (bad (ihash j)) eqn:E; [|reflexivity].
  apply bad_spec in E. destruct E as [k [Hk [E Hkv]]].
  destruct (q_item k Hk Hkv) as [_ [_ [_ [A _]]]]. rewrite (A j Hj (eq_sym E)) in Hv. discriminate.
Qed.

Lemma bad_item : forall j, In j U -> bad (ihash j) = true -> valid_item verr j = false.
Proof.
  intros j Hj Hb. destruct (valid_item verr j) eqn:E; [|reflexivity]. rewrite (valid_nb j Hj E) in Hb. discriminate.
Qed.

Lemma par_nb : forall k, In k U -> bad (bpar (iblk k)) = false.
Proof.
  intros k Hk. destruct (bad (bpar (iblk k))) eqn:E; [|reflexivity].
  apply bad_spec in E. destruct E as [j [Hj [E Hv]]].
  destruct (q_item j Hj Hv) as [_ [_ [_ [_ A]]]]. specialize (A k Hk). rewrite E, N.eqb_refl in A. discriminate.
Qed.

Lemma root_nb : bad (bid g) = false.
Proof.
  destruct (bad (bid g)) eqn:E; [|reflexivity]. apply bad_spec in E. destruct E as [j [Hj [E Hv]]].
  destruct (q_item j Hj Hv) as [_ [A _]]. rewrite E, N.eqb_refl in A. discriminate.
Qed.

Lemma rootpar_nb : bad (bpar g) = false.
Proof.
  destruct (bad (bpar g)) eqn:E; [|reflexivity]. apply bad_spec in E. destruct E as [j [Hj [E Hv]]].
  destruct (q_item j Hj Hv) as [_ [_ [A _]]]. rewrite E, N.eqb_refl in A. discriminate.
Qed.

Lemma bad_ne : forall h k, bad h = false -> bad k = true -> N.eqb k h = false.
Proof. intros h k A B. destruct (N.eqb k h) eqn:E; [|reflexivity]. apply N.eqb_eq in E. subst. congruence. Qed.

(** ---- filtered lookups ---- *)
Lemma find_vnode_nb : forall h ix, bad h = false -> find_vnode h (filter nbn ix) = find_vnode h ix.
Proof. intros h ix H. apply find_vnode_filter_gen. intros n E. unfold nbn. rewrite E, H. reflexivity. Qed.

Lemma in_vidx_nb : forall h ix, bad h = false -> in_vidx h (filter nbn ix) = in_vidx h ix.
Proof. intros. unfold in_vidx. rewrite find_vnode_nb by assumption. reflexivity. Qed.

Lemma in_vorph_nb : forall h o, bad h = false -> in_vorph h (filter nbi o) = in_vorph h o.
Proof.
  intros h o H. unfold in_vorph. induction o as [|a o IH]; simpl; [reflexivity|].
  destruct (nbi a) eqn:E; simpl; rewrite IH; [reflexivity|].
  unfold nbi in E. apply negb_false_iff in E. rewrite (bad_ne h (ihash a) H E). reflexivity.
Qed.

Lemma remove_vorph_nb : forall h o, filter nbi (remove_vorph h o) = remove_vorph h (filter nbi o).
Proof. intros. unfold remove_vorph. apply filter_comm. Qed.

Lemma remove_vorph_bad : forall h o, bad h = true -> filter nbi (remove_vorph h o) = filter nbi o.
Proof.
  intros h o H. unfold remove_vorph. apply filter_filter_absorb. intros x _ Hx.
  unfold nbi in Hx. apply negb_true_iff in Hx. apply negb_true_iff. apply (bad_ne _ _ Hx H) || idtac.
  destruct (N.eqb (ihash x) h) eqn:E; [|reflexivity]. apply N.eqb_eq in E. subst. congruence.
Qed.

Lemma vbranch_nb : forall ix mn, (forall n, In n ix -> bad (bpar (vblk n)) = false) ->
  forall fuel h, bad h = false ->
  vbranch fuel (filter nbn ix) mn h = vbranch fuel ix mn h
  /\ (forall p fk, vbranch fuel ix mn h = BFork p fk -> forall x, In x p -> bad x = false).
Proof.
  intros ix mn Hpar fuel. induction fuel as [|f IH]; intros h Hh; simpl.
  { split; [reflexivity | intros; discriminate]. }
  destruct (memN h mn).
  { split; [reflexivity|]. intros p fk E x Hx. inversion E; subst. destruct Hx. }
  rewrite find_vnode_nb by exact Hh.
  destruct (find_vnode h ix) as [n|] eqn:F; [|split; [reflexivity | intros; discriminate]].
  destruct (find_vnode_some _ _ _ F) as [Hn _].
  destruct (vcut n); [split; [reflexivity | intros; discriminate]|].
  destruct (IH (bpar (vblk n)) (Hpar n Hn)) as [E P]. rewrite E.
  destruct (vbranch f ix mn (bpar (vblk n))) as [| |p fk] eqn:B; try (split; [reflexivity | intros; discriminate]).
  split; [reflexivity|]. intros p0 fk0 E0 x Hx. inversion E0; subst.
  destruct Hx as [Hx|Hx]; [subst; exact Hh | eapply P; [reflexivity | exact Hx]].
Qed.

(** ---- the relation between the run with and the run without the rejected blocks ---- *)
Record Rel (F V : vstate) : Prop := mkRel {
  r_main  : vmain F = vmain V;
  r_idx   : filter nbn (vidx F) = vidx V;
  r_orph  : filter nbi (vorph F) = vorph V;
  r_store : forall h, bad h = false -> sget h (vstore F) = sget h (vstore V)
}.

Record GoodF (F : vstate) : Prop := mkGF {
  f_parnb  : forall n, In n (vidx F) -> bad (bpar (vblk n)) = false;
  f_orphU  : forall o, In o (vorph F) -> In o U;
  f_nocut  : forall n, In n (vidx F) -> vcut n = false;
  f_closed : forall n, In n (vidx F) -> vid n = bid g \/ in_vidx (bpar (vblk n)) (vidx F) = true;
  f_root   : vmain F <> [] /\ last (vmain F) 0%N = bid g;
  f_mainnb : forall h, In h (vmain F) -> bad h = false;
  f_store  : forall h b, In (h, b) (vstore F) -> bad h = false -> verr h b = 0%N
}.

Lemma tip_nb : forall F, GoodF F -> bad (vtip F) = false.
Proof.
  intros F GF. pose proof (f_root F GF) as [A _]. apply (f_mainnb F GF). unfold vtip.
  destruct (vmain F); [contradiction | left; reflexivity].
Qed.

Lemma load_all_rel : forall stF stV p,
  (forall h, bad h = false -> sget h stF = sget h stV) ->
  (forall x, In x p -> bad x = false) -> load_all stF p = load_all stV p.
Proof.
  intros stF stV p RS. induction p as [|h p IH]; intros Hp; simpl; [reflexivity|].
  rewrite (RS h (Hp h (or_introl eq_refl))). rewrite IH; [reflexivity|]. intros; apply Hp; right; assumption.
Qed.

Lemma store_app_rel : forall stF stV l,
  (forall h, bad h = false -> sget h stF = sget h stV) ->
  forall h, bad h = false -> sget h (l ++ stF) = sget h (l ++ stV).
Proof.
  intros stF stV l RS h Hh. induction l as [|[k b] l IH]; simpl; [apply RS; exact Hh|].
  rewrite !sget_cons. destruct (N.eqb k h); [reflexivity | exact IH].
Qed.

Lemma maybe_store_rel : forall stF stV k b,
  (forall h, bad h = false -> sget h stF = sget h stV) -> bad k = false ->
  forall h, bad h = false -> sget h (maybe_store k b stF) = sget h (maybe_store k b stV).
Proof.
  intros stF stV k b RS Hk h Hh. unfold maybe_store. rewrite <- (RS k Hk).
  destruct (sget k stF); [apply RS; exact Hh|]. rewrite !sget_cons. destruct (N.eqb k h); [reflexivity | apply RS; exact Hh].
Qed.

(** ---- a valid block: both runs make the same move ---- *)
Lemma vconnect_best_valid_rel : forall F V b td body,
  GoodF F -> Rel F V -> verr (bid b) body = 0%N -> bad (bid b) = false ->
  let rF := vconnect_best verr fin F b td body in
  let rV := vconnect_best verr fin V b td body in
  GoodF (fst (fst rF)) /\ Rel (fst (fst rF)) (fst (fst rV))
  /\ snd (fst rF) = snd (fst rV) /\ snd rF = snd rV.
Proof.
  intros F V b td body GF RL Hv Hb. cbv zeta.
  pose proof GF as [GP GO GC GL GR GM GS]. pose proof RL as [RM RI RO RS].
  unfold vconnect_best. unfold vtip. rewrite <- RM. fold (vtip F).
  destruct (N.eqb (bpar b) (vtip F)).
  - unfold connect_block. rewrite Hv. simpl.
    split; [|split; [|split; reflexivity]].
    + constructor; simpl; auto.
      * split; [discriminate|]. destruct GR as [G1 G2]. destruct (vmain F) as [|x l]; [contradiction | exact G2].
      * intros h [H|H]; [subst h; exact Hb | apply GM; exact H].
      * intros h x [H|H] Hh; [inversion H; subst; exact Hv | apply GS; assumption].
    + constructor; simpl; auto.
      * rewrite RM. reflexivity.
      * intros h Hh. rewrite !sget_cons. destruct (N.eqb (bid b) h); [reflexivity | apply RS; exact Hh].
  - rewrite <- RI. rewrite (find_vnode_nb _ _ (tip_nb F GF)).
    destruct (find_vnode (vtip F) (vidx F)) as [t|]; [|simpl; auto].
    destruct (vbranch_nb (vidx F) (vmain F) GP (S (Z.to_nat (bht b))) (bid b) Hb) as [EB PB].
    rewrite EB.
    destruct ((td <=? vtd t) || (bht b <? fin + margin)).
    + destruct (vbranch _ (vidx F) _ _); simpl; auto.
    + destruct (vbranch (S (Z.to_nat (bht b))) (vidx F) (vmain F) (bid b)) as [| |p fk] eqn:B; simpl; auto.
      assert (Hp : forall x, In x (rev p) -> bad x = false).
      { intros x Hx. apply in_rev in Hx. eapply PB; [reflexivity | exact Hx]. }
      rewrite <- (load_all_rel (vstore F) (vstore V) (rev p) RS Hp).
      destruct (load_all (vstore F) (rev p)) as [lp|] eqn:L; [|simpl; auto].
      pose proof (load_all_fst _ _ _ L) as L2.
      assert (Hlp : forall h x, In (h, x) lp -> verr h x = 0%N).
      { intros h x Hx. apply GS.
        - apply sget_in. eapply load_all_in; eauto.
        - apply Hp. rewrite <- L2. change h with (fst (h, x)). apply in_map. exact Hx. }
      rewrite !attach_valid by exact Hlp. simpl.
      pose proof (vbranch_fork_in _ _ _ _ _ _ B) as Hfk.
      destruct (drop_until_last fk (vmain F) 0%N Hfk) as [D1 D2].
      split; [|split; [|split; reflexivity]].
      * constructor; simpl; auto.
        -- split; [intro E; apply app_eq_nil in E; destruct E as [_ E]; contradiction|].
           rewrite last_app_ne by exact D1. rewrite D2. apply GR.
        -- intros h Hh. apply in_app_or in Hh. destruct Hh as [Hh|Hh].
           ++ rewrite L2, rev_involutive in Hh. eapply PB; [reflexivity | exact Hh].
           ++ apply GM. eapply drop_until_in; exact Hh.
        -- intros h x Hx Hh. apply in_app_or in Hx. destruct Hx as [Hx|Hx]; [apply Hlp; apply in_rev; exact Hx | apply GS; assumption].
      * constructor; simpl; auto. apply store_app_rel. exact RS.
Qed.

Lemma vaccept_valid_rel : forall F V i,
  GoodF F -> Rel F V -> In i U -> valid_item verr i = true ->
  let rF := vaccept verr fin F i in
  let rV := vaccept verr fin V i in
  GoodF (fst (fst rF)) /\ Rel (fst (fst rF)) (fst (fst rV))
  /\ snd (fst rF) = snd (fst rV) /\ snd rF = snd rV.
Proof.
  intros F V i GF RL Hi Hv. cbv zeta.
  pose proof GF as [GP GO GC GL GR GM GS]. pose proof RL as [RM RI RO RS].
  pose proof (valid_nb i Hi Hv) as Hnb. pose proof (par_nb i Hi) as Hpnb.
  unfold valid_item in Hv. apply N.eqb_eq in Hv.
  unfold vaccept. rewrite <- RI. rewrite (find_vnode_nb _ _ Hpnb).
  destruct (find_vnode (bpar (iblk i)) (vidx F)) as [p|] eqn:Fp; [|simpl; auto].
  destruct (negb (bht (iblk i) =? bht (vblk p) + 1)); [simpl; auto|].
  set (nd := mkVN (iblk i) (vtd p + bdiff (iblk i)) false (is_down (ipath i)) false).
  rewrite RI.
  apply vconnect_best_valid_rel.
  - constructor; simpl; auto.
    + intros n [Hn|Hn]; [subst n; exact Hpnb | apply GP; exact Hn].
    + intros n [Hn|Hn]; [subst n; reflexivity | apply GC; exact Hn].
    + intros n [Hn|Hn].
      * subst n. right. simpl. apply in_vidx_cons_mono. unfold in_vidx. rewrite Fp. reflexivity.
      * destruct (GL n Hn) as [E|E]; [left; exact E | right; apply in_vidx_cons_mono; exact E].
    + intros h b Hin Hh. apply maybe_store_in in Hin. destruct Hin as [Hin|Hin]; [inversion Hin; subst; exact Hv | apply GS; assumption].
  - constructor; simpl; auto.
    + unfold nbn at 1. unfold vid at 1. simpl vblk. unfold ihash in Hnb. rewrite Hnb. simpl. rewrite RI. reflexivity.
    + apply maybe_store_rel; assumption.
  - exact Hv.
  - exact Hnb.
Qed.

(** ---- a rejected block: only the first run moves, and only outside the relation ---- *)
Lemma fail_vnode_nochild : forall k ix,
  (forall n, In n ix -> N.eqb (bpar (vblk n)) k = false) ->
  fail_vnode k ix =
  match find_vnode k ix with
  | None => ix
  | Some x => if vdl x then filter (fun n => negb (N.eqb (vid n) k)) ix
              else map (fun n => if N.eqb (vid n) k then mark_err n else n) ix
  end.
Proof.
  intros k ix H. unfold fail_vnode. destruct (find_vnode k ix) as [x|]; [|reflexivity].
  destruct (vdl x); [|reflexivity].
  rewrite <- (map_id (filter _ ix)) at 2. apply map_ext_in. intros n Hn. apply filter_In in Hn. destruct Hn as [Hn _].
  rewrite (H n Hn). reflexivity.
Qed.

Lemma filter_nbn_map : forall (f : vnode -> vnode),
  (forall n, vid (f n) = vid n) -> (forall n, nbn n = true -> f n = n) ->
  forall l, filter nbn (map f l) = filter nbn l.
Proof.
  intros f Hf Hid l. induction l as [|a l IH]; simpl; [reflexivity|].
  unfold nbn at 1. rewrite Hf. fold (nbn a). destruct (nbn a) eqn:Na; [|exact IH].
  rewrite (Hid a Na), IH. reflexivity.
Qed.

Lemma fail_vnode_bad : forall k F,
  GoodF F -> bad k = true ->
  let F' := mkV (fail_vnode k (vidx F)) (vorph F) (vmain F) (vstore F) in
  GoodF F' /\ filter nbn (vidx F') = filter nbn (vidx F).
Proof.
  intros k F GF Hk. cbv zeta. pose proof GF as [GP GO GC GL GR GM GS].
  assert (Hnc : forall n, In n (vidx F) -> N.eqb (bpar (vblk n)) k = false).
  { intros n Hn. rewrite N.eqb_sym. apply bad_ne; [apply GP; exact Hn | exact Hk]. }
  simpl. rewrite (fail_vnode_nochild k (vidx F) Hnc).
  destruct (find_vnode k (vidx F)) as [x|]; [|split; [destruct F; exact GF | reflexivity]].
  destruct (vdl x).
  - split.
    + constructor; simpl; auto.
      * intros n Hn. apply filter_In in Hn. apply GP; tauto.
      * intros n Hn. apply filter_In in Hn. apply GC; tauto.
      * intros n Hn. apply filter_In in Hn. destruct Hn as [Hn _].
        destruct (GL n Hn) as [E|E]; [left; exact E | right].
        unfold in_vidx. rewrite find_vnode_filter_gen; [exact E|].
        intros m Em. rewrite Em. rewrite (Hnc n Hn). reflexivity.
    + apply filter_filter_absorb. intros n _ Hn. unfold nbn in Hn. apply negb_true_iff in Hn.
      apply negb_true_iff. rewrite N.eqb_sym. apply bad_ne; assumption.
  - set (f := fun n => if N.eqb (vid n) k then mark_err n else n).
    assert (Hf : forall n, vid (f n) = vid n) by (intros n; unfold f; destruct (N.eqb (vid n) k); reflexivity).
    assert (Hfb : forall n, vblk (f n) = vblk n) by (intros n; unfold f; destruct (N.eqb (vid n) k); reflexivity).
    assert (Hfc : forall n, vcut (f n) = vcut n) by (intros n; unfold f; destruct (N.eqb (vid n) k); reflexivity).
    split.
    + constructor; simpl; auto.
      * intros n Hn. apply in_map_iff in Hn. destruct Hn as [m [E Hm]]. subst n. rewrite Hfb. apply GP; exact Hm.
      * intros n Hn. apply in_map_iff in Hn. destruct Hn as [m [E Hm]]. subst n. rewrite Hfc. apply GC; exact Hm.
      * intros n Hn. apply in_map_iff in Hn. destruct Hn as [m [E Hm]]. subst n. rewrite Hf, Hfb.
        destruct (GL m Hm) as [E|E]; [left; exact E | right].
        unfold in_vidx in *. rewrite (find_vnode_map f _ _ Hf). destruct (find_vnode (bpar (vblk m)) (vidx F)); [reflexivity | discriminate].
    + apply filter_nbn_map; [exact Hf|]. intros n Na. unfold f. unfold nbn in Na. apply negb_true_iff in Na.
      rewrite N.eqb_sym, (bad_ne _ _ Na Hk). reflexivity.
Qed.

Lemma vaccept_bad_rel : forall F V i,
  GoodF F -> Rel F V -> In i U -> valid_item verr i = false ->
  let rF := vaccept verr fin F i in
  GoodF (fst (fst rF)) /\ Rel (fst (fst rF)) V /\ snd rF <> VPanic /\ snd rF <> VFuel.
Proof.
  intros F V i GF RL Hi Hv. cbv zeta.
  pose proof GF as [GP GO GC GL GR GM GS]. pose proof RL as [RM RI RO RS].
  pose proof (bad_intro i Hi Hv) as Hb. pose proof (par_nb i Hi) as Hpnb.
  destruct (q_item i Hi Hv) as [Hlow _].
  unfold vaccept.
  destruct (find_vnode (bpar (iblk i)) (vidx F)) as [p|] eqn:Fp; [|simpl; split; [exact GF | split; [exact RL | split; discriminate]]].
  destruct (negb (bht (iblk i) =? bht (vblk p) + 1)); [simpl; split; [exact GF | split; [exact RL | split; discriminate]]|].
  set (nd := mkVN (iblk i) (vtd p + bdiff (iblk i)) false (is_down (ipath i)) false).
  set (F1 := mkV (nd :: vidx F) (vorph F) (vmain F) (maybe_store (bid (iblk i)) (ibody i) (vstore F))).
  assert (G1 : GoodF F1).
  { constructor; simpl; auto.
    - intros n [Hn|Hn]; [subst n; exact Hpnb | apply GP; exact Hn].
    - intros n [Hn|Hn]; [subst n; reflexivity | apply GC; exact Hn].
    - intros n [Hn|Hn].
      + subst n. right. simpl. apply in_vidx_cons_mono. unfold in_vidx. rewrite Fp. reflexivity.
      + destruct (GL n Hn) as [E|E]; [left; exact E | right; apply in_vidx_cons_mono; exact E].
    - intros h b Hin Hh. apply maybe_store_in in Hin. destruct Hin as [Hin|Hin]; [|apply GS; assumption].
      inversion Hin; subst. unfold ihash in Hb. congruence. }
  assert (R1 : Rel F1 V).
  { constructor; simpl; auto.
    - unfold nbn at 1. unfold vid at 1. simpl vblk. unfold ihash in Hb. rewrite Hb. simpl. exact RI.
    - intros h Hh. rewrite sget_maybe_store_other; [apply RS; exact Hh | apply bad_ne; assumption]. }
  assert (Hin1 : in_vidx (bid (iblk i)) (vidx F1) = true).
  { simpl. unfold in_vidx, find_vnode. simpl. unfold vid at 1. simpl. rewrite N.eqb_refl. reflexivity. }
  clearbody F1. clear Fp.
  unfold vconnect_best.
  destruct (N.eqb (bpar (iblk i)) (vtip F1)).
  - unfold connect_block. unfold valid_item, ihash in Hv. rewrite Hv. simpl.
    destruct (fail_vnode_bad (bid (iblk i)) F1 G1 Hb) as [G2 E2]. simpl in G2, E2.
    split; [exact G2|]. split; [|split; discriminate].
    destruct R1 as [A B C D]. constructor; simpl; auto. rewrite E2. exact B.
  - destruct (find_vnode (vtip F1) (vidx F1)) as [t|]; [|simpl; split; [exact G1 | split; [exact R1 | split; discriminate]]].
    rewrite Hlow, orb_true_r.
    pose proof (vbranch_not_nil g (vidx F1) (vmain F1) (f_nocut F1 G1) (f_closed F1 G1)
                  (root_in_main g _ (f_root F1 G1)) (S (Z.to_nat (bht (iblk i)))) (bid (iblk i)) Hin1) as NB.
    destruct (vbranch _ _ _ _); [| contradiction |]; simpl; (split; [exact G1 | split; [exact R1 | split; discriminate]]).
Qed.

(** ---- ProcessOrphans ---- *)
Definition need (q : list N) (s : vstate) : nat := 2 * length (vorph s) + length q + 1.

Lemma no_child_of_bad : forall F p, GoodF F -> bad p = true -> first_vchild p (vorph F) = None.
Proof.
  intros F p GF Hp. unfold first_vchild. destruct (find _ (vorph F)) as [c|] eqn:E; [|reflexivity].
  apply find_some in E. destruct E as [Hc E]. apply N.eqb_eq in E.
  pose proof (par_nb c (f_orphU F GF c Hc)) as A. rewrite E in A. congruence.
Qed.

Lemma GoodF_set_orph : forall F o, GoodF F -> (forall x, In x o -> In x U) ->
  GoodF (mkV (vidx F) o (vmain F) (vstore F)).
Proof. intros F o [A B C D E G1 G2] H. constructor; simpl; auto. Qed.

Lemma vporph_rel : forall fF qF F fV V,
  GoodF F -> Rel F V -> (need qF F <= fF)%nat -> (need (filter nbh qF) V <= fV)%nat ->
  let rF := vporph verr fF fin qF F in
  let rV := vporph verr fV fin (filter nbh qF) V in
  GoodF (fst rF) /\ Rel (fst rF) (fst rV) /\ snd rF = snd rV.
Proof.
  induction fF as [|f IH]; intros qF F fV V GF RL HnF HnV; cbv zeta.
  { unfold need in HnF. lia. }
  destruct qF as [|p q'].
  { simpl. destruct fV as [|fv]; [unfold need in HnV; simpl in HnV; lia|]. simpl. auto. }
  cbn [vporph].
  destruct (bad p) eqn:Bp.
  - (* a rejected block in the queue: nobody waits for it *)
    rewrite (no_child_of_bad F p GF Bp).
    assert (E : filter nbh (p :: q') = filter nbh q') by (simpl; unfold nbh at 1; rewrite Bp; reflexivity).
    rewrite E in HnV |- *. apply IH; auto. unfold need in *. simpl in HnF. lia.
  - assert (E : filter nbh (p :: q') = p :: filter nbh q') by (simpl; unfold nbh at 1; rewrite Bp; reflexivity).
    rewrite E in HnV |- *.
    destruct (first_vchild p (vorph F)) as [c|] eqn:Fc.
    2:{ destruct fV as [|fv]; [unfold need in HnV; simpl in HnV; lia|]. cbn [vporph].
        rewrite <- (r_orph F V RL). unfold first_vchild. rewrite find_filter_none by exact Fc.
        apply IH; auto; unfold need in *; simpl in HnF, HnV; lia. }
    assert (Hc : In c (vorph F)) by (unfold first_vchild in Fc; apply find_some in Fc; tauto).
    pose proof (f_orphU F GF c Hc) as HcU.
    remember (mkV (vidx F) (remove_vorph (ihash c) (vorph F)) (vmain F) (vstore F)) as F0 eqn:EF0.
    assert (G0 : GoodF F0).
    { rewrite EF0. apply GoodF_set_orph; [exact GF|]. intros x Hx. apply remove_vorph_in in Hx. apply (f_orphU F GF); exact Hx. }
    assert (L0 : (length (vorph F0) < length (vorph F))%nat) by (rewrite EF0; simpl; apply remove_vorph_lt; exact Hc).
    destruct (valid_item verr c) eqn:Vc.
    + (* a valid orphan: the second run finds the same one *)
      pose proof (valid_nb c HcU Vc) as Cnb.
      destruct fV as [|fv]; [unfold need in HnV; simpl in HnV; lia|]. cbn [vporph].
      assert (FcV : first_vchild p (vorph V) = Some c).
      { rewrite <- (r_orph F V RL). unfold first_vchild. apply find_filter_some; [exact Fc|]. unfold nbi. rewrite Cnb. reflexivity. }
      rewrite FcV.
      remember (mkV (vidx V) (remove_vorph (ihash c) (vorph V)) (vmain V) (vstore V)) as V0 eqn:EV0.
      assert (R0 : Rel F0 V0).
      { rewrite EF0, EV0. destruct RL as [A B C D]. constructor; simpl; auto. rewrite remove_vorph_nb, C. reflexivity. }
      assert (HcV : In c (vorph V)) by (unfold first_vchild in FcV; apply find_some in FcV; tauto).
      assert (LV : (length (vorph V0) < length (vorph V))%nat) by (rewrite EV0; simpl; apply remove_vorph_lt; exact HcV).
      destruct (vaccept_valid_rel F0 V0 c G0 R0 HcU Vc) as [G1 [R1 [_ E1]]].
      pose proof (orph_vaccept verr fin F0 c) as O1. pose proof (orph_vaccept verr fin V0 c) as O2.
      destruct (vaccept verr fin F0 c) as [[F1 m1] e1]. destruct (vaccept verr fin V0 c) as [[V1 m2] e2].
      simpl in G1, R1, E1, O1, O2. subst e2.
      assert (Hq1 : filter nbh ((p :: q') ++ [ihash c]) = (p :: filter nbh q') ++ [ihash c]).
      { rewrite filter_app, E. simpl. unfold nbh at 2. rewrite Cnb. reflexivity. }
      destruct e1;
        try (simpl; split; [exact G1 | split; [exact R1 | reflexivity]]);
        try (rewrite <- E; apply IH; auto; unfold need in *; rewrite ?E; simpl in HnF, HnV |- *; rewrite ?O1, ?O2; lia).
      rewrite <- Hq1. apply IH; auto; unfold need in *; rewrite ?Hq1, ?app_length; simpl in HnF, HnV |- *;
        rewrite ?app_length, ?O1, ?O2; simpl; lia.
    + (* a rejected orphan: dropped by the first run, unknown to the second *)
      pose proof (bad_intro c HcU Vc) as Cb.
      assert (R0 : Rel F0 V).
      { rewrite EF0. destruct RL as [A B C D]. constructor; simpl; auto. rewrite remove_vorph_bad by exact Cb. exact C. }
      destruct (vaccept_bad_rel F0 V c G0 R0 HcU Vc) as [G1 [R1 [NP NF]]].
      pose proof (orph_vaccept verr fin F0 c) as O1.
      destruct (vaccept verr fin F0 c) as [[F1 m1] e1]. simpl in G1, R1, NP, NF, O1.
      assert (Hq1 : filter nbh ((p :: q') ++ [ihash c]) = p :: filter nbh q').
      { rewrite filter_app, E. simpl. unfold nbh at 2. rewrite Cb. simpl. rewrite app_nil_r. reflexivity. }
      destruct e1; try contradiction;
        try (rewrite <- E; apply IH; auto; unfold need in *; rewrite ?E; simpl in HnF, HnV |- *; rewrite ?O1; lia).
      rewrite <- Hq1. apply IH; auto; unfold need in *; rewrite ?Hq1, ?app_length; simpl in HnF, HnV |- *;
        rewrite ?app_length, ?O1; simpl; lia.
Qed.

(** ---- ProcessBlock ---- *)
Lemma vdeliver_valid_rel : forall F V i,
  GoodF F -> Rel F V -> In i U -> valid_item verr i = true ->
  GoodF (fst (vdeliver verr fin F i)) /\ Rel (fst (vdeliver verr fin F i)) (fst (vdeliver verr fin V i))
  /\ snd (vdeliver verr fin F i) = snd (vdeliver verr fin V i).
Proof.
  intros F V i GF RL Hi Hv.
  pose proof (valid_nb i Hi Hv) as Hnb. pose proof (par_nb i Hi) as Hpnb. unfold ihash in Hnb.
  unfold vdeliver.
  rewrite <- (r_idx F V RL), <- (r_orph F V RL), !in_vidx_nb, in_vorph_nb by assumption.
  destruct (in_vidx (bid (iblk i)) (vidx F)); [simpl; auto|].
  destruct (in_vorph (bid (iblk i)) (vorph F) && negb (in_vidx (bpar (iblk i)) (vidx F))); [simpl; auto|].
  set (F1 := if in_vorph (bid (iblk i)) (vorph F)
             then mkV (vidx F) (remove_vorph (bid (iblk i)) (vorph F)) (vmain F) (vstore F) else F).
  set (V1 := if in_vorph (bid (iblk i)) (vorph F)
             then mkV (filter nbn (vidx F)) (remove_vorph (bid (iblk i)) (filter nbi (vorph F))) (vmain V) (vstore V) else V).
  assert (H1 : GoodF F1 /\ Rel F1 V1 /\ vidx F1 = vidx F).
  { unfold F1, V1. destruct (in_vorph _ _); [|auto]. split; [|split; [|reflexivity]].
    - apply GoodF_set_orph; [exact GF|]. intros x Hx. apply remove_vorph_in in Hx. apply (f_orphU F GF); exact Hx.
    - destruct RL as [A B C D]. constructor; simpl; auto. apply remove_vorph_nb. }
  destruct H1 as [G1 [R1 I1]]. clearbody F1 V1.
  rewrite <- (r_idx F1 V1 R1), in_vidx_nb by assumption.
  destruct (negb (in_vidx (bpar (iblk i)) (vidx F1))).
  - simpl. split; [|split; [|reflexivity]].
    + apply GoodF_set_orph; [exact G1|]. intros x Hx. apply in_app_or in Hx.
      destruct Hx as [Hx|[Hx|[]]]; [apply (f_orphU F1 G1); exact Hx | subst; exact Hi].
    + destruct R1 as [A B C D]. constructor; simpl; auto.
      rewrite filter_app, C. simpl. unfold nbi at 1. unfold ihash. rewrite Hnb. reflexivity.
  - destruct (vaccept_valid_rel F1 V1 i G1 R1 Hi Hv) as [G2 [R2 [M2 E2]]].
    destruct (vaccept verr fin F1 i) as [[F2 m1] e1]. destruct (vaccept verr fin V1 i) as [[V2 m2] e2].
    simpl in G2, R2, M2, E2. subst e2 m2.
    destruct e1; simpl; auto.
    destruct (vporph_rel (vporph_fuel F2) [bid (iblk i)] F2 (vporph_fuel V2) V2 G2 R2) as [G3 [R3 E3]].
    { unfold need, vporph_fuel. simpl. lia. }
    { simpl. unfold nbh. rewrite Hnb. simpl. unfold need, vporph_fuel. simpl. lia. }
    assert (Eq : filter nbh [bid (iblk i)] = [bid (iblk i)]) by (simpl; unfold nbh; rewrite Hnb; reflexivity).
    rewrite Eq in R3, E3.
    destruct (vporph verr (vporph_fuel F2) fin [bid (iblk i)] F2) as [F3 e3].
    destruct (vporph verr (vporph_fuel V2) fin [bid (iblk i)] V2) as [V3 e4].
    simpl in G3, R3, E3. subst e4. destruct e3; simpl; auto.
Qed.

Lemma vdeliver_bad_rel : forall F V i,
  GoodF F -> Rel F V -> In i U -> valid_item verr i = false ->
  GoodF (fst (vdeliver verr fin F i)) /\ Rel (fst (vdeliver verr fin F i)) V.
Proof.
  intros F V i GF RL Hi Hv.
  pose proof (bad_intro i Hi Hv) as Hb. unfold ihash in Hb.
  unfold vdeliver.
  destruct (in_vidx (bid (iblk i)) (vidx F)); [simpl; auto|].
  destruct (in_vorph (bid (iblk i)) (vorph F) && negb (in_vidx (bpar (iblk i)) (vidx F))); [simpl; auto|].
  set (F1 := if in_vorph (bid (iblk i)) (vorph F)
             then mkV (vidx F) (remove_vorph (bid (iblk i)) (vorph F)) (vmain F) (vstore F) else F).
  assert (H1 : GoodF F1 /\ Rel F1 V).
  { unfold F1. destruct (in_vorph _ _); [|auto]. split.
    - apply GoodF_set_orph; [exact GF|]. intros x Hx. apply remove_vorph_in in Hx. apply (f_orphU F GF); exact Hx.
    - destruct RL as [A B C D]. constructor; simpl; auto. rewrite remove_vorph_bad by exact Hb. exact C. }
  destruct H1 as [G1 R1]. clearbody F1.
  destruct (negb (in_vidx (bpar (iblk i)) (vidx F1))).
  - simpl. split.
    + apply GoodF_set_orph; [exact G1|]. intros x Hx. apply in_app_or in Hx.
      destruct Hx as [Hx|[Hx|[]]]; [apply (f_orphU F1 G1); exact Hx | subst; exact Hi].
    + destruct R1 as [A B C D]. constructor; simpl; auto.
      rewrite filter_app, C. simpl. unfold nbi at 1. unfold ihash. rewrite Hb. simpl. apply app_nil_r.
  - destruct (vaccept_bad_rel F1 V i G1 R1 Hi Hv) as [G2 [R2 _]].
    destruct (vaccept verr fin F1 i) as [[F2 m1] e1]. simpl in G2, R2.
    destruct e1; simpl; auto.
    assert (Eq : filter nbh [bid (iblk i)] = []) by (simpl; unfold nbh; rewrite Hb; reflexivity).
    destruct (vporph_rel (vporph_fuel F2) [bid (iblk i)] F2 (S (2 * length (vorph V))) V G2 R2) as [G3 [R3 _]].
    { unfold need, vporph_fuel. simpl. lia. }
    { rewrite Eq. unfold need. simpl. lia. }
    rewrite Eq in R3. cbn [vporph fst] in R3.
    destruct (vporph verr (vporph_fuel F2) fin [bid (iblk i)] F2) as [F3 e3]. simpl in G3, R3.
    destruct e3; simpl; auto.
Qed.

Lemma vrun_rel : forall l, incl l U -> forall F V,
  GoodF F -> Rel F V ->
  Rel (fold_left (vstep verr fin) l F) (fold_left (vstep verr fin) (filter (valid_item verr) l) V).
Proof.
  induction l as [|i l IH]; intros Hl F V GF RL; simpl; [exact RL|].
  assert (Hi : In i U) by (apply Hl; left; reflexivity).
  assert (Hl' : incl l U) by (intros x Hx; apply Hl; right; exact Hx).
  destruct (valid_item verr i) eqn:Vi; simpl.
  - destruct (vdeliver_valid_rel F V i GF RL Hi Vi) as [G1 [R1 _]]. apply IH; assumption.
  - destruct (vdeliver_bad_rel F V i GF RL Hi Vi) as [G1 R1]. apply IH; assumption.
Qed.

Lemma init_rel : GoodF (vinit g) /\ Rel (vinit g) (vinit g).
Proof.
  split.
  - constructor; simpl.
    + intros n [H|[]]; subst; simpl. exact rootpar_nb.
    + intros o [].
    + intros n [H|[]]; subst; reflexivity.
    + intros n [H|[]]; subst; left; reflexivity.
    + split; [discriminate | reflexivity].
    + intros h [H|[]]; subst. exact root_nb.
    + intros h b [H|[]] _. inversion H; subst. exact q_root_valid.
  - constructor; simpl; auto. unfold nbn. unfold vid. simpl. rewrite root_nb. reflexivity.
Qed.

End Invisible.

(** rejected blocks that are below the margin, share their hash with no valid
    delivery and are nobody's parent are as if they had never arrived *)
Lemma rejected_invisible_partial : forall (verr : N -> N -> N) (fin : Z) (g : block) (hist : list item),
  quiet_rejects verr fin g hist = true ->
  vmain (vrun verr fin g hist) = vmain (vrun verr fin g (filter (valid_item verr) hist))
  /\ vtip (vrun verr fin g hist) = vtip (vrun verr fin g (filter (valid_item verr) hist)).
Proof.
  intros verr fin g hist HQ.
  destruct (init_rel verr fin g hist HQ) as [G0 R0].
  pose proof (vrun_rel verr fin g hist HQ hist (incl_refl hist) (vinit g) (vinit g) G0 R0) as R.
  unfold vrun, vtip. rewrite (r_main _ _ _ _ R). split; reflexivity.
Qed.
