(** C27 — when every delivered block is valid and the heights are consistent
    along the parent links, the model of this property makes exactly the moves
    of C25's chain-selection model (so C25's convergence theorem speaks about
    it): the additions of C27 — body table, error marks, deletion from the
    index — are inert without invalid blocks.  (Heights: C25's model of
    ProcessOrphans stops at an orphan with a wrong height, the repaired code
    and this model go on; with consistent heights neither ever refuses one.) *)
From Coq Require Import List ZArith NArith Bool Lia.
From C33 Require Import C27.Model C27.Proofs.
Import ListNotations.
Open Scope Z_scope.

Definition nproj (n : vnode) : node := mkN (vblk n) (vtd n).

Lemma find_proj : forall h ix, find_node h (map nproj ix) = option_map nproj (find_vnode h ix).
Proof.
  intros h ix. induction ix as [|a ix IH]; simpl; [reflexivity|].
  unfold vid. destruct (N.eqb (bid (vblk a)) h); [reflexivity | exact IH].
Qed.

Lemma in_idx_proj : forall h ix, in_idx h (map nproj ix) = in_vidx h ix.
Proof. intros. unfold in_idx, in_vidx. rewrite find_proj. destruct (find_vnode h ix); reflexivity. Qed.

Lemma in_orph_proj : forall h o, in_orph h (map iblk o) = in_vorph h o.
Proof. intros h o. unfold in_orph, in_vorph. induction o as [|a o IH]; simpl; [reflexivity|]. rewrite IH. reflexivity. Qed.

Lemma remove_orph_proj : forall h o, remove_orph h (map iblk o) = map iblk (remove_vorph h o).
Proof.
  intros h o. unfold remove_orph, remove_vorph. induction o as [|a o IH]; simpl; [reflexivity|].
  unfold ihash at 1. destruct (negb (N.eqb (bid (iblk a)) h)); simpl; rewrite IH; reflexivity.
Qed.

Lemma first_child_proj : forall p o, first_child p (map iblk o) = option_map iblk (first_vchild p o).
Proof.
  intros p o. unfold first_child, first_vchild. induction o as [|a o IH]; simpl; [reflexivity|].
  destruct (N.eqb (bpar (iblk a)) p); [reflexivity | exact IH].
Qed.

Lemma find_vnode_some : forall h ix n, find_vnode h ix = Some n -> In n ix /\ vid n = h.
Proof. intros h ix n H. unfold find_vnode in H. apply find_some in H. destruct H as [A B]. apply N.eqb_eq in B. auto. Qed.

Lemma in_vidx_cons_mono : forall h n ix, in_vidx h ix = true -> in_vidx h (n :: ix) = true.
Proof.
  intros h n ix H. unfold in_vidx, find_vnode in *. simpl. destruct (N.eqb (vid n) h); [reflexivity | exact H].
Qed.

Lemma in_vidx_in : forall n ix, In n ix -> in_vidx (vid n) ix = true.
Proof.
  intros n ix H. unfold in_vidx, find_vnode. destruct (find (fun m => N.eqb (vid m) (vid n)) ix) eqn:F; [reflexivity|].
  exfalso. pose proof (find_none _ _ F n H) as E. simpl in E. rewrite N.eqb_refl in E. discriminate.
Qed.

Lemma memN_in : forall h l, memN h l = true -> In h l.
Proof.
  intros h l H. unfold memN in H. apply existsb_exists in H. destruct H as [x [Hx E]]. apply N.eqb_eq in E. subst. exact Hx.
Qed.

Lemma last_cons_ne : forall (x : N) l d, l <> [] -> last (x :: l) d = last l d.
Proof. intros x l d H. destruct l; [contradiction | reflexivity]. Qed.

Lemma last_app_ne : forall (p l : list N) d, l <> [] -> last (p ++ l) d = last l d.
Proof.
  induction p as [|x p IH]; intros l d H; simpl app; [reflexivity|].
  rewrite last_cons_ne; [apply IH; exact H | destruct p; simpl; [exact H | discriminate]].
Qed.

Lemma drop_until_last : forall fk l d, In fk l -> drop_until fk l <> [] /\ last (drop_until fk l) d = last l d.
Proof.
  intros fk l d. induction l as [|x l IH]; intros H; [destruct H|].
  simpl drop_until. destruct (N.eqb x fk) eqn:E; [split; [discriminate | reflexivity]|].
  destruct H as [H|H]; [subst; rewrite N.eqb_refl in E; discriminate|].
  destruct (IH H) as [A B]. split; [exact A|]. rewrite B. symmetry. apply last_cons_ne. intro; subst; destruct H.
Qed.

Lemma sget_app_some : forall k a st, sget k st <> None -> sget k (a ++ st) <> None.
Proof.
  intros k a st H. unfold sget in *. induction a as [|[h b] a IH]; simpl; [exact H|].
  destruct (N.eqb h k); [discriminate | exact IH].
Qed.

(** heights consistent along parent links (boolean, over a list of blocks) *)
Definition hconsb (BL : list block) : bool :=
  forallb (fun a => forallb (fun b => negb (N.eqb (bpar a) (bid b)) || (bht a =? bht b + 1)) BL) BL.

Lemma hconsb_spec : forall BL, hconsb BL = true ->
  forall a b, In a BL -> In b BL -> bpar a = bid b -> bht a = bht b + 1.
Proof.
  intros BL H a b Ha Hb E. unfold hconsb in H. rewrite forallb_forall in H. specialize (H a Ha).
  rewrite forallb_forall in H. specialize (H b Hb). rewrite E, N.eqb_refl in H. simpl in H.
  apply Z.eqb_eq in H. exact H.
Qed.

Section Refine.
Variable verr : N -> N -> N.
Variable g : block.
Hypothesis Hroot : verr (bid g) 0 = 0%N.
Variable BL : list block.
Hypothesis HgBL : In g BL.
Hypothesis Hcons : forall a b, In a BL -> In b BL -> bpar a = bid b -> bht a = bht b + 1.

Definition ivalid (i : item) : Prop := verr (ihash i) (ibody i) = 0%N.

Record Good (vs : vstate) : Prop := mkGood {
  g_nocut  : forall n, In n (vidx vs) -> vcut n = false;
  g_closed : forall n, In n (vidx vs) -> vid n = bid g \/ in_vidx (bpar (vblk n)) (vidx vs) = true;
  g_root   : vmain vs <> [] /\ last (vmain vs) 0%N = bid g;
  g_orph   : forall o, In o (vorph vs) -> ivalid o;
  g_store  : forall h b, In (h, b) (vstore vs) -> verr h b = 0%N;
  g_has    : forall n, In n (vidx vs) -> sget (vid n) (vstore vs) <> None;
  g_main   : forall h, In h (vmain vs) -> in_vidx h (vidx vs) = true;
  g_blk    : forall n, In n (vidx vs) -> In (vblk n) BL;
  g_orphB  : forall o, In o (vorph vs) -> In (iblk o) BL
}.

Record Sim (vs : vstate) (s : state) : Prop := mkSim {
  sim_idx  : idx s = map nproj (vidx vs);
  sim_orph : orph s = map iblk (vorph vs);
  sim_main : main s = vmain vs
}.

Inductive erel : verrc -> errc -> Prop :=
| er_none : erel VNone ENone | er_fuel : erel VFuel EFuel.

Lemma sim_tip : forall vs s, Sim vs s -> tip s = vtip vs.
Proof. intros vs s [_ _ M]. unfold tip, vtip. rewrite M. reflexivity. Qed.

(** the walk to the fork point *)
Lemma branch_sim : forall ix mn,
  (forall n, In n ix -> vcut n = false) ->
  (forall n, In n ix -> vid n = bid g \/ in_vidx (bpar (vblk n)) ix = true) ->
  In (bid g) mn ->
  forall fuel h, in_vidx h ix = true ->
  match branch fuel (map nproj ix) mn h with
  | Some (p, fk) => vbranch fuel ix mn h = BFork p fk /\ In fk mn /\ (forall x, In x p -> in_vidx x ix = true)
  | None => vbranch fuel ix mn h = BFuel
  end.
Proof.
  intros ix mn Hcut Hcl Hr fuel. induction fuel as [|f IH]; intros h Hin; simpl; [reflexivity|].
  destruct (memN h mn) eqn:M.
  - split; [reflexivity|]. split; [apply memN_in; exact M | intros x []].
  - rewrite find_proj. unfold in_vidx in Hin. destruct (find_vnode h ix) as [n|] eqn:F; [|discriminate].
    simpl option_map. cbv iota. simpl nblk.
    destruct (find_vnode_some _ _ _ F) as [Hn Hv].
    rewrite (Hcut n Hn).
    assert (Hp : in_vidx (bpar (vblk n)) ix = true).
    { destruct (Hcl n Hn) as [E|E]; [|exact E]. exfalso.
      assert (memN h mn = true).
      { unfold memN. apply existsb_exists. exists (bid g). split; [exact Hr|]. apply N.eqb_eq. congruence. }
      congruence. }
    specialize (IH (bpar (vblk n)) Hp).
    destruct (branch f (map nproj ix) mn (bpar (vblk n))) as [[p fk]|].
    + destruct IH as [A [B C]]. rewrite A. split; [reflexivity|]. split; [exact B|].
      intros x [Hx|Hx]; [subst x; rewrite <- Hv; apply in_vidx_in; exact Hn | apply C; exact Hx].
    + rewrite IH. reflexivity.
Qed.

Lemma attach_valid : forall lp s,
  (forall h b, In (h, b) lp -> verr h b = 0%N) ->
  attach verr s lp = (mkV (vidx s) (vorph s) (rev (map fst lp) ++ vmain s) (rev lp ++ vstore s), VNone).
Proof.
  induction lp as [|[h b] lp IH]; intros s H; simpl.
  - destruct s; reflexivity.
  - unfold connect_block. rewrite (H h b (or_introl eq_refl)). simpl.
    rewrite IH; [|intros; apply H; right; assumption]. simpl.
    rewrite <- !app_assoc. reflexivity.
Qed.

Lemma load_all_ok : forall st p,
  (forall h, In h p -> sget h st <> None) ->
  exists lp, load_all st p = Some lp /\ map fst lp = p.
Proof.
  intros st p. induction p as [|h p IH]; intros H; simpl; [exists []; auto|].
  destruct (sget h st) as [b|] eqn:E; [|exfalso; apply (H h (or_introl eq_refl)); exact E].
  destruct IH as [lp [A B]]; [intros; apply H; right; assumption|].
  rewrite A. exists ((h, b) :: lp). simpl. rewrite B. auto.
Qed.

Lemma Good_connect : forall vs h body,
  Good vs -> verr h body = 0%N -> in_vidx h (vidx vs) = true ->
  Good (mkV (vidx vs) (vorph vs) (h :: vmain vs) ((h, body) :: vstore vs)).
Proof.
  intros vs h body [A B [C1 C2] D E F G1 G2 G3] Hv Hin. constructor; simpl; auto.
  - split; [discriminate|]. destruct (vmain vs) as [|x l]; [contradiction | exact C2].
  - intros k b [H|H]; [inversion H; subst; exact Hv | apply E; exact H].
  - intros n Hn. apply (sget_app_some (vid n) [(h, body)]). apply F; exact Hn.
  - intros k [H|H]; [subst k; exact Hin | apply G1; exact H].
Qed.

Lemma good_tip_indexed : forall vs, Good vs -> exists t, find_vnode (vtip vs) (vidx vs) = Some t.
Proof.
  intros vs HG. pose proof (g_root vs HG) as [R1 _]. pose proof (g_main vs HG) as M.
  unfold vtip. destruct (vmain vs) as [|x l]; [contradiction|]. simpl.
  specialize (M x (or_introl eq_refl)). unfold in_vidx in M.
  destruct (find_vnode x (vidx vs)) as [t|]; [exists t; reflexivity | discriminate].
Qed.

(** what one acceptance yields in a world of valid blocks *)
Definition ok_code (e : verrc) : Prop := e = VNone \/ e = VFuel.

Ltac triv HG HS :=
  simpl; split; [exact HG | split; [exact HS | split; [reflexivity | split; [constructor |
    split; [first [left; reflexivity | right; reflexivity] | split; reflexivity]]]]].

Lemma vconnect_best_sim : forall fin vs s b td body,
  Good vs -> Sim vs s -> verr (bid b) body = 0%N -> in_vidx (bid b) (vidx vs) = true ->
  let r1 := vconnect_best verr fin vs b td body in
  let r2 := connect_best fin s b td in
  Good (fst (fst r1)) /\ Sim (fst (fst r1)) (fst (fst r2))
  /\ snd (fst r1) = snd (fst r2) /\ erel (snd r1) (snd r2)
  /\ ok_code (snd r1) /\ vidx (fst (fst r1)) = vidx vs /\ vorph (fst (fst r1)) = vorph vs.
Proof.
  intros fin vs s b td body HG HS Hv Hin. cbv zeta.
  unfold vconnect_best, connect_best. rewrite (sim_tip vs s HS).
  destruct (N.eqb (bpar b) (vtip vs)).
  - unfold connect_block. rewrite Hv. simpl.
    split; [apply Good_connect; assumption|].
    split; [|split; [reflexivity | split; [constructor | split; [left; reflexivity | split; reflexivity]]]].
    destruct HS as [A B C]. constructor; simpl; [exact A | exact B | rewrite C; reflexivity].
  - pose proof HS as [SA SB SC]. rewrite SA, find_proj.
    destruct (good_tip_indexed vs HG) as [t Ft]. rewrite Ft. simpl option_map. cbv iota.
    simpl ntd.
    pose proof HG as [GA GB [GC1 GC2] GD GE GF GM GK GO].
    assert (Hr : In (bid g) (vmain vs)).
    { rewrite <- GC2. destruct (vmain vs) as [|x l]; [contradiction|]. apply (@exists_last _ (x :: l)) in GC1 as [l' [a E]].
      rewrite E. rewrite last_last. apply in_or_app. right. left. reflexivity. }
    pose proof (branch_sim (vidx vs) (vmain vs) GA GB Hr (S (Z.to_nat (bht b))) (bid b) Hin) as HB.
    rewrite SC.
    destruct ((td <=? vtd t) || (bht b <? fin + margin)).
    + assert (E : match vbranch (S (Z.to_nat (bht b))) (vidx vs) (vmain vs) (bid b) with
                  | BNil => (vs, false, VParent) | _ => (vs, false, VNone) end = (vs, false, VNone)).
      { destruct (branch _ _ _ _) as [[p fk]|]; [destruct HB as [HB _]|]; rewrite HB; reflexivity. }
      rewrite E. triv HG HS.
    + destruct (branch (S (Z.to_nat (bht b))) (map nproj (vidx vs)) (vmain vs) (bid b)) as [[p fk]|].
      2:{ rewrite HB. triv HG HS. }
      destruct HB as [HB [Hfk Hp]]. rewrite HB.
      destruct (load_all_ok (vstore vs) (rev p)) as [lp [L1 L2]].
      { intros h Hh. apply in_rev in Hh. specialize (Hp h Hh). unfold in_vidx in Hp.
        destruct (find_vnode h (vidx vs)) as [n|] eqn:F; [|discriminate].
        destruct (find_vnode_some _ _ _ F) as [Hn E]. rewrite <- E. apply GF; exact Hn. }
      rewrite L1.
      assert (Hlp : forall h x, In (h, x) lp -> verr h x = 0%N).
      { intros h x Hx. apply GE. apply sget_in. eapply load_all_in; eauto. }
      rewrite attach_valid by exact Hlp. simpl.
      rewrite L2, rev_involutive.
      destruct (drop_until_last fk (vmain vs) 0%N Hfk) as [D1 D2].
      split; [|split; [constructor; simpl; auto | split; [reflexivity | split; [constructor |
               split; [left; reflexivity | split; reflexivity]]]]].
      constructor; simpl.
      * exact GA.
      * exact GB.
      * split; [intro E; apply app_eq_nil in E; destruct E as [_ E]; contradiction|].
        rewrite last_app_ne by exact D1. rewrite D2. exact GC2.
      * exact GD.
      * intros h x Hx. apply in_app_or in Hx. destruct Hx as [Hx|Hx]; [apply Hlp; apply in_rev; exact Hx | apply GE; exact Hx].
      * intros n Hn. apply sget_app_some. apply GF; exact Hn.
      * intros h Hh. apply in_app_or in Hh. destruct Hh as [Hh|Hh]; [apply Hp; exact Hh | apply GM; eapply drop_until_in; exact Hh].
      * exact GK.
      * exact GO.
Qed.

Lemma vaccept_sim : forall fin vs s i,
  Good vs -> Sim vs s -> ivalid i -> In (iblk i) BL -> in_vidx (bpar (iblk i)) (vidx vs) = true ->
  let r1 := vaccept verr fin vs i in
  let r2 := accept fin s (iblk i) in
  Good (fst (fst r1)) /\ Sim (fst (fst r1)) (fst (fst r2))
  /\ snd (fst r1) = snd (fst r2) /\ erel (snd r1) (snd r2)
  /\ ok_code (snd r1)
  /\ (exists nd, vidx (fst (fst r1)) = nd :: vidx vs /\ vid nd = ihash i)
  /\ vorph (fst (fst r1)) = vorph vs.
Proof.
  intros fin vs s i HG HS Hv HiB Hpar. cbv zeta. unfold vaccept, accept.
  pose proof HS as [SA SB SC]. rewrite SA, find_proj.
  unfold in_vidx in Hpar.
  destruct (find_vnode (bpar (iblk i)) (vidx vs)) as [p|] eqn:Fp; [|discriminate].
  simpl option_map. cbv iota. simpl nblk. simpl ntd.
  destruct (find_vnode_some _ _ _ Fp) as [Hp Hpv].
  assert (Hh : bht (iblk i) = bht (vblk p) + 1).
  { apply Hcons; [exact HiB | apply (g_blk vs HG); exact Hp | symmetry; exact Hpv]. }
  rewrite Hh, Z.eqb_refl. simpl negb. cbv iota.
  set (nd := mkVN (iblk i) (vtd p + bdiff (iblk i)) false (is_down (ipath i)) false).
  set (vs1 := mkV (nd :: vidx vs) (vorph vs) (vmain vs) (maybe_store (bid (iblk i)) (ibody i) (vstore vs))).
  set (s1 := mkS (mkN (iblk i) (vtd p + bdiff (iblk i)) :: map nproj (vidx vs)) (orph s) (main s) (evs s)).
  destruct (vconnect_best_sim fin vs1 s1 (iblk i) (vtd p + bdiff (iblk i)) (ibody i)) as [R1 [R2 [R3 [R4 [R5 [R6 R7]]]]]].
  - destruct HG as [GA GB GC GD GE GF GM GK GO]. constructor; simpl; auto.
    + intros n [Hn|Hn]; [subst n; reflexivity | apply GA; exact Hn].
    + intros n [Hn|Hn].
      * subst n. right. simpl. apply in_vidx_cons_mono. unfold in_vidx. rewrite Fp. reflexivity.
      * destruct (GB n Hn) as [E|E]; [left; exact E | right; apply in_vidx_cons_mono; exact E].
    + intros h b Hin. apply maybe_store_in in Hin. destruct Hin as [Hin|Hin]; [inversion Hin; subst; exact Hv | apply GE; exact Hin].
    + intros n [Hn|Hn].
      * subst n. unfold vid. simpl. destruct (sget (bid (iblk i)) (vstore vs)) as [x|] eqn:E.
        -- rewrite (maybe_store_keep _ _ _ _ _ E). discriminate.
        -- rewrite (maybe_store_has _ _ _ E). discriminate.
      * specialize (GF n Hn). destruct (sget (vid n) (vstore vs)) as [x|] eqn:E; [|contradiction].
        rewrite (maybe_store_keep _ _ _ _ _ E). discriminate.
    + intros h Hh'. apply in_vidx_cons_mono. apply GM; exact Hh'.
    + intros n [Hn|Hn]; [subst n; exact HiB | apply GK; exact Hn].
  - constructor; simpl; auto.
  - exact Hv.
  - simpl. unfold in_vidx, find_vnode. simpl. unfold vid at 1. simpl. rewrite N.eqb_refl. reflexivity.
  - split; [exact R1|]. split; [exact R2|]. split; [exact R3|]. split; [exact R4|]. split; [exact R5|].
    split; [exists nd; split; [exact R6 | reflexivity] | exact R7].
Qed.

Lemma Good_set_orph : forall vs o,
  Good vs -> (forall x, In x o -> ivalid x /\ In (iblk x) BL) -> Good (mkV (vidx vs) o (vmain vs) (vstore vs)).
Proof.
  intros vs o [A B C D E F G1 G2 G3] H. constructor; simpl; auto.
  - intros x Hx. apply H; exact Hx.
  - intros x Hx. apply H; exact Hx.
Qed.

Lemma vporph_sim : forall fuel fin q vs s,
  Good vs -> Sim vs s -> (forall p, In p q -> in_vidx p (vidx vs) = true) ->
  let r1 := vporph verr fuel fin q vs in
  let r2 := porph fuel fin q s in
  Good (fst r1) /\ Sim (fst r1) (fst r2) /\ erel (snd r1) (snd r2).
Proof.
  induction fuel as [|f IH]; intros fin q vs s HG HS Hq; cbv zeta; simpl.
  { split; [exact HG | split; [exact HS | constructor]]. }
  destruct q as [|p q'].
  { simpl. split; [exact HG | split; [exact HS | constructor]]. }
  pose proof HS as [SA SB SC]. rewrite SB, first_child_proj.
  destruct (first_vchild p (vorph vs)) as [c|] eqn:F; simpl option_map; cbv iota.
  2:{ apply IH; [exact HG | exact HS | intros x Hx; apply Hq; right; exact Hx]. }
  assert (Hc : In c (vorph vs) /\ bpar (iblk c) = p).
  { unfold first_vchild in F. apply find_some in F. destruct F as [F1 F2]. apply N.eqb_eq in F2. tauto. }
  destruct Hc as [Hc Hcp].
  set (vs0 := mkV (vidx vs) (remove_vorph (ihash c) (vorph vs)) (vmain vs) (vstore vs)).
  set (s0 := mkS (idx s) (remove_orph (bid (iblk c)) (map iblk (vorph vs))) (main s) (evs s)).
  assert (G0 : Good vs0).
  { apply Good_set_orph; [exact HG|]. intros x Hx. apply remove_vorph_in in Hx.
    split; [apply (g_orph vs HG) | apply (g_orphB vs HG)]; exact Hx. }
  assert (S0 : Sim vs0 s0).
  { constructor; simpl; auto. apply remove_orph_proj. }
  destruct (vaccept_sim fin vs0 s0 c G0 S0) as [G1 [S1 [_ [E1 [C1 [[nd [I1 I2]] _]]]]]].
  { apply (g_orph vs HG); exact Hc. }
  { apply (g_orphB vs HG); exact Hc. }
  { simpl. rewrite Hcp. apply Hq. left. reflexivity. }
  destruct (vaccept verr fin vs0 c) as [[vs1 m1] e1]. destruct (accept fin s0 (iblk c)) as [[s1 m2] e2].
  simpl in G1, S1, E1, C1, I1.
  destruct C1 as [C1|C1]; subst e1; inversion E1; subst; simpl.
  - apply IH; [exact G1 | exact S1 |].
    intros x Hx. rewrite I1.
    assert (Hx2 : In x (bpar (iblk c) :: q') \/ x = ihash c).
    { destruct Hx as [Hx|Hx]; [left; left; exact Hx|]. apply in_app_or in Hx.
      destruct Hx as [Hx|[Hx|[]]]; [left; right; exact Hx | right; symmetry; exact Hx]. }
    destruct Hx2 as [Hx2|Hx2].
    + apply in_vidx_cons_mono. apply (Hq x Hx2).
    + subst x. unfold in_vidx, find_vnode. simpl. rewrite I2, N.eqb_refl. reflexivity.
  - split; [exact G1 | split; [exact S1 | constructor]].
Qed.

Lemma vdeliver_sim : forall fin vs s i,
  Good vs -> Sim vs s -> ivalid i -> In (iblk i) BL ->
  Good (fst (vdeliver verr fin vs i)) /\ Sim (fst (vdeliver verr fin vs i)) (fst (deliver fin s (iblk i))).
Proof.
  intros fin vs s i HG HS Hv HiB. unfold vdeliver, deliver.
  pose proof HS as [SA SB SC]. rewrite SA, SB, !in_idx_proj, in_orph_proj.
  destruct (in_vidx (bid (iblk i)) (vidx vs)); [simpl; auto|].
  destruct (in_vorph (bid (iblk i)) (vorph vs) && negb (in_vidx (bpar (iblk i)) (vidx vs))); [simpl; auto|].
  set (vs1 := if in_vorph (bid (iblk i)) (vorph vs)
              then mkV (vidx vs) (remove_vorph (bid (iblk i)) (vorph vs)) (vmain vs) (vstore vs) else vs).
  set (s1 := if in_vorph (bid (iblk i)) (vorph vs)
             then mkS (map nproj (vidx vs)) (remove_orph (bid (iblk i)) (map iblk (vorph vs))) (main s) (evs s) else s).
  assert (G1 : Good vs1 /\ Sim vs1 s1).
  { unfold vs1, s1. destruct (in_vorph _ _); [|auto]. split.
    - apply Good_set_orph; [exact HG|]. intros x Hx. apply remove_vorph_in in Hx.
      split; [apply (g_orph vs HG) | apply (g_orphB vs HG)]; exact Hx.
    - constructor; simpl; auto. apply remove_orph_proj. }
  destruct G1 as [G1 S1]. clearbody vs1 s1. pose proof S1 as [SA1 SB1 SC1].
  rewrite SA1, in_idx_proj.
  destruct (in_vidx (bpar (iblk i)) (vidx vs1)) eqn:Hpar; simpl negb; cbv iota.
  - destruct (vaccept_sim fin vs1 s1 i G1 S1 Hv HiB Hpar) as [G2 [S2 [_ [E2 [C2 [[nd [I1 I2]] _]]]]]].
    destruct (vaccept verr fin vs1 i) as [[vs2 m1] e1]. destruct (accept fin s1 (iblk i)) as [[s2 m2] e2].
    simpl in G2, S2, E2, C2, I1.
    destruct C2 as [C2|C2]; subst e1; inversion E2; subst; simpl; auto.
    assert (Ef : vporph_fuel vs2 = porph_fuel s2).
    { unfold vporph_fuel, porph_fuel. destruct S2 as [_ B _]. rewrite B, map_length. reflexivity. }
    rewrite Ef.
    destruct (vporph_sim (porph_fuel s2) fin [bid (iblk i)] vs2 s2 G2 S2) as [G3 [S3 E3]].
    { intros x [Hx|[]]. subst x. rewrite I1. unfold in_vidx, find_vnode. simpl. rewrite I2. unfold ihash. rewrite N.eqb_refl. reflexivity. }
    destruct (vporph verr (porph_fuel s2) fin [bid (iblk i)] vs2) as [vs3 e3].
    destruct (porph (porph_fuel s2) fin [bid (iblk i)] s2) as [s3 e4].
    simpl in G3, S3, E3. inversion E3; subst; simpl; auto.
  - simpl. split.
    + apply Good_set_orph; [exact G1|]. intros x Hx. apply in_app_or in Hx.
      destruct Hx as [Hx|[Hx|[]]].
      * split; [apply (g_orph vs1 G1) | apply (g_orphB vs1 G1)]; exact Hx.
      * subst x. split; [exact Hv | exact HiB].
    + constructor; simpl; auto. rewrite SB1, map_app. reflexivity.
Qed.

Lemma Good_init : Good (vinit g) /\ Sim (vinit g) (init g).
Proof.
  split.
  - constructor; simpl.
    + intros n [H|[]]; subst; reflexivity.
    + intros n [H|[]]; subst; left; reflexivity.
    + split; [discriminate | reflexivity].
    + intros o [].
    + intros h b [H|[]]. inversion H; subst. exact Hroot.
    + intros n [H|[]]; subst. unfold vid. simpl. rewrite sget_head. discriminate.
    + intros h [H|[]]. subst h. unfold in_vidx, find_vnode. simpl. unfold vid. simpl. rewrite N.eqb_refl. reflexivity.
    + intros n [H|[]]; subst. simpl. exact HgBL.
    + intros o [].
  - constructor; reflexivity.
Qed.

Lemma valid_refines_gen : forall fin hist vs s,
  Good vs -> Sim vs s -> (forall i, In i hist -> ivalid i /\ In (iblk i) BL) ->
  Sim (fold_left (vstep verr fin) hist vs) (fold_left (step fin) (map iblk hist) s).
Proof.
  intros fin hist. induction hist as [|i hist IH]; intros vs s HG HS Hv; simpl; [exact HS|].
  destruct (Hv i (or_introl eq_refl)) as [V1 V2].
  destruct (vdeliver_sim fin vs s i HG HS V1 V2) as [G1 S1].
  apply IH; [exact G1 | exact S1 | intros; apply Hv; right; assumption].
Qed.

Lemma valid_refines_sect : forall fin hist,
  (forall i, In i hist -> ivalid i /\ In (iblk i) BL) ->
  vmain (vrun verr fin g hist) = main (run fin g (map iblk hist))
  /\ vtip (vrun verr fin g hist) = tip (run fin g (map iblk hist)).
Proof.
  intros fin hist Hv. destruct Good_init as [G0 S0].
  pose proof (valid_refines_gen fin hist (vinit g) (init g) G0 S0 Hv) as HS.
  split; [symmetry; apply HS | symmetry; apply sim_tip; exact HS].
Qed.

End Refine.

(** every delivered block valid, heights consistent: the best chain is C25's *)
Lemma valid_refines_C25 : forall (verr : N -> N -> N) (g : block),
  verr (bid g) 0%N = 0%N ->
  forall (fin : Z) (hist : list item),
    (forall i, In i hist -> verr (ihash i) (ibody i) = 0%N) ->
    hconsb (g :: map iblk hist) = true ->
    vmain (vrun verr fin g hist) = main (run fin g (map iblk hist))
    /\ vtip (vrun verr fin g hist) = tip (run fin g (map iblk hist)).
Proof.
  intros verr g Hroot fin hist Hv Hc.
  apply (valid_refines_sect verr g Hroot (g :: map iblk hist) (or_introl eq_refl) (hconsb_spec _ Hc)).
  intros i Hi. split; [apply Hv; exact Hi | right; apply in_map; exact Hi].
Qed.
