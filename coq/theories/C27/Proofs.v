(** C27 — invariants of the block-acceptance model over all delivery histories:
    the best chain only holds blocks whose stored body passed the checks;
    everything in the index, the orphan pool and the block table comes from a
    delivery. *)
From Coq Require Import List ZArith NArith Bool Lia.
From C33 Require Import C27.Model.
Import ListNotations.
Open Scope Z_scope.

(** ---- small facts ---- *)

Lemma sget_head : forall h b st, sget h ((h, b) :: st) = Some b.
Proof. intros. unfold sget. simpl. rewrite N.eqb_refl. reflexivity. Qed.

Lemma sget_other : forall h h' b st, h' <> h -> sget h ((h', b) :: st) = sget h st.
Proof.
  intros h h' b st Hn. unfold sget. simpl.
  destruct (N.eqb h' h) eqn:E; [apply N.eqb_eq in E; contradiction | reflexivity].
Qed.

Lemma sget_in : forall h b st, sget h st = Some b -> In (h, b) st.
Proof.
  intros h b st H. unfold sget in H.
  destruct (find (fun e => N.eqb (fst e) h) st) as [[h' b']|] eqn:F; [|discriminate].
  inversion H; subst. apply find_some in F. destruct F as [Hin He]. simpl in He.
  apply N.eqb_eq in He. subst. exact Hin.
Qed.

Lemma maybe_store_keep : forall h b st k x, sget k st = Some x -> sget k (maybe_store h b st) = Some x.
Proof.
  intros h b st k x H. unfold maybe_store. destruct (sget h st) eqn:E; [exact H|].
  destruct (N.eq_dec h k) as [->|Hn]; [congruence|]. rewrite sget_other; assumption.
Qed.

Lemma maybe_store_in : forall h b st e, In e (maybe_store h b st) -> e = (h, b) \/ In e st.
Proof.
  intros h b st e H. unfold maybe_store in H. destruct (sget h st); [right; exact H|].
  destruct H as [H|H]; [left; symmetry; exact H | right; exact H].
Qed.

Lemma maybe_store_has : forall h b st, sget h st = None -> sget h (maybe_store h b st) = Some b.
Proof. intros h b st H. unfold maybe_store. rewrite H. apply sget_head. Qed.

Lemma drop_until_in : forall fk l h, In h (drop_until fk l) -> In h l.
Proof.
  intros fk l. induction l as [|x l IH]; intros h H; simpl in *; [exact H|].
  destruct (N.eqb x fk); [exact H | right; apply IH; exact H].
Qed.

Lemma mark_err_vid : forall n, vid (mark_err n) = vid n. Proof. reflexivity. Qed.
Lemma mark_cut_vid : forall n, vid (mark_cut n) = vid n. Proof. reflexivity. Qed.

Lemma fail_vnode_from : forall h ix n, In n (fail_vnode h ix) -> exists m, In m ix /\ vid m = vid n.
Proof.
  intros h ix n H. unfold fail_vnode in H. destruct (find_vnode h ix) as [x|]; [|exists n; auto].
  destruct (vdl x).
  - apply in_map_iff in H. destruct H as [m [Hm Hin]]. apply filter_In in Hin. destruct Hin as [Hin _].
    exists m. split; [exact Hin|]. destruct (N.eqb (bpar (vblk m)) h); subst; reflexivity.
  - apply in_map_iff in H. destruct H as [m [Hm Hin]].
    exists m. split; [exact Hin|]. destruct (N.eqb (vid m) h); subst; reflexivity.
Qed.

Lemma load_all_in : forall st p lp, load_all st p = Some lp -> forall h b, In (h, b) lp -> sget h st = Some b.
Proof.
  intros st p. induction p as [|x p IH]; intros lp H h b Hin; simpl in H.
  - inversion H; subst. destruct Hin.
  - destruct (sget x st) eqn:E; [|discriminate]. destruct (load_all st p) eqn:L; [|discriminate].
    inversion H; subst. destruct Hin as [Hin|Hin]; [inversion Hin; subst; exact E | eapply IH; eauto].
Qed.

Lemma remove_vorph_in : forall h o x, In x (remove_vorph h o) -> In x o.
Proof. intros h o x H. unfold remove_vorph in H. apply filter_In in H. tauto. Qed.

(** ---- the invariant ---- *)
Section Inv.
Variable verr : N -> N -> N.
Variable g : block.

(** [D]: the deliveries so far *)
Record Inv (D : list item) (s : vstate) : Prop := mkInv {
  inv_main  : forall h, In h (vmain s) ->
                h = bid g \/ exists b, sget h (vstore s) = Some b /\ verr h b = 0%N;
  inv_idx   : forall n, In n (vidx s) -> vid n = bid g \/ exists j, In j D /\ ihash j = vid n;
  inv_orph  : forall o, In o (vorph s) -> In o D;
  inv_store : forall h b, In (h, b) (vstore s) ->
                h = bid g \/ exists j, In j D /\ ihash j = h /\ ibody j = b
}.

Lemma Inv_weaken : forall D s i, Inv D s -> Inv (i :: D) s.
Proof.
  intros D s i [A B C E]. constructor.
  - exact A.
  - intros n Hn. destruct (B n Hn) as [H|[j [Hj H]]]; [left; exact H | right; exists j; split; [right; exact Hj | exact H]].
  - intros o Ho. right. apply C; exact Ho.
  - intros h b Hin. destruct (E h b Hin) as [H|[j [Hj H]]]; [left; exact H | right; exists j; split; [right; exact Hj | exact H]].
Qed.

Lemma Inv_init : Inv [] (vinit g).
Proof.
  constructor; simpl.
  - intros h [H|[]]. left. symmetry; exact H.
  - intros n [H|[]]. subst. left. reflexivity.
  - intros o [].
  - intros h b [H|[]]. inversion H. left. reflexivity.
Qed.

(** an entry that may be written to the block table *)
Definition from_D (D : list item) (h b : N) : Prop :=
  h = bid g \/ exists j, In j D /\ ihash j = h /\ ibody j = b.

Lemma Inv_connect_block : forall D s h body,
  Inv D s -> from_D D h body -> Inv D (fst (connect_block verr s h body)).
Proof.
  intros D s h body [A B C E] Hfrom. unfold connect_block.
  destruct (N.eqb (verr h body) 0) eqn:V; simpl.
  - apply N.eqb_eq in V. constructor; simpl.
    + intros k [Hk|Hk].
      * subst k. right. exists body. split; [apply sget_head | exact V].
      * destruct (N.eq_dec h k) as [->|Hn].
        -- right. exists body. split; [apply sget_head | exact V].
        -- destruct (A k Hk) as [H|[b [H1 H2]]]; [left; exact H|].
           right. exists b. split; [rewrite sget_other; assumption | exact H2].
    + exact B.
    + exact C.
    + intros k b [Hk|Hk]; [inversion Hk; subst; exact Hfrom | apply E; exact Hk].
  - constructor; simpl.
    + exact A.
    + intros n Hn. apply fail_vnode_from in Hn. destruct Hn as [m [Hm Hv]]. rewrite <- Hv. apply B; exact Hm.
    + exact C.
    + exact E.
Qed.

Lemma Inv_attach : forall D lp s,
  Inv D s -> (forall h b, In (h, b) lp -> from_D D h b) -> Inv D (fst (attach verr s lp)).
Proof.
  intros D lp. induction lp as [|[h b] lp IH]; intros s HI Hlp; simpl; [exact HI|].
  pose proof (Inv_connect_block D s h b HI (Hlp h b (or_introl eq_refl))) as H1.
  destruct (connect_block verr s h b) as [s' e] eqn:CB. simpl in H1.
  destruct e; try exact H1.
  apply IH; [exact H1 | intros; apply Hlp; right; assumption].
Qed.

Lemma Inv_set_main : forall D s m,
  Inv D s -> (forall h, In h m -> In h (vmain s)) -> Inv D (mkV (vidx s) (vorph s) m (vstore s)).
Proof.
  intros D s m [A B C E] Hm. constructor; simpl; auto.
Qed.

Lemma Inv_vconnect_best : forall D fin s b td body,
  Inv D s -> from_D D (bid b) body ->
  Inv D (fst (fst (vconnect_best verr fin s b td body))).
Proof.
  intros D fin s b td body HI Hfrom. unfold vconnect_best.
  destruct (N.eqb (bpar b) (vtip s)).
  - pose proof (Inv_connect_block D s (bid b) body HI Hfrom) as H1.
    destruct (connect_block verr s (bid b) body) as [s' e]. simpl in H1. destruct e; exact H1.
  - destruct (find_vnode (vtip s) (vidx s)) as [t|]; [|exact HI].
    destruct ((td <=? vtd t) || (bht b <? fin + margin)).
    + destruct (vbranch _ _ _ _); exact HI.
    + destruct (vbranch _ _ _ _) as [| |p fk]; try exact HI.
      destruct (load_all (vstore s) (rev p)) as [lp|] eqn:L; [|exact HI].
      assert (H1 : Inv D (fst (attach verr (mkV (vidx s) (vorph s) (drop_until fk (vmain s)) (vstore s)) lp))).
      { apply Inv_attach.
        - apply Inv_set_main; [exact HI | intros h; apply drop_until_in].
        - intros h x Hin. pose proof (load_all_in _ _ _ L h x Hin) as Hs. apply sget_in in Hs.
          destruct HI as [_ _ _ E]. apply E. exact Hs. }
      destruct (attach verr _ lp) as [s2 e]. simpl in H1. destruct e; exact H1.
Qed.

Lemma Inv_vaccept : forall D fin s i,
  Inv D s -> In i D -> Inv D (fst (fst (vaccept verr fin s i))).
Proof.
  intros D fin s i HI Hi. unfold vaccept.
  destruct (find_vnode (bpar (iblk i)) (vidx s)) as [p|]; [|exact HI].
  destruct (negb (bht (iblk i) =? bht (vblk p) + 1)); [exact HI|].
  apply Inv_vconnect_best.
  - destruct HI as [A B C E]. constructor; simpl.
    + intros h Hh. destruct (A h Hh) as [H|[b [H1 H2]]]; [left; exact H|].
      right. exists b. split; [apply maybe_store_keep; exact H1 | exact H2].
    + intros n [Hn|Hn]; [subst n; right; exists i; split; [exact Hi | reflexivity] | apply B; exact Hn].
    + exact C.
    + intros h b Hin. apply maybe_store_in in Hin. destruct Hin as [Hin|Hin]; [|apply E; exact Hin].
      inversion Hin; subst. right. exists i. auto.
  - right. exists i. auto.
Qed.

Lemma Inv_set_orph : forall D s o,
  Inv D s -> (forall x, In x o -> In x D) -> Inv D (mkV (vidx s) o (vmain s) (vstore s)).
Proof. intros D s o [A B C E] Ho. constructor; simpl; auto. Qed.

Lemma Inv_vporph : forall D fuel fin q s,
  Inv D s -> Inv D (fst (vporph verr fuel fin q s)).
Proof.
  intros D fuel. induction fuel as [|f IH]; intros fin q s HI; simpl; [exact HI|].
  destruct q as [|p q']; [exact HI|].
  destruct (first_vchild p (vorph s)) as [c|] eqn:F; [|apply IH; exact HI].
  assert (Hc : In c D).
  { unfold first_vchild in F. apply find_some in F. destruct HI as [_ _ C _]. apply C. tauto. }
  set (s0 := mkV (vidx s) (remove_vorph (ihash c) (vorph s)) (vmain s) (vstore s)).
  assert (H0 : Inv D s0).
  { apply Inv_set_orph; [exact HI|]. intros x Hx. apply remove_vorph_in in Hx. destruct HI as [_ _ C _]. apply C; exact Hx. }
  pose proof (Inv_vaccept D fin s0 c H0 Hc) as H1.
  destruct (vaccept verr fin s0 c) as [[s1 m] e]. simpl in H1.
  destruct e; try exact H1; apply IH; exact H1.
Qed.

Lemma Inv_vdeliver : forall D fin s i,
  Inv D s -> Inv (i :: D) (fst (vdeliver verr fin s i)).
Proof.
  intros D fin s i HI0. pose proof (Inv_weaken D s i HI0) as HI. clear HI0.
  unfold vdeliver.
  destruct (in_vidx (bid (iblk i)) (vidx s)); [exact HI|].
  destruct (in_vorph (bid (iblk i)) (vorph s) && negb (in_vidx (bpar (iblk i)) (vidx s))); [exact HI|].
  set (s1 := if in_vorph (bid (iblk i)) (vorph s)
             then mkV (vidx s) (remove_vorph (bid (iblk i)) (vorph s)) (vmain s) (vstore s) else s).
  assert (H1 : Inv (i :: D) s1).
  { unfold s1. destruct (in_vorph _ _); [|exact HI].
    apply Inv_set_orph; [exact HI|]. intros x Hx. apply remove_vorph_in in Hx. destruct HI as [_ _ C _]. apply C; exact Hx. }
  destruct (negb (in_vidx (bpar (iblk i)) (vidx s1))).
  - simpl. apply Inv_set_orph; [exact H1|]. intros x Hx. apply in_app_or in Hx.
    destruct Hx as [Hx|[Hx|[]]]; [destruct H1 as [_ _ C _]; apply C; exact Hx | subst; left; reflexivity].
  - pose proof (Inv_vaccept (i :: D) fin s1 i H1 (or_introl eq_refl)) as H2.
    destruct (vaccept verr fin s1 i) as [[s2 ism] e]. simpl in H2.
    destruct e; try exact H2.
    pose proof (Inv_vporph (i :: D) (vporph_fuel s2) fin [bid (iblk i)] s2 H2) as H3.
    destruct (vporph verr (vporph_fuel s2) fin [bid (iblk i)] s2) as [s3 e3]. simpl in H3.
    destruct e3; exact H3.
Qed.

Lemma Inv_vrun_gen : forall fin hist D s,
  Inv D s -> Inv (rev hist ++ D) (fold_left (vstep verr fin) hist s).
Proof.
  intros fin hist. induction hist as [|i hist IH]; intros D s HI; simpl; [exact HI|].
  rewrite <- app_assoc. simpl. apply IH. apply Inv_vdeliver. exact HI.
Qed.

Lemma Inv_vrun : forall fin hist, Inv (rev hist) (vrun verr fin g hist).
Proof.
  intros fin hist. pose proof (Inv_vrun_gen fin hist [] (vinit g) Inv_init) as H.
  rewrite app_nil_r in H. exact H.
Qed.

(** the best chain only holds blocks whose stored (= served, = executed) body is valid *)
Lemma main_only_valid : forall fin hist h,
  In h (vmain (vrun verr fin g hist)) ->
  h = bid g \/ exists b, served (vrun verr fin g hist) h = Some b /\ verr h b = 0%N.
Proof. intros fin hist h H. exact (inv_main _ _ (Inv_vrun fin hist) h H). Qed.

(** whatever is served under a hash was delivered under that hash *)
Lemma served_was_delivered : forall fin hist h b,
  served (vrun verr fin g hist) h = Some b ->
  h = bid g \/ exists j, In j hist /\ ihash j = h /\ ibody j = b.
Proof.
  intros fin hist h b H. apply sget_in in H.
  destruct (inv_store _ _ (Inv_vrun fin hist) h b H) as [E|[j [Hj E]]]; [left; exact E|].
  right. exists j. split; [apply in_rev; exact Hj | exact E].
Qed.

End Inv.
