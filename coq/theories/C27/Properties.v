(** C27 — Invalid blocks are rejected without side effects or poisoning. *)
From Coq Require Import List ZArith NArith Bool.
From C33 Require Import C27.Model C27.Proofs C27.ProofsRefute C27.Proofs2 C27.Proofs3 C27.Proofs4 C27.ProofsExamples.
Import ListNotations.
Open Scope Z_scope.

Theorem C27_main_only_valid :
  forall (verr : N -> N -> N) (g : block) (fin : Z) (hist : list item) (h : N),
    In h (vmain (vrun verr fin g hist)) ->
    h = bid g \/ exists b, served (vrun verr fin g hist) h = Some b /\ verr h b = 0%N.
Proof. exact main_only_valid. Qed.
Print Assumptions C27_main_only_valid.

Theorem C27_served_was_delivered :
  forall (verr : N -> N -> N) (g : block) (fin : Z) (hist : list item) (h b : N),
    served (vrun verr fin g hist) h = Some b ->
    h = bid g \/ exists j, In j hist /\ ihash j = h /\ ibody j = b.
Proof. exact served_was_delivered. Qed.
Print Assumptions C27_served_was_delivered.

Theorem C27_rejected_no_effect_refuted : ~ C27_rejected_no_effect_full.
Proof. exact rejected_no_effect_refuted. Qed.
Print Assumptions C27_rejected_no_effect_refuted.

Theorem C27_rejected_no_effect_partial :
  forall (verr : N -> N -> N) (fin : Z) (s : vstate) (i : item),
    valid_item verr i = false ->
    no_reorg_guard fin s i = true ->
    vmain (vstep verr fin s i) = vmain s.
Proof. exact rejected_no_effect_partial. Qed.
Print Assumptions C27_rejected_no_effect_partial.

Theorem C27_rejected_no_effect_nonvacuous :
  valid_item w_verr e_light13 = false
  /\ no_reorg_guard 0 e_state e_light13 = true
  /\ in_vidx (bpar (iblk e_light13)) (vidx e_state) = true
  /\ in_vidx (ihash e_light13) (vidx (vstep w_verr 0 e_state e_light13)) = true
  /\ vtip e_state = 13%N
  /\ no_reorg_guard 0 e_state w_bad13 = false.
Proof. exact no_effect_nonvacuous. Qed.
Print Assumptions C27_rejected_no_effect_nonvacuous.

Theorem C27_no_poison_refuted : ~ C27_no_poison_full.
Proof. exact no_poison_refuted. Qed.
Print Assumptions C27_no_poison_refuted.

Theorem C27_no_poison_partial :
  forall (verr : N -> N -> N) (fin : Z) (g : block) (hist : list item) (i : item),
    ihash i <> bid g ->
    height_fits (vrun verr fin g hist) i = true ->
    existsb (fun j => N.eqb (ihash j) (ihash i)) hist = false ->
    let r := vdeliver verr fin (vrun verr fin g hist) i in
    snd (snd r) <> VExist /\ served (fst r) (ihash i) = Some (ibody i).
Proof. exact no_poison_partial. Qed.
Print Assumptions C27_no_poison_partial.

Theorem C27_no_poison_nonvacuous :
  ihash f_item <> bid p_root
  /\ height_fits (vrun f_verr 0 p_root f_hist) f_item = true
  /\ existsb (fun j => N.eqb (ihash j) (ihash f_item)) f_hist = false
  /\ valid_item f_verr f_item = true
  /\ vtip (vstep f_verr 0 (vrun f_verr 0 p_root f_hist) f_item) = 2%N.
Proof. exact no_poison_nonvacuous. Qed.
Print Assumptions C27_no_poison_nonvacuous.

(** "Rejected blocks are as if they had never arrived" still fails at full
    strength, through the reorganisation that is not rolled back and through
    poisoning (findings 2 and 1) ... *)
Theorem C27_rejected_invisible_refuted : ~ C27_rejected_invisible_full.
Proof. exact rejected_invisible_refuted. Qed.
Print Assumptions C27_rejected_invisible_refuted.

(** ... and holds for every history whose rejected deliveries are below the
    reorganisation margin, share their hash with no valid delivery and are
    nobody's parent: on any path, before or after their parents, in any
    position of the orphan pool (ProcessOrphans drops a refused orphan and
    goes on with its siblings). *)
Theorem C27_rejected_invisible_partial :
  forall (verr : N -> N -> N) (fin : Z) (g : block) (hist : list item),
    quiet_rejects verr fin g hist = true ->
    vmain (vrun verr fin g hist) = vmain (vrun verr fin g (filter (valid_item verr) hist))
    /\ vtip (vrun verr fin g hist) = vtip (vrun verr fin g (filter (valid_item verr) hist)).
Proof. exact rejected_invisible_partial. Qed.
Print Assumptions C27_rejected_invisible_partial.

Theorem C27_rejected_invisible_nonvacuous :
  quiet_rejects q_verr 0 o_root q_hist = true
  /\ length (filter (fun j => negb (valid_item q_verr j)) q_hist) = 2%nat
  /\ vmain (vrun q_verr 0 o_root q_hist) = [5; 2; 1; 0]%N
  /\ vorph (vrun q_verr 0 o_root q_hist) = []
  /\ quiet_rejects w_verr 0 w_root (w_trunk ++ [w_side12; w_bad13]) = false.
Proof. exact invisible_nonvacuous. Qed.
Print Assumptions C27_rejected_invisible_nonvacuous.

(** the history that the unrepaired ProcessOrphans got wrong: block 3 (fails a
    check) and block 2 wait for block 1, 3 in front; block 1 is answered
    without error and 2 becomes the tip *)
Theorem C27_orphan_siblings_connected :
  vmain (vrun o_verr 0 o_root o_hist) = [2; 1; 0]%N
  /\ vmain (vrun o_verr 0 o_root (filter (valid_item o_verr) o_hist)) = [2; 1; 0]%N
  /\ vorph (vrun o_verr 0 o_root o_hist) = []
  /\ snd (vdeliver o_verr 0 (vrun o_verr 0 o_root (firstn 2 o_hist)) (mkI (mkB 1 0 1 1) 0 PBcast)) = (true, false, VNone).
Proof. exact orphan_history_invisible. Qed.
Print Assumptions C27_orphan_siblings_connected.

(** ProcessBlock never panics, from any state (the nil-fork guard in
    connectBestChain: a block whose parent links no longer lead to the best
    chain is refused). *)
Theorem C27_no_panic :
  forall (verr : N -> N -> N) (fin : Z) (s : vstate) (i : item),
    snd (snd (vdeliver verr fin s i)) <> VPanic.
Proof. exact no_panic. Qed.
Print Assumptions C27_no_panic.

(** the history that used to panic: the descendant 24 of the block deleted
    from the index is refused, the tip stays *)
Theorem C27_nil_fork_refused :
  snd (vdeliver n_verr 0 (vrun n_verr 0 w_root n_hist) (mkI (mkB 24 22 15 1) 0 PBcast)) = (false, false, VParent)
  /\ vtip (vstep n_verr 0 (vrun n_verr 0 w_root n_hist) (mkI (mkB 24 22 15 1) 0 PBcast)) = 23%N.
Proof. exact nil_fork_refused. Qed.
Print Assumptions C27_nil_fork_refused.

(** With only valid deliveries and heights that are consistent along the
    parent links the model makes exactly the moves of C25's chain-selection
    model (to which C25_converges, which assumes such heights, applies). *)
Theorem C27_valid_refines_C25 :
  forall (verr : N -> N -> N) (g : block),
    verr (bid g) 0%N = 0%N ->
    forall (fin : Z) (hist : list item),
      (forall i, In i hist -> verr (ihash i) (ibody i) = 0%N) ->
      hconsb (g :: map iblk hist) = true ->
      vmain (vrun verr fin g hist) = main (run fin g (map iblk hist))
      /\ vtip (vrun verr fin g hist) = tip (run fin g (map iblk hist)).
Proof. exact valid_refines_C25. Qed.
Print Assumptions C27_valid_refines_C25.

Theorem C27_valid_refines_nonvacuous :
  hconsb (o_root :: map iblk o_hist) = true
  /\ vmain (vrun (fun _ _ => 0%N) 0 o_root o_hist) = [3; 1; 0]%N
  /\ hconsb (o_root :: map iblk [mkI (mkB 1 0 1 1) 0 PBcast; mkI (mkB 2 1 3 1) 0 PBcast]) = false.
Proof. exact refines_nonvacuous. Qed.
Print Assumptions C27_valid_refines_nonvacuous.
