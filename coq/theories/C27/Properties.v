(** C27 — Invalid blocks are rejected without side effects or poisoning. *)
From Coq Require Import List ZArith NArith Bool.
From C33 Require Import C27.Model C27.Proofs C27.ProofsRefute C27.Proofs2 C27.Proofs3 C27.Proofs4 C27.ProofsExamples C27.ProofsHdr.
Import ListNotations.
Open Scope Z_scope.

Theorem C27_main_only_valid :
  forall (verr : N -> N -> N) (g : block) (fin : Z) (hist : list item) (h : N),
    In h (vmain (vrun verr fin g hist)) ->
    h = bid g \/ exists b, served (vrun verr fin g hist) h = Some b /\ verr h b = 0%N.
Proof. exact main_only_valid. Qed.
Print Assumptions C27_main_only_valid.

Theorem C27_served_was_delivered :
  forall (verr : N -> N -> N) (g : block) (fin : Z) (hist : list item) (h b : N),
    served (vrun verr fin g hist) h = Some b ->
    h = bid g \/ exists j, In j hist /\ ihash j = h /\ ibody j = b.
Proof. exact served_was_delivered. Qed.
Print Assumptions C27_served_was_delivered.

Theorem C27_rejected_no_effect_refuted : ~ C27_rejected_no_effect_full.
Proof. exact rejected_no_effect_refuted. Qed.
Print Assumptions C27_rejected_no_effect_refuted.

Theorem C27_rejected_no_effect_partial :
  forall (verr : N -> N -> N) (fin : Z) (s : vstate) (i : item),
    valid_item verr i = false ->
    no_reorg_guard fin s i = true ->
    vmain (vstep verr fin s i) = vmain s.
Proof. exact rejected_no_effect_partial. Qed.
Print Assumptions C27_rejected_no_effect_partial.

Theorem C27_rejected_no_effect_nonvacuous :
  valid_item w_verr e_light13 = false
  /\ no_reorg_guard 0 e_state e_light13 = true
  /\ in_vidx (bpar (iblk e_light13)) (vidx e_state) = true
  /\ in_vidx (ihash e_light13) (vidx (vstep w_verr 0 e_state e_light13)) = true
  /\ vtip e_state = 13%N
  /\ no_reorg_guard 0 e_state w_bad13 = false.
Proof. exact no_effect_nonvacuous. Qed.
Print Assumptions C27_rejected_no_effect_nonvacuous.

Theorem C27_no_poison_refuted : ~ C27_no_poison_full.
Proof. exact no_poison_refuted. Qed.
Print Assumptions C27_no_poison_refuted.

Theorem C27_no_poison_partial :
  forall (verr : N -> N -> N) (fin : Z) (g : block) (hist : list item) (i : item),
    ihash i <> bid g ->
    height_fits (vrun verr fin g hist) i = true ->
    existsb (fun j => N.eqb (ihash j) (ihash i)) hist = false ->
    let r := vdeliver verr fin (vrun verr fin g hist) i in
    snd (snd r) <> VExist /\ served (fst r) (ihash i) = Some (ibody i).
Proof. exact no_poison_partial. Qed.
Print Assumptions C27_no_poison_partial.

Theorem C27_no_poison_nonvacuous :
  ihash f_item <> bid p_root
  /\ height_fits (vrun f_verr 0 p_root f_hist) f_item = true
  /\ existsb (fun j => N.eqb (ihash j) (ihash f_item)) f_hist = false
  /\ valid_item f_verr f_item = true
  /\ vtip (vstep f_verr 0 (vrun f_verr 0 p_root f_hist) f_item) = 2%N.
Proof. exact no_poison_nonvacuous. Qed.
Print Assumptions C27_no_poison_nonvacuous.

(** "Rejected blocks are as if they had never arrived" still fails at full
    strength, through the reorganisation that is not rolled back and through
    poisoning (findings 2 and 1) ... *)
Theorem C27_rejected_invisible_refuted : ~ C27_rejected_invisible_full.
Proof. exact rejected_invisible_refuted. Qed.
Print Assumptions C27_rejected_invisible_refuted.

(** ... and holds for every history whose rejected deliveries are below the
    reorganisation margin, share their hash with no valid delivery and are
    nobody's parent: on any path, before or after their parents, in any
    position of the orphan pool (ProcessOrphans drops a refused orphan and
    goes on with its siblings). *)
Theorem C27_rejected_invisible_partial :
  forall (verr : N -> N -> N) (fin : Z) (g : block) (hist : list item),
    quiet_rejects verr fin g hist = true ->
    vmain (vrun verr fin g hist) = vmain (vrun verr fin g (filter (valid_item verr) hist))
    /\ vtip (vrun verr fin g hist) = vtip (vrun verr fin g (filter (valid_item verr) hist)).
Proof. exact rejected_invisible_partial. Qed.
Print Assumptions C27_rejected_invisible_partial.

Theorem C27_rejected_invisible_nonvacuous :
  quiet_rejects q_verr 0 o_root q_hist = true
  /\ length (filter (fun j => negb (valid_item q_verr j)) q_hist) = 2%nat
  /\ vmain (vrun q_verr 0 o_root q_hist) = [5; 2; 1; 0]%N
  /\ vorph (vrun q_verr 0 o_root q_hist) = []
  /\ quiet_rejects w_verr 0 w_root (w_trunk ++ [w_side12; w_bad13]) = false.
Proof. exact invisible_nonvacuous. Qed.
Print Assumptions C27_rejected_invisible_nonvacuous.

(** the history that the unrepaired ProcessOrphans got wrong: block 3 (fails a
    check) and block 2 wait for block 1, 3 in front; block 1 is answered
    without error and 2 becomes the tip *)
Theorem C27_orphan_siblings_connected :
  vmain (vrun o_verr 0 o_root o_hist) = [2; 1; 0]%N
  /\ vmain (vrun o_verr 0 o_root (filter (valid_item o_verr) o_hist)) = [2; 1; 0]%N
  /\ vorph (vrun o_verr 0 o_root o_hist) = []
  /\ snd (vdeliver o_verr 0 (vrun o_verr 0 o_root (firstn 2 o_hist)) (mkI (mkB 1 0 1 1) 0 PBcast)) = (true, false, VNone).
Proof. exact orphan_history_invisible. Qed.
Print Assumptions C27_orphan_siblings_connected.

(** "ProcessBlock never panics" fails at full strength: a block with an empty
    ParentHash makes blockExists read the header table with the empty prefix,
    and blocktable.go getHeaderByIndex panics as soon as the table has two
    rows (finding 5) ... *)
Theorem C27_no_panic_refuted : ~ C27_no_panic_full.
Proof. exact no_panic_refuted. Qed.
Print Assumptions C27_no_panic_refuted.

(** ... and holds from any state for every block that names a parent - the
    all-zero hash and Height 0 included (the nil-fork guard in connectBestChain:
    a block whose parent links no longer lead to the best chain is refused). *)
Theorem C27_no_panic_partial :
  forall (verr : N -> N -> N) (fin : Z) (s : vstate) (i : item),
    names_parent i = true ->
    snd (snd (vdeliver0 verr fin s i)) <> VPanic.
Proof. exact no_panic_partial. Qed.
Print Assumptions C27_no_panic_partial.

Theorem C27_no_panic_nonvacuous :
  names_parent (mkI (mkB 2 1 2 1) 0 PBcast) = true
  /\ names_parent (mkI (mkB 2 zero_par 0 1) 0 PBcast) = true
  /\ names_parent hp_item = false
  /\ snd (vdeliver0 (fun _ _ => 0%N) 0 (vrun0 (fun _ _ => 0%N) 0 hp_root hp_hist) (mkI (mkB 2 1 2 1) 0 PBcast))
     = (true, false, VNone)
  /\ snd (vdeliver0 (fun _ _ => 0%N) 0 (vrun0 (fun _ _ => 0%N) 0 hp_root hp_hist) (mkI (mkB 2 zero_par 0 1) 0 PBcast))
     = (false, false, VTd)
  /\ snd (vdeliver0 (fun _ _ => 0%N) 0 (vinit hp_root) hp_item) = (false, true, VNone).
Proof. exact no_panic_nonvacuous. Qed.
Print Assumptions C27_no_panic_nonvacuous.

(** The complete model of ProcessBlock ([vdeliver0]: empty / all-zero
    ParentHash, Height 0) is [vdeliver] - the function the history theorems
    above speak about - on every header with a named non-zero parent and a
    height above 0 ... *)
Theorem C27_plain_header_same :
  forall (verr : N -> N -> N) (fin : Z),
    (forall s i, plain_hdr i = true -> vdeliver0 verr fin s i = vdeliver verr fin s i)
    /\ (forall g hist, forallb plain_hdr hist = true -> vrun0 verr fin g hist = vrun verr fin g hist).
Proof. exact plain_header_same. Qed.
Print Assumptions C27_plain_header_same.

(** ... and a block with any other header leaves the best chain where it was
    (no index node has the empty hash). *)
Theorem C27_odd_header_chain_unchanged :
  forall (verr : N -> N -> N) (fin : Z) (s : vstate) (i : item),
    plain_hdr i = false ->
    in_vidx empty_par (vidx s) = false ->
    vmain (vstep0 verr fin s i) = vmain s.
Proof. exact odd_header_chain_unchanged. Qed.
Print Assumptions C27_odd_header_chain_unchanged.

(** the history that used to panic: the descendant 24 of the block deleted
    from the index is refused, the tip stays *)
Theorem C27_nil_fork_refused :
  snd (vdeliver n_verr 0 (vrun n_verr 0 w_root n_hist) (mkI (mkB 24 22 15 1) 0 PBcast)) = (false, false, VParent)
  /\ vtip (vstep n_verr 0 (vrun n_verr 0 w_root n_hist) (mkI (mkB 24 22 15 1) 0 PBcast)) = 23%N.
Proof. exact nil_fork_refused. Qed.
Print Assumptions C27_nil_fork_refused.

(** With only valid deliveries and heights that are consistent along the
    parent links the model makes exactly the moves of C25's chain-selection
    model (to which C25_converges, which assumes such heights, applies). *)
Theorem C27_valid_refines_C25 :
  forall (verr : N -> N -> N) (g : block),
    verr (bid g) 0%N = 0%N ->
    forall (fin : Z) (hist : list item),
      (forall i, In i hist -> verr (ihash i) (ibody i) = 0%N) ->
      hconsb (g :: map iblk hist) = true ->
      vmain (vrun verr fin g hist) = main (run fin g (map iblk hist))
      /\ vtip (vrun verr fin g hist) = tip (run fin g (map iblk hist)).
Proof. exact valid_refines_C25. Qed.
Print Assumptions C27_valid_refines_C25.

Theorem C27_valid_refines_nonvacuous :
  hconsb (o_root :: map iblk o_hist) = true
  /\ vmain (vrun (fun _ _ => 0%N) 0 o_root o_hist) = [3; 1; 0]%N
  /\ hconsb (o_root :: map iblk [mkI (mkB 1 0 1 1) 0 PBcast; mkI (mkB 2 1 3 1) 0 PBcast]) = false.
Proof. exact refines_nonvacuous. Qed.
Print Assumptions C27_valid_refines_nonvacuous.

(** ---- the signature stage of util.PreExecBlock and the receiver's mempool ---- *)

(** "The stage accepts exactly the blocks whose signatures all verify" fails at
    full strength: a transaction whose hash the mempool holds is not verified
    (finding 6) ... *)
Theorem C27_sig_pool_refuted : ~ C27_sig_pool_full.
Proof. exact sig_pool_refuted. Qed.
Print Assumptions C27_sig_pool_refuted.

(** ... holds for every mempool when the pooled transactions of the block
    carry signatures that verify ... *)
Theorem C27_sig_pool_partial :
  forall (pool : list N) (v : sigview),
    pooled_ok pool v = true -> sig_stage pool v = sig_valid v.
Proof. exact sig_pool_partial. Qed.
Print Assumptions C27_sig_pool_partial.

(** ... and, unguarded: a block signature that does not verify is refused
    whatever the mempool holds - all of the block's transactions, some, none,
    or the block has none - and so is a transaction signature that does not
    verify unless that transaction's hash is pooled. *)
Theorem C27_block_signature_any_pool :
  (forall (pool : list N) (v : sigview), sv_bsig v = false -> sig_stage pool v = false)
  /\ (forall (pool : list N) (v : sigview) (t : N * bool),
        In t (sv_txs v) -> snd t = false -> memN (fst t) pool = false -> sig_stage pool v = false).
Proof. exact block_signature_any_pool_both. Qed.
Print Assumptions C27_block_signature_any_pool.

Theorem C27_sig_pool_nonvacuous :
  pooled_ok [0; 2; 9]%N (mkSV false [(0, true); (1, true); (2, true)]%N) = true
  /\ sig_stage [0; 1; 2]%N (mkSV false [(0, true); (1, true); (2, true)]%N) = false
  /\ pooled_ok [0; 2]%N (mkSV true [(0, true); (1, false); (2, true)]%N) = true
  /\ sig_stage [0; 2]%N (mkSV true [(0, true); (1, false); (2, true)]%N) = false
  /\ sig_stage [0; 1; 2]%N (mkSV true [(0, true); (1, true); (2, true)]%N) = true
  /\ pooled_ok [1]%N (mkSV true [(0, true); (1, false); (2, true)]%N) = false.
Proof. exact sig_pool_nonvacuous. Qed.
Print Assumptions C27_sig_pool_nonvacuous.

(** The validity oracle of the histories, split into the signature stage
    ([view]: what the stage looks at) and the class [after] of the first
    failing later check, at a receiver whose mempool holds [pool]: as long as
    the pooled transactions of the blocks carry good signatures the class of
    every (hash, body) pair - and with it every run of the model - is the one
    at a receiver with an empty mempool, which is what the harness computes;
    a block signature that does not verify gives class 1 at every receiver. *)
Theorem C27_validity_independent_of_pool :
  forall (view : N -> N -> sigview) (after : N -> N -> N) (pool : list N),
    ((forall h b, pooled_ok pool (view h b) = true) ->
     (forall h b, verr_at view after pool h b = verr_at view after [] h b)
     /\ (forall fin g hist,
           vrun0 (verr_at view after pool) fin g hist = vrun0 (verr_at view after []) fin g hist
           /\ vrun (verr_at view after pool) fin g hist = vrun (verr_at view after []) fin g hist))
    /\ (forall h b, sv_bsig (view h b) = false -> verr_at view after pool h b = 1%N).
Proof. exact validity_independent_of_pool_both. Qed.
Print Assumptions C27_validity_independent_of_pool.
