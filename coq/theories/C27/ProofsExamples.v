(** C27 — the hypotheses of the partial theorems are satisfiable by non-trivial states. *)
From Coq Require Import List ZArith NArith Bool Lia.
From C33 Require Import C27.Model C27.ProofsRefute C27.Proofs2.
Import ListNotations.
Open Scope Z_scope.

(** after the trunk 1..13 and the side block 20 (on 11): the block 21 on 20 with
    the work of an ordinary block fails its state-root check.  It is indexed as a
    side block (its parent is there, it is not heavier than the tip), the guard
    holds, nothing moves — while the heavy version of [ProofsRefute] does move the tip. *)
Definition e_state : vstate := vrun w_verr 0 w_root (w_trunk ++ [w_side12]).
Definition e_light13 : item := mkI (mkB 21 20 13 1) 0 PSync.

Lemma no_effect_nonvacuous :
  valid_item w_verr e_light13 = false
  /\ no_reorg_guard 0 e_state e_light13 = true
  /\ in_vidx (bpar (iblk e_light13)) (vidx e_state) = true
  /\ in_vidx (ihash e_light13) (vidx (vstep w_verr 0 e_state e_light13)) = true
  /\ vtip e_state = 13%N
  /\ no_reorg_guard 0 e_state w_bad13 = false.
Proof. vm_compute. repeat split; reflexivity. Qed.

(** a fresh valid block on an indexed parent: the hypotheses of the no-poison
    theorem hold after a history that contains a rejected block with another hash *)
Definition f_hist : list item := [mkI (mkB 1 0 1 1) 0 PBcast; mkI (mkB 5 1 2 1) 0 PDown].
Definition f_verr (h b : N) : N := if N.eqb h 5 then 4%N else 0%N.
Definition f_item : item := mkI (mkB 2 1 2 1) 0 PSync.

Lemma no_poison_nonvacuous :
  ihash f_item <> bid p_root
  /\ height_fits (vrun f_verr 0 p_root f_hist) f_item = true
  /\ existsb (fun j => N.eqb (ihash j) (ihash f_item)) f_hist = false
  /\ valid_item f_verr f_item = true
  /\ vtip (vstep f_verr 0 (vrun f_verr 0 p_root f_hist) f_item) = 2%N.
Proof. vm_compute. repeat split; try reflexivity. discriminate. Qed.
