(** C27 — the hypotheses of the partial theorems are satisfiable by non-trivial states. *)
From Coq Require Import List ZArith NArith Bool Lia.
From C33 Require Import C27.Model C27.ProofsRefute C27.Proofs2 C27.Proofs3 C27.Proofs4.
Import ListNotations.
Open Scope Z_scope.

(** after the trunk 1..13 and the side block 20 (on 11): the block 21 on 20 with
    the work of an ordinary block fails its state-root check.  It is indexed as a
    side block (its parent is there, it is not heavier than the tip), the guard
    holds, nothing moves — while the heavy version of [ProofsRefute] does move the tip. *)
Definition e_state : vstate := vrun w_verr 0 w_root (w_trunk ++ [w_side12]).
Definition e_light13 : item := mkI (mkB 21 20 13 1) 0 PSync.

Lemma no_effect_nonvacuous :
  valid_item w_verr e_light13 = false
  /\ no_reorg_guard 0 e_state e_light13 = true
  /\ in_vidx (bpar (iblk e_light13)) (vidx e_state) = true
  /\ in_vidx (ihash e_light13) (vidx (vstep w_verr 0 e_state e_light13)) = true
  /\ vtip e_state = 13%N
  /\ no_reorg_guard 0 e_state w_bad13 = false.
Proof. vm_compute. repeat split; reflexivity. Qed.

(** a fresh valid block on an indexed parent: the hypotheses of the no-poison
    theorem hold after a history that contains a rejected block with another hash *)
Definition f_hist : list item := [mkI (mkB 1 0 1 1) 0 PBcast; mkI (mkB 5 1 2 1) 0 PDown].
Definition f_verr (h b : N) : N := if N.eqb h 5 then 4%N else 0%N.
Definition f_item : item := mkI (mkB 2 1 2 1) 0 PSync.

Lemma no_poison_nonvacuous :
  ihash f_item <> bid p_root
  /\ height_fits (vrun f_verr 0 p_root f_hist) f_item = true
  /\ existsb (fun j => N.eqb (ihash j) (ihash f_item)) f_hist = false
  /\ valid_item f_verr f_item = true
  /\ vtip (vstep f_verr 0 (vrun f_verr 0 p_root f_hist) f_item) = 2%N.
Proof. vm_compute. repeat split; try reflexivity. discriminate. Qed.

(** inside the guard of [rejected_invisible_partial]: block 3 (fails a check)
    and block 2, both children of block 1, wait in the orphan pool, 3 in front;
    block 1 arrives (3 is executed, fails and is dropped, 2 is connected); then
    block 4 on 2 arrives on the download path, fails and is deleted from the
    index, and its valid sibling 5 is connected.  The history of
    [rejected_no_effect_refuted] (a rejected block high and heavy enough to
    start a reorganisation) is outside the guard. *)
Definition q_hist : list item := o_hist ++ [mkI (mkB 4 2 3 1) 0 PDown; mkI (mkB 5 2 3 1) 0 PSync].
Definition q_verr (h b : N) : N := if N.eqb h 3 || N.eqb h 4 then 5%N else 0%N.

Lemma invisible_nonvacuous :
  quiet_rejects q_verr 0 o_root q_hist = true
  /\ length (filter (fun j => negb (valid_item q_verr j)) q_hist) = 2%nat
  /\ vmain (vrun q_verr 0 o_root q_hist) = [5; 2; 1; 0]%N
  /\ vorph (vrun q_verr 0 o_root q_hist) = []
  /\ quiet_rejects w_verr 0 w_root (w_trunk ++ [w_side12; w_bad13]) = false.
Proof. vm_compute. repeat split. Qed.

(** the hypotheses of [valid_refines_C25]: valid bodies, consistent heights *)
Lemma refines_nonvacuous :
  hconsb (o_root :: map iblk o_hist) = true
  /\ vmain (vrun (fun _ _ => 0%N) 0 o_root o_hist) = [3; 1; 0]%N
  /\ hconsb (o_root :: map iblk [mkI (mkB 1 0 1 1) 0 PBcast; mkI (mkB 2 1 3 1) 0 PBcast]) = false.
Proof. vm_compute. repeat split. Qed.
