(** C27 — the partial theorems: a rejected block that cannot start a
    reorganisation changes nothing of the best chain; a block whose hash was
    not seen before is never answered "exists" and its body is served. *)
From Coq Require Import List ZArith NArith Bool Lia.
From C33 Require Import C27.Model C27.Proofs C27.ProofsRefute.
Import ListNotations.
Open Scope Z_scope.

Section Partial.
Variable verr : N -> N -> N.

(** ---- no effect ---- *)

Definition has_child (h : N) (o : list item) : bool := existsb (fun i => N.eqb (bpar (iblk i)) h) o.

(** the delivered block extends the tip (it is executed at once and fails), or
    it is not heavier than the tip / below the reorganisation margin and no
    orphan waits for it; a block without an indexed parent is covered too *)
Definition no_reorg_guard (fin : Z) (s : vstate) (i : item) : bool :=
  let b := iblk i in
  N.eqb (bpar b) (vtip s)
  || match find_vnode (bpar b) (vidx s) with
     | None => true
     | Some p =>
         negb (N.eqb (bid b) (vtip s))
         && negb (has_child (bid b) (vorph s))
         && match find_vnode (vtip s) (vidx s) with
            | None => true
            | Some t => (vtd p + bdiff b <=? vtd t) || (bht b <? fin + margin)
            end
     end.

Lemma no_child_first : forall h o, has_child h o = false -> first_vchild h o = None.
Proof.
  intros h o H. unfold first_vchild. destruct (find _ o) as [c|] eqn:F; [|reflexivity].
  apply find_some in F. destruct F as [Hin Hc]. unfold has_child in H.
  assert (existsb (fun i => N.eqb (bpar (iblk i)) h) o = true) by (apply existsb_exists; exists c; auto).
  congruence.
Qed.

Lemma no_child_remove : forall h k o, has_child h o = false -> has_child h (remove_vorph k o) = false.
Proof.
  intros h k o H. unfold has_child in *. apply not_true_is_false. intro E.
  apply existsb_exists in E. destruct E as [c [Hin Hc]]. apply remove_vorph_in in Hin.
  assert (E2 : existsb (fun i => N.eqb (bpar (iblk i)) h) o = true) by (apply existsb_exists; exists c; auto).
  rewrite H in E2. discriminate E2.
Qed.

Lemma vporph_no_child : forall fin h s fuel,
  (2 <= fuel)%nat ->
  first_vchild h (vorph s) = None -> vporph verr fuel fin [h] s = (s, VNone).
Proof.
  intros fin h s fuel Hf H. destruct fuel as [|[|f]]; try lia. simpl. rewrite H. reflexivity.
Qed.

Lemma orph_connect_block : forall s h b, vorph (fst (connect_block verr s h b)) = vorph s.
Proof. intros. unfold connect_block. destruct (N.eqb _ _); reflexivity. Qed.

Lemma orph_attach : forall lp s, vorph (fst (attach verr s lp)) = vorph s.
Proof.
  induction lp as [|[h b] lp IH]; intros s; simpl; [reflexivity|].
  pose proof (orph_connect_block s h b) as O1. destruct (connect_block verr s h b) as [s' e]. simpl in O1.
  destruct e; try exact O1. rewrite IH. exact O1.
Qed.

Lemma orph_vconnect_best : forall fin s b td body,
  vorph (fst (fst (vconnect_best verr fin s b td body))) = vorph s.
Proof.
  intros. unfold vconnect_best. destruct (N.eqb _ _).
  - pose proof (orph_connect_block s (bid b) body) as O1.
    destruct (connect_block verr s (bid b) body) as [s' e]. simpl in O1. destruct e; exact O1.
  - destruct (find_vnode _ _); [|reflexivity].
    destruct (_ || _).
    + destruct (vbranch _ _ _ _); reflexivity.
    + destruct (vbranch _ _ _ _); try reflexivity.
      destruct (load_all _ _) as [lp|]; [|reflexivity].
      match goal with |- context [attach verr ?S lp] =>
        pose proof (orph_attach lp S) as O1; destruct (attach verr S lp) as [s2 e] end.
      simpl in O1. destruct e; exact O1.
Qed.

(** connectBestChain of a block that fails its checks and cannot start a reorganisation *)
Lemma vconnect_best_quiet : forall fin s b td body,
  N.eqb (verr (bid b) body) 0 = false ->
  (N.eqb (bpar b) (vtip s) = true \/
   match find_vnode (vtip s) (vidx s) with
   | None => True
   | Some t => (td <=? vtd t) || (bht b <? fin + margin) = true
   end) ->
  vmain (fst (fst (vconnect_best verr fin s b td body))) = vmain s
  /\ (N.eqb (bpar b) (vtip s) = true -> snd (vconnect_best verr fin s b td body) <> VNone).
Proof.
  intros fin s b td body Hv Hq. unfold vconnect_best.
  destruct (N.eqb (bpar b) (vtip s)) eqn:Ht.
  - unfold connect_block. rewrite Hv. simpl. split; [reflexivity | intros _; discriminate].
  - split; [|intros; discriminate]. destruct Hq as [Hq|Hq]; [discriminate|].
    destruct (find_vnode (vtip s) (vidx s)) as [t|]; [|reflexivity].
    rewrite Hq. destruct (vbranch _ _ _ _); reflexivity.
Qed.

Lemma rejected_no_effect_partial : forall fin s i,
  valid_item verr i = false ->
  no_reorg_guard fin s i = true ->
  vmain (vstep verr fin s i) = vmain s.
Proof.
  intros fin s i Hv Hg. unfold vstep, vdeliver.
  destruct (in_vidx (bid (iblk i)) (vidx s)); [reflexivity|].
  destruct (in_vorph (bid (iblk i)) (vorph s) && negb (in_vidx (bpar (iblk i)) (vidx s))); [reflexivity|].
  set (s1 := if in_vorph (bid (iblk i)) (vorph s)
             then mkV (vidx s) (remove_vorph (bid (iblk i)) (vorph s)) (vmain s) (vstore s) else s).
  assert (E1 : vmain s1 = vmain s /\ vidx s1 = vidx s
               /\ (has_child (bid (iblk i)) (vorph s) = false -> has_child (bid (iblk i)) (vorph s1) = false)).
  { unfold s1. destruct (in_vorph _ _); simpl; repeat split; auto. apply no_child_remove. }
  destruct E1 as [Em [Ei Ec]]. clearbody s1.
  destruct (negb (in_vidx (bpar (iblk i)) (vidx s1))) eqn:Hp; [simpl; exact Em|].
  unfold vaccept. rewrite Ei.
  unfold no_reorg_guard in Hg. cbv zeta in Hg.
  destruct (find_vnode (bpar (iblk i)) (vidx s)) as [p|] eqn:Fp; [|simpl; exact Em].
  destruct (negb (bht (iblk i) =? bht (vblk p) + 1)); [simpl; exact Em|].
  set (nd := mkVN (iblk i) (vtd p + bdiff (iblk i)) false (is_down (ipath i)) false).
  set (s1' := mkV (nd :: vidx s) (vorph s1) (vmain s1) (maybe_store (bid (iblk i)) (ibody i) (vstore s1))).
  assert (Et : vtip s1' = vtip s) by (unfold vtip, s1'; simpl; rewrite Em; reflexivity).
  assert (Hq : N.eqb (bpar (iblk i)) (vtip s1') = true \/
               match find_vnode (vtip s1') (vidx s1') with
               | None => True
               | Some t => (vtd p + bdiff (iblk i) <=? vtd t) || (bht (iblk i) <? fin + margin) = true
               end).
  { rewrite Et. destruct (N.eqb (bpar (iblk i)) (vtip s)); [left; reflexivity|]. right.
    simpl in Hg. apply andb_prop in Hg. destruct Hg as [Hg Hg3]. apply andb_prop in Hg. destruct Hg as [Hg1 _].
    apply negb_true_iff in Hg1.
    unfold s1'. simpl vidx. unfold find_vnode. simpl find. unfold nd at 1. unfold vid at 1. simpl vblk. rewrite Hg1.
    fold (find_vnode (vtip s) (vidx s)).
    destruct (find_vnode (vtip s) (vidx s)); [exact Hg3 | exact I]. }
  destruct (vconnect_best_quiet fin s1' (iblk i) (vtd p + bdiff (iblk i)) (ibody i) Hv Hq) as [Hm Hn].
  pose proof (orph_vconnect_best fin s1' (iblk i) (vtd p + bdiff (iblk i)) (ibody i)) as Ho.
  destruct (vconnect_best verr fin s1' (iblk i) (vtd p + bdiff (iblk i)) (ibody i)) as [[s2 ism] e].
  simpl in Hm, Ho, Hn. rewrite Et in Hn.
  assert (Hm2 : vmain s2 = vmain s) by (rewrite Hm; unfold s1'; simpl; exact Em).
  destruct e; try (simpl; exact Hm2).
  (* accepted as a side block: the orphans waiting for it *)
  destruct (N.eqb (bpar (iblk i)) (vtip s)) eqn:Ht.
  - (* extends the tip: it was executed and failed, so the answer is not VNone *)
    exfalso. apply Hn; reflexivity.
  - simpl in Hg. apply andb_prop in Hg. destruct Hg as [Hg _]. apply andb_prop in Hg. destruct Hg as [_ Hg2].
    apply negb_true_iff in Hg2.
    replace (vporph verr (vporph_fuel s2) fin [bid (iblk i)] s2) with (s2, VNone).
    + simpl. exact Hm2.
    + symmetry. apply vporph_no_child; [unfold vporph_fuel; lia|]. apply no_child_first.
      rewrite Ho. unfold s1'. simpl. apply Ec. exact Hg2.
Qed.


(** ---- no poisoning for a hash that was not seen before ---- *)

Lemma connect_block_ne : forall s h b, snd (connect_block verr s h b) <> VExist.
Proof. intros. unfold connect_block. destruct (N.eqb _ _); simpl; discriminate. Qed.

Lemma attach_ne : forall lp s, snd (attach verr s lp) <> VExist.
Proof.
  induction lp as [|[h b] lp IH]; intros s; simpl; [discriminate|].
  pose proof (connect_block_ne s h b) as H. destruct (connect_block verr s h b) as [s' e]. simpl in H.
  destruct e; try exact H; try discriminate. apply IH.
Qed.

Lemma vconnect_best_ne : forall fin s b td body, snd (vconnect_best verr fin s b td body) <> VExist.
Proof.
  intros. unfold vconnect_best. destruct (N.eqb _ _).
  - pose proof (connect_block_ne s (bid b) body) as H. destruct (connect_block verr s (bid b) body) as [s' e].
    simpl in H. destruct e; simpl; try discriminate. contradiction.
  - destruct (find_vnode _ _); [|simpl; discriminate].
    destruct (_ || _).
    + destruct (vbranch _ _ _ _); simpl; discriminate.
    + destruct (vbranch _ _ _ _); simpl; try discriminate.
      destruct (load_all _ _) as [lp|]; [|simpl; discriminate].
      match goal with |- context [attach verr ?S lp] =>
        pose proof (attach_ne lp S) as H; destruct (attach verr S lp) as [s2 e] end.
      simpl in H. destruct e; simpl; try discriminate. contradiction.
Qed.

Lemma vaccept_ne : forall fin s i, snd (vaccept verr fin s i) <> VExist.
Proof.
  intros. unfold vaccept. destruct (find_vnode _ _); [|simpl; discriminate].
  destruct (negb _); [simpl; discriminate|]. apply vconnect_best_ne.
Qed.

Lemma vporph_ne : forall fuel fin q s, snd (vporph verr fuel fin q s) <> VExist.
Proof.
  induction fuel as [|f IH]; intros; simpl; [discriminate|].
  destruct q as [|p q']; [simpl; discriminate|].
  destruct (first_vchild _ _) as [c|]; [|apply IH].
  match goal with |- context [vaccept verr fin ?S c] =>
    pose proof (vaccept_ne fin S c) as H; destruct (vaccept verr fin S c) as [[s1 m] e] end.
  simpl in H. destruct e; simpl; try discriminate; try apply IH.
Qed.

(** ---- ProcessBlock does not panic (no function of the model answers VPanic) ---- *)
Lemma connect_block_np : forall s h b, snd (connect_block verr s h b) <> VPanic.
Proof. intros. unfold connect_block. destruct (N.eqb _ _); simpl; discriminate. Qed.

Lemma attach_np : forall lp s, snd (attach verr s lp) <> VPanic.
Proof.
  induction lp as [|[h b] lp IH]; intros s; simpl; [discriminate|].
  pose proof (connect_block_np s h b) as H. destruct (connect_block verr s h b) as [s' e]. simpl in H.
  destruct e; try exact H; try discriminate. apply IH.
Qed.

Lemma vconnect_best_np : forall fin s b td body, snd (vconnect_best verr fin s b td body) <> VPanic.
Proof.
  intros. unfold vconnect_best. destruct (N.eqb _ _).
  - pose proof (connect_block_np s (bid b) body) as H. destruct (connect_block verr s (bid b) body) as [s' e].
    simpl in H. destruct e; simpl; try discriminate. contradiction.
  - destruct (find_vnode _ _); [|simpl; discriminate].
    destruct (_ || _).
    + destruct (vbranch _ _ _ _); simpl; discriminate.
    + destruct (vbranch _ _ _ _); simpl; try discriminate.
      destruct (load_all _ _) as [lp|]; [|simpl; discriminate].
      match goal with |- context [attach verr ?S lp] =>
        pose proof (attach_np lp S) as H; destruct (attach verr S lp) as [s2 e] end.
      simpl in H. destruct e; simpl; try discriminate. contradiction.
Qed.

Lemma vaccept_np : forall fin s i, snd (vaccept verr fin s i) <> VPanic.
Proof.
  intros. unfold vaccept. destruct (find_vnode _ _); [|simpl; discriminate].
  destruct (negb _); [simpl; discriminate|]. apply vconnect_best_np.
Qed.

Lemma vporph_np : forall fuel fin q s, snd (vporph verr fuel fin q s) <> VPanic.
Proof.
  induction fuel as [|f IH]; intros; simpl; [discriminate|].
  destruct q as [|p q']; [simpl; discriminate|].
  destruct (first_vchild _ _) as [c|]; [|apply IH].
  match goal with |- context [vaccept verr fin ?S c] =>
    pose proof (vaccept_np fin S c) as H; destruct (vaccept verr fin S c) as [[s1 m] e] end.
  simpl in H. destruct e; simpl; try discriminate; try apply IH. contradiction.
Qed.

Lemma no_panic : forall fin s i, snd (snd (vdeliver verr fin s i)) <> VPanic.
Proof.
  intros fin s i. unfold vdeliver.
  destruct (in_vidx _ _); [simpl; discriminate|].
  destruct (_ && _); [simpl; discriminate|].
  match goal with |- context [negb (in_vidx ?P (vidx ?S1))] => destruct (negb (in_vidx P (vidx S1))) end;
    [simpl; discriminate|].
  match goal with |- context [vaccept verr fin ?S i] =>
    pose proof (vaccept_np fin S i) as H; destruct (vaccept verr fin S i) as [[s2 ism] e] end.
  simpl in H. destruct e; simpl; try discriminate; try contradiction.
  match goal with |- context [vporph verr ?F fin ?Q s2] =>
    pose proof (vporph_np F fin Q s2) as H2; destruct (vporph verr F fin Q s2) as [s3 e3] end.
  simpl in H2. destruct e3; simpl; try discriminate. contradiction.
Qed.

(** the binding of [h] in the block table stays [x] as long as nothing else is
    written under [h] *)
Lemma fixed_connect_block : forall h x s h' b',
  sget h (vstore s) = Some x -> (h' = h -> b' = x) ->
  sget h (vstore (fst (connect_block verr s h' b'))) = Some x.
Proof.
  intros h x s h' b' H Hb. unfold connect_block. destruct (N.eqb _ _); simpl; [|exact H].
  destruct (N.eq_dec h' h) as [E|E]; [subst; rewrite (Hb eq_refl); apply sget_head | rewrite sget_other; assumption].
Qed.

Lemma fixed_attach: forall h x lp s,
  sget h (vstore s) = Some x -> (forall h' b', In (h', b') lp -> h' = h -> b' = x) ->
  sget h (vstore (fst (attach verr s lp))) = Some x /\ vorph (fst (attach verr s lp)) = vorph s.
Proof.
  intros h x lp. induction lp as [|[h' b'] lp IH]; intros s H Hlp; simpl; [split; [exact H | reflexivity]|].
  pose proof (fixed_connect_block h x s h' b' H (Hlp h' b' (or_introl eq_refl))) as H1.
  pose proof (orph_connect_block s h' b') as O1.
  destruct (connect_block verr s h' b') as [s' e]. simpl in H1, O1.
  destruct e; try (split; [exact H1 | exact O1]).
  destruct (IH s' H1) as [A B]; [intros; eapply Hlp; eauto; right; eassumption|].
  split; [exact A | rewrite B; exact O1].
Qed.

Lemma fixed_vconnect_best : forall h x fin s b td body,
  sget h (vstore s) = Some x -> (bid b = h -> body = x) ->
  sget h (vstore (fst (fst (vconnect_best verr fin s b td body)))) = Some x
  /\ vorph (fst (fst (vconnect_best verr fin s b td body))) = vorph s.
Proof.
  intros h x fin s b td body H Hb. unfold vconnect_best. destruct (N.eqb _ _).
  - pose proof (fixed_connect_block h x s (bid b) body H Hb) as H1.
    pose proof (orph_connect_block s (bid b) body) as O1.
    destruct (connect_block verr s (bid b) body) as [s' e]. simpl in H1, O1. destruct e; simpl; auto.
  - destruct (find_vnode _ _); [|simpl; auto].
    destruct (_ || _).
    + destruct (vbranch _ _ _ _); simpl; auto.
    + destruct (vbranch _ _ _ _) as [| |p fk]; simpl; auto.
      destruct (load_all (vstore s) (rev p)) as [lp|] eqn:L; [|simpl; auto].
      match goal with |- context [attach verr ?S lp] =>
        destruct (fixed_attach h x lp S) as [A B]; [exact H | | destruct (attach verr S lp) as [s2 e]] end.
      { intros h' b' Hin E. subst h'. pose proof (load_all_in _ _ _ L h b' Hin) as Hs. congruence. }
      simpl in A, B. destruct e; simpl; auto.
Qed.

Lemma fixed_vaccept : forall h x fin s c,
  sget h (vstore s) = Some x -> (ihash c = h -> ibody c = x) ->
  sget h (vstore (fst (fst (vaccept verr fin s c)))) = Some x
  /\ vorph (fst (fst (vaccept verr fin s c))) = vorph s.
Proof.
  intros h x fin s c H Hc. unfold vaccept. destruct (find_vnode _ _); [|simpl; auto].
  destruct (negb _); [simpl; auto|].
  match goal with |- context [vconnect_best verr fin ?S ?B ?TD ?BODY] =>
    destruct (fixed_vconnect_best h x fin S B TD BODY) as [A B0] end.
  - simpl. apply maybe_store_keep. exact H.
  - exact Hc.
  - split; [exact A | rewrite B0; reflexivity].
Qed.

Lemma fixed_vporph : forall h x fuel fin q s,
  sget h (vstore s) = Some x -> (forall c, In c (vorph s) -> ihash c = h -> ibody c = x) ->
  sget h (vstore (fst (vporph verr fuel fin q s))) = Some x.
Proof.
  intros h x fuel. induction fuel as [|f IH]; intros fin q s H Ho; simpl; [exact H|].
  destruct q as [|p q']; [exact H|].
  destruct (first_vchild p (vorph s)) as [c|] eqn:F; [|apply IH; assumption].
  assert (Hc : In c (vorph s)) by (unfold first_vchild in F; apply find_some in F; tauto).
  set (s0 := mkV (vidx s) (remove_vorph (ihash c) (vorph s)) (vmain s) (vstore s)).
  destruct (fixed_vaccept h x fin s0 c H (Ho c Hc)) as [A B].
  destruct (vaccept verr fin s0 c) as [[s1 m] e]. simpl in A, B.
  destruct e; try exact A; (apply IH; [exact A|]);
  intros c' Hc'; rewrite B in Hc'; simpl in Hc'; apply remove_vorph_in in Hc'; apply Ho; exact Hc'.
Qed.

Lemma in_vidx_find : forall h ix, in_vidx h ix = true -> exists n, In n ix /\ vid n = h.
Proof.
  intros h ix H. unfold in_vidx in H. destruct (find_vnode h ix) as [n|] eqn:F; [|discriminate].
  unfold find_vnode in F. apply find_some in F. destruct F as [A B]. apply N.eqb_eq in B. exists n. auto.
Qed.

Lemma no_poison_partial : forall fin g hist i,
  ihash i <> bid g ->
  height_fits (vrun verr fin g hist) i = true ->
  existsb (fun j => N.eqb (ihash j) (ihash i)) hist = false ->
  let r := vdeliver verr fin (vrun verr fin g hist) i in
  snd (snd r) <> VExist /\ served (fst r) (ihash i) = Some (ibody i).
Proof.
  intros fin g hist i Hroot Hfit Hfresh.
  pose proof (Inv_vrun verr g fin hist) as HI.
  set (s := vrun verr fin g hist) in *.
  assert (Hno : forall j, In j (rev hist) -> ihash j <> ihash i).
  { intros j Hj E. apply in_rev in Hj.
    assert (existsb (fun j => N.eqb (ihash j) (ihash i)) hist = true)
      by (apply existsb_exists; exists j; split; [exact Hj | apply N.eqb_eq; exact E]).
    congruence. }
  assert (Hidx : in_vidx (ihash i) (vidx s) = false).
  { destruct (in_vidx (ihash i) (vidx s)) eqn:E; [|reflexivity].
    apply in_vidx_find in E. destruct E as [n [Hn Hv]].
    destruct (inv_idx _ _ _ _ HI n Hn) as [E|[j [Hj E]]]; [congruence|].
    exfalso. apply (Hno j Hj). congruence. }
  assert (Horph : forall c, In c (vorph s) -> ihash c <> ihash i).
  { intros c Hc. apply Hno. apply (inv_orph _ _ _ _ HI). exact Hc. }
  assert (Hknown : in_vorph (ihash i) (vorph s) = false).
  { destruct (in_vorph (ihash i) (vorph s)) eqn:E; [|reflexivity].
    unfold in_vorph in E. apply existsb_exists in E. destruct E as [c [Hc E]]. apply N.eqb_eq in E.
    exfalso. exact (Horph c Hc E). }
  assert (Hst : sget (ihash i) (vstore s) = None).
  { destruct (sget (ihash i) (vstore s)) as [b|] eqn:E; [|reflexivity].
    apply sget_in in E. destruct (inv_store _ _ _ _ HI _ _ E) as [E1|[j [Hj [E1 _]]]]; [contradiction|].
    exfalso. exact (Hno j Hj E1). }
  unfold height_fits in Hfit.
  destruct (find_vnode (bpar (iblk i)) (vidx s)) as [p|] eqn:Fp; [|discriminate].
  cbv zeta. unfold vdeliver. fold (ihash i). rewrite Hidx, Hknown. simpl andb. cbv iota.
  unfold in_vidx. rewrite Fp. simpl negb. cbv iota.
  unfold vaccept. rewrite Fp, Hfit. simpl negb. cbv iota.
  match goal with |- context [vconnect_best verr fin ?S ?B ?TD ?BODY] =>
    pose proof (vconnect_best_ne fin S B TD BODY) as Hne;
    destruct (fixed_vconnect_best (ihash i) (ibody i) fin S B TD BODY) as [A B0];
      [simpl; apply maybe_store_has; exact Hst | reflexivity | ];
    destruct (vconnect_best verr fin S B TD BODY) as [[s2 ism] e] eqn:VC end.
  simpl in Hne, A, B0.
  destruct e; simpl; try (split; [discriminate | exact A]); try contradiction.
  match goal with |- context [vporph verr ?F fin ?Q s2] =>
    pose proof (vporph_ne F fin Q s2) as Hne2;
    pose proof (fixed_vporph (ihash i) (ibody i) F fin Q s2 A) as A2;
    destruct (vporph verr F fin Q s2) as [s3 e3] end.
  simpl in Hne2, A2.
  assert (A3 : sget (ihash i) (vstore s3) = Some (ibody i)).
  { apply A2. intros c Hc E. rewrite B0 in Hc. simpl in Hc. exfalso. exact (Horph c Hc E). }
  destruct e3; simpl; try (split; [discriminate | exact A3]); try contradiction.
Qed.

End Partial.
