(** C27 — correspondence cases: a delivery history with what the Go node returned. *)
From Coq Require Import List ZArith NArith Bool.
From C33 Require Import Lib.Harness.
From C33 Require Export C27.Model C27.Spec.   (* case files use [mkB] *)
Import ListNotations.
Open Scope Z_scope.

Inductive case :=
| CHist (fin : Z)
        (T : list block)             (* headers, root first; hashes numbered *)
        (V : list (N * N * N))       (* (hash, body, class) of the pairs that fail a validity check *)
        (order : list sitem)         (* deliveries: (hash, body, path 0 broadcast / 1 sync / 2 download) *)
        (obs : list stepobs)         (* per delivery: isMain, isOrphan, error code, tip, tip td, served code of the delivered hash *)
        (fmain : list N)             (* hash at every height 0..tip after the run *)
        (fserved : list (N * N))     (* for every hash of T: served code after the run *)
        (flags : bool)               (* tx index and state at the tip agree with the chain *)
(** the signature stage alone: one block on the genesis block of a fresh node *)
| CSig (bsig : bool)                 (* no block signature, or it verifies *)
       (txs : list (N * bool))       (* (transaction, its signature verifies) *)
       (pool : list N)               (* transactions whose hashes the receiver's mempool holds *)
       (after : N)                   (* class of the first failing check after the signature stage, 0 = none *)
       (ec : N) (moved : bool).      (* observed: error code, the tip is no longer the genesis block *)

Definition path_of (c : N) : path :=
  match c with 0%N => PBcast | 1%N => PSync | _ => PDown end.

Definition item_of (T : list block) (i : sitem) : option item :=
  match find_hdr (shash i) T with
  | Some b => Some (mkI b (sbody i) (path_of (snd i)))
  | None => None
  end.

(** fold the model over the history, comparing every observable *)
Fixpoint agree (verr : N -> N -> N) (fin : Z) (T : list block) (s : vstate)
         (order : list sitem) (obs : list stepobs) : option vstate :=
  match order, obs with
  | [], [] => Some s
  | i :: order', (im, io, ec, tp, ttd, sv) :: obs' =>
      match item_of T i with
      | None => None
      | Some it =>
          let '(s', (mm, mo, me)) := vdeliver0 verr fin s it in
          if Bool.eqb mm im && Bool.eqb mo io && N.eqb (verrc_code me) ec
             && N.eqb (vtip s') tp && (vtip_td s' =? ttd)
             && N.eqb (scode (served s' (shash i))) sv
          then agree verr fin T s' order' obs' else None
      end
  | _, _ => None
  end.

Definition model_ok (fin : Z) (T : list block) (V : list (N * N * N)) (order : list sitem)
           (obs : list stepobs) (fmain : list N) (fserved : list (N * N)) : bool :=
  match T with
  | [] => false
  | g :: _ =>
      match agree (verr_of V) fin T (vinit g) order obs with
      | Some s =>
          list_eqb N.eqb (rev (vmain s)) fmain
          && list_eqb (fun a b => N.eqb (fst a) (fst b) && N.eqb (snd a) (snd b))
                      (map (fun b => (bid b, scode (served s (bid b)))) T) fserved
      | None => false
      end
  end.

Definition check_case (c : case) : verdict :=
  match c with
  | CHist fin T V order obs fmain fserved flags =>
      let m := model_ok fin T V order obs fmain fserved in
      match first_fail fin T V order obs fmain fserved flags with
      | None => (m, true, 0%N)
      | Some f => (m, false, kf_code fin T V order obs fserved f)
      end
  | CSig bsig txs pool after ec moved =>
      let want := if sig_stage pool (mkSV bsig txs)
                  then (if N.eqb after 0 then 0 else 10 + after)%N else 11%N in
      let m := N.eqb ec want && Bool.eqb moved (N.eqb want 0) in
      if sig_spec_ok bsig txs after ec moved then (m, true, 0%N)
      else (m, false, sig_kf bsig txs pool after)
  end.

Example empty_par_ids : sp_empty_par = empty_par.
Proof. reflexivity. Qed.
