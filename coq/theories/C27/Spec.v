(** C27 — the abstract spec as an executable oracle over what the node returned.

    Universe: the headers [T] (root first; hashes numbered) and the validity
    table [V] listing the (hash, body) pairs that do NOT pass the validity
    checks (class of the first failing check); every other pair is valid.
    Body 0 of a hash is the body its header was built for.

    A delivery (hash, body) is *acceptable* when the pair is valid and its
    height is its parent's height + 1.  The reference is the chain-selection
    model of C25 (in which every block is valid) run over the acceptable
    deliveries only: "rejected blocks are as if they had never arrived".
    The property, clause by clause:

    per delivery, in order
      [FPanic]   ProcessBlock does not panic (no known finding: the nil-fork
                 guard in connectBestChain removed the only one);
      [FEffect]  an unacceptable block leaves the best chain tip unchanged;
      [FExist]   an acceptable block is answered "block exists" only if this
                 very (hash, body) was delivered before;
      [FTip]     the tip is the reference's tip;
      [FServed]  after the delivery of an acceptable block whose ancestors were
                 all delivered in acceptable form, block-by-hash returns its body;
    at the end
      [FMain]    the best chain is the reference's, a parent-linked chain from
                 the root of blocks whose served bodies are acceptable;
      [FServedEnd h] under the hash of a header that has a valid body the node
                 serves nothing or a valid body;
      [FFlags]   transaction index and state at the tip agree with the chain.

    [first_fail] returns the first clause that fails (deliveries first). *)
From Coq Require Import List ZArith NArith Bool.
From C33 Require Import Lib.Harness C25.Model C25.Spec.
Import ListNotations.
Open Scope Z_scope.

Definition sitem : Type := (N * N * N)%type.                       (* hash, body, path code *)
Definition stepobs : Type := (bool * bool * N * N * Z * N)%type.   (* ismain, isorphan, error code, tip, tip td, served code *)

Definition shash (i : sitem) : N := fst (fst i).
Definition sbody (i : sitem) : N := snd (fst i).

(** served code: 0 = nothing, 1 + body *)
Definition scode (o : option N) : N := match o with None => 0 | Some b => 1 + b end%N.

Definition verr_of (V : list (N * N * N)) (h b : N) : N :=
  match find (fun e => N.eqb (fst (fst e)) h && N.eqb (snd (fst e)) b) V with
  | Some e => snd e
  | None => 0%N
  end.

Definition find_hdr (h : N) (T : list block) : option block :=
  find (fun b => N.eqb (bid b) h) T.

Definition root_id (T : list block) : N := match T with g :: _ => bid g | [] => 0%N end.

Definition header_ok (T : list block) (h : N) : bool :=
  match find_hdr h T with
  | None => false
  | Some b =>
      N.eqb h (root_id T) ||
      match find_hdr (bpar b) T with
      | Some p => bht b =? bht p + 1
      | None => false
      end
  end.

Definition acceptable (T : list block) (V : list (N * N * N)) (h b : N) : bool :=
  N.eqb (verr_of V h b) 0 && header_ok T h.

Definition pair_in (h b : N) (l : list sitem) : bool :=
  existsb (fun i => N.eqb (shash i) h && N.eqb (sbody i) b) l.

(** hashes delivered in acceptable form *)
Definition ok_hashes (T : list block) (V : list (N * N * N)) (l : list sitem) : list N :=
  map shash (filter (fun i => acceptable T V (shash i) (sbody i)) l).

Definition connected_ok (T : list block) (V : list (N * N * N)) (l : list sitem) (h : N) : bool :=
  match lookup h (connected T (root_id T :: ok_hashes T V l)) with Some _ => true | None => false end.

(** the reference: C25's [deliver] over the acceptable deliveries *)
Definition ref_step (fin : Z) (T : list block) (V : list (N * N * N)) (s : state) (i : sitem) : state :=
  if acceptable T V (shash i) (sbody i) then
    match find_hdr (shash i) T with Some b => step fin s b | None => s end
  else s.

Definition ref_init (T : list block) : state :=
  match T with g :: _ => init g | [] => mkS [] [] [] [] end.

Inductive sfail := FPanic (k : nat) | FEffect (k : nat) | FExist (k : nat) | FTip (k : nat) | FServed (k : nat)
                 | FMain | FServedEnd (h : N) | FFlags | FShape.

(** deliveries: [past] = deliveries before this one (newest first), [tb] = tip
    before; returns the failing clause or the reference's final state *)
Fixpoint steps_fail (fin : Z) (T : list block) (V : list (N * N * N)) (k : nat) (past : list sitem) (tb : N)
         (rf : state) (order : list sitem) (obs : list stepobs) : sfail + state :=
  match order, obs with
  | [], [] => inr rf
  | i :: order', (_, _, ec, ta, _, sv) :: obs' =>
      let h := shash i in
      let b := sbody i in
      let acc := acceptable T V h b in
      let rf' := ref_step fin T V rf i in
      if N.eqb ec 7 then inl (FPanic k)
      else if negb acc && negb (N.eqb ta tb) then inl (FEffect k)
      else if acc && N.eqb ec 1 && negb (pair_in h b past) then inl (FExist k)
      else if negb (N.eqb ta (tip rf')) then inl (FTip k)
      else if acc && connected_ok T V (i :: past) h && negb (N.eqb sv (1 + b)) then inl (FServed k)
      else steps_fail fin T V (S k) (i :: past) ta rf' order' obs'
  | _, _ => inl FShape
  end.

(** [fmain]: root first *)
Fixpoint chain_ok (T : list block) (V : list (N * N * N)) (fserved : list (N * N)) (prev : option block)
         (l : list N) : bool :=
  match l with
  | [] => true
  | h :: tl =>
      match find_hdr h T with
      | None => false
      | Some b =>
          let link := match prev with
                      | None => N.eqb h (root_id T)
                      | Some p => N.eqb (bpar b) (bid p) && (bht b =? bht p + 1)
                      end in
          let body_ok := match find (fun e => N.eqb (fst e) h) fserved with
                         | Some (_, 0%N) => false
                         | Some (_, c) => N.eqb (verr_of V h (c - 1)) 0
                         | None => false
                         end in
          link && body_ok && chain_ok T V fserved (Some b) tl
      end
  end.

Definition served_end_fail (T : list block) (V : list (N * N * N)) (fserved : list (N * N)) : option sfail :=
  match find (fun e => let '(h, c) := e in
                       N.eqb (verr_of V h 0) 0 && negb (N.eqb c 0) && negb (N.eqb (verr_of V h (c - 1)) 0))
             fserved with
  | Some (h, _) => Some (FServedEnd h)
  | None => None
  end.

Definition first_fail (fin : Z) (T : list block) (V : list (N * N * N)) (order : list sitem) (obs : list stepobs)
           (fmain : list N) (fserved : list (N * N)) (flags : bool) : option sfail :=
  match steps_fail fin T V 0 [] (root_id T) (ref_init T) order obs with
  | inl f => Some f
  | inr rf =>
      if negb (match fmain with [] => false | _ => chain_ok T V fserved None fmain end
               && list_eqb N.eqb fmain (rev (main rf))) then Some FMain
      else match served_end_fail T V fserved with
           | Some f => Some f
           | None => if flags then None else Some FFlags
           end
  end.

(** ---- narrow signatures of the open findings ---- *)

(** the id of the empty parent hash (C27.Model.empty_par) *)
Definition sp_empty_par : N := 1000002.

(** proper ancestors of [h] by header links (fuel = |T|) *)
Fixpoint ancestors (fuel : nat) (T : list block) (h : N) : list N :=
  match fuel with
  | O => []
  | S f => match find_hdr h T with
           | Some b => bpar b :: ancestors f T (bpar b)
           | None => []
           end
  end.

Definition unacc (T : list block) (V : list (N * N * N)) (j : sitem) : bool :=
  negb (acceptable T V (shash j) (sbody j)).

(** finding 1: a hash in [hs] was delivered before with a body that fails a
    check although the header has a valid body *)
Definition poisoned (T : list block) (V : list (N * N * N)) (past : list sitem) (hs : list N) : bool :=
  existsb (fun j => memN (shash j) hs && unacc T V j && N.eqb (verr_of V (shash j) 0) 0 && header_ok T (shash j)) past.

Definition ref_at (fin : Z) (T : list block) (V : list (N * N * N)) (l : list sitem) : state :=
  fold_left (ref_step fin T V) l (ref_init T).

Definition kf_code (fin : Z) (T : list block) (V : list (N * N * N)) (order : list sitem) (obs : list stepobs)
           (fserved : list (N * N)) (f : sfail) : N :=
  match f with
  | FExist k =>
      match nth_error order k with
      | Some i => if poisoned T V (firstn k order) [shash i] then 1%N else 0%N
      | None => 0%N
      end
  | FServed k =>
      match nth_error order k, nth_error obs k with
      | Some i, Some (_, _, _, _, _, sv) =>
          if negb (N.eqb sv 0) && negb (N.eqb sv (1 + sbody i)) && pair_in (shash i) (sv - 1) (firstn k order)
          then 1%N else 0%N
      | _, _ => 0%N
      end
  | FServedEnd h =>
      match find (fun e => N.eqb (fst e) h) fserved with
      | Some (_, c) => if negb (N.eqb c 0) && pair_in h (c - 1) order then 1%N else 0%N
      | None => 0%N
      end
  | FEffect k =>
      (* finding 2: an unacceptable block on a side branch, high enough for a
         reorganisation, left the tip on one of its proper ancestors *)
      match nth_error order k, nth_error obs k with
      | Some i, Some (_, _, _, ta, _, _) =>
          let tb := match k with
                    | O => root_id T
                    | S k' => match nth_error obs k' with Some (_, _, _, t, _, _) => t | None => 0%N end
                    end in
          match find_hdr (shash i) T with
          | Some b =>
              if negb (N.eqb (bpar b) tb) && memN ta (ancestors (length T) T (shash i))
                 && (fin + 12 <=? bht b)
              then 2%N else 0%N
          | None => 0%N
          end
      | _, _ => 0%N
      end
  | FTip k =>
      match nth_error order k, nth_error obs k with
      | Some i, Some (_, _, _, ta, _, _) =>
          let past := firstn k order in
          let r0 := ref_at fin T V past in
          let r1 := ref_step fin T V r0 i in
          let newly := filter (fun h => negb (in_idx h (idx r0))) (map (fun n => bid (nblk n)) (idx r1)) in
          (* finding 1 again: the poisoned hash is the block, one of its ancestors, or a
             block the reference connects now *)
          if poisoned T V past (shash i :: ancestors (length T) T (shash i) ++ newly) then 1%N
          (* finding 2 through the orphan pool: an unacceptable block that arrived before its
             parent is taken from the pool in this step (its parent is connected now), it is
             high enough to start a reorganisation, and the tip is left on one of its proper
             ancestors *)
          else if existsb (fun j => unacc T V j
                                    && match find_hdr (shash j) T with
                                       | Some b => memN (bpar b) newly && (fin + 12 <=? bht b)
                                                   && memN ta (ancestors (length T) T (shash j))
                                       | None => false
                                       end) past
          then 2%N else 0%N
      | _, _ => 0%N
      end
  | FPanic k =>
      (* finding 5: the delivered block has an empty ParentHash *)
      match nth_error order k with
      | Some i => match find_hdr (shash i) T with
                  | Some b => if N.eqb (bpar b) sp_empty_par then 5%N else 0%N
                  | None => 0%N
                  end
      | None => 0%N
      end
  | _ => 0%N
  end.

(** ---- the signature stage alone (case [CSig]) ----
    [bsig]: no block signature or it verifies; [txs]: (transaction, its
    signature verifies); [after]: class of the first failing check after the
    signature stage; observed: error code, "the tip moved".  A block that is
    not valid must be refused and leave the tip where it was - whatever the
    receiver's mempool holds. *)
Definition sig_spec_ok (bsig : bool) (txs : list (N * bool)) (after ec : N) (moved : bool) : bool :=
  if bsig && forallb snd txs && N.eqb after 0 then true
  else negb moved && negb (N.eqb ec 0).

(** finding 6: the only failing signatures are those of transactions whose
    hashes the receiver's mempool holds *)
Definition sig_kf (bsig : bool) (txs : list (N * bool)) (pool : list N) (after : N) : N :=
  if bsig && N.eqb after 0 && forallb (fun t => snd t || memN (fst t) pool) txs then 6%N else 0%N.
