(** C08 — lemmas about Commit's copy loop and layered lookups. *)
From Coq Require Import List NArith ZArith Bool Lia.
From C33 Require Import Lib.Harness Lib.Bytes Lib.OMap C07.Model C07.Spec C07.ProofsBase C07.ProofsSingle C07.Proofs
  C08.Model C08.Spec.
Import ListNotations.

Definition put_all (t c : store) : store := fold_left (fun c e => put (fst e) (snd e) c) t c.

Lemma range_all (m : store) : range_of [] m = m.
Proof.
  unfold range_of, range_filter, filter_keys. apply filter_all_true. intros e _.
  unfold in_range, resolve_end. simpl. rewrite bleb_nil_l. reflexivity.
Qed.

Lemma commit_loop_rem all : forall l fuel c, (length l <= fuel)%nat ->
  commit_loop fuel (mk_dbit all false (PRem l)) c = put_all (tl l) c.
Proof.
  induction l as [|e l IH]; intros fuel c Hf; destruct fuel as [|f]; try (simpl in Hf; lia); try reflexivity.
  cbn [commit_loop]. unfold db_next, set_pos. cbn [di_pos di_all di_rev db_cur tl].
  destruct l as [|e' l']; [reflexivity|].
  rewrite (IH f (put (fst e') (snd e') c)); [reflexivity|]. cbn [length] in Hf |- *. lia.
Qed.

Lemma commit_loop_spec (t c : store) :
  commit_loop (S (length t)) (db_open t [] false) c = put_all t c.
Proof.
  unfold db_open. rewrite range_all. cbn [commit_loop]. unfold db_next, set_pos.
  cbn [di_pos di_all di_rev db_cur]. destruct t as [|e t]; [reflexivity|].
  rewrite commit_loop_rem by (unfold store, entry, bytes in *; lia). reflexivity.
Qed.

Lemma get_put_all k : forall (t c : store), sorted t ->
  get k (put_all t c) = match get k t with Some v => Some v | None => get k c end.
Proof.
  induction t as [|[k' v'] t IH]; intros c Hs; [reflexivity|].
  apply sorted_cons in Hs as [Hlb Hs]. simpl in Hlb.
  unfold put_all. cbn [fold_left fst snd]. fold (put_all t (put k' v' c)).
  rewrite (IH _ Hs). cbn [get]. rewrite get_put.
  destruct (beqb k k') eqn:E; [|reflexivity].
  apply beqb_eq in E. subst k'. rewrite (get_lb_none k t Hlb). reflexivity.
Qed.

Lemma put_all_sorted (t c : store) : sorted c -> sorted (put_all t c).
Proof.
  revert c. induction t as [|e t IH]; intros c Hc; [exact Hc|].
  unfold put_all. simpl. apply IH. apply put_sorted. exact Hc.
Qed.

Lemma put_keys_wf (k v : bytes) (c : store) :
  wf_bytes k -> Forall (fun e => wf_bytes (fst e)) c -> Forall (fun e => wf_bytes (fst e)) (put k v c).
Proof.
  intros Wk Wc. rewrite Forall_forall in *. intros e He. apply In_put in He as [->|He]; [exact Wk | apply Wc; exact He].
Qed.

Lemma put_wf (k v : bytes) (c : store) : wf_bytes k -> wf_store c -> wf_store (put k v c).
Proof. intros Wk [Hs Wc]. split; [apply put_sorted; exact Hs | apply put_keys_wf; assumption]. Qed.

Lemma put_all_wf (t c : store) : wf_store t -> wf_store c -> wf_store (put_all t c).
Proof.
  intros [_ Wt]. revert c. induction t as [|e t IH]; intros c Wc; [exact Wc|].
  inversion Wt; subst. unfold put_all. simpl. apply IH; [assumption|]. apply put_wf; assumption.
Qed.

Lemma wf_nil : wf_store [].
Proof. split; [exact I | constructor]. Qed.

(** the view of a list of layers only depends on its point lookups *)
Lemma overlay_ext (L1 L2 : list store) : (forall k, lookup L1 k = lookup L2 k) -> overlay L1 = overlay L2.
Proof.
  intro H. apply sorted_ext; try apply overlay_sorted. intro k. rewrite !get_overlay. apply H.
Qed.

Lemma spec_list_ext L1 L2 p k c d : (forall x, lookup L1 x = lookup L2 x) ->
  spec_list L1 p k c d = spec_list L2 p k c d.
Proof. intro H. unfold spec_list, view. rewrite (overlay_ext L1 L2 H). reflexivity. Qed.

Lemma spec_count_ext L1 L2 p : (forall x, lookup L1 x = lookup L2 x) -> spec_count L1 p = spec_count L2 p.
Proof. intro H. unfold spec_count, view. rewrite (overlay_ext L1 L2 H). reflexivity. Qed.
