(** C08 — specification of the message layer: every transaction id owns one abstract
    (base, committed overlay, open transaction) database over the shared base; requests
    without a transaction id read the base; a count asked on behalf of transaction [i]
    counts what [i] can read. *)
From Coq Require Import List NArith ZArith Bool.
From C33 Require Import Lib.Harness Lib.Bytes Lib.OMap C07.Model C07.Spec C08.Model C08.Spec C08.HModel.
Import ListNotations.

Definition s_rawlist (base : store) (p k : bytes) (c d : Z) : option (list bytes) :=
  Some (spec_list [base] p k c d).

(** "list and count queries agree with point reads": inside transaction [i] the count is taken
    over the layers [i] reads from *)
Definition s_count (base : store) (t : option sdb) (p : bytes) : option Z :=
  Some (spec_count (match t with Some s => s_layers s | None => [base] end) p).

Definition run_hspec (base : store) (hs : list hop) : list hout :=
  snd (hrun sdb new_spec s_step s_rawlist s_count (mk_hst base [] 0%Z) hs).

(** well-formed requests: byte strings, listing prefixes inside C07's guard *)
Definition hop_ok (h : hop) : bool :=
  match h with
  | HSet _ kvs => forallb (fun kv => wf_bytesb (fst kv)) kvs
  | HGet _ ks => forallb wf_bytesb ks
  | HList _ p _ _ _ => wf_bytesb p && prefix_ok p
  | HCount _ p => wf_bytesb p && prefix_ok p
  | _ => true
  end.

(** transaction [i] is sent a write somewhere in the history *)
Definition writes_to (i : Z) (hs : list hop) : bool :=
  existsb (fun h => match h with HSet j (_ :: _) => (j =? i)%Z | _ => false end) hs.

(** guard of the count requests: the asking transaction never writes *)
Definition count_ok (hs : list hop) : bool :=
  forallb (fun h => match h with HCount i _ => negb (writes_to i hs) | _ => true end) hs.
