(** C08 — executable model of common/db/localdb.go (LocalDB) as it is.

    The three layers are ordered maps ([Lib.OMap]); [txcache] and [cache] are
    GoMemDBs ([None] = the Go field is nil), an empty value is what
    [Set(k, nil)] stores.  Listing goes through C07's model of
    NewListHelper(NewMergedIteratorDB(dblist)). *)
From Coq Require Import List NArith ZArith Bool.
From C33 Require Import Lib.Harness Lib.Bytes Lib.OMap C07.Model.
Import ListNotations.

Record ldb := mk_ldb {
  l_tx : option store;      (* txcache *)
  l_cache : option store;   (* cache *)
  l_main : store;           (* maindb (never written through LocalDB) *)
  l_intx : bool;
  l_ro : bool }.

(** NewLocalDB(maindb, readOnly) *)
Definition new_localdb (main : store) (ro : bool) : ldb :=
  if ro then mk_ldb None None main false true
  else mk_ldb (Some []) (Some []) main false false.

(** get: txcache (only inside a transaction), cache, then maindb with
    read-through insertion into cache.  [None] = ErrNotFoundInDb. *)
Definition ldb_get_raw (l : ldb) (k : bytes) : ldb * option bytes :=
  let from_tx := if l_intx l then match l_tx l with Some t => get k t | None => None end else None in
  match from_tx with
  | Some v => (l, Some v)
  | None =>
      match (match l_cache l with Some c => get k c | None => None end) with
      | Some v => (l, Some v)
      | None =>
          match get k (l_main l) with
          | None => (l, None)
          | Some v =>
              (mk_ldb (l_tx l) (option_map (put k v) (l_cache l)) (l_main l) (l_intx l) (l_ro l), Some v)
          end
      end
  end.

(** Get: a deleted (empty) value is reported as ErrNotFoundInDb *)
Definition ldb_get (l : ldb) (k : bytes) : ldb * option bytes :=
  let '(l', r) := ldb_get_raw l k in
  match r with
  | Some v => if isdeleted v then (l', None) else (l', Some v)
  | None => (l', None)
  end.

(** Set: panics in read-only mode; inside a transaction writes txcache
    (created on demand), otherwise cache.  [None] result = panic. *)
Definition ldb_set (l : ldb) (k v : bytes) : option ldb :=
  if l_ro l then None
  else if l_intx l then
    Some (mk_ldb (Some (put k v (match l_tx l with Some t => t | None => [] end)))
                 (l_cache l) (l_main l) (l_intx l) (l_ro l))
  else Some (mk_ldb (l_tx l) (option_map (put k v) (l_cache l)) (l_main l) (l_intx l) (l_ro l)).

(** dblist of List / PrefixCount: txcache, cache (when not nil), maindb *)
Definition ldb_layers (l : ldb) : list store :=
  (match l_tx l with Some t => [t] | None => [] end) ++
  (match l_cache l with Some c => [c] | None => [] end) ++ [l_main l].

Definition ldb_list (l : ldb) (prefix key : bytes) (count d : Z) : option (list bytes) :=
  mg_list (ldb_layers l) prefix key count d.

Definition ldb_prefix_count (l : ldb) (prefix : bytes) : option Z :=
  mg_prefix_count (ldb_layers l) prefix.

(** Begin: intx = true; txcache = nil *)
Definition ldb_begin (l : ldb) : ldb := mk_ldb None (l_cache l) (l_main l) true (l_ro l).

(** resetTx *)
Definition reset_tx (l : ldb) : ldb := mk_ldb None (l_cache l) (l_main l) false (l_ro l).

Definition ldb_rollback (l : ldb) : ldb := reset_tx l.

(** Commit: it := txcache.Iterator(nil, nil, false); for it.Next() { cache.Set(it.Key(), it.Value()) }
    (Next on the fresh forward iterator moves to the first entry). *)
Fixpoint commit_loop (fuel : nat) (it : dbit) (c : store) : store :=
  match fuel with
  | O => c
  | S f =>
      let it' := db_next it in
      match db_cur it' with
      | Some e => commit_loop f it' (put (fst e) (snd e) c)
      | None => c
      end
  end.

Definition ldb_commit (l : ldb) : ldb :=
  match l_tx l with
  | None => reset_tx l
  | Some t =>
      reset_tx (mk_ldb (l_tx l)
                       (option_map (commit_loop (S (length t)) (db_open t [] false)) (l_cache l))
                       (l_main l) (l_intx l) (l_ro l))
  end.

(** * operation histories *)
Inductive op :=
| OBegin | OCommit | ORollback
| OSet (k v : bytes)
| OGet (k : bytes)
| OList (prefix key : bytes) (count d : Z)
| OCount (prefix : bytes).

Inductive out :=
| RUnit                       (* Begin / Commit / Rollback / Set *)
| RPanic                      (* Set in read-only mode *)
| RGet (v : option bytes)     (* None = ErrNotFoundInDb *)
| RList (vs : list bytes)
| RCount (n : Z)
| RFuel.                      (* the model ran out of fuel (never, see Proofs) *)

Definition ldb_step (l : ldb) (o : op) : ldb * out :=
  match o with
  | OBegin => (ldb_begin l, RUnit)
  | OCommit => (ldb_commit l, RUnit)
  | ORollback => (ldb_rollback l, RUnit)
  | OSet k v => match ldb_set l k v with Some l' => (l', RUnit) | None => (l, RPanic) end
  | OGet k => let '(l', r) := ldb_get l k in (l', RGet r)
  | OList p k c d => (l, match ldb_list l p k c d with Some vs => RList vs | None => RFuel end)
  | OCount p => (l, match ldb_prefix_count l p with Some n => RCount n | None => RFuel end)
  end.

Fixpoint ldb_run (l : ldb) (ops : list op) : ldb * list out :=
  match ops with
  | [] => (l, [])
  | o :: tl =>
      let '(l1, r) := ldb_step l o in
      let '(l2, rs) := ldb_run l1 tl in (l2, r :: rs)
  end.

Definition run_localdb (base : store) (ro : bool) (ops : list op) : list out :=
  snd (ldb_run (new_localdb base ro) ops).
