(** C08 — LocalDB refines the (base, committed overlay, optional transaction) specification. *)
From Coq Require Import String.
From Coq Require Import List NArith ZArith Bool Lia.
From C33 Require Import Lib.Harness Lib.Bytes Lib.OMap C07.Model C07.Spec C07.ProofsBase C07.Proofs
  C08.Model C08.Spec C08.ProofsBase.
Import ListNotations.

Definition tx_rel (tx : option store) (intx : bool) (stx : option store) : Prop :=
  (intx = true /\ exists t, stx = Some t /\ (tx = Some t \/ (tx = None /\ t = []))) \/
  (intx = false /\ stx = None /\ (tx = None \/ tx = Some [])).

Definition cache_rel (cache tx : option store) (main committed : store) (ro : bool) : Prop :=
  if ro then cache = None /\ committed = [] /\ tx = None
  else exists c, cache = Some c /\ wf_store c /\
                 forall k, lookup [c; main] k = lookup [committed; main] k.

Definition Inv (l : ldb) (s : sdb) : Prop :=
  l_main l = s_base s /\ l_ro l = s_ro s /\ wf_store (l_main l) /\ wf_store (s_committed s) /\
  (forall t, s_tx s = Some t -> wf_store t) /\
  tx_rel (l_tx l) (l_intx l) (s_tx s) /\
  cache_rel (l_cache l) (l_tx l) (l_main l) (s_committed s) (l_ro l).

Lemma inv_init base ro : wf_store base -> Inv (new_localdb base ro) (new_spec base ro).
Proof.
  intro W. unfold new_localdb, new_spec. destruct ro; unfold Inv; simpl.
  - refine (conj eq_refl (conj eq_refl (conj W (conj wf_nil (conj _ (conj _ _)))))).
    + intros t H. discriminate.
    + right. repeat split. left. reflexivity.
    + repeat split.
  - refine (conj eq_refl (conj eq_refl (conj W (conj wf_nil (conj _ (conj _ _)))))).
    + intros t H. discriminate.
    + right. repeat split. right. reflexivity.
    + exists []. split; [reflexivity|]. split; [exact wf_nil | reflexivity].
Qed.

Lemma inv_lookup l s : Inv l s -> forall k, lookup (ldb_layers l) k = lookup (s_layers s) k.
Proof.
  destruct l as [tx cache main intx ro], s as [base committed stx sro].
  unfold Inv, ldb_layers, s_layers. simpl. intros (-> & -> & _ & _ & _ & HT & HC) k.
  assert (Hrest : lookup ((match cache with Some c => [c] | None => [] end) ++ [base]) k
                  = lookup [committed; base] k).
  { unfold cache_rel in HC. destruct sro.
    - destruct HC as (-> & -> & _). reflexivity.
    - destruct HC as (c & -> & _ & HC). apply HC. }
  destruct HT as [(_ & t & -> & [->|[-> ->]])|(_ & -> & [->| ->])]; simpl in *; rewrite ?Hrest; reflexivity.
Qed.

Lemma inv_layers_wf l s : Inv l s -> Forall wf_store (ldb_layers l).
Proof.
  destruct l as [tx cache main intx ro], s as [base committed stx sro].
  unfold Inv, ldb_layers. simpl. intros (-> & -> & Wm & _ & Wt & HT & HC).
  apply Forall_app. split; [|apply Forall_app; split].
  - destruct HT as [(_ & t & -> & [->|[-> ->]])|(_ & -> & [->| ->])].
    + constructor; [apply Wt; reflexivity | constructor].
    + constructor.
    + constructor.
    + constructor; [exact wf_nil | constructor].
  - unfold cache_rel in HC. destruct sro.
    + destruct HC as (-> & _). constructor.
    + destruct HC as (c & -> & Wc & _). constructor; [exact Wc | constructor].
  - constructor; [exact Wm | constructor].
Qed.

Ltac mkinv := refine (conj eq_refl (conj eq_refl (conj _ (conj _ (conj _ (conj _ _)))))); try assumption.

(** the raw read is the layered lookup, and read-through keeps the invariant *)
Lemma get_raw_refines l s k : Inv l s -> wf_bytes k ->
  snd (ldb_get_raw l k) = lookup (s_layers s) k /\ Inv (fst (ldb_get_raw l k)) s.
Proof.
  intros HI Wk. rewrite <- (inv_lookup l s HI k).
  destruct l as [tx cache main intx ro], s as [base committed stx sro].
  unfold Inv in *. simpl in HI. destruct HI as (-> & -> & Wm & Wc & Wt & HT & HC).
  unfold ldb_get_raw, ldb_layers. simpl.
  (* the transaction layer *)
  assert (Htx : (if intx then match tx with Some t => get k t | None => None end else None)
                = match tx with Some t => get k t | None => None end).
  { destruct HT as [(-> & _)|(-> & _ & [->| ->])]; reflexivity. }
  rewrite Htx. clear Htx.
  destruct tx as [t|]; simpl.
  - destruct (get k t) as [v|] eqn:E; simpl.
    + split; [reflexivity|]. mkinv.
    + unfold cache_rel in HC. destruct sro.
      * destruct HC as (-> & -> & HC). discriminate.
      * destruct HC as (c & -> & Wcc & HC). simpl.
        destruct (get k c) as [v|] eqn:Ec; simpl; [split; [reflexivity|]; mkinv;
          exists c; split; [reflexivity|]; split; assumption|].
        destruct (get k base) as [v|] eqn:Eb; simpl; [|split; [reflexivity|]; mkinv;
          exists c; split; [reflexivity|]; split; assumption].
        split; [reflexivity|]. mkinv.
        exists (put k v c). split; [reflexivity|]. split; [apply put_wf; assumption|].
        intro k'. transitivity (lookup [c; base] k'); [|apply HC]. simpl. rewrite get_put.
        destruct (beqb k' k) eqn:Ek; [|reflexivity].
        apply beqb_eq in Ek. subst k'. rewrite Ec, Eb. reflexivity.
  - unfold cache_rel in HC. destruct sro.
    + destruct HC as (-> & -> & _). simpl.
      destruct (get k base) as [v|] eqn:Eb; simpl; (split; [reflexivity|]); mkinv; repeat split.
    + destruct HC as (c & -> & Wcc & HC). simpl.
      destruct (get k c) as [v|] eqn:Ec; simpl; [split; [reflexivity|]; mkinv;
        exists c; split; [reflexivity|]; split; assumption|].
      destruct (get k base) as [v|] eqn:Eb; simpl; [|split; [reflexivity|]; mkinv;
        exists c; split; [reflexivity|]; split; assumption].
      split; [reflexivity|]. mkinv.
      exists (put k v c). split; [reflexivity|]. split; [apply put_wf; assumption|].
      intro k'. transitivity (lookup [c; base] k'); [|apply HC]. simpl. rewrite get_put.
      destruct (beqb k' k) eqn:Ek; [|reflexivity].
      apply beqb_eq in Ek. subst k'. rewrite Ec, Eb. reflexivity.
Qed.

Lemma cache_rel_tx cache tx tx' main committed ro :
  cache_rel cache tx main committed ro -> (ro = true -> tx' = None) -> cache_rel cache tx' main committed ro.
Proof.
  unfold cache_rel. destruct ro; [|auto]. intros (H1 & H2 & _) H. repeat split; auto.
Qed.

Lemma step_get l s k : Inv l s -> wf_bytes k ->
  snd (ldb_step l (OGet k)) = snd (s_step s (OGet k)) /\
  Inv (fst (ldb_step l (OGet k))) (fst (s_step s (OGet k))).
Proof.
  intros HI Wk. destruct (get_raw_refines l s k HI Wk) as [Hr HI'].
  cbn [ldb_step s_step fst snd]. unfold ldb_get, s_get.
  destruct (ldb_get_raw l k) as [l' r]. cbn [fst snd] in *. subst r.
  destruct (lookup (s_layers s) k) as [v|]; [destruct (isdeleted v)|]; cbn [fst snd]; split; auto.
Qed.

Lemma step_list l s p k c d : Inv l s -> wf_bytes p -> prefix_ok p = true ->
  snd (ldb_step l (OList p k c d)) = snd (s_step s (OList p k c d)).
Proof.
  intros HI Wp Hp. cbn [ldb_step s_step snd]. unfold ldb_list.
  rewrite (mg_list_spec _ p k c d (inv_layers_wf l s HI) Wp Hp).
  f_equal. apply spec_list_ext. apply inv_lookup. exact HI.
Qed.

Lemma step_count l s p : Inv l s -> wf_bytes p -> prefix_ok p = true ->
  snd (ldb_step l (OCount p)) = snd (s_step s (OCount p)).
Proof.
  intros HI Wp Hp. cbn [ldb_step s_step snd]. unfold ldb_prefix_count.
  rewrite (mg_prefix_count_spec _ p (inv_layers_wf l s HI) Wp Hp).
  f_equal. apply spec_count_ext. apply inv_lookup. exact HI.
Qed.

Lemma ro_tx_none cache tx main committed : cache_rel cache tx main committed true -> tx = None.
Proof. intros (_ & _ & H). exact H. Qed.

Lemma step_begin l s : Inv l s -> Inv (ldb_begin l) (fst (s_step s OBegin)).
Proof.
  destruct l as [tx cache main intx ro], s as [base committed stx sro].
  unfold Inv. simpl. intros (-> & -> & Wm & Wc & Wt & HT & HC). mkinv.
  - intros t H. inversion H. exact wf_nil.
  - left. split; [reflexivity|]. exists []. split; [reflexivity|]. right. split; reflexivity.
  - eapply cache_rel_tx; [exact HC | reflexivity].
Qed.

Lemma step_rollback l s : Inv l s -> Inv (ldb_rollback l) (fst (s_step s ORollback)).
Proof.
  destruct l as [tx cache main intx ro], s as [base committed stx sro].
  unfold Inv. simpl. intros (-> & -> & Wm & Wc & Wt & HT & HC). mkinv.
  - intros t H. discriminate.
  - right. repeat split. left. reflexivity.
  - eapply cache_rel_tx; [exact HC | reflexivity].
Qed.

Lemma lookup_put_all t c base k : sorted t ->
  lookup [put_all t c; base] k = match get k t with Some v => Some v | None => lookup [c; base] k end.
Proof. intro Hs. simpl. rewrite (get_put_all k t c Hs). destruct (get k t); reflexivity. Qed.

Lemma lookup_overlay2 t c base k :
  lookup [overlay2 t c; base] k = match get k t with Some v => Some v | None => lookup [c; base] k end.
Proof. simpl. rewrite get_overlay2. destruct (get k t); reflexivity. Qed.

Lemma overlay2_wf t c : wf_store t -> wf_store c -> wf_store (overlay2 t c).
Proof.
  intros [_ Wt] Wc. induction t as [|e t IH]; simpl; [exact Wc|].
  inversion Wt; subst. apply put_wf; [assumption | apply IH; assumption].
Qed.

Lemma step_commit l s : Inv l s -> Inv (ldb_commit l) (fst (s_step s OCommit)).
Proof.
  destruct l as [tx cache main intx ro], s as [base committed stx sro].
  unfold Inv. simpl. intros (-> & -> & Wm & Wc & Wt & HT & HC).
  unfold ldb_commit, reset_tx. simpl.
  destruct HT as [(-> & t & -> & [->|[-> ->]])|(-> & -> & [->| ->])]; simpl.
  - (* open transaction with writes *)
    assert (Wtt : wf_store t) by (apply Wt; reflexivity).
    mkinv.
    + apply overlay2_wf; assumption.
    + intros t' H. discriminate.
    + right. repeat split. left. reflexivity.
    + unfold cache_rel in *. destruct sro.
      * destruct HC as (_ & _ & HC). discriminate.
      * destruct HC as (c & -> & Wcc & HC). simpl. exists (commit_loop (S (length t)) (db_open t [] false) c).
        split; [reflexivity|]. rewrite commit_loop_spec. split; [apply put_all_wf; assumption|].
        intro k. change (lookup [put_all t c; base] k = lookup [overlay2 t committed; base] k).
        rewrite lookup_put_all by (destruct Wtt; assumption). rewrite lookup_overlay2.
        destruct (get k t); [reflexivity | apply HC].
  - (* open transaction without writes *)
    mkinv; try (intros t' H; discriminate); try (right; repeat split; left; reflexivity);
      try (eapply cache_rel_tx; [exact HC | reflexivity]).
  - mkinv; try (intros t' H; discriminate); try (right; repeat split; left; reflexivity);
      try (eapply cache_rel_tx; [exact HC | reflexivity]).
  - (* the initial empty txcache *)
    mkinv.
    + right. repeat split. left. reflexivity.
    + unfold cache_rel in *. destruct sro.
      * destruct HC as (_ & _ & HC). discriminate.
      * destruct HC as (c & -> & Wcc & HC). simpl. exists c. repeat split; try assumption; apply Wcc.
Qed.

Lemma step_set l s k v : Inv l s -> wf_bytes k ->
  snd (ldb_step l (OSet k v)) = snd (s_step s (OSet k v)) /\
  Inv (fst (ldb_step l (OSet k v))) (fst (s_step s (OSet k v))).
Proof.
  destruct l as [tx cache main intx ro], s as [base committed stx sro].
  unfold Inv. simpl. intros (-> & -> & Wm & Wc & Wt & HT & HC) Wk.
  unfold ldb_set. simpl. destruct sro; simpl.
  - split; [reflexivity|]. mkinv.
  - unfold cache_rel in HC. destruct HC as (c & -> & Wcc & HC).
    destruct HT as [(-> & t & -> & [->|[-> ->]])|(-> & -> & Htx)]; simpl.
    + split; [reflexivity|]. mkinv.
      * intros t' H. inversion H. apply put_wf; [exact Wk | apply Wt; reflexivity].
      * left. split; [reflexivity|]. exists (put k v t). split; [reflexivity|]. left. reflexivity.
      * exists c. repeat split; try assumption; apply Wcc.
    + split; [reflexivity|]. mkinv.
      * intros t' H. inversion H. exact (put_wf k v [] Wk wf_nil).
      * left. split; [reflexivity|]. exists (put k v []). split; [reflexivity|]. left. reflexivity.
      * exists c. repeat split; try assumption; apply Wcc.
    + split; [reflexivity|].
      mkinv; try (apply put_wf; assumption); try (intros t' H; discriminate);
        try (right; repeat split; exact Htx).
      exists (put k v c). split; [reflexivity|]. split; [apply put_wf; assumption|].
      intro k'. specialize (HC k'). simpl in *. rewrite !get_put.
      destruct (beqb k' k); [reflexivity | exact HC].
Qed.

Theorem step_refines l s o : Inv l s -> op_ok o = true ->
  snd (ldb_step l o) = snd (s_step s o) /\ Inv (fst (ldb_step l o)) (fst (s_step s o)).
Proof.
  intros HI Hok. destruct o as [| | |k v|k|p k c d|p]; simpl in Hok.
  - split; [reflexivity | apply step_begin; exact HI].
  - split; [reflexivity | apply step_commit; exact HI].
  - split; [reflexivity | apply step_rollback; exact HI].
  - apply step_set; [exact HI | apply wf_bytesb_iff; exact Hok].
  - apply step_get; [exact HI | apply wf_bytesb_iff; exact Hok].
  - apply andb_true_iff in Hok as [H1 H2]. apply wf_bytesb_iff in H1.
    split; [apply step_list; assumption | exact HI].
  - apply andb_true_iff in Hok as [H1 H2]. apply wf_bytesb_iff in H1.
    split; [apply step_count; assumption | exact HI].
Qed.

Theorem run_refines : forall ops l s, Inv l s -> forallb op_ok ops = true ->
  snd (ldb_run l ops) = snd (s_run s ops) /\ Inv (fst (ldb_run l ops)) (fst (s_run s ops)).
Proof.
  induction ops as [|o ops IH]; intros l s HI Hok; simpl; [split; [reflexivity | exact HI]|].
  simpl in Hok. apply andb_true_iff in Hok as [Ho Hops].
  destruct (step_refines l s o HI Ho) as [Hr HI1].
  destruct (ldb_step l o) as [l1 r1], (s_step s o) as [s1 r1']. cbn [fst snd] in *. subst r1'.
  destruct (IH l1 s1 HI1 Hops) as [Hrs HI2].
  destruct (ldb_run l1 ops) as [l2 rs], (s_run s1 ops) as [s2 rs']. cbn [fst snd] in *. subst rs'.
  split; [reflexivity | exact HI2].
Qed.

Theorem refines base ro ops : wf_store base -> forallb op_ok ops = true ->
  run_localdb base ro ops = run_spec base ro ops.
Proof.
  intros W Hok. unfold run_localdb, run_spec.
  apply (run_refines ops _ _ (inv_init base ro W) Hok).
Qed.

(** * list and count agree with point reads at every reachable state *)
Lemma get_out l s k : Inv l s -> wf_bytes k ->
  snd (ldb_get l k) = match lookup (ldb_layers l) k with
                      | Some v => if isdeleted v then None else Some v
                      | None => None
                      end.
Proof.
  intros HI Wk. destruct (get_raw_refines l s k HI Wk) as [Hr _].
  rewrite (inv_lookup l s HI k). unfold ldb_get.
  destruct (ldb_get_raw l k) as [l' r]. cbn [fst snd] in *. subst r.
  destruct (lookup (s_layers s) k) as [v|]; [destruct (isdeleted v)|]; reflexivity.
Qed.

Lemma take_zero l : take 0 l = l.
Proof. reflexivity. Qed.

Theorem list_agrees_with_get base ro ops :
  wf_store base -> forallb op_ok ops = true ->
  let l := fst (ldb_run (new_localdb base ro) ops) in
  forall prefix d, wf_bytes prefix -> prefix_ok prefix = true ->
  exists entries,
    ldb_list l prefix [] 0 d = Some (map (collect d) entries) /\
    ldb_prefix_count l prefix = Some (Z.of_nat (length entries)) /\
    NoDup (map fst entries) /\
    forall k v, wf_bytes k ->
      (In (k, v) entries <-> snd (ldb_get l k) = Some v /\ is_prefix prefix k = true).
Proof.
  intros W Hok l prefix d Wp Hp.
  destruct (run_refines ops _ _ (inv_init base ro W) Hok) as [_ HI]. fold l in HI.
  set (s := fst (s_run (new_spec base ro) ops)) in HI.
  exists (expected (ldb_layers l) prefix d).
  split; [|split; [|split]].
  - unfold ldb_list. rewrite (mg_list_spec _ prefix [] 0 d (inv_layers_wf l s HI) Wp Hp). reflexivity.
  - unfold ldb_prefix_count. rewrite (mg_prefix_count_spec _ prefix (inv_layers_wf l s HI) Wp Hp).
    unfold spec_count, expected, in_order. destruct (is_asc d); [reflexivity | rewrite rev_length; reflexivity].
  - apply expected_nodup.
  - intros k v Wk. rewrite expected_char, (get_out l s k HI Wk).
    destruct (lookup (ldb_layers l) k) as [v'|].
    + destruct v' as [|b v']; simpl.
      * split; [intros (H1 & H2 & _); inversion H1; subst; congruence | intros [H _]; discriminate].
      * split.
        -- intros (H1 & _ & H3). split; [congruence | exact H3].
        -- intros [H1 H3]. inversion H1; subst. repeat split; [discriminate | exact H3].
    + split; [intros (H1 & _); discriminate | intros [H _]; discriminate].
Qed.

(** * the prefix guard is needed *)
Definition op_wf (o : op) : bool :=
  match o with
  | OSet k _ => wf_bytesb k
  | OGet k => wf_bytesb k
  | OList p _ _ _ => wf_bytesb p
  | OCount p => wf_bytesb p
  | _ => true
  end.

Definition refines_full : Prop :=
  forall base ro ops, wf_store base -> forallb op_wf ops = true ->
    run_localdb base ro ops = run_spec base ro ops.

Theorem refines_full_refuted : ~ refines_full.
Proof.
  intro H.
  specialize (H (hd [] ev_layers) false [OSet (bs "zz"%string) (bs "w"%string); OCount ev_prefix]).
  assert (W : wf_store (hd [] ev_layers)) by (apply wf_storeb_ok; vm_compute; reflexivity).
  specialize (H W eq_refl). vm_compute in H. discriminate.
Qed.

(** * a non-trivial history satisfying the hypotheses *)
Definition ex_base : store := [(bs "a1"%string, bs "one"%string); (bs "a2"%string, bs "two"%string); (bs "b"%string, bs "bee"%string)].
Definition ex_ops : list op :=
  [OGet (bs "a1"%string); OBegin; OSet (bs "a1"%string) []; OSet (bs "a3"%string) (bs "three"%string); OList (bs "a"%string) [] 0 9;
   ORollback; OList (bs "a"%string) [] 0 9; OBegin; OSet (bs "a2"%string) []; OCommit; OGet (bs "a2"%string); OCount (bs "a"%string)].

Example ex_hist :
  wf_storeb ex_base = true /\ forallb op_ok ex_ops = true /\
  run_localdb ex_base false ex_ops =
  [RGet (Some (bs "one"%string)); RUnit; RUnit; RUnit; RList [bs "a2"%string; bs "a3"%string]; RUnit;
   RList [bs "a1"%string; bs "a2"%string]; RUnit; RUnit; RUnit; RGet None; RCount 1].
Proof. vm_compute. repeat split. Qed.
