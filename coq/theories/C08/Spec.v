(** C08 — the abstract specification: a base map, a committed overlay and an
    optional open transaction overlay; an empty value hides older values. *)
From Coq Require Import List NArith ZArith Bool.
From C33 Require Import Lib.Harness Lib.Bytes Lib.OMap C07.Model C07.Spec C08.Model.
Import ListNotations.

Record sdb := mk_sdb {
  s_base : store;
  s_committed : store;
  s_tx : option store;
  s_ro : bool }.

Definition new_spec (base : store) (ro : bool) : sdb := mk_sdb base [] None ro.

(** newest first: open transaction, committed overlay, base *)
Definition s_layers (s : sdb) : list store :=
  (match s_tx s with Some t => [t] | None => [] end) ++ [s_committed s; s_base s].

(** a read returns the newest write visible; an empty value means "deleted" *)
Definition s_get (s : sdb) (k : bytes) : option bytes :=
  match lookup (s_layers s) k with
  | Some v => if isdeleted v then None else Some v
  | None => None
  end.

Definition s_step (s : sdb) (o : op) : sdb * out :=
  match o with
  | OBegin => (mk_sdb (s_base s) (s_committed s) (Some []) (s_ro s), RUnit)
      (* Begin inside an open transaction discards that transaction's writes and starts a new one *)
  | OCommit =>
      (mk_sdb (s_base s)
              (match s_tx s with Some t => overlay2 t (s_committed s) | None => s_committed s end)
              None (s_ro s), RUnit)
  | ORollback => (mk_sdb (s_base s) (s_committed s) None (s_ro s), RUnit)
  | OSet k v =>
      if s_ro s then (s, RPanic)
      else match s_tx s with
           | Some t => (mk_sdb (s_base s) (s_committed s) (Some (put k v t)) (s_ro s), RUnit)
           | None => (mk_sdb (s_base s) (put k v (s_committed s)) None (s_ro s), RUnit)
           end
  | OGet k => (s, RGet (s_get s k))
  | OList p k c d => (s, RList (spec_list (s_layers s) p k c d))
  | OCount p => (s, RCount (spec_count (s_layers s) p))
  end.

Fixpoint s_run (s : sdb) (ops : list op) : sdb * list out :=
  match ops with
  | [] => (s, [])
  | o :: tl =>
      let '(s1, r) := s_step s o in
      let '(s2, rs) := s_run s1 tl in (s2, r :: rs)
  end.

Definition run_spec (base : store) (ro : bool) (ops : list op) : list out :=
  snd (s_run (new_spec base ro) ops).

(** input well-formedness: keys and prefixes are byte strings; listing prefixes
    satisfy C07's guard (their upper bound is not types.EmptyValue) *)
Definition op_ok (o : op) : bool :=
  match o with
  | OSet k _ => wf_bytesb k
  | OGet k => wf_bytesb k
  | OList p _ _ _ => wf_bytesb p && prefix_ok p
  | OCount p => wf_bytesb p && prefix_ok p
  | _ => true
  end.
