(** C08 — executable model of blockchain/localdb.go: the EventLocal* handlers and their
    transaction-id table (common.StorePointer / GetPointer / RemovePointer), as they are.

    The dispatch code is written once, generically in the per-transaction database
    ([T], [newf], [stepf]) and in the two requests that never reach a transaction
    (listing / counting on the raw block-store database).  [HModel] instantiates it with the
    LocalDB model of [C08.Model]; [C08.HSpec] instantiates the same dispatch with the abstract
    (base, committed overlay, open transaction) database.

    Transaction ids are relative: id [n] is the [n]-th id handed out since the start of the
    history (the harness subtracts the value of the global counter at the start). *)
From Coq Require Import List NArith ZArith Bool.
From C33 Require Import Lib.Harness Lib.Bytes Lib.OMap C07.Model C08.Model.
Import ListNotations.

(** requests (one queue message each) *)
Inductive hop :=
| HNew (ro : bool)                                   (* EventLocalNew, data = readOnly *)
| HClose (i : Z)                                     (* EventLocalClose *)
| HBegin (i : Z)                                     (* EventLocalBegin *)
| HCommit (i : Z)                                    (* EventLocalCommit *)
| HRollback (i : Z)                                  (* EventLocalRollback *)
| HSet (i : Z) (kvs : list (bytes * bytes))          (* EventLocalSet: LocalDBSet{Txid, KV} *)
| HGet (i : Z) (ks : list bytes)                     (* EventLocalGet: LocalDBGet{Txid, Keys} *)
| HList (i : Z) (prefix key : bytes) (count d : Z)   (* EventLocalList: LocalDBList{Txid, ...} *)
| HCount (i : Z) (prefix : bytes).                   (* EventLocalPrefixCount: ReqKey{Key}; [i] is the
                                                        transaction on whose behalf the client asks —
                                                        the message has no field for it *)

Inductive herr :=
| ENoPtr        (* common.ErrPointerNotFound *)
| ENotInTx      (* types.ErrNotSetInTransaction *)
| EPanic        (* processMsg recovered a panic and replied ErrExecPanic *)
| EOther.

Inductive hout :=
| HId (i : Z)                        (* reply of EventLocalNew *)
| HOk
| HErr (e : herr)
| HVals (vs : list (option bytes))   (* LocalReplyValue of a Get: None = nil / empty *)
| HItems (vs : list bytes)           (* LocalReplyValue of a List *)
| HCnt (n : Z)
| HFuel.

(** * the pointer table *)
Fixpoint tget {A} (i : Z) (t : list (Z * A)) : option A :=
  match t with
  | [] => None
  | (j, a) :: r => if (j =? i)%Z then Some a else tget i r
  end.

Fixpoint tset {A} (i : Z) (a : A) (t : list (Z * A)) : list (Z * A) :=
  match t with
  | [] => []
  | (j, b) :: r => if (j =? i)%Z then (j, a) :: r else (j, b) :: tset i a r
  end.

Fixpoint tdel {A} (i : Z) (t : list (Z * A)) : list (Z * A) :=
  match t with
  | [] => []
  | (j, b) :: r => if (j =? i)%Z then tdel i r else (j, b) :: tdel i r
  end.

(** StorePointer: globalPointerID++; for globalPointerMap[globalPointerID] != nil { globalPointerID++ } *)
Fixpoint fresh_id {A} (fuel : nat) (n : Z) (t : list (Z * A)) : Z :=
  match fuel with
  | O => n
  | S f => match tget n t with Some _ => fresh_id f (n + 1)%Z t | None => n end
  end.

(** a nil and an empty value are the same bytes field on the wire *)
Definition canon (o : option bytes) : option bytes :=
  match o with Some v => if isdeleted v then None else Some v | None => None end.

Definition val_of (r : out) : option bytes := match r with RGet v => canon v | _ => None end.
Definition is_panic (r : out) : bool := match r with RPanic => true | _ => false end.

Section Dispatch.
  Variable T : Type.
  Variable newf : store -> bool -> T.                (* db.NewLocalDB(chain.blockStore.db, readOnly) *)
  Variable stepf : T -> op -> T * out.               (* one KVDB call *)
  Variable rawlist : store -> bytes -> bytes -> Z -> Z -> option (list bytes).
  Variable countf : store -> option T -> bytes -> option Z.

  Record hst := mk_hst { h_base : store; h_tab : list (Z * T); h_ctr : Z }.

  (** the calls of one handler on its transaction; a panic ends the handler *)
  Fixpoint run_calls (t : T) (ops : list op) : T * list out :=
    match ops with
    | [] => (t, [])
    | o :: r =>
        let '(t1, x) := stepf t o in
        if is_panic x then (t1, [x])
        else let '(t2, xs) := run_calls t1 r in (t2, x :: xs)
    end.

  (** what one request does on the transaction it addresses *)
  Definition serve (t : T) (h : hop) : T * hout :=
    match h with
    | HBegin _ => let '(t1, _) := stepf t OBegin in (t1, HOk)
    | HCommit _ => let '(t1, _) := stepf t OCommit in (t1, HOk)       (* Commit never returns an error *)
    | HRollback _ => let '(t1, _) := stepf t ORollback in (t1, HOk)
    | HSet _ kvs =>
        let '(t1, xs) := run_calls t (map (fun kv => OSet (fst kv) (snd kv)) kvs) in
        (t1, if existsb is_panic xs then HErr EPanic else HOk)
    | HGet _ ks =>
        let '(t1, xs) := run_calls t (map OGet ks) in (t1, HVals (map val_of xs))
    | HList _ p k c d =>
        let '(t1, x) := stepf t (OList p k c d) in
        (t1, match x with RList vs => HItems vs | _ => HFuel end)
    | _ => (t, HOk)
    end.

  Definition with_tx (st : hst) (i : Z) (h : hop) : hst * hout :=
    match tget i (h_tab st) with
    | None => (st, HErr ENoPtr)
    | Some t => let '(t1, r) := serve t h in (mk_hst (h_base st) (tset i t1 (h_tab st)) (h_ctr st), r)
    end.

  Definition hstep (st : hst) (h : hop) : hst * hout :=
    match h with
    | HNew ro =>
        let id := fresh_id (S (length (h_tab st))) (h_ctr st + 1)%Z (h_tab st) in
        (mk_hst (h_base st) ((id, newf (h_base st) ro) :: h_tab st) id, HId id)
    | HClose i =>
        (* _, err := GetPointer(id); RemovePointer(id); reply err *)
        (mk_hst (h_base st) (tdel i (h_tab st)) (h_ctr st),
         match tget i (h_tab st) with Some _ => HOk | None => HErr ENoPtr end)
    | HBegin i | HCommit i | HRollback i => with_tx st i h
    | HSet i _ => if (i =? 0)%Z then (st, HErr ENotInTx) else with_tx st i h
    | HGet i ks =>
        if (i =? 0)%Z then (st, HVals (map (fun k => canon (get k (h_base st))) ks))   (* blockStore.Get *)
        else with_tx st i h
    | HList i p k c d =>
        if (0 <? i)%Z then with_tx st i h
        else (st, match rawlist (h_base st) p k c d with Some vs => HItems vs | None => HFuel end)
    | HCount i p =>
        (st, match countf (h_base st) (tget i (h_tab st)) p with Some n => HCnt n | None => HFuel end)
    end.

  Fixpoint hrun (st : hst) (hs : list hop) : hst * list hout :=
    match hs with
    | [] => (st, [])
    | h :: tl =>
        let '(st1, r) := hstep st h in
        let '(st2, rs) := hrun st1 tl in (st2, r :: rs)
    end.

  (** one transaction served alone *)
  Fixpoint serve_all (t : T) (hs : list hop) : list hout :=
    match hs with
    | [] => []
    | h :: tl => let '(t1, r) := serve t h in r :: serve_all t1 tl
    end.
End Dispatch.

Arguments mk_hst {T}.
Arguments h_base {T}.
Arguments h_tab {T}.
Arguments h_ctr {T}.

(** * the handlers over db.LocalDB *)
(** localList without a transaction: db.NewListHelper(chain.blockStore.db).List;
    localPrefixCount: db.NewListHelper(chain.blockStore.db).PrefixCount — always the raw database *)
Definition m_count (base : store) (_ : option ldb) (p : bytes) : option Z := db_prefix_count base p.

Definition m_step : hst ldb -> hop -> hst ldb * hout := hstep ldb new_localdb ldb_step db_list m_count.

Definition init_handlers (base : store) : hst ldb := mk_hst base [] 0%Z.

Definition run_handlers (base : store) (hs : list hop) : list hout :=
  snd (hrun ldb new_localdb ldb_step db_list m_count (init_handlers base) hs).

(** * which requests reach transaction [i], decided from the history alone *)
(** [n] = ids handed out so far, [closed] = id [i] was closed *)
Definition addressed (h : hop) : option Z :=
  match h with
  | HBegin i | HCommit i | HRollback i => Some i
  | HSet i _ => if (i =? 0)%Z then None else Some i
  | HGet i _ => if (i =? 0)%Z then None else Some i
  | HList i _ _ _ _ => if (0 <? i)%Z then Some i else None
  | _ => None
  end.

Definition is_live (i n : Z) (closed : bool) : bool := (1 <=? i)%Z && (i <=? n)%Z && negb closed.

Fixpoint sel {A} (i n : Z) (closed : bool) (hs : list hop) (xs : list A) : list A :=
  match hs, xs with
  | h :: tl, x :: xl =>
      match h with
      | HNew _ => sel i (n + 1)%Z closed tl xl
      | HClose j => sel i n (closed || ((j =? i)%Z && is_live i n closed)) tl xl
      | _ =>
          match addressed h with
          | Some j => if (j =? i)%Z && is_live i n closed then x :: sel i n closed tl xl
                      else sel i n closed tl xl
          | None => sel i n closed tl xl
          end
      end
  | _, _ => []
  end.

(** the requests served by transaction [i] and the replies they got *)
Definition reqs_for (i : Z) (hs : list hop) : list hop := sel i 0%Z false hs hs.
Definition replies_for (i : Z) (hs : list hop) (outs : list hout) : list hout := sel i 0%Z false hs outs.

(** the readOnly flag of the [i]-th EventLocalNew *)
Fixpoint ro_of (i : Z) (n : Z) (hs : list hop) : bool :=
  match hs with
  | [] => false
  | HNew ro :: tl => if (n + 1 =? i)%Z then ro else ro_of i (n + 1)%Z tl
  | _ :: tl => ro_of i n tl
  end.
