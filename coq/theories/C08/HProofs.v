(** C08 — the handlers over LocalDB refine the per-transaction specification. *)
From Coq Require Import String.
From Coq Require Import List NArith ZArith Bool Lia.
From C33 Require Import Lib.Harness Lib.Bytes Lib.OMap C07.Model C07.Spec C07.ProofsBase C07.Proofs
  C08.Model C08.Spec C08.ProofsBase C08.Proofs C08.HModel C08.HSpec C08.HProofsIso.
Import ListNotations.

(** * one transaction: LocalDB and the specification serve requests alike *)
Lemma run_calls_refines : forall ops l s, Inv l s -> forallb op_ok ops = true ->
  snd (run_calls ldb ldb_step l ops) = snd (run_calls sdb s_step s ops) /\
  Inv (fst (run_calls ldb ldb_step l ops)) (fst (run_calls sdb s_step s ops)).
Proof.
  induction ops as [|o ops IH]; intros l s HI Hok; cbn [run_calls]; [split; [reflexivity | exact HI]|].
  cbn [forallb] in Hok. apply andb_true_iff in Hok as [Ho Hops].
  destruct (step_refines l s o HI Ho) as [Hr HI1].
  destruct (ldb_step l o) as [l1 r1], (s_step s o) as [s1 r1']. cbn [fst snd] in *. subst r1'.
  destruct (is_panic r1); [split; [reflexivity | exact HI1]|].
  destruct (IH l1 s1 HI1 Hops) as [Hrs HI2].
  destruct (run_calls ldb ldb_step l1 ops) as [l2 rs], (run_calls sdb s_step s1 ops) as [s2 rs']. cbn [fst snd] in *.
  subst rs'. split; [reflexivity | exact HI2].
Qed.

Lemma sets_ok kvs : forallb (fun kv : bytes * bytes => wf_bytesb (fst kv)) kvs = true ->
  forallb op_ok (map (fun kv => OSet (fst kv) (snd kv)) kvs) = true.
Proof. induction kvs as [|kv kvs IH]; simpl; [reflexivity|]. intro H. apply andb_true_iff in H as [-> H]. apply IH. exact H. Qed.

Lemma gets_ok ks : forallb wf_bytesb ks = true -> forallb op_ok (map OGet ks) = true.
Proof. induction ks as [|k ks IH]; simpl; [reflexivity|]. intro H. apply andb_true_iff in H as [-> H]. apply IH. exact H. Qed.

Lemma serve_refines l s h : Inv l s -> hop_ok h = true ->
  snd (serve ldb ldb_step l h) = snd (serve sdb s_step s h) /\
  Inv (fst (serve ldb ldb_step l h)) (fst (serve sdb s_step s h)).
Proof.
  intros HI Hok.
  assert (ONE : forall o, op_ok o = true ->
            snd (ldb_step l o) = snd (s_step s o) /\ Inv (fst (ldb_step l o)) (fst (s_step s o)))
    by (intros o Ho; apply step_refines; assumption).
  destruct h as [ro|j|j|j|j|j kvs|j ks|j p k c d|j p]; cbn [serve]; try (split; [reflexivity | exact HI]).
  - destruct (ONE OBegin eq_refl) as [_ H]. destruct (ldb_step l OBegin), (s_step s OBegin). split; [reflexivity | exact H].
  - destruct (ONE OCommit eq_refl) as [_ H]. destruct (ldb_step l OCommit), (s_step s OCommit). split; [reflexivity | exact H].
  - destruct (ONE ORollback eq_refl) as [_ H]. destruct (ldb_step l ORollback), (s_step s ORollback). split; [reflexivity | exact H].
  - destruct (run_calls_refines _ l s HI (sets_ok kvs Hok)) as [Hr H].
    destruct (run_calls ldb ldb_step l _) as [l1 xs], (run_calls sdb s_step s _) as [s1 xs']. cbn [fst snd] in *.
    subst xs'. split; [reflexivity | exact H].
  - destruct (run_calls_refines _ l s HI (gets_ok ks Hok)) as [Hr H].
    destruct (run_calls ldb ldb_step l _) as [l1 xs], (run_calls sdb s_step s _) as [s1 xs']. cbn [fst snd] in *.
    subst xs'. split; [reflexivity | exact H].
  - destruct (ONE (OList p k c d) Hok) as [Hr H].
    destruct (ldb_step l (OList p k c d)) as [l1 x], (s_step s (OList p k c d)) as [s1 x']. cbn [fst snd] in *.
    subst x'. split; [reflexivity | exact H].
Qed.

Lemma serve_all_refines : forall hs l s, Inv l s -> forallb hop_ok hs = true ->
  serve_all ldb ldb_step l hs = serve_all sdb s_step s hs.
Proof.
  induction hs as [|h hs IH]; intros l s HI Hok; cbn [serve_all]; [reflexivity|].
  cbn [forallb] in Hok. apply andb_true_iff in Hok as [Ho Hs].
  destruct (serve_refines l s h HI Ho) as [Hr HI1].
  destruct (serve ldb ldb_step l h) as [l1 r], (serve sdb s_step s h) as [s1 r']. cbn [fst snd] in *. subst r'.
  f_equal. apply IH; assumption.
Qed.

Lemma sel_forallb (P : hop -> bool) i : forall hs n closed,
  forallb P hs = true -> forallb P (sel i n closed hs hs) = true.
Proof.
  induction hs as [|h tl IH]; intros n closed H; [reflexivity|].
  cbn [forallb] in H. apply andb_true_iff in H as [Hh Ht].
  destruct h; cbn [sel addressed]; try (apply IH; exact Ht);
    repeat match goal with |- context [if ?b then _ else _] => destruct b end;
    cbn [forallb]; rewrite ?Hh; try (apply IH; exact Ht); reflexivity.
Qed.

Theorem handlers_refine base hs i : wf_store base -> forallb hop_ok hs = true ->
  replies_for i hs (run_handlers base hs) =
  serve_all sdb s_step (new_spec base (ro_of i 0%Z hs)) (reqs_for i hs).
Proof.
  intros W Hok. rewrite handlers_isolated.
  apply serve_all_refines; [apply inv_init; exact W | apply sel_forallb; exact Hok].
Qed.

(** * the whole machine against the specification machine *)
Definition clean (s : sdb) : Prop := s_committed s = [] /\ (s_tx s = None \/ s_tx s = Some []).

Definition ent_rel (base : store) (all : list hop) (a : Z * ldb) (b : Z * sdb) : Prop :=
  fst a = fst b /\ Inv (snd a) (snd b) /\ s_base (snd b) = base /\
  (writes_to (fst a) all = false -> clean (snd b)).

Definition st_rel (base : store) (all : list hop) (m : hst ldb) (s : hst sdb) : Prop :=
  h_base m = base /\ h_base s = base /\ h_ctr m = h_ctr s /\ Forall2 (ent_rel base all) (h_tab m) (h_tab s).

Lemma rel_tget base all i : forall t1 t2, Forall2 (ent_rel base all) t1 t2 ->
  match tget i t1, tget i t2 with
  | Some l, Some s => ent_rel base all (i, l) (i, s)
  | None, None => True
  | _, _ => False
  end.
Proof.
  induction 1 as [|[j l] [j' s] t1 t2 (E & HI & HB & HC) _ IH]; cbn [tget]; [exact I|].
  cbn [fst snd] in *. subst j'. destruct (j =? i)%Z eqn:Eji; [|exact IH].
  apply Z.eqb_eq in Eji. subst j. exact (conj eq_refl (conj HI (conj HB HC))).
Qed.

Lemma rel_tset base all i l s : forall t1 t2, Forall2 (ent_rel base all) t1 t2 ->
  ent_rel base all (i, l) (i, s) -> Forall2 (ent_rel base all) (tset i l t1) (tset i s t2).
Proof.
  induction 1 as [|[j l0] [j' s0] t1 t2 HR HT IH]; intro HN; cbn [tset]; [constructor|].
  assert (E : j = j') by (destruct HR as (E & _); exact E). subst j'.
  destruct (j =? i)%Z eqn:Eji.
  - apply Z.eqb_eq in Eji. subst j. constructor; assumption.
  - constructor; [exact HR | apply IH; exact HN].
Qed.

Lemma rel_tdel base all i : forall t1 t2, Forall2 (ent_rel base all) t1 t2 ->
  Forall2 (ent_rel base all) (tdel i t1) (tdel i t2).
Proof.
  induction 1 as [|[j l0] [j' s0] t1 t2 HR HT IH]; cbn [tdel]; [constructor|].
  assert (E : j = j') by (destruct HR as (E & _); exact E). subst j'.
  destruct (j =? i)%Z; [exact IH | constructor; assumption].
Qed.

Lemma rel_fresh base all : forall fuel n t1 t2, Forall2 (ent_rel base all) t1 t2 ->
  fresh_id fuel n t1 = fresh_id fuel n t2.
Proof.
  induction fuel as [|f IH]; intros n t1 t2 HR; cbn [fresh_id]; [reflexivity|].
  assert (G := rel_tget base all n t1 t2 HR).
  destruct (tget n t1), (tget n t2); try contradiction; [apply IH; exact HR | reflexivity].
Qed.

(** the specification database of a transaction that is never written reads the base *)
Lemma clean_lookup s : clean s -> forall k, lookup (s_layers s) k = lookup [s_base s] k.
Proof.
  destruct s as [b c t r]. unfold clean, s_layers. cbn. intros [-> [-> | ->]] k; reflexivity.
Qed.

Lemma run_calls_gets_state : forall ks s, fst (run_calls sdb s_step s (map OGet ks)) = s.
Proof. induction ks as [|k ks IH]; intro s; cbn; [reflexivity|]. specialize (IH s). destruct (run_calls sdb s_step s (map OGet ks)). exact IH. Qed.

Lemma s_step_base s o : s_base (fst (s_step s o)) = s_base s.
Proof. destruct o; cbn [s_step]; try reflexivity. destruct (s_ro s); [reflexivity|]. destruct (s_tx s); reflexivity. Qed.

Lemma run_calls_base : forall ops s, s_base (fst (run_calls sdb s_step s ops)) = s_base s.
Proof.
  induction ops as [|o ops IH]; intro s; cbn [run_calls]; [reflexivity|].
  assert (B := s_step_base s o). destruct (s_step s o) as [s1 x]. cbn [fst] in B.
  destruct (is_panic x); [exact B|].
  specialize (IH s1). destruct (run_calls sdb s_step s1 ops) as [s2 xs]. cbn [fst] in *. congruence.
Qed.

Lemma serve_spec_base s h : s_base (fst (serve sdb s_step s h)) = s_base s.
Proof.
  destruct h as [ro|j|j|j|j|j kvs|j ks|j p k c d|j p]; cbn [serve]; try reflexivity.
  - assert (B := run_calls_base (map (fun kv => OSet (fst kv) (snd kv)) kvs) s).
    destruct (run_calls sdb s_step s _). exact B.
  - assert (B := run_calls_base (map OGet ks) s). destruct (run_calls sdb s_step s _). exact B.
Qed.

Lemma serve_spec_clean s h : (forall j kv kvs, h <> HSet j (kv :: kvs)) -> clean s ->
  clean (fst (serve sdb s_step s h)).
Proof.
  intros NS C. destruct s as [b c t r]. unfold clean in *. cbn [s_committed s_tx] in C. destruct C as [-> Ht].
  destruct h as [ro|j|j|j|j|j kvs|j ks|j p k c d|j p]; cbn [serve s_step fst s_committed s_tx s_base s_ro];
    try (split; [reflexivity | exact Ht]).
  - split; [reflexivity | right; reflexivity].
  - destruct Ht as [-> | ->]; cbn; split; auto.
  - split; [reflexivity | left; reflexivity].
  - destruct kvs as [|kv kvs]; [cbn; split; [reflexivity | exact Ht]|]. exfalso. exact (NS j kv kvs eq_refl).
  - assert (G := run_calls_gets_state ks (mk_sdb b [] t r)).
    destruct (run_calls sdb s_step (mk_sdb b [] t r) (map OGet ks)) as [s1 xs]. cbn [fst] in *. subst s1.
    cbn. split; [reflexivity | exact Ht].
Qed.

Lemma writes_to_in i kv kvs all : In (HSet i (kv :: kvs)) all -> writes_to i all = true.
Proof.
  intro H. unfold writes_to. apply existsb_exists. exists (HSet i (kv :: kvs)). split; [exact H|]. apply Z.eqb_refl.
Qed.

Lemma f2_len {A B} (R : A -> B -> Prop) l1 l2 : Forall2 R l1 l2 -> length l1 = length l2.
Proof. induction 1; simpl; congruence. Qed.

Definition hs_step : hst sdb -> hop -> hst sdb * hout := hstep sdb new_spec s_step s_rawlist s_count.

Lemma with_tx_refines base all m s i h :
  st_rel base all m s -> In h all -> hop_ok h = true ->
  (forall j kv kvs, h = HSet j (kv :: kvs) -> j = i) ->
  snd (with_tx ldb ldb_step m i h) = snd (with_tx sdb s_step s i h) /\
  st_rel base all (fst (with_tx ldb ldb_step m i h)) (fst (with_tx sdb s_step s i h)).
Proof.
  intros (Bm & Bs & Ec & HT) Hin Hok Hid. unfold with_tx.
  assert (G := rel_tget base all i _ _ HT).
  destruct (tget i (h_tab m)) as [l|], (tget i (h_tab s)) as [sp|]; try contradiction.
  - destruct G as (_ & HI & HB & HC). cbn [fst snd] in *.
    destruct (serve_refines l sp h HI Hok) as [Hr HI1].
    assert (B1 := serve_spec_base sp h).
    assert (C1 : writes_to i all = false -> clean (fst (serve sdb s_step sp h))).
    { intro Hw. apply serve_spec_clean; [|apply HC; exact Hw].
      intros j kv kvs E. subst h. assert (j = i) by (eapply Hid; reflexivity). subst j.
      rewrite (writes_to_in i kv kvs all Hin) in Hw. discriminate. }
    destruct (serve ldb ldb_step l h) as [l1 r], (serve sdb s_step sp h) as [s1 r']. cbn [fst snd] in *. subst r'.
    split; [reflexivity|]. unfold st_rel. cbn [h_base h_ctr h_tab].
    refine (conj Bm (conj Bs (conj Ec _))). apply rel_tset; [exact HT|].
    unfold ent_rel. cbn [fst snd]. refine (conj eq_refl (conj HI1 (conj _ C1))). congruence.
  - split; [reflexivity|]. exact (conj Bm (conj Bs (conj Ec HT))).
Qed.

Lemma hstep_refines base all m s h : wf_store base ->
  st_rel base all m s -> In h all -> hop_ok h = true ->
  (match h with HCount i _ => writes_to i all = false | _ => True end) ->
  snd (m_step m h) = snd (hs_step s h) /\ st_rel base all (fst (m_step m h)) (fst (hs_step s h)).
Proof.
  intros W R Hin Hok Hcnt. assert (R' := R). destruct R' as (Bm & Bs & Ec & HT).
  assert (SAME : st_rel base all m s) by exact R.
  assert (WT : forall i, (forall j kv kvs, h = HSet j (kv :: kvs) -> j = i) ->
     snd (with_tx ldb ldb_step m i h) = snd (with_tx sdb s_step s i h) /\
     st_rel base all (fst (with_tx ldb ldb_step m i h)) (fst (with_tx sdb s_step s i h)))
    by (intros i Hid; apply with_tx_refines; assumption).
  unfold m_step, hs_step.
  destruct h as [ro|j|j|j|j|j kvs|j ks|j p k c d|j p]; cbn [hstep].
  - (* New *)
    rewrite (f2_len _ _ _ HT), Ec, (rel_fresh base all _ _ _ _ HT). cbn [fst snd].
    split; [reflexivity|]. unfold st_rel. cbn [h_base h_ctr h_tab].
    refine (conj Bm (conj Bs (conj eq_refl _))). constructor; [|exact HT].
    unfold ent_rel. cbn [fst snd]. rewrite Bm, Bs.
    refine (conj eq_refl (conj (inv_init base ro W) (conj eq_refl _))).
    intros _. split; [reflexivity | left; reflexivity].
  - (* Close *)
    cbn [fst snd]. assert (G := rel_tget base all j _ _ HT). split.
    + destruct (tget j (h_tab m)), (tget j (h_tab s)); try contradiction; reflexivity.
    + unfold st_rel. cbn [h_base h_ctr h_tab]. refine (conj Bm (conj Bs (conj Ec _))). apply rel_tdel. exact HT.
  - apply WT. intros; discriminate.
  - apply WT. intros; discriminate.
  - apply WT. intros; discriminate.
  - destruct (j =? 0)%Z; [split; [reflexivity | exact SAME]|]. apply WT. intros j' kv kvs' E. injection E as -> _. reflexivity.
  - destruct (j =? 0)%Z; [|apply WT; intros; discriminate].
    cbn [fst snd]. rewrite Bm, Bs. split; [reflexivity | exact SAME].
  - destruct (0 <? j)%Z; [apply WT; intros; discriminate|].
    cbn [fst snd hop_ok] in *. apply andb_true_iff in Hok as [Wp Hp]. apply wf_bytesb_iff in Wp.
    rewrite Bm, Bs. unfold s_rawlist. rewrite (db_list_spec base p k c d W Wp Hp). split; [reflexivity | exact SAME].
  - cbn [fst snd hop_ok] in *. apply andb_true_iff in Hok as [Wp Hp]. apply wf_bytesb_iff in Wp.
    rewrite Bm, Bs. unfold m_count, s_count. rewrite (db_prefix_count_spec1 base p W Wp Hp).
    split; [|exact SAME].
    assert (X : spec_count [base] p =
                spec_count (match tget j (h_tab s) with Some sp => s_layers sp | None => [base] end) p).
    { assert (G := rel_tget base all j _ _ HT).
      destruct (tget j (h_tab m)) as [l|], (tget j (h_tab s)) as [sp|]; try contradiction; [|reflexivity].
      destruct G as (_ & _ & HB & HC). cbn [fst snd] in *. specialize (HC Hcnt).
      apply spec_count_ext. intro x. rewrite (clean_lookup sp HC x), HB. reflexivity. }
    rewrite <- X. reflexivity.
Qed.

Lemma hrun_refines base all : wf_store base -> forall hs m s,
  st_rel base all m s -> (forall h, In h hs -> In h all) -> forallb hop_ok hs = true ->
  (forall i p, In (HCount i p) hs -> writes_to i all = false) ->
  snd (hrun ldb new_localdb ldb_step db_list m_count m hs) = snd (hrun sdb new_spec s_step s_rawlist s_count s hs).
Proof.
  intro W. induction hs as [|h tl IH]; intros m s R Hin Hok Hcnt; cbn [hrun]; [reflexivity|].
  cbn [forallb] in Hok. apply andb_true_iff in Hok as [Ho Ht].
  assert (HC : match h with HCount i _ => writes_to i all = false | _ => True end).
  { destruct h; try exact I. apply (Hcnt i prefix). left. reflexivity. }
  destruct (hstep_refines base all m s h W R (Hin h (or_introl eq_refl)) Ho HC) as [Hr R1].
  unfold m_step, hs_step in *.
  destruct (hstep ldb new_localdb ldb_step db_list m_count m h) as [m1 r].
  destruct (hstep sdb new_spec s_step s_rawlist s_count s h) as [s1 r']. cbn [fst snd] in *. subst r'.
  assert (E := IH m1 s1 R1 (fun x Hx => Hin x (or_intror Hx)) Ht (fun i p Hx => Hcnt i p (or_intror Hx))).
  destruct (hrun ldb new_localdb ldb_step db_list m_count m1 tl) as [m2 rs].
  destruct (hrun sdb new_spec s_step s_rawlist s_count s1 tl) as [s2 rs']. cbn [snd] in *. subst rs'. reflexivity.
Qed.

Theorem handlers_machine base hs : wf_store base -> forallb hop_ok hs = true -> count_ok hs = true ->
  run_handlers base hs = run_hspec base hs.
Proof.
  intros W Hok Hc. unfold run_handlers, run_hspec, init_handlers.
  apply (hrun_refines base hs W hs); auto.
  - unfold st_rel. cbn. repeat split; constructor.
  - intros i p Hin. unfold count_ok in Hc. rewrite forallb_forall in Hc. specialize (Hc _ Hin). cbn in Hc.
    apply negb_true_iff in Hc. exact Hc.
Qed.

(** * the count request does not see the asking transaction's writes *)
Definition handlers_machine_full : Prop :=
  forall base hs, wf_store base -> forallb hop_ok hs = true -> run_handlers base hs = run_hspec base hs.

Definition cnt_witness : list hop :=
  [HNew false; HSet 1 [(bs "a1"%string, bs "x"%string)]; HGet 1 [bs "a1"%string]; HList 1 (bs "a"%string) [] 0 9; HCount 1 (bs "a"%string)].

Theorem handlers_machine_full_refuted : ~ handlers_machine_full.
Proof.
  intro H. specialize (H [] cnt_witness).
  assert (W : wf_store []) by exact wf_nil.
  specialize (H W eq_refl). vm_compute in H. discriminate.
Qed.

(** * non-vacuity: two transactions over one base, the second never sees the first one's writes *)
Definition hex_base : store := [(bs "a1"%string, bs "one"%string); (bs "a2"%string, bs "two"%string)].
Definition hex_hist : list hop :=
  [HNew false; HNew false; HBegin 1; HSet 1 [(bs "a1"%string, []); (bs "a3"%string, bs "three"%string)];
   HGet 1 [bs "a1"%string; bs "a3"%string]; HGet 2 [bs "a1"%string; bs "a3"%string]; HGet 0 [bs "a1"%string; bs "a3"%string];
   HList 1 (bs "a"%string) [] 0 9; HList 2 (bs "a"%string) [] 0 9; HList 0 (bs "a"%string) [] 0 9;
   HCommit 1; HGet 2 [bs "a3"%string]; HCount 2 (bs "a"%string); HClose 1; HGet 1 [bs "a2"%string]; HSet 0 []; HNew true;
   HSet 3 [(bs "k"%string, bs "v"%string)]].

Example hex_run :
  wf_storeb hex_base = true /\ forallb hop_ok hex_hist = true /\ count_ok hex_hist = true /\
  run_handlers hex_base hex_hist =
  [HId 1; HId 2; HOk; HOk; HVals [None; Some (bs "three"%string)]; HVals [Some (bs "one"%string); None];
   HVals [Some (bs "one"%string); None];
   HItems [bs "a2"%string; bs "a3"%string]; HItems [bs "a1"%string; bs "a2"%string]; HItems [bs "a1"%string; bs "a2"%string];
   HOk; HVals [None]; HCnt 2; HOk; HErr ENoPtr; HErr ENotInTx; HId 3; HErr EPanic] /\
  reqs_for 2 hex_hist = [HGet 2 [bs "a1"%string; bs "a3"%string]; HList 2 (bs "a"%string) [] 0 9; HGet 2 [bs "a3"%string]].
Proof. vm_compute. repeat split. Qed.
