(** C08 — property theorems only. *)
From Coq Require Import List ZArith Bool.
From C33 Require Import Lib.Bytes Lib.OMap C07.Model C07.Spec C08.Model C08.Spec C08.Proofs
  C08.HModel C08.HSpec C08.HProofsIso C08.HProofs.
Import ListNotations.

(** every operation of every history returns what the (base, committed overlay, optional open
    transaction) specification returns *)
Theorem C08_refines_partial : forall base ro ops,
  wf_store base -> forallb op_ok ops = true ->
  run_localdb base ro ops = run_spec base ro ops.
Proof. exact refines. Qed.
Print Assumptions C08_refines_partial.

(** at every reachable state a full listing of a prefix and the prefix count are exactly the
    keys under the prefix on which a point read succeeds, each once *)
Theorem C08_list_agrees_with_get : forall base ro ops,
  wf_store base -> forallb op_ok ops = true ->
  let l := fst (ldb_run (new_localdb base ro) ops) in
  forall prefix d, wf_bytes prefix -> prefix_ok prefix = true ->
  exists entries,
    ldb_list l prefix [] 0 d = Some (map (collect d) entries) /\
    ldb_prefix_count l prefix = Some (Z.of_nat (length entries)) /\
    NoDup (map fst entries) /\
    forall k v, wf_bytes k ->
      (In (k, v) entries <-> snd (ldb_get l k) = Some v /\ is_prefix prefix k = true).
Proof. exact list_agrees_with_get. Qed.
Print Assumptions C08_list_agrees_with_get.

(** without the listing-prefix guard (C07's finding) the refinement fails *)
Theorem C08_refines_refuted : ~ refines_full.
Proof. exact refines_full_refuted. Qed.
Print Assumptions C08_refines_refuted.

(** blockchain/localdb.go: the replies to the requests that reach transaction id [i] (between the [i]-th
    EventLocalNew and its EventLocalClose) are those of one LocalDB over the block-store database serving
    these requests alone — whatever is sent to other ids, committed or not, is invisible; no guard *)
Theorem C08_handlers_isolated : forall base hs i,
  replies_for i hs (run_handlers base hs) =
  serve_all ldb ldb_step (new_localdb base (ro_of i 0%Z hs)) (reqs_for i hs).
Proof. exact handlers_isolated. Qed.
Print Assumptions C08_handlers_isolated.

(** ... and therefore those of the (base, committed overlay, open transaction) specification of
    C08_refines_partial, per transaction id *)
Theorem C08_handlers_refine_partial : forall base hs i,
  wf_store base -> forallb hop_ok hs = true ->
  replies_for i hs (run_handlers base hs) =
  serve_all sdb s_step (new_spec base (ro_of i 0%Z hs)) (reqs_for i hs).
Proof. exact handlers_refine. Qed.
Print Assumptions C08_handlers_refine_partial.

(** the whole message layer (ids handed out, unknown / closed ids, requests without an id reading the base,
    counts) answers like the specification machine, provided counts are only asked on behalf of
    transactions that are never written *)
Theorem C08_handlers_machine_partial : forall base hs,
  wf_store base -> forallb hop_ok hs = true -> count_ok hs = true ->
  run_handlers base hs = run_hspec base hs.
Proof. exact handlers_machine. Qed.
Print Assumptions C08_handlers_machine_partial.

(** without the count guard it does not: EventLocalPrefixCount carries no transaction id and counts the raw
    database, so inside a transaction the count disagrees with the transaction's point reads and listing *)
Theorem C08_handlers_machine_refuted : ~ handlers_machine_full.
Proof. exact handlers_machine_full_refuted. Qed.
Print Assumptions C08_handlers_machine_refuted.
