(** C08 — property theorems only. *)
From Coq Require Import List ZArith Bool.
From C33 Require Import Lib.Bytes Lib.OMap C07.Model C07.Spec C08.Model C08.Spec C08.Proofs.
Import ListNotations.

(** every operation of every history returns what the (base, committed overlay, optional open
    transaction) specification returns *)
Theorem C08_refines_partial : forall base ro ops,
  wf_store base -> forallb op_ok ops = true ->
  run_localdb base ro ops = run_spec base ro ops.
Proof. exact refines. Qed.
Print Assumptions C08_refines_partial.

(** at every reachable state a full listing of a prefix and the prefix count are exactly the
    keys under the prefix on which a point read succeeds, each once *)
Theorem C08_list_agrees_with_get : forall base ro ops,
  wf_store base -> forallb op_ok ops = true ->
  let l := fst (ldb_run (new_localdb base ro) ops) in
  forall prefix d, wf_bytes prefix -> prefix_ok prefix = true ->
  exists entries,
    ldb_list l prefix [] 0 d = Some (map (collect d) entries) /\
    ldb_prefix_count l prefix = Some (Z.of_nat (length entries)) /\
    NoDup (map fst entries) /\
    forall k v, wf_bytes k ->
      (In (k, v) entries <-> snd (ldb_get l k) = Some v /\ is_prefix prefix k = true).
Proof. exact list_agrees_with_get. Qed.
Print Assumptions C08_list_agrees_with_get.

(** without the listing-prefix guard (C07's finding) the refinement fails *)
Theorem C08_refines_refuted : ~ refines_full.
Proof. exact refines_full_refuted. Qed.
Print Assumptions C08_refines_refuted.
