(** C08 — the handlers keep transactions apart: the replies to the requests that reach
    transaction [i] are those of one database serving these requests alone.
    Generic in the per-transaction database. *)
From Coq Require Import List NArith ZArith Bool Lia.
From C33 Require Import Lib.Harness Lib.Bytes Lib.OMap C07.Model C08.Model C08.HModel.
Import ListNotations.

(** * pointer table *)
Lemma tget_tset {A} (i j : Z) (b : A) (t : list (Z * A)) :
  tget i (tset j b t) = if (j =? i)%Z then option_map (fun _ => b) (tget j t) else tget i t.
Proof.
  induction t as [|[k a] t IH]; simpl.
  - destruct (j =? i)%Z; reflexivity.
  - destruct (k =? j)%Z eqn:Ekj; simpl.
    + apply Z.eqb_eq in Ekj. subst k. destruct (j =? i)%Z; reflexivity.
    + rewrite IH. destruct (k =? i)%Z eqn:Eki; [|reflexivity].
      apply Z.eqb_eq in Eki. subst k. rewrite Z.eqb_sym in Ekj. rewrite Ekj. reflexivity.
Qed.

Lemma tget_tdel {A} (i j : Z) (t : list (Z * A)) :
  tget i (tdel j t) = if (j =? i)%Z then None else tget i t.
Proof.
  induction t as [|[k a] t IH]; simpl.
  - destruct (j =? i)%Z; reflexivity.
  - destruct (k =? j)%Z eqn:Ekj.
    + rewrite IH. apply Z.eqb_eq in Ekj. subst k. destruct (j =? i)%Z; reflexivity.
    + simpl. rewrite IH. destruct (k =? i)%Z eqn:Eki; [|reflexivity].
      apply Z.eqb_eq in Eki. subst k. rewrite Z.eqb_sym in Ekj. rewrite Ekj. reflexivity.
Qed.

Lemma fresh_id_free {A} fuel (n : Z) (t : list (Z * A)) : tget n t = None -> fresh_id fuel n t = n.
Proof. destruct fuel; simpl; [reflexivity|]. intros ->. reflexivity. Qed.

(** * a transaction that is closed or has an id below 1 is never served *)
Definition dead (i : Z) (closed : bool) : bool := closed || (i <? 1)%Z.

Lemma dead_not_live i n closed : dead i closed = true -> is_live i n closed = false.
Proof.
  unfold dead, is_live. intro H. apply orb_true_iff in H as [->|H].
  - rewrite andb_false_r. reflexivity.
  - apply Z.ltb_lt in H. replace (1 <=? i)%Z with false by (symmetry; apply Z.leb_gt; lia). reflexivity.
Qed.

Lemma sel_dead {A} i : forall hs (xs : list A) n closed, dead i closed = true -> sel i n closed hs xs = [].
Proof.
  induction hs as [|h tl IH]; intros xs n closed D; [reflexivity|].
  destruct xs as [|x xl]; [destruct h; reflexivity|].
  assert (L : forall m, is_live i m closed = false) by (intro m; apply dead_not_live; exact D).
  destruct h; simpl; rewrite ?L, ?andb_false_r, ?orb_false_r;
    repeat match goal with |- context [if (?a =? ?b)%Z then _ else _] => destruct (a =? b)%Z
                         | |- context [if (?a <? ?b)%Z then _ else _] => destruct (a <? b)%Z end;
    rewrite ?L, ?andb_false_r, ?orb_false_r; apply IH; exact D.
Qed.

Section Iso.
  Variable T : Type.
  Variable newf : store -> bool -> T.
  Variable stepf : T -> op -> T * out.
  Variable rawlist : store -> bytes -> bytes -> Z -> Z -> option (list bytes).
  Variable countf : store -> option T -> bytes -> option Z.

  Let step := hstep T newf stepf rawlist countf.
  Let run := hrun T newf stepf rawlist countf.

  (** what the scan of [sel] knows about the state *)
  Definition tracks (base : store) (i n : Z) (closed : bool) (st : hst T) : Prop :=
    h_base st = base /\ h_ctr st = n /\ (0 <= n)%Z /\
    (forall j, (n < j)%Z -> tget j (h_tab st) = None) /\
    (is_live i n closed = true -> tget i (h_tab st) <> None) /\
    (is_live i n closed = false -> tget i (h_tab st) = None).

  Definition cur (base : store) (i n : Z) (st : hst T) (hs : list hop) : T :=
    match tget i (h_tab st) with Some t => t | None => newf base (ro_of i n hs) end.

  Lemma with_tx_other st i j h : j <> i ->
    tget i (h_tab (fst (with_tx T stepf st j h))) = tget i (h_tab st).
  Proof.
    intro N. unfold with_tx. destruct (tget j (h_tab st)) as [t|]; [|reflexivity].
    destruct (serve T stepf t h) as [t1 r]. simpl. rewrite tget_tset.
    destruct (j =? i)%Z eqn:E; [apply Z.eqb_eq in E; contradiction | reflexivity].
  Qed.

  Lemma with_tx_frame st j h :
    h_base (fst (with_tx T stepf st j h)) = h_base st /\ h_ctr (fst (with_tx T stepf st j h)) = h_ctr st /\
    forall k, tget k (h_tab st) = None -> tget k (h_tab (fst (with_tx T stepf st j h))) = None.
  Proof.
    unfold with_tx. destruct (tget j (h_tab st)) as [t|] eqn:E; [|auto].
    destruct (serve T stepf t h) as [t1 r]. simpl. repeat split. intros k Hk. rewrite tget_tset.
    destruct (j =? k)%Z eqn:Ejk; [|exact Hk]. apply Z.eqb_eq in Ejk. subst k. congruence.
  Qed.

  (** a request that does not reach [i] leaves [i]'s entry alone *)
  Lemma tracks_with_tx_other base i n closed st j h : j <> i ->
    tracks base i n closed st -> tracks base i n closed (fst (with_tx T stepf st j h)).
  Proof.
    intros N (Hb & Hc & Hn & Hhi & Hl & Hd).
    destruct (with_tx_frame st j h) as (F1 & F2 & F3).
    unfold tracks. rewrite F1, F2, (with_tx_other st i j h N). repeat split; auto.
  Qed.

  Lemma with_tx_live base i n closed st h t :
    tracks base i n closed st -> tget i (h_tab st) = Some t ->
    let st1 := fst (with_tx T stepf st i h) in
    snd (with_tx T stepf st i h) = snd (serve T stepf t h) /\
    tget i (h_tab st1) = Some (fst (serve T stepf t h)) /\ tracks base i n closed st1.
  Proof.
    intros TR Ht. assert (TR' := TR). destruct TR' as (Hb & Hc & Hn & Hhi & Hl & Hd).
    unfold with_tx. rewrite Ht. destruct (serve T stepf t h) as [t1 r]. cbn [fst snd h_tab].
    assert (G : tget i (tset i t1 (h_tab st)) = Some t1) by (rewrite tget_tset, Z.eqb_refl, Ht; reflexivity).
    split; [reflexivity|]. split; [exact G|].
    unfold tracks. cbn [h_base h_ctr h_tab].
    split; [exact Hb|]. split; [exact Hc|]. split; [exact Hn|]. split; [|split].
    - intros k Hk. rewrite tget_tset. destruct (i =? k)%Z eqn:E; [|apply Hhi; exact Hk].
      apply Z.eqb_eq in E. subst k. rewrite (Hhi _ Hk) in Ht. discriminate.
    - intros _. rewrite G. discriminate.
    - intro L. rewrite (Hd L) in Ht. discriminate.
  Qed.

  Lemma with_tx_deadid base i n closed st h :
    tracks base i n closed st -> tget i (h_tab st) = None ->
    with_tx T stepf st i h = (st, HErr ENoPtr).
  Proof. intros _ Ht. unfold with_tx. rewrite Ht. reflexivity. Qed.

  (** one addressed request: served by [i] exactly when [i] is live *)
  Lemma sel_addressed base i n closed st h j tl :
    tracks base i n closed st -> step st h = with_tx T stepf st j h -> addressed h = Some j ->
    (forall xs (x : hout), sel i n closed (h :: tl) (x :: xs) =
       if (j =? i)%Z && is_live i n closed then x :: sel i n closed tl xs else sel i n closed tl xs) /\
    (forall xs (x : hop), sel i n closed (h :: tl) (x :: xs) =
       if (j =? i)%Z && is_live i n closed then x :: sel i n closed tl xs else sel i n closed tl xs).
  Proof.
    intros _ _ Ha. split; intros xs x; destruct h; simpl in *; try discriminate; rewrite ?Ha; try reflexivity;
      try (injection Ha as <-; reflexivity).
  Qed.

  Theorem sel_serves base i : forall hs st n closed,
    tracks base i n closed st ->
    sel i n closed hs (snd (run st hs)) = serve_all T stepf (cur base i n st hs) (sel i n closed hs hs).
  Proof.
    induction hs as [|h tl IH]; intros st n closed TR; [reflexivity|].
    destruct (dead i closed) eqn:D; [rewrite !sel_dead by exact D; reflexivity|].
    unfold dead in D. apply orb_false_iff in D as [-> Hi1]. apply Z.ltb_ge in Hi1.
    assert (TR' := TR). destruct TR' as (Hb & Hc & Hn & Hhi & Hl & Hd).
    (* addressed requests, generically *)
    assert (ADDR : forall j, step st h = with_tx T stepf st j h -> addressed h = Some j ->
              sel i n false (h :: tl) (snd (run st (h :: tl))) =
              serve_all T stepf (cur base i n st (h :: tl)) (sel i n false (h :: tl) (h :: tl)) /\ True).
    { intros j Hs Ha. split; [|exact I].
      destruct (sel_addressed base i n false st h j tl TR Hs Ha) as [S1 S2].
      assert (RO : forall m, ro_of i m (h :: tl) = ro_of i m tl) by (intro m; destruct h; simpl in Ha; try discriminate; reflexivity).
      unfold run. cbn [hrun]. fold step. rewrite Hs.
      destruct (with_tx T stepf st j h) as [st1 r] eqn:EW.
      destruct (hrun T newf stepf rawlist countf st1 tl) as [st2 rs] eqn:ER. cbn [snd].
      rewrite S1, S2.
      assert (ERs : rs = snd (run st1 tl)) by (unfold run; rewrite ER; reflexivity).
      destruct (j =? i)%Z eqn:Eji; cbn [andb].
      - apply Z.eqb_eq in Eji. subst j. destruct (is_live i n false) eqn:L.
        + specialize (Hl eq_refl). destruct (tget i (h_tab st)) as [t|] eqn:Et; [|congruence].
          destruct (with_tx_live base i n false st h t TR Et) as (W1 & W2 & W3). rewrite EW in *. cbn [fst snd] in *.
          unfold cur at 1. rewrite Et. cbn [serve_all]. destruct (serve T stepf t h) as [t1 r1]. cbn [fst snd] in *.
          subst r1. f_equal. rewrite ERs, (IH st1 n false W3). unfold cur. rewrite W2. reflexivity.
        + specialize (Hd eq_refl). rewrite (with_tx_deadid base i n false st h TR Hd) in EW.
          injection EW as <- <-. rewrite ERs, (IH st n false TR). unfold cur. rewrite RO. reflexivity.
      - assert (N : j <> i) by (intro; subst; rewrite Z.eqb_refl in Eji; discriminate).
        assert (W := tracks_with_tx_other base i n false st j h N TR). rewrite EW in W. cbn [fst] in W.
        rewrite ERs, (IH st1 n false W). unfold cur. rewrite RO.
        assert (G := with_tx_other st i j h N). rewrite EW in G. cbn [fst] in G. rewrite G. reflexivity. }
    (* requests that change nothing *)
    assert (SAME : step st h = (st, snd (step st h)) -> addressed h = None ->
              (forall m, ro_of i m (h :: tl) = ro_of i m tl) ->
              (forall A (xs : list A) x, sel i n false (h :: tl) (x :: xs) = sel i n false tl xs) ->
              sel i n false (h :: tl) (snd (run st (h :: tl))) =
              serve_all T stepf (cur base i n st (h :: tl)) (sel i n false (h :: tl) (h :: tl))).
    { intros Hs _ RO S. unfold run. cbn [hrun]. fold step. rewrite Hs.
      destruct (hrun T newf stepf rawlist countf st tl) as [st2 rs] eqn:ER. cbn [snd].
      rewrite !S. replace rs with (snd (run st tl)) by (unfold run; rewrite ER; reflexivity).
      rewrite (IH st n false TR). unfold cur. rewrite RO. reflexivity. }
    destruct h as [ro|j|j|j|j|j kvs|j ks|j p k c d|j p].
    - (* New *)
      unfold run. cbn [hrun hstep]. rewrite Hc.
      assert (F : fresh_id (S (length (h_tab st))) (n + 1)%Z (h_tab st) = (n + 1)%Z)
        by (apply fresh_id_free; apply Hhi; lia).
      rewrite F. set (st1 := mk_hst (h_base st) (((n + 1)%Z, newf (h_base st) ro) :: h_tab st) (n + 1)%Z).
      destruct (hrun T newf stepf rawlist countf st1 tl) as [st2 rs] eqn:ER. cbn [snd sel].
      replace rs with (snd (run st1 tl)) by (unfold run; rewrite ER; reflexivity).
      assert (TR1 : tracks base i (n + 1) false st1).
      { unfold tracks, st1. cbn [h_base h_tab h_ctr tget]. repeat split; auto; try lia.
        - intros j Hj. replace (n + 1 =? j)%Z with false by (symmetry; apply Z.eqb_neq; lia). apply Hhi. lia.
        - intro L. destruct (n + 1 =? i)%Z eqn:E; [discriminate|]. apply Hl.
          unfold is_live in *. apply Z.eqb_neq in E. rewrite andb_true_r in *. apply andb_true_iff in L as [L1 L2].
          apply Z.leb_le in L1, L2. apply andb_true_iff. split; apply Z.leb_le; lia.
        - intro L. destruct (n + 1 =? i)%Z eqn:E.
          + apply Z.eqb_eq in E. unfold is_live in L. rewrite andb_true_r in L.
            apply andb_false_iff in L as [L|L]; apply Z.leb_gt in L; lia.
          + apply Hd. unfold is_live in *. rewrite andb_true_r in *. apply Z.eqb_neq in E.
            apply andb_false_iff in L as [L|L]; apply Z.leb_gt in L; apply andb_false_iff;
              [left | right]; apply Z.leb_gt; lia. }
      rewrite (IH st1 (n + 1)%Z false TR1). f_equal. unfold cur, st1. cbn [h_tab tget ro_of].
      destruct (n + 1 =? i)%Z eqn:E.
      + apply Z.eqb_eq in E. rewrite (Hhi i) by lia. rewrite Hb. reflexivity.
      + reflexivity.
    - (* Close *)
      unfold run. cbn [hrun hstep].
      set (st1 := mk_hst (h_base st) (tdel j (h_tab st)) (h_ctr st)).
      destruct (hrun T newf stepf rawlist countf st1 tl) as [st2 rs] eqn:ER. cbn [snd sel orb].
      replace rs with (snd (run st1 tl)) by (unfold run; rewrite ER; reflexivity).
      destruct ((j =? i)%Z && is_live i n false) eqn:E.
      + rewrite !sel_dead by reflexivity. reflexivity.
      + assert (G : tget i (h_tab st1) = tget i (h_tab st)).
        { unfold st1. cbn [h_tab]. rewrite tget_tdel. destruct (j =? i)%Z eqn:Eji; [|reflexivity].
          cbn [andb] in E. symmetry. apply Hd. exact E. }
        assert (TR1 : tracks base i n false st1).
        { unfold tracks. rewrite G. unfold st1. cbn [h_base h_ctr h_tab]. repeat split; auto.
          intros k Hk. rewrite tget_tdel. destruct (j =? k)%Z; [reflexivity | apply Hhi; exact Hk]. }
        rewrite (IH st1 n false TR1). unfold cur. rewrite G. reflexivity.
    - apply (ADDR j); reflexivity.
    - apply (ADDR j); reflexivity.
    - apply (ADDR j); reflexivity.
    - unfold step in *. cbn [hstep addressed] in *. destruct (j =? 0)%Z eqn:E0.
      + apply SAME; try reflexivity. intros A xs x. simpl. rewrite E0. reflexivity.
      + apply (ADDR j); reflexivity.
    - unfold step in *. cbn [hstep addressed] in *. destruct (j =? 0)%Z eqn:E0.
      + apply SAME; try reflexivity. intros A xs x. simpl. rewrite E0. reflexivity.
      + apply (ADDR j); reflexivity.
    - unfold step in *. cbn [hstep addressed] in *. destruct (0 <? j)%Z eqn:E0.
      + apply (ADDR j); reflexivity.
      + apply SAME; try reflexivity. intros A xs x. simpl. rewrite E0. reflexivity.
    - apply SAME; try reflexivity.
  Qed.

  Lemma tracks_init base i : tracks base i 0 false (mk_hst base [] 0%Z).
  Proof.
    unfold tracks. cbn [h_base h_tab h_ctr tget]. repeat split; auto; try lia.
    intro L. unfold is_live in L. rewrite andb_true_r in L. apply andb_true_iff in L as [L1 L2].
    apply Z.leb_le in L1, L2. lia.
  Qed.

  Theorem isolated_gen base hs i :
    sel i 0%Z false hs (snd (run (mk_hst base [] 0%Z) hs)) =
    serve_all T stepf (newf base (ro_of i 0%Z hs)) (sel i 0%Z false hs hs).
  Proof. rewrite (sel_serves base i hs _ 0%Z false (tracks_init base i)). reflexivity. Qed.
End Iso.

Theorem handlers_isolated base hs i :
  replies_for i hs (run_handlers base hs) =
  serve_all ldb ldb_step (new_localdb base (ro_of i 0%Z hs)) (reqs_for i hs).
Proof. apply isolated_gen. Qed.
