(** C08 — correspondence cases: an operation history with the outputs the Go
    implementation (db.NewLocalDB over a pre-populated database) returned. *)
From Coq Require Import List NArith ZArith Bool String Ascii.
From C33 Require Import Lib.Harness Lib.Bytes Lib.OMap C07.Model C07.Spec C07.Check C08.Model C08.Spec C08.HModel C08.HSpec.
Import ListNotations.

(** * compact literals for histories (one string token per history keeps the case files fast to parse)

    operations, each terminated by ';':  B | C | R | S<key>:<value> | G<key> |
    L<prefix>:<key>:<count>:<dir> | N<prefix>      (byte strings in hex, numbers in decimal)
    outputs, each terminated by ';':  U (unit) | P (panic) | F (other error) | V<value> | X (not found) |
    I<item>,<item>,... (every item followed by a comma) | K<count> *)
Open Scope string_scope.
Fixpoint split (sep : Ascii.ascii) (s : string) : list string :=
  match s with
  | EmptyString => [EmptyString]
  | String a tl =>
      let r := split sep tl in
      if Ascii.eqb a sep then EmptyString :: r
      else match r with
           | h :: t => String a h :: t
           | [] => [String a EmptyString]
           end
  end.

Definition fields (sep : Ascii.ascii) (s : string) : list string := removelast (split sep s).

Fixpoint dec (s : string) (acc : Z) : Z :=
  match s with
  | EmptyString => acc
  | String a tl => dec tl (10 * acc + (Z.of_N (Ascii.N_of_ascii a) - 48))%Z
  end.
Definition znum (s : string) : Z :=
  match s with
  | String a tl => if Ascii.eqb a "-"%char then (- dec tl 0)%Z else dec s 0
  | EmptyString => 0%Z
  end.

Definition parse_op (f : string) : op :=
  match f with
  | String c rest =>
      let ps := split ":"%char rest in
      if Ascii.eqb c "B"%char then OBegin
      else if Ascii.eqb c "C"%char then OCommit
      else if Ascii.eqb c "R"%char then ORollback
      else if Ascii.eqb c "S"%char then OSet (hx (nth 0 ps "")) (hx (nth 1 ps ""))
      else if Ascii.eqb c "G"%char then OGet (hx (nth 0 ps ""))
      else if Ascii.eqb c "L"%char then
        OList (hx (nth 0 ps "")) (hx (nth 1 ps "")) (znum (nth 2 ps "")) (znum (nth 3 ps ""))
      else OCount (hx (nth 0 ps ""))
  | EmptyString => OBegin
  end.
Definition pops (s : string) : list op := map parse_op (fields ";"%char s).

Definition parse_out (f : string) : out :=
  match f with
  | String c rest =>
      if Ascii.eqb c "U"%char then RUnit
      else if Ascii.eqb c "P"%char then RPanic
      else if Ascii.eqb c "V"%char then RGet (Some (hx rest))
      else if Ascii.eqb c "X"%char then RGet None
      else if Ascii.eqb c "I"%char then RList (hb rest)
      else if Ascii.eqb c "K"%char then RCount (znum rest)
      else RFuel
  | EmptyString => RFuel
  end.
Definition pouts (s : string) : list out := map parse_out (fields ";"%char s).

(** handler histories (blockchain/localdb.go), each request terminated by ';':
    n0 | n1 (EventLocalNew, readOnly) | c<id> (Close) | b<id> (Begin) | m<id> (Commit) | r<id> (Rollback) |
    s<id>:<key>=<value>,... | g<id>:<key>,... | l<id>:<prefix>:<key>:<count>:<dir> | k<id>:<prefix>
    replies: i<id> | o | e<0..3> | v<value or ->,... | t<item>,... | k<count> | f *)
Definition parse_kv (f : string) : bytes * bytes :=
  let ps := split "="%char f in (hx (nth 0 ps ""), hx (nth 1 ps "")).

Definition parse_hop (f : string) : hop :=
  match f with
  | String c rest =>
      let ps := split ":"%char rest in
      let i := znum (nth 0 ps "") in
      if Ascii.eqb c "n"%char then HNew (Ascii.eqb (match rest with String a _ => a | _ => "0"%char end) "1"%char)
      else if Ascii.eqb c "c"%char then HClose i
      else if Ascii.eqb c "b"%char then HBegin i
      else if Ascii.eqb c "m"%char then HCommit i
      else if Ascii.eqb c "r"%char then HRollback i
      else if Ascii.eqb c "s"%char then HSet i (map parse_kv (fields ","%char (nth 1 ps "")))
      else if Ascii.eqb c "g"%char then HGet i (map hx (fields ","%char (nth 1 ps "")))
      else if Ascii.eqb c "l"%char then
        HList i (hx (nth 1 ps "")) (hx (nth 2 ps "")) (znum (nth 3 ps "")) (znum (nth 4 ps ""))
      else HCount i (hx (nth 1 ps ""))
  | EmptyString => HNew false
  end.
Definition phops (s : string) : list hop := map parse_hop (fields ";"%char s).

Definition parse_val (f : string) : option bytes :=
  match f with
  | String c _ => if Ascii.eqb c "-"%char then None else Some (hx f)
  | EmptyString => None
  end.

Definition parse_hout (f : string) : hout :=
  match f with
  | String c rest =>
      if Ascii.eqb c "i"%char then HId (znum rest)
      else if Ascii.eqb c "o"%char then HOk
      else if Ascii.eqb c "e"%char then
        HErr (if Ascii.eqb (match rest with String a _ => a | _ => "3"%char end) "0"%char then ENoPtr
              else if Ascii.eqb (match rest with String a _ => a | _ => "3"%char end) "1"%char then ENotInTx
              else if Ascii.eqb (match rest with String a _ => a | _ => "3"%char end) "2"%char then EPanic
              else EOther)
      else if Ascii.eqb c "v"%char then HVals (map parse_val (fields ","%char rest))
      else if Ascii.eqb c "t"%char then HItems (map hx (fields ","%char rest))
      else if Ascii.eqb c "k"%char then HCnt (znum rest)
      else HFuel
  | EmptyString => HFuel
  end.
Definition phouts (s : string) : list hout := map parse_hout (fields ";"%char s).
Close Scope string_scope.

Inductive case :=
| CHist (ro : bool) (base : store) (ops : list op) (impl : list out)
| CHand (base : store) (hops : list hop) (impl : list hout).   (* through the EventLocal* handlers of a node *)

Definition out_eqb (a b : out) : bool :=
  match a, b with
  | RUnit, RUnit => true
  | RPanic, RPanic => true
  | RGet x, RGet y => option_eqb bytes_eqb x y
  | RList x, RList y => lb_eqb x y
  | RCount x, RCount y => (x =? y)%Z
  | _, _ => false
  end.

(** the operation at the first position where the two output lists differ *)
Fixpoint first_div (ops : list op) (a b : list out) : option op :=
  match ops, a, b with
  | o :: ops', x :: a', y :: b' => if out_eqb x y then first_div ops' a' b' else Some o
  | _, _, _ => None
  end.

(** known finding 1 (= C07's finding seen through LocalDB): the first divergence from the
    specification is a List / PrefixCount whose prefix has types.EmptyValue as upper bound *)
Definition kf_of (o : option op) : N :=
  match o with
  | Some (OList p _ _ _) => if prefix_ok p then 0%N else 1%N
  | Some (OCount p) => if prefix_ok p then 0%N else 1%N
  | _ => 0%N
  end.

Definition herr_eqb (a b : herr) : bool :=
  match a, b with
  | ENoPtr, ENoPtr | ENotInTx, ENotInTx | EPanic, EPanic | EOther, EOther => true
  | _, _ => false
  end.

Definition hout_eqb (a b : hout) : bool :=
  match a, b with
  | HId x, HId y => (x =? y)%Z
  | HOk, HOk => true
  | HErr x, HErr y => herr_eqb x y
  | HVals x, HVals y => list_eqb (option_eqb bytes_eqb) x y
  | HItems x, HItems y => lb_eqb x y
  | HCnt x, HCnt y => (x =? y)%Z
  | _, _ => false
  end.

(** the request at the first position where the implementation leaves the specification, with its reply *)
Fixpoint hfirst_div (hs : list hop) (a b : list hout) : option (hop * hout) :=
  match hs, a, b with
  | h :: hs', x :: a', y :: b' => if hout_eqb x y then hfirst_div hs' a' b' else Some (h, x)
  | _, _, _ => None
  end.

(** known finding 1 as above; known finding 2: the first divergence is an EventLocalPrefixCount asked on behalf
    of a transaction id, and the reply is the count of the raw block-store database *)
Definition hkf_of (base : store) (o : option (hop * hout)) : N :=
  match o with
  | Some (HList _ p _ _ _, _) => if prefix_ok p then 0%N else 1%N
  | Some (HCount i p, HCnt n) =>
      if negb (prefix_ok p) then 1%N
      else if (0 <? i)%Z && (n =? spec_count [base] p)%Z then 2%N else 0%N
  | _ => 0%N
  end.

Fixpoint count_new (hs : list hop) : nat :=
  match hs with [] => O | HNew _ :: tl => S (count_new tl) | _ :: tl => count_new tl end.

(** per transaction id: the replies it got are those of its own specification database *)
Definition per_id_ok (base : store) (hs : list hop) (impl : list hout) : bool :=
  forallb (fun k => let i := Z.of_nat k in
             list_eqb hout_eqb (replies_for i hs impl)
                      (serve_all sdb s_step (new_spec base (ro_of i 0%Z hs)) (reqs_for i hs)))
          (seq 1 (count_new hs)).

Definition check_case (c : case) : verdict :=
  match c with
  | CHist ro base ops impl =>
      let model := run_localdb base ro ops in
      let spec := run_spec base ro ops in
      let m := wf_storeb base && list_eqb out_eqb model impl in
      let s := list_eqb out_eqb impl spec in
      (m, s, kf_of (first_div ops impl spec))
  | CHand base hs impl =>
      let model := run_handlers base hs in
      let spec := run_hspec base hs in
      let m := wf_storeb base && list_eqb hout_eqb model impl in
      let s := list_eqb hout_eqb impl spec in
      let s := if s then per_id_ok base hs impl else false in
      (m, s, hkf_of base (hfirst_div hs impl spec))
  end.
