(** C08 — correspondence cases: an operation history with the outputs the Go
    implementation (db.NewLocalDB over a pre-populated database) returned. *)
From Coq Require Import List NArith ZArith Bool String Ascii.
From C33 Require Import Lib.Harness Lib.Bytes Lib.OMap C07.Model C07.Spec C07.Check C08.Model C08.Spec.
Import ListNotations.

(** * compact literals for histories (one string token per history keeps the case files fast to parse)

    operations, each terminated by ';':  B | C | R | S<key>:<value> | G<key> |
    L<prefix>:<key>:<count>:<dir> | N<prefix>      (byte strings in hex, numbers in decimal)
    outputs, each terminated by ';':  U (unit) | P (panic) | F (other error) | V<value> | X (not found) |
    I<item>,<item>,... (every item followed by a comma) | K<count> *)
Open Scope string_scope.
Fixpoint split (sep : Ascii.ascii) (s : string) : list string :=
  match s with
  | EmptyString => [EmptyString]
  | String a tl =>
      let r := split sep tl in
      if Ascii.eqb a sep then EmptyString :: r
      else match r with
           | h :: t => String a h :: t
           | [] => [String a EmptyString]
           end
  end.

Definition fields (sep : Ascii.ascii) (s : string) : list string := removelast (split sep s).

Fixpoint dec (s : string) (acc : Z) : Z :=
  match s with
  | EmptyString => acc
  | String a tl => dec tl (10 * acc + (Z.of_N (Ascii.N_of_ascii a) - 48))%Z
  end.
Definition znum (s : string) : Z :=
  match s with
  | String a tl => if Ascii.eqb a "-"%char then (- dec tl 0)%Z else dec s 0
  | EmptyString => 0%Z
  end.

Definition parse_op (f : string) : op :=
  match f with
  | String c rest =>
      let ps := split ":"%char rest in
      if Ascii.eqb c "B"%char then OBegin
      else if Ascii.eqb c "C"%char then OCommit
      else if Ascii.eqb c "R"%char then ORollback
      else if Ascii.eqb c "S"%char then OSet (hx (nth 0 ps "")) (hx (nth 1 ps ""))
      else if Ascii.eqb c "G"%char then OGet (hx (nth 0 ps ""))
      else if Ascii.eqb c "L"%char then
        OList (hx (nth 0 ps "")) (hx (nth 1 ps "")) (znum (nth 2 ps "")) (znum (nth 3 ps ""))
      else OCount (hx (nth 0 ps ""))
  | EmptyString => OBegin
  end.
Definition pops (s : string) : list op := map parse_op (fields ";"%char s).

Definition parse_out (f : string) : out :=
  match f with
  | String c rest =>
      if Ascii.eqb c "U"%char then RUnit
      else if Ascii.eqb c "P"%char then RPanic
      else if Ascii.eqb c "V"%char then RGet (Some (hx rest))
      else if Ascii.eqb c "X"%char then RGet None
      else if Ascii.eqb c "I"%char then RList (hb rest)
      else if Ascii.eqb c "K"%char then RCount (znum rest)
      else RFuel
  | EmptyString => RFuel
  end.
Definition pouts (s : string) : list out := map parse_out (fields ";"%char s).
Close Scope string_scope.

Inductive case :=
| CHist (ro : bool) (base : store) (ops : list op) (impl : list out).

Definition out_eqb (a b : out) : bool :=
  match a, b with
  | RUnit, RUnit => true
  | RPanic, RPanic => true
  | RGet x, RGet y => option_eqb bytes_eqb x y
  | RList x, RList y => lb_eqb x y
  | RCount x, RCount y => (x =? y)%Z
  | _, _ => false
  end.

(** the operation at the first position where the two output lists differ *)
Fixpoint first_div (ops : list op) (a b : list out) : option op :=
  match ops, a, b with
  | o :: ops', x :: a', y :: b' => if out_eqb x y then first_div ops' a' b' else Some o
  | _, _, _ => None
  end.

(** known finding 1 (= C07's finding seen through LocalDB): the first divergence from the
    specification is a List / PrefixCount whose prefix has types.EmptyValue as upper bound *)
Definition kf_of (o : option op) : N :=
  match o with
  | Some (OList p _ _ _) => if prefix_ok p then 0%N else 1%N
  | Some (OCount p) => if prefix_ok p then 0%N else 1%N
  | _ => 0%N
  end.

Definition check_case (c : case) : verdict :=
  match c with
  | CHist ro base ops impl =>
      let model := run_localdb base ro ops in
      let spec := run_spec base ro ops in
      let m := wf_storeb base && list_eqb out_eqb model impl in
      let s := list_eqb out_eqb impl spec in
      (m, s, kf_of (first_div ops impl spec))
  end.
