(** C25 — executable model of chain33's block acceptance and fork choice
    (blockchain/process.go ProcessBlock / maybeAddBestChain / maybeAcceptBlock /
    connectBestChain / getReorganizeNodes / reorganizeChain, orphanpool.go
    AddOrphanBlock / ProcessOrphans, chainview.go FindFork, blockstore.go
    dbMaybeStoreBlock (total difficulty) ), as coded.

    Block hashes are abstract identifiers ([N]); block validity and execution
    are an oracle (every delivered block executes without error).  The state
    also records the trace of connectBlock / disconnectBlock calls ([evs],
    newest first): this is what blockstore.SaveBlock / DelBlock turn into the
    block sequence log (C26). *)
From Coq Require Import List ZArith NArith Bool.
Import ListNotations.
Open Scope Z_scope.

Record block := mkB { bid : N; bpar : N; bht : Z; bdiff : Z }.
(** index entry: the block node plus the total difficulty stored for its hash *)
Record node := mkN { nblk : block; ntd : Z }.

Record state := mkS {
  idx  : list node;          (* blockIndex + hash->td records, newest first *)
  orph : list block;         (* orphan pool in insertion order (prevOrphans lists are its per-parent sublists) *)
  main : list N;             (* bestChain view, tip first *)
  evs  : list (N * bool)     (* connect (true) / disconnect (false) calls, newest first *)
}.

Inductive errc := ENone | EExist | EParent | EHeight | ETd | EFuel.

Definition errc_eqb (a b : errc) : bool :=
  match a, b with
  | ENone, ENone | EExist, EExist | EParent, EParent | EHeight, EHeight
  | ETd, ETd | EFuel, EFuel => true
  | _, _ => false
  end.

Definition memN (h : N) (l : list N) : bool := existsb (N.eqb h) l.
Definition find_node (h : N) (ix : list node) : option node :=
  find (fun n => N.eqb (bid (nblk n)) h) ix.
Definition in_idx (h : N) (ix : list node) : bool :=
  match find_node h ix with Some _ => true | None => false end.
Definition in_orph (h : N) (o : list block) : bool := existsb (fun b => N.eqb (bid b) h) o.
Definition remove_orph (h : N) (o : list block) : list block :=
  filter (fun b => negb (N.eqb (bid b) h)) o.
Definition first_child (p : N) (o : list block) : option block :=
  find (fun b => N.eqb (bpar b) p) o.

Definition tip (s : state) : N := hd 0%N (main s).

(** state after the genesis/root block [g] was connected *)
Definition init (g : block) : state :=
  mkS [mkN g (bdiff g)] [] [bid g] [(bid g, true)].

(** [take_until fk l] / [drop_until fk l]: the part of the view above the fork
    point (to be disconnected, tip first) and the part from the fork point down *)
Fixpoint take_until (fk : N) (l : list N) : list N :=
  match l with
  | [] => []
  | h :: tl => if N.eqb h fk then [] else h :: take_until fk tl
  end.
Fixpoint drop_until (fk : N) (l : list N) : list N :=
  match l with
  | [] => []
  | h :: tl => if N.eqb h fk then l else drop_until fk tl
  end.

(** FindFork + the attach half of getReorganizeNodes: walk parent links from
    [h] until a block of the best chain view is met.  Returns the walked
    hashes (newest first) and the fork point. *)
Fixpoint branch (fuel : nat) (ix : list node) (mn : list N) (h : N) : option (list N * N) :=
  match fuel with
  | O => None
  | S f =>
      if memN h mn then Some ([], h)
      else match find_node h ix with
           | None => None
           | Some n =>
               match branch f ix mn (bpar (nblk n)) with
               | Some (p, fk) => Some (h :: p, fk)
               | None => None
               end
           end
  end.

Definition margin : Z := 12.

(** connectBestChain for the freshly indexed node [b] with total difficulty [td] *)
Definition connect_best (fin : Z) (s : state) (b : block) (td : Z) : state * bool * errc :=
  if N.eqb (bpar b) (tip s) then
    (mkS (idx s) (orph s) (bid b :: main s) ((bid b, true) :: evs s), true, ENone)
  else
    match find_node (tip s) (idx s) with
    | None => (s, false, ETd)
    | Some t =>
        if (td <=? ntd t) || (bht b <? fin + margin) then (s, false, ENone)
        else
          match branch (S (Z.to_nat (bht b))) (idx s) (main s) (bid b) with
          | None => (s, false, EFuel)
          | Some (p, fk) =>
              let dels := take_until fk (main s) in
              (mkS (idx s) (orph s) (p ++ drop_until fk (main s))
                   (map (fun h => (h, true)) p ++ rev (map (fun h => (h, false)) dels) ++ evs s),
               true, ENone)
          end
    end.

(** maybeAcceptBlock *)
Definition accept (fin : Z) (s : state) (b : block) : state * bool * errc :=
  match find_node (bpar b) (idx s) with
  | None => (s, false, EParent)
  | Some p =>
      if negb (bht b =? bht (nblk p) + 1) then (s, false, EHeight)
      else
        let td := ntd p + bdiff b in
        let s1 := mkS (mkN b td :: idx s) (orph s) (main s) (evs s) in
        connect_best fin s1 b td
  end.

(** ProcessOrphans: breadth-first over the orphan pool.  [q] is the queue of
    processHashes; its head stays until it has no orphan child left. *)
Fixpoint porph (fuel : nat) (fin : Z) (q : list N) (s : state) : state * errc :=
  match fuel with
  | O => (s, EFuel)
  | S f =>
      match q with
      | [] => (s, ENone)
      | p :: q' =>
          match first_child p (orph s) with
          | None => porph f fin q' s
          | Some c =>
              let s0 := mkS (idx s) (remove_orph (bid c) (orph s)) (main s) (evs s) in
              match accept fin s0 c with
              | (s1, _, ENone) => porph f fin (q ++ [bid c]) s1
              | (s1, _, e) => (s1, e)
              end
          end
      end
  end.

Definition porph_fuel (s : state) : nat := 2 * length (orph s) + 2.

(** ProcessBlock(addBlock = true, pid = a peer).  Output: (isMainChain, isOrphan, error class). *)
Definition out : Type := (bool * bool * errc)%type.

Definition deliver (fin : Z) (s : state) (b : block) : state * out :=
  if in_idx (bid b) (idx s) then (s, (false, false, EExist))
  else
    let known := in_orph (bid b) (orph s) in
    if known && negb (in_idx (bpar b) (idx s)) then (s, (false, false, EExist))
    else
      let s1 := if known then mkS (idx s) (remove_orph (bid b) (orph s)) (main s) (evs s) else s in
      if negb (in_idx (bpar b) (idx s1)) then
        (mkS (idx s1) (orph s1 ++ [b]) (main s1) (evs s1), (false, true, ENone))
      else
        match accept fin s1 b with
        | (s2, ism, ENone) =>
            match porph (porph_fuel s2) fin [bid b] s2 with
            | (s3, ENone) => (s3, (ism, false, ENone))
            | (s3, e) => (s3, (false, false, e))
            end
        | (s2, _, e) => (s2, (false, false, e))
        end.

Definition step (fin : Z) (s : state) (b : block) : state := fst (deliver fin s b).
Definition run (fin : Z) (g : block) (order : list block) : state :=
  fold_left (step fin) order (init g).

(** total difficulty recorded for the tip *)
Definition tip_td (s : state) : Z :=
  match find_node (tip s) (idx s) with Some t => ntd t | None => -1 end.
