(** C25 — extended executable model: the parts of block acceptance that
    [Model.v] leaves out, as coded.

    * orphanpool.go AddOrphanBlock: expiry of pooled orphans by age against the
      receive time ([types.Now().After(expiration)], expiration = receive time +
      orphanExpirationTime), the remembered [oldestOrphan] pointer (kept across
      calls, cleared only after an overflow removal, possibly stale), removal of
      that orphan when [len(orphans)+1 > maxOrphanBlocks].  ProcessBlock does
      nothing more when an orphan is dropped: the block is simply forgotten, a
      later delivery of it is treated as a first delivery.
    * ProcessOrphans as it is now: an orphan whose acceptance fails is dropped
      and the loop goes on (Model.v's loop stops there).
    * blockfinalize.go: the finalizer's choice (height, hash) moves.
      snowmanAcceptBlock accepts a choice only when that block is on the best
      chain at that height and the height is above the current one
      (setFinalizedBlock mustInorder); connectBestChain treats a block below
      [finalized + 12] as a side chain, and when a reorganisation's fork point
      is below the finalized height it does NOT refuse: it resets the choice to
      the fork point and reorganises.
    * Consensus.EnableBestBlockCmp: with equal total difficulty and equal height
      the consensus module's answer ([pcmp], an oracle) may prefer the new block.

    The state is Model.v's state plus the expiration of every pooled orphan, the
    [oldestOrphan] pointer and the finalizer's choice.  [base_of] forgets the
    additions; ProofsExt.v shows that a run in which nothing is dropped, the
    choice does not move and best-block comparison is off is exactly a run of
    Model.v ([conservative]).

    FindFork cannot fail here (nothing is ever deleted from the index: that is
    C27's ground), so the place of its nil test is not visible; the fork walk
    keeps Model.v's fuel. *)
From Coq Require Import List ZArith NArith Bool.
From C33 Require Import C25.Model.
Import ListNotations.
Open Scope Z_scope.

Record params := mkP {
  pcap : Z;                  (* maxOrphanBlocks (10240) *)
  pttl : Z;                  (* orphanExpirationTime (600 s) in the unit of the receive times *)
  pebc : bool;               (* Consensus.EnableBestBlockCmp *)
  pcmp : N -> N -> bool      (* util.CmpBestBlock new-block tip: the consensus module's answer *)
}.

Record xstate := mkX {
  xidx  : list node;
  xorph : list (block * Z);  (* orphan pool in insertion order, each with its expiration *)
  xmain : list N;
  xevs  : list (N * bool);
  xold  : option (N * Z);    (* oldestOrphan: hash and expiration of the remembered orphan *)
  xfin  : Z;                 (* finalizer choice: height ... *)
  xfh   : option N           (* ... and hash (None: never set, the zero value) *)
}.

Definition base_of (s : xstate) : state :=
  mkS (xidx s) (map fst (xorph s)) (xmain s) (xevs s).

Definition set_orph (s : xstate) (o : list (block * Z)) : xstate :=
  mkX (xidx s) o (xmain s) (xevs s) (xold s) (xfin s) (xfh s).

Definition in_xorph (h : N) (o : list (block * Z)) : bool :=
  existsb (fun e => N.eqb (bid (fst e)) h) o.
Definition remove_x (h : N) (o : list (block * Z)) : list (block * Z) :=
  filter (fun e => negb (N.eqb (bid (fst e)) h)) o.
Definition first_child_x (p : N) (o : list (block * Z)) : option (block * Z) :=
  find (fun e => N.eqb (bpar (fst e)) p) o.

Definition xtip (s : xstate) : N := hd 0%N (xmain s).

Definition node_height (h : N) (ix : list node) : option Z :=
  match find_node h ix with Some n => Some (bht (nblk n)) | None => None end.

(** * orphan pool limits: AddOrphanBlock at receive time [now] *)

Definition expired (now : Z) (e : block * Z) : bool := snd e <? now.   (* Now().After(expiration) *)

(** the loop's update of oldestOrphan for one live entry (strict Before) *)
Definition older (o : option (N * Z)) (e : block * Z) : option (N * Z) :=
  match o with
  | None => Some (bid (fst e), snd e)
  | Some (_, x) => if snd e <? x then Some (bid (fst e), snd e) else o
  end.

(** result: the new state and the hashes that left the pool (expired, then evicted) *)
Definition add_orphan (P : params) (now : Z) (s : xstate) (b : block) : xstate * list N :=
  let live := filter (fun e => negb (expired now e)) (xorph s) in
  let gone := map (fun e => bid (fst e)) (filter (expired now) (xorph s)) in
  let old := fold_left older live (xold s) in
  let over := pcap P <? Z.of_nat (length live) + 1 in
  let live2 := if over then match old with Some (h, _) => remove_x h live | None => live end else live in
  let ev := if over then match old with
                         | Some (h, _) => if in_xorph h live then [h] else []
                         | None => []
                         end else [] in
  let old2 := if over then None else old in
  (mkX (xidx s) (live2 ++ [(b, now + pttl P)]) (xmain s) (xevs s) old2 (xfin s) (xfh s), gone ++ ev).

(** * connectBestChain with the moving finalizer and best-block comparison *)
Definition connect_best_x (P : params) (s : xstate) (b : block) (td : Z) : xstate * bool * errc :=
  if N.eqb (bpar b) (xtip s) then
    (mkX (xidx s) (xorph s) (bid b :: xmain s) ((bid b, true) :: xevs s) (xold s) (xfin s) (xfh s),
     true, ENone)
  else
    match find_node (xtip s) (xidx s) with
    | None => (s, false, ETd)
    | Some t =>
        let side := (td <=? ntd t) &&
                    negb (pebc P && (td =? ntd t) && (bht b =? bht (nblk t)) && pcmp P (bid b) (xtip s)) in
        if side || (bht b <? xfin s + margin) then (s, false, ENone)
        else
          match branch (S (Z.to_nat (bht b))) (xidx s) (xmain s) (bid b) with
          | None => (s, false, EFuel)
          | Some (p, fk) =>
              let dels := take_until fk (xmain s) in
              let rs := match node_height fk (xidx s) with
                        | Some fkh => if fkh <? xfin s then Some fkh else None
                        | None => None
                        end in
              (mkX (xidx s) (xorph s) (p ++ drop_until fk (xmain s))
                   (map (fun h => (h, true)) p ++ rev (map (fun h => (h, false)) dels) ++ xevs s)
                   (xold s)
                   (match rs with Some fkh => fkh | None => xfin s end)
                   (match rs with Some _ => Some fk | None => xfh s end),
               true, ENone)
          end
    end.

Definition accept_x (P : params) (s : xstate) (b : block) : xstate * bool * errc :=
  match find_node (bpar b) (xidx s) with
  | None => (s, false, EParent)
  | Some p =>
      if negb (bht b =? bht (nblk p) + 1) then (s, false, EHeight)
      else
        let td := ntd p + bdiff b in
        let s1 := mkX (mkN b td :: xidx s) (xorph s) (xmain s) (xevs s) (xold s) (xfin s) (xfh s) in
        connect_best_x P s1 b td
  end.

(** ProcessOrphans; also returns the orphans that were rejected (dropped) *)
Fixpoint porph_x (fuel : nat) (P : params) (q : list N) (s : xstate) : xstate * list N * errc :=
  match fuel with
  | O => (s, [], EFuel)
  | S f =>
      match q with
      | [] => (s, [], ENone)
      | p :: q' =>
          match first_child_x p (xorph s) with
          | None => porph_x f P q' s
          | Some (c, _) =>
              let s0 := set_orph s (remove_x (bid c) (xorph s)) in
              match accept_x P s0 c with
              | (s1, _, ENone) => porph_x f P (q ++ [bid c]) s1
              | (s1, _, _) =>
                  match porph_x f P q s1 with (s2, rj, e) => (s2, bid c :: rj, e) end
              end
          end
      end
  end.

Definition porph_fuel_x (s : xstate) : nat := 2 * length (xorph s) + 2.

(** ProcessBlock at receive time [now].  Output: ProcessBlock's results plus the
    hashes that left the pool without being indexed (not visible to the caller). *)
Record xout := mkO { o_main : bool; o_orph : bool; o_err : errc; o_lost : list N }.

Definition deliver_x (P : params) (now : Z) (s : xstate) (b : block) : xstate * xout :=
  if in_idx (bid b) (xidx s) then (s, mkO false false EExist [])
  else
    let known := in_xorph (bid b) (xorph s) in
    if known && negb (in_idx (bpar b) (xidx s)) then (s, mkO false false EExist [])
    else
      let s1 := if known then set_orph s (remove_x (bid b) (xorph s)) else s in
      if negb (in_idx (bpar b) (xidx s1)) then
        match add_orphan P now s1 b with (s2, lost) => (s2, mkO false true ENone lost) end
      else
        match accept_x P s1 b with
        | (s2, ism, ENone) =>
            match porph_x (porph_fuel_x s2) P [bid b] s2 with
            | (s3, rj, ENone) => (s3, mkO ism false ENone rj)
            | (s3, rj, e) => (s3, mkO false false e rj)
            end
        | (s2, _, e) => (s2, mkO false false e [])
        end.

(** * the finalizer's choice: snowmanAcceptBlock *)
Definition on_main (s : xstate) (h : Z) (f : N) : bool :=
  memN f (xmain s) &&
  match node_height f (xidx s) with Some x => x =? h | None => false end.

Definition finalize (s : xstate) (h : Z) (f : N) : xstate :=
  if on_main s h f && (xfin s <? h)
  then mkX (xidx s) (xorph s) (xmain s) (xevs s) (xold s) h (Some f)
  else s.

(** * histories *)
Inductive xev := Dl (now : Z) (b : block) | Fz (h : Z) (f : N).

Definition quiet_out : xout := mkO false false ENone [].

Definition xstep (P : params) (s : xstate) (e : xev) : xstate * xout :=
  match e with
  | Dl now b => deliver_x P now s b
  | Fz h f => (finalize s h f, quiet_out)
  end.

Definition xinit (g : block) (fin0 : Z) : xstate :=
  mkX [mkN g (bdiff g)] [] [bid g] [(bid g, true)] None fin0 None.

Definition xrun_from (P : params) (s : xstate) (hist : list xev) : xstate :=
  fold_left (fun s e => fst (xstep P s e)) hist s.
Definition xrun (P : params) (g : block) (fin0 : Z) (hist : list xev) : xstate :=
  xrun_from P (xinit g fin0) hist.

Definition xtip_td (s : xstate) : Z :=
  match find_node (xtip s) (xidx s) with Some t => ntd t | None => -1 end.

(** * what a history did, as booleans (the guards of the theorems) *)

(** a delivery lowered the finalizer's choice (connectBestChain's reset) *)
Definition lowered (s s' : xstate) : bool := xfin s' <? xfin s.

Definition is_held_err (e : errc) : bool :=
  match e with ENone | EExist => true | _ => false end.

(** [held]: the hashes delivered so far and not dropped since (tracked through
    the run); [steady]: no delivery lowered the choice *)
Definition acc : Type := (xstate * list N * bool)%type.

(** drop the hashes in [lost] from [held] *)
Definition keep_held (lost held : list N) : list N :=
  match lost with
  | [] => held
  | _ => filter (fun h => negb (memN h lost)) held
  end.

(** one event on the tracked state; also returns the event's output (the
    correspondence check compares it with the node's) *)
Definition xstep_acc_o (P : params) (a : acc) (e : xev) : acc * xout :=
  match a with
  | (s, held, ok) =>
      match xstep P s e with
      | (s', o) =>
          (match e with
           | Dl _ b =>
               let keep := keep_held (o_lost o) held in
               (s', (if is_held_err (o_err o) then bid b :: keep else keep),
                ok && negb (lowered s s'))
           | Fz _ _ => (s', held, ok)
           end, o)
      end
  end.

Definition xstep_acc (P : params) (a : acc) (e : xev) : acc := fst (xstep_acc_o P a e).

Definition xrun_acc (P : params) (a : acc) (hist : list xev) : acc := fold_left (xstep_acc P) hist a.

Definition held_of (P : params) (g : block) (fin0 : Z) (hist : list xev) : list N :=
  snd (fst (xrun_acc P (xinit g fin0, [], true) hist)).
Definition steady (P : params) (g : block) (fin0 : Z) (hist : list xev) : bool :=
  snd (xrun_acc P (xinit g fin0, [], true) hist).
Definition steady_from (P : params) (s : xstate) (hist : list xev) : bool :=
  snd (xrun_acc P (s, [], true) hist).

(** every block of [T] other than the root was delivered and not dropped after
    its last delivery *)
Definition kept_all (P : params) (g : block) (fin0 : Z) (T : list block) (hist : list xev) : bool :=
  let held := held_of P g fin0 hist in
  forallb (fun b => N.eqb (bid b) (bid g) || memN (bid b) held) T.

(** nothing at all was dropped, no delivery moved the choice, no finalize
    event: the guard of conservativity *)
Fixpoint plain (P : params) (s : xstate) (hist : list xev) : bool :=
  match hist with
  | [] => true
  | Fz _ _ :: _ => false
  | Dl now b :: tl =>
      match deliver_x P now s b with
      | (s', o) =>
          match o_lost o with
          | [] => Z.eqb (xfin s') (xfin s) && plain P s' tl
          | _ => false
          end
      end
  end.

Definition blocks_of (hist : list xev) : list block :=
  flat_map (fun e => match e with Dl _ b => [b] | Fz _ _ => [] end) hist.
