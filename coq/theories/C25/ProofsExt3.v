(** C25 — proofs for the extended model, part 3: the orphan pool with its
    limits, ProcessOrphans, one event, histories. *)
From Coq Require Import List ZArith NArith Bool Lia.
From C33 Require Import C25.Model C25.Proofs C25.Proofs2 C25.ModelExt C25.ProofsExt C25.ProofsExt2.
Import ListNotations.
Open Scope Z_scope.

(** ** pool facts *)

Lemma in_xorph_true : forall h o, in_xorph h o = true <-> exists e, In e o /\ bid (fst e) = h.
Proof.
  intros h o. unfold in_xorph. rewrite existsb_exists. split; intros (e & A & B); exists e; split; auto.
  - apply N.eqb_eq; exact B.
  - apply N.eqb_eq in B; exact B.
Qed.

Lemma remove_x_in : forall h o e, In e (remove_x h o) <-> In e o /\ bid (fst e) <> h.
Proof.
  intros h o e. unfold remove_x. rewrite filter_In. split; intros [A B]; split; auto.
  - apply negb_true_iff, N.eqb_neq in B. exact B.
  - apply negb_true_iff, N.eqb_neq. exact B.
Qed.

Lemma remove_x_length : forall e o, In e o -> (length (remove_x (bid (fst e)) o) < length o)%nat.
Proof.
  intros e o. induction o as [|x o IH]; intros H; [destruct H|].
  unfold remove_x in *. cbn [filter length].
  destruct H as [->|H].
  - rewrite N.eqb_refl. cbn [negb].
    pose proof (filter_len _ (fun e0 => negb (N.eqb (bid (fst e0)) (bid (fst e)))) o). lia.
  - specialize (IH H). destruct (negb (N.eqb (bid (fst x)) (bid (fst e)))); cbn [length]; lia.
Qed.

Lemma first_child_x_some : forall p o e, first_child_x p o = Some e -> In e o /\ bpar (fst e) = p.
Proof.
  unfold first_child_x; intros p o e H. apply find_some in H as [A B].
  apply N.eqb_eq in B. auto.
Qed.

Lemma first_child_x_none : forall p o e, first_child_x p o = None -> In e o -> bpar (fst e) <> p.
Proof.
  unfold first_child_x; intros p o e H He. eapply find_none in H; [|exact He].
  apply N.eqb_neq in H. exact H.
Qed.

Lemma memN_nil_filter : forall l, filter (fun h => negb (memN h [])) l = l.
Proof. induction l as [|x l IH]; cbn; [reflexivity|]. f_equal. exact IH. Qed.

(** AddOrphanBlock only touches the pool and the pointer; what stays *)
Lemma add_orphan_shape : forall P now s b s' lost,
  add_orphan P now s b = (s', lost) ->
  exists o od, s' = with_orph s o od /\
    (forall e, In e o -> In e (xorph s) \/ e = (b, now + pttl P)) /\
    In (b, now + pttl P) o /\
    (forall h, in_xorph h (xorph s) = true -> ~ In h lost -> in_xorph h o = true).
Proof.
  intros P now s b s' lost. unfold add_orphan.
  set (live := filter (fun e => negb (expired now e)) (xorph s)).
  set (old := fold_left older live (xold s)).
  set (over := pcap P <? Z.of_nat (length live) + 1).
  set (live2 := if over then match old with Some (h, _) => remove_x h live | None => live end else live).
  intros H. injection H as <- <-.
  exists (live2 ++ [(b, now + pttl P)]). eexists. split; [reflexivity|].
  assert (Sub : forall e, In e live2 -> In e (xorph s)).
  { intros e He. assert (In e live).
    { unfold live2 in He. destruct over; [|exact He]. destruct old as [[h x]|]; [|exact He].
      apply remove_x_in in He. tauto. }
    unfold live in H. apply filter_In in H. tauto. }
  split; [|split].
  - intros e He. apply in_app_or in He as [He|[<-|[]]]; [left; apply Sub; exact He|right; reflexivity].
  - apply in_or_app. right. left. reflexivity.
  - intros h Hh Nl. apply in_xorph_true in Hh as (e & He & Eh).
    apply in_xorph_true. exists e. split; [|exact Eh]. apply in_or_app. left.
    assert (Lv : In e live).
    { unfold live. apply filter_In. split; [exact He|]. destruct (expired now e) eqn:X; [|reflexivity].
      exfalso. apply Nl. apply in_or_app. left. rewrite <- Eh.
      apply (in_map (fun e0 => bid (fst e0))). apply filter_In. split; assumption. }
    unfold live2. destruct over; [|exact Lv]. destruct old as [[h0 x]|]; [|exact Lv].
    apply remove_x_in. split; [exact Lv|]. intros E. apply Nl. apply in_or_app. right.
    assert (I : in_xorph h0 live = true) by (apply in_xorph_true; exists e; split; assumption).
    rewrite I. left. congruence.
Qed.

Lemma nodup_app_l : forall A (l1 l2 : list A), NoDup (l1 ++ l2) -> NoDup l1.
Proof.
  intros A l1 l2. induction l1 as [|x l1 IH]; cbn [app]; intros H; [constructor|].
  inversion H as [|? ? Hx Hn]; subst. constructor; [|apply IH; exact Hn].
  intros Q. apply Hx. apply in_or_app. left. exact Q.
Qed.

Section RunX.
Variables (P : params) (g : block) (T J : list block).
Hypothesis Hg : In g T.
Hypothesis HndU : NoDup (map bid (T ++ J)).
Hypothesis Hconn : forall b, In b T -> exists l td, path g T b l td.
Hypothesis Hdiff : forall b, In b T -> 0 <= bdiff b.
Hypothesis Hg0 : 0 <= bht g.
Hypothesis Hjunk : forall j, In j J -> ~ In (bpar j) (map bid T).

Lemma Hnd : NoDup (map bid T).
Proof. pose proof HndU as H. rewrite map_app in H. apply nodup_app_l in H. exact H. Qed.

Lemma uid_inj : forall a b, In a (T ++ J) -> In b (T ++ J) -> bid a = bid b -> a = b.
Proof. intros a b. apply (id_inj (T ++ J) HndU). Qed.

Lemma junk_not_T : forall j, In j J -> ~ In (bid j) (map bid T).
Proof.
  intros j Hj Hin. apply in_map_iff in Hin as (t & Et & Ht).
  assert (t = j) by (apply uid_inj; [apply in_or_app; left; exact Ht|apply in_or_app; right; exact Hj|exact Et]).
  subst t. rewrite map_app in HndU. clear -HndU Ht Hj.
  induction T as [|x T' IH]; [destruct Ht|]. cbn [map app] in HndU. inversion HndU as [|? ? Hx Hn]; subst.
  destruct Ht as [->|Ht]; [|apply IH; assumption].
  apply Hx. apply in_or_app. right. apply in_map. exact Hj.
Qed.

Lemma idx_in_T : forall ix h, idx_ok g T ix -> in_idx h ix = true -> In h (map bid T).
Proof.
  intros ix h OK H. apply in_idx_true in H as (n & Hn & <-).
  destruct (OK _ Hn) as [[l Pn] _]. apply in_map. eapply (path_in g T Hg). exact Pn.
Qed.

Definition orph_ok_x (s : xstate) : Prop :=
  forall e, In e (xorph s) -> In (fst e) (T ++ J) /\ in_idx (bid (fst e)) (xidx s) = false.
Definition par_ok (s : xstate) : Prop :=
  forall e, In e (xorph s) -> in_idx (bpar (fst e)) (xidx s) = false.

Notation cidx := (cidx g T).
Notation mx := (mx g T).
Notation anchored := ProofsExt2.anchored.
Notation fin_ok := ProofsExt2.fin_ok.

(** ProcessOrphans: never out of fuel, rejects nothing, accepts every orphan
    that became connected *)
Lemma porph_x_ok : forall fuel q s,
  cidx s -> orph_ok_x s ->
  (forall e, In e (xorph s) -> in_idx (bpar (fst e)) (xidx s) = true -> In (bpar (fst e)) q) ->
  (forall h, In h q -> in_idx h (xidx s) = true) ->
  (2 * length (xorph s) + length q < fuel)%nat ->
  exists s', porph_x fuel P q s = (s', [], ENone) /\ cidx s' /\ orph_ok_x s' /\ par_ok s' /\
    (forall h, in_idx h (xidx s) = true -> in_idx h (xidx s') = true) /\
    (forall h, in_xorph h (xorph s) = true -> in_xorph h (xorph s') = true \/ in_idx h (xidx s') = true) /\
    xold s' = xold s /\ xfin s' <= xfin s /\
    (fin_ok s -> fin_ok s') /\
    (forall f h, anchored s f h -> h <= xfin s' -> anchored s' f h) /\
    (mx s -> xfin s' = xfin s -> mx s') /\
    (forall f h, anchored s f h -> h <= xfin s -> (forall b, In b T -> forall l td0, path g T b l td0 -> In f l \/ bht b < h + margin) -> h <= xfin s').
Proof.
  induction fuel as [|f IH]; intros q s C OO Pend Qi Hf; [lia|].
  cbn [porph_x]. destruct q as [|p q'].
  - exists s. split; [reflexivity|]. split; [exact C|]. split; [exact OO|]. split.
    { intros e He. destruct (in_idx (bpar (fst e)) (xidx s)) eqn:E; [|reflexivity]. destruct (Pend e He E). }
    split; [auto|]. split; [auto|]. split; [reflexivity|]. split; [lia|]. split; [auto|]. split; [auto|]. split; auto.
  - destruct (first_child_x p (xorph s)) as [[c z]|] eqn:FC.
    + apply first_child_x_some in FC as [Hc Hp]. cbn [fst] in Hp.
      destruct (OO _ Hc) as [HcU Nc]. cbn [fst] in HcU, Nc.
      assert (Pi : in_idx p (xidx s) = true) by (apply Qi; left; reflexivity).
      assert (HcT : In c T).
      { apply in_app_or in HcU as [X|X]; [exact X|]. exfalso. apply (Hjunk c X). rewrite Hp.
        apply (idx_in_T (xidx s)); [exact (proj1 C)|exact Pi]. }
      set (s0 := set_orph s (remove_x (bid c) (xorph s))).
      assert (C0 : cidx s0) by exact C.
      destruct (accept_x_core P g T Hg Hnd Hconn Hdiff Hg0 s0 c C0 HcT Nc)
        as (s1 & m & td & A & C1 & I1 & O1 & Od1 & F1 & Fk1 & An1 & Mx1 & Lw1).
      { cbn [xidx s0 set_orph]. rewrite Hp. exact Pi. }
      rewrite A. cbn [xidx xorph xold xfin s0 set_orph] in I1, O1, Od1, F1.
      destruct (IH ((p :: q') ++ [bid c]) s1 C1)
        as (s' & Pr & C' & OO' & Par' & Gr' & Keep' & Od' & F' & Fk' & An' & Mx' & Lw'); cycle -1.
      * exists s'. split; [exact Pr|]. split; [exact C'|]. split; [exact OO'|]. split; [exact Par'|].
        split; [|split; [|split; [|split; [|split; [|split; [|split]]]]]].
        8:{ intros f0 h A0 Le Gd.
            assert (L1 : h <= xfin s1) by (apply (Lw1 f0 h A0 Le); intros l td0; apply Gd; exact HcT).
            apply (Lw' f0 h); [apply An1; [exact A0|exact L1]|exact L1|exact Gd]. }
        -- intros h Hh. apply Gr'. rewrite I1, in_idx_cons, Hh. apply orb_true_r.
        -- intros h Hh. destruct (N.eq_dec h (bid c)) as [E|E].
           ++ right. apply Gr'. rewrite I1, in_idx_cons. cbn [nblk]. rewrite E, N.eqb_refl. reflexivity.
           ++ apply Keep'. rewrite O1. apply in_xorph_true in Hh as (e & He & Eh).
              apply in_xorph_true. exists e. split; [|exact Eh]. apply remove_x_in. split; [exact He|congruence].
        -- congruence.
        -- lia.
        -- intros Fo. apply Fk'. apply Fk1. exact Fo.
        -- intros f0 h A0 Le. apply An'; [|exact Le]. apply An1; [exact A0|lia].
        -- intros M E. apply Mx'; [|lia]. apply Mx1; [exact M|]. cbn [xfin s0 set_orph]. lia.
      * intros e He. rewrite O1 in He. apply remove_x_in in He as [H0 Ne].
        destruct (OO e H0) as [U0 N0]. split; [exact U0|].
        rewrite I1, in_idx_cons. cbn [nblk]. rewrite N0.
        apply orb_false_iff; split; [apply N.eqb_neq; congruence|reflexivity].
      * intros e He E. rewrite O1 in He. apply remove_x_in in He as [H0 Ne].
        rewrite I1, in_idx_cons in E. cbn [nblk] in E. apply orb_true_iff in E as [E|E].
        -- apply N.eqb_eq in E. apply in_or_app; right; left; exact E.
        -- apply in_or_app; left. apply Pend; auto.
      * intros h Hh. rewrite I1, in_idx_cons. apply in_app_or in Hh as [Hh|[<-|[]]].
        -- rewrite (Qi h Hh); apply orb_true_r.
        -- cbn [nblk]; rewrite N.eqb_refl; reflexivity.
      * rewrite O1, app_length. pose proof (remove_x_length (c, z) (xorph s) Hc) as L. cbn [fst] in L.
        cbn [length] in *. lia.
    + destruct (IH q' s C OO) as (s' & Pr & R); try (cbn [length] in Hf; lia).
      * intros e He E. destruct (Pend e He E) as [X|X]; [|exact X].
        exfalso. eapply first_child_x_none; eauto.
      * intros h Hh. apply Qi. right; exact Hh.
      * exists s'. split; [exact Pr|exact R].
Qed.

(** ** the invariant of a history; [held] as tracked by [xstep_acc] *)

Definition held_ok (held : list N) (s : xstate) : Prop :=
  forall h, In h held -> in_idx h (xidx s) = true \/ in_xorph h (xorph s) = true.

Definition inv_x (held : list N) (s : xstate) : Prop :=
  cidx s /\ fin_ok s /\ orph_ok_x s /\ par_ok s /\ held_ok held s.

Lemma inv_x_init : forall fin0, inv_x [] (xinit g fin0).
Proof.
  intros fin0. pose proof (core_init fin0 g T) as (OK & Rt & t & Ht & Pt & _).
  split; [split; [exact OK|split; [exact Rt|exists t; split; assumption]]|].
  split; [exact I|]. split; [intros e []|]. split; [intros e []|intros h []].
Qed.

Lemma mx_init : forall fin0, mx (xinit g fin0).
Proof.
  intros fin0 t n [Ht _] Hn _. cbn [xinit xidx] in Ht, Hn.
  destruct Ht as [<-|[]]. destruct Hn as [<-|[]]. lia.
Qed.

(** the accumulator step for a delivery, spelled out *)
Definition held_after (o : xout) (b : block) (held : list N) : list N :=
  let keep := filter (fun h => negb (memN h (o_lost o))) held in
  if is_held_err (o_err o) then bid b :: keep else keep.

Lemma keep_held_spec : forall lost held,
  keep_held lost held = filter (fun h => negb (memN h lost)) held.
Proof. intros [|x lost] held; [symmetry; apply memN_nil_filter|reflexivity]. Qed.

Lemma xstep_acc_dl : forall s held ok now b,
  xstep_acc P (s, held, ok) (Dl now b) =
  (fst (deliver_x P now s b), held_after (snd (deliver_x P now s b)) b held,
   ok && negb (lowered s (fst (deliver_x P now s b)))).
Proof.
  intros s held ok now b. unfold xstep_acc, xstep_acc_o, held_after. cbn [xstep].
  destruct (deliver_x P now s b) as [s' o]. cbn [fst snd]. rewrite keep_held_spec. reflexivity.
Qed.

Lemma xstep_acc_fz : forall s held ok h f,
  xstep_acc P (s, held, ok) (Fz h f) = (finalize s h f, held, ok).
Proof. reflexivity. Qed.

Lemma deliver_x_inv : forall held now s b,
  inv_x held s -> In b (T ++ J) ->
  forall s' o, deliver_x P now s b = (s', o) ->
  inv_x (held_after o b held) s' /\ xfin s' <= xfin s /\
  (forall f h, anchored s f h -> h <= xfin s' -> anchored s' f h) /\
  (mx s -> xfin s' = xfin s -> mx s') /\
  (forall f h, anchored s f h -> h <= xfin s -> (forall b, In b T -> forall l td0, path g T b l td0 -> In f l \/ bht b < h + margin) -> h <= xfin s') /\
  (in_idx (bpar b) (xidx s) = true ->
     o_lost o = [] /\ is_held_err (o_err o) = true /\ in_idx (bid b) (xidx s') = true) /\
  (forall h, in_idx h (xidx s) = true -> in_idx h (xidx s') = true).
Proof.
  intros held now s b (C & Fo & OO & Par & Hd) HbU s' o. unfold deliver_x, held_after.
  destruct (in_idx (bid b) (xidx s)) eqn:Eb.
  { intros H; injection H as <- <-. cbn [o_lost o_err is_held_err]. rewrite memN_nil_filter.
    split; [|split; [lia|split; [auto|split; [auto|split; [auto|split; [auto|auto]]]]]].
    split; [exact C|]. split; [exact Fo|]. split; [exact OO|]. split; [exact Par|].
    intros h [<-|Hh]; [left; exact Eb|apply Hd; exact Hh]. }
  destruct (in_xorph (bid b) (xorph s)) eqn:Ko.
  { (* a known orphan: its parent is not indexed *)
    apply in_xorph_true in Ko as (e & He & Ee).
    assert (fst e = b) by (apply uid_inj; [apply OO; exact He|exact HbU|exact Ee]).
    pose proof (Par e He) as Pe. rewrite H in Pe. rewrite Pe. cbn [negb andb].
    intros H0; injection H0 as <- <-. cbn [o_lost o_err is_held_err]. rewrite memN_nil_filter.
    split; [|split; [lia|split; [auto|split; [auto|split; [auto|split; [congruence|auto]]]]]].
    split; [exact C|]. split; [exact Fo|]. split; [exact OO|]. split; [exact Par|].
    intros h [<-|Hh]; [right; apply in_xorph_true; exists e; split; [exact He|congruence]|apply Hd; exact Hh]. }
  cbn [andb].
  assert (Nk : forall e, In e (xorph s) -> bid (fst e) <> bid b).
  { intros e He E. assert (X : in_xorph (bid b) (xorph s) = true)
      by (apply in_xorph_true; exists e; auto). congruence. }
  destruct (in_idx (bpar b) (xidx s)) eqn:Ep; cbn [negb].
  - (* parent indexed: accept, then process orphans *)
    assert (HbT : In b T).
    { apply in_app_or in HbU as [X|X]; [exact X|]. exfalso. apply (Hjunk b X).
      apply (idx_in_T (xidx s)); [exact (proj1 C)|exact Ep]. }
    destruct (accept_x_core P g T Hg Hnd Hconn Hdiff Hg0 s b C HbT Eb Ep)
      as (s2 & m & td & A & C2 & I2 & O2 & Od2 & F2 & Fk2 & An2 & Mx2 & Lw2).
    rewrite A.
    destruct (porph_x_ok (porph_fuel_x s2) [bid b] s2 C2)
      as (s3 & Pr & C3 & OO3 & Par3 & Gr & Keep & Od3 & F3 & Fk3 & An3 & Mx3 & Lw3).
    + intros e He. rewrite O2 in He. destruct (OO e He) as [U0 N0]. split; [exact U0|].
      rewrite I2, in_idx_cons. cbn [nblk]. rewrite N0.
      apply orb_false_iff; split; [apply N.eqb_neq; intros E; apply (Nk e He); congruence|reflexivity].
    + intros e He E. rewrite O2 in He. rewrite I2, in_idx_cons, (Par e He) in E.
      cbn [nblk] in E. rewrite orb_false_r in E. apply N.eqb_eq in E. left; exact E.
    + intros h [<-|[]]. rewrite I2, in_idx_cons. cbn [nblk]. rewrite N.eqb_refl. reflexivity.
    + unfold porph_fuel_x. cbn [length]. lia.
    + rewrite Pr. intros H; injection H as <- <-. cbn [o_lost o_err is_held_err]. rewrite memN_nil_filter.
      assert (Ib3 : in_idx (bid b) (xidx s3) = true)
        by (apply Gr; rewrite I2, in_idx_cons; cbn [nblk]; rewrite N.eqb_refl; reflexivity).
      split; [|split; [lia|split; [|split; [|split; [|split]]]]].
      6:{ intros h Hh. apply Gr. rewrite I2, in_idx_cons, Hh. apply orb_true_r. }
      5:{ intros _. auto. }
      4:{ intros f0 h A0 Le Gd.
          assert (L2 : h <= xfin s2) by (apply (Lw2 f0 h A0 Le); intros l td0; apply Gd; exact HbT).
          apply (Lw3 f0 h); [apply An2; [exact A0|exact L2]|exact L2|exact Gd]. }
      * split; [exact C3|]. split; [apply Fk3, Fk2, Fo|]. split; [exact OO3|]. split; [exact Par3|].
        intros h [<-|Hh].
        -- left. apply Gr. rewrite I2, in_idx_cons. cbn [nblk]. rewrite N.eqb_refl. reflexivity.
        -- destruct (Hd h Hh) as [X|X].
           ++ left. apply Gr. rewrite I2, in_idx_cons, X. apply orb_true_r.
           ++ rewrite <- O2 in X. destruct (Keep h X) as [Y|Y]; [right; exact Y|left; exact Y].
      * intros f0 h A0 Le. apply An3; [|exact Le]. apply An2; [exact A0|lia].
      * intros M E. apply Mx3; [|lia]. apply Mx2; [exact M|lia].
  - (* parent unknown: orphan *)
    destruct (add_orphan P now s b) as [s2 lost] eqn:A.
    destruct (add_orphan_shape _ _ _ _ _ _ A) as (o2 & od & -> & Sub & Inb & Kp).
    intros H; injection H as <- <-. cbn [o_lost o_err is_held_err].
    split; [|split; [cbn; lia|split; [intros f0 h A0 _; exact A0|split; [intros M _; exact M|
             split; [intros f0 h _ Le _; exact Le|split; [congruence|auto]]]]]].
    split; [exact C|]. split; [exact Fo|]. split; [|split].
    + intros e He. destruct (Sub e He) as [X| ->]; [apply OO; exact X|]. split; [exact HbU|exact Eb].
    + intros e He. destruct (Sub e He) as [X| ->]; [apply Par; exact X|exact Ep].
    + intros h [<-|Hh].
      * right. apply in_xorph_true. exists (b, now + pttl P). split; [exact Inb|reflexivity].
      * apply filter_In in Hh as [Hh Nl]. apply negb_true_iff in Nl.
        destruct (Hd h Hh) as [X|X]; [left; exact X|right].
        apply Kp; [exact X|]. intros Q. apply memN_In in Q. congruence.
Qed.

Lemma finalize_inv : forall held s h f,
  inv_x held s ->
  inv_x held (finalize s h f) /\ xfin s <= xfin (finalize s h f) /\
  (forall f0 h0, anchored s f0 h0 -> anchored (finalize s h f) f0 h0) /\
  (mx s -> mx (finalize s h f)).
Proof.
  intros held s h f (C & Fo & OO & Par & Hd). unfold finalize.
  destruct (on_main s h f && (xfin s <? h)) eqn:E.
  2:{ split; [exact (conj C (conj Fo (conj OO (conj Par Hd))))|]. split; [lia|]. split; auto. }
  apply andb_true_iff in E as [Om Lt]. apply Z.ltb_lt in Lt.
  unfold on_main in Om. apply andb_true_iff in Om as [Mm Nh]. apply memN_In in Mm.
  split; [|split; [cbn [xfin]; lia|split]].
  - split; [exact C|]. split; [|split; [exact OO|split; [exact Par|exact Hd]]].
    unfold ProofsExt2.fin_ok. cbn [xfh xfin]. split; [exact Mm|]. cbn [xidx].
    destruct (node_height f (xidx s)) as [x|]; [|discriminate]. apply Z.eqb_eq in Nh. congruence.
  - intros f0 h0 A0. exact A0.
  - intros M t n Tn Hn Hm. cbn [xfin xidx] in Hn, Hm. apply (M t n Tn Hn). lia.
Qed.

(** the tracked run *)
Lemma xrun_acc_inv : forall hist,
  (forall now b, In (Dl now b) hist -> In b (T ++ J)) ->
  forall s held ok, inv_x held s -> (ok = true -> mx s) ->
  forall s' held' ok', xrun_acc P (s, held, ok) hist = (s', held', ok') ->
  inv_x held' s' /\ (ok' = true -> mx s').
Proof.
  induction hist as [|e hist IH]; intros HU s held ok I M s' held' ok'.
  { cbn. intros H; injection H as <- <- <-. auto. }
  unfold xrun_acc. cbn [fold_left]. fold (xrun_acc P).
  assert (HU' : forall now b, In (Dl now b) hist -> In b (T ++ J))
    by (intros now b Hb; apply (HU now b); right; exact Hb).
  destruct e as [now b|h f]; [rewrite xstep_acc_dl|rewrite xstep_acc_fz].
  - destruct (deliver_x P now s b) as [s1 o] eqn:D. cbn [fst snd].
    assert (HbU : In b (T ++ J)) by (apply (HU now b); left; reflexivity).
    destruct (deliver_x_inv held now s b I HbU s1 o D) as (I1 & Le & _ & Mx1 & _).
    apply IH; [exact HU'|exact I1|].
    intros Ok. apply andb_true_iff in Ok as [Ok NL]. apply negb_true_iff in NL.
    unfold lowered in NL. apply Z.ltb_ge in NL. apply Mx1; [apply M; exact Ok|lia].
  - destruct (finalize_inv held s h f I) as (I1 & _ & _ & Mx1).
    apply IH; [exact HU'|exact I1|]. intros Ok. apply Mx1, M, Ok.
Qed.

Lemma xrun_acc_state : forall hist s held ok,
  fst (fst (xrun_acc P (s, held, ok) hist)) = xrun_from P s hist.
Proof.
  induction hist as [|e hist IH]; intros s held ok; [reflexivity|].
  unfold xrun_acc, xrun_from. cbn [fold_left]. fold (xrun_acc P). fold (xrun_from P).
  unfold xstep_acc, xstep_acc_o. destruct (xstep P s e) as [s1 o] eqn:X. cbn [fst].
  destruct e; apply IH.
Qed.

Lemma xrun_acc_ok_mono : forall hist s held ok s' held' ok',
  xrun_acc P (s, held, ok) hist = (s', held', ok') -> ok' = true -> ok = true.
Proof.
  induction hist as [|e hist IH]; intros s held ok s' held' ok'.
  { cbn. intros H; injection H as <- <- <-. auto. }
  unfold xrun_acc. cbn [fold_left]. fold (xrun_acc P). unfold xstep_acc, xstep_acc_o.
  destruct (xstep P s e) as [s1 o]. cbn [fst]. destruct e as [now b|h f]; intros R Ok.
  - apply IH in R; [|exact Ok]. apply andb_true_iff in R. tauto.
  - eapply IH; eauto.
Qed.

(** a block that is in the view at a height not above the finalizer's choice
    stays in the view as long as no delivery lowers the choice *)
Lemma anchored_stays : forall hist,
  (forall now b, In (Dl now b) hist -> In b (T ++ J)) ->
  forall s held ok f h, inv_x held s -> anchored s f h -> h <= xfin s ->
  forall s' held' ok', xrun_acc P (s, held, ok) hist = (s', held', ok') -> ok' = true ->
  anchored s' f h /\ h <= xfin s'.
Proof.
  induction hist as [|e hist IH]; intros HU s held ok f h I A Le s' held' ok'.
  { cbn. intros H _; injection H as <- <- <-. auto. }
  unfold xrun_acc. cbn [fold_left]. fold (xrun_acc P).
  assert (HU' : forall now b, In (Dl now b) hist -> In b (T ++ J))
    by (intros now b Hb; apply (HU now b); right; exact Hb).
  destruct e as [now b|h1 f1]; [rewrite xstep_acc_dl|rewrite xstep_acc_fz].
  - destruct (deliver_x P now s b) as [s1 o] eqn:D. cbn [fst snd].
    assert (HbU : In b (T ++ J)) by (apply (HU now b); left; reflexivity).
    destruct (deliver_x_inv held now s b I HbU s1 o D) as (I1 & Le1 & An1 & _).
    intros R Ok.
    assert (NL : lowered s s1 = false).
    { pose proof (xrun_acc_ok_mono hist _ _ _ _ _ _ R Ok) as X.
      apply andb_true_iff in X as [_ X]. apply negb_true_iff in X. exact X. }
    unfold lowered in NL. apply Z.ltb_ge in NL.
    eapply IH; [exact HU'|exact I1|apply An1; [exact A|lia]|lia|exact R|exact Ok].
  - destruct (finalize_inv held s h1 f1 I) as (I1 & Le1 & An1 & _).
    intros R Ok. eapply IH; [exact HU'|exact I1|apply An1; exact A|lia|exact R|exact Ok].
Qed.

End RunX.
