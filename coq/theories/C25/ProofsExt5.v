(** C25 — proofs for the extended model, part 5: boolean forms of the tree
    hypotheses and guards (so that concrete instances are decided by
    computation), and the statements that need them. *)
From Coq Require Import List ZArith NArith Bool Lia.
From C33 Require Import C25.Model C25.Proofs C25.Proofs2 C25.ModelExt C25.ProofsExt C25.ProofsExt2 C25.ProofsExt3 C25.ProofsExt4.
Import ListNotations.
Open Scope Z_scope.

Definition block_eqb (a b : block) : bool :=
  N.eqb (bid a) (bid b) && N.eqb (bpar a) (bpar b) && (bht a =? bht b) && (bdiff a =? bdiff b).

Lemma block_eqb_eq : forall a b, block_eqb a b = true -> a = b.
Proof.
  intros [i1 p1 h1 d1] [i2 p2 h2 d2]. unfold block_eqb. cbn [bid bpar bht bdiff]. intros H.
  repeat (apply andb_true_iff in H as [H ?]).
  apply N.eqb_eq in H. apply N.eqb_eq in H2. apply Z.eqb_eq in H1. apply Z.eqb_eq in H0. congruence.
Qed.

Lemma block_eqb_refl : forall a, block_eqb a a = true.
Proof. intros a. unfold block_eqb. rewrite !N.eqb_refl, !Z.eqb_refl. reflexivity. Qed.

(** ancestor list and total difficulty of [b], following parent hashes inside [T] *)
Fixpoint pathb (fuel : nat) (g : block) (T : list block) (b : block) : option (list N * Z) :=
  match fuel with
  | O => None
  | S f =>
      if block_eqb b g then Some ([bid g], bdiff g)
      else match find (fun p => N.eqb (bid p) (bpar b)) T with
           | Some p =>
               if bht b =? bht p + 1 then
                 match pathb f g T p with
                 | Some (l, td) => Some (bid b :: l, td + bdiff b)
                 | None => None
                 end
               else None
           | None => None
           end
  end.

Lemma pathb_sound : forall fuel g T b l td,
  pathb fuel g T b = Some (l, td) -> In b T -> path g T b l td.
Proof.
  induction fuel as [|f IH]; intros g T b l td; cbn [pathb]; [discriminate|].
  destruct (block_eqb b g) eqn:E.
  { apply block_eqb_eq in E. subst b. intros H _; injection H as <- <-. apply path_root. }
  destruct (find (fun p => N.eqb (bid p) (bpar b)) T) as [p|] eqn:F; [|discriminate].
  apply find_some in F as [Hp Ep]. apply N.eqb_eq in Ep.
  destruct (bht b =? bht p + 1) eqn:Hh; [|discriminate]. apply Z.eqb_eq in Hh.
  destruct (pathb f g T p) as [[l0 td0]|] eqn:R; [|discriminate].
  intros H Hb; injection H as <- <-. eapply path_step; eauto.
Qed.

Fixpoint nodupN (l : list N) : bool :=
  match l with [] => true | x :: tl => negb (memN x tl) && nodupN tl end.

Lemma nodupN_sound : forall l, nodupN l = true -> NoDup l.
Proof.
  induction l as [|x l IH]; cbn [nodupN]; intros H; [constructor|].
  apply andb_true_iff in H as [H1 H2]. constructor; [|apply IH; exact H2].
  intros Q. apply memN_In in Q. rewrite Q in H1. discriminate.
Qed.

Definition connb (g : block) (T : list block) (b : block) : bool :=
  match pathb (length T) g T b with Some _ => true | None => false end.

(** the hypotheses about the tree [T] (root [g]) and the unconnected blocks [J] *)
Definition tree_hyps (g : block) (T J : list block) : Prop :=
  In g T /\ NoDup (map bid (T ++ J)) /\
  (forall b, In b T -> exists l td, path g T b l td) /\
  (forall b, In b T -> 0 <= bdiff b) /\ 0 <= bht g /\
  (forall j, In j J -> ~ In (bpar j) (map bid T)).

Definition tree_ok (g : block) (T J : list block) : bool :=
  existsb (block_eqb g) T && nodupN (map bid (T ++ J)) && forallb (connb g T) T &&
  forallb (fun b => 0 <=? bdiff b) T && (0 <=? bht g) &&
  forallb (fun j => negb (memN (bpar j) (map bid T))) J.

Lemma tree_ok_sound : forall g T J, tree_ok g T J = true -> tree_hyps g T J.
Proof.
  intros g T J H. unfold tree_ok in H. repeat (apply andb_true_iff in H as [H ?]).
  split; [|split; [|split; [|split; [|split]]]].
  - apply existsb_exists in H as (x & Hx & E). apply block_eqb_eq in E. subst x. exact Hx.
  - apply nodupN_sound. assumption.
  - intros b Hb. rewrite forallb_forall in H3. specialize (H3 b Hb). unfold connb in H3.
    destruct (pathb (length T) g T b) as [[l td]|] eqn:R; [|discriminate].
    exists l, td. eapply pathb_sound; eauto.
  - intros b Hb. rewrite forallb_forall in H2. specialize (H2 b Hb). apply Z.leb_le in H2. exact H2.
  - apply Z.leb_le. assumption.
  - intros j Hj Q. rewrite forallb_forall in H0. specialize (H0 j Hj).
    apply memN_In in Q. rewrite Q in H0. discriminate.
Qed.

(** every block off the branches through [f] is below [h + 12] *)
Definition fin_safe (g : block) (T : list block) (f : N) (h : Z) : bool :=
  forallb (fun b => match pathb (length T) g T b with
                    | Some (l, _) => memN f l || (bht b <? h + margin)
                    | None => false
                    end) T.

Lemma fin_safe_sound : forall g T J f h, tree_hyps g T J -> fin_safe g T f h = true ->
  forall b, In b T -> forall l td0, path g T b l td0 -> In f l \/ bht b < h + margin.
Proof.
  intros g T J f h (Hg & HndU & _) H b Hb l td0 Pb.
  unfold fin_safe in H. rewrite forallb_forall in H. specialize (H b Hb).
  destruct (pathb (length T) g T b) as [[l' td']|] eqn:R; [|discriminate].
  pose proof (pathb_sound _ _ _ _ _ _ R Hb) as Pb'.
  destruct (path_fun g T Hg (Hnd T J HndU) _ _ _ Pb _ _ Pb') as [-> _].
  apply orb_true_iff in H as [H|H]; [left; apply memN_In; exact H|right; apply Z.ltb_lt; exact H].
Qed.

(** [H] (total difficulty [tdH]) is strictly the heaviest block on the branches through [fo] *)
Definition throughb (fo : option N) (l : list N) : bool :=
  match fo with Some f => memN f l | None => true end.

Definition heaviest_through (g : block) (T : list block) (fo : option N) (H : block) (tdH : Z) : bool :=
  forallb (fun x => match pathb (length T) g T x with
                    | Some (l, td) => block_eqb x H || negb (throughb fo l) || (td <? tdH)
                    | None => false
                    end) T.

Lemma heaviest_through_sound : forall g T J fo H tdH, tree_hyps g T J ->
  heaviest_through g T fo H tdH = true ->
  forall x l td, path g T x l td -> through fo l -> x <> H -> td < tdH.
Proof.
  intros g T J fo H tdH (Hg & HndU & _) Hv x l td Px Th Ne.
  unfold heaviest_through in Hv. rewrite forallb_forall in Hv.
  specialize (Hv x (path_in g T Hg _ _ _ Px)).
  destruct (pathb (length T) g T x) as [[l' td']|] eqn:R; [|discriminate].
  pose proof (pathb_sound _ _ _ _ _ _ R (path_in g T Hg _ _ _ Px)) as Px'.
  destruct (path_fun g T Hg (Hnd T J HndU) _ _ _ Px _ _ Px') as [-> ->].
  apply orb_true_iff in Hv as [Hv|Hv]; [|apply Z.ltb_lt; exact Hv].
  apply orb_true_iff in Hv as [Hv|Hv]; [apply block_eqb_eq in Hv; contradiction|].
  exfalso. apply negb_true_iff in Hv. unfold through, throughb in *. destruct fo as [f|]; [|discriminate].
  apply memN_In in Th. congruence.
Qed.

Definition in_universeb (T J : list block) (hist : list xev) : bool :=
  forallb (fun e => match e with
                    | Dl _ b => existsb (block_eqb b) (T ++ J)
                    | Fz _ _ => true
                    end) hist.

Lemma in_universeb_sound : forall T J hist, in_universeb T J hist = true -> in_universe T J hist.
Proof.
  intros T J hist H now b Hb. unfold in_universeb in H. rewrite forallb_forall in H.
  specialize (H _ Hb). cbn in H. apply existsb_exists in H as (x & Hx & E).
  apply block_eqb_eq in E. subst x. exact Hx.
Qed.

(** ** the finalized block with the boolean guard *)
Lemma finalized_stays_partial : forall P g T J fin0 pre suf f,
  tree_hyps g T J -> in_universe T J pre -> in_universe T J suf ->
  let s1 := xrun P g fin0 pre in
  xfh s1 = Some f ->
  fin_safe g T f (xfin s1) = true ->
  In f (xmain (xrun P g fin0 (pre ++ suf))).
Proof.
  intros P g T J fin0 pre suf f TH HU1 HU2 s1 E Fs.
  pose proof TH as (Hg & HndU & Hconn & Hdiff & Hg0 & Hjunk).
  apply (finalized_stays_low P g T J Hg HndU Hconn Hdiff Hg0 Hjunk fin0 pre suf f HU1 HU2 E).
  apply (fin_safe_sound g T J f _ TH Fs).
Qed.

(** ** the full claims that the code does not meet *)

(** the finalized block stays on the best chain for every later history *)
Definition finalized_stays_full : Prop :=
  forall P g T J fin0 pre suf f,
  tree_hyps g T J -> in_universe T J pre -> in_universe T J suf ->
  xfh (xrun P g fin0 pre) = Some f ->
  In f (xmain (xrun P g fin0 (pre ++ suf))).

(** convergence whenever every block was delivered at least once (no matter
    what the pool dropped) *)
Definition converges_unkept_full : Prop :=
  forall P g T J fin0 hist H lH tdH,
  tree_hyps g T J -> in_universe T J hist ->
  (forall b, In b T -> b = g \/ In b (blocks_of hist)) ->
  steady P g fin0 hist = true ->
  let s := xrun P g fin0 hist in
  path g T H lH tdH -> through (xfh s) lH ->
  (forall x l td, path g T x l td -> through (xfh s) l -> x <> H -> td < tdH) ->
  xfin s + margin <= bht H ->
  xtip s = bid H.

Definition noP (cap ttl : Z) : params := mkP cap ttl false (fun _ _ => false).

(** *** witness 1: a finalized block is reorganised away.  Root 0, trunk 1-2-3
    (heights 1..3), block 2 finalized; a branch 4..16 off block 1 reaches height
    14 = 2 + 12 with more work: connectBestChain resets the choice to block 1
    and reorganises. *)
Fixpoint chainb (n : nat) (id par : N) (h d : Z) : list block :=
  match n with
  | O => []
  | S k => mkB id par h d :: chainb k (id + 1)%N id (h + 1) d
  end.

Definition w1_g := mkB 0 999 0 5.
Definition w1_T := w1_g :: mkB 1 0 1 5 :: mkB 2 1 2 5 :: mkB 3 2 3 5 :: mkB 4 1 2 5 :: chainb 12 5 4 3 5.
Definition w1_pre := map (Dl 0) [mkB 1 0 1 5; mkB 2 1 2 5; mkB 3 2 3 5] ++ [Fz 2 2%N].
Definition w1_suf := map (Dl 0) (mkB 4 1 2 5 :: chainb 12 5 4 3 5).

Lemma finalized_stays_refuted : ~ finalized_stays_full.
Proof.
  intros F.
  specialize (F (noP 10240 600) w1_g w1_T [] 0 w1_pre w1_suf 2%N).
  assert (TH : tree_hyps w1_g w1_T []) by (apply tree_ok_sound; vm_compute; reflexivity).
  assert (U1 : in_universe w1_T [] w1_pre) by (apply in_universeb_sound; vm_compute; reflexivity).
  assert (U2 : in_universe w1_T [] w1_suf) by (apply in_universeb_sound; vm_compute; reflexivity).
  assert (E : xfh (xrun (noP 10240 600) w1_g 0 w1_pre) = Some 2%N) by (vm_compute; reflexivity).
  specialize (F TH U1 U2 E).
  assert (M : xmain (xrun (noP 10240 600) w1_g 0 (w1_pre ++ w1_suf))
              = [16; 15; 14; 13; 12; 11; 10; 9; 8; 7; 6; 5; 4; 1; 0]%N) by (vm_compute; reflexivity).
  rewrite M in F. cbn in F. repeat (destruct F as [F|F]; [discriminate F|]). exact F.
Qed.

(** what the code does instead: the choice moves down to the fork point *)
Lemma finalized_reset_example :
  let s := xrun (noP 10240 600) w1_g 0 (w1_pre ++ w1_suf) in
  xfin s = 1 /\ xfh s = Some 1%N /\ xtip s = 16%N /\
  steady (noP 10240 600) w1_g 0 (w1_pre ++ w1_suf) = false.
Proof. vm_compute. repeat split; reflexivity. Qed.

(** the guard of [finalized_stays_partial] on a non-trivial instance: the same
    tree with the competing branch one block shorter (height 13 < 2 + 12): the
    finalized block 2 stays although the branch is heavier *)
Definition w1_T' := w1_g :: mkB 1 0 1 5 :: mkB 2 1 2 5 :: mkB 3 2 3 5 :: mkB 4 1 2 5 :: chainb 11 5 4 3 5.
Definition w1_suf' := map (Dl 0) (mkB 4 1 2 5 :: chainb 11 5 4 3 5).

Lemma finalized_stays_example :
  tree_ok w1_g w1_T' [] = true /\
  xfh (xrun (noP 10240 600) w1_g 0 w1_pre) = Some 2%N /\
  fin_safe w1_g w1_T' 2%N (xfin (xrun (noP 10240 600) w1_g 0 w1_pre)) = true /\
  xmain (xrun (noP 10240 600) w1_g 0 (w1_pre ++ w1_suf')) = [3; 2; 1; 0]%N.
Proof. vm_compute. repeat split; reflexivity. Qed.

(** *** witness 2: an evicted ancestor.  Root 0 at height 20, chain 1-2-3; pool
    limit 2.  3 and 2 arrive first (orphans), then an unconnected block 7: the
    pool is full, the oldest orphan (3) is dropped.  1 connects 2; 3 is gone:
    the tip stays at 2 although every block was delivered. *)
Definition w2_g := mkB 0 999 20 5.
Definition w2_T := [w2_g; mkB 1 0 21 5; mkB 2 1 22 5; mkB 3 2 23 5].
Definition w2_J := [mkB 7 555 30 1].
Definition w2_hist := [Dl 0 (mkB 3 2 23 5); Dl 1 (mkB 2 1 22 5); Dl 2 (mkB 7 555 30 1); Dl 3 (mkB 1 0 21 5)].

Lemma converges_unkept_refuted : ~ converges_unkept_full.
Proof.
  intros F.
  specialize (F (noP 2 600) w2_g w2_T w2_J 0 w2_hist (mkB 3 2 23 5) [3; 2; 1; 0]%N 20).
  assert (TH : tree_hyps w2_g w2_T w2_J) by (apply tree_ok_sound; vm_compute; reflexivity).
  assert (U : in_universe w2_T w2_J w2_hist) by (apply in_universeb_sound; vm_compute; reflexivity).
  assert (Cov : forall b, In b w2_T -> b = w2_g \/ In b (blocks_of w2_hist)).
  { intros b Hb. cbn in Hb. cbn. intuition (subst; auto). }
  assert (St : steady (noP 2 600) w2_g 0 w2_hist = true) by (vm_compute; reflexivity).
  assert (PH : path w2_g w2_T (mkB 3 2 23 5) [3; 2; 1; 0]%N 20).
  { apply (pathb_sound 4); [vm_compute; reflexivity|cbn; tauto]. }
  assert (E : xfh (xrun (noP 2 600) w2_g 0 w2_hist) = None) by (vm_compute; reflexivity).
  specialize (F TH U Cov St PH). cbv zeta in F. rewrite E in F.
  assert (X : xtip (xrun (noP 2 600) w2_g 0 w2_hist) = 2%N) by (vm_compute; reflexivity).
  rewrite X in F. cbn [bid] in F.
  assert (Q : 2%N = 3%N); [|discriminate Q].
  apply F; [exact I| |vm_compute; discriminate].
  apply (heaviest_through_sound w2_g w2_T w2_J None _ _ TH). vm_compute. reflexivity.
Qed.

(** the same history: what was dropped, and convergence once 3 is delivered again *)
Lemma evicted_ancestor_example :
  let P := noP 2 600 in
  map o_lost (xouts P (xinit w2_g 0) w2_hist) = [[]; []; [3%N]; []] /\
  kept_all P w2_g 0 w2_T w2_hist = false /\
  xtip (xrun P w2_g 0 w2_hist) = 2%N /\
  let again := w2_hist ++ [Dl 4 (mkB 3 2 23 5)] in
  kept_all P w2_g 0 w2_T again = true /\ steady P w2_g 0 again = true /\
  xmain (xrun P w2_g 0 again) = [3; 2; 1; 0]%N.
Proof. vm_compute. repeat split; reflexivity. Qed.

(** expiry instead of overflow: 3 waits 601 time units for its parent *)
Lemma expired_ancestor_example :
  let P := noP 10240 600 in
  let hist := [Dl 0 (mkB 3 2 23 5); Dl 601 (mkB 2 1 22 5); Dl 602 (mkB 1 0 21 5)] in
  map o_lost (xouts P (xinit w2_g 0) hist) = [[]; [3%N]; []] /\
  xtip (xrun P w2_g 0 hist) = 2%N /\
  xmain (xrun P w2_g 0 (hist ++ [Dl 603 (mkB 3 2 23 5)])) = [3; 2; 1; 0]%N.
Proof. vm_compute. repeat split; reflexivity. Qed.

(** the guards of [ext_converges] on a history that does drop blocks (two
    unconnected ones, one by overflow and one by age), re-delivers a dropped
    tree block, and moves the finalizer *)
Definition w3_g := mkB 0 999 20 5.
Definition w3_T := [w3_g; mkB 1 0 21 5; mkB 2 1 22 5; mkB 3 0 21 5; mkB 4 3 22 5; mkB 5 4 23 5].
Definition w3_J := [mkB 7 555 30 1; mkB 8 556 30 1].
Definition w3_hist :=
  [Dl 0 (mkB 7 555 30 1); Dl 1 (mkB 5 4 23 5); Dl 2 (mkB 8 556 30 1); Dl 3 (mkB 2 1 22 5);
   Dl 4 (mkB 1 0 21 5); Fz 21 1%N; Dl 700 (mkB 4 3 22 5); Dl 701 (mkB 5 4 23 5); Dl 702 (mkB 3 0 21 5)].

Lemma ext_converges_example :
  let P := noP 2 600 in
  tree_ok w3_g w3_T w3_J = true /\ in_universeb w3_T w3_J w3_hist = true /\
  map o_lost (xouts P (xinit w3_g 0) w3_hist) = [[]; []; [7%N]; [5%N]; []; []; [8%N]; []; []] /\
  kept_all P w3_g 0 w3_T w3_hist = true /\ steady P w3_g 0 w3_hist = true /\
  let s := xrun P w3_g 0 w3_hist in
  xfin s = 21 /\ xfh s = Some 1%N /\
  heaviest_through w3_g w3_T (xfh s) (mkB 2 1 22 5) 15 = true /\
  xmain s = [2; 1; 0]%N.
Proof. vm_compute. repeat split; reflexivity. Qed.

(** conservativity's guard on a non-trivial history (orphans, a cascade, a
    reorganisation, a duplicate) *)
Lemma conservative_example :
  let g := mkB 0 99 20 5 in
  let order := [mkB 5 4 23 5; mkB 2 1 22 5; mkB 4 3 22 5; mkB 1 0 21 5; mkB 5 4 23 5; mkB 3 0 21 5] in
  plain (noP 10240 600) (xinit g 0) (map (Dl 7) order) = true /\
  xmain (xrun (noP 10240 600) g 0 (map (Dl 7) order)) = [5; 4; 3; 0]%N.
Proof. vm_compute. split; reflexivity. Qed.

(** the remembered oldest orphan can be stale (it was accepted meanwhile): the
    overflow removal then removes nothing and the pool grows beyond the limit *)
Lemma stale_pointer_example :
  let P := noP 2 600 in
  let hist := [Dl 0 (mkB 2 1 22 5); Dl 1 (mkB 7 555 30 1); Dl 2 (mkB 1 0 21 5);
               Dl 3 (mkB 8 556 30 1); Dl 4 (mkB 9 557 30 1)] in
  map o_lost (xouts P (xinit w2_g 0) hist) = [[]; []; []; []; []] /\
  length (xorph (xrun P w2_g 0 hist)) = 3%nat.
Proof. vm_compute. split; reflexivity. Qed.

(** best-block comparison: with equal total difficulty and height the consensus
    module's answer moves the tip to the sibling (above the margin only) *)
Lemma best_block_cmp_example :
  let g := mkB 0 99 20 5 in
  let hist := [Dl 0 (mkB 1 0 21 5); Dl 0 (mkB 2 0 21 5)] in
  xtip (xrun (mkP 10240 600 true (fun n t => N.eqb n 2)) g 0 hist) = 2%N /\
  xtip (xrun (mkP 10240 600 false (fun n t => N.eqb n 2)) g 0 hist) = 1%N /\
  xtip (xrun (mkP 10240 600 true (fun n t => N.eqb n 2)) g 10 hist) = 1%N.
Proof. vm_compute. repeat split; reflexivity. Qed.

(** every hypothesis of [ext_converges] at once: root 0, trunk 1..14 (heights
    1..14), block 2 finalized after its delivery; a much heavier branch 20-21-22
    off block 1 stays a side chain (below 2 + 12).  Pool limit 2: unconnected
    block 97 and trunk block 4 are dropped by overflow, 4 is delivered again.
    Block 14 is the heaviest on the branches through the finalized block 2 (not
    over all blocks) and at height 14 >= 2 + 12: the best chain is the trunk. *)
Definition w4_g := mkB 0 999 0 5.
Definition w4_trunk := chainb 14 1 0 1 5.
Definition w4_heavy := [mkB 20 1 2 100; mkB 21 20 3 100; mkB 22 21 4 100].
Definition w4_T := w4_g :: w4_trunk ++ w4_heavy.
Definition w4_J := [mkB 97 555 30 1; mkB 98 556 30 1].
Definition w4_b (i : nat) := nth i w4_trunk w4_g.
Definition w4_hist :=
  [Dl 0 (w4_b 0); Dl 1 (w4_b 1); Fz 2 2%N] ++ map (Dl 2) w4_heavy ++
  [Dl 3 (mkB 97 555 30 1); Dl 4 (w4_b 3); Dl 5 (mkB 98 556 30 1); Dl 6 (w4_b 4); Dl 7 (w4_b 2); Dl 8 (w4_b 3)]
  ++ map (Dl 9) (skipn 5 w4_trunk).

Lemma ext_converges_guards_example :
  let P := noP 2 600 in
  tree_ok w4_g w4_T w4_J = true /\ in_universeb w4_T w4_J w4_hist = true /\
  map o_lost (xouts P (xinit w4_g 0) w4_hist) =
    [[]; []; []; []; []; []; []; []; [97%N]; [4%N]; []; []; []; []; []; []; []; []; []; []; []] /\
  kept_all P w4_g 0 w4_T w4_hist = true /\ steady P w4_g 0 w4_hist = true /\
  let s := xrun P w4_g 0 w4_hist in
  xfin s = 2 /\ xfh s = Some 2%N /\
  pathb 20 w4_g w4_T (w4_b 13) = Some ([14; 13; 12; 11; 10; 9; 8; 7; 6; 5; 4; 3; 2; 1; 0]%N, 75) /\
  heaviest_through w4_g w4_T (xfh s) (w4_b 13) 75 = true /\
  heaviest_through w4_g w4_T None (w4_b 13) 75 = false /\
  xfin s + margin <=? bht (w4_b 13) = true /\
  xmain s = [14; 13; 12; 11; 10; 9; 8; 7; 6; 5; 4; 3; 2; 1; 0]%N /\ xtip_td s = 75.
Proof. vm_compute. repeat split; reflexivity. Qed.
