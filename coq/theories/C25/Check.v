(** C25 — correspondence cases: a delivery order with what the Go node returned. *)
From Coq Require Import List ZArith NArith Bool.
From C33 Require Import Lib.Harness C25.Spec.
From C33 Require Export C25.Model.   (* case files use [mkB] *)
Import ListNotations.
Open Scope Z_scope.

(** per delivery: ProcessBlock's (isMainChain, isOrphan, error class) and, read
    back afterwards, the tip hash and the total difficulty stored for it *)
Definition stepobs : Type := (bool * bool * N * N * Z)%type.

Inductive case :=
| CRun (fin : Z) (T : list block)            (* the tree, root first; hashes numbered *)
       (order : list N)                      (* delivered hashes, in order (duplicates allowed) *)
       (obs : list stepobs)
       (fmain : list N)                      (* hash at every height 0..tip after the run *)
       (txok : bool).                        (* GetTx finds a delivered block's transaction iff the block is on the best chain *)

Definition errc_code (e : errc) : N :=
  match e with ENone => 0 | EExist => 1 | EParent => 2 | EHeight => 3 | ETd => 4 | EFuel => 5 end%N.

Definition find_block (h : N) (T : list block) : option block :=
  find (fun b => N.eqb (bid b) h) T.

(** fold the model over the order, comparing every observable *)
Fixpoint agree (fin : Z) (T : list block) (s : state) (order : list N) (obs : list stepobs) : option state :=
  match order, obs with
  | [], [] => Some s
  | h :: order', (im, io, ec, tp, ttd) :: obs' =>
      match find_block h T with
      | None => None
      | Some b =>
          let '(s', (mm, mo, me)) := deliver fin s b in
          if Bool.eqb mm im && Bool.eqb mo io && N.eqb (errc_code me) ec
             && N.eqb (tip s') tp && (tip_td s' =? ttd)
          then agree fin T s' order' obs' else None
      end
  | _, _ => None
  end.

Definition model_ok (fin : Z) (T : list block) (order : list N) (obs : list stepobs) (fmain : list N) : option state :=
  match T with
  | [] => None
  | g :: _ =>
      match agree fin T (init g) order obs with
      | Some s => if list_eqb N.eqb (rev (main s)) fmain then Some s else None
      | None => None
      end
  end.

Definition check_case (c : case) : verdict :=
  match c with
  | CRun fin T order obs fmain txok =>
      let m := match model_ok fin T order obs fmain with Some _ => true | None => false end in
      let g := match T with g :: _ => [bid g] | [] => [] end in
      mk_verdict m (spec_ok fin T (g ++ order) (rev fmain) && txok)
  end.
