(** C25 — correspondence cases: a delivery order with what the Go node returned. *)
From Coq Require Import List ZArith NArith Bool.
From C33 Require Import Lib.Harness C25.Spec C25.SpecExt.
From C33 Require Export C25.ModelExt.
From C33 Require Export C25.Model.   (* case files use [mkB] *)
Import ListNotations.
Open Scope Z_scope.

(** per delivery: ProcessBlock's (isMainChain, isOrphan, error class) and, read
    back afterwards, the tip hash and the total difficulty stored for it *)
Definition stepobs : Type := (bool * bool * N * N * Z)%type.

(** events of an extended run.  Unconnected blocks have hashes >= [junk_base]
    and are never part of [T]: block [j] is [mkB j (j + 1000000) 9000 1]. *)
Inductive cev :=
| CD (now : Z) (id : N)                      (* ProcessBlock of block [id] at receive time [now] *)
| CF (h : Z) (id : N)                        (* EventSnowmanAcceptBlk: height, hash *)
| CJ (now : Z) (id0 : N) (n : N).            (* ProcessBlock of n unconnected blocks id0, id0+1, ..; every one came back (false, true, nil) *)

(** per event: ProcessBlock's (isMainChain, isOrphan, error class) (false, false,
    0 for CF; false, true, 0 for CJ) and, read back afterwards: tip hash, its
    stored total difficulty, the finalizer's height and hash *)
Definition xobs : Type := (bool * bool * N * N * Z * Z * N)%type.

Inductive case :=
| CRun (fin : Z) (T : list block)            (* the tree, root first; hashes numbered *)
       (order : list N)                      (* delivered hashes, in order (duplicates allowed) *)
       (obs : list stepobs)
       (fmain : list N)                      (* hash at every height 0..tip after the run *)
       (txok : bool)                         (* GetTx finds a delivered block's transaction iff the block is on the best chain *)
(** runs against the orphan-pool limits and a moving finalizer (ModelExt.v) *)
| CExt (cap ttl : Z) (ebc : bool)            (* maxOrphanBlocks, orphan expiry in time units, EnableBestBlockCmp *)
       (cmps : list (N * N))                 (* (new block, tip) pairs for which the consensus module prefers the new block *)
       (T : list block)
       (evs : list cev)
       (obs : list xobs)                     (* one per event *)
       (fmain : list N)
       (pool : list (N * N))                 (* hash ranges (first, last) that IsKnownOrphan reports at the end, ascending *)
       (txok : bool).

Definition errc_code (e : errc) : N :=
  match e with ENone => 0 | EExist => 1 | EParent => 2 | EHeight => 3 | ETd => 4 | EFuel => 5 end%N.

Definition find_block (h : N) (T : list block) : option block :=
  find (fun b => N.eqb (bid b) h) T.

(** fold the model over the order, comparing every observable *)
Fixpoint agree (fin : Z) (T : list block) (s : state) (order : list N) (obs : list stepobs) : option state :=
  match order, obs with
  | [], [] => Some s
  | h :: order', (im, io, ec, tp, ttd) :: obs' =>
      match find_block h T with
      | None => None
      | Some b =>
          let '(s', (mm, mo, me)) := deliver fin s b in
          if Bool.eqb mm im && Bool.eqb mo io && N.eqb (errc_code me) ec
             && N.eqb (tip s') tp && (tip_td s' =? ttd)
          then agree fin T s' order' obs' else None
      end
  | _, _ => None
  end.

Definition model_ok (fin : Z) (T : list block) (order : list N) (obs : list stepobs) (fmain : list N) : option state :=
  match T with
  | [] => None
  | g :: _ =>
      match agree fin T (init g) order obs with
      | Some s => if list_eqb N.eqb (rev (main s)) fmain then Some s else None
      | None => None
      end
  end.

(** * extended runs *)

Definition junk_base : N := 100000.
Definition junk_block (id : N) : block := mkB id (id + 1000000) 9000 1.
Definition ev_block (T : list block) (id : N) : option block :=
  if (junk_base <=? id)%N then Some (junk_block id) else find_block id T.

Definition fin_id (s : xstate) : N := match xfh s with Some f => f | None => nilid end.

(** what is read back after an event *)
Definition readback_ok (s : xstate) (o : xobs) : bool :=
  match o with
  | (_, _, _, tp, ttd, fh, fid) =>
      N.eqb (xtip s) tp && (xtip_td s =? ttd) && (xfin s =? fh) && N.eqb (fin_id s) fid
  end.

Definition result_ok (mo : xout) (o : xobs) : bool :=
  match o with
  | (im, io, ec, _, _, _, _) =>
      Bool.eqb (o_main mo) im && Bool.eqb (o_orph mo) io && N.eqb (errc_code (o_err mo)) ec
  end.

(** n unconnected blocks in a row: each must come back as an orphan without
    error (the flag says whether the model agrees) *)
Fixpoint junk_run (P : params) (n : nat) (now : Z) (id : N) (a : acc) (ok : bool) : acc * bool :=
  match n with
  | O => (a, ok)
  | S k =>
      match xstep_acc_o P a (Dl now (junk_block id)) with
      | (a', mo) =>
          junk_run P k now (id + 1)%N a'
                   (ok && negb (o_main mo) && o_orph mo && errc_eqb (o_err mo) ENone)
      end
  end.

Definition acc_state (a : acc) : xstate := fst (fst a).

(** fold the extended model (with the tracked guards) over the events; the
    flag: every result and read-back so far agreed.  The fold goes on after a
    disagreement, so that the theorems' guard for the inputs is known in any
    case.  [None]: the case is malformed (lengths, an unknown block). *)
Fixpoint agree_x (P : params) (T : list block) (a : acc) (ok : bool) (evs : list cev) (obs : list xobs)
  : option (acc * bool) :=
  match evs, obs with
  | [], [] => Some (a, ok)
  | e :: evs', o :: obs' =>
      let next :=
        match e with
        | CD now id =>
            match ev_block T id with
            | Some b => match xstep_acc_o P a (Dl now b) with
                        | (a', mo) => Some (a', result_ok mo o)
                        end
            | None => None
            end
        | CF h id =>
            match xstep_acc_o P a (Fz h id) with (a', mo) => Some (a', result_ok mo o) end
        | CJ now id0 n =>
            if (junk_base <=? id0)%N
            then Some (junk_run P (N.to_nat n) now id0 a (result_ok (mkO false true ENone []) o))
            else None
        end in
      match next with
      | Some (a', k) => agree_x P T a' (ok && k && readback_ok (acc_state a') o) evs' obs'
      | None => None
      end
  | _, _ => None
  end.

Definition range_size (r : N * N) : Z := Z.of_N (snd r) - Z.of_N (fst r) + 1.
Definition in_ranges (h : N) (rs : list (N * N)) : bool :=
  existsb (fun r => (fst r <=? h)%N && (h <=? snd r)%N) rs.

(** the pool at the end: the model's pooled hashes are exactly the reported ranges *)
Definition pool_ok (s : xstate) (pool : list (N * N)) : bool :=
  forallb (fun r => (fst r <=? snd r)%N) pool &&
  (Z.of_nat (length (xorph s)) =? fold_left (fun n r => n + range_size r) pool 0) &&
  forallb (fun e => in_ranges (bid (fst e)) pool) (xorph s).

Definition params_of (cap ttl : Z) (ebc : bool) (cmps : list (N * N)) : params :=
  mkP cap ttl ebc (fun n t => existsb (fun p => N.eqb (fst p) n && N.eqb (snd p) t) cmps).

(** the tracked run over the events and whether the node agreed with it throughout *)
Definition model_ok_x (P : params) (T : list block) (evs : list cev) (obs : list xobs)
                      (fmain : list N) (pool : list (N * N)) : option (acc * bool) :=
  match T with
  | [] => None
  | g :: _ =>
      match agree_x P T (xinit g 0, [], true) true evs obs with
      | Some (a, ok) =>
          Some (a, ok && list_eqb N.eqb (rev (xmain (acc_state a))) fmain && pool_ok (acc_state a) pool)
      | None => None
      end
  end.

Definition tree_ids (evs : list cev) : list N :=
  flat_map (fun e => match e with
                     | CD _ id => if (junk_base <=? id)%N then [] else [id]
                     | _ => []
                     end) evs.

Definition is_delivery (e : cev) : bool := match e with CF _ _ => false | _ => true end.

Definition pobs_of (o : xobs) : pobs :=
  match o with (_, _, _, tp, _, fh, fid) => (tp, fh, fid) end.

(** the known finding's signature at the first event after which a formerly
    chosen block is off the best chain *)
Definition reset_at (T : list block) (g : N) (k : N) (evs : list cev) (obs : list xobs) : bool :=
  let i := N.to_nat k in
  let prev := match i with O => (g, 0, nilid) | S j => pobs_of (nth j obs (false, false, 0%N, g, 0, 0, nilid)) end in
  match nth_error evs i, nth_error obs i with
  | Some e, Some o => reset_signature T (is_delivery e) prev (pobs_of o)
  | _, _ => false
  end.

Definition check_case (c : case) : verdict :=
  match c with
  | CRun fin T order obs fmain txok =>
      let m := match model_ok fin T order obs fmain with Some _ => true | None => false end in
      let g := match T with g :: _ => [bid g] | [] => [] end in
      mk_verdict m (spec_ok fin T (g ++ order) (rev fmain) && txok)
  | CExt cap ttl ebc cmps T evs obs fmain pool txok =>
      let P := params_of cap ttl ebc cmps in
      let ma := model_ok_x P T evs obs fmain pool in
      let m := match ma with Some (_, ok) => ok | None => false end in
      let gid := match T with g :: _ => bid g | [] => 0%N end in
      let R := connected T (gid :: tree_ids evs) in
      let Tc := map (fun e => fst (fst e)) R in
      (* the theorem's guard, for the connected delivered blocks, from the inputs *)
      let guard := match ma with
                   | Some ((_, held, ok), _) =>
                       ok && forallb (fun b => N.eqb (bid b) gid || memN (bid b) held) Tc
                   | None => false
                   end in
      let po := map pobs_of obs in
      let '(fh, fid) := match rev po with (_, fh, fid) :: _ => (fh, fid) | [] => (0, nilid) end in
      let s_linked := linked R (rev fmain) in
      let s_chain := all_on_chain T po in
      let s_conv := converges_x guard fh fid R (rev fmain) in
      let left := first_left T [] 0%N po in
      let s_stays := match left with None => true | Some _ => false end in
      let others := s_linked && s_chain && s_conv && txok in
      let kf := match left with
                | Some k => if others && reset_at T gid k evs obs then 1%N else 0%N
                | None => 0%N
                end in
      (m, others && s_stays, kf)
  end.
