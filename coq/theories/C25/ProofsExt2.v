(** C25 — proofs for the extended model, part 2: the invariant of one
    acceptance (index, best chain view, finalizer choice, heaviest-so-far). *)
From Coq Require Import List ZArith NArith Bool Lia.
From C33 Require Import C25.Model C25.Proofs C25.ModelExt C25.ProofsExt.
Import ListNotations.
Open Scope Z_scope.

Lemma branch_fork_in : forall fuel ix mn h p fk,
  branch fuel ix mn h = Some (p, fk) -> memN fk mn = true.
Proof.
  induction fuel as [|f IH]; intros ix mn h p fk; cbn [branch]; [discriminate|].
  destruct (memN h mn) eqn:M.
  { intros H; injection H as <- <-. exact M. }
  destruct (find_node h ix) as [n|]; [|discriminate].
  destruct (branch f ix mn (bpar (nblk n))) as [[p' fk']|] eqn:B; [|discriminate].
  intros H; injection H as <- <-. eapply IH; exact B.
Qed.

Lemma drop_until_self : forall fk l, In fk l -> In fk (drop_until fk l).
Proof.
  induction l as [|a l IHl]; intros [].
  - subst a. cbn [drop_until]. rewrite N.eqb_refl. left; reflexivity.
  - cbn [drop_until]. destruct (N.eqb a fk) eqn:Ea; [apply N.eqb_eq in Ea; left; exact Ea|auto].
Qed.

Lemma drop_until_incl : forall fk l h, In h (drop_until fk l) -> In h l.
Proof.
  induction l as [|a l IHl]; intros h; cbn [drop_until]; [auto|].
  destruct (N.eqb a fk); [auto|]. intros H. right. apply IHl. exact H.
Qed.

Lemma branch_disjoint : forall fuel ix mn h p fk,
  branch fuel ix mn h = Some (p, fk) -> forall x, In x p -> memN x mn = false.
Proof.
  induction fuel as [|f IH]; intros ix mn h p fk; cbn [branch]; [discriminate|].
  destruct (memN h mn) eqn:M.
  { intros H; injection H as <- <-. intros x []. }
  destruct (find_node h ix) as [n|]; [|discriminate].
  destruct (branch f ix mn (bpar (nblk n))) as [[p' fk']|] eqn:B; [|discriminate].
  intros H; injection H as <- <-. intros x [<-|Hx]; [exact M|]. eapply IH; eauto.
Qed.

Section TreeX.
Variables (g : block) (T : list block).
Hypothesis Hg : In g T.
Hypothesis Hnd : NoDup (map bid T).

(** members of a path list are connected blocks, none higher than its owner *)
Lemma path_mem : forall t lt td, path g T t lt td ->
  forall h, In h lt -> exists x lx tdx, path g T x lx tdx /\ bid x = h /\ bht x <= bht t.
Proof.
  intros t lt td Pt. induction Pt as [|b p l td Hb Pp IH Hpar Hht]; intros h Hin.
  - destruct Hin as [<-|[]]. exists g, [bid g], (bdiff g). split; [apply path_root|]. split; [reflexivity|lia].
  - destruct Hin as [<-|Hin].
    + exists b, (bid b :: l), (td + bdiff b). split; [eapply path_step; eauto|]. split; [reflexivity|lia].
    + destruct (IH h Hin) as (x & lx & tdx & Px & Ex & Lx). exists x, lx, tdx. repeat split; auto. lia.
Qed.

(** on one path list, the lower block is on the path list of the higher one *)
Lemma path_lower_in : forall t lt td, path g T t lt td ->
  forall x lx tdx y ly tdy, path g T x lx tdx -> path g T y ly tdy ->
  In (bid x) lt -> In (bid y) lt -> bht x <= bht y -> In (bid x) ly.
Proof.
  intros t lt td Pt. induction Pt as [|b p l td Hb Pp IH Hpar Hht];
    intros x lx tdx y ly tdy Px Py Hx Hy Le.
  - destruct Hy as [Ey|[]].
    assert (y = g) by (apply (id_inj T Hnd); [eapply (path_in g T Hg); eauto|exact Hg|congruence]).
    subst y. destruct (path_fun g T Hg Hnd _ _ _ Py _ _ (path_root g T)) as [E _].
    destruct Hx as [Ex|[]]. rewrite <- E. left. exact Ex.
  - pose proof (path_step g T b p l td Hb Pp Hpar Hht) as Pb.
    destruct (N.eq_dec (bid b) (bid y)) as [Ey|Ny].
    + assert (y = b) by (apply (id_inj T Hnd); [eapply (path_in g T Hg); eauto|exact Hb|congruence]).
      subst y. destruct (path_fun g T Hg Hnd _ _ _ Py _ _ Pb) as [E _].
      rewrite <- E. exact Hx.
    + destruct Hy as [Hy|Hy]; [contradiction|].
      destruct (N.eq_dec (bid b) (bid x)) as [Ex|Nx].
      * exfalso.
        assert (x = b) by (apply (id_inj T Hnd); [eapply (path_in g T Hg); eauto|exact Hb|congruence]).
        subst x. destruct (path_mem _ _ _ Pp _ Hy) as (y' & ly' & tdy' & Py' & Ey' & Ly').
        assert (y' = y) by (apply (id_inj T Hnd); [eapply (path_in g T Hg); eauto|eapply (path_in g T Hg); eauto|exact Ey']).
        subst y'. lia.
      * destruct Hx as [Hx|Hx]; [contradiction|].
        eapply IH; eauto.
Qed.

(** every block on the path list of an indexed node is indexed *)
Lemma anc_indexed : forall ix, idx_ok g T ix ->
  forall b l td, path g T b l td -> in_idx (bid b) ix = true ->
  forall h, In h l -> in_idx h ix = true.
Proof.
  intros ix OK b l td Pb. induction Pb as [|b p l td Hb Pp IH Hpar Hht]; intros Ib h Hin.
  - destruct Hin as [<-|[]]. exact Ib.
  - destruct Hin as [<-|Hin]; [exact Ib|].
    apply IH; [|exact Hin].
    apply in_idx_true in Ib as (n & Hn & En).
    destruct (OK _ Hn) as [[ln Pn] Cl].
    assert (B : nblk n = b) by (apply (id_inj T Hnd); [eapply (path_in g T Hg); eauto|exact Hb|exact En]).
    rewrite B in Cl. destruct Cl as [Cl|Cl].
    + exfalso. subst b. apply (path_height g T) in Pp. lia.
    + rewrite Hpar in Cl. exact Cl.
Qed.

(** the height the index records for a connected block *)
Lemma node_height_path : forall ix, idx_ok g T ix ->
  forall x lx tdx, path g T x lx tdx -> in_idx (bid x) ix = true ->
  node_height (bid x) ix = Some (bht x).
Proof.
  intros ix OK x lx tdx Px Ix. unfold node_height.
  apply in_idx_true in Ix as (n & Hn & En).
  destruct (find_node_in _ _ Hn) as [n' F]. rewrite En in F. rewrite F.
  apply find_node_some in F as [Hn' En'].
  destruct (OK _ Hn') as [[ln Pn] _].
  assert (B : nblk n' = x) by (apply (id_inj T Hnd); [eapply (path_in g T Hg); eauto|eapply (path_in g T Hg); eauto|exact En']).
  rewrite B. reflexivity.
Qed.

Lemma node_height_cons : forall h nb ix, bid (nblk nb) <> h ->
  node_height h (nb :: ix) = node_height h ix.
Proof.
  intros h nb ix Ne. unfold node_height, find_node. cbn [find].
  destruct (N.eqb (bid (nblk nb)) h) eqn:E; [apply N.eqb_eq in E; contradiction|reflexivity].
Qed.

(** a block of the view at or below the fork point stays in the view *)
Lemma anchored_drop : forall ix t lt tdt, idx_ok g T ix ->
  path g T t lt tdt -> in_idx (bid t) ix = true ->
  forall f h fk fkh, In f lt -> In fk lt ->
  node_height f ix = Some h -> node_height fk ix = Some fkh -> h <= fkh ->
  In f (drop_until fk lt).
Proof.
  intros ix t lt tdt OK Pt It f h fk fkh Hf Hfk Nf Nfk Le.
  destruct (path_mem _ _ _ Pt _ Hf) as (x & lx & tdx & Px & Ex & _).
  destruct (path_mem _ _ _ Pt _ Hfk) as (y & ly & tdy & Py & Ey & _).
  subst f fk.
  rewrite (node_height_path ix OK _ _ _ Px) in Nf by (exact (anc_indexed ix OK _ _ _ Pt It _ Hf)).
  rewrite (node_height_path ix OK _ _ _ Py) in Nfk by (exact (anc_indexed ix OK _ _ _ Pt It _ Hfk)).
  injection Nf as <-. injection Nfk as <-.
  rewrite (drop_until_path g T Hg Hnd _ _ _ Pt _ _ _ Py Hfk).
  exact (path_lower_in _ _ _ Pt _ _ _ _ _ _ Px Py Hf Hfk Le).
Qed.

(** conversely: what is left below the fork point is not higher than it *)
Lemma drop_height : forall ix t lt tdt, idx_ok g T ix ->
  path g T t lt tdt -> in_idx (bid t) ix = true ->
  forall f h fk fkh, In fk lt -> In f (drop_until fk lt) ->
  node_height f ix = Some h -> node_height fk ix = Some fkh -> h <= fkh.
Proof.
  intros ix t lt tdt OK Pt It f h fk fkh Hfk Hf Nf Nfk.
  pose proof (drop_until_incl _ _ _ Hf) as Hf'.
  destruct (path_mem _ _ _ Pt _ Hfk) as (y & ly & tdy & Py & Ey & _). subst fk.
  rewrite (drop_until_path g T Hg Hnd _ _ _ Pt _ _ _ Py Hfk) in Hf.
  destruct (path_mem _ _ _ Py _ Hf) as (x & lx & tdx & Px & Ex & Lx). subst f.
  rewrite (node_height_path ix OK _ _ _ Px) in Nf by (exact (anc_indexed ix OK _ _ _ Pt It _ Hf')).
  rewrite (node_height_path ix OK _ _ _ Py) in Nfk by (exact (anc_indexed ix OK _ _ _ Pt It _ Hfk)).
  injection Nf as <-. injection Nfk as <-. exact Lx.
Qed.

End TreeX.

Section AcceptX.
Variables (P : params) (g : block) (T : list block).
Hypothesis Hg : In g T.
Hypothesis Hnd : NoDup (map bid T).
Hypothesis Hconn : forall b, In b T -> exists l td, path g T b l td.
Hypothesis Hdiff : forall b, In b T -> 0 <= bdiff b.
Hypothesis Hg0 : 0 <= bht g.

Definition tipnode (s : xstate) (t : node) : Prop :=
  In t (xidx s) /\ path g T (nblk t) (xmain s) (ntd t).

(** index and view: always *)
Definition cidx (s : xstate) : Prop :=
  idx_ok g T (xidx s) /\ in_idx (bid g) (xidx s) = true /\ exists t, tipnode s t.

(** the tip is at least as heavy as every indexed block at or above the margin:
    holds as long as no delivery lowers the finalizer's choice *)
Definition mx (s : xstate) : Prop :=
  forall t n, tipnode s t -> In n (xidx s) -> xfin s + margin <= bht (nblk n) -> ntd n <= ntd t.

(** block [f] is in the view and indexed at height [h] *)
Definition anchored (s : xstate) (f : N) (h : Z) : Prop :=
  In f (xmain s) /\ node_height f (xidx s) = Some h.

Definition fin_ok (s : xstate) : Prop :=
  match xfh s with Some f => anchored s f (xfin s) | None => True end.

Lemma tipnode_fun : forall s t1 t2, idx_ok g T (xidx s) -> tipnode s t1 -> tipnode s t2 -> t1 = t2.
Proof.
  intros s t1 t2 OK [H1 P1] [H2 P2].
  apply (node_eq g T Hg Hnd (xidx s)); auto.
  destruct (path_head _ _ _ _ _ P1) as [l1 E1]. destruct (path_head _ _ _ _ _ P2) as [l2 E2].
  rewrite E1 in E2. injection E2 as E _. exact E.
Qed.

Definition with_orph (s : xstate) (o : list (block * Z)) (od : option (N * Z)) : xstate :=
  mkX (xidx s) o (xmain s) (xevs s) od (xfin s) (xfh s).

Lemma cidx_with_orph : forall s o od, cidx s -> cidx (with_orph s o od).
Proof. intros s o od H. exact H. Qed.
Lemma mx_with_orph : forall s o od, mx s -> mx (with_orph s o od).
Proof. intros s o od H. exact H. Qed.
Lemma fin_ok_with_orph : forall s o od, fin_ok s -> fin_ok (with_orph s o od).
Proof. intros s o od H. exact H. Qed.

(** what one acceptance of a tree block guarantees *)
Lemma accept_x_core : forall s b,
  cidx s -> In b T -> in_idx (bid b) (xidx s) = false -> in_idx (bpar b) (xidx s) = true ->
  exists s' m td, accept_x P s b = (s', m, ENone) /\ cidx s' /\
    xidx s' = mkN b td :: xidx s /\ xorph s' = xorph s /\ xold s' = xold s /\
    xfin s' <= xfin s /\
    (fin_ok s -> fin_ok s') /\
    (forall f h, anchored s f h -> h <= xfin s' -> anchored s' f h) /\
    (mx s -> xfin s' = xfin s -> mx s') /\
    (forall f h, anchored s f h -> h <= xfin s ->
       (forall l td0, path g T b l td0 -> In f l \/ bht b < h + margin) -> h <= xfin s').
Proof.
  intros s b (OK & Rt & t & Ht & Pt) Hb Nb Pb.
  unfold accept_x. unfold in_idx in Pb.
  destruct (find_node (bpar b) (xidx s)) as [pn|] eqn:F; [|discriminate]. clear Pb.
  apply find_node_some in F as [Hpn Epn].
  assert (Ng : b <> g) by (intros ->; rewrite Rt in Nb; discriminate).
  destruct (Hconn b Hb) as (lb & tdb & Pb).
  apply path_inv in Pb as [(E0 & _)|(p & l0 & td0 & _ & Pp & Hpar & Hht & _ & _)]; [contradiction|].
  destruct (OK _ Hpn) as [[lp Ppn] _].
  assert (Ep : nblk pn = p).
  { apply (id_inj T Hnd); [eapply (path_in g T Hg); eauto|eapply (path_in g T Hg); eauto|congruence]. }
  assert (Hht' : bht b = bht (nblk pn) + 1) by (rewrite Ep; exact Hht).
  assert (Hpar' : bpar b = bid (nblk pn)) by (symmetry; exact Epn).
  rewrite (proj2 (Z.eqb_eq _ _) Hht'). cbn [negb].
  set (td := ntd pn + bdiff b). set (nb := mkN b td).
  assert (Pnb : path g T b (bid b :: lp) td) by (eapply path_step; eauto).
  assert (OK1 : idx_ok g T (nb :: xidx s)).
  { intros n [<-|Hn].
    - split; [exists (bid b :: lp); exact Pnb|]. right. rewrite in_idx_cons. cbn [nblk nb].
      replace (in_idx (bpar b) (xidx s)) with true; [apply orb_true_r|].
      symmetry. apply in_idx_true. exists pn. split; assumption.
    - destruct (OK _ Hn) as [HP [Cl|Cl]]; split; auto.
      right. rewrite in_idx_cons, Cl. apply orb_true_r. }
  assert (Rt1 : in_idx (bid g) (nb :: xidx s) = true) by (rewrite in_idx_cons, Rt; apply orb_true_r).
  destruct (path_head _ _ _ _ _ Pt) as [lt' Emain].
  assert (NH : forall f h, anchored s f h -> node_height f (nb :: xidx s) = Some h).
  { intros f h [Hf Nf]. rewrite node_height_cons; [exact Nf|]. cbn [nblk nb]. intros E.
    unfold node_height in Nf. destruct (find_node f (xidx s)) as [n|] eqn:Fn; [|discriminate].
    assert (X : in_idx f (xidx s) = true) by (unfold in_idx; rewrite Fn; reflexivity).
    rewrite <- E in X. congruence. }
  assert (Etip : hd 0%N (xmain s) = bid (nblk t)) by (rewrite Emain; reflexivity).
  unfold connect_best_x, xtip. cbn [xidx xorph xmain xevs xold xfin xfh]. rewrite Etip.
  destruct (N.eqb (bpar b) (bid (nblk t))) eqn:Ext.
  - (* extends the tip *)
    apply N.eqb_eq in Ext.
    assert (t = pn) by (apply (node_eq g T Hg Hnd (xidx s)); auto; congruence). subst t.
    eexists _, true, td. split; [reflexivity|].
    assert (TN : tipnode (mkX (nb :: xidx s) (xorph s) (bid b :: xmain s)
                   ((bid b, true) :: xevs s) (xold s) (xfin s) (xfh s)) nb).
    { split; [left; reflexivity|]. cbn [xmain nblk ntd nb].
      eapply path_step; eauto. }
    split; [split; [exact OK1|split; [exact Rt1|exists nb; exact TN]]|].
    split; [reflexivity|]. split; [reflexivity|]. split; [reflexivity|].
    cbn [xfin]. split; [lia|]. split; [|split; [|split]].
    4:{ intros f0 h0 _ Le0 _. exact Le0. }
    + unfold fin_ok. cbn [xfh xfin]. destruct (xfh s) as [f|]; [|auto].
      intros A. split; [right; exact (proj1 A)|]. cbn [xidx]. apply NH. exact A.
    + intros f h A _. split; [right; exact (proj1 A)|]. cbn [xidx]. apply NH. exact A.
    + intros Mx _ t' n Tn' Hn Hm.
      assert (t' = nb) by (eapply tipnode_fun; [|exact Tn'|exact TN]; exact OK1). subst t'.
      cbn [xidx xfin] in Hn, Hm. destruct Hn as [<-|Hn]; [lia|].
      assert (Tp : tipnode s pn) by (split; assumption).
      specialize (Mx pn n Tp Hn Hm). specialize (Hdiff b Hb). cbn [ntd nb]. unfold td. lia.
  - apply N.eqb_neq in Ext.
    assert (Nbt : N.eqb (bid b) (bid (nblk t)) = false).
    { apply N.eqb_neq. intros E. assert (X : in_idx (bid b) (xidx s) = true)
        by (apply in_idx_true; exists t; split; [exact Ht|congruence]). congruence. }
    unfold find_node at 1. cbn [find nblk nb]. rewrite Nbt. fold (find_node (bid (nblk t)) (xidx s)).
    destruct (find_node_in _ _ Ht) as [t' Ft]. rewrite Ft.
    apply find_node_some in Ft as [Ht' Et'].
    assert (t' = t) by (apply (node_eq g T Hg Hnd (xidx s)); auto). subst t'.
    assert (Tt : tipnode s t) by (split; assumption).
    destruct (_ || _) eqn:Side.
    + (* side chain *)
      eexists _, false, td. split; [reflexivity|].
      assert (TN : tipnode (mkX (nb :: xidx s) (xorph s) (xmain s) (xevs s) (xold s) (xfin s) (xfh s)) t)
        by (split; [right; exact Ht|exact Pt]).
      split; [split; [exact OK1|split; [exact Rt1|exists t; exact TN]]|].
      split; [reflexivity|]. split; [reflexivity|]. split; [reflexivity|].
      cbn [xfin]. split; [lia|]. split; [|split; [|split]].
      4:{ intros f0 h0 _ Le0 _. exact Le0. }
      * unfold fin_ok. cbn [xfh xfin]. destruct (xfh s) as [f|]; [|auto].
        intros A. split; [exact (proj1 A)|]. cbn [xidx]. apply NH. exact A.
      * intros f h A _. split; [exact (proj1 A)|]. cbn [xidx]. apply NH. exact A.
      * intros Mx _ t' n Tn' Hn Hm.
        assert (t' = t) by (eapply tipnode_fun; [|exact Tn'|exact TN]; exact OK1). subst t'.
        cbn [xidx xfin] in Hn, Hm. destruct Hn as [<-|Hn]; [|apply Mx; assumption].
        cbn [nblk ntd nb] in *. apply orb_true_iff in Side as [S1|S2]; [|apply Z.ltb_lt in S2; lia].
        apply andb_true_iff in S1 as [S1 _]. apply Z.leb_le in S1. exact S1.
    + (* reorganisation *)
      apply orb_false_iff in Side as [S1 S2]. apply Z.ltb_ge in S2.
      assert (Ge : ntd t <= td).
      { apply andb_false_iff in S1 as [S1|S1]; [apply Z.leb_gt in S1; lia|].
        apply negb_false_iff in S1. repeat (apply andb_true_iff in S1 as [S1 ?]).
        match goal with X : (td =? ntd t) = true |- _ => apply Z.eqb_eq in X; lia end. }
      assert (Inb : in_idx (bid b) (nb :: xidx s) = true)
        by (rewrite in_idx_cons; cbn [nblk nb]; rewrite N.eqb_refl; reflexivity).
      pose proof (path_height _ _ _ _ _ Pnb) as Hh.
      destruct (branch_ok g T Hg Hnd (nb :: xidx s) (xmain s) (nblk t) (xmain s) (ntd t) OK1 Pt eq_refl
                  b _ _ Pnb Inb (S (Z.to_nat (bht b)))) as (p' & fk & Br & Sp); [lia|].
      rewrite Br.
      pose proof (branch_fork_in _ _ _ _ _ _ Br) as Fin. apply memN_In in Fin.
      assert (It1 : in_idx (bid (nblk t)) (nb :: xidx s) = true)
        by (apply in_idx_true; exists t; split; [right; exact Ht|reflexivity]).
      assert (Ifk : in_idx fk (nb :: xidx s) = true) by (exact (anc_indexed g T Hg Hnd _ OK1 _ _ _ Pt It1 _ Fin)).
      destruct (node_height fk (nb :: xidx s)) as [fkh|] eqn:Nfk.
      2:{ exfalso. unfold node_height in Nfk. unfold in_idx in Ifk.
          destruct (find_node fk (nb :: xidx s)); discriminate. }
      set (rs := if fkh <? xfin s then Some fkh else None).
      eexists _, true, td. split; [reflexivity|].
      set (s' := mkX _ _ _ _ _ _ _).
      assert (TN : tipnode s' nb).
      { split; [left; reflexivity|]. unfold s'. cbn [xmain nblk ntd nb]. rewrite Sp. exact Pnb. }
      assert (Fle : xfin s' <= xfin s /\ xfin s' <= fkh).
      { unfold s', rs. cbn [xfin]. destruct (fkh <? xfin s) eqn:L;
          [apply Z.ltb_lt in L|apply Z.ltb_ge in L]; lia. }
      assert (Anc : forall f h, anchored s f h -> h <= xfin s' -> anchored s' f h).
      { intros f h A Le. split; [|unfold s'; cbn [xidx]; apply NH; exact A].
        unfold s'. cbn [xmain]. apply in_or_app. right.
        eapply (anchored_drop g T Hg Hnd (nb :: xidx s) (nblk t) (xmain s) (ntd t) OK1 Pt It1 f h fk fkh);
          [exact (proj1 A)|exact Fin|apply NH; exact A|exact Nfk|lia]. }
      split; [split; [exact OK1|split; [exact Rt1|exists nb; exact TN]]|].
      split; [reflexivity|]. split; [reflexivity|]. split; [reflexivity|].
      split; [exact (proj1 Fle)|]. split; [|split; [|split]].
      4:{ intros f0 h0 A0 Le0 Gd.
          destruct (Gd _ _ Pnb) as [Inl|Lw]; [|lia].
          rewrite <- Sp in Inl. apply in_app_or in Inl as [Ip|Id].
          - exfalso. pose proof (branch_disjoint _ _ _ _ _ _ Br _ Ip) as X.
            destruct A0 as [Am _]. apply memN_In in Am. congruence.
          - assert (h0 <= fkh).
            { eapply (drop_height g T Hg Hnd (nb :: xidx s) (nblk t) (xmain s) (ntd t) OK1 Pt It1 f0 h0 fk fkh);
                [exact Fin|exact Id|apply NH; exact A0|exact Nfk]. }
            unfold s', rs. cbn [xfin]. destruct (fkh <? xfin s); lia. }
      * unfold fin_ok. unfold s' at 1. cbn [xfh]. unfold rs.
        destruct (fkh <? xfin s) eqn:L.
        -- intros _. split.
           ++ unfold s'. cbn [xmain]. apply in_or_app. right.
              apply drop_until_self. exact Fin.
           ++ unfold s'. cbn [xidx xfin]. unfold rs. try rewrite L. exact Nfk.
        -- destruct (xfh s) as [f|] eqn:Ef; [|auto].
           intros A. replace (xfin s') with (xfin s) by (unfold s', rs; cbn [xfin]; try rewrite L; reflexivity).
           apply Anc; [exact A|]. unfold s', rs; cbn [xfin]; try rewrite L. lia.
      * exact Anc.
      * intros Mx E t' n Tn' Hn Hm.
        assert (t' = nb) by (eapply tipnode_fun; [|exact Tn'|exact TN]; exact OK1). subst t'.
        unfold s' in Hn. cbn [xidx] in Hn. rewrite E in Hm.
        destruct Hn as [<-|Hn]; [lia|].
        specialize (Mx t n Tt Hn Hm). cbn [ntd nb]. lia.
Qed.

End AcceptX.
