(** C25 — proofs for the extended model, part 4: the theorems about histories
    (convergence under the pool limits and a moving finalizer, the finalized
    block, re-delivery). *)
From Coq Require Import List ZArith NArith Bool Lia.
From C33 Require Import C25.Model C25.Proofs C25.Proofs2 C25.ModelExt C25.ProofsExt C25.ProofsExt2 C25.ProofsExt3.
Import ListNotations.
Open Scope Z_scope.

(** the blocks whose ancestor list has to be looked at: all of them before the
    finalizer made a choice, afterwards those on a branch through the chosen block *)
Definition through (f : option N) (l : list N) : Prop :=
  match f with Some x => In x l | None => True end.

(** deliveries in an order in which every block comes after its parent (from
    the blocks in [known]); finalize events may be anywhere *)
Fixpoint parents_first (known : list N) (suf : list xev) : bool :=
  match suf with
  | [] => true
  | Dl _ b :: tl => memN (bpar b) known && parents_first (bid b :: known) tl
  | Fz _ _ :: tl => parents_first known tl
  end.

Lemma xrun_acc_app : forall P a h1 h2, xrun_acc P a (h1 ++ h2) = xrun_acc P (xrun_acc P a h1) h2.
Proof. intros. unfold xrun_acc. apply fold_left_app. Qed.

Lemma xrun_from_app : forall P s h1 h2, xrun_from P s (h1 ++ h2) = xrun_from P (xrun_from P s h1) h2.
Proof. intros. unfold xrun_from. apply fold_left_app. Qed.

Section Top.
Variables (P : params) (g : block) (T J : list block).
Hypothesis Hg : In g T.
Hypothesis HndU : NoDup (map bid (T ++ J)).
Hypothesis Hconn : forall b, In b T -> exists l td, path g T b l td.
Hypothesis Hdiff : forall b, In b T -> 0 <= bdiff b.
Hypothesis Hg0 : 0 <= bht g.
Hypothesis Hjunk : forall j, In j J -> ~ In (bpar j) (map bid T).

Let HndT : NoDup (map bid T) := Hnd T J HndU.

Definition in_universe (hist : list xev) : Prop :=
  forall now b, In (Dl now b) hist -> In b (T ++ J).

Lemma in_universe_app : forall h1 h2, in_universe (h1 ++ h2) <-> in_universe h1 /\ in_universe h2.
Proof.
  intros h1 h2. unfold in_universe. split.
  - intros H. split; intros now b Hb; apply (H now b); apply in_or_app; [left|right]; exact Hb.
  - intros [H1 H2] now b Hb. apply in_app_or in Hb as [Hb|Hb]; [apply (H1 now b Hb)|apply (H2 now b Hb)].
Qed.

(** the tracked run from the start *)
Lemma run_facts : forall fin0 hist, in_universe hist ->
  let s := xrun P g fin0 hist in
  inv_x g T J (held_of P g fin0 hist) s /\ (steady P g fin0 hist = true -> mx g T s).
Proof.
  intros fin0 hist HU s.
  destruct (xrun_acc P (xinit g fin0, [], true) hist) as [[s' held'] ok'] eqn:R.
  assert (Es : s' = s).
  { pose proof (xrun_acc_state P hist (xinit g fin0) [] true) as X. rewrite R in X. exact X. }
  unfold held_of, steady. rewrite R. cbn [fst snd]. rewrite <- Es.
  eapply (xrun_acc_inv P g T J Hg HndU Hconn Hdiff Hg0 Hjunk hist HU); [apply inv_x_init| |exact R].
  intros _. apply mx_init.
Qed.

(** ** the finalizer's choice is always on the best chain *)
Lemma finalizer_on_best_chain : forall fin0 hist, in_universe hist ->
  let s := xrun P g fin0 hist in
  forall f, xfh s = Some f -> In f (xmain s) /\ node_height f (xidx s) = Some (xfin s).
Proof.
  intros fin0 hist HU s f E. destruct (run_facts fin0 hist HU) as ((_ & Fo & _) & _).
  fold s in Fo. unfold ProofsExt2.fin_ok in Fo. rewrite E in Fo. exact Fo.
Qed.

(** ** convergence *)
Lemma ext_converges : forall fin0 hist H lH tdH,
  in_universe hist ->
  kept_all P g fin0 T hist = true ->
  steady P g fin0 hist = true ->
  let s := xrun P g fin0 hist in
  path g T H lH tdH ->
  through (xfh s) lH ->
  (forall x l td, path g T x l td -> through (xfh s) l -> x <> H -> td < tdH) ->
  xfin s + margin <= bht H ->
  xtip s = bid H /\ xmain s = lH /\ xtip_td s = tdH.
Proof.
  intros fin0 hist H lH tdH HU Kp St s PH ThH Hmax Hm.
  destruct (run_facts fin0 hist HU) as (((OK & Rt & t & Ht & Pt) & Fo & OO & Par & Hd) & Mx).
  fold s in OK, Rt, Ht, Pt, Fo, OO, Par, Hd, Mx. specialize (Mx St).
  unfold kept_all in Kp. rewrite forallb_forall in Kp.
  assert (All : forall b l td, path g T b l td -> in_idx (bid b) (xidx s) = true).
  { intros b l td Pb. induction Pb as [|b p l td Hb Pp IH Hpar Hht]; [exact Rt|].
    specialize (Kp b Hb). apply orb_true_iff in Kp as [Kp|Kp].
    { apply N.eqb_eq in Kp. assert (b = g) by (apply (id_inj T HndT); assumption). subst b. exact Rt. }
    apply memN_In in Kp. destruct (Hd _ Kp) as [X|X]; [exact X|].
    apply in_xorph_true in X as (e & He & Ee).
    assert (fst e = b).
    { apply (uid_inj T J HndU); [apply OO; exact He|apply in_or_app; left; exact Hb|exact Ee]. }
    pose proof (Par e He) as Q. rewrite H0, Hpar, IH in Q. discriminate. }
  apply All in PH as InH. apply in_idx_true in InH as (n & Hn & En).
  destruct (OK _ Hn) as [[ln Pn] _].
  assert (Bn : nblk n = H).
  { apply (id_inj T HndT); [eapply (path_in g T Hg); eauto|eapply (path_in g T Hg); eauto|exact En]. }
  rewrite Bn in Pn. destruct (path_fun g T Hg HndT _ _ _ PH _ _ Pn) as [_ Etd].
  assert (Tt : tipnode g T s t) by (split; assumption).
  assert (Le : tdH <= ntd t) by (rewrite <- Etd; apply (Mx t n Tt Hn); rewrite Bn; exact Hm).
  assert (Tht : through (xfh s) (xmain s)).
  { unfold through. unfold ProofsExt2.fin_ok in Fo. destruct (xfh s); [exact (proj1 Fo)|exact I]. }
  assert (Bt : nblk t = H).
  { destruct (N.eq_dec (bid (nblk t)) (bid H)) as [E|E].
    - apply (id_inj T HndT); [eapply (path_in g T Hg); eauto|eapply (path_in g T Hg); eauto|exact E].
    - assert (X : ntd t < tdH) by (eapply Hmax; [exact Pt|exact Tht|intros Q; apply E; rewrite Q; reflexivity]).
      lia. }
  rewrite Bt in Pt. destruct (path_fun g T Hg HndT _ _ _ PH _ _ Pt) as [El Et].
  destruct (path_head _ _ _ _ _ PH) as [l' E'].
  assert (Tip : xtip s = bid H) by (unfold xtip; rewrite El, E'; reflexivity).
  split; [exact Tip|]. split; [exact El|].
  unfold xtip_td. rewrite Tip.
  destruct (find_node_in _ _ Ht) as [t' Ft]. rewrite Bt in Ft. rewrite Ft.
  apply find_node_some in Ft as [Ht' Et'].
  assert (t' = t) by (apply (node_eq g T Hg HndT (xidx s)); auto; congruence). subst t'. exact Et.
Qed.

(** ** the finalized block *)

Lemma inv_x_forget : forall held s, inv_x g T J held s -> inv_x g T J [] s.
Proof. intros held s (C & Fo & OO & Par & _). repeat (split; [assumption|]). intros h []. Qed.

(** it stays on the best chain as long as no delivery lowers the choice *)
Lemma finalized_stays_steady : forall fin0 pre suf f,
  in_universe pre -> in_universe suf ->
  xfh (xrun P g fin0 pre) = Some f ->
  steady_from P (xrun P g fin0 pre) suf = true ->
  In f (xmain (xrun P g fin0 (pre ++ suf))).
Proof.
  intros fin0 pre suf f HU1 HU2 E St.
  destruct (run_facts fin0 pre HU1) as (I1 & _).
  pose proof (finalizer_on_best_chain fin0 pre HU1 f E) as A.
  set (s1 := xrun P g fin0 pre) in *.
  destruct (xrun_acc P (s1, [], true) suf) as [[s' held'] ok'] eqn:R.
  unfold steady_from in St. rewrite R in St. cbn [snd] in St.
  destruct (anchored_stays P g T J Hg HndU Hconn Hdiff Hg0 Hjunk suf HU2 s1 [] true f (xfin s1)
              (inv_x_forget _ _ I1) A (Z.le_refl _) s' held' ok' R St) as [[Am _] _].
  unfold xrun. rewrite xrun_from_app. fold (xrun P g fin0 pre). fold s1.
  pose proof (xrun_acc_state P suf s1 [] true) as X. rewrite R in X. cbn [fst] in X.
  rewrite <- X. exact Am.
Qed.

(** ... and in particular when every block off its branches is below its height + 12 *)
Lemma low_run : forall suf, in_universe suf ->
  forall s held ok f h, inv_x g T J held s -> ProofsExt2.anchored s f h -> h <= xfin s ->
  (forall b, In b T -> forall l td0, path g T b l td0 -> In f l \/ bht b < h + margin) ->
  forall s' held' ok', xrun_acc P (s, held, ok) suf = (s', held', ok') ->
  ProofsExt2.anchored s' f h /\ h <= xfin s'.
Proof.
  induction suf as [|e suf IH]; intros HU s held ok f h I A Le Gd s' held' ok'.
  { cbn. intros H; injection H as <- <- <-. auto. }
  unfold xrun_acc. cbn [fold_left]. fold (xrun_acc P).
  assert (HU' : in_universe suf) by (intros now b Hb; apply (HU now b); right; exact Hb).
  destruct e as [now b|h1 f1]; [rewrite xstep_acc_dl|rewrite xstep_acc_fz].
  - destruct (deliver_x P now s b) as [s1 o] eqn:D. cbn [fst snd].
    assert (HbU : In b (T ++ J)) by (apply (HU now b); left; reflexivity).
    destruct (deliver_x_inv P g T J Hg HndU Hconn Hdiff Hg0 Hjunk held now s b I HbU s1 o D)
      as (I1 & _ & An1 & _ & Lw1 & _).
    assert (L1 : h <= xfin s1) by (apply (Lw1 f h A Le Gd)).
    intros R. eapply IH; [exact HU'|exact I1|apply An1; [exact A|exact L1]|exact L1|exact Gd|exact R].
  - destruct (finalize_inv g T J held s h1 f1 I) as (I1 & Le1 & An1 & _).
    intros R. eapply IH; [exact HU'|exact I1|apply An1; exact A|lia|exact Gd|exact R].
Qed.

Lemma finalized_stays_low : forall fin0 pre suf f,
  in_universe pre -> in_universe suf ->
  let s1 := xrun P g fin0 pre in
  xfh s1 = Some f ->
  (forall b, In b T -> forall l td0, path g T b l td0 -> In f l \/ bht b < xfin s1 + margin) ->
  In f (xmain (xrun P g fin0 (pre ++ suf))).
Proof.
  intros fin0 pre suf f HU1 HU2 s1 E Gd.
  destruct (run_facts fin0 pre HU1) as (I1 & _).
  pose proof (finalizer_on_best_chain fin0 pre HU1 f E) as A. fold s1 in I1, A.
  destruct (xrun_acc P (s1, [], true) suf) as [[s' held'] ok'] eqn:R.
  destruct (low_run suf HU2 s1 [] true f (xfin s1) (inv_x_forget _ _ I1) A (Z.le_refl _) Gd s' held' ok' R)
    as [[Am _] _].
  unfold xrun. rewrite xrun_from_app. fold (xrun P g fin0 pre). fold s1.
  pose proof (xrun_acc_state P suf s1 [] true) as X. rewrite R in X. cbn [fst] in X.
  rewrite <- X. exact Am.
Qed.

(** ** re-delivery: after any history, delivering the tree parents first
       leaves every block held *)
Lemma parents_first_held : forall suf, in_universe suf ->
  forall s held ok known, inv_x g T J held s ->
  (forall h, In h known -> in_idx h (xidx s) = true) ->
  parents_first known suf = true ->
  forall s' held' ok', xrun_acc P (s, held, ok) suf = (s', held', ok') ->
  (forall h, In h held -> In h held') /\ (forall b, In b (blocks_of suf) -> In (bid b) held').
Proof.
  induction suf as [|e suf IH]; intros HU s held ok known I Kn Pf s' held' ok'.
  { cbn. intros H; injection H as <- <- <-. split; [auto|intros b []]. }
  unfold xrun_acc. cbn [fold_left]. fold (xrun_acc P).
  assert (HU' : in_universe suf) by (intros now b Hb; apply (HU now b); right; exact Hb).
  destruct e as [now b|h1 f1]; cbn [parents_first] in Pf; [rewrite xstep_acc_dl|rewrite xstep_acc_fz].
  - apply andb_true_iff in Pf as [Pk Pf]. apply memN_In in Pk.
    destruct (deliver_x P now s b) as [s1 o] eqn:D. cbn [fst snd].
    assert (HbU : In b (T ++ J)) by (apply (HU now b); left; reflexivity).
    destruct (deliver_x_inv P g T J Hg HndU Hconn Hdiff Hg0 Hjunk held now s b I HbU s1 o D)
      as (I1 & _ & _ & _ & _ & Cn & Gr).
    destruct (Cn (Kn _ Pk)) as (Lo & He & Ib).
    unfold held_after in I1. rewrite Lo, He, memN_nil_filter in I1.
    unfold held_after. rewrite Lo, He, memN_nil_filter.
    intros R.
    assert (Kn1 : forall h, In h (bid b :: known) -> in_idx h (xidx s1) = true)
      by (intros h [<-|Hh]; [exact Ib|apply Gr, Kn, Hh]).
    destruct (IH HU' s1 (bid b :: held) (ok && negb (lowered s s1)) (bid b :: known) I1 Kn1 Pf s' held' ok' R)
      as [K1 K2].
    split; [intros h Hh; apply K1; right; exact Hh|].
    cbn [blocks_of flat_map app]. intros b0 [<-|Hb0]; [apply K1; left; reflexivity|apply K2; exact Hb0].
  - destruct (finalize_inv g T J held s h1 f1 I) as (I1 & _).
    intros R. eapply IH; [exact HU'|exact I1| |exact Pf|exact R].
    unfold finalize. destruct (_ && _); exact Kn.
Qed.

Lemma redelivery_keeps_all : forall fin0 pre suf,
  in_universe pre -> in_universe suf ->
  parents_first [bid g] suf = true ->
  (forall b, In b T -> b = g \/ In b (blocks_of suf)) ->
  kept_all P g fin0 T (pre ++ suf) = true.
Proof.
  intros fin0 pre suf HU1 HU2 Pf Cov.
  destruct (run_facts fin0 pre HU1) as (I1 & _).
  unfold kept_all, held_of. rewrite xrun_acc_app.
  destruct (xrun_acc P (xinit g fin0, [], true) pre) as [[s1 held1] ok1] eqn:R1.
  assert (Es : s1 = xrun P g fin0 pre).
  { pose proof (xrun_acc_state P pre (xinit g fin0) [] true) as X. rewrite R1 in X. exact X. }
  unfold held_of in I1. rewrite R1 in I1. cbn [fst snd] in I1. rewrite <- Es in I1.
  destruct (xrun_acc P (s1, held1, ok1) suf) as [[s2 held2] ok2] eqn:R2. cbn [fst snd].
  assert (Kn : forall h, In h [bid g] -> in_idx h (xidx s1) = true)
    by (intros h [<-|[]]; exact (proj1 (proj2 (proj1 I1)))).
  destruct (parents_first_held suf HU2 s1 held1 ok1 [bid g] I1 Kn Pf s2 held2 ok2 R2) as [_ K2].
  apply forallb_forall. intros b Hb. destruct (Cov b Hb) as [->|Hs].
  - rewrite N.eqb_refl. reflexivity.
  - apply orb_true_iff. right. apply memN_In. apply K2. exact Hs.
Qed.

Lemma redelivery_converges : forall fin0 pre suf H lH tdH,
  in_universe pre -> in_universe suf ->
  parents_first [bid g] suf = true ->
  (forall b, In b T -> b = g \/ In b (blocks_of suf)) ->
  steady P g fin0 (pre ++ suf) = true ->
  let s := xrun P g fin0 (pre ++ suf) in
  path g T H lH tdH ->
  through (xfh s) lH ->
  (forall x l td, path g T x l td -> through (xfh s) l -> x <> H -> td < tdH) ->
  xfin s + margin <= bht H ->
  xtip s = bid H /\ xmain s = lH /\ xtip_td s = tdH.
Proof.
  intros fin0 pre suf H lH tdH HU1 HU2 Pf Cov St.
  apply ext_converges; [apply in_universe_app; split; assumption| |exact St].
  apply redelivery_keeps_all; assumption.
Qed.

End Top.
