(** C25 — proofs, part 1: block trees, paths, and the fork-point walk. *)
From Coq Require Import List ZArith NArith Bool Lia.
From C33 Require Import C25.Model.
Import ListNotations.
Open Scope Z_scope.

(** [path g T b l td]: [b] is connected to the root [g] through blocks of [T];
    [l] = the hashes of [b] and its ancestors ([b] first, [g] last), [td] = the
    sum of their difficulties. *)
Inductive path (g : block) (T : list block) : block -> list N -> Z -> Prop :=
| path_root : path g T g [bid g] (bdiff g)
| path_step : forall b p l td,
    In b T -> path g T p l td -> bpar b = bid p -> bht b = bht p + 1 ->
    path g T b (bid b :: l) (td + bdiff b).

Section Tree.
Variables (g : block) (T : list block).
Hypothesis Hg : In g T.
Hypothesis Hnd : NoDup (map bid T).

Lemma id_inj : forall a b, In a T -> In b T -> bid a = bid b -> a = b.
Proof.
  clear Hg. induction T as [|x T' IH]; intros a b Ha Hb E; [destruct Ha|].
  cbn [map] in Hnd. inversion Hnd as [|? ? Hx Hnd']; subst.
  destruct Ha as [Ha|Ha], Hb as [Hb|Hb]; subst.
  - reflexivity.
  - exfalso. apply Hx. rewrite E. apply in_map. exact Hb.
  - exfalso. apply Hx. rewrite <- E. apply in_map. exact Ha.
  - apply IH; assumption.
Qed.

Lemma path_in : forall b l td, path g T b l td -> In b T.
Proof. intros b l td P. destruct P; assumption. Qed.

Lemma path_height : forall b l td, path g T b l td -> bht g <= bht b.
Proof. intros b l td P. induction P; lia. Qed.

Lemma path_head : forall b l td, path g T b l td -> exists l', l = bid b :: l'.
Proof. intros b l td P. destruct P; eexists; reflexivity. Qed.

Lemma path_has_root : forall b l td, path g T b l td -> In (bid g) l.
Proof. intros b l td P. induction P; [left; reflexivity|right; assumption]. Qed.

Lemma path_inv : forall b l td, path g T b l td ->
  (b = g /\ l = [bid g] /\ td = bdiff g) \/
  (exists p l0 td0, In b T /\ path g T p l0 td0 /\ bpar b = bid p /\ bht b = bht p + 1 /\
                    l = bid b :: l0 /\ td = td0 + bdiff b).
Proof.
  intros b l td P. destruct P as [|b p l td Hb Pp Hpar Hht]; [left; auto|].
  right. exists p, l, td. auto 10.
Qed.

Lemma path_fun : forall b l td, path g T b l td ->
  forall l' td', path g T b l' td' -> l' = l /\ td' = td.
Proof.
  intros b l td P. induction P as [|b p l td Hb Pp IH Hpar Hht]; intros l' td' P'.
  - apply path_inv in P' as [(_ & E1 & E2)|(p' & l0 & td0 & _ & Pp' & Hpar' & Hht' & _)].
    + split; assumption.
    + apply path_height in Pp'. lia.
  - apply path_inv in P' as [(E0 & _)|(p' & l0 & td0 & _ & Pp' & Hpar' & Hht' & E1 & E2)].
    + apply path_height in Pp. rewrite E0 in Hht. lia.
    + assert (E : p' = p).
      { apply id_inj; [eapply path_in; eauto|eapply path_in; eauto|congruence]. }
      rewrite E in Pp'. destruct (IH _ _ Pp') as [El Et].
      split; congruence.
Qed.

(** suffixes of a path list are the path lists of the blocks on it *)
Lemma drop_until_path : forall t l td, path g T t l td ->
  forall n ln tdn, path g T n ln tdn -> In (bid n) l -> drop_until (bid n) l = ln.
Proof.
  intros t l td P. induction P as [|b p l td Hb Pp IH Hpar Hht]; intros n ln tdn Pn Hin.
  - destruct Hin as [E|[]]. cbn [drop_until]. rewrite E, N.eqb_refl.
    assert (n = g) by (apply id_inj; [eapply path_in; eauto|assumption|congruence]).
    subst n. destruct (path_fun _ _ _ Pn _ _ (path_root g T)) as [-> _]. reflexivity.
  - cbn [drop_until]. destruct (N.eqb (bid b) (bid n)) eqn:E.
    + apply N.eqb_eq in E.
      assert (n = b) by (apply id_inj; [eapply path_in; eauto|assumption|congruence]).
      subst n. destruct (path_fun _ _ _ Pn _ _ (path_step g T b p l td Hb Pp Hpar Hht)) as [-> _].
      reflexivity.
    + apply N.eqb_neq in E. destruct Hin as [Hin|Hin]; [congruence|].
      eapply IH; eauto.
Qed.

Lemma memN_In : forall h l, memN h l = true <-> In h l.
Proof.
  intros h l. unfold memN. rewrite existsb_exists. split.
  - intros (x & Hx & E). apply N.eqb_eq in E. subst. exact Hx.
  - intros H. exists h. split; [exact H|apply N.eqb_refl].
Qed.

Lemma find_node_some : forall h ix n, find_node h ix = Some n -> In n ix /\ bid (nblk n) = h.
Proof.
  unfold find_node; intros h ix n H. apply find_some in H as [H1 H2].
  apply N.eqb_eq in H2. split; assumption.
Qed.

Lemma find_node_in : forall n ix, In n ix -> exists n', find_node (bid (nblk n)) ix = Some n'.
Proof.
  unfold find_node; intros n ix H.
  destruct (find (fun n0 => N.eqb (bid (nblk n0)) (bid (nblk n))) ix) as [n'|] eqn:E.
  - eexists; reflexivity.
  - exfalso. eapply find_none in E; [|exact H]. cbn in E. rewrite N.eqb_refl in E. discriminate.
Qed.

Lemma in_idx_true : forall h ix, in_idx h ix = true <-> exists n, In n ix /\ bid (nblk n) = h.
Proof.
  unfold in_idx; intros h ix. split.
  - destruct (find_node h ix) as [n|] eqn:E; [|discriminate].
    intros _. exists n. apply find_node_some. exact E.
  - intros (n & Hn & E). subst h. destruct (find_node_in _ _ Hn) as [n' ->]. reflexivity.
Qed.

Lemma in_idx_cons : forall h n ix,
  in_idx h (n :: ix) = N.eqb (bid (nblk n)) h || in_idx h ix.
Proof.
  intros h n ix. unfold in_idx, find_node. cbn [find].
  destruct (N.eqb (bid (nblk n)) h); reflexivity.
Qed.

(** ** the index: every node is a connected tree block with its path's total difficulty,
    and the parent of every non-root node is indexed *)
Definition idx_ok (ix : list node) : Prop :=
  forall n, In n ix ->
    (exists l, path g T (nblk n) l (ntd n)) /\
    (nblk n = g \/ in_idx (bpar (nblk n)) ix = true).

Lemma node_eq : forall ix n1 n2, idx_ok ix -> In n1 ix -> In n2 ix ->
  bid (nblk n1) = bid (nblk n2) -> n1 = n2.
Proof.
  intros ix n1 n2 OK H1 H2 E.
  destruct (OK _ H1) as [[l1 P1] _]. destruct (OK _ H2) as [[l2 P2] _].
  assert (B : nblk n1 = nblk n2) by (apply id_inj; [eapply path_in; eauto|eapply path_in; eauto|exact E]).
  destruct n1 as [b1 t1], n2 as [b2 t2]; cbn in *. subst b2.
  destruct (path_fun _ _ _ P1 _ _ P2) as [_ ->]. reflexivity.
Qed.

(** the fork-point walk terminates within its fuel and splices the new branch onto the view *)
Lemma branch_ok : forall ix mn t lt tdt,
  idx_ok ix -> path g T t lt tdt -> mn = lt ->
  forall b l td, path g T b l td -> in_idx (bid b) ix = true ->
  forall fuel, (Z.to_nat (bht b - bht g) < fuel)%nat ->
  exists p fk, branch fuel ix mn (bid b) = Some (p, fk) /\ p ++ drop_until fk mn = l.
Proof.
  intros ix mn t lt tdt OK Pt ->. intros b l td P.
  induction P as [|b p l td Hb Pp IH Hpar Hht]; intros Hin fuel Hf.
  - destruct fuel as [|f]; [lia|]. cbn [branch].
    assert (M : memN (bid g) lt = true) by (apply memN_In; eapply path_has_root; eauto).
    rewrite M. exists [], (bid g). split; [reflexivity|]. cbn [app].
    eapply drop_until_path; [exact Pt|apply path_root|apply memN_In; exact M].
  - destruct fuel as [|f]; [lia|]. cbn [branch].
    pose proof (path_step g T b p l td Hb Pp Hpar Hht) as Pb.
    destruct (memN (bid b) lt) eqn:M.
    + exists [], (bid b). split; [reflexivity|]. cbn [app].
      eapply drop_until_path; [exact Pt|exact Pb|apply memN_In; exact M].
    + apply in_idx_true in Hin as (n & Hn & En).
      destruct (find_node_in _ _ Hn) as [n' F]. rewrite En in F. rewrite F.
      apply find_node_some in F as [Hn' En'].
      assert (n' = n) by (eapply node_eq; eauto; congruence). subst n'.
      destruct (OK _ Hn) as [[ln Pn] Cl].
      assert (B : nblk n = b) by (apply id_inj; [eapply path_in; eauto|assumption|exact En]).
      rewrite B in *.
      pose proof (path_height _ _ _ Pp) as Hp.
      destruct Cl as [Cl|Cl]; [subst b; lia|].
      rewrite Hpar in *.
      destruct (IH Cl f) as (p' & fk & Br & Sp); [lia|].
      rewrite Br. exists (bid b :: p'), fk. split; [reflexivity|].
      cbn [app]. rewrite Sp. reflexivity.
Qed.

End Tree.
