(** C25 — proofs, part 2: the invariants of [deliver] and convergence. *)
From Coq Require Import List ZArith NArith Bool Lia.
From C33 Require Import C25.Model C25.Proofs.
Import ListNotations.
Open Scope Z_scope.

Section Conv.
Variables (fin : Z) (g : block) (T : list block).
Hypothesis Hg : In g T.
Hypothesis Hnd : NoDup (map bid T).
Hypothesis Hconn : forall b, In b T -> exists l td, path g T b l td.
Hypothesis Hdiff : forall b, In b T -> 0 <= bdiff b.
Hypothesis Hg0 : 0 <= bht g.

(** the part of the invariant that does not mention orphans *)
Definition core (s : state) : Prop :=
  idx_ok g T (idx s) /\
  in_idx (bid g) (idx s) = true /\
  exists t, In t (idx s) /\ path g T (nblk t) (main s) (ntd t) /\
            forall n, In n (idx s) -> fin + margin <= bht (nblk n) -> ntd n <= ntd t.

Lemma idx_ok_cons : forall ix nb l,
  idx_ok g T ix -> path g T (nblk nb) l (ntd nb) -> in_idx (bpar (nblk nb)) ix = true ->
  idx_ok g T (nb :: ix).
Proof.
  intros ix nb l OK P Par n [<-|Hn].
  - split; [exists l; exact P|]. right. rewrite in_idx_cons, Par. apply orb_true_r.
  - destruct (OK _ Hn) as [HP [Cl|Cl]]; split; auto.
    right. rewrite in_idx_cons, Cl. apply orb_true_r.
Qed.

Lemma core_init : core (init g).
Proof.
  unfold core, init; cbn [idx main].
  assert (R : in_idx (bid g) [mkN g (bdiff g)] = true)
    by (rewrite in_idx_cons; cbn; rewrite N.eqb_refl; reflexivity).
  split; [|split; [exact R|]].
  - intros n [<-|[]]. split; [exists [bid g]; apply path_root|left; reflexivity].
  - exists (mkN g (bdiff g)). split; [left; reflexivity|]. split; [apply path_root|].
    intros n [<-|[]] _. lia.
Qed.

Lemma accept_core : forall s b,
  core s -> In b T -> in_idx (bid b) (idx s) = false -> in_idx (bpar b) (idx s) = true ->
  exists s' m td, accept fin s b = (s', m, ENone) /\ core s' /\
                  idx s' = mkN b td :: idx s /\ orph s' = orph s.
Proof.
  intros s b (OK & Rt & t & Ht & Pt & Mx) Hb Nb Pb.
  unfold accept. unfold in_idx in Pb.
  destruct (find_node (bpar b) (idx s)) as [pn|] eqn:F; [|discriminate]. clear Pb.
  apply find_node_some in F as [Hpn Epn].
  assert (Ng : b <> g) by (intros ->; rewrite Rt in Nb; discriminate).
  destruct (Hconn b Hb) as (lb & tdb & Pb).
  apply path_inv in Pb as [(E0 & _)|(p & l0 & td0 & _ & Pp & Hpar & Hht & _ & _)]; [contradiction|].
  destruct (OK _ Hpn) as [[lp Ppn] _].
  assert (Ep : nblk pn = p).
  { apply (id_inj T Hnd); [eapply (path_in g T Hg); eauto|eapply (path_in g T Hg); eauto|congruence]. }
  assert (Hht' : bht b = bht (nblk pn) + 1) by (rewrite Ep; exact Hht).
  assert (Hpar' : bpar b = bid (nblk pn)) by (symmetry; exact Epn).
  rewrite (proj2 (Z.eqb_eq _ _) Hht'). cbn [negb].
  set (td := ntd pn + bdiff b). set (nb := mkN b td).
  assert (Pnb : path g T b (bid b :: lp) td) by (eapply path_step; eauto).
  assert (OK1 : idx_ok g T (nb :: idx s)).
  { eapply idx_ok_cons; [exact OK|exact Pnb|]. cbn [nblk nb].
    apply in_idx_true. exists pn. split; assumption. }
  assert (Rt1 : in_idx (bid g) (nb :: idx s) = true) by (rewrite in_idx_cons, Rt; apply orb_true_r).
  destruct (path_head _ _ _ _ _ Pt) as [lt' Emain].
  assert (Etip : tip (mkS (nb :: idx s) (orph s) (main s) (evs s)) = bid (nblk t))
    by (unfold tip; cbn [main]; rewrite Emain; reflexivity).
  unfold connect_best. rewrite !Etip. cbn [idx orph main evs].
  destruct (N.eqb (bpar b) (bid (nblk t))) eqn:Ext.
  - (* extends the tip *)
    apply N.eqb_eq in Ext.
    assert (t = pn) by (apply (node_eq g T Hg Hnd (idx s)); auto; congruence). subst t.
    exists (mkS (nb :: idx s) (orph s) (bid b :: main s) ((bid b, true) :: evs s)), true, td.
    split; [reflexivity|]. split; [|split; reflexivity].
    unfold core; cbn [idx main]. split; [exact OK1|]. split; [exact Rt1|].
    exists nb. split; [left; reflexivity|]. split.
    + cbn [nblk ntd nb]. eapply path_step; eauto.
    + intros n [<-|Hn] Hm; [lia|]. specialize (Mx n Hn Hm). specialize (Hdiff b Hb).
      cbn [ntd nb]. unfold td. lia.
  - apply N.eqb_neq in Ext.
    assert (Nbt : N.eqb (bid b) (bid (nblk t)) = false).
    { apply N.eqb_neq. intros E. assert (X : in_idx (bid b) (idx s) = true)
        by (apply in_idx_true; exists t; split; [exact Ht|congruence]). congruence. }
    unfold find_node at 1. cbn [find nblk nb]. rewrite Nbt. fold (find_node (bid (nblk t)) (idx s)).
    destruct (find_node_in _ _ Ht) as [t' Ft]. rewrite Ft.
    apply find_node_some in Ft as [Ht' Et'].
    assert (t' = t) by (apply (node_eq g T Hg Hnd (idx s)); auto). subst t'.
    destruct ((td <=? ntd t) || (bht b <? fin + margin)) eqn:Side.
    + (* side chain *)
      exists (mkS (nb :: idx s) (orph s) (main s) (evs s)), false, td.
      split; [reflexivity|]. split; [|split; reflexivity].
      unfold core; cbn [idx main]. split; [exact OK1|]. split; [exact Rt1|].
      exists t. split; [right; exact Ht|]. split; [exact Pt|].
      intros n [<-|Hn] Hm; [|apply Mx; assumption].
      cbn [nblk ntd nb] in *. apply orb_true_iff in Side as [S1|S2]; [apply Z.leb_le in S1; exact S1|].
      apply Z.ltb_lt in S2. lia.
    + (* reorganisation *)
      apply orb_false_iff in Side as [S1 S2]. apply Z.leb_gt in S1.
      assert (Inb : in_idx (bid b) (nb :: idx s) = true)
        by (rewrite in_idx_cons; cbn [nblk nb]; rewrite N.eqb_refl; reflexivity).
      pose proof (path_height _ _ _ _ _ Pnb) as Hh.
      destruct (branch_ok g T Hg Hnd (nb :: idx s) (main s) (nblk t) (main s) (ntd t) OK1 Pt eq_refl
                  b _ _ Pnb Inb (S (Z.to_nat (bht b)))) as (p' & fk & Br & Sp); [lia|].
      rewrite Br.
      eexists (mkS (nb :: idx s) (orph s) (p' ++ drop_until fk (main s)) _), true, td.
      split; [reflexivity|]. split; [|split; reflexivity].
      unfold core; cbn [idx main]. split; [exact OK1|]. split; [exact Rt1|].
      exists nb. split; [left; reflexivity|]. split.
      * rewrite Sp. exact Pnb.
      * intros n [<-|Hn] Hm; [lia|]. specialize (Mx n Hn Hm). cbn [ntd nb]. lia.
Qed.


(** ** orphans *)

Definition orph_ok (s : state) : Prop :=
  forall c, In c (orph s) -> In c T /\ in_idx (bid c) (idx s) = false.

Lemma core_orph : forall s o e, core s -> core (mkS (idx s) o (main s) e).
Proof. intros s o e H. exact H. Qed.

Lemma remove_orph_in : forall h o c, In c (remove_orph h o) <-> In c o /\ bid c <> h.
Proof.
  intros h o c. unfold remove_orph. rewrite filter_In. split; intros [A B]; split; auto.
  - apply negb_true_iff, N.eqb_neq in B. exact B.
  - apply negb_true_iff, N.eqb_neq. exact B.
Qed.

Lemma filter_len : forall A (f : A -> bool) l, (length (filter f l) <= length l)%nat.
Proof. induction l as [|x l IH]; cbn; [lia|]. destruct (f x); cbn; lia. Qed.

Lemma remove_orph_length : forall c o, In c o -> (length (remove_orph (bid c) o) < length o)%nat.
Proof.
  intros c o. induction o as [|x o IH]; intros H; [destruct H|].
  unfold remove_orph in *. cbn [filter length].
  destruct H as [->|H].
  - rewrite N.eqb_refl. cbn [negb].
    pose proof (filter_len _ (fun b => negb (N.eqb (bid b) (bid c))) o). lia.
  - specialize (IH H). destruct (negb (N.eqb (bid x) (bid c))); cbn [length]; lia.
Qed.

Lemma first_child_some : forall p o c, first_child p o = Some c -> In c o /\ bpar c = p.
Proof.
  unfold first_child; intros p o c H. apply find_some in H as [A B].
  apply N.eqb_eq in B. auto.
Qed.

Lemma first_child_none : forall p o c, first_child p o = None -> In c o -> bpar c <> p.
Proof.
  unfold first_child; intros p o c H Hc. eapply find_none in H; [|exact Hc].
  apply N.eqb_neq in H. exact H.
Qed.

(** ProcessOrphans never runs out of fuel, accepts every orphan that became
    connected, and leaves only orphans whose parent is not indexed *)
Lemma porph_ok : forall fuel q s,
  core s -> orph_ok s ->
  (forall c, In c (orph s) -> in_idx (bpar c) (idx s) = true -> In (bpar c) q) ->
  (forall h, In h q -> in_idx h (idx s) = true) ->
  (2 * length (orph s) + length q < fuel)%nat ->
  exists s', porph fuel fin q s = (s', ENone) /\ core s' /\ orph_ok s' /\
    (forall c, In c (orph s') -> in_idx (bpar c) (idx s') = false) /\
    (forall h, in_idx h (idx s) = true -> in_idx h (idx s') = true) /\
    (forall c, In c (orph s) -> In c (orph s') \/ in_idx (bid c) (idx s') = true).
Proof.
  induction fuel as [|f IH]; intros q s C OO Pend Qi Hf; [lia|].
  cbn [porph]. destruct q as [|p q'].
  - exists s. split; [reflexivity|]. split; [exact C|]. split; [exact OO|].
    split; [|split; auto].
    intros c Hc. destruct (in_idx (bpar c) (idx s)) eqn:E; [|reflexivity].
    destruct (Pend c Hc E).
  - destruct (first_child p (orph s)) as [c|] eqn:FC.
    + apply first_child_some in FC as [Hc Hp].
      destruct (OO c Hc) as [HcT Nc].
      set (s0 := mkS (idx s) (remove_orph (bid c) (orph s)) (main s) (evs s)).
      assert (C0 : core s0) by (apply core_orph; exact C).
      destruct (accept_core s0 c C0 HcT Nc) as (s1 & m & td & A & C1 & I1 & O1).
      { cbn [idx s0]. rewrite Hp. apply Qi. left; reflexivity. }
      rewrite A. cbn [idx orph s0] in I1, O1.
      destruct (IH ((p :: q') ++ [bid c]) s1 C1) as (s' & P & C' & OO' & Par' & Gr' & Keep'); cycle -1.
      * exists s'. split; [|split; [exact C'|split; [exact OO'|split; [exact Par'|split]]]].
        -- exact P.
        -- intros h Hh. apply Gr'. rewrite I1, in_idx_cons, Hh. apply orb_true_r.
        -- intros c0 Hc0. destruct (N.eq_dec (bid c0) (bid c)) as [E|E].
           ++ right. apply Gr'. rewrite I1, in_idx_cons. cbn [nblk]. rewrite E, N.eqb_refl. reflexivity.
           ++ apply Keep'. rewrite O1. apply remove_orph_in. auto.
      * intros c0 Hc0. rewrite O1 in Hc0. apply remove_orph_in in Hc0 as [H0 Ne].
        destruct (OO c0 H0) as [T0 N0]. split; [exact T0|].
        rewrite I1, in_idx_cons. cbn [nblk]. rewrite N0.
        apply orb_false_iff; split; [apply N.eqb_neq; congruence|reflexivity].
      * intros c0 Hc0 E. rewrite O1 in Hc0. apply remove_orph_in in Hc0 as [H0 Ne].
        rewrite I1, in_idx_cons in E. cbn [nblk] in E. apply orb_true_iff in E as [E|E].
        -- apply N.eqb_eq in E. apply in_or_app; right; left; exact E.
        -- apply in_or_app; left. apply Pend; auto.
      * intros h Hh. rewrite I1, in_idx_cons. apply in_app_or in Hh as [Hh|[<-|[]]].
        -- rewrite (Qi h Hh); apply orb_true_r.
        -- cbn [nblk]; rewrite N.eqb_refl; reflexivity.
      * rewrite O1, app_length. pose proof (remove_orph_length c (orph s) Hc).
        cbn [length] in *. lia.
    + destruct (IH q' s C OO) as (s' & P & R); try (cbn [length] in Hf; lia).
      * intros c Hc E. destruct (Pend c Hc E) as [X|X]; [|exact X].
        exfalso. eapply first_child_none; eauto.
      * intros h Hh. apply Qi. right; exact Hh.
      * exists s'. split; [exact P|exact R].
Qed.


(** ** the invariant of [deliver]; [D] = the blocks delivered so far *)

Definition inv (D : list block) (s : state) : Prop :=
  core s /\ orph_ok s /\
  (forall c, In c (orph s) -> in_idx (bpar c) (idx s) = false) /\
  (forall b, In b D -> in_idx (bid b) (idx s) = true \/ In b (orph s)).

Lemma inv_init : inv [] (init g).
Proof.
  split; [apply core_init|]. split; [intros c []|]. split; [intros c []|intros b []].
Qed.

Lemma in_orph_true : forall h o, in_orph h o = true <-> exists c, In c o /\ bid c = h.
Proof.
  intros h o. unfold in_orph. rewrite existsb_exists. split; intros (c & A & B); exists c; split; auto.
  - apply N.eqb_eq; exact B.
  - apply N.eqb_eq in B; exact B.
Qed.

Lemma step_inv : forall D s b, inv D s -> In b T -> inv (b :: D) (step fin s b).
Proof.
  intros D s b (C & OO & Par & Del) Hb. unfold step, deliver.
  destruct (in_idx (bid b) (idx s)) eqn:Eb.
  { cbn [fst]. split; [exact C|]. split; [exact OO|]. split; [exact Par|].
    intros d [<-|Hd]; [left; exact Eb|apply Del; exact Hd]. }
  destruct (in_orph (bid b) (orph s)) eqn:Ko.
  { (* a known orphan: its parent is not indexed *)
    apply in_orph_true in Ko as (c & Hc & Ec).
    assert (c = b) by (apply (id_inj T Hnd); [apply OO; exact Hc|exact Hb|exact Ec]). subst c.
    rewrite (Par b Hc). cbn [negb andb fst].
    split; [exact C|]. split; [exact OO|]. split; [exact Par|].
    intros d [<-|Hd]; [right; exact Hc|apply Del; exact Hd]. }
  cbn [andb].
  assert (Nk : forall c, In c (orph s) -> bid c <> bid b).
  { intros c Hc E. assert (X : in_orph (bid b) (orph s) = true)
      by (apply in_orph_true; exists c; auto). congruence. }
  destruct (in_idx (bpar b) (idx s)) eqn:Ep; cbn [negb].
  - (* parent indexed: accept, then process orphans *)
    destruct (accept_core s b C Hb Eb Ep) as (s2 & m & td & A & C2 & I2 & O2).
    rewrite A.
    destruct (porph_ok (porph_fuel s2) [bid b] s2 C2) as (s3 & P & C3 & OO3 & Par3 & Gr & Keep).
    + intros c Hc. rewrite O2 in Hc. destruct (OO c Hc) as [T0 N0]. split; [exact T0|].
      rewrite I2, in_idx_cons. cbn [nblk]. rewrite N0.
      apply orb_false_iff; split; [apply N.eqb_neq; intros E; apply (Nk c Hc); congruence|reflexivity].
    + intros c Hc E. rewrite O2 in Hc. rewrite I2, in_idx_cons, (Par c Hc) in E.
      cbn [nblk] in E. rewrite orb_false_r in E. apply N.eqb_eq in E. left; exact E.
    + intros h [<-|[]]. rewrite I2, in_idx_cons. cbn [nblk]. rewrite N.eqb_refl. reflexivity.
    + unfold porph_fuel. cbn [length]. lia.
    + rewrite P. cbn [fst].
      split; [exact C3|]. split; [exact OO3|]. split; [exact Par3|].
      intros d [<-|Hd].
      * left. apply Gr. rewrite I2, in_idx_cons. cbn [nblk]. rewrite N.eqb_refl. reflexivity.
      * destruct (Del d Hd) as [X|X].
        -- left. apply Gr. rewrite I2, in_idx_cons, X. apply orb_true_r.
        -- rewrite <- O2 in X. destruct (Keep d X) as [Y|Y]; [right; exact Y|left; exact Y].
  - (* parent unknown: orphan *)
    cbn [fst idx orph main evs].
    split; [exact C|]. split; [|split].
    + intros c Hc. apply in_app_or in Hc as [Hc|[<-|[]]]; [apply OO; exact Hc|].
      split; [exact Hb|exact Eb].
    + intros c Hc. apply in_app_or in Hc as [Hc|[<-|[]]]; [apply Par; exact Hc|exact Ep].
    + intros d [<-|Hd]; [right; apply in_or_app; right; left; reflexivity|].
      destruct (Del d Hd) as [X|X]; [left; exact X|right; apply in_or_app; left; exact X].
Qed.

Lemma run_inv : forall order, (forall b, In b order -> In b T) ->
  forall D s, inv D s -> inv (rev order ++ D) (fold_left (step fin) order s).
Proof.
  induction order as [|b order IH]; intros HT D s I; cbn [fold_left rev app]; [exact I|].
  rewrite <- app_assoc. cbn [app]. apply IH.
  - intros x Hx. apply HT. right; exact Hx.
  - apply step_inv; [exact I|]. apply HT. left; reflexivity.
Qed.

(** ** convergence *)

Lemma converges : forall order H lH tdH,
  (forall b, In b order -> In b T) ->
  (forall b, In b T -> b = g \/ In b order) ->
  path g T H lH tdH ->
  (forall x l td, path g T x l td -> x <> H -> td < tdH) ->
  fin + margin <= bht H ->
  let s := run fin g order in
  tip s = bid H /\ main s = lH /\ tip_td s = tdH.
Proof.
  intros order H lH tdH Hsub Hall PH Hmax Hm s.
  assert (I : inv (rev order ++ []) s) by (apply run_inv; [exact Hsub|apply inv_init]).
  destruct I as ((OK & Rt & t & Ht & Pt & Mx) & OO & Par & Del).
  assert (All : forall b l td, path g T b l td -> in_idx (bid b) (idx s) = true).
  { intros b l td P. induction P as [|b p l td Hb Pp IH Hpar Hht]; [exact Rt|].
    destruct (Hall b Hb) as [->|Ho]; [exact Rt|].
    destruct (Del b) as [X|X]; [apply in_or_app; left; apply in_rev in Ho; exact Ho|exact X|].
    apply Par in X. rewrite Hpar, IH in X. discriminate. }
  apply All in PH as InH. apply in_idx_true in InH as (n & Hn & En).
  destruct (OK _ Hn) as [[ln Pn] _].
  assert (Bn : nblk n = H).
  { apply (id_inj T Hnd); [eapply (path_in g T Hg); eauto|eapply (path_in g T Hg); eauto|exact En]. }
  rewrite Bn in Pn. destruct (path_fun g T Hg Hnd _ _ _ PH _ _ Pn) as [_ Etd].
  assert (Le : tdH <= ntd t) by (rewrite <- Etd; apply Mx; [exact Hn|rewrite Bn; exact Hm]).
  assert (Bt : nblk t = H).
  { destruct (N.eq_dec (bid (nblk t)) (bid H)) as [E|E].
    - apply (id_inj T Hnd); [eapply (path_in g T Hg); eauto|eapply (path_in g T Hg); eauto|exact E].
    - assert (X : ntd t < tdH) by (eapply Hmax; [exact Pt|intros Q; apply E; rewrite Q; reflexivity]).
      lia. }
  rewrite Bt in Pt. destruct (path_fun g T Hg Hnd _ _ _ PH _ _ Pt) as [El Et].
  destruct (path_head _ _ _ _ _ PH) as [l' E'].
  assert (Tip : tip s = bid H) by (unfold tip; rewrite El, E'; reflexivity).
  split; [exact Tip|]. split; [exact El|].
  unfold tip_td. rewrite Tip.
  destruct (find_node_in _ _ Ht) as [t' Ft]. rewrite Bt in Ft. rewrite Ft.
  apply find_node_some in Ft as [Ht' Et'].
  assert (t' = t) by (apply (node_eq g T Hg Hnd (idx s)); auto; congruence). subst t'. exact Et.
Qed.

End Conv.

(** * concrete instances *)

(** Non-vacuity: a root at height 20, a trunk of two blocks and a heavier side
    branch of three blocks delivered children-first with a duplicate: the
    node ends on the side branch. *)
Lemma converges_example :
  let g := mkB 0 99 20 5 in
  let T := [g; mkB 1 0 21 5; mkB 2 1 22 5; mkB 3 0 21 5; mkB 4 3 22 5; mkB 5 4 23 5] in
  let order := [mkB 5 4 23 5; mkB 2 1 22 5; mkB 4 3 22 5; mkB 1 0 21 5; mkB 5 4 23 5; mkB 3 0 21 5] in
  let s := run 0 g order in
  path g T (mkB 5 4 23 5) [5; 4; 3; 0]%N 20 /\
  tip s = 5%N /\ main s = [5; 4; 3; 0]%N /\ tip_td s = 20.
Proof.
  cbv zeta. split; [|vm_compute; repeat split].
  apply (path_step _ _ (mkB 5 4 23 5) (mkB 4 3 22 5) [4; 3; 0]%N 15); [cbn; tauto| |reflexivity|reflexivity].
  apply (path_step _ _ (mkB 4 3 22 5) (mkB 3 0 21 5) [3; 0]%N 10); [cbn; tauto| |reflexivity|reflexivity].
  apply (path_step _ _ (mkB 3 0 21 5) (mkB 0 99 20 5) [0]%N 5); [cbn; tauto| |reflexivity|reflexivity].
  apply path_root.
Qed.

(** The height guard is necessary: below [fin + 12] the code never reorganises,
    so the outcome depends on the delivery order (same three blocks, two orders). *)
Lemma below_margin_order_dependent :
  let g := mkB 0 99 0 5 in
  let a := mkB 1 0 1 5 in let b := mkB 2 0 1 9 in
  tip (run 0 g [a; b]) = 1%N /\ tip (run 0 g [b; a]) = 2%N.
Proof. vm_compute. split; reflexivity. Qed.
