(** C25 — the guard evaluated by the correspondence check is the theorems'
    guard: when [agree_x] accepts a case, the accumulator it returns is
    [xrun_acc] over the case's events written out as a history. *)
From Coq Require Import List ZArith NArith Bool Lia.
From C33 Require Import Lib.Harness C25.Model C25.ModelExt C25.Check.
Import ListNotations.
Open Scope Z_scope.

Fixpoint junk_events (n : nat) (now : Z) (id : N) : list xev :=
  match n with
  | O => []
  | S k => Dl now (junk_block id) :: junk_events k now (id + 1)%N
  end.

Definition expand_ev (T : list block) (e : cev) : list xev :=
  match e with
  | CD now id => match ev_block T id with Some b => [Dl now b] | None => [] end
  | CF h id => [Fz h id]
  | CJ now id0 n => junk_events (N.to_nat n) now id0
  end.

Definition expand (T : list block) (evs : list cev) : list xev := flat_map (expand_ev T) evs.

Lemma junk_run_acc : forall P n now id a ok,
  fst (junk_run P n now id a ok) = xrun_acc P a (junk_events n now id).
Proof.
  induction n as [|k IH]; intros now id a ok; cbn [junk_run junk_events]; [reflexivity|].
  destruct (xstep_acc_o P a (Dl now (junk_block id))) as [a1 mo] eqn:X.
  rewrite IH. unfold xrun_acc at 2. cbn [fold_left]. unfold xstep_acc at 2. rewrite X. reflexivity.
Qed.

Lemma agree_x_acc : forall P T evs obs a ok a' ok',
  agree_x P T a ok evs obs = Some (a', ok') -> a' = xrun_acc P a (expand T evs).
Proof.
  intros P T evs. induction evs as [|e evs IH]; intros obs a ok a' ok'; destruct obs as [|o obs]; cbn [agree_x];
    try discriminate.
  { intros H; injection H as <- _. reflexivity. }
  unfold expand. cbn [flat_map]. fold (expand T evs). unfold xrun_acc. rewrite fold_left_app.
  fold (xrun_acc P a (expand_ev T e)). fold (xrun_acc P (xrun_acc P a (expand_ev T e)) (expand T evs)).
  assert (St : forall nx, (exists k, nx = Some (xrun_acc P a (expand_ev T e), k)) \/ nx = None ->
          match nx with
          | Some (a1, k) => agree_x P T a1 (ok && k && readback_ok (acc_state a1) o) evs obs
          | None => None
          end = Some (a', ok') -> a' = xrun_acc P (xrun_acc P a (expand_ev T e)) (expand T evs)).
  { intros nx [[k ->]| ->]; [|discriminate]. apply IH. }
  apply St. destruct e as [now id|h id|now id0 n]; cbn [expand_ev].
  - destruct (ev_block T id) as [b|]; [|right; reflexivity].
    destruct (xstep_acc_o P a (Dl now b)) as [a1 mo] eqn:X. left. eexists.
    unfold xrun_acc. cbn [fold_left]. unfold xstep_acc. rewrite X. reflexivity.
  - destruct (xstep_acc_o P a (Fz h id)) as [a1 mo] eqn:X. left. eexists.
    unfold xrun_acc. cbn [fold_left]. unfold xstep_acc. rewrite X. reflexivity.
  - destruct (junk_base <=? id0)%N; [|right; reflexivity]. left.
    destruct (junk_run P (N.to_nat n) now id0 a (result_ok (mkO false true ENone []) o)) as [a1 k] eqn:J.
    exists k. pose proof (junk_run_acc P (N.to_nat n) now id0 a (result_ok (mkO false true ENone []) o)) as E.
    rewrite J in E. cbn [fst] in E. rewrite E. reflexivity.
Qed.

(** the accumulator that [model_ok_x] hands to the spec - whether or not the
    node agreed with the model: the final state, the held hashes and the steady
    flag of the expanded history, i.e. the arguments of [kept_all] and [steady] *)
Lemma check_guard_is_theorem_guard : forall P T evs obs fmain pool g T' a ok,
  T = g :: T' -> model_ok_x P T evs obs fmain pool = Some (a, ok) ->
  acc_state a = xrun P g 0 (expand T evs) /\
  snd (fst a) = held_of P g 0 (expand T evs) /\
  snd a = steady P g 0 (expand T evs).
Proof.
  intros P T evs obs fmain pool g T' a ok -> H. unfold model_ok_x in H.
  destruct (agree_x P (g :: T') (xinit g 0, [], true) true evs obs) as [[a1 ok1]|] eqn:A; [|discriminate].
  injection H as <- _.
  apply agree_x_acc in A. unfold held_of, steady, acc_state. rewrite A.
  split; [|split; reflexivity].
  clear. generalize (expand (g :: T') evs). intros hist. unfold xrun.
  generalize (xinit g 0) ([] : list N) true. induction hist as [|e hist IH]; intros s held ok; [reflexivity|].
  unfold xrun_acc, xrun_from. cbn [fold_left]. fold (xrun_acc P). fold (xrun_from P).
  unfold xstep_acc, xstep_acc_o. destruct (xstep P s e) as [s1 o]. cbn [fst]. destruct e; apply IH.
Qed.
