(** C25 — the spec oracle for runs with the orphan-pool limits and a moving
    finalizer, evaluated on what the node returned.

    * linked: the best chain is the ancestor list of a delivered block connected
      to the root through delivered blocks (as in Spec.v);
    * on-chain: after every event the finalizer's choice (height, hash) is the
      block of the best chain at that height;
    * stays: a block that was the finalizer's choice at some point is on the
      best chain at every later point (the code does not meet this one: known
      finding 1);
    * converges: when the theorem's guard holds for the inputs (no connected
      block was dropped after its last delivery, no delivery lowered the
      choice) and, among the connected blocks on branches through the finally
      chosen block, the one of greatest total difficulty is unique and at least
      12 above the chosen height, the best chain is its ancestor list. *)
From Coq Require Import List ZArith NArith Bool.
From C33 Require Import Lib.Harness C25.Model C25.Spec C25.ModelExt.
Import ListNotations.
Open Scope Z_scope.

Definition nilid : N := 999998.     (* stands for the empty hash of a finalizer that never chose *)

Definition lookup_block (h : N) (T : list block) : option block :=
  find (fun b => N.eqb (bid b) h) T.

(** ancestors of [h] (itself first) by parent hashes inside [T] *)
Fixpoint anc (fuel : nat) (T : list block) (h : N) : list N :=
  match fuel with
  | O => []
  | S f => match lookup_block h T with
           | Some b => h :: anc f T (bpar b)
           | None => []
           end
  end.

Definition height_of (T : list block) (h : N) : Z :=
  match lookup_block h T with Some b => bht b | None => -1 end.

(** what is read back after an event: tip hash, finalized height and hash *)
Definition pobs : Type := (N * Z * N)%type.

Definition on_chain (T : list block) (o : pobs) : bool :=
  match o with
  | (tp, fh, fid) =>
      N.eqb fid nilid || (memN fid (anc (length T) T tp) && (height_of T fid =? fh))
  end.

Definition all_on_chain (T : list block) (obs : list pobs) : bool := forallb (on_chain T) obs.

(** index of the first event after which a formerly chosen block is off the best chain *)
Fixpoint first_left (T : list block) (seen : list N) (k : N) (obs : list pobs) : option N :=
  match obs with
  | [] => None
  | (tp, fh, fid) :: tl =>
      let a := anc (length T) T tp in
      if forallb (fun f => memN f a) seen
      then first_left T (if N.eqb fid nilid || memN fid seen then seen else fid :: seen) (k + 1)%N tl
      else Some k
  end.

(** the known finding's signature at event [k] (previous observation [p], this
    one [o], [isdl]: the event is the delivery of a block): the choice was
    lowered to the fork point of the old and the new best chain *)
Definition lca (T : list block) (t1 t2 : N) : N :=
  let a1 := anc (length T) T t1 in
  match find (fun h => memN h a1) (anc (length T) T t2) with Some h => h | None => nilid end.

Definition reset_signature (T : list block) (isdl : bool) (p o : pobs) : bool :=
  match p, o with
  | (tp0, fh0, fid0), (tp1, fh1, fid1) =>
      isdl && negb (N.eqb tp0 tp1) && (fh1 <? fh0) &&
      N.eqb fid1 (lca T tp0 tp1) && negb (N.eqb fid1 nilid) && (height_of T fid1 =? fh1) &&
      negb (memN fid0 (anc (length T) T tp1))
  end.

(** convergence among the branches through the chosen block *)
Definition through_b (fid : N) (l : list N) : bool := N.eqb fid nilid || memN fid l.

Definition expected_main_x (fh : Z) (fid : N) (R : list entry) : option (list N) :=
  let C := filter (fun e => through_b fid (snd e)) R in
  match heaviest C with
  | [(h, _, l)] => if fh + 12 <=? bht h then Some l else None
  | _ => None
  end.

Definition linked (R : list entry) (fmain : list N) : bool :=
  match fmain with
  | [] => false
  | h :: _ => match lookup h R with
              | Some (_, _, l) => list_eqb N.eqb fmain l
              | None => false
              end
  end.

(** [fmain]: the node's best chain, tip first; [guard]: the theorem's guard for
    the inputs; ([fh], [fid]): the finalizer's choice at the end *)
Definition converges_x (guard : bool) (fh : Z) (fid : N) (R : list entry) (fmain : list N) : bool :=
  if guard then
    match expected_main_x fh fid R with
    | Some l => list_eqb N.eqb fmain l
    | None => true
    end
  else true.
