(** C25 — the abstract spec as an executable oracle.

    Given the block tree [T] (root first) and the set of delivered hashes, the
    blocks that can be part of any chain are those connected to the root
    through delivered blocks.  Each gets its total difficulty and its ancestor
    list.  The property: when the connected block of greatest total difficulty
    is unique and its height is at least [fin + 12], the best chain is exactly
    its ancestor list.  Independently of that guard the best chain must be the
    ancestor list of *some* connected delivered block. *)
From Coq Require Import List ZArith NArith Bool.
From C33 Require Import Lib.Harness C25.Model.
Import ListNotations.
Open Scope Z_scope.

Definition entry : Type := (block * Z * list N)%type.   (* block, total difficulty, ancestors (self first) *)

Definition lookup (h : N) (R : list entry) : option entry :=
  find (fun e => N.eqb (bid (fst (fst e))) h) R.

Definition pass (del : list N) (T : list block) (R : list entry) : list entry :=
  fold_left (fun R b =>
    match lookup (bid b) R with
    | Some _ => R
    | None =>
        if memN (bid b) del then
          match lookup (bpar b) R with
          | Some (p, td, l) =>
              if bht b =? bht p + 1 then (b, td + bdiff b, bid b :: l) :: R else R
          | None => R
          end
        else R
    end) T R.

Fixpoint iter {A} (n : nat) (f : A -> A) (x : A) : A :=
  match n with O => x | S k => iter k f (f x) end.

Definition connected (T : list block) (del : list N) : list entry :=
  match T with
  | [] => []
  | g :: _ => iter (length T) (pass del T) [(g, bdiff g, [bid g])]
  end.

Definition max_td (R : list entry) : Z :=
  fold_left (fun m e => Z.max m (snd (fst e))) R (-1).

Definition heaviest (R : list entry) : list entry :=
  let m := max_td R in filter (fun e => snd (fst e) =? m) R.

(** [Some ancestors] when the guard of the property holds *)
Definition expected_main (fin : Z) (T : list block) (del : list N) : option (list N) :=
  match heaviest (connected T del) with
  | [(h, _, l)] => if fin + 12 <=? bht h then Some l else None
  | _ => None
  end.

(** [fmain]: the implementation's best chain, tip first *)
Definition spec_ok (fin : Z) (T : list block) (del : list N) (fmain : list N) : bool :=
  let R := connected T del in
  let linked :=
    match fmain with
    | [] => false
    | h :: _ => match lookup h R with
                | Some (_, _, l) => list_eqb N.eqb fmain l
                | None => false
                end
    end in
  let conv :=
    match expected_main fin T del with
    | Some l => list_eqb N.eqb fmain l
    | None => true
    end in
  linked && conv.

Definition guard_holds (fin : Z) (T : list block) (del : list N) : bool :=
  match expected_main fin T del with Some _ => true | None => false end.
