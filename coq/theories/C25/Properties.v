(** C25 — property theorems only. *)
From Coq Require Import List ZArith NArith.
From C33 Require Import C25.Model C25.Proofs C25.Proofs2.
Import ListNotations.
Open Scope Z_scope.

(** Convergence.  [T] is any finite set of blocks containing the root [g]
    (the block the node starts from), with distinct hashes, every block
    connected to [g] by parent links with consistent heights ([path]), and
    non-negative difficulties.  [order] is any delivery sequence over [T] that
    contains every block at least once (any order, any duplicates).  If [H] is
    the unique block of greatest total difficulty and its height is at least
    [fin + 12], then after the deliveries the tip is [H], the best chain view
    is exactly [H]'s ancestor list, and the total difficulty stored for the
    tip is [H]'s. *)
Theorem C25_converges : forall (fin : Z) (g : block) (T : list block),
  In g T -> NoDup (map bid T) ->
  (forall b, In b T -> exists l td, path g T b l td) ->
  (forall b, In b T -> 0 <= bdiff b) ->
  0 <= bht g ->
  forall order H lH tdH,
  (forall b, In b order -> In b T) ->
  (forall b, In b T -> b = g \/ In b order) ->
  path g T H lH tdH ->
  (forall x l td, path g T x l td -> x <> H -> td < tdH) ->
  fin + 12 <= bht H ->
  let s := run fin g order in
  tip s = bid H /\ main s = lH /\ tip_td s = tdH.
Proof. exact converges. Qed.
Print Assumptions C25_converges.

(** Non-vacuity of the hypotheses: a root at height 20, a trunk of two blocks
    and a heavier side branch of three blocks delivered children-first with a
    duplicate: the node ends on the side branch. *)
Theorem C25_converges_nonvacuous :
  let g := mkB 0 99 20 5 in
  let T := [g; mkB 1 0 21 5; mkB 2 1 22 5; mkB 3 0 21 5; mkB 4 3 22 5; mkB 5 4 23 5] in
  let order := [mkB 5 4 23 5; mkB 2 1 22 5; mkB 4 3 22 5; mkB 1 0 21 5; mkB 5 4 23 5; mkB 3 0 21 5] in
  let s := run 0 g order in
  path g T (mkB 5 4 23 5) [5; 4; 3; 0]%N 20 /\
  tip s = 5%N /\ main s = [5; 4; 3; 0]%N /\ tip_td s = 20.
Proof. exact converges_example. Qed.
Print Assumptions C25_converges_nonvacuous.

(** The height guard is necessary: below [fin + 12] the code never
    reorganises, so the outcome depends on the delivery order. *)
Theorem C25_below_margin_order_dependent :
  let g := mkB 0 99 0 5 in
  let a := mkB 1 0 1 5 in let b := mkB 2 0 1 9 in
  tip (run 0 g [a; b]) = 1%N /\ tip (run 0 g [b; a]) = 2%N.
Proof. exact below_margin_order_dependent. Qed.
Print Assumptions C25_below_margin_order_dependent.
