(** C25 — property theorems only. *)
From Coq Require Import List ZArith NArith.
From C33 Require Import C25.Model C25.Proofs C25.Proofs2.
From C33 Require Import C25.ModelExt C25.ProofsExt C25.ProofsExt4 C25.ProofsExt5 C25.Check C25.ProofsCheck.
Import ListNotations.
Open Scope Z_scope.

(** Convergence.  [T] is any finite set of blocks containing the root [g]
    (the block the node starts from), with distinct hashes, every block
    connected to [g] by parent links with consistent heights ([path]), and
    non-negative difficulties.  [order] is any delivery sequence over [T] that
    contains every block at least once (any order, any duplicates).  If [H] is
    the unique block of greatest total difficulty and its height is at least
    [fin + 12], then after the deliveries the tip is [H], the best chain view
    is exactly [H]'s ancestor list, and the total difficulty stored for the
    tip is [H]'s. *)
Theorem C25_converges : forall (fin : Z) (g : block) (T : list block),
  In g T -> NoDup (map bid T) ->
  (forall b, In b T -> exists l td, path g T b l td) ->
  (forall b, In b T -> 0 <= bdiff b) ->
  0 <= bht g ->
  forall order H lH tdH,
  (forall b, In b order -> In b T) ->
  (forall b, In b T -> b = g \/ In b order) ->
  path g T H lH tdH ->
  (forall x l td, path g T x l td -> x <> H -> td < tdH) ->
  fin + 12 <= bht H ->
  let s := run fin g order in
  tip s = bid H /\ main s = lH /\ tip_td s = tdH.
Proof. exact converges. Qed.
Print Assumptions C25_converges.

(** Non-vacuity of the hypotheses: a root at height 20, a trunk of two blocks
    and a heavier side branch of three blocks delivered children-first with a
    duplicate: the node ends on the side branch. *)
Theorem C25_converges_nonvacuous :
  let g := mkB 0 99 20 5 in
  let T := [g; mkB 1 0 21 5; mkB 2 1 22 5; mkB 3 0 21 5; mkB 4 3 22 5; mkB 5 4 23 5] in
  let order := [mkB 5 4 23 5; mkB 2 1 22 5; mkB 4 3 22 5; mkB 1 0 21 5; mkB 5 4 23 5; mkB 3 0 21 5] in
  let s := run 0 g order in
  path g T (mkB 5 4 23 5) [5; 4; 3; 0]%N 20 /\
  tip s = 5%N /\ main s = [5; 4; 3; 0]%N /\ tip_td s = 20.
Proof. exact converges_example. Qed.
Print Assumptions C25_converges_nonvacuous.

(** The height guard is necessary: below [fin + 12] the code never
    reorganises, so the outcome depends on the delivery order. *)
Theorem C25_below_margin_order_dependent :
  let g := mkB 0 99 0 5 in
  let a := mkB 1 0 1 5 in let b := mkB 2 0 1 9 in
  tip (run 0 g [a; b]) = 1%N /\ tip (run 0 g [b; a]) = 2%N.
Proof. exact below_margin_order_dependent. Qed.
Print Assumptions C25_below_margin_order_dependent.

(** * The extended model (ModelExt.v): orphan-pool limits, a finalizer that
      moves, best-block comparison *)

(** Conservativity.  With best-block comparison off, a history of deliveries
    during which nothing leaves the orphan pool unindexed (nothing expires, the
    limit is not reached, no orphan is rejected) and no delivery moves the
    finalizer's choice ([plain], computed by the extended model) is a run of
    Model.v with the initial finalized height as its constant: same index, pool
    (in order), best chain view, connect/disconnect trace, and the same
    ProcessBlock results at every delivery. *)
Theorem C25_ext_conservative : forall P g fin0 hist,
  pebc P = false -> plain P (xinit g fin0) hist = true ->
  base_of (xrun P g fin0 hist) = run fin0 g (blocks_of hist) /\
  map out3 (xouts P (xinit g fin0) hist) = outs fin0 (init g) (blocks_of hist) /\
  xfin (xrun P g fin0 hist) = fin0.
Proof. exact conservative. Qed.
Print Assumptions C25_ext_conservative.

Theorem C25_ext_conservative_nonvacuous :
  let g := mkB 0 99 20 5 in
  let order := [mkB 5 4 23 5; mkB 2 1 22 5; mkB 4 3 22 5; mkB 1 0 21 5; mkB 5 4 23 5; mkB 3 0 21 5] in
  plain (noP 10240 600) (xinit g 0) (map (Dl 7) order) = true /\
  xmain (xrun (noP 10240 600) g 0 (map (Dl 7) order)) = [5; 4; 3; 0]%N.
Proof. exact conservative_example. Qed.
Print Assumptions C25_ext_conservative_nonvacuous.

(** Convergence under the pool limits and a moving finalizer.  [T]: the tree as
    in C25_converges; [J]: any further blocks whose parent is not in [T]
    (unconnected blocks; hashes distinct from each other and from [T]'s).
    [hist]: deliveries (with receive times) of blocks of [T] and [J] and finalize
    events, in any order.  Guards (booleans computed by the model from the
    history): [kept_all] - every block of [T] was delivered and not dropped
    from the pool (expired, pushed out, rejected) after its last delivery;
    [steady] - no delivery lowered the finalizer's choice.  Then: if [H] is the
    unique heaviest block among the branches through the finally chosen block
    (among all blocks when the finalizer never chose) and at least 12 above the
    chosen height, the best chain is [H]'s ancestor list. *)
Theorem C25_ext_converges : forall (P : params) (g : block) (T J : list block),
  In g T -> NoDup (map bid (T ++ J)) ->
  (forall b, In b T -> exists l td, path g T b l td) ->
  (forall b, In b T -> 0 <= bdiff b) ->
  0 <= bht g ->
  (forall j, In j J -> ~ In (bpar j) (map bid T)) ->
  forall fin0 hist H lH tdH,
  (forall now b, In (Dl now b) hist -> In b (T ++ J)) ->
  kept_all P g fin0 T hist = true ->
  steady P g fin0 hist = true ->
  let s := xrun P g fin0 hist in
  path g T H lH tdH ->
  through (xfh s) lH ->
  (forall x l td, path g T x l td -> through (xfh s) l -> x <> H -> td < tdH) ->
  xfin s + 12 <= bht H ->
  xtip s = bid H /\ xmain s = lH /\ xtip_td s = tdH.
Proof. exact ext_converges. Qed.
Print Assumptions C25_ext_converges.

(** every hypothesis at once on a history that drops a needed block (delivered
    again later) and an unconnected one, and finalizes block 2: the heaviest
    block overall (22, on a branch not through 2) is not the tip; the heaviest
    through 2 is *)
Theorem C25_ext_converges_nonvacuous :
  let P := noP 2 600 in
  tree_ok w4_g w4_T w4_J = true /\ in_universeb w4_T w4_J w4_hist = true /\
  map o_lost (xouts P (xinit w4_g 0) w4_hist) =
    [[]; []; []; []; []; []; []; []; [97%N]; [4%N]; []; []; []; []; []; []; []; []; []; []; []] /\
  kept_all P w4_g 0 w4_T w4_hist = true /\ steady P w4_g 0 w4_hist = true /\
  let s := xrun P w4_g 0 w4_hist in
  xfin s = 2 /\ xfh s = Some 2%N /\
  pathb 20 w4_g w4_T (w4_b 13) = Some ([14; 13; 12; 11; 10; 9; 8; 7; 6; 5; 4; 3; 2; 1; 0]%N, 75) /\
  heaviest_through w4_g w4_T (xfh s) (w4_b 13) 75 = true /\
  heaviest_through w4_g w4_T None (w4_b 13) 75 = false /\
  xfin s + margin <=? bht (w4_b 13) = true /\
  xmain s = [14; 13; 12; 11; 10; 9; 8; 7; 6; 5; 4; 3; 2; 1; 0]%N /\ xtip_td s = 75.
Proof. exact ext_converges_guards_example. Qed.
Print Assumptions C25_ext_converges_nonvacuous.

(** the boolean forms used in the instances imply the hypotheses *)
Theorem C25_tree_ok_sound : forall g T J, tree_ok g T J = true -> tree_hyps g T J.
Proof. exact tree_ok_sound. Qed.
Print Assumptions C25_tree_ok_sound.

Theorem C25_heaviest_through_sound : forall g T J fo H tdH, tree_hyps g T J ->
  heaviest_through g T fo H tdH = true ->
  forall x l td, path g T x l td -> through fo l -> x <> H -> td < tdH.
Proof. exact heaviest_through_sound. Qed.
Print Assumptions C25_heaviest_through_sound.

(** The [kept_all] guard is necessary: "every block was delivered at least
    once" is not enough, an evicted ancestor stops the cascade. *)
Theorem C25_converges_unkept_refuted : ~ converges_unkept_full.
Proof. exact converges_unkept_refuted. Qed.
Print Assumptions C25_converges_unkept_refuted.

(** the refutation's history (pool limit 2): block 3 is pushed out by an
    unconnected block, the tip stays at 2; delivering 3 again converges *)
Theorem C25_evicted_ancestor_example :
  let P := noP 2 600 in
  map o_lost (xouts P (xinit w2_g 0) w2_hist) = [[]; []; [3%N]; []] /\
  kept_all P w2_g 0 w2_T w2_hist = false /\
  xtip (xrun P w2_g 0 w2_hist) = 2%N /\
  let again := w2_hist ++ [Dl 4 (mkB 3 2 23 5)] in
  kept_all P w2_g 0 w2_T again = true /\ steady P w2_g 0 again = true /\
  xmain (xrun P w2_g 0 again) = [3; 2; 1; 0]%N.
Proof. exact evicted_ancestor_example. Qed.
Print Assumptions C25_evicted_ancestor_example.

Theorem C25_expired_ancestor_example :
  let P := noP 10240 600 in
  let hist := [Dl 0 (mkB 3 2 23 5); Dl 601 (mkB 2 1 22 5); Dl 602 (mkB 1 0 21 5)] in
  map o_lost (xouts P (xinit w2_g 0) hist) = [[]; [3%N]; []] /\
  xtip (xrun P w2_g 0 hist) = 2%N /\
  xmain (xrun P w2_g 0 (hist ++ [Dl 603 (mkB 3 2 23 5)])) = [3; 2; 1; 0]%N.
Proof. exact expired_ancestor_example. Qed.
Print Assumptions C25_expired_ancestor_example.

(** Re-delivery.  After ANY history [pre] (whatever the pool dropped), a suffix
    that delivers every block of the tree after its parent ([parents_first];
    finalize events anywhere) leaves nothing dropped: [kept_all] holds for the
    whole history, hence convergence (when no delivery lowered the choice). *)
Theorem C25_redelivery_converges : forall (P : params) (g : block) (T J : list block),
  In g T -> NoDup (map bid (T ++ J)) ->
  (forall b, In b T -> exists l td, path g T b l td) ->
  (forall b, In b T -> 0 <= bdiff b) ->
  0 <= bht g ->
  (forall j, In j J -> ~ In (bpar j) (map bid T)) ->
  forall fin0 pre suf H lH tdH,
  (forall now b, In (Dl now b) pre -> In b (T ++ J)) ->
  (forall now b, In (Dl now b) suf -> In b (T ++ J)) ->
  parents_first [bid g] suf = true ->
  (forall b, In b T -> b = g \/ In b (blocks_of suf)) ->
  steady P g fin0 (pre ++ suf) = true ->
  let s := xrun P g fin0 (pre ++ suf) in
  path g T H lH tdH ->
  through (xfh s) lH ->
  (forall x l td, path g T x l td -> through (xfh s) l -> x <> H -> td < tdH) ->
  xfin s + 12 <= bht H ->
  xtip s = bid H /\ xmain s = lH /\ xtip_td s = tdH.
Proof. exact redelivery_converges. Qed.
Print Assumptions C25_redelivery_converges.

(** The finalizer's choice is on the best chain after every history: the chosen
    hash is in the view and indexed at the chosen height. *)
Theorem C25_finalizer_on_best_chain : forall (P : params) (g : block) (T J : list block),
  In g T -> NoDup (map bid (T ++ J)) ->
  (forall b, In b T -> exists l td, path g T b l td) ->
  (forall b, In b T -> 0 <= bdiff b) ->
  0 <= bht g ->
  (forall j, In j J -> ~ In (bpar j) (map bid T)) ->
  forall fin0 hist,
  (forall now b, In (Dl now b) hist -> In b (T ++ J)) ->
  let s := xrun P g fin0 hist in
  forall f, xfh s = Some f -> In f (xmain s) /\ node_height f (xidx s) = Some (xfin s).
Proof. exact finalizer_on_best_chain. Qed.
Print Assumptions C25_finalizer_on_best_chain.

(** "A block the finalizer chose stays on the best chain for every later
    history": the code does not meet it.  connectBestChain does not refuse a
    heavier branch that forks below the finalized height and reaches
    finalized + 12: it lowers the choice to the fork point and reorganises
    (known finding 1, reproduced on nodes by the harness). *)
Theorem C25_finalized_stays_refuted : ~ finalized_stays_full.
Proof. exact finalized_stays_refuted. Qed.
Print Assumptions C25_finalized_stays_refuted.

Theorem C25_finalized_reset_example :
  let s := xrun (noP 10240 600) w1_g 0 (w1_pre ++ w1_suf) in
  xfin s = 1 /\ xfh s = Some 1%N /\ xtip s = 16%N /\
  steady (noP 10240 600) w1_g 0 (w1_pre ++ w1_suf) = false.
Proof. exact finalized_reset_example. Qed.
Print Assumptions C25_finalized_reset_example.

(** What holds: the chosen block stays for every later history when every
    block off its branches is below its height + 12 ([fin_safe], a boolean over
    the tree) ... *)
Theorem C25_finalized_stays_partial : forall P g T J fin0 pre suf f,
  tree_hyps g T J -> in_universe T J pre -> in_universe T J suf ->
  let s1 := xrun P g fin0 pre in
  xfh s1 = Some f ->
  fin_safe g T f (xfin s1) = true ->
  In f (xmain (xrun P g fin0 (pre ++ suf))).
Proof. exact finalized_stays_partial. Qed.
Print Assumptions C25_finalized_stays_partial.

(** ... and, whatever the tree, as long as no later delivery lowers the choice
    ([steady_from], computed by the model from the later history). *)
Theorem C25_finalized_stays_steady : forall (P : params) (g : block) (T J : list block),
  In g T -> NoDup (map bid (T ++ J)) ->
  (forall b, In b T -> exists l td, path g T b l td) ->
  (forall b, In b T -> 0 <= bdiff b) ->
  0 <= bht g ->
  (forall j, In j J -> ~ In (bpar j) (map bid T)) ->
  forall fin0 pre suf f,
  in_universe T J pre -> in_universe T J suf ->
  xfh (xrun P g fin0 pre) = Some f ->
  steady_from P (xrun P g fin0 pre) suf = true ->
  In f (xmain (xrun P g fin0 (pre ++ suf))).
Proof. exact finalized_stays_steady. Qed.
Print Assumptions C25_finalized_stays_steady.

(** the guard on a non-trivial instance: the witness tree with the competing
    (heavier) branch one block shorter *)
Theorem C25_finalized_stays_nonvacuous :
  tree_ok w1_g w1_T' [] = true /\
  xfh (xrun (noP 10240 600) w1_g 0 w1_pre) = Some 2%N /\
  fin_safe w1_g w1_T' 2%N (xfin (xrun (noP 10240 600) w1_g 0 w1_pre)) = true /\
  xmain (xrun (noP 10240 600) w1_g 0 (w1_pre ++ w1_suf')) = [3; 2; 1; 0]%N.
Proof. exact finalized_stays_example. Qed.
Print Assumptions C25_finalized_stays_nonvacuous.

(** Observations about the code as modelled. *)
Theorem C25_stale_pointer_example :
  let P := noP 2 600 in
  let hist := [Dl 0 (mkB 2 1 22 5); Dl 1 (mkB 7 555 30 1); Dl 2 (mkB 1 0 21 5);
               Dl 3 (mkB 8 556 30 1); Dl 4 (mkB 9 557 30 1)] in
  map o_lost (xouts P (xinit w2_g 0) hist) = [[]; []; []; []; []] /\
  length (xorph (xrun P w2_g 0 hist)) = 3%nat.
Proof. exact stale_pointer_example. Qed.
Print Assumptions C25_stale_pointer_example.

Theorem C25_best_block_cmp_example :
  let g := mkB 0 99 20 5 in
  let hist := [Dl 0 (mkB 1 0 21 5); Dl 0 (mkB 2 0 21 5)] in
  xtip (xrun (mkP 10240 600 true (fun n t => N.eqb n 2)) g 0 hist) = 2%N /\
  xtip (xrun (mkP 10240 600 false (fun n t => N.eqb n 2)) g 0 hist) = 1%N /\
  xtip (xrun (mkP 10240 600 true (fun n t => N.eqb n 2)) g 10 hist) = 1%N.
Proof. exact best_block_cmp_example. Qed.
Print Assumptions C25_best_block_cmp_example.

(** The guard that the correspondence check evaluates is the theorems' guard:
    the accumulator of a case (whether or not the node agreed with the model)
    is the tracked run ([xrun], [held_of], [steady]) over the case's events
    written out as a history. *)
Theorem C25_check_guard_is_theorem_guard : forall P T evs obs fmain pool g T' a ok,
  T = g :: T' -> model_ok_x P T evs obs fmain pool = Some (a, ok) ->
  acc_state a = xrun P g 0 (expand T evs) /\
  snd (fst a) = held_of P g 0 (expand T evs) /\
  snd a = steady P g 0 (expand T evs).
Proof. exact check_guard_is_theorem_guard. Qed.
Print Assumptions C25_check_guard_is_theorem_guard.
