(** C25 — proofs for the extended model, part 1: conservativity.  A history of
    deliveries in which nothing leaves the orphan pool unindexed, no delivery
    moves the finalizer's choice and best-block comparison is off is, after
    forgetting the additions, exactly a run of Model.v. *)
From Coq Require Import List ZArith NArith Bool Lia.
From C33 Require Import C25.Model C25.ModelExt.
Import ListNotations.
Open Scope Z_scope.

(** ** pool functions commute with forgetting the expirations *)

Lemma in_xorph_base : forall h o, in_xorph h o = in_orph h (map fst o).
Proof. intros h o. unfold in_xorph, in_orph. induction o as [|e o IH]; cbn; [reflexivity|]. rewrite IH. reflexivity. Qed.

Lemma remove_x_base : forall h o, map fst (remove_x h o) = remove_orph h (map fst o).
Proof.
  intros h o. unfold remove_x, remove_orph. induction o as [|e o IH]; cbn [map filter]; [reflexivity|].
  destruct (negb (N.eqb (bid (fst e)) h)); cbn [map]; rewrite IH; reflexivity.
Qed.

Lemma first_child_x_base : forall p o,
  first_child p (map fst o) = option_map fst (first_child_x p o).
Proof.
  intros p o. unfold first_child, first_child_x. induction o as [|e o IH]; cbn [map find]; [reflexivity|].
  destruct (N.eqb (bpar (fst e)) p); [reflexivity|exact IH].
Qed.

Lemma remove_x_absent : forall h o, in_xorph h o = false -> remove_x h o = o.
Proof.
  intros h o. unfold in_xorph, remove_x. induction o as [|e o IH]; cbn [existsb filter]; [reflexivity|].
  intros H. apply orb_false_iff in H as [H1 H2]. rewrite H1. cbn [negb]. rewrite (IH H2). reflexivity.
Qed.

Lemma filter_none_id : forall A (f : A -> bool) l, filter f l = [] -> filter (fun x => negb (f x)) l = l.
Proof.
  intros A f l. induction l as [|x l IH]; cbn [filter]; [reflexivity|].
  destruct (f x); [discriminate|]. intros H. cbn [negb]. rewrite (IH H). reflexivity.
Qed.

(** ** the choice only moves down in a delivery; the pool and the pointer are
       untouched by acceptance *)

Lemma connect_best_x_frame : forall P s b td s' m e,
  connect_best_x P s b td = (s', m, e) ->
  xfin s' <= xfin s /\ xorph s' = xorph s /\ xold s' = xold s /\ xidx s' = xidx s.
Proof.
  intros P s b td s' m e. unfold connect_best_x.
  destruct (N.eqb (bpar b) (xtip s)).
  { intros H; injection H as <- <- <-. cbn. repeat split; lia. }
  destruct (find_node (xtip s) (xidx s)) as [t|].
  2:{ intros H; injection H as <- <- <-. repeat split; lia. }
  destruct (_ || _).
  { intros H; injection H as <- <- <-. repeat split; lia. }
  destruct (branch _ _ _ _) as [[p fk]|].
  2:{ intros H; injection H as <- <- <-. repeat split; lia. }
  intros H; injection H as <- <- <-. cbn [xfin xorph xold xidx].
  destruct (node_height fk (xidx s)) as [fkh|]; [|repeat split; lia].
  destruct (fkh <? xfin s) eqn:L; [apply Z.ltb_lt in L|]; repeat split; lia.
Qed.

Lemma accept_x_frame : forall P s b s' m e,
  accept_x P s b = (s', m, e) ->
  xfin s' <= xfin s /\ xorph s' = xorph s /\ xold s' = xold s.
Proof.
  intros P s b s' m e. unfold accept_x.
  destruct (find_node (bpar b) (xidx s)) as [p|].
  2:{ intros H; injection H as <- <- <-. repeat split; lia. }
  destruct (negb _).
  { intros H; injection H as <- <- <-. repeat split; lia. }
  intros H. apply connect_best_x_frame in H. cbn [xfin xorph xold] in H. tauto.
Qed.

Lemma porph_x_mono : forall fuel P q s s' rj e,
  porph_x fuel P q s = (s', rj, e) -> xfin s' <= xfin s.
Proof.
  induction fuel as [|f IH]; intros P q s s' rj e; cbn [porph_x].
  { intros H; injection H as <- <- <-. lia. }
  destruct q as [|p q'].
  { intros H; injection H as <- <- <-. lia. }
  destruct (first_child_x p (xorph s)) as [[c z]|]; [|apply IH].
  destruct (accept_x P (set_orph s (remove_x (bid c) (xorph s))) c) as [[s1 m1] e1] eqn:A.
  apply accept_x_frame in A as (A1 & _). cbn [xfin set_orph] in A1.
  destruct e1.
  1:{ intros H. apply IH in H. lia. }
  all: destruct (porph_x f P (p :: q') s1) as [[s2 rj2] e2] eqn:R;
       intros H; injection H as <- <- <-; apply IH in R; lia.
Qed.

(** ** one delivery *)

Lemma connect_best_x_cons : forall P s b td s' m e,
  pebc P = false ->
  connect_best_x P s b td = (s', m, e) -> xfin s' = xfin s ->
  connect_best (xfin s) (base_of s) b td = (base_of s', m, e) /\ xfh s' = xfh s.
Proof.
  intros P s b td s' m e HP. unfold connect_best_x, connect_best. rewrite HP.
  unfold tip, xtip, base_of. cbn [main idx orph evs andb negb].
  destruct (N.eqb (bpar b) (hd 0%N (xmain s))).
  { intros H _; injection H as <- <- <-. split; reflexivity. }
  destruct (find_node (hd 0%N (xmain s)) (xidx s)) as [t|].
  2:{ intros H _; injection H as <- <- <-. split; reflexivity. }
  rewrite andb_true_r.
  destruct ((td <=? ntd t) || (bht b <? xfin s + margin)).
  { intros H _; injection H as <- <- <-. split; reflexivity. }
  destruct (branch _ _ _ _) as [[p fk]|].
  2:{ intros H _; injection H as <- <- <-. split; reflexivity. }
  intros H; injection H as <- <- <-. cbn [xfin xidx xorph xmain xevs xfh].
  destruct (node_height fk (xidx s)) as [fkh|]; [|intros _; split; reflexivity].
  destruct (fkh <? xfin s) eqn:L; [apply Z.ltb_lt in L; lia|].
  intros _; split; reflexivity.
Qed.

Lemma accept_x_cons : forall P s b s' m e,
  pebc P = false ->
  accept_x P s b = (s', m, e) -> xfin s' = xfin s ->
  accept (xfin s) (base_of s) b = (base_of s', m, e) /\ xfh s' = xfh s.
Proof.
  intros P s b s' m e HP. unfold accept_x, accept. unfold base_of at 1. cbn [idx].
  destruct (find_node (bpar b) (xidx s)) as [p|].
  2:{ intros H _; injection H as <- <- <-. split; reflexivity. }
  destruct (negb _).
  { intros H _; injection H as <- <- <-. split; reflexivity. }
  intros H E.
  apply (connect_best_x_cons P _ b _ s' m e HP) in H; [|exact E].
  cbn [xfin xfh] in H. exact H.
Qed.

Lemma base_set_orph : forall s o, base_of (set_orph s o) = mkS (xidx s) (map fst o) (xmain s) (xevs s).
Proof. reflexivity. Qed.

Lemma porph_x_cons : forall fuel P q s s' e,
  pebc P = false ->
  porph_x fuel P q s = (s', [], e) -> xfin s' = xfin s ->
  porph fuel (xfin s) q (base_of s) = (base_of s', e).
Proof.
  induction fuel as [|f IH]; intros P q s s' e HP; cbn [porph_x porph].
  { intros H _; injection H as <- <-. reflexivity. }
  destruct q as [|p q'].
  { intros H _; injection H as <- <-. reflexivity. }
  unfold base_of at 1. cbn [orph]. rewrite first_child_x_base.
  destruct (first_child_x p (xorph s)) as [[c z]|]; cbn [option_map fst].
  2:{ intros H E. apply (IH P q' s s' e HP H E). }
  replace (mkS (idx (base_of s)) (remove_orph (bid c) (orph (base_of s))) (main (base_of s)) (evs (base_of s)))
    with (base_of (set_orph s (remove_x (bid c) (xorph s))))
    by (rewrite base_set_orph, remove_x_base; reflexivity).
  destruct (accept_x P (set_orph s (remove_x (bid c) (xorph s))) c) as [[s1 m1] e1] eqn:A.
  pose proof (accept_x_frame _ _ _ _ _ _ A) as (A1 & _). cbn [xfin set_orph] in A1.
  destruct e1.
  1:{ intros H E. pose proof (porph_x_mono _ _ _ _ _ _ _ H) as M.
      assert (E1 : xfin s1 = xfin s) by lia.
      apply (accept_x_cons P _ c s1 m1 ENone HP) in A; [|cbn [xfin set_orph]; exact E1].
      cbn [xfin set_orph] in A. destruct A as [A _]. rewrite A.
      rewrite <- E1. apply (IH P _ s1 s' e HP H). lia. }
  all: destruct (porph_x f P (p :: q') s1) as [[s2 rj2] e2]; intros H; discriminate H.
Qed.

Lemma add_orphan_cons : forall P now s b s' lost,
  add_orphan P now s b = (s', lost) -> lost = [] ->
  base_of s' = mkS (xidx s) (map fst (xorph s) ++ [b]) (xmain s) (xevs s) /\
  xfin s' = xfin s /\ xfh s' = xfh s.
Proof.
  intros P now s b s' lost. unfold add_orphan.
  set (live := filter (fun e => negb (expired now e)) (xorph s)).
  set (old := fold_left older live (xold s)).
  intros H L. injection H as <- <-. apply app_eq_nil in L as [G Ev].
  apply map_eq_nil in G.
  assert (Lv : live = xorph s) by (apply filter_none_id; exact G).
  unfold base_of. cbn [xidx xorph xmain xevs xfin xfh].
  split; [|split; reflexivity]. f_equal. rewrite map_app. cbn [map fst]. f_equal.
  destruct (pcap P <? Z.of_nat (length live) + 1); [|rewrite Lv; reflexivity].
  destruct old as [[h x]|]; [|rewrite Lv; reflexivity].
  destruct (in_xorph h live) eqn:I; [discriminate Ev|].
  rewrite (remove_x_absent _ _ I), Lv. reflexivity.
Qed.

Definition out3 (o : xout) : out := (o_main o, o_orph o, o_err o).

Lemma deliver_x_cons : forall P now s b s' o,
  pebc P = false ->
  deliver_x P now s b = (s', o) -> o_lost o = [] -> xfin s' = xfin s ->
  deliver (xfin s) (base_of s) b = (base_of s', out3 o).
Proof.
  intros P now s b s' o HP. unfold deliver_x, deliver.
  change (idx (base_of s)) with (xidx s). change (orph (base_of s)) with (map fst (xorph s)).
  change (main (base_of s)) with (xmain s). change (evs (base_of s)) with (xevs s).
  rewrite <- in_xorph_base.
  destruct (in_idx (bid b) (xidx s)).
  { intros H _ _; injection H as <- <-. reflexivity. }
  destruct (in_xorph (bid b) (xorph s) && negb (in_idx (bpar b) (xidx s))).
  { intros H _ _; injection H as <- <-. reflexivity. }
  set (s1 := if in_xorph (bid b) (xorph s) then set_orph s (remove_x (bid b) (xorph s)) else s).
  set (bs1 := if in_xorph (bid b) (xorph s)
              then mkS (xidx s) (remove_orph (bid b) (map fst (xorph s))) (xmain s) (xevs s)
              else base_of s).
  assert (B1 : bs1 = base_of s1).
  { unfold bs1, s1. destruct (in_xorph (bid b) (xorph s)); [rewrite base_set_orph, remove_x_base|]; reflexivity. }
  clearbody bs1. subst bs1.
  assert (I1 : xidx s1 = xidx s) by (unfold s1; destruct (in_xorph (bid b) (xorph s)); reflexivity).
  assert (F1 : xfin s1 = xfin s) by (unfold s1; destruct (in_xorph (bid b) (xorph s)); reflexivity).
  clearbody s1.
  change (idx (base_of s1)) with (xidx s1). change (orph (base_of s1)) with (map fst (xorph s1)).
  change (main (base_of s1)) with (xmain s1). change (evs (base_of s1)) with (xevs s1).
  rewrite I1.
  destruct (negb (in_idx (bpar b) (xidx s))).
  - destruct (add_orphan P now s1 b) as [s2 lost] eqn:A.
    intros H L _; injection H as <- <-. cbn [o_lost] in L.
    destruct (add_orphan_cons _ _ _ _ _ _ A L) as (Bs & _ & _).
    rewrite Bs. unfold base_of. cbn [idx orph main evs]. rewrite I1. reflexivity.
  - destruct (accept_x P s1 b) as [[s2 m2] e2] eqn:A.
    pose proof (accept_x_frame _ _ _ _ _ _ A) as (A1 & _).
    destruct e2.
    1:{ destruct (porph_x (porph_fuel_x s2) P [bid b] s2) as [[s3 rj] e3] eqn:R.
        pose proof (porph_x_mono _ _ _ _ _ _ _ R) as M.
        assert (X : forall oo, (s3, oo) = (s', o) -> o_lost oo = rj -> o_lost o = [] -> xfin s' = xfin s ->
                    xfin s2 = xfin s1 /\ xfin s3 = xfin s2 /\ rj = [] /\ s3 = s' /\ oo = o).
        { intros oo H Lo L E. injection H as <- <-. rewrite Lo in L. repeat split; try lia; exact L. }
        assert (Y : xfin s2 = xfin s1 -> xfin s3 = xfin s2 -> rj = [] ->
                    accept (xfin s) (base_of s1) b = (base_of s2, m2, ENone) /\
                    porph (porph_fuel (base_of s2)) (xfin s) [bid b] (base_of s2) = (base_of s3, e3)).
        { intros E2 E3 Rj. subst rj. split.
          - rewrite <- F1. apply (accept_x_cons P s1 b s2 m2 ENone HP A E2).
          - replace (porph_fuel (base_of s2)) with (porph_fuel_x s2)
              by (unfold porph_fuel, porph_fuel_x, base_of; cbn [orph]; rewrite map_length; reflexivity).
            rewrite <- F1, <- E2. apply (porph_x_cons _ P _ s2 s3 e3 HP R E3). }
        destruct e3; intros H L E;
          (destruct (X _ H eq_refl L E) as (E2 & E3 & Rj & <- & <-));
          destruct (Y E2 E3 Rj) as [Ya Yp]; rewrite Ya, Yp; reflexivity. }
    all: intros H _ E; injection H as <- <-;
         assert (E2 : xfin s2 = xfin s1) by lia;
         destruct (accept_x_cons P s1 b s2 m2 _ HP A E2) as [Ya _];
         rewrite <- F1, Ya; reflexivity.
Qed.

(** ** histories *)

Fixpoint outs (fin : Z) (s : state) (order : list block) : list out :=
  match order with
  | [] => []
  | b :: tl => let '(s', o) := deliver fin s b in o :: outs fin s' tl
  end.

Fixpoint xouts (P : params) (s : xstate) (hist : list xev) : list xout :=
  match hist with
  | [] => []
  | e :: tl => let '(s', o) := xstep P s e in o :: xouts P s' tl
  end.

Lemma conservative_from : forall P hist s,
  pebc P = false -> plain P s hist = true ->
  base_of (xrun_from P s hist) = fold_left (step (xfin s)) (blocks_of hist) (base_of s) /\
  map out3 (xouts P s hist) = outs (xfin s) (base_of s) (blocks_of hist) /\
  xfin (xrun_from P s hist) = xfin s.
Proof.
  intros P hist. induction hist as [|e hist IH]; intros s HP Pl.
  { cbn. auto. }
  destruct e as [now b|h f]; [|discriminate Pl].
  cbn [plain] in Pl. unfold xrun_from. cbn [fold_left xstep blocks_of flat_map app xouts outs map].
  destruct (deliver_x P now s b) as [s' o] eqn:D.
  destruct (o_lost o) eqn:Lo; [|discriminate Pl].
  apply andb_true_iff in Pl as [E Pl]. apply Z.eqb_eq in E.
  pose proof (deliver_x_cons P now s b s' o HP D Lo E) as Db.
  cbn [fst]. unfold step at 2. rewrite Db. cbn [fst map].
  destruct (IH s' HP Pl) as (I1 & I2 & I3). rewrite E in I1, I2, I3.
  fold (xrun_from P s' hist). split; [exact I1|]. split; [|exact I3].
  f_equal. exact I2.
Qed.

(** Conservativity: with best-block comparison off, a history of deliveries
    during which nothing is dropped from the pool and the finalizer's choice
    stays where it started is a run of Model.v with that height as its
    constant: same index, pool (in order), best chain view and connect /
    disconnect trace, and the same ProcessBlock results at every delivery. *)
Lemma conservative : forall P g fin0 hist,
  pebc P = false -> plain P (xinit g fin0) hist = true ->
  base_of (xrun P g fin0 hist) = run fin0 g (blocks_of hist) /\
  map out3 (xouts P (xinit g fin0) hist) = outs fin0 (init g) (blocks_of hist) /\
  xfin (xrun P g fin0 hist) = fin0.
Proof. intros P g fin0 hist HP Pl. exact (conservative_from P hist (xinit g fin0) HP Pl). Qed.
