(** C28 — the chain invariant; it holds initially and is preserved by attaching a block. *)
From Coq Require Import List ZArith NArith Bool Lia.
From C33 Require Import C28.Model C28.Spec C28.Defs C28.ProofsLib C28.ProofsGrp C28.ProofsChk.
Import ListNotations.
Open Scope Z_scope.

(** * heights: the block at position i from the end has height i *)

Fixpoint hts (l : list blk) : Prop :=
  match l with
  | [] => True
  | b :: r => b_h b = Z.of_nat (length r) /\ hts r
  end.

Lemma hts_range : forall l x, hts l -> In x l -> 0 <= b_h x < Z.of_nat (length l).
Proof.
  induction l as [|a l IH]; intros x H Hx.
  - destruct Hx.
  - cbn [hts] in H. destruct H as [H1 H2]. cbn [length]. rewrite Nat2Z.inj_succ.
    destruct Hx as [Hx|Hx].
    + subst x. lia.
    + pose proof (IH x H2 Hx) as Hr. lia.
Qed.

Lemma hts_uniq : forall l x y, hts l -> In x l -> In y l -> b_h x = b_h y -> x = y.
Proof.
  induction l as [|a l IH]; intros x y H Hx Hy He.
  - destruct Hx.
  - cbn [hts] in H. destruct H as [H1 H2].
    destruct Hx as [Hx|Hx]; destruct Hy as [Hy|Hy].
    + congruence.
    + subst a. pose proof (hts_range l y H2 Hy) as Hr. lia.
    + subst a. pose proof (hts_range l x H2 Hx) as Hr. lia.
    + exact (IH x y H2 Hx Hy He).
Qed.

Lemma block_at_some : forall l h d, block_at l h = Some d -> In d l /\ b_h d = h.
Proof.
  intros l h d H. unfold block_at in H. apply find_some in H. destruct H as [H1 H2].
  apply Z.eqb_eq in H2. split; assumption.
Qed.

Lemma block_at_head : forall b r h, b_h b = h -> block_at (b :: r) h = Some b.
Proof.
  intros b r h H. unfold block_at. cbn [find].
  rewrite (proj2 (Z.eqb_eq (b_h b) h) H). reflexivity.
Qed.

Lemma block_at_ex : forall l h, hts l -> 0 <= h < Z.of_nat (length l) ->
  exists d, block_at l h = Some d.
Proof.
  induction l as [|a l IH]; intros h H Hr.
  - cbn [length] in Hr. lia.
  - cbn [hts] in H. destruct H as [H1 H2].
    cbn [length] in Hr. rewrite Nat2Z.inj_succ in Hr.
    destruct (Z.eq_dec (b_h a) h) as [E|E].
    + exists a. apply block_at_head. exact E.
    + assert (Hr' : 0 <= h < Z.of_nat (length l)) by lia.
      destruct (IH h H2 Hr') as [d Hd]. exists d.
      unfold block_at in *. cbn [find].
      destruct (Z.eqb_spec (b_h a) h) as [E'|E']; [contradiction | exact Hd].
Qed.

Lemma in_chain_txs : forall l t, In t (chain_txs l) <-> exists x, In x l /\ In t (b_txs x).
Proof. intros l t. unfold chain_txs. apply in_flat_map. Qed.

Lemma chain_txs_cons : forall b l, chain_txs (b :: l) = b_txs b ++ chain_txs l.
Proof. reflexivity. Qed.

(** * the invariant *)

Section Invariant.
  Variable c : cfg.
  Variable U : list tx.
  Hypothesis Hcfg : cfg_ok c.
  Hypothesis HU : hash_ok U.

  Record Inv (s : st) : Prop := mkInv {
    inv_ne : chain s <> [];
    inv_hts : hts (chain s);
    inv_U : forall t, In t (chain_txs (chain s)) -> In t U;
    inv_nd : NoDup (map th (chain_txs (chain s)));
    inv_idx : index_exact s;
    inv_cache : cache_exact c s;
    inv_time : forall x, In x (chain s) -> 0 < b_time x;
    inv_okl : forall x, In x (chain s) -> 0 < b_h x -> okl c (b_h x) (b_time x) (b_txs x);
    inv_gen : forall x, In x (chain s) -> b_h x = 0 -> b_txs x = []
  }.

  Lemma inv_init : forall g, gen_ok g -> Inv (init g).
  Proof.
    intros g [Hg1 [Hg2 Hg3]].
    assert (Hct : chain_txs [g] = []).
    { unfold chain_txs. cbn [flat_map]. rewrite Hg3. reflexivity. }
    constructor; unfold init; cbn [chain index cache].
    - discriminate.
    - cbn [hts length]. split; [exact Hg1 | exact I].
    - intros t Ht. rewrite Hct in Ht. destruct Ht.
    - rewrite Hct. constructor.
    - unfold index_exact. cbn [chain index]. intros h. rewrite Hct. reflexivity.
    - unfold cache_exact. cbn [chain cache]. intros e. split.
      + intros [].
      + intros [b [Hb [_ He]]]. destruct Hb as [Hb|[]]. subst b. rewrite Hg3 in He. exact He.
    - intros x [Hx|[]]. subst x. exact Hg2.
    - intros x [Hx|[]] Hh. subst x. lia.
    - intros x [Hx|[]] _. subst x. exact Hg3.
  Qed.

  Lemma inv_live : forall s x t, Inv s -> In x (chain s) -> 0 < b_h x -> In t (b_txs x) ->
    is_expire c t (b_h x) (b_time x) = false.
  Proof.
    intros s x t HI Hx Hh Ht.
    exact (okl_live c (b_h x) (b_time x) (b_txs x) Hh (inv_time s HI x Hx) (inv_okl s HI x Hx Hh) t Ht).
  Qed.

  (** every transaction-bearing block of the chain has a positive height *)
  Lemma inv_txs_pos : forall s x t, Inv s -> In x (chain s) -> In t (b_txs x) -> 0 < b_h x.
  Proof.
    intros s x t HI Hx Ht.
    pose proof (hts_range _ x (inv_hts s HI) Hx) as Hr.
    destruct (Z.eq_dec (b_h x) 0) as [E|E]; [|lia].
    rewrite (inv_gen s HI x Hx E) in Ht. destruct Ht.
  Qed.

  (** * attaching a block *)

  Record AttOK (s : st) (b : blk) : Prop := mkAttOK {
    a_link : linked s b = true;
    a_nd : NoDup (map th (b_txs b));
    a_has : forall t, In t (b_txs b) -> has_tx s t = false;
    a_okl : okl c (b_h b) (b_time b) (b_txs b);
    a_U : incl (b_txs b) U;
    a_time : parent_time s <= b_time b
  }.

  Lemma att_facts : forall s b, Inv s -> AttOK s b ->
    exists p r, chain s = p :: r /\ b_h b = b_h p + 1 /\ 0 <= b_h p
                /\ b_h p = Z.of_nat (length r) /\ 0 < b_time b /\ tip_h s = b_h p.
  Proof.
    intros s b HI HA.
    pose proof (a_link s b HA) as Hl. pose proof (a_time s b HA) as Ht.
    pose proof (inv_hts s HI) as Hh. pose proof (inv_time s HI) as Hti.
    unfold linked, tip_of in Hl. unfold parent_time, tip_of in Ht. unfold tip_h.
    destruct (chain s) as [|p r] eqn:Hc; cbn [hd_error] in Hl, Ht; [discriminate|].
    apply andb_true_iff in Hl. destruct Hl as [_ Hl]. apply Z.eqb_eq in Hl.
    cbn [hts] in Hh. destruct Hh as [Hh1 Hh2].
    assert (Hp : 0 < b_time p) by (apply Hti; left; reflexivity).
    exists p, r. repeat split; try assumption; lia.
  Qed.

  (** a new transaction cannot share its Hash() with one already on the chain *)
  Lemma attach_fresh : forall s b t t', Inv s -> AttOK s b ->
    In t (b_txs b) -> In t' (chain_txs (chain s)) -> th t = th t' -> False.
  Proof.
    intros s b t t' HI HA Ht Ht' He.
    destruct (att_facts s b HI HA) as [p [r [Hc [Hb [Hp0 [Hpl [Hbt Htip]]]]]]].
    pose proof (a_has s b HA t Ht) as Hhas.
    assert (Hbp0 : 0 < b_h b) by lia.
    pose proof (okl_live c (b_h b) (b_time b) (b_txs b) Hbp0 Hbt (a_okl s b HA) t Ht) as Hchk.
    assert (HtU : In t U) by (apply (a_U s b HA); exact Ht).
    assert (HtU' : In t' U) by (apply (inv_U s HI); exact Ht').
    destruct (HU t t' HtU HtU') as [Hk _]. destruct (Hk He) as [Hk1 Hk2].
    unfold has_tx in Hhas.
    destruct (Z.gtb_spec (tx_height (texp t)) 0) as [Eg|Eg].
    - apply in_chain_txs in Ht'. destruct Ht' as [x [Hx Hxt]].
      assert (Hin : In (tx_height (texp t), tk t) (cache s)).
      { apply (inv_cache s HI). exists x. split; [exact Hx|]. split.
        - pose proof (inv_txs_pos s x t' HI Hx Hxt) as Hxp.
          pose proof (inv_live s x t' HI Hx Hxp Hxt) as Hxc.
          assert (Hg' : tx_height (texp t') > 0) by (rewrite <- Hk2; lia).
          pose proof (live_window c (b_h x) (b_time x) t' Hxc Hg') as Hw'.
          assert (Hg : tx_height (texp t) > 0) by lia.
          pose proof (live_window c (b_h b) (b_time b) t Hchk Hg) as Hw.
          rewrite <- Hk2 in Hw'. lia.
        - apply ents_In. exists t'. split; [exact Hxt|]. rewrite <- Hk2, <- Hk1.
          split; [lia | reflexivity]. }
      apply memE_In in Hin. congruence.
    - assert (Hin : In (th t) (index s)).
      { apply (inv_idx s HI). rewrite He. apply in_map. exact Ht'. }
      apply memN_In in Hin. congruence.
  Qed.

  Lemma att_nd : forall s b, Inv s -> AttOK s b -> NoDup (map th (chain_txs (b :: chain s))).
  Proof.
    intros s b HI HA. rewrite chain_txs_cons, map_app. apply nd_app_intro.
    - exact (a_nd s b HA).
    - exact (inv_nd s HI).
    - intros h H1 H2. apply in_map_iff in H1. destruct H1 as [t [Et Ht]].
      apply in_map_iff in H2. destruct H2 as [t' [Et' Ht']].
      apply (attach_fresh s b t t' HI HA Ht Ht'). congruence.
  Qed.

  Lemma att_U : forall s b, Inv s -> AttOK s b ->
    forall t, In t (chain_txs (b :: chain s)) -> In t U.
  Proof.
    intros s b HI HA t Ht. rewrite chain_txs_cons in Ht. apply in_app_or in Ht.
    destruct Ht as [Ht|Ht]; [apply (a_U s b HA); exact Ht | apply (inv_U s HI); exact Ht].
  Qed.

  Lemma att_hts : forall s b, Inv s -> AttOK s b -> hts (b :: chain s).
  Proof.
    intros s b HI HA.
    destruct (att_facts s b HI HA) as [p [r [Hc [Hb [Hp0 [Hpl [Hbt Htip]]]]]]].
    cbn [hts]. split; [|exact (inv_hts s HI)].
    rewrite Hc. cbn [length]. rewrite Nat2Z.inj_succ. lia.
  Qed.

  (** two chain blocks holding the same cache entry are the same block *)
  Lemma ents_same_block : forall l x d e,
    NoDup (map th (chain_txs l)) -> (forall t, In t (chain_txs l) -> In t U) ->
    In x l -> In d l -> In e (ents (b_txs x)) -> In e (ents (b_txs d)) -> x = d.
  Proof.
    intros l x d e Hnd HinU Hx Hd Hex Hed.
    apply ents_In in Hex. destruct Hex as [t [Ht [_ Ee]]].
    apply ents_In in Hed. destruct Hed as [t' [Ht' [_ Ee']]].
    assert (Hk : tk t = tk t') by congruence.
    assert (HtU : In t U).
    { apply HinU. apply in_chain_txs. exists x. split; assumption. }
    assert (HtU' : In t' U).
    { apply HinU. apply in_chain_txs. exists d. split; assumption. }
    destruct (HU t t' HtU HtU') as [_ Hth].
    exact (nd_flat_same l x d t t' Hnd Hx Hd Ht Ht' (Hth Hk)).
  Qed.

  Lemma att_cache : forall s b, Inv s -> AttOK s b -> cache_exact c (attach c s b).
  Proof.
    intros s b HI HA.
    destruct (att_facts s b HI HA) as [p [r [Hc [Hb [Hp0 [Hpl [Hbt Htip]]]]]]].
    pose proof (att_hts s b HI HA) as Hh'.
    pose proof (att_nd s b HI HA) as Hnd'.
    pose proof (att_U s b HI HA) as HU'.
    pose proof (inv_cache s HI) as Hca. unfold cache_exact in Hca.
    destruct Hcfg as [Hlow Hhigh].
    assert (Hlen : Z.of_nat (length (b :: chain s)) = b_h b + 1).
    { rewrite Hc. cbn [length]. rewrite !Nat2Z.inj_succ. lia. }
    assert (Hrng : forall x, In x (chain s) -> 0 <= b_h x).
    { intros x Hx. pose proof (hts_range _ x (inv_hts s HI) Hx). lia. }
    unfold cache_exact, attach. cbn [chain cache]. unfold tip_h. cbn [chain].
    intros e. unfold cache_add. cbv zeta.
    destruct (Z.geb_spec (b_h b - c_high c - c_low c) 0) as [Ed|Ed].
    - assert (Hr : 0 <= b_h b - c_high c - c_low c < Z.of_nat (length (b :: chain s))) by lia.
      destruct (block_at_ex _ _ Hh' Hr) as [d Hd]. rewrite Hd.
      apply block_at_some in Hd. destruct Hd as [Hdin Hdh].
      rewrite cdel_all_In, cadd_all_In. split.
      + intros [[He|He] Hn].
        * exists b. split; [left; reflexivity|]. split; [|exact He].
          destruct (Z.eq_dec (b_h d) (b_h b)) as [E|E]; [|lia].
          assert (Hdb : d = b).
          { apply (hts_uniq _ d b Hh' Hdin); [left; reflexivity | exact E]. }
          subst d. contradiction.
        * apply Hca in He. destruct He as [x [Hx [Hxh Hxe]]].
          exists x. split; [right; exact Hx|]. split; [|exact Hxe].
          destruct (Z.eq_dec (b_h x) (b_h d)) as [E|E]; [|lia].
          assert (Hxd : x = d).
          { apply (hts_uniq _ x d Hh'); [right; exact Hx | exact Hdin | exact E]. }
          subst x. contradiction.
      + intros [x [Hx [Hxh Hxe]]]. split.
        * destruct Hx as [Hx|Hx]; [subst x; left; exact Hxe|].
          right. apply Hca. exists x. split; [exact Hx|]. split; [lia | exact Hxe].
        * intro Hn.
          assert (Hxd : x = d) by exact (ents_same_block _ x d e Hnd' HU' Hx Hdin Hxe Hn).
          subst x. lia.
    - rewrite cadd_all_In. split.
      + intros [He|He].
        * exists b. split; [left; reflexivity|]. split; [lia | exact He].
        * apply Hca in He. destruct He as [x [Hx [Hxh Hxe]]].
          exists x. split; [right; exact Hx|]. split; [|exact Hxe].
          pose proof (Hrng x Hx). lia.
      + intros [x [Hx [Hxh Hxe]]].
        destruct Hx as [Hx|Hx]; [subst x; left; exact Hxe|].
        right. apply Hca. exists x. split; [exact Hx|]. split; [|exact Hxe].
        pose proof (Hrng x Hx). lia.
  Qed.

  Lemma att_inv : forall s b, Inv s -> AttOK s b -> Inv (attach c s b).
  Proof.
    intros s b HI HA.
    destruct (att_facts s b HI HA) as [p [r [Hc [Hb [Hp0 [Hpl [Hbt Htip]]]]]]].
    constructor.
    - unfold attach. cbn [chain]. discriminate.
    - unfold attach. cbn [chain]. exact (att_hts s b HI HA).
    - unfold attach. cbn [chain]. exact (att_U s b HI HA).
    - unfold attach. cbn [chain]. exact (att_nd s b HI HA).
    - unfold index_exact, attach. cbn [chain index]. intros h.
      rewrite iadd_all_In, chain_txs_cons, map_app, in_app_iff.
      rewrite (inv_idx s HI h). tauto.
    - exact (att_cache s b HI HA).
    - unfold attach. cbn [chain]. intros x [Hx|Hx].
      + subst x. exact Hbt.
      + exact (inv_time s HI x Hx).
    - unfold attach. cbn [chain]. intros x [Hx|Hx] Hh.
      + subst x. exact (a_okl s b HA).
      + exact (inv_okl s HI x Hx Hh).
    - unfold attach. cbn [chain]. intros x [Hx|Hx] Hh.
      + subst x. lia.
      + exact (inv_gen s HI x Hx Hh).
  Qed.

End Invariant.
