(** C28 — list / set lemmas used by the invariant proof. *)
From Coq Require Import List ZArith NArith Bool Lia.
From C33 Require Import C28.Model C28.Spec C28.Defs.
Import ListNotations.
Open Scope Z_scope.

(** * membership tests *)

Lemma memN_In : forall x l, memN x l = true <-> In x l.
Proof.
  intros x l. unfold memN. rewrite existsb_exists. split.
  - intros [y [Hy He]]. apply N.eqb_eq in He. subst y. exact Hy.
  - intros H. exists x. split; [exact H | apply N.eqb_refl].
Qed.

Lemma entry_eqb_eq : forall a b, entry_eqb a b = true <-> a = b.
Proof.
  intros [a1 a2] [b1 b2]. unfold entry_eqb. cbn [fst snd].
  rewrite andb_true_iff, Z.eqb_eq, N.eqb_eq. split.
  - intros [H1 H2]. subst. reflexivity.
  - intros H. inversion H. auto.
Qed.

Lemma memE_In : forall x l, memE x l = true <-> In x l.
Proof.
  intros x l. unfold memE. rewrite existsb_exists. split.
  - intros [y [Hy He]]. apply entry_eqb_eq in He. subst y. exact Hy.
  - intros H. exists x. split; [exact H | apply entry_eqb_eq; reflexivity].
Qed.

Lemma nodupN_NoDup : forall l, nodupN l = true <-> NoDup l.
Proof.
  induction l as [|a l IH]; cbn [nodupN].
  - split; intros _; [constructor | reflexivity].
  - rewrite andb_true_iff, negb_true_iff. split.
    + intros [H1 H2]. constructor.
      * intro Hin. apply memN_In in Hin. congruence.
      * apply IH. exact H2.
    + intros H. inversion H as [|x r Hn Hd]; subst. split.
      * destruct (memN a l) eqn:E; [|reflexivity].
        apply memN_In in E. contradiction.
      * apply IH. exact Hd.
Qed.

(** * NoDup and append *)

Section NoDupApp.
  Variable A : Type.

  Lemma nd_app_l : forall (l1 l2 : list A), NoDup (l1 ++ l2) -> NoDup l1.
  Proof.
    induction l1 as [|a l1 IH]; intros l2 H.
    - constructor.
    - cbn [app] in H. inversion H as [|x r Hn Hd]; subst. constructor.
      + intro Hin. apply Hn. apply in_or_app. left. exact Hin.
      + apply (IH l2). exact Hd.
  Qed.

  Lemma nd_app_r : forall (l1 l2 : list A), NoDup (l1 ++ l2) -> NoDup l2.
  Proof.
    induction l1 as [|a l1 IH]; intros l2 H.
    - exact H.
    - cbn [app] in H. inversion H as [|x r Hn Hd]; subst. apply IH. exact Hd.
  Qed.

  Lemma nd_app_disj : forall (l1 l2 : list A) x, NoDup (l1 ++ l2) -> In x l1 -> In x l2 -> False.
  Proof.
    induction l1 as [|a l1 IH]; intros l2 x H H1 H2.
    - destruct H1.
    - cbn [app] in H. inversion H as [|y r Hn Hd]; subst. destruct H1 as [H1|H1].
      + subst a. apply Hn. apply in_or_app. right. exact H2.
      + exact (IH l2 x Hd H1 H2).
  Qed.

  Lemma nd_app_intro : forall (l1 l2 : list A),
    NoDup l1 -> NoDup l2 -> (forall x, In x l1 -> In x l2 -> False) -> NoDup (l1 ++ l2).
  Proof.
    induction l1 as [|a l1 IH]; intros l2 H1 H2 Hd.
    - exact H2.
    - cbn [app]. inversion H1 as [|y r Hn Hd1]; subst. constructor.
      + intro Hin. apply in_app_or in Hin. destruct Hin as [Hin|Hin].
        * contradiction.
        * apply (Hd a); [left; reflexivity | exact Hin].
      + apply IH; [exact Hd1 | exact H2 |].
        intros x Hx1 Hx2. apply (Hd x); [right; exact Hx1 | exact Hx2].
  Qed.
End NoDupApp.

Lemma nd_map_filter : forall (A B : Type) (f : A -> B) (p : A -> bool) (l : list A),
  NoDup (map f l) -> NoDup (map f (filter p l)).
Proof.
  intros A B f p. induction l as [|a l IH]; intros H.
  - constructor.
  - cbn [map] in H. inversion H as [|y r Hn Hd]; subst.
    cbn [filter]. destruct (p a).
    + cbn [map]. constructor.
      * intro Hin. apply Hn. apply in_map_iff in Hin. destruct Hin as [u [Hu1 Hu2]].
        apply filter_In in Hu2. destruct Hu2 as [Hu2 _].
        apply in_map_iff. exists u. split; assumption.
      * apply IH. exact Hd.
    + apply IH. exact Hd.
Qed.

(** two members of a flat_map-NoDup list that share an image element are the same *)
Lemma nd_flat_same : forall (l : list blk) x d t t',
  NoDup (map th (chain_txs l)) -> In x l -> In d l ->
  In t (b_txs x) -> In t' (b_txs d) -> th t = th t' -> x = d.
Proof.
  induction l as [|a l IH]; intros x d t t' Hnd Hx Hd Ht Ht' He.
  - destruct Hx.
  - unfold chain_txs in Hnd. cbn [flat_map] in Hnd. rewrite map_app in Hnd.
    fold (chain_txs l) in Hnd.
    assert (Hin : forall y u, In y l -> In u (b_txs y) -> In (th u) (map th (chain_txs l))).
    { intros y u Hy Hu. apply in_map. unfold chain_txs. apply in_flat_map.
      exists y. split; assumption. }
    destruct Hx as [Hx|Hx]; destruct Hd as [Hd|Hd].
    + congruence.
    + subst a. exfalso. apply (nd_app_disj _ _ _ (th t) Hnd).
      * apply in_map. exact Ht.
      * rewrite He. exact (Hin d t' Hd Ht').
    + subst a. exfalso. apply (nd_app_disj _ _ _ (th t') Hnd).
      * apply in_map. exact Ht'.
      * rewrite <- He. exact (Hin x t Hx Ht).
    + apply (IH x d t t'); try assumption. exact (nd_app_r _ _ _ Hnd).
Qed.

(** * set-like updates *)

Lemma cadd_In : forall x e c, In x (cadd e c) <-> x = e \/ In x c.
Proof.
  intros x e c. unfold cadd. destruct (memE e c) eqn:E.
  - apply memE_In in E. split.
    + intros H. right. exact H.
    + intros [H|H]; [subst x; exact E | exact H].
  - cbn [In]. split.
    + intros [H|H]; [left; symmetry; exact H | right; exact H].
    + intros [H|H]; [left; symmetry; exact H | right; exact H].
Qed.

Lemma cdel_In : forall x e c, In x (cdel e c) <-> In x c /\ x <> e.
Proof.
  intros x e c. unfold cdel. rewrite filter_In, negb_true_iff. split.
  - intros [H1 H2]. split; [exact H1|]. intro Hx. subst x.
    rewrite (proj2 (entry_eqb_eq e e) eq_refl) in H2. discriminate.
  - intros [H1 H2]. split; [exact H1|].
    destruct (entry_eqb e x) eqn:E; [|reflexivity].
    apply entry_eqb_eq in E. subst x. contradiction.
Qed.

Lemma cadd_all_In : forall es c x, In x (cadd_all es c) <-> In x es \/ In x c.
Proof.
  unfold cadd_all. induction es as [|e es IH]; intros c x; cbn [fold_left].
  - split; [intros H; right; exact H | intros [[]|H]; exact H].
  - rewrite IH, cadd_In. cbn [In]. split.
    + intros [H|[H|H]]; [left; right; exact H | left; left; symmetry; exact H | right; exact H].
    + intros [[H|H]|H]; [right; left; symmetry; exact H | left; exact H | right; right; exact H].
Qed.

Lemma cdel_all_In : forall es c x, In x (cdel_all es c) <-> In x c /\ ~ In x es.
Proof.
  unfold cdel_all. induction es as [|e es IH]; intros c x; cbn [fold_left].
  - split; [intros H; split; [exact H | intros []] | intros [H _]; exact H].
  - rewrite IH, cdel_In. cbn [In]. split.
    + intros [[H1 H2] H3]. split; [exact H1|]. intros [H|H]; [apply H2; symmetry; exact H | exact (H3 H)].
    + intros [H1 H2]. split; [split; [exact H1|]|].
      * intro H. apply H2. left. symmetry. exact H.
      * intro H. apply H2. right. exact H.
Qed.

Lemma iadd_In : forall x e l, In x (iadd e l) <-> x = e \/ In x l.
Proof.
  intros x e l. unfold iadd. destruct (memN e l) eqn:E.
  - apply memN_In in E. split.
    + intros H. right. exact H.
    + intros [H|H]; [subst x; exact E | exact H].
  - cbn [In]. split.
    + intros [H|H]; [left; symmetry; exact H | right; exact H].
    + intros [H|H]; [left; symmetry; exact H | right; exact H].
Qed.

Lemma idel_In : forall x e l, In x (idel e l) <-> In x l /\ x <> e.
Proof.
  intros x e l. unfold idel. rewrite filter_In, negb_true_iff. split.
  - intros [H1 H2]. split; [exact H1|]. intro Hx. subst x.
    rewrite N.eqb_refl in H2. discriminate.
  - intros [H1 H2]. split; [exact H1|].
    destruct (N.eqb e x) eqn:E; [|reflexivity].
    apply N.eqb_eq in E. subst x. contradiction.
Qed.

Lemma iadd_all_In : forall (txs : list tx) i x,
  In x (fold_left (fun i t => iadd (th t) i) txs i) <-> In x (map th txs) \/ In x i.
Proof.
  induction txs as [|e es IH]; intros i x; cbn [fold_left map].
  - split; [intros H; right; exact H | intros [[]|H]; exact H].
  - rewrite IH, iadd_In. cbn [In]. split.
    + intros [H|[H|H]]; [left; right; exact H | left; left; symmetry; exact H | right; exact H].
    + intros [[H|H]|H]; [right; left; symmetry; exact H | left; exact H | right; right; exact H].
Qed.

Lemma idel_all_In : forall (txs : list tx) i x,
  In x (fold_left (fun i t => idel (th t) i) txs i) <-> In x i /\ ~ In x (map th txs).
Proof.
  induction txs as [|e es IH]; intros i x; cbn [fold_left map].
  - split; [intros H; split; [exact H | intros []] | intros [H _]; exact H].
  - rewrite IH, idel_In. cbn [In]. split.
    + intros [[H1 H2] H3]. split; [exact H1|]. intros [H|H]; [apply H2; symmetry; exact H | exact (H3 H)].
    + intros [H1 H2]. split; [split; [exact H1|]|].
      * intro H. apply H2. left. symmetry. exact H.
      * intro H. apply H2. right. exact H.
Qed.

(** * cache entries of a transaction list *)

Lemma ents_In : forall e txs, In e (ents txs) <->
  exists t, In t txs /\ tx_height (texp t) > 0 /\ e = (tx_height (texp t), tk t).
Proof.
  intros e txs. unfold ents. rewrite in_flat_map. split.
  - intros [t [Ht H]]. exists t. split; [exact Ht|].
    destruct (tx_height (texp t) >? 0) eqn:E.
    + apply Z.gtb_lt in E. destruct H as [H|[]]. split; [lia | symmetry; exact H].
    + destruct H.
  - intros [t [Ht [Hg He]]]. exists t. split; [exact Ht|].
    rewrite (proj2 (Z.gtb_lt _ _)) by lia. left. symmetry. exact He.
Qed.

(** * filters that keep the length keep the list *)

Lemma filter_len_le : forall (A : Type) (f : A -> bool) l, (length (filter f l) <= length l)%nat.
Proof.
  intros A f. induction l as [|a l IH]; cbn [filter length].
  - lia.
  - destruct (f a); cbn [length]; lia.
Qed.

Lemma filter_len_eq : forall (A : Type) (f : A -> bool) l,
  length (filter f l) = length l -> filter f l = l.
Proof.
  intros A f. induction l as [|a l IH]; cbn [filter length]; intros H.
  - reflexivity.
  - destruct (f a).
    + cbn [length] in H. f_equal. apply IH. lia.
    + pose proof (filter_len_le A f l) as Hle. lia.
Qed.

(** * del_dup / check_dup *)

Lemma del_dup_In : forall l t, In t (del_dup l) -> In t l.
Proof.
  induction l as [|a l IH]; intros t H; cbn [del_dup] in H.
  - destruct H.
  - destruct (existsb (fun u => N.eqb (th u) (th a)) l).
    + right. apply IH. exact H.
    + destruct H as [H|H]; [left; exact H | right; apply IH; exact H].
Qed.

Lemma del_dup_nd : forall l, NoDup (map th (del_dup l)).
Proof.
  induction l as [|a l IH]; cbn [del_dup].
  - constructor.
  - destruct (existsb (fun u => N.eqb (th u) (th a)) l) eqn:E.
    + exact IH.
    + cbn [map]. constructor; [|exact IH].
      intro Hin. apply in_map_iff in Hin. destruct Hin as [u [Hu1 Hu2]].
      apply del_dup_In in Hu2.
      assert (Ht : existsb (fun u => N.eqb (th u) (th a)) l = true).
      { apply existsb_exists. exists u. split; [exact Hu2 | apply N.eqb_eq; exact Hu1]. }
      congruence.
Qed.

Lemma del_dup_len_le : forall l, (length (del_dup l) <= length l)%nat.
Proof.
  induction l as [|a l IH]; cbn [del_dup length].
  - lia.
  - destruct (existsb (fun u => N.eqb (th u) (th a)) l); cbn [length]; lia.
Qed.

Lemma del_dup_len_eq : forall l, length (del_dup l) = length l -> del_dup l = l.
Proof.
  induction l as [|a l IH]; cbn [del_dup length]; intros H.
  - reflexivity.
  - destruct (existsb (fun u => N.eqb (th u) (th a)) l).
    + pose proof (del_dup_len_le l) as Hle. lia.
    + cbn [length] in H. f_equal. apply IH. lia.
Qed.

Lemma check_dup_In : forall s txs t, In t (check_dup s txs) -> In t txs /\ has_tx s t = false.
Proof.
  intros s txs t H. unfold check_dup in H. apply filter_In in H. destruct H as [H1 H2].
  split; [apply del_dup_In; exact H1|].
  destruct (has_tx s t) eqn:E; [|reflexivity].
  apply negb_true_iff in H2.
  assert (Hm : memN (th t) (map th (filter (has_tx s) (del_dup txs))) = true).
  { apply memN_In. apply in_map. apply filter_In. split; assumption. }
  congruence.
Qed.

Lemma check_dup_nd : forall s txs, NoDup (map th (check_dup s txs)).
Proof.
  intros s txs. unfold check_dup. apply nd_map_filter. apply del_dup_nd.
Qed.

Lemma check_dup_len_eq : forall s txs,
  length (check_dup s txs) = length txs -> check_dup s txs = txs.
Proof.
  intros s txs H. unfold check_dup in *.
  set (q := fun t : tx => negb (memN (th t) (map th (filter (has_tx s) (del_dup txs))))) in *.
  pose proof (filter_len_le tx q (del_dup txs)) as H1.
  pose proof (del_dup_len_le txs) as H2.
  assert (H3 : del_dup txs = txs) by (apply del_dup_len_eq; lia).
  assert (H4 : filter q (del_dup txs) = del_dup txs) by (apply filter_len_eq; lia).
  rewrite H4. exact H3.
Qed.

(** * transaction checks against the spec *)

Lemma tx_height_cases : forall e,
  (e > TxHeightFlag /\ tx_height e = e - TxHeightFlag) \/ (e <= TxHeightFlag /\ tx_height e = -1).
Proof.
  intros e. unfold tx_height. destruct (Z.gtb_spec e TxHeightFlag) as [H|H].
  - left. split; [lia | reflexivity].
  - right. split; [lia | reflexivity].
Qed.
