(** C28 — the signature claim against the concrete pool: refuted at full strength (a pooled
    transaction's body under another key; the same through the first member of a pooled group),
    the candidate repair (skip verification only for the pooled transaction itself) proved
    without a guard, and non-trivial histories with groups satisfying every hypothesis. *)
From Coq Require Import List ZArith NArith Bool Lia.
From C33 Require Import C28.Model C28.Spec C28.Defs C28.ProofsLib C28.ProofsGrp C28.Proofs C28.ProofsSig C28.ProofsNode.
Import ListNotations.
Open Scope Z_scope.

(** ** the refutation: T is offered and accepted; a peer block carries T's body with another
    account's key and a signature that does not verify *)
Definition nw_T : tx := mkTx 1 1 1 0 100000 237 33 true 0 0 0.
Definition nw_ops : list nop := [NPool [nw_T]; NPeer (mkBlk 2 1 1 1514533395 [w_forged])].

Lemma fh_ok_pairs : forall U, (forall t1 t2, In t1 U -> In t2 U -> tfull t1 = tfull t2 -> t1 = t2) -> fh_ok U.
Proof. intros U H t1 t2 H1 H2 E. rewrite (H t1 t2 H1 H2 E). reflexivity. Qed.

Ltac inj_small :=
  let t1 := fresh "t1" in let t2 := fresh "t2" in let H1 := fresh "H1" in let H2 := fresh "H2" in
  let E := fresh "E" in
  intros t1 t2 H1 H2 E; cbn in H1, H2;
  repeat (destruct H1 as [H1|H1]; [subst t1|]); try contradiction;
  repeat (destruct H2 as [H2|H2]; [subst t2|]); try contradiction;
  try reflexivity; discriminate E.

Theorem nall_signed_refuted : ~ nall_signed_full.
Proof.
  intro H. specialize (H w_cfg w_gen nw_ops).
  assert (G : gen_ok w_gen) by (repeat split; reflexivity || (cbn; lia)).
  assert (F : fh_ok (nall_txs nw_ops)) by (apply fh_ok_pairs; inj_small).
  specialize (H G F eq_refl eq_refl). vm_compute in H. discriminate H.
Qed.

(** the guard of the partial theorem fails on the witness, as it must *)
Example nw_guard_fails : nguard w_cfg (ninit w_gen) nw_ops = false.
Proof. reflexivity. Qed.

(** ** a group: the first member pays, the second is bound to a height window *)
Definition gH : tx := mkTx 10 10 10 0 200000 300 33 true 2 10 11.
Definition gM : tx := mkTx 11 11 11 (TxHeightFlag + 3) 0 250 33 true 2 10 0.
Definition gH_forged : tx := mkTx 10 10 12 0 200000 300 33 false 2 10 11.
Definition gM_forged : tx := mkTx 11 11 13 (TxHeightFlag + 3) 0 250 33 false 2 10 0.

(** the group is pooled; a block carries it with a mis-signed first member: the pool knows the
    Hash(), nothing is verified, the block is accepted *)
Example forged_group_head_accepted :
  let n := nrun w_cfg (ninit w_gen) [NPool [gH; gM]; NPeer (mkBlk 2 1 1 1514533395 [gH_forged; gM])] in
  map b_id (chain (n_st n)) = [2%N; 1%N] /\ spec_signed (chain (n_st n)) = false.
Proof. vm_compute. split; reflexivity. Qed.

(** a mis-signed later member is refused: the pool knows the group by its first member only *)
Example forged_group_member_refused :
  snd (connect_peer w_cfg (init w_gen) (pool_hashes [[gH; gM]]) (mkBlk 2 1 1 1514533395 [gH; gM_forged])) = ESign.
Proof. reflexivity. Qed.

(** a group with a member that is expired at the block's height is refused as a whole from a
    peer and dropped as a whole by the producer's path, whatever its Header looks like *)
Definition gM_old : tx := mkTx 14 14 14 1 0 250 33 true 2 10 0.
Definition gH_old : tx := mkTx 15 15 15 0 200000 300 33 true 2 15 14.
Example expired_member_refused :
  snd (connect_peer w_cfg (init w_gen) [] (mkBlk 2 1 1 1514533395 [gH_old; gM_old])) = EExec
  /\ snd (connect_self w_cfg (init w_gen) (mkBlk 2 1 1 1514533395 [gH_old; gM_old; nw_T])) = [nw_T].
Proof. vm_compute. split; reflexivity. Qed.

(** a history that satisfies every hypothesis of the partial theorems: the group is pooled,
    arrives in a block with its own signatures, its block is replaced, the mempool takes the
    group back, and it is connected again on the other branch; the height-bound member leaves
    and re-enters the window cache *)
Definition gn_ops : list nop :=
  [NPool [gH; gM];
   NPeer (mkBlk 2 1 1 1514533395 [g_t1]);
   NPeer (mkBlk 3 2 2 1514533396 [gH; gM]);
   NDisc;
   NSync [10%N];
   NSelf (mkBlk 4 2 2 1514533397 [gH; gM; g_t1])].

Example gn_shape :
  let n := nrun w_cfg (ninit w_gen) gn_ops in
  map b_id (chain (n_st n)) = [4%N; 2%N; 1%N]
  /\ map (map tfull) (map b_txs (chain (n_st n))) = [[10%N; 11%N]; [1%N]; []]
  /\ cache (n_st n) = [(3, 11%N)] /\ n_pool n = [] /\ n_limbo n = []
  /\ n_pool (nrun w_cfg (ninit w_gen) (firstn 5 gn_ops)) = [[gH; gM]].
Proof. vm_compute. repeat split. Qed.

Example gn_hyps :
  cfg_ok w_cfg /\ gen_ok w_gen /\ hash_ok (nops_txs gn_ops) /\ fh_ok (nall_txs gn_ops)
  /\ nself_signed gn_ops = true /\ noffers_signed gn_ops = true /\ nguard w_cfg (ninit w_gen) gn_ops = true.
Proof.
  split; [split; cbn; lia|]. split; [repeat split; cbn; lia|].
  split.
  { intros t1 t2 H1 H2. cbn in H1, H2.
    repeat (destruct H1 as [H1|H1]; [subst t1|]); try contradiction;
    repeat (destruct H2 as [H2|H2]; [subst t2|]); try contradiction;
    (split; intro E; [try (split; reflexivity); try discriminate E | try reflexivity; try discriminate E]). }
  split; [apply fh_ok_pairs; inj_small|].
  vm_compute. repeat split.
Qed.

(** ** the candidate repair: verification is skipped only for a transaction the pool holds with
    the same FullHash() *)
Definition sig_stage_nfix (p : list pent) (txs : list tx) : bool :=
  forallb (fun t => pool_same p t || tsig t) txs.

Definition connect_peer_nfix (c : cfg) (s : st) (p : list pent) (b : blk) : st * err :=
  if sig_stage_nfix p (b_txs b) then connect_peer c s (map th (b_txs b)) b
  else (s, if linked s b then ESign else ELink).

Definition nstep_fix (c : cfg) (n : node) (o : nop) : node :=
  match o with
  | NPeer b =>
      let '(s', e) := connect_peer_nfix c (n_st n) (n_pool n) b in
      mkNode s' (if is_ok e then pool_after c b (n_pool n) else n_pool n) (n_limbo n)
  | _ => nstep c n o
  end.

Definition nrun_fix (c : cfg) (n : node) (ops : list nop) : node := fold_left (nstep_fix c) ops n.

Lemma signed_chain_grow : forall l b s', signed_chain l ->
  (forall t, In t (b_txs b) -> tsig t = true) ->
  chain s' = l \/ chain s' = b :: l -> signed_chain (chain s').
Proof.
  intros l b s' Hl Hb [E|E]; rewrite E; [exact Hl|].
  intros b' t [Hb'|Hb'] Ht; [subst b'; exact (Hb t Ht) | exact (Hl b' t Hb' Ht)].
Qed.

Lemma ns_step_fix : forall c U n o, fh_ok U -> NS U n -> incl (nall_op_txs o) U ->
  (match o with NSelf b => forallb tsig (b_txs b) | NPool e => forallb tsig e | _ => true end) = true ->
  NS U (nstep_fix c n o).
Proof.
  intros c U n o Hfh HN Hincl Hsg.
  destruct o as [b|b| |e|hs];
    try (apply (ns_step c U Hfh n _ HN Hincl eq_refl Hsg)).
  cbn [nstep_fix nall_op_txs] in *. unfold connect_peer_nfix.
  destruct (sig_stage_nfix (n_pool n) (b_txs b)) eqn:Hst.
  - assert (Hall : forall t, In t (b_txs b) -> tsig t = true).
    { intros t Ht. unfold sig_stage_nfix in Hst. rewrite forallb_forall in Hst. specialize (Hst t Ht).
      apply orb_true_iff in Hst. destruct Hst as [Hst|Hst]; [|exact Hst].
      exact (pool_same_signed U (n_pool n) t Hfh (ns_pool U n HN) (Hincl t Ht) Hst). }
    pose proof (connect_peer_chain c (n_st n) (map th (b_txs b)) b) as Hch.
    destruct (connect_peer c (n_st n) (map th (b_txs b)) b) as [s' er]. cbn [fst] in Hch.
    constructor; cbn [n_st n_pool n_limbo].
    + exact (signed_chain_grow _ b s' (ns_chain U n HN) Hall Hch).
    + exact (ns_peer_chain U n b HN Hincl s' Hch).
    + destruct (is_ok er); [apply pool_after_signed|]; exact (ns_pool U n HN).
    + exact (ns_limbo U n HN).
  - constructor; cbn [n_st n_pool n_limbo];
      [exact (ns_chain U n HN) | exact (ns_U U n HN) | | exact (ns_limbo U n HN)].
    destruct (linked (n_st n) b); cbn [is_ok]; exact (ns_pool U n HN).
Qed.

Lemma ns_run_fix : forall c U, fh_ok U -> forall nops n, NS U n -> incl (nall_txs nops) U ->
  nself_signed nops = true -> noffers_signed nops = true -> NS U (nrun_fix c n nops).
Proof.
  intros c U Hfh. induction nops as [|o r IH]; intros n HN Hincl Hs Ho; [exact HN|].
  cbn [nself_signed noffers_signed forallb] in Hs, Ho.
  apply andb_true_iff in Hs. destruct Hs as [Hs1 Hs]. apply andb_true_iff in Ho. destruct Ho as [Ho1 Ho].
  unfold nrun_fix. cbn [fold_left]. apply IH; try assumption.
  - apply ns_step_fix; [exact Hfh | exact HN | |].
    + intros t Ht. apply Hincl. unfold nall_txs. cbn [flat_map]. apply in_or_app. left. exact Ht.
    + destruct o; try reflexivity; assumption.
  - intros t Ht. apply Hincl. unfold nall_txs. cbn [flat_map]. apply in_or_app. right. exact Ht.
Qed.

Theorem nfix_all_signed : forall c g nops, gen_ok g -> fh_ok (nall_txs nops) ->
  nself_signed nops = true -> noffers_signed nops = true ->
  spec_signed (chain (n_st (nrun_fix c (ninit g) nops))) = true
  /\ forall e, In e (n_pool (nrun_fix c (ninit g) nops)) -> forallb tsig e = true.
Proof.
  intros c g nops Hg Hfh Hs Ho.
  pose proof (ns_run_fix c _ Hfh nops (ninit g) (ns_init _ g Hg) (incl_refl _) Hs Ho) as HN.
  split.
  - apply signed_spec. exact (ns_chain _ _ HN).
  - intros e He. apply forallb_forall. intros t Ht. exact (proj1 (ns_pool _ _ HN e t He Ht)).
Qed.

(** under the repair both witnesses are refused although the pool holds the body *)
Example nfix_refuses_witnesses :
  map b_id (chain (n_st (nrun_fix w_cfg (ninit w_gen) nw_ops))) = [1%N]
  /\ map b_id (chain (n_st (nrun_fix w_cfg (ninit w_gen)
        [NPool [gH; gM]; NPeer (mkBlk 2 1 1 1514533395 [gH_forged; gM])]))) = [1%N].
Proof. vm_compute. split; reflexivity. Qed.

(** and the honest history runs exactly as before *)
Example nfix_same_on_honest :
  n_st (nrun_fix w_cfg (ninit w_gen) gn_ops) = n_st (nrun w_cfg (ninit w_gen) gn_ops).
Proof. vm_compute. reflexivity. Qed.
