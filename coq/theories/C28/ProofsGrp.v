(** C28 — executor.procExecTxList over single transactions and groups: a list whose receipts are
    all non-errors is a sequence of accepted single transactions and accepted whole groups
    ([okl]); what the producer's path keeps is such a list again. *)
From Coq Require Import List ZArith NArith Bool Lia.
From C33 Require Import C28.Model C28.Spec.
Import ListNotations.
Open Scope Z_scope.

Section Grp.
  Variable c : cfg.
  Variables h bt : Z.

  Inductive okl : list tx -> Prop :=
  | okl_nil : okl []
  | okl_single : forall t r, tgc t = 0 -> check_tx c h bt t = true -> okl r -> okl (t :: r)
  | okl_group : forall t g r, 2 <= tgc t <= 20 -> Z.to_nat (tgc t) = length (t :: g) ->
      group_rc c h bt (t :: g) = true -> okl r -> okl ((t :: g) ++ r).

  Lemma all_true_app : forall a b, all_true (a ++ b) = all_true a && all_true b.
  Proof. intros a b. unfold all_true. apply forallb_app. Qed.

  Lemma all_true_repeat : forall n, all_true (repeat true n) = true.
  Proof. induction n as [|n IH]; [reflexivity | exact IH]. Qed.

  Lemma exec_go_0 : forall v txs, exec_go c h bt 0 v txs = exec_go c h bt 0 false txs.
  Proof. intros v [|t r]; reflexivity. Qed.

  (** a judged group is passed over, then the list goes on *)
  Lemma exec_go_skip : forall txs p v, (p <= length txs)%nat ->
    exec_go c h bt p v txs = repeat v p ++ exec_go c h bt 0 false (skipn p txs).
  Proof.
    induction txs as [|t r IH]; intros p v Hp.
    - cbn [length] in Hp. assert (p = 0%nat) by lia. subst p. reflexivity.
    - destruct p as [|p].
      + cbn [repeat app skipn]. apply exec_go_0.
      + cbn [exec_go repeat app skipn]. f_equal. apply IH. cbn [length] in Hp. lia.
  Qed.

  Lemma keep_app : forall a b l, (length a <= length l)%nat ->
    keep (a ++ b) l = keep a (firstn (length a) l) ++ keep b (skipn (length a) l).
  Proof.
    induction a as [|x a IH]; intros b l Hl.
    - reflexivity.
    - destruct l as [|t l]; [cbn [length] in Hl; lia|].
      cbn [app keep length firstn skipn]. cbn [length] in Hl.
      destruct x; [cbn [app]; f_equal|]; apply IH; lia.
  Qed.

  Lemma keep_repeat_true : forall l, keep (repeat true (length l)) l = l.
  Proof. induction l as [|t l IH]; [reflexivity|]. cbn [length repeat keep]. f_equal. exact IH. Qed.

  Lemma keep_repeat_false : forall n l, keep (repeat false n) l = [].
  Proof.
    induction n as [|n IH]; intros l; [destruct l; reflexivity|].
    destruct l as [|t l]; [reflexivity|]. cbn [repeat keep]. apply IH.
  Qed.

  Lemma keep_In : forall fl l t, In t (keep fl l) -> In t l.
  Proof.
    induction fl as [|f fl IH]; intros l t Ht; [destruct l; destruct Ht|].
    destruct l as [|x l]; [destruct Ht|]. cbn [keep] in Ht. destruct f.
    - destruct Ht as [Ht|Ht]; [left; exact Ht | right; exact (IH l t Ht)].
    - right. exact (IH l t Ht).
  Qed.

  Lemma keep_nd : forall fl l, NoDup (map th l) -> NoDup (map th (keep fl l)).
  Proof.
    induction fl as [|f fl IH]; intros l Hnd; [destruct l; constructor|].
    destruct l as [|x l]; [constructor|]. cbn [keep]. cbn [map] in Hnd.
    inversion Hnd as [|a m Hnotin Hnd']. subst a m. destruct f.
    - cbn [map]. constructor; [|exact (IH l Hnd')].
      intro Hin. apply Hnotin. apply in_map_iff in Hin. destruct Hin as [y [Ey Hy]].
      apply in_map_iff. exists y. split; [exact Ey | exact (keep_In fl l y Hy)].
    - exact (IH l Hnd').
  Qed.

  (** one step of the list at a position where no group is pending *)
  Lemma exec_go_cons : forall t r,
    exec_go c h bt 0 false (t :: r) =
      if (tgc t <? 0) || (tgc t =? 1) || (tgc t >? 20) then false :: exec_go c h bt 0 false r
      else if tgc t =? 0 then check_tx c h bt t :: exec_go c h bt 0 false r
      else if (length (t :: r) <? Z.to_nat (tgc t))%nat then false :: exec_go c h bt 0 false r
      else let ok := group_rc c h bt (firstn (Z.to_nat (tgc t)) (t :: r)) in
           repeat ok (Z.to_nat (tgc t))
           ++ exec_go c h bt 0 false (skipn (Z.to_nat (tgc t)) (t :: r)).
  Proof.
    intros t r. cbn [exec_go].
    destruct ((tgc t <? 0) || (tgc t =? 1) || (tgc t >? 20)) eqn:E1; [reflexivity|].
    destruct (tgc t =? 0) eqn:E2; [reflexivity|].
    destruct (length (t :: r) <? Z.to_nat (tgc t))%nat eqn:E3; [reflexivity|].
    cbv zeta. apply Nat.ltb_ge in E3. cbn [length] in E3.
    apply orb_false_iff in E1. destruct E1 as [E1 _]. apply orb_false_iff in E1. destruct E1 as [E0 E1].
    apply Z.ltb_ge in E0. apply Z.eqb_neq in E1. apply Z.eqb_neq in E2.
    assert (Hk : exists k, Z.to_nat (tgc t) = S k).
    { exists (Z.to_nat (tgc t) - 1)%nat. lia. }
    destruct Hk as [k Hk]. rewrite Hk. cbn [repeat app skipn].
    replace (S k - 1)%nat with k by lia. f_equal.
    apply exec_go_skip. lia.
  Qed.

  (** all receipts fine: the list is made of accepted single transactions and accepted groups *)
  Lemma exec_okl_fuel : forall n txs, (length txs <= n)%nat ->
    all_true (exec_go c h bt 0 false txs) = true -> okl txs.
  Proof.
    induction n as [|n IH]; intros txs Hn Hall.
    - destruct txs; [constructor | cbn [length] in Hn; lia].
    - destruct txs as [|t r]; [constructor|].
      rewrite exec_go_cons in Hall. cbn [length] in Hn.
      destruct ((tgc t <? 0) || (tgc t =? 1) || (tgc t >? 20)) eqn:E1; [discriminate Hall|].
      destruct (tgc t =? 0) eqn:E2.
      + cbn [all_true forallb] in Hall. apply andb_true_iff in Hall. destruct Hall as [H1 H2].
        apply okl_single; [apply Z.eqb_eq; exact E2 | exact H1 | apply IH; [lia | exact H2]].
      + destruct (length (t :: r) <? Z.to_nat (tgc t))%nat eqn:E3; [discriminate Hall|].
        cbv zeta in Hall. apply Nat.ltb_ge in E3.
        apply orb_false_iff in E1. destruct E1 as [E1 E20]. apply orb_false_iff in E1. destruct E1 as [E0 E1].
        apply Z.ltb_ge in E0. apply Z.eqb_neq in E1. apply Z.eqb_neq in E2. rewrite Z.gtb_ltb in E20; apply Z.ltb_ge in E20.
        rewrite all_true_app in Hall. apply andb_true_iff in Hall. destruct Hall as [H1 H2].
        remember (Z.to_nat (tgc t)) as k eqn:Ek.
        assert (Hk : (2 <= k)%nat) by lia.
        assert (Hok : group_rc c h bt (firstn k (t :: r)) = true).
        { destruct (group_rc c h bt (firstn k (t :: r))); [reflexivity|].
          destruct k as [|k']; [lia|]. cbn [repeat all_true forallb] in H1. discriminate H1. }
        rewrite <- (firstn_skipn k (t :: r)).
        destruct k as [|k']; [lia|]. cbn [firstn]. cbn [firstn] in Hok.
        apply okl_group.
        * lia.
        * rewrite <- Ek. cbn [length]. rewrite firstn_length. cbn [length] in E3. lia.
        * exact Hok.
        * apply IH; [|exact H2]. rewrite skipn_length. cbn [length]. lia.
  Qed.

  Lemma exec_okl : forall txs, all_true (exec_rc c h bt txs) = true -> okl txs.
  Proof. intros txs H. exact (exec_okl_fuel (length txs) txs (Nat.le_refl _) H). Qed.

  (** what the producer's path keeps *)
  Lemma keep_okl_fuel : forall n txs, (length txs <= n)%nat ->
    okl (keep (exec_go c h bt 0 false txs) txs).
  Proof.
    induction n as [|n IH]; intros txs Hn.
    - destruct txs; [constructor | cbn [length] in Hn; lia].
    - destruct txs as [|t r]; [constructor|].
      rewrite exec_go_cons. cbn [length] in Hn.
      destruct ((tgc t <? 0) || (tgc t =? 1) || (tgc t >? 20)) eqn:E1.
      { cbn [keep]. apply IH. lia. }
      destruct (tgc t =? 0) eqn:E2.
      { cbn [keep]. destruct (check_tx c h bt t) eqn:Ec.
        - apply okl_single; [apply Z.eqb_eq; exact E2 | exact Ec | apply IH; lia].
        - apply IH. lia. }
      destruct (length (t :: r) <? Z.to_nat (tgc t))%nat eqn:E3.
      { cbn [keep]. apply IH. lia. }
      cbv zeta. apply Nat.ltb_ge in E3.
      apply orb_false_iff in E1. destruct E1 as [E1 E20]. apply orb_false_iff in E1. destruct E1 as [E0 E1].
      apply Z.ltb_ge in E0. apply Z.eqb_neq in E1. apply Z.eqb_neq in E2. rewrite Z.gtb_ltb in E20; apply Z.ltb_ge in E20.
      remember (Z.to_nat (tgc t)) as k eqn:Ek.
      assert (Hk : (2 <= k)%nat) by lia.
      rewrite keep_app by (rewrite repeat_length; exact E3).
      rewrite repeat_length.
      assert (Hrest : okl (keep (exec_go c h bt 0 false (skipn k (t :: r))) (skipn k (t :: r)))).
      { apply IH. rewrite skipn_length. cbn [length]. lia. }
      destruct (group_rc c h bt (firstn k (t :: r))) eqn:Hok.
      + assert (Hl : length (firstn k (t :: r)) = k) by (rewrite firstn_length; lia).
        rewrite <- Hl at 1. rewrite keep_repeat_true.
        destruct k as [|k']; [lia|]. cbn [firstn]. cbn [firstn] in Hok, Hl.
        apply okl_group; [lia | rewrite <- Ek; exact (eq_sym Hl) | exact Hok | exact Hrest].
      + rewrite keep_repeat_false. exact Hrest.
  Qed.

  Lemma keep_okl : forall txs, okl (keep (exec_rc c h bt txs) txs).
  Proof. intros txs. exact (keep_okl_fuel (length txs) txs (Nat.le_refl _)). Qed.

  (** ** what an accepted list guarantees *)

  Lemma group_rc_live : forall g t, 0 < h -> 0 < bt -> group_rc c h bt g = true -> In t g ->
    is_expire c t h bt = false.
  Proof.
    intros g t Hh Hb H Ht. unfold group_rc in H. apply andb_true_iff in H. destruct H as [H _].
    apply negb_true_iff in H.
    rewrite (proj2 (Z.gtb_lt h 0) Hh), (proj2 (Z.gtb_lt bt 0) Hb) in H. cbn [andb] in H.
    destruct (is_expire c t h bt) eqn:E; [|reflexivity].
    assert (X : existsb (fun t => is_expire c t h bt) g = true).
    { apply existsb_exists. exists t. split; assumption. }
    rewrite X in H. discriminate H.
  Qed.

  Lemma check_tx_live : forall t, 0 < h -> 0 < bt -> check_tx c h bt t = true -> is_expire c t h bt = false.
  Proof.
    intros t Hh Hb H. unfold check_tx in H.
    repeat (apply andb_true_iff in H; destruct H as [H _]). apply negb_true_iff in H.
    rewrite (proj2 (Z.gtb_lt h 0) Hh), (proj2 (Z.gtb_lt bt 0) Hb) in H. exact H.
  Qed.

  Lemma okl_live : forall txs, 0 < h -> 0 < bt -> okl txs ->
    forall t, In t txs -> is_expire c t h bt = false.
  Proof.
    intros txs Hh Hb H. induction H as [|t0 r Hg Hc Hr IH|t0 g r Hgc Hlen Hok Hr IH]; intros t Ht.
    - destruct Ht.
    - destruct Ht as [Ht|Ht]; [subst t; exact (check_tx_live t0 Hh Hb Hc) | exact (IH t Ht)].
    - apply in_app_or in Ht. destruct Ht as [Ht|Ht]; [exact (group_rc_live _ t Hh Hb Hok Ht) | exact (IH t Ht)].
  Qed.
End Grp.
