(** C28 — Chain holds no replayed, expired or mis-signed transactions: theorem statements. *)
From Coq Require Import List ZArith NArith Bool.
From C33 Require Import C28.Model C28.Spec C28.Defs C28.Proofs C28.ProofsSig C28.ProofsEx C28.ProofsNode C28.ProofsNodeFix.
From C33 Require Import C28.ModelMem C28.ProofsMem.
Import ListNotations.
Open Scope Z_scope.

(** ** connections and disconnections with the mempool's answers as inputs ([run]); blocks carry
    single transactions and groups *)

Theorem C28_unique_in_window : forall c g ops, cfg_ok c -> gen_ok g -> hash_ok (ops_txs ops) ->
  spec_unique (chain (run c (init g) ops)) = true.
Proof. exact unique_all. Qed.
Print Assumptions C28_unique_in_window.

Theorem C28_unexpired_fee_chainid : forall c g ops, cfg_ok c -> gen_ok g -> hash_ok (ops_txs ops) ->
  spec_checked c (chain (run c (init g) ops)) = true.
Proof. exact checked_all. Qed.
Print Assumptions C28_unexpired_fee_chainid.

Theorem C28_group_members_unexpired : forall c g ops, cfg_ok c -> gen_ok g -> hash_ok (ops_txs ops) ->
  forall b t, In b (chain (run c (init g) ops)) -> 0 < b_h b -> In t (b_txs b) ->
    spec_live c (texp t) (b_h b) (b_time b) = true.
Proof. exact members_unexpired_all. Qed.
Print Assumptions C28_group_members_unexpired.

Theorem C28_group_members_whole : forall c g ops, cfg_ok c -> gen_ok g -> hash_ok (ops_txs ops) ->
  forall b t, In b (chain (run c (init g) ops)) -> In t (b_txs b) -> tgc t <> 0 ->
    exists pre grp post, b_txs b = pre ++ grp ++ post /\ In t grp /\ spec_group c grp = true.
Proof. exact members_whole_all. Qed.
Print Assumptions C28_group_members_whole.

Theorem C28_window_cache_exact : forall c g ops, cfg_ok c -> gen_ok g -> hash_ok (ops_txs ops) ->
  cache_exact c (run c (init g) ops).
Proof. exact cache_exact_all. Qed.
Print Assumptions C28_window_cache_exact.

Theorem C28_tx_index_exact : forall c g ops, cfg_ok c -> gen_ok g -> hash_ok (ops_txs ops) ->
  index_exact (run c (init g) ops).
Proof. exact index_exact_all. Qed.
Print Assumptions C28_tx_index_exact.

Theorem C28_all_signed_oracle_refuted : ~ all_signed_full.
Proof. exact all_signed_refuted. Qed.
Print Assumptions C28_all_signed_oracle_refuted.

Theorem C28_all_signed_oracle_partial : forall c g ops,
  gen_ok g -> self_signed ops = true -> pool_guard ops = true ->
  spec_signed (chain (run c (init g) ops)) = true.
Proof. exact all_signed_partial. Qed.
Print Assumptions C28_all_signed_oracle_partial.

Theorem C28_chain_clean_oracle_partial : forall c g ops,
  cfg_ok c -> gen_ok g -> hash_ok (ops_txs ops) ->
  self_signed ops = true -> pool_guard ops = true ->
  spec_chain c (chain (run c (init g) ops)) = true.
Proof. exact chain_clean_partial. Qed.
Print Assumptions C28_chain_clean_oracle_partial.

Theorem C28_fix_all_signed_oracle : forall c g ops,
  gen_ok g -> self_signed ops = true -> pool_verified ops = true ->
  spec_signed (chain (run_fix c (init g) ops)) = true.
Proof. exact fix_all_signed. Qed.
Print Assumptions C28_fix_all_signed_oracle.

(** ** the node with its own mempool ([nrun]): accepted offers, removal by connected blocks and
    by expiry, transactions of disconnected blocks coming back *)

Theorem C28_node_refines : forall c nops n, n_st (nrun c n nops) = run c (n_st n) (ops_of c n nops).
Proof. exact node_refines. Qed.
Print Assumptions C28_node_refines.

Theorem C28_node_chain_checked : forall c g nops, cfg_ok c -> gen_ok g -> hash_ok (nops_txs nops) ->
  let l := chain (n_st (nrun c (ninit g) nops)) in
  spec_unique l = true /\ spec_checked c l = true.
Proof. exact node_chain_checked. Qed.
Print Assumptions C28_node_chain_checked.

Theorem C28_all_signed_refuted : ~ nall_signed_full.
Proof. exact nall_signed_refuted. Qed.
Print Assumptions C28_all_signed_refuted.

Theorem C28_all_signed_partial : forall c g nops, gen_ok g -> fh_ok (nall_txs nops) ->
  nself_signed nops = true -> noffers_signed nops = true -> nguard c (ninit g) nops = true ->
  spec_signed (chain (n_st (nrun c (ninit g) nops))) = true.
Proof. exact nall_signed_partial. Qed.
Print Assumptions C28_all_signed_partial.

Theorem C28_pool_signed_partial : forall c g nops, gen_ok g -> fh_ok (nall_txs nops) ->
  nself_signed nops = true -> noffers_signed nops = true -> nguard c (ninit g) nops = true ->
  forall e, In e (n_pool (nrun c (ninit g) nops)) -> forallb tsig e = true.
Proof. exact npool_signed_partial. Qed.
Print Assumptions C28_pool_signed_partial.

Theorem C28_chain_clean_partial : forall c g nops, cfg_ok c -> gen_ok g -> hash_ok (nops_txs nops) ->
  fh_ok (nall_txs nops) -> nself_signed nops = true -> noffers_signed nops = true ->
  nguard c (ninit g) nops = true ->
  spec_chain c (chain (n_st (nrun c (ninit g) nops))) = true.
Proof. exact nchain_clean_partial. Qed.
Print Assumptions C28_chain_clean_partial.

Theorem C28_fix_all_signed : forall c g nops, gen_ok g -> fh_ok (nall_txs nops) ->
  nself_signed nops = true -> noffers_signed nops = true ->
  spec_signed (chain (n_st (nrun_fix c (ninit g) nops))) = true
  /\ forall e, In e (n_pool (nrun_fix c (ninit g) nops)) -> forallb tsig e = true.
Proof. exact nfix_all_signed. Qed.
Print Assumptions C28_fix_all_signed.

Theorem C28_hypotheses_satisfiable :
  (cfg_ok w_cfg /\ gen_ok w_gen /\ hash_ok (ops_txs g_ops) /\ self_signed g_ops = true /\ pool_guard g_ops = true)
  /\ (cfg_ok w_cfg /\ gen_ok w_gen /\ hash_ok (nops_txs gn_ops) /\ fh_ok (nall_txs gn_ops)
      /\ nself_signed gn_ops = true /\ noffers_signed gn_ops = true /\ nguard w_cfg (ninit w_gen) gn_ops = true).
Proof.
  split; [|exact gn_hyps].
  destruct hyps_satisfiable as [A [B C]]. destruct guards_satisfiable as [D [E _]].
  exact (conj A (conj B (conj C (conj D E)))).
Qed.
Print Assumptions C28_hypotheses_satisfiable.

(** ** BlockChain.GetBlock reads through the in-memory block cache ([run_m]: every operation runs
    with some blocks in memory): whichever blocks are in memory, the state after the history is
    the one of [run], to which all theorems above apply.  In particular the window cache is
    refilled on a disconnection also when the block that comes back is not in memory. *)

Theorem C28_block_cache_unobservable : forall c ops s, mems_ok c s ops ->
  run_m c s ops = run c s (map snd ops).
Proof. exact block_cache_unobservable. Qed.
Print Assumptions C28_block_cache_unobservable.

Theorem C28_block_cache_nonvacuous :
  mems_ok m_cfg (init m_gen) (m_ops [m_b4]) /\ mems_ok m_cfg (init m_gen) (m_ops [m_b4; m_b2])
  /\ (let s := run_m m_cfg (init m_gen) (firstn 4 (m_ops [m_b4])) in
      map b_id (chain s) = [3%N; 2%N; 1%N] /\ cache s = [(2, 1%N)])
  /\ map b_id (chain (run_m m_cfg (init m_gen) (m_ops [m_b4]))) = [3%N; 2%N; 1%N]
  /\ snd (connect_peer m_cfg (run_m m_cfg (init m_gen) (firstn 4 (m_ops [m_b4]))) [] m_b5) = EDup.
Proof. exact mems_satisfiable. Qed.
Print Assumptions C28_block_cache_nonvacuous.
