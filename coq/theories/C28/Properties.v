(** C28 — Chain holds no replayed, expired or mis-signed transactions: theorem statements. *)
From Coq Require Import List ZArith NArith Bool.
From C33 Require Import C28.Model C28.Spec C28.Defs C28.Proofs C28.ProofsSig C28.ProofsEx.
Import ListNotations.
Open Scope Z_scope.

Theorem C28_unique_in_window : forall c g ops, cfg_ok c -> gen_ok g -> hash_ok (ops_txs ops) ->
  spec_unique (chain (run c (init g) ops)) = true.
Proof. exact unique_all. Qed.
Print Assumptions C28_unique_in_window.

Theorem C28_unexpired_fee_chainid : forall c g ops, cfg_ok c -> gen_ok g -> hash_ok (ops_txs ops) ->
  spec_checked c (chain (run c (init g) ops)) = true.
Proof. exact checked_all. Qed.
Print Assumptions C28_unexpired_fee_chainid.

Theorem C28_window_cache_exact : forall c g ops, cfg_ok c -> gen_ok g -> hash_ok (ops_txs ops) ->
  cache_exact c (run c (init g) ops).
Proof. exact cache_exact_all. Qed.
Print Assumptions C28_window_cache_exact.

Theorem C28_tx_index_exact : forall c g ops, cfg_ok c -> gen_ok g -> hash_ok (ops_txs ops) ->
  index_exact (run c (init g) ops).
Proof. exact index_exact_all. Qed.
Print Assumptions C28_tx_index_exact.

Theorem C28_all_signed_refuted : ~ all_signed_full.
Proof. exact all_signed_refuted. Qed.
Print Assumptions C28_all_signed_refuted.

Theorem C28_all_signed_partial : forall c g ops,
  gen_ok g -> self_signed ops = true -> pool_guard ops = true ->
  spec_signed (chain (run c (init g) ops)) = true.
Proof. exact all_signed_partial. Qed.
Print Assumptions C28_all_signed_partial.

Theorem C28_chain_clean_partial : forall c g ops,
  cfg_ok c -> gen_ok g -> hash_ok (ops_txs ops) ->
  self_signed ops = true -> pool_guard ops = true ->
  spec_chain c (chain (run c (init g) ops)) = true.
Proof. exact chain_clean_partial. Qed.
Print Assumptions C28_chain_clean_partial.

Theorem C28_fix_all_signed : forall c g ops,
  gen_ok g -> self_signed ops = true -> pool_verified ops = true ->
  spec_signed (chain (run_fix c (init g) ops)) = true.
Proof. exact fix_all_signed. Qed.
Print Assumptions C28_fix_all_signed.

Theorem C28_hypotheses_satisfiable : cfg_ok w_cfg /\ gen_ok w_gen /\ hash_ok (ops_txs g_ops)
  /\ self_signed g_ops = true /\ pool_guard g_ops = true.
Proof.
  destruct hyps_satisfiable as [A [B C]]. destruct guards_satisfiable as [D [E _]].
  exact (conj A (conj B (conj C (conj D E)))).
Qed.
Print Assumptions C28_hypotheses_satisfiable.
