(** C28 — BlockChain.GetBlock with the in-memory block cache made explicit.

    In Model.v BlockChain.GetBlock(height) is [block_at]: the main chain's block of that height.
    The code answers it in two steps (blockchain/chain.go GetBlock): the hash of the height comes
    from the block store, the block of that hash from the in-memory BlockCache when it is there
    (the last DefCacheSize blocks, blockchain/cache.go) and from the database otherwise.  Here
    that look-up is spelled out with the blocks in memory as a parameter [mem] of every
    operation, so that "which blocks are in memory does not matter" becomes a statement
    (ProofsMem.v): txHashCache.Add / Del ask for blocks that are low+high blocks old, which the
    BlockCache has usually dropped (default: 128 blocks in memory, 800 in the window). *)
From Coq Require Import List ZArith NArith Bool.
From C33 Require Import C28.Model.
Import ListNotations.
Open Scope Z_scope.

(** BlockChain.GetBlock(height) *)
Definition get_block (mem l : list blk) (h : Z) : option blk :=
  match block_at l h with
  | Some b => match find (fun m => N.eqb (b_id m) (b_id b)) mem with
              | Some m => Some m       (* BlockCache.GetBlockByHash *)
              | None => Some b         (* BlockStore.LoadBlock *)
              end
  | None => None
  end.

(** txHashCache.Add *)
Definition cache_add_m (c : cfg) (mem l : list blk) (b : blk) (ca : list entry) : list entry :=
  let ca1 := cadd_all (ents (b_txs b)) ca in
  let dh := b_h b - c_high c - c_low c in
  if dh >=? 0 then
    match get_block mem l dh with
    | Some d => cdel_all (ents (b_txs d)) ca1
    | None => ca1
    end
  else ca1.

(** txHashCache.Del *)
Definition cache_del_m (c : cfg) (mem l : list blk) (h : Z) (ca : list entry) : list entry :=
  let ah := h - c_high c - c_low c in
  let ca1 := if ah >=? 0 then
               match get_block mem l ah with
               | Some a => Some (cadd_all (ents (b_txs a)) ca)
               | None => None
               end
             else Some ca in
  match ca1 with
  | None => ca
  | Some ca1 =>
      match get_block mem l h with
      | Some d => cdel_all (ents (b_txs d)) ca1
      | None => ca1
      end
  end.

Definition attach_m (c : cfg) (mem : list blk) (s : st) (b : blk) : st :=
  let l := b :: chain s in
  mkSt l (fold_left (fun i t => iadd (th t) i) (b_txs b) (index s)) (cache_add_m c mem l b (cache s)).

Definition connect_peer_m (c : cfg) (mem : list blk) (s : st) (pool : list N) (b : blk) : st * err :=
  if negb (linked s b) then (s, ELink)
  else if negb (sig_stage pool (b_txs b)) then (s, ESign)
  else if negb (Nat.eqb (length (check_dup s (b_txs b))) (length (b_txs b))) then (s, EDup)
  else if negb (all_true (exec_rc c (b_h b) (b_time b) (b_txs b))) then (s, EExec)
  else if parent_time s >? b_time b then (s, ETime)
  else match b_txs b with
       | [] => (s, EEmpty)
       | _ => (attach_m c mem s b, ENone)
       end.

Definition connect_self_m (c : cfg) (mem : list blk) (s : st) (b : blk) : st * err * list tx :=
  if negb (linked s b) then (s, ELink, [])
  else
    let dd := check_dup s (b_txs b) in
    let kept := keep (exec_rc c (b_h b) (b_time b) dd) dd in
    if parent_time s >? b_time b then (s, ETime, [])
    else match kept with
         | [] => (s, EEmpty, [])
         | _ => (attach_m c mem s (mkBlk (b_id b) (b_par b) (b_h b) (b_time b) kept), ENone, kept)
         end.

Definition disconnect_m (c : cfg) (mem : list blk) (s : st) : st :=
  match chain s with
  | b :: (_ :: _) as r =>
      mkSt r (fold_left (fun i t => idel (th t) i) (b_txs b) (index s))
           (cache_del_m c mem (chain s) (b_h b) (cache s))
  | _ => s
  end.

(** one operation together with the blocks that are in memory while it runs *)
Definition step_m (c : cfg) (s : st) (mo : list blk * op) : st :=
  match snd mo with
  | OPeer pool b => fst (connect_peer_m c (fst mo) s pool b)
  | OSelf b => fst (fst (connect_self_m c (fst mo) s b))
  | ODisc => disconnect_m c (fst mo) s
  end.

Definition run_m (c : cfg) (s : st) (ops : list (list blk * op)) : st := fold_left (step_m c) ops s.
