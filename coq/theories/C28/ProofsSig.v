(** C28 — the signature part: refuted at full strength (the mempool shortcut of PreExecBlock),
    proved under the guard "no mis-signed block transaction has a Hash() the mempool reports",
    and proved for the candidate repair (skip verification only on a FullHash() match). *)
From Coq Require Import List ZArith NArith Bool Lia.
From C33 Require Import C28.Model C28.Spec C28.Defs C28.ProofsGrp.
Import ListNotations.
Open Scope Z_scope.

(** what the node's own producer hands to the chain has passed the mempool's signature check *)
Definition self_signed (ops : list op) : bool :=
  forallb (fun o => match o with OSelf b => forallb tsig (b_txs b) | _ => true end) ops.

(** guard: in every peer block, a transaction that fails CheckSign does not share its Hash()
    with a transaction the mempool reports as existing *)
Definition pool_guard (ops : list op) : bool :=
  forallb (fun o => match o with
                    | OPeer pool b => forallb (fun t => tsig t || negb (memN (th t) pool)) (b_txs b)
                    | _ => true
                    end) ops.

Definition all_signed_full : Prop :=
  forall c g ops, gen_ok g -> self_signed ops = true ->
    spec_signed (chain (run c (init g) ops)) = true.

Definition signed_chain (l : list blk) : Prop := forall b t, In b l -> In t (b_txs b) -> tsig t = true.

Lemma signed_spec : forall l, signed_chain l -> spec_signed l = true.
Proof.
  intros l H. unfold spec_signed. apply forallb_forall. intros b Hb.
  apply orb_true_iff. right. apply forallb_forall. intros t Ht. exact (H b t Hb Ht).
Qed.

Lemma signed_attach : forall c s b,
  signed_chain (chain s) -> (forall t, In t (b_txs b) -> tsig t = true) ->
  signed_chain (chain (attach c s b)).
Proof.
  intros c s b Hs Hb b' t Hin Ht. cbn [attach chain] in Hin.
  destruct Hin as [E | Hin].
  - subst b'. exact (Hb t Ht).
  - exact (Hs b' t Hin Ht).
Qed.

Lemma signed_disconnect : forall c s, signed_chain (chain s) -> signed_chain (chain (disconnect c s)).
Proof.
  intros c s Hs. unfold disconnect.
  destruct (chain s) as [|b [|p r]] eqn:E; try (rewrite E; exact Hs).
  cbn [chain]. intros b' t Hin Ht. apply (Hs b' t); [right; exact Hin | exact Ht].
Qed.

Lemma signed_self : forall c s b,
  signed_chain (chain s) -> forallb tsig (b_txs b) = true ->
  signed_chain (chain (fst (fst (connect_self c s b)))).
Proof.
  intros c s b Hs Hb. unfold connect_self.
  destruct (negb (linked s b)); [exact Hs|].
  destruct (parent_time s >? b_time b); [exact Hs|].
  cbv zeta.
  destruct (keep (exec_rc c (b_h b) (b_time b) (check_dup s (b_txs b))) (check_dup s (b_txs b))) as [|k ks] eqn:E; [exact Hs|].
  cbn [fst]. apply signed_attach; [exact Hs|].
  cbn [b_txs]. intros t Ht. rewrite <- E in Ht.
  apply keep_In in Ht.
  unfold check_dup in Ht. apply filter_In in Ht. destruct Ht as [Ht _].
  assert (Hd : forall l x, In x (del_dup l) -> In x l).
  { induction l as [|a l IH]; intros x Hx; [exact Hx|]. cbn [del_dup] in Hx.
    destruct (existsb (fun u => N.eqb (th u) (th a)) l).
    - right. exact (IH x Hx).
    - destruct Hx as [Hx|Hx]; [left; exact Hx | right; exact (IH x Hx)]. }
  apply Hd in Ht. rewrite forallb_forall in Hb. exact (Hb t Ht).
Qed.

Lemma signed_peer : forall c s pool b,
  signed_chain (chain s) ->
  forallb (fun t => tsig t || negb (memN (th t) pool)) (b_txs b) = true ->
  signed_chain (chain (fst (connect_peer c s pool b))).
Proof.
  intros c s pool b Hs Hg. unfold connect_peer.
  destruct (negb (linked s b)); [exact Hs|].
  destruct (sig_stage pool (b_txs b)) eqn:Hsig; cbn [negb]; [|exact Hs].
  destruct (negb (Nat.eqb (length (check_dup s (b_txs b))) (length (b_txs b)))); [exact Hs|].
  destruct (negb (all_true (exec_rc c (b_h b) (b_time b) (b_txs b)))); [exact Hs|].
  destruct (parent_time s >? b_time b); [exact Hs|].
  destruct (b_txs b) as [|t0 ts] eqn:E; [exact Hs|].
  cbn [fst]. apply signed_attach; [exact Hs|].
  rewrite E. intros t Ht.
  unfold sig_stage in Hsig. rewrite forallb_forall in Hsig, Hg.
  specialize (Hsig t Ht). specialize (Hg t Ht).
  destruct (tsig t); [reflexivity|].
  cbn [orb] in Hg. rewrite orb_false_r in Hsig. rewrite Hsig in Hg. discriminate Hg.
Qed.

Lemma signed_run : forall c ops s,
  signed_chain (chain s) -> self_signed ops = true -> pool_guard ops = true ->
  signed_chain (chain (run c s ops)).
Proof.
  intros c ops. induction ops as [|o ops IH]; intros s Hs Hself Hg; [exact Hs|].
  cbn [self_signed pool_guard forallb] in Hself, Hg.
  apply andb_true_iff in Hself. destruct Hself as [Ho Hself].
  apply andb_true_iff in Hg. destruct Hg as [Hgo Hg].
  unfold run. cbn [fold_left]. apply IH; [|exact Hself|exact Hg].
  destruct o as [pool b|b|]; cbn [step].
  - apply signed_peer; assumption.
  - apply signed_self; assumption.
  - apply signed_disconnect; assumption.
Qed.

Theorem all_signed_partial : forall c g ops,
  gen_ok g -> self_signed ops = true -> pool_guard ops = true ->
  spec_signed (chain (run c (init g) ops)) = true.
Proof.
  intros c g ops [_ [_ Hg]] Hself Hguard. apply signed_spec. apply signed_run; [|exact Hself|exact Hguard].
  intros b t Hb Ht. cbn [init chain] in Hb. destruct Hb as [E|[]]. subst b. rewrite Hg in Ht. destruct Ht.
Qed.

(** the refutation: T is in the pool (Hash id 1); a peer block carries T's body with another
    account's key and a signature that does not verify (same Hash id, FullHash id 2, CheckSign false) *)
Definition w_cfg : cfg := mkCfg 2 3 100000 1000000000 33 100000 true.
Definition w_gen : blk := mkBlk 1 0 0 1514533394 [].
Definition w_forged : tx := mkTx 1 1 2 0 100000 237 33 false 0 0 0.
Definition w_ops : list op := [OPeer [1%N] (mkBlk 2 1 1 1514533395 [w_forged])].

Theorem all_signed_refuted : ~ all_signed_full.
Proof.
  intro H. specialize (H w_cfg w_gen w_ops).
  assert (G : gen_ok w_gen) by (repeat split; reflexivity || (cbn; lia)).
  specialize (H G eq_refl). vm_compute in H. discriminate H.
Qed.

(** the same block is refused when the pool does not report the hash *)
Example forged_refused_without_pool :
  snd (connect_peer w_cfg (init w_gen) [] (mkBlk 2 1 1 1514533395 [w_forged])) = ESign.
Proof. reflexivity. Qed.

(** a non-trivial history satisfying both guards: a pooled transaction arrives in a block with
    its own valid signature, a producer block, a disconnection *)
Definition g_t1 : tx := mkTx 1 1 1 0 100000 237 33 true 0 0 0.
Definition g_t2 : tx := mkTx 2 2 2 (TxHeightFlag + 3) 100000 240 33 true 0 0 0.
Definition g_ops : list op :=
  [OPeer [1%N] (mkBlk 2 1 1 1514533395 [g_t1]); OSelf (mkBlk 3 2 2 1514533396 [g_t2; g_t1]); ODisc;
   OPeer [] (mkBlk 4 2 2 1514533397 [g_t2])].

Example guards_satisfiable :
  self_signed g_ops = true /\ pool_guard g_ops = true /\
  map b_id (chain (run w_cfg (init w_gen) g_ops)) = [4%N; 2%N; 1%N].
Proof. vm_compute. repeat split. Qed.

(** ---- the candidate repair: the shortcut applies only when the pooled transaction's FullHash()
    equals the block transaction's.  [poolf] = FullHash ids of the mempool's transactions. ---- *)
Definition sig_stage_fix (poolf : list N) (txs : list tx) : bool :=
  forallb (fun t => memN (tfull t) poolf || tsig t) txs.

(** apart from the signature stage the repaired connectBlock is the old one; when the stage
    passes, the old code behaves as with a pool reporting every hash of the block *)
Definition connect_peer_fix (c : cfg) (s : st) (poolf : list N) (b : blk) : st * err :=
  if sig_stage_fix poolf (b_txs b) then connect_peer c s (map th (b_txs b)) b
  else (s, if linked s b then ESign else ELink).

Definition step_fix (c : cfg) (s : st) (o : op) : st :=
  match o with
  | OPeer poolf b => fst (connect_peer_fix c s poolf b)
  | OSelf b => fst (fst (connect_self c s b))
  | ODisc => disconnect c s
  end.

Definition run_fix (c : cfg) (s : st) (ops : list op) : st := fold_left (step_fix c) ops s.

(** the mempool holds only transactions whose signature it verified (C22), and FullHash()
    covers the signature: a block transaction with a pooled FullHash verifies *)
Definition pool_verified (ops : list op) : bool :=
  forallb (fun o => match o with
                    | OPeer poolf b => forallb (fun t => negb (memN (tfull t) poolf) || tsig t) (b_txs b)
                    | _ => true
                    end) ops.

Lemma memN_map_th : forall t l, In t l -> memN (th t) (map th l) = true.
Proof.
  intros t l H. unfold memN. apply existsb_exists. exists (th t). split.
  - apply in_map. exact H.
  - apply N.eqb_refl.
Qed.

Lemma signed_peer_fix : forall c s poolf b,
  signed_chain (chain s) ->
  forallb (fun t => negb (memN (tfull t) poolf) || tsig t) (b_txs b) = true ->
  signed_chain (chain (fst (connect_peer_fix c s poolf b))).
Proof.
  intros c s poolf b Hs Hv. unfold connect_peer_fix.
  destruct (sig_stage_fix poolf (b_txs b)) eqn:Hsig; [|exact Hs].
  unfold connect_peer.
  destruct (negb (linked s b)); [exact Hs|].
  destruct (negb (sig_stage (map th (b_txs b)) (b_txs b))); [exact Hs|].
  destruct (negb (Nat.eqb (length (check_dup s (b_txs b))) (length (b_txs b)))); [exact Hs|].
  destruct (negb (all_true (exec_rc c (b_h b) (b_time b) (b_txs b)))); [exact Hs|].
  destruct (parent_time s >? b_time b); [exact Hs|].
  destruct (b_txs b) as [|t0 ts] eqn:E; [exact Hs|].
  cbn [fst]. apply signed_attach; [exact Hs|].
  rewrite E. intros t Ht.
  unfold sig_stage_fix in Hsig. rewrite forallb_forall in Hsig, Hv.
  specialize (Hsig t Ht). specialize (Hv t Ht).
  destruct (tsig t); [reflexivity|].
  rewrite orb_false_r in Hsig, Hv. rewrite Hsig in Hv. discriminate Hv.
Qed.

Theorem fix_all_signed : forall c g ops,
  gen_ok g -> self_signed ops = true -> pool_verified ops = true ->
  spec_signed (chain (run_fix c (init g) ops)) = true.
Proof.
  intros c g ops [_ [_ Hgen]] Hself Hv. apply signed_spec.
  assert (H0 : signed_chain (chain (init g))).
  { intros b t Hb Ht. cbn [init chain] in Hb. destruct Hb as [E|[]]. subst b. rewrite Hgen in Ht. destruct Ht. }
  revert H0 Hself Hv. generalize (init g) as s.
  induction ops as [|o ops IH]; intros s Hs Hself Hv; [exact Hs|].
  cbn [self_signed pool_verified forallb] in Hself, Hv.
  apply andb_true_iff in Hself. destruct Hself as [Ho Hself].
  apply andb_true_iff in Hv. destruct Hv as [Hvo Hv].
  unfold run_fix. cbn [fold_left]. apply IH; [|exact Hself|exact Hv].
  destruct o as [poolf b|b|]; cbn [step_fix].
  - apply signed_peer_fix; assumption.
  - apply signed_self; assumption.
  - apply signed_disconnect; assumption.
Qed.

(** under the repair the witness block is refused although T (FullHash id 1) is pooled *)
Example fix_refuses_witness :
  snd (connect_peer_fix w_cfg (init w_gen) [1%N] (mkBlk 2 1 1 1514533395 [w_forged])) = ESign.
Proof. reflexivity. Qed.

(** the repair accepts exactly what the old code accepts whenever the old shortcut was harmless *)
Lemma fix_same_when_signed : forall c s pool poolf b,
  forallb tsig (b_txs b) = true ->
  connect_peer_fix c s poolf b = connect_peer c s pool b.
Proof.
  intros c s pool poolf b Hb. unfold connect_peer_fix.
  assert (S1 : sig_stage_fix poolf (b_txs b) = true).
  { unfold sig_stage_fix. apply forallb_forall. intros t Ht. rewrite forallb_forall in Hb.
    rewrite (Hb t Ht). apply orb_true_r. }
  rewrite S1. unfold connect_peer.
  assert (S2 : forall p, sig_stage p (b_txs b) = true).
  { intro p. unfold sig_stage. apply forallb_forall. intros t Ht. rewrite forallb_forall in Hb.
    rewrite (Hb t Ht). apply orb_true_r. }
  rewrite !S2. reflexivity.
Qed.
