(** C28 — hypotheses and statement helpers shared by the proof files. *)
From Coq Require Import List ZArith NArith Bool.
From C33 Require Import C28.Model C28.Spec.
Import ListNotations.
Open Scope Z_scope.

(** Hash() determines the transaction body (hence Expire and its own 16-byte prefix), and the
    16-byte prefixes of the transactions of one history do not collide. *)
Definition hash_ok (ts : list tx) : Prop :=
  forall t1 t2, In t1 ts -> In t2 ts ->
    (th t1 = th t2 -> tk t1 = tk t2 /\ texp t1 = texp t2) /\ (tk t1 = tk t2 -> th t1 = th t2).

Definition op_txs (o : op) : list tx :=
  match o with OPeer _ b => b_txs b | OSelf b => b_txs b | ODisc => [] end.

Definition ops_txs (ops : list op) : list tx := flat_map op_txs ops.

Definition cfg_ok (c : cfg) : Prop := 0 <= c_low c /\ 0 <= c_high c.

(** the genesis block: height 0, a positive block time, and none of the history's transactions *)
Definition gen_ok (g : blk) : Prop := b_h g = 0 /\ 0 < b_time g /\ b_txs g = [].

Definition tip_h (s : st) : Z := match chain s with b :: _ => b_h b | [] => -1 end.

(** the txHeight cache holds exactly the TxHeight transactions of the last low+high blocks *)
Definition cache_exact (c : cfg) (s : st) : Prop :=
  forall e, In e (cache s) <->
    exists b, In b (chain s) /\ tip_h s - (c_low c + c_high c) < b_h b /\ In e (ents (b_txs b)).

Definition index_exact (s : st) : Prop :=
  forall h, In h (index s) <-> In h (map th (chain_txs (chain s))).
