(** C28 — model of the code that keeps replayed, expired and mis-signed transactions out of the
    main chain, as it is:

      util/exec.go       DelDupTx, CheckTxDup
      blockchain         GetDuplicateTxHashList / HasTx (tx index, txHeight cache), txHashCache.Add/Del
      types/tx.go        isExpire (height, time and TxHeight windows), check (fee, chain id)
      executor           checkTx (expiry only when height > 0 and blocktime > 0)
      util/util.go       PreExecBlock: signature stage with the "mempool already has it" shortcut
                         (by Hash(), which covers neither Signature nor public key), duplicate
                         stage, execution stage, consensus CheckBlock (block time, empty block)
      blockchain         connectBlock / disconnectBlock (index and cache maintenance)

    Hashes are abstract identifiers supplied with every transaction: [th] for Hash(), [tk] for its
    16-byte prefix (the txHeight cache key), [tfull] for FullHash().  [tsig] is the result of
    Transaction.CheckSign (the signature scheme is not modelled).  Transaction groups are in the
    model as they stand in a block: expanded members with GroupCount [tgc], Header [thdr] (id of
    the group hash, 0 = nil; Hash() does not cover it) and Next [tnext] (Hash id of the following
    member, 0 = nil); executor.procExecTxList cuts the list into single transactions and groups
    and executor.checkTxGroup / Transactions.Check judge a group as a whole.  Not a para chain,
    ForkCheckTxDup/ForkTxHeight/ForkBlockCheck/ForkCheckBlockTime/ForkTxGroup active.

    The second half of the file is the node with its mempool made concrete: the pool holds the
    items that were accepted (a single transaction or the members of a group), loses the
    transactions of a connected block (by Hash()) and the expired ones, and may get back the
    transactions of disconnected blocks (Mempool.delBlock, asynchronous: what really came back is
    told by an observation, [NSync]). *)
From Coq Require Import List ZArith NArith Bool.
Import ListNotations.
Open Scope Z_scope.

Record tx := mkTx {
  th : N;        (* Hash()          *)
  tk : N;        (* Hash()[:16]     *)
  tfull : N;     (* FullHash()      *)
  texp : Z;      (* Expire          *)
  tfee : Z;      (* Fee             *)
  tsize : Z;     (* types.Size(tx)  *)
  tchain : Z;    (* ChainID         *)
  tsig : bool;   (* CheckSign       *)
  tgc : Z;       (* GroupCount      *)
  thdr : N;      (* Header (id of a 32-byte value; a group head's Header is its own Hash()), 0 = nil *)
  tnext : N      (* Next (Hash id of the following group member), 0 = nil *)
}.

Record cfg := mkCfg {
  c_low : Z;       (* types.LowAllowPackHeight  *)
  c_high : Z;      (* types.HighAllowPackHeight *)
  c_minfee : Z;    (* cfg.GetMinTxFeeRate()     *)
  c_maxfee : Z;    (* cfg.GetMaxTxFee(height)   *)
  c_chain : Z;     (* cfg.GetChainID()          *)
  c_maxsize : Z;   (* types.MaxTxSize           *)
  c_strict : bool  (* ForkTxChainIDStrict active *)
}.

Definition TxHeightFlag : Z := 4611686018427387904.   (* 1 << 62 *)
Definition ExpireBound : Z := 1000000000.

(** types.GetTxHeight with TxHeight enabled and its fork active, main chain *)
Definition tx_height (e : Z) : Z := if e >? TxHeightFlag then e - TxHeightFlag else -1.

(** Transaction.isExpire *)
Definition is_expire (c : cfg) (t : tx) (h bt : Z) : bool :=
  let v := texp t in
  if v =? 0 then false
  else if v <=? ExpireBound then v <=? h
  else let g := tx_height v in
       if g >? 0 then negb ((g - c_low c <=? h) && (h <=? g + c_high c))
       else v <=? bt.

(** Transaction.check: [true] = no error *)
Definition check_fee (c : cfg) (t : tx) : bool :=
  if c_strict c && negb (tchain t =? c_chain c) then false
  else if c_minfee c =? 0 then true
  else if tsize t >? c_maxsize c then false
  else if tfee t <? (tsize t / 1000 + 1) * c_minfee c then false
  else if (tfee t >? c_maxfee c) && (c_maxfee c >? 0) then false
  else tchain t =? c_chain c.

(** executor.checkTx for a transaction with GroupCount = 0: [true] = the transaction gets a
    non-error receipt.  Transaction.Check answers ErrNomalTx when Header or Next is set. *)
Definition check_tx (c : cfg) (h bt : Z) (t : tx) : bool :=
  negb ((h >? 0) && (bt >? 0) && is_expire c t h bt)
  && N.eqb (thdr t) 0 && N.eqb (tnext t) 0 && check_fee c t.

(** Transaction.GetRealFee *)
Definition real_fee (c : cfg) (t : tx) : Z := (tsize t / 1000 + 1) * c_minfee c.

Definition sum_fee (c : cfg) (g : list tx) : Z := fold_right (fun t a => real_fee c t + a) 0 g.

(** the Next chain: every member names the Hash() of the following one, the last has none *)
Fixpoint links (g : list tx) : bool :=
  match g with
  | [] => true
  | t :: r => match r with
              | [] => N.eqb (tnext t) 0
              | u :: _ => N.eqb (tnext t) (th u) && links r
              end
  end.

(** Transactions.Check / CheckWithFork on the main chain (no para executors): [true] = nil.
    Members are checked with minfee 0 (chain id only, under ForkTxChainIDStrict); members after
    the first pay nothing; the first pays for all sizes; Header, GroupCount and Next must fit. *)
Definition check_group (c : cfg) (g : list tx) : bool :=
  match g with
  | [] => false
  | hd :: tl =>
      forallb (fun t => negb (c_strict c) || (tchain t =? c_chain c)) g
      && forallb (fun t => tfee t =? 0) tl
      && forallb (fun t => tsize t <=? c_maxsize c) g
      && (sum_fee c g <=? tfee hd)
      && negb ((tfee hd >? c_maxfee c) && (c_maxfee c >? 0))
      && N.eqb (th hd) (thdr hd)
      && forallb (fun t => N.eqb (thdr hd) (thdr t)) tl
      && forallb (fun t => tgc t =? Z.of_nat (length g)) g
      && links g
  end.

(** executor.checkTxGroup: Transactions.IsExpire asks isExpire of every member (not the
    member-level Transaction.IsExpire, which would first try to decode the member's Header) *)
Definition group_rc (c : cfg) (h bt : Z) (g : list tx) : bool :=
  negb ((h >? 0) && (bt >? 0) && existsb (fun t => is_expire c t h bt) g) && check_group c g.

(** executor.procExecTxList: per transaction, [true] = non-error receipt.  [pend] members of a
    group that has been judged ([v]) are still to be passed over. *)
Fixpoint exec_go (c : cfg) (h bt : Z) (pend : nat) (v : bool) (txs : list tx) : list bool :=
  match txs with
  | [] => []
  | t :: r =>
      match pend with
      | S p => v :: exec_go c h bt p v r
      | O =>
          let gc := tgc t in
          if (gc <? 0) || (gc =? 1) || (gc >? 20) then false :: exec_go c h bt 0 false r
          else if gc =? 0 then check_tx c h bt t :: exec_go c h bt 0 false r
          else if (length txs <? Z.to_nat gc)%nat then false :: exec_go c h bt 0 false r
          else let ok := group_rc c h bt (firstn (Z.to_nat gc) txs) in
               ok :: exec_go c h bt (Z.to_nat gc - 1) ok r
      end
  end.

Definition exec_rc (c : cfg) (h bt : Z) (txs : list tx) : list bool := exec_go c h bt 0 false txs.

Definition all_true (l : list bool) : bool := forallb (fun x => x) l.

(** the transactions whose receipt is not an error *)
Fixpoint keep (fl : list bool) (txs : list tx) : list tx :=
  match fl, txs with
  | f :: fl', t :: r => if f then t :: keep fl' r else keep fl' r
  | _, _ => []
  end.

Record blk := mkBlk {
  b_id : N;      (* block hash  *)
  b_par : N;     (* parent hash *)
  b_h : Z;
  b_time : Z;
  b_txs : list tx
}.

Definition entry : Type := (Z * N)%type.
Definition entry_eqb (a b : entry) : bool := (fst a =? fst b) && N.eqb (snd a) (snd b).

Record st := mkSt {
  chain : list blk;      (* main chain, tip first, genesis last *)
  index : list N;        (* transaction index of the block store: Hash() keys *)
  cache : list entry     (* txHashCache: (txHeight, 16-byte prefix) *)
}.

Definition memN (x : N) (l : list N) : bool := existsb (N.eqb x) l.
Definition memE (x : entry) (l : list entry) : bool := existsb (entry_eqb x) l.

(** set-like updates (Go maps) *)
Definition iadd (x : N) (l : list N) : list N := if memN x l then l else x :: l.
Definition idel (x : N) (l : list N) : list N := filter (fun y => negb (N.eqb x y)) l.
Definition cadd (x : entry) (l : list entry) : list entry := if memE x l then l else x :: l.
Definition cdel (x : entry) (l : list entry) : list entry := filter (fun y => negb (entry_eqb x y)) l.

(** the cache entries of a transaction list (addTxList / delTxList look only at TxHeight ones) *)
Definition ents (txs : list tx) : list entry :=
  flat_map (fun t => let g := tx_height (texp t) in if g >? 0 then [(g, tk t)] else []) txs.

Definition cadd_all (es : list entry) (c : list entry) : list entry := fold_left (fun c e => cadd e c) es c.
Definition cdel_all (es : list entry) (c : list entry) : list entry := fold_left (fun c e => cdel e c) es c.

(** BlockChain.GetBlock(height) on the main chain *)
Definition block_at (l : list blk) (h : Z) : option blk := find (fun b => b_h b =? h) l.

Definition tip_of (s : st) : option blk := hd_error (chain s).

(** BlockChain.HasTx *)
Definition has_tx (s : st) (t : tx) : bool :=
  let g := tx_height (texp t) in
  if g >? 0 then memE (g, tk t) (cache s) else memN (th t) (index s).

(** util.DelDupTx: of equal Hash() the last occurrence stays *)
Fixpoint del_dup (l : list tx) : list tx :=
  match l with
  | [] => []
  | t :: r => if existsb (fun u => N.eqb (th u) (th t)) r then del_dup r else t :: del_dup r
  end.

(** util.CheckTxDup: the transactions that are left *)
Definition check_dup (s : st) (txs : list tx) : list tx :=
  let txs1 := del_dup txs in
  let dups := map th (filter (has_tx s) txs1) in
  filter (fun t => negb (memN (th t) dups)) txs1.

(** txHashCache.Add after the block is on the chain [l] (tip first) *)
Definition cache_add (c : cfg) (l : list blk) (b : blk) (ca : list entry) : list entry :=
  let ca1 := cadd_all (ents (b_txs b)) ca in
  let dh := b_h b - c_high c - c_low c in
  if dh >=? 0 then
    match block_at l dh with
    | Some d => cdel_all (ents (b_txs d)) ca1
    | None => ca1
    end
  else ca1.

(** txHashCache.Del(height) while the block is still the tip of [l] *)
Definition cache_del (c : cfg) (l : list blk) (h : Z) (ca : list entry) : list entry :=
  let ah := h - c_high c - c_low c in
  let ca1 := if ah >=? 0 then
               match block_at l ah with
               | Some a => Some (cadd_all (ents (b_txs a)) ca)
               | None => None
               end
             else Some ca in
  match ca1 with
  | None => ca
  | Some ca1 =>
      match block_at l h with
      | Some d => cdel_all (ents (b_txs d)) ca1
      | None => ca1
      end
  end.

Inductive err := ENone | ESign | EDup | EExec | EEmpty | ETime | ELink.

(** block store + cache update of connectBlock *)
Definition attach (c : cfg) (s : st) (b : blk) : st :=
  let l := b :: chain s in
  mkSt l (fold_left (fun i t => iadd (th t) i) (b_txs b) (index s)) (cache_add c l b (cache s)).

(** the part of connectBlock that does not depend on who made the block *)
Definition linked (s : st) (b : blk) : bool :=
  match tip_of s with
  | Some p => N.eqb (b_par b) (b_id p) && (b_h b =? b_h p + 1)
  | None => false
  end.

Definition parent_time (s : st) : Z := match tip_of s with Some p => b_time p | None => 0 end.

(** PreExecBlock's signature stage for a block that did not come from this node; [pool] = the
    Hash() values the mempool reports as existing *)
Definition sig_stage (pool : list N) (txs : list tx) : bool :=
  forallb (fun t => memN (th t) pool || tsig t) txs.

(** connectBlock for a block received from a peer (errReturn = true) *)
Definition connect_peer (c : cfg) (s : st) (pool : list N) (b : blk) : st * err :=
  if negb (linked s b) then (s, ELink)
  else if negb (sig_stage pool (b_txs b)) then (s, ESign)
  else if negb (Nat.eqb (length (check_dup s (b_txs b))) (length (b_txs b))) then (s, EDup)
  else if negb (all_true (exec_rc c (b_h b) (b_time b) (b_txs b))) then (s, EExec)
  else if parent_time s >? b_time b then (s, ETime)
  else match b_txs b with
       | [] => (s, EEmpty)
       | _ => (attach c s b, ENone)
       end.

(** connectBlock for a block of this node's producer (errReturn = false): duplicates and
    transactions with an error receipt are dropped, no signature stage; result = the block that
    was stored *)
Definition connect_self (c : cfg) (s : st) (b : blk) : st * err * list tx :=
  if negb (linked s b) then (s, ELink, [])
  else
    let dd := check_dup s (b_txs b) in
    let kept := keep (exec_rc c (b_h b) (b_time b) dd) dd in
    if parent_time s >? b_time b then (s, ETime, [])
    else match kept with
         | [] => (s, EEmpty, [])
         | _ => (attach c s (mkBlk (b_id b) (b_par b) (b_h b) (b_time b) kept), ENone, kept)
         end.

(** disconnectBlock of the tip (never the genesis block) *)
Definition disconnect (c : cfg) (s : st) : st :=
  match chain s with
  | b :: (_ :: _) as r =>
      mkSt r (fold_left (fun i t => idel (th t) i) (b_txs b) (index s))
           (cache_del c (chain s) (b_h b) (cache s))
  | _ => s
  end.

Inductive op :=
| OPeer (pool : list N) (b : blk)
| OSelf (b : blk)
| ODisc.

Definition step (c : cfg) (s : st) (o : op) : st :=
  match o with
  | OPeer pool b => fst (connect_peer c s pool b)
  | OSelf b => fst (fst (connect_self c s b))
  | ODisc => disconnect c s
  end.

Definition run (c : cfg) (s : st) (ops : list op) : st := fold_left (step c) ops s.

Definition init (g : blk) : st := mkSt [g] [] [].

(** all transactions of a chain *)
Definition chain_txs (l : list blk) : list tx := flat_map b_txs l.

(** * The node with a concrete mempool *)

(** a pooled item: one transaction, or the members of a group (the pool keeps the group inside
    the Header of a copy of its first member) *)
Definition pent : Type := list tx.

(** Hash() of the pooled item = Hash() of its first member *)
Definition p_hash (e : pent) : N := match e with t :: _ => th t | [] => 0%N end.

(** FullHash() of the pooled item; the copy that carries a group has a FullHash() of its own,
    which no block transaction has *)
Definition p_full (e : pent) : option N := match e with [t] => Some (tfull t) | _ => None end.

Definition pool_hashes (p : list pent) : list N := map p_hash p.

(** the pool holds a transaction with the Hash() of [t] and the same FullHash() *)
Definition pool_same (p : list pent) (t : tx) : bool :=
  existsb (fun e => N.eqb (p_hash e) (th t)
                    && match p_full e with Some f => N.eqb f (tfull t) | None => false end) p.

(** txCache.Push (the queue refuses a Hash() it already holds) *)
Definition pool_add (e : pent) (p : list pent) : list pent :=
  if memN (p_hash e) (pool_hashes p) then p else e :: p.

(** Mempool.RemoveTxsOfBlock *)
Definition pool_rm (txs : list tx) (p : list pent) : list pent :=
  filter (fun e => negb (memN (p_hash e) (map th txs))) p.

(** Mempool.removeExpired: Transaction.IsExpire of the pooled item (for a group: of any member) *)
Definition pool_exp (c : cfg) (h bt : Z) (p : list pent) : list pent :=
  filter (fun e => negb (existsb (fun t => is_expire c t h bt) e)) p.

(** eventAddBlock for the new tip [b] *)
Definition pool_after (c : cfg) (b : blk) (p : list pent) : list pent :=
  pool_exp c (b_h b + 1) (b_time b) (pool_rm (b_txs b) p).

(** Mempool.delBlock cuts the block into single transactions and groups *)
Fixpoint segs (n : nat) (txs : list tx) : list pent :=
  match n, txs with
  | S n', t :: r =>
      let k := Z.to_nat (tgc t) in
      if ((2 <=? k) && (k <=? length txs))%nat then firstn k txs :: segs n' (skipn k txs)
      else [t] :: segs n' r
  | _, _ => []
  end.

Definition blk_segs (b : blk) : list pent := segs (length (b_txs b)) (b_txs b).

Record node := mkNode {
  n_st : st;
  n_pool : list pent;     (* txCache *)
  n_limbo : list pent     (* items of disconnected blocks whose EventDelBlock may still be on its way *)
}.

Inductive nop :=
| NPeer (b : blk)
| NSelf (b : blk)
| NDisc
| NPool (e : pent)        (* an offer that the mempool accepted *)
| NSync (hs : list N).    (* after a re-organisation: the pool answers "exists" for exactly these Hash ids *)

Definition is_ok (e : err) : bool := match e with ENone => true | _ => false end.

Definition nstep (c : cfg) (n : node) (o : nop) : node :=
  match o with
  | NPeer b =>
      let '(s', e) := connect_peer c (n_st n) (pool_hashes (n_pool n)) b in
      mkNode s' (if is_ok e then pool_after c b (n_pool n) else n_pool n) (n_limbo n)
  | NSelf b =>
      let '(s', e, kept) := connect_self c (n_st n) b in
      mkNode s' (if is_ok e
                 then pool_after c (mkBlk (b_id b) (b_par b) (b_h b) (b_time b) kept) (n_pool n)
                 else n_pool n) (n_limbo n)
  | NDisc =>
      match chain (n_st n) with
      | b :: _ :: _ => mkNode (disconnect c (n_st n)) (n_pool n) (n_limbo n ++ blk_segs b)
      | _ => n
      end
  | NPool e => mkNode (n_st n) (pool_add e (n_pool n)) (n_limbo n)
  | NSync hs =>
      mkNode (n_st n) (filter (fun e => memN (p_hash e) hs) (n_pool n ++ n_limbo n)) []
  end.

Definition nrun (c : cfg) (n : node) (ops : list nop) : node := fold_left (nstep c) ops n.

Definition ninit (g : blk) : node := mkNode (init g) [] [].
