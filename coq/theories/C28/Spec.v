(** C28 — what the property text demands of a main chain, stated without reference to how the
    node achieves it: every transaction of every non-genesis block is
      - unique on the chain (by Hash()),
      - allowed at the block's height and time by its Expire field,
      - correctly signed,
      - pays the fee for its size, within the cap, with the chain's id.
    Executable: this is the violation oracle applied to the chain read back from the node. *)
From Coq Require Import List ZArith NArith Bool.
From C33 Require Import C28.Model.
Import ListNotations.
Open Scope Z_scope.

(** Expire e permits inclusion at height h / block time bt:
      e = 0                      always
      0 < e <= 10^9 (a height)   while h < e
      e > 2^62 (TxHeight g)      while g - low <= h <= g + high
      otherwise (a time)         while bt < e *)
Definition spec_live (c : cfg) (e h bt : Z) : bool :=
  (e =? 0)
  || ((e <=? ExpireBound) && (h <? e))
  || ((TxHeightFlag <? e) && (e - TxHeightFlag - c_low c <=? h) && (h <=? e - TxHeightFlag + c_high c))
  || ((ExpireBound <? e) && (e <=? TxHeightFlag) && (bt <? e)).

Definition spec_fee (c : cfg) (t : tx) : bool :=
  (if c_strict c || negb (c_minfee c =? 0) then tchain t =? c_chain c else true)
  && ((c_minfee c =? 0)
      || ((tsize t <=? c_maxsize c)
          && ((tsize t / 1000 + 1) * c_minfee c <=? tfee t)
          && ((c_maxfee c <=? 0) || (tfee t <=? c_maxfee c)))).

Definition spec_tx (c : cfg) (h bt : Z) (t : tx) : bool :=
  spec_live c (texp t) h bt && spec_fee c t.

Fixpoint nodupN (l : list N) : bool :=
  match l with
  | [] => true
  | x :: r => negb (memN x r) && nodupN r
  end.

Definition spec_unique (l : list blk) : bool := nodupN (map th (chain_txs l)).

Definition spec_checked (c : cfg) (l : list blk) : bool :=
  forallb (fun b => (b_h b <=? 0) || forallb (spec_tx c (b_h b) (b_time b)) (b_txs b)) l.

Definition spec_signed (l : list blk) : bool :=
  forallb (fun b => (b_h b <=? 0) || forallb tsig (b_txs b)) l.

Definition spec_chain (c : cfg) (l : list blk) : bool :=
  spec_unique l && spec_checked c l && spec_signed l.
