(** C28 — what the property text demands of a main chain, stated without reference to how the
    node achieves it: every transaction of every non-genesis block is
      - unique on the chain (by Hash()),
      - allowed at the block's height and time by its Expire field,
      - correctly signed,
      - pays the fee for its size, within the cap, with the chain's id; a transaction with a
        GroupCount stands in its block together with its whole group, in order, and the group's
        first member pays for all of them.
    Executable: this is the violation oracle applied to the chain read back from the node. *)
From Coq Require Import List ZArith NArith Bool.
From C33 Require Import C28.Model.
Import ListNotations.
Open Scope Z_scope.

(** Expire e permits inclusion at height h / block time bt:
      e = 0                      always
      0 < e <= 10^9 (a height)   while h < e
      e > 2^62 (TxHeight g)      while g - low <= h <= g + high
      otherwise (a time)         while bt < e *)
Definition spec_live (c : cfg) (e h bt : Z) : bool :=
  (e =? 0)
  || ((e <=? ExpireBound) && (h <? e))
  || ((TxHeightFlag <? e) && (e - TxHeightFlag - c_low c <=? h) && (h <=? e - TxHeightFlag + c_high c))
  || ((ExpireBound <? e) && (e <=? TxHeightFlag) && (bt <? e)).

Definition spec_fee (c : cfg) (t : tx) : bool :=
  (if c_strict c || negb (c_minfee c =? 0) then tchain t =? c_chain c else true)
  && ((c_minfee c =? 0)
      || ((tsize t <=? c_maxsize c)
          && ((tsize t / 1000 + 1) * c_minfee c <=? tfee t)
          && ((c_maxfee c <=? 0) || (tfee t <=? c_maxfee c)))).

(** a transaction that is not part of a group *)
Definition spec_single (c : cfg) (t : tx) : bool :=
  (tgc t =? 0) && N.eqb (thdr t) 0 && N.eqb (tnext t) 0 && spec_fee c t.

Definition spec_tx (c : cfg) (h bt : Z) (t : tx) : bool :=
  spec_live c (texp t) h bt && spec_single c t.

(** a whole group: the first member's Header is its own Hash() and all members carry it, every
    GroupCount is the number of members, Next names the following member and ends with nil;
    only the first member has a fee, and it covers the per-size minimum of all members, within
    the cap; no member exceeds the size limit; the chain id is the chain's when the strict
    chain-id rule is active (group members were never compared otherwise) *)
Fixpoint spec_links (g : list tx) : bool :=
  match g with
  | [] => true
  | t :: r => match r with
              | [] => N.eqb (tnext t) 0
              | u :: _ => N.eqb (tnext t) (th u) && spec_links r
              end
  end.

Definition spec_group (c : cfg) (g : list tx) : bool :=
  match g with
  | [] => false
  | hd :: tl =>
      N.eqb (thdr hd) (th hd)
      && forallb (fun t => N.eqb (thdr t) (thdr hd)) tl
      && forallb (fun t => tgc t =? Z.of_nat (length g)) g
      && spec_links g
      && forallb (fun t => tfee t =? 0) tl
      && forallb (fun t => tsize t <=? c_maxsize c) g
      && (fold_right (fun t a => (tsize t / 1000 + 1) * c_minfee c + a) 0 g <=? tfee hd)
      && ((c_maxfee c <=? 0) || (tfee hd <=? c_maxfee c))
      && (negb (c_strict c) || forallb (fun t => tchain t =? c_chain c) g)
  end.

(** the block's list splits into single transactions and whole groups of 2..20 members *)
Fixpoint spec_fees (n : nat) (c : cfg) (txs : list tx) : bool :=
  match txs with
  | [] => true
  | t :: r =>
      match n with
      | O => false
      | S n' =>
          if tgc t =? 0 then spec_single c t && spec_fees n' c r
          else let k := Z.to_nat (tgc t) in
               (2 <=? tgc t) && (tgc t <=? 20) && (k <=? length txs)%nat
               && spec_group c (firstn k txs) && spec_fees n' c (skipn k txs)
      end
  end.

Definition spec_block (c : cfg) (h bt : Z) (txs : list tx) : bool :=
  forallb (fun t => spec_live c (texp t) h bt) txs && spec_fees (length txs) c txs.

Fixpoint nodupN (l : list N) : bool :=
  match l with
  | [] => true
  | x :: r => negb (memN x r) && nodupN r
  end.

Definition spec_unique (l : list blk) : bool := nodupN (map th (chain_txs l)).

Definition spec_checked (c : cfg) (l : list blk) : bool :=
  forallb (fun b => (b_h b <=? 0) || spec_block c (b_h b) (b_time b) (b_txs b)) l.

Definition spec_signed (l : list blk) : bool :=
  forallb (fun b => (b_h b <=? 0) || forallb tsig (b_txs b)) l.

Definition spec_chain (c : cfg) (l : list blk) : bool :=
  spec_unique l && spec_checked c l && spec_signed l.
