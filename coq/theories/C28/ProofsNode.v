(** C28 — the node with its mempool made concrete: it refines the model whose pool answers are
    inputs (so uniqueness, non-expiry, fees hold for it as well), and the signature part is
    stated against the pool the node really has. *)
From Coq Require Import List ZArith NArith Bool Lia.
From C33 Require Import C28.Model C28.Spec C28.Defs C28.ProofsLib C28.ProofsGrp C28.Proofs C28.ProofsSig.
Import ListNotations.
Open Scope Z_scope.

(** * refinement *)

Definition op_of (n : node) (o : nop) : list op :=
  match o with
  | NPeer b => [OPeer (pool_hashes (n_pool n)) b]
  | NSelf b => [OSelf b]
  | NDisc => [ODisc]
  | NPool _ => []
  | NSync _ => []
  end.

(** the history of connections and disconnections a node history amounts to, each peer block
    with the answer the node's own pool gives at that moment *)
Fixpoint ops_of (c : cfg) (n : node) (nops : list nop) : list op :=
  match nops with
  | [] => []
  | o :: r => op_of n o ++ ops_of c (nstep c n o) r
  end.

Definition nop_txs (o : nop) : list tx :=
  match o with NPeer b => b_txs b | NSelf b => b_txs b | _ => [] end.

(** the transactions that blocks of the history carry *)
Definition nops_txs (nops : list nop) : list tx := flat_map nop_txs nops.

Lemma nstep_st : forall c n o, n_st (nstep c n o) = run c (n_st n) (op_of n o).
Proof.
  intros c n o. destruct o as [b|b| |e|hs]; cbn [nstep op_of run fold_left step].
  - destruct (connect_peer c (n_st n) (pool_hashes (n_pool n)) b) as [s' e]. reflexivity.
  - destruct (connect_self c (n_st n) b) as [[s' e] k]. reflexivity.
  - unfold disconnect. destruct (chain (n_st n)) as [|b [|q r]]; reflexivity.
  - reflexivity.
  - reflexivity.
Qed.

Lemma run_app : forall c s a b, run c s (a ++ b) = run c (run c s a) b.
Proof. intros c s a b. unfold run. apply fold_left_app. Qed.

Theorem node_refines : forall c nops n, n_st (nrun c n nops) = run c (n_st n) (ops_of c n nops).
Proof.
  intros c nops. induction nops as [|o r IH]; intros n; [reflexivity|].
  cbn [ops_of]. rewrite run_app, <- nstep_st. unfold nrun. cbn [fold_left]. apply IH.
Qed.

Lemma ops_of_txs : forall c nops n, ops_txs (ops_of c n nops) = nops_txs nops.
Proof.
  intros c nops. induction nops as [|o r IH]; intros n; [reflexivity|].
  cbn [ops_of]. unfold ops_txs, nops_txs in *. rewrite flat_map_app. cbn [flat_map].
  rewrite IH. f_equal. destruct o; cbn [op_of flat_map nop_txs op_txs]; try apply app_nil_r; reflexivity.
Qed.

Theorem node_chain_checked : forall c g nops, cfg_ok c -> gen_ok g -> hash_ok (nops_txs nops) ->
  let l := chain (n_st (nrun c (ninit g) nops)) in
  spec_unique l = true /\ spec_checked c l = true.
Proof.
  intros c g nops Hc Hg Hh. cbv zeta. rewrite node_refines. cbn [ninit n_st].
  rewrite <- (ops_of_txs c nops (ninit g)) in Hh. split.
  - exact (unique_all c g _ Hc Hg Hh).
  - exact (checked_all c g _ Hc Hg Hh).
Qed.

(** * signatures against the concrete pool *)

Definition nself_signed (nops : list nop) : bool :=
  forallb (fun o => match o with NSelf b => forallb tsig (b_txs b) | _ => true end) nops.

(** the mempool verifies the signatures of what it accepts (C22) *)
Definition noffers_signed (nops : list nop) : bool :=
  forallb (fun o => match o with NPool e => forallb tsig e | _ => true end) nops.

(** guard: a peer block's transaction that fails CheckSign either has a Hash() the pool does not
    hold, or the pool holds that very transaction (same FullHash()) *)
Definition step_guard (n : node) (o : nop) : bool :=
  match o with
  | NPeer b => forallb (fun t => tsig t || negb (memN (th t) (pool_hashes (n_pool n))) || pool_same (n_pool n) t)
                       (b_txs b)
  | _ => true
  end.

Fixpoint nguard (c : cfg) (n : node) (nops : list nop) : bool :=
  match nops with
  | [] => true
  | o :: r => step_guard n o && nguard c (nstep c n o) r
  end.

Definition nall_op_txs (o : nop) : list tx :=
  match o with NPeer b => b_txs b | NSelf b => b_txs b | NPool e => e | _ => [] end.

Definition nall_txs (nops : list nop) : list tx := flat_map nall_op_txs nops.

(** FullHash() covers the signature: equal FullHash, equal CheckSign *)
Definition fh_ok (U : list tx) : Prop :=
  forall t1 t2, In t1 U -> In t2 U -> tfull t1 = tfull t2 -> tsig t1 = tsig t2.

Definition nall_signed_full : Prop :=
  forall c g nops, gen_ok g -> fh_ok (nall_txs nops) ->
    nself_signed nops = true -> noffers_signed nops = true ->
    spec_signed (chain (n_st (nrun c (ninit g) nops))) = true.

Definition ents_signed (U : list tx) (p : list pent) : Prop :=
  forall e t, In e p -> In t e -> tsig t = true /\ In t U.

Record NS (U : list tx) (n : node) : Prop := mkNS {
  ns_chain : signed_chain (chain (n_st n));
  ns_U : forall b t, In b (chain (n_st n)) -> In t (b_txs b) -> In t U;
  ns_pool : ents_signed U (n_pool n);
  ns_limbo : ents_signed U (n_limbo n)
}.

Lemma connect_peer_chain : forall c s p b,
  chain (fst (connect_peer c s p b)) = chain s \/ chain (fst (connect_peer c s p b)) = b :: chain s.
Proof.
  intros c s p b. unfold connect_peer.
  destruct (negb (linked s b)); [left; reflexivity|].
  destruct (negb (sig_stage p (b_txs b))); [left; reflexivity|].
  destruct (negb (Nat.eqb (length (check_dup s (b_txs b))) (length (b_txs b)))); [left; reflexivity|].
  destruct (negb (all_true (exec_rc c (b_h b) (b_time b) (b_txs b)))); [left; reflexivity|].
  destruct (parent_time s >? b_time b); [left; reflexivity|].
  destruct (b_txs b); [left; reflexivity | right; reflexivity].
Qed.

Lemma connect_self_chain : forall c s b,
  chain (fst (fst (connect_self c s b))) = chain s \/
  exists kept, (forall t, In t kept -> In t (b_txs b)) /\
    chain (fst (fst (connect_self c s b))) = mkBlk (b_id b) (b_par b) (b_h b) (b_time b) kept :: chain s.
Proof.
  intros c s b. unfold connect_self. cbv zeta.
  destruct (negb (linked s b)); [left; reflexivity|].
  destruct (parent_time s >? b_time b); [left; reflexivity|].
  destruct (keep (exec_rc c (b_h b) (b_time b) (check_dup s (b_txs b))) (check_dup s (b_txs b))) as [|k ks] eqn:E;
    [left; reflexivity|].
  right. exists (k :: ks). split; [|reflexivity].
  intros t Ht. rewrite <- E in Ht. apply keep_In in Ht. apply check_dup_In in Ht. tauto.
Qed.

Lemma segs_In : forall n txs e t, In e (segs n txs) -> In t e -> In t txs.
Proof.
  induction n as [|n IH]; intros txs e t He Ht; [destruct He|].
  destruct txs as [|x r]; [destruct He|]. cbn [segs] in He.
  destruct ((2 <=? Z.to_nat (tgc x)) && (Z.to_nat (tgc x) <=? length (x :: r)))%nat.
  - destruct He as [He|He].
    + subst e. rewrite <- (firstn_skipn (Z.to_nat (tgc x)) (x :: r)). apply in_or_app. left. exact Ht.
    + rewrite <- (firstn_skipn (Z.to_nat (tgc x)) (x :: r)). apply in_or_app. right. exact (IH _ e t He Ht).
  - destruct He as [He|He].
    + subst e. destruct Ht as [Ht|[]]. left. exact Ht.
    + right. exact (IH r e t He Ht).
Qed.

Lemma ents_signed_filter : forall U f p, ents_signed U p -> ents_signed U (filter f p).
Proof. intros U f p H e t He Ht. apply filter_In in He. exact (H e t (proj1 He) Ht). Qed.

Lemma ents_signed_app : forall U p q, ents_signed U p -> ents_signed U q -> ents_signed U (p ++ q).
Proof.
  intros U p q Hp Hq e t He Ht. apply in_app_or in He.
  destruct He as [He|He]; [exact (Hp e t He Ht) | exact (Hq e t He Ht)].
Qed.

Lemma pool_after_signed : forall U c b p, ents_signed U p -> ents_signed U (pool_after c b p).
Proof. intros U c b p H. unfold pool_after, pool_exp, pool_rm. apply ents_signed_filter, ents_signed_filter. exact H. Qed.

(** a block transaction that is the pooled transaction itself is signed *)
Lemma pool_same_signed : forall U p t, fh_ok U -> ents_signed U p -> In t U ->
  pool_same p t = true -> tsig t = true.
Proof.
  intros U p t Hfh Hp HtU H. unfold pool_same in H. apply existsb_exists in H.
  destruct H as [e [He H]]. apply andb_true_iff in H. destruct H as [_ H].
  unfold p_full in H. destruct e as [|t' [|u r]]; try discriminate H.
  apply N.eqb_eq in H. destruct (Hp [t'] t' He (or_introl eq_refl)) as [Hs HU'].
  rewrite <- (Hfh t' t HU' HtU H). exact Hs.
Qed.

Section Steps.
  Variable c : cfg.
  Variable U : list tx.
  Hypothesis Hfh : fh_ok U.

  Lemma ns_peer_chain : forall n b, NS U n -> incl (b_txs b) U ->
    forall s', chain s' = chain (n_st n) \/ chain s' = b :: chain (n_st n) ->
    forall b' t, In b' (chain s') -> In t (b_txs b') -> In t U.
  Proof.
    intros n b HN Hincl s' [E|E] b' t Hb' Ht; rewrite E in Hb'.
    - exact (ns_U U n HN b' t Hb' Ht).
    - destruct Hb' as [Hb'|Hb']; [subst b'; exact (Hincl t Ht) | exact (ns_U U n HN b' t Hb' Ht)].
  Qed.

  Lemma ns_step : forall n o, NS U n -> incl (nall_op_txs o) U ->
    step_guard n o = true ->
    (match o with NSelf b => forallb tsig (b_txs b) | NPool e => forallb tsig e | _ => true end) = true ->
    NS U (nstep c n o).
  Proof.
    intros n o HN Hincl Hg Hsg. destruct o as [b|b| |e|hs]; cbn [nstep nall_op_txs step_guard] in *.
    - (* peer *)
      assert (Hold : forallb (fun t => tsig t || negb (memN (th t) (pool_hashes (n_pool n)))) (b_txs b) = true).
      { apply forallb_forall. intros t Ht. rewrite forallb_forall in Hg. specialize (Hg t Ht).
        apply orb_true_iff in Hg. destruct Hg as [Hg|Hg]; [exact Hg|].
        rewrite (pool_same_signed U (n_pool n) t Hfh (ns_pool U n HN) (Hincl t Ht) Hg). reflexivity. }
      pose proof (signed_peer c (n_st n) (pool_hashes (n_pool n)) b (ns_chain U n HN) Hold) as Hsc.
      pose proof (connect_peer_chain c (n_st n) (pool_hashes (n_pool n)) b) as Hch.
      destruct (connect_peer c (n_st n) (pool_hashes (n_pool n)) b) as [s' er]. cbn [fst] in Hsc, Hch.
      constructor; cbn [n_st n_pool n_limbo].
      + exact Hsc.
      + exact (ns_peer_chain n b HN Hincl s' Hch).
      + destruct (is_ok er); [apply pool_after_signed|]; exact (ns_pool U n HN).
      + exact (ns_limbo U n HN).
    - (* self *)
      pose proof (signed_self c (n_st n) b (ns_chain U n HN) Hsg) as Hsc.
      pose proof (connect_self_chain c (n_st n) b) as Hch.
      destruct (connect_self c (n_st n) b) as [[s' er] kept]. cbn [fst] in Hsc, Hch.
      constructor; cbn [n_st n_pool n_limbo].
      + exact Hsc.
      + intros b' t Hb' Ht. destruct Hch as [E|[k [Hk E]]]; rewrite E in Hb'.
        * exact (ns_U U n HN b' t Hb' Ht).
        * destruct Hb' as [Hb'|Hb']; [subst b'; cbn [b_txs] in Ht; exact (Hincl t (Hk t Ht))
                                     | exact (ns_U U n HN b' t Hb' Ht)].
      + destruct (is_ok er); [apply pool_after_signed|]; exact (ns_pool U n HN).
      + exact (ns_limbo U n HN).
    - (* disconnect *)
      destruct (chain (n_st n)) as [|b [|q r]] eqn:E; try exact HN.
      constructor; cbn [n_st n_pool n_limbo].
      + pose proof (signed_disconnect c (n_st n) (ns_chain U n HN)) as H. exact H.
      + intros b' t Hb' Ht. unfold disconnect in Hb'. rewrite E in Hb'. cbn [chain] in Hb'.
        apply (ns_U U n HN b' t); [rewrite E; right; exact Hb' | exact Ht].
      + exact (ns_pool U n HN).
      + apply ents_signed_app; [exact (ns_limbo U n HN)|].
        intros e t He Ht. unfold blk_segs in He. pose proof (segs_In _ _ e t He Ht) as Hin. split.
        * apply (ns_chain U n HN b t); [rewrite E; left; reflexivity | exact Hin].
        * apply (ns_U U n HN b t); [rewrite E; left; reflexivity | exact Hin].
    - (* accepted offer *)
      constructor; cbn [n_st n_pool n_limbo];
        [exact (ns_chain U n HN) | exact (ns_U U n HN) | | exact (ns_limbo U n HN)].
      unfold pool_add. destruct (memN (p_hash e) (pool_hashes (n_pool n))); [exact (ns_pool U n HN)|].
      intros e' t [He'|He'] Ht; [|exact (ns_pool U n HN e' t He' Ht)].
      subst e'. split; [rewrite forallb_forall in Hsg; exact (Hsg t Ht) | exact (Hincl t Ht)].
    - (* observation after a re-organisation *)
      constructor; cbn [n_st n_pool n_limbo];
        [exact (ns_chain U n HN) | exact (ns_U U n HN) | | intros e t []].
      apply ents_signed_filter, ents_signed_app; [exact (ns_pool U n HN) | exact (ns_limbo U n HN)].
  Qed.

  Lemma ns_run : forall nops n, NS U n -> incl (nall_txs nops) U ->
    nself_signed nops = true -> noffers_signed nops = true -> nguard c n nops = true ->
    NS U (nrun c n nops).
  Proof.
    induction nops as [|o r IH]; intros n HN Hincl Hs Ho Hg; [exact HN|].
    cbn [nself_signed noffers_signed nguard forallb] in Hs, Ho, Hg.
    apply andb_true_iff in Hs. destruct Hs as [Hs1 Hs]. apply andb_true_iff in Ho. destruct Ho as [Ho1 Ho].
    apply andb_true_iff in Hg. destruct Hg as [Hg1 Hg].
    unfold nrun. cbn [fold_left]. apply IH; try assumption.
    - apply ns_step; [exact HN | | exact Hg1 |].
      + intros t Ht. apply Hincl. unfold nall_txs. cbn [flat_map]. apply in_or_app. left. exact Ht.
      + destruct o; try reflexivity; assumption.
    - intros t Ht. apply Hincl. unfold nall_txs. cbn [flat_map]. apply in_or_app. right. exact Ht.
  Qed.
End Steps.

Lemma ns_init : forall U g, gen_ok g -> NS U (ninit g).
Proof.
  intros U g [_ [_ Hg]]. constructor; cbn [ninit n_st n_pool n_limbo init chain].
  - intros b t [E|[]] Ht. subst b. rewrite Hg in Ht. destruct Ht.
  - intros b t [E|[]] Ht. subst b. rewrite Hg in Ht. destruct Ht.
  - intros e t [].
  - intros e t [].
Qed.

Theorem nall_signed_partial : forall c g nops, gen_ok g -> fh_ok (nall_txs nops) ->
  nself_signed nops = true -> noffers_signed nops = true -> nguard c (ninit g) nops = true ->
  spec_signed (chain (n_st (nrun c (ninit g) nops))) = true.
Proof.
  intros c g nops Hg Hfh Hs Ho Hgu. apply signed_spec.
  exact (ns_chain _ _ (ns_run c _ Hfh nops (ninit g) (ns_init _ g Hg) (incl_refl _) Hs Ho Hgu)).
Qed.

(** under the same guard the pool never holds a mis-signed transaction, although
    Mempool.delBlock puts the transactions of disconnected blocks back without verifying them *)
Theorem npool_signed_partial : forall c g nops, gen_ok g -> fh_ok (nall_txs nops) ->
  nself_signed nops = true -> noffers_signed nops = true -> nguard c (ninit g) nops = true ->
  forall e, In e (n_pool (nrun c (ninit g) nops)) -> forallb tsig e = true.
Proof.
  intros c g nops Hg Hfh Hs Ho Hgu e He. apply forallb_forall. intros t Ht.
  exact (proj1 (ns_pool _ _ (ns_run c _ Hfh nops (ninit g) (ns_init _ g Hg) (incl_refl _) Hs Ho Hgu) e t He Ht)).
Qed.

Theorem nchain_clean_partial : forall c g nops, cfg_ok c -> gen_ok g -> hash_ok (nops_txs nops) ->
  fh_ok (nall_txs nops) -> nself_signed nops = true -> noffers_signed nops = true ->
  nguard c (ninit g) nops = true ->
  spec_chain c (chain (n_st (nrun c (ninit g) nops))) = true.
Proof.
  intros c g nops Hc Hg Hh Hfh Hs Ho Hgu. unfold spec_chain.
  destruct (node_chain_checked c g nops Hc Hg Hh) as [H1 H2]. cbv zeta in H1, H2.
  rewrite H1, H2, (nall_signed_partial c g nops Hg Hfh Hs Ho Hgu). reflexivity.
Qed.
