(** C28 — the hypotheses of the main theorems hold for a concrete non-trivial history. *)
From Coq Require Import List ZArith NArith Bool Lia.
From C33 Require Import C28.Model C28.Spec C28.Defs C28.Proofs C28.ProofsSig.
Import ListNotations.
Open Scope Z_scope.

Example hyps_satisfiable : cfg_ok w_cfg /\ gen_ok w_gen /\ hash_ok (ops_txs g_ops).
Proof.
  split; [split; cbn; lia|]. split; [repeat split; cbn; lia|].
  intros t1 t2 H1 H2. cbn in H1, H2.
  repeat (destruct H1 as [H1|H1]; [subst t1|]); try contradiction;
  repeat (destruct H2 as [H2|H2]; [subst t2|]); try contradiction;
  (split; intro E; [try (split; reflexivity); try discriminate E | try reflexivity; try discriminate E]).
Qed.

(** the example history really connects, replaces and re-connects blocks, with a TxHeight
    transaction leaving and re-entering the window cache *)
Example example_history_shape :
  let s := run w_cfg (init w_gen) g_ops in
  map b_id (chain s) = [4%N; 2%N; 1%N] /\ cache s = [(3, 2%N)] /\ index s = [2%N; 1%N].
Proof. vm_compute. repeat split. Qed.

(** everything together: under both guards the chain satisfies the whole oracle *)
Theorem chain_clean_partial : forall c g ops,
  cfg_ok c -> gen_ok g -> hash_ok (ops_txs ops) ->
  self_signed ops = true -> pool_guard ops = true ->
  spec_chain c (chain (run c (init g) ops)) = true.
Proof.
  intros c g ops Hc Hg Hh Hs Hp. unfold spec_chain.
  rewrite (C28.Proofs.unique_all c g ops Hc Hg Hh).
  rewrite (C28.Proofs.checked_all c g ops Hc Hg Hh).
  rewrite (all_signed_partial c g ops Hg Hs Hp). reflexivity.
Qed.
