(** C28 — correspondence cases: one history on a test node (hand-built peer blocks, producer
    blocks, disconnections caused by re-organisations, mempool offers) with what the node did,
    and the chain / transaction index / duplicate query read back at the end. *)
From Coq Require Import List ZArith NArith Bool.
From C33 Require Import Lib.Harness C28.Spec.
From C33 Require Export C28.Model.   (* case files use [mkTx] and [mkCfg] *)
Import ListNotations.
Open Scope Z_scope.

(** block as written by the harness: hash id, parent hash id, height, time, transactions as
    positions in the case's transaction table *)
Definition rblk : Type := (N * N * Z * Z * list N)%type.

Inductive xop :=
| XPeer (b : rblk) (e : N)                     (* connectBlock of a peer block; [e] = error class *)
| XSelf (b : rblk) (e : N) (kept : list N)    (* producer block handed to the chain; [kept] = what was stored *)
| XDisc                                        (* the tip was disconnected (re-organisation) *)
| XPool (ms : list N) (acc : bool)             (* a transaction / the group with these members offered to the mempool; accepted? *)
| XSnap (hs : list N)                          (* just before a delivery: the Hash ids (of all table entries so far)
                                                  for which the mempool answers "exists" *)
| XSync (hs : list N).                         (* the same question after a delivery that disconnected blocks,
                                                  asked behind the EventDelBlock messages *)

Inductive case :=
| Case (c : cfg) (gid : N) (gtime : Z) (univ : list tx) (ops : list xop)
       (final : list rblk)          (* the main chain read back block by block, tip first, genesis last (without its txs) *)
       (look : list (Z * N))        (* per table entry: height at which GetTx(Hash) finds it (-1: not found) and the FullHash id found *)
       (hasq : list bool).          (* per table entry: GetDuplicateTxHashList (height tip+1) reports it *)

Definition dummy_tx : tx := mkTx 0 0 0 0 0 0 0 false 0 0 0.

Definition tx_at (u : list tx) (k : N) : tx := nth (N.to_nat k) u dummy_tx.

Definition blk_of (u : list tx) (r : rblk) : blk :=
  let '(i, p, h, t, xs) := r in mkBlk i p h t (map (tx_at u) xs).

Definition err_code (e : err) : N :=
  match e with ENone => 0 | ESign => 1 | EDup => 2 | EExec => 3 | EEmpty => 4 | ETime => 5 | ELink => 6 end%N.

Definition idx_ok (u : list tx) (r : rblk) : bool :=
  let '(_, _, _, _, xs) := r in forallb (fun k => (N.to_nat k <? length u)%nat) xs.

(** the pool of the model and the mempool's answers agree on every Hash id of the table *)
Definition snap_ok (u : list tx) (p : list pent) (hs : list N) : bool :=
  forallb (fun t => Bool.eqb (memN (th t) hs) (memN (th t) (pool_hashes p))) u.

(** fold the model over the history, comparing the per-operation observables *)
Fixpoint agree (c : cfg) (u : list tx) (n : node) (ops : list xop) : option node :=
  match ops with
  | [] => Some n
  | XPeer r e :: ops' =>
      let me := snd (connect_peer c (n_st n) (pool_hashes (n_pool n)) (blk_of u r)) in
      if idx_ok u r && N.eqb (err_code me) e then agree c u (nstep c n (NPeer (blk_of u r))) ops' else None
  | XSelf r e kept :: ops' =>
      let '(_, me, k) := connect_self c (n_st n) (blk_of u r) in
      if idx_ok u r && N.eqb (err_code me) e && list_eqb N.eqb (map tfull k) (map (fun i => tfull (tx_at u i)) kept)
      then agree c u (nstep c n (NSelf (blk_of u r))) ops' else None
  | XDisc :: ops' =>
      match chain (n_st n) with
      | _ :: _ :: _ => agree c u (nstep c n NDisc) ops'
      | _ => None
      end
  | XPool ms acc :: ops' =>
      if forallb (fun k => (N.to_nat k <? length u)%nat) ms
      then agree c u (if acc then nstep c n (NPool (map (tx_at u) ms)) else n) ops'
      else None
  | XSnap hs :: ops' =>
      if snap_ok u (n_pool n) hs then agree c u n ops' else None
  | XSync hs :: ops' =>
      if forallb (fun h => memN h (pool_hashes (n_pool n ++ n_limbo n))) hs
      then agree c u (nstep c n (NSync hs)) ops' else None
  end.

Definition blk_sig (b : blk) : N * N * Z * Z * list N := (b_id b, b_par b, b_h b, b_time b, map tfull (b_txs b)).

Definition sig_eqb (a b : N * N * Z * Z * list N) : bool :=
  let '(i1, p1, h1, t1, x1) := a in let '(i2, p2, h2, t2, x2) := b in
  N.eqb i1 i2 && N.eqb p1 p2 && (h1 =? h2) && (t1 =? t2) && list_eqb N.eqb x1 x2.

(** the harness numbers hashes consistently: equal Hash <-> equal prefix, equal Hash -> equal
    Expire, equal FullHash -> same entry content *)
Definition table_ok (u : list tx) : bool :=
  forallb (fun a => forallb (fun b =>
     Bool.eqb (N.eqb (th a) (th b)) (N.eqb (tk a) (tk b))
     && (negb (N.eqb (th a) (th b)) || ((texp a =? texp b) && (tgc a =? tgc b) && N.eqb (tnext a) (tnext b)
                                        && (tfee a =? tfee b) && (tchain a =? tchain b)))
     && (negb (N.eqb (tfull a) (tfull b)) || (N.eqb (th a) (th b) && Bool.eqb (tsig a) (tsig b)))) u) u.

Definition find_occ (l : list blk) (h : N) : option (Z * N) :=
  match find (fun b => existsb (fun t => N.eqb (th t) h) (b_txs b)) l with
  | Some b => match find (fun t => N.eqb (th t) h) (b_txs b) with
              | Some t => Some (b_h b, tfull t)
              | None => None
              end
  | None => None
  end.

Definition look_eqb (l : list blk) (t : tx) (o : Z * N) : bool :=
  match find_occ l (th t) with
  | Some (h, f) => (fst o =? h) && N.eqb (snd o) f
  | None => fst o =? -1
  end.

Fixpoint forallb2 {A B} (f : A -> B -> bool) (a : list A) (b : list B) : bool :=
  match a, b with
  | [], [] => true
  | x :: a', y :: b' => f x y && forallb2 f a' b'
  | _, _ => false
  end.

Definition model_ok (c : cfg) (g : blk) (u : list tx) (ops : list xop) (final : list blk)
           (look : list (Z * N)) (hasq : list bool) : bool :=
  table_ok u &&
  match agree c u (ninit g) ops with
  | Some n =>
      let s := n_st n in
      list_eqb sig_eqb (map blk_sig (chain s)) (map blk_sig final)
      && forallb2 (fun t o => Bool.eqb (memN (th t) (index s)) (negb (fst o =? -1))) u look
      && forallb2 (fun t q => Bool.eqb (has_tx s t) q) u hasq
  | None => false
  end.

(** spec side: the chain read back satisfies the property, the index finds exactly the chain's
    transactions, and the mempool accepted no mis-signed offer *)
Definition pool_ok (u : list tx) (ops : list xop) : bool :=
  forallb (fun o => match o with XPool ms acc => negb acc || forallb (fun i => tsig (tx_at u i)) ms | _ => true end) ops.

Definition spec_ok (c : cfg) (u : list tx) (ops : list xop) (final : list blk) (look : list (Z * N)) : bool :=
  spec_chain c final && forallb2 (look_eqb final) u look && pool_ok u ops.

(** known finding 1: the first block that breaks the property on the chain the node built is a
    peer block whose only flaw is that some of its transactions fail CheckSign, each of them with
    a Hash() the mempool reported as existing in the last answer before the delivery ([pool]) *)
Definition fresh (l : list blk) (txs : list tx) : bool :=
  nodupN (map th txs) && forallb (fun t => negb (memN (th t) (map th (chain_txs l)))) txs.

Fixpoint first_bad (c : cfg) (u : list tx) (l : list blk) (pool : list N) (ops : list xop) : N :=
  match ops with
  | [] => 0%N
  | XPeer r e :: ops' =>
      if N.eqb e 0 then
        let b := blk_of u r in
        let fine := fresh l (b_txs b) && spec_block c (b_h b) (b_time b) (b_txs b) in
        if fine && forallb tsig (b_txs b) then first_bad c u (b :: l) pool ops'
        else if fine && forallb (fun t => tsig t || memN (th t) pool) (b_txs b) then 1%N else 2%N
      else first_bad c u l pool ops'
  | XSelf r e kept :: ops' =>
      if N.eqb e 0 then
        let '(i, p, h, t, _) := r in
        let b := mkBlk i p h t (map (tx_at u) kept) in
        if fresh l (b_txs b) && spec_block c h t (b_txs b) && forallb tsig (b_txs b)
        then first_bad c u (b :: l) pool ops' else 2%N
      else first_bad c u l pool ops'
  | XDisc :: ops' => first_bad c u (tl l) pool ops'
  | XPool _ _ :: ops' => first_bad c u l pool ops'
  | XSnap hs :: ops' => first_bad c u l hs ops'
  | XSync hs :: ops' => first_bad c u l hs ops'
  end.

Definition check_case (k : case) : verdict :=
  match k with
  | Case c gid gtime u ops final look hasq =>
      let g := mkBlk gid 0%N 0 gtime [] in
      let fin := map (blk_of u) final in
      let m := model_ok c g u ops fin look hasq in
      let s := spec_ok c u ops fin look in
      (m, s, if s then 0%N else if N.eqb (first_bad c u [g] [] ops) 1 then 1%N else 0%N)
  end.

(** diagnosis (not used by the verdict): position of the first operation on which model and node
    differ, and the individual parts of both judgements *)
Fixpoint agree_pos (c : cfg) (u : list tx) (s : node) (ops : list xop) (n : N) : N + node :=
  match ops with
  | [] => inr s
  | o :: ops' =>
      match agree c u s [o] with
      | Some s' => agree_pos c u s' ops' (n + 1)%N
      | None => inl n
      end
  end.

Definition diag_case (k : case) :=
  match k with
  | Case c gid gtime u ops final look hasq =>
      let g := mkBlk gid 0%N 0 gtime [] in
      let fin := map (blk_of u) final in
      match agree_pos c u (ninit g) ops 0%N with
      | inl n => (table_ok u, Some n, false, false, false, (spec_unique fin, spec_checked c fin, spec_signed fin), forallb2 (look_eqb fin) u look, pool_ok u ops)
      | inr nd => let s := n_st nd in (table_ok u, None,
                  list_eqb sig_eqb (map blk_sig (chain s)) (map blk_sig fin),
                  forallb2 (fun t o => Bool.eqb (memN (th t) (index s)) (negb (fst o =? -1))) u look,
                  forallb2 (fun t q => Bool.eqb (has_tx s t) q) u hasq,
                  (spec_unique fin, spec_checked c fin, spec_signed fin), forallb2 (look_eqb fin) u look, pool_ok u ops)
      end
  end.
