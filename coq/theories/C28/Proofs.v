(** C28 — every reachable state satisfies the chain invariant; hence the main chain is
    duplicate-free and all its transactions passed the expiry / fee checks, and the transaction
    index and the txHeight cache hold exactly what they should. *)
From Coq Require Import List ZArith NArith Bool Lia.
From C33 Require Import C28.Model C28.Spec C28.Defs.
From C33 Require Import C28.ProofsLib C28.ProofsGrp C28.ProofsChk C28.ProofsInv.
Import ListNotations.
Open Scope Z_scope.

Section Steps.
  Variable c : cfg.
  Variable U : list tx.
  Hypothesis Hcfg : cfg_ok c.
  Hypothesis HU : hash_ok U.

  (** * disconnecting the tip *)

  Lemma disc_cache : forall b q r i ca i', Inv c U (mkSt (b :: q :: r) i ca) ->
    cache_exact c (mkSt (q :: r) i' (cache_del c (b :: q :: r) (b_h b) ca)).
  Proof.
    intros b q r i ca i' HI.
    pose proof (inv_hts c U _ HI) as Hh'. cbn [chain] in Hh'.
    assert (Hh2 : hts (q :: r)) by (cbn [hts] in Hh'; cbn [hts]; tauto).
    assert (Hb0 : b_h b = Z.of_nat (length (q :: r))) by (cbn [hts] in Hh'; tauto).
    assert (Hq : b_h q = b_h b - 1).
    { cbn [hts] in Hh'. destruct Hh' as [H1 [H2 _]]. cbn [length] in H1.
      rewrite Nat2Z.inj_succ in H1. lia. }
    pose proof (inv_nd c U _ HI) as Hnd. cbn [chain] in Hnd.
    pose proof (inv_U c U _ HI) as HinU. cbn [chain] in HinU.
    pose proof (inv_cache c U _ HI) as Hca. unfold cache_exact, tip_h in Hca.
    cbn [chain cache] in Hca.
    destruct Hcfg as [Hlow Hhigh].
    assert (Hlen : Z.of_nat (length (b :: q :: r)) = b_h b + 1).
    { rewrite Hb0. cbn [length]. rewrite !Nat2Z.inj_succ. lia. }
    assert (Hrng : forall x, In x (q :: r) -> 0 <= b_h x < b_h b).
    { intros x Hx. pose proof (hts_range _ x Hh2 Hx). lia. }
    assert (Hnotb : forall x e, In x (q :: r) -> In e (ents (b_txs x)) ->
                                ~ In e (ents (b_txs b))).
    { intros x e Hx Hxe Hn.
      assert (Hxb : x = b).
      { apply (ents_same_block U HU (b :: q :: r) x b e Hnd HinU);
          [right; exact Hx | left; reflexivity | exact Hxe | exact Hn]. }
      subst x. pose proof (Hrng b Hx). lia. }
    unfold cache_exact, tip_h. cbn [chain cache]. intros e.
    unfold cache_del. cbv zeta.
    rewrite (block_at_head b (q :: r) (b_h b) eq_refl).
    destruct (Z.geb_spec (b_h b - c_high c - c_low c) 0) as [Ea|Ea].
    - assert (Hr : 0 <= b_h b - c_high c - c_low c < Z.of_nat (length (b :: q :: r))) by lia.
      destruct (block_at_ex _ _ Hh' Hr) as [a Ha]. rewrite Ha.
      apply block_at_some in Ha. destruct Ha as [Hain Hah].
      cbv beta iota. rewrite cdel_all_In, cadd_all_In. split.
      + intros [[He|He] Hn].
        * destruct Hain as [Hab|Hain]; [subst a; contradiction|].
          exists a. split; [exact Hain|]. split; [lia | exact He].
        * apply Hca in He. destruct He as [x [Hx [Hxh Hxe]]].
          destruct Hx as [Hx|Hx]; [subst x; contradiction|].
          exists x. split; [exact Hx|]. split; [lia | exact Hxe].
      + intros [x [Hx [Hxh Hxe]]]. split; [|exact (Hnotb x e Hx Hxe)].
        destruct (Z.eq_dec (b_h x) (b_h a)) as [E|E].
        * assert (Hxa : x = a).
          { apply (hts_uniq _ x a Hh'); [right; exact Hx | exact Hain | exact E]. }
          subst x. left. exact Hxe.
        * right. apply Hca. exists x. split; [right; exact Hx|]. split; [lia | exact Hxe].
    - cbv beta iota. rewrite cdel_all_In. split.
      + intros [He Hn].
        apply Hca in He. destruct He as [x [Hx [Hxh Hxe]]].
        destruct Hx as [Hx|Hx]; [subst x; contradiction|].
        exists x. split; [exact Hx|]. split; [lia | exact Hxe].
      + intros [x [Hx [Hxh Hxe]]]. split; [|exact (Hnotb x e Hx Hxe)].
        apply Hca. exists x. split; [right; exact Hx|]. split; [|exact Hxe].
        pose proof (Hrng x Hx). lia.
  Qed.

  Lemma disc_inv_aux : forall b q r i ca, Inv c U (mkSt (b :: q :: r) i ca) ->
    Inv c U (mkSt (q :: r) (fold_left (fun i t => idel (th t) i) (b_txs b) i)
                  (cache_del c (b :: q :: r) (b_h b) ca)).
  Proof.
    intros b q r i ca HI.
    pose proof (inv_hts c U _ HI) as Hh'. cbn [chain] in Hh'.
    pose proof (inv_nd c U _ HI) as Hnd. cbn [chain] in Hnd.
    rewrite chain_txs_cons, map_app in Hnd.
    constructor; cbn [chain].
    - discriminate.
    - cbn [hts] in Hh'. cbn [hts]. tauto.
    - intros t Ht. apply (inv_U c U _ HI). cbn [chain]. rewrite chain_txs_cons.
      apply in_or_app. right. exact Ht.
    - exact (nd_app_r _ _ _ Hnd).
    - unfold index_exact. cbn [chain index]. intros h.
      pose proof (inv_idx c U _ HI h) as Hi. cbn [chain index] in Hi.
      rewrite chain_txs_cons, map_app, in_app_iff in Hi.
      rewrite idel_all_In, Hi. split.
      + intros [[H1|H1] H2]; [contradiction | exact H1].
      + intros H. split; [right; exact H|].
        intro H2. exact (nd_app_disj _ _ _ h Hnd H2 H).
    - apply (disc_cache b q r i ca). exact HI.
    - intros x Hx. apply (inv_time c U _ HI). cbn [chain]. right. exact Hx.
    - intros x Hx Hh. apply (inv_okl c U _ HI); [cbn [chain]; right; exact Hx | exact Hh].
    - intros x Hx Hh. apply (inv_gen c U _ HI); [cbn [chain]; right; exact Hx | exact Hh].
  Qed.

  Lemma disc_inv : forall s, Inv c U s -> Inv c U (disconnect c s).
  Proof.
    intros [l i ca] HI. unfold disconnect. cbn [chain index cache].
    destruct l as [|b [|q r]]; [exact HI | exact HI |].
    apply disc_inv_aux. exact HI.
  Qed.

  (** * a block from a peer *)

  Lemma peer_inv : forall s pool b, Inv c U s -> incl (b_txs b) U ->
    Inv c U (fst (connect_peer c s pool b)).
  Proof.
    intros s pool b HI Hincl. unfold connect_peer.
    destruct (linked s b) eqn:El; cbn [negb]; [|exact HI].
    destruct (sig_stage pool (b_txs b)); cbn [negb]; [|exact HI].
    destruct (Nat.eqb_spec (length (check_dup s (b_txs b))) (length (b_txs b))) as [Ed|Ed];
      cbn [negb]; [|exact HI].
    destruct (all_true (exec_rc c (b_h b) (b_time b) (b_txs b))) eqn:Ef; cbn [negb]; [|exact HI].
    destruct (Z.gtb_spec (parent_time s) (b_time b)) as [Et|Et]; [exact HI|].
    assert (HA : AttOK c U s b).
    { apply check_dup_len_eq in Ed. constructor.
      - exact El.
      - rewrite <- Ed. apply check_dup_nd.
      - intros t Ht. rewrite <- Ed in Ht. apply check_dup_In in Ht. tauto.
      - apply exec_okl. exact Ef.
      - exact Hincl.
      - exact Et. }
    destruct (b_txs b); [exact HI|]. cbn [fst].
    exact (att_inv c U Hcfg HU s b HI HA).
  Qed.

  (** * a block of this node's own producer *)

  Lemma self_inv : forall s b, Inv c U s -> incl (b_txs b) U ->
    Inv c U (fst (fst (connect_self c s b))).
  Proof.
    intros s b HI Hincl. unfold connect_self. cbv zeta.
    destruct (linked s b) eqn:El; cbn [negb]; [|exact HI].
    destruct (Z.gtb_spec (parent_time s) (b_time b)) as [Et|Et]; [exact HI|].
    remember (keep (exec_rc c (b_h b) (b_time b) (check_dup s (b_txs b))) (check_dup s (b_txs b))) as kept eqn:Ek.
    assert (HA : AttOK c U s (mkBlk (b_id b) (b_par b) (b_h b) (b_time b) kept)).
    { constructor; cbn [b_txs b_h b_time].
      - exact El.
      - rewrite Ek. apply keep_nd. apply check_dup_nd.
      - intros t Ht. rewrite Ek in Ht. apply keep_In in Ht.
        apply check_dup_In in Ht. tauto.
      - rewrite Ek. apply keep_okl.
      - intros t Ht. rewrite Ek in Ht. apply keep_In in Ht.
        apply check_dup_In in Ht. apply Hincl. tauto.
      - exact Et. }
    destruct kept as [|t0 k0]; [exact HI|]. cbn [fst].
    exact (att_inv c U Hcfg HU s _ HI HA).
  Qed.

  Lemma step_inv : forall s o, Inv c U s -> incl (op_txs o) U -> Inv c U (step c s o).
  Proof.
    intros s o HI Hincl. destruct o as [pool b|b|]; cbn [step op_txs] in *.
    - apply peer_inv; assumption.
    - apply self_inv; assumption.
    - apply disc_inv. exact HI.
  Qed.

  Lemma run_inv : forall ops s, Inv c U s -> (forall o, In o ops -> incl (op_txs o) U) ->
    Inv c U (run c s ops).
  Proof.
    unfold run. induction ops as [|o ops IH]; intros s HI Hall; cbn [fold_left].
    - exact HI.
    - apply IH.
      + apply step_inv; [exact HI | apply Hall; left; reflexivity].
      + intros o' Ho'. apply Hall. right. exact Ho'.
  Qed.
End Steps.

Lemma all_inv : forall c g ops, cfg_ok c -> gen_ok g -> hash_ok (ops_txs ops) ->
  Inv c (ops_txs ops) (run c (init g) ops).
Proof.
  intros c g ops Hc Hg Hh. apply run_inv; [exact Hc | exact Hh | apply inv_init; exact Hg |].
  intros o Ho t Ht. unfold ops_txs. apply in_flat_map. exists o. split; assumption.
Qed.

Theorem unique_all : forall c g ops, cfg_ok c -> gen_ok g -> hash_ok (ops_txs ops) ->
  spec_unique (chain (run c (init g) ops)) = true.
Proof.
  intros c g ops Hc Hg Hh. unfold spec_unique. apply nodupN_NoDup.
  exact (inv_nd _ _ _ (all_inv c g ops Hc Hg Hh)).
Qed.

Theorem checked_all : forall c g ops, cfg_ok c -> gen_ok g -> hash_ok (ops_txs ops) ->
  spec_checked c (chain (run c (init g) ops)) = true.
Proof.
  intros c g ops Hc Hg Hh. pose proof (all_inv c g ops Hc Hg Hh) as HI.
  unfold spec_checked. apply forallb_forall. intros x Hx.
  destruct (Z.leb_spec (b_h x) 0) as [E|E]; cbn [orb]; [reflexivity|].
  exact (okl_spec_block c (b_h x) (b_time x) (b_txs x) E (inv_time _ _ _ HI x Hx) (inv_okl _ _ _ HI x Hx E)).
Qed.

(** every transaction of every non-genesis block, group members included, is allowed by its own
    Expire at the block's height and time *)
Theorem members_unexpired_all : forall c g ops, cfg_ok c -> gen_ok g -> hash_ok (ops_txs ops) ->
  forall b t, In b (chain (run c (init g) ops)) -> 0 < b_h b -> In t (b_txs b) ->
    spec_live c (texp t) (b_h b) (b_time b) = true.
Proof.
  intros c g ops Hc Hg Hh b t Hb Hpos Ht. pose proof (all_inv c g ops Hc Hg Hh) as HI.
  apply live_of_not_expire. exact (inv_live c _ _ b t HI Hb Hpos Ht).
Qed.

(** a transaction with a GroupCount never stands on the chain without its whole group *)
Theorem members_whole_all : forall c g ops, cfg_ok c -> gen_ok g -> hash_ok (ops_txs ops) ->
  forall b t, In b (chain (run c (init g) ops)) -> In t (b_txs b) -> tgc t <> 0 ->
    exists pre grp post, b_txs b = pre ++ grp ++ post /\ In t grp /\ spec_group c grp = true.
Proof.
  intros c g ops Hc Hg Hh b t Hb Ht Hne. pose proof (all_inv c g ops Hc Hg Hh) as HI.
  pose proof (inv_txs_pos c _ _ b t HI Hb Ht) as Hpos.
  exact (okl_whole c (b_h b) (b_time b) (b_txs b) (inv_okl _ _ _ HI b Hb Hpos) t Ht Hne).
Qed.

Theorem cache_exact_all : forall c g ops, cfg_ok c -> gen_ok g -> hash_ok (ops_txs ops) ->
  cache_exact c (run c (init g) ops).
Proof.
  intros c g ops Hc Hg Hh. exact (inv_cache _ _ _ (all_inv c g ops Hc Hg Hh)).
Qed.

Theorem index_exact_all : forall c g ops, cfg_ok c -> gen_ok g -> hash_ok (ops_txs ops) ->
  index_exact (run c (init g) ops).
Proof.
  intros c g ops Hc Hg Hh. exact (inv_idx _ _ _ (all_inv c g ops Hc Hg Hh)).
Qed.

Print Assumptions unique_all.
Print Assumptions checked_all.
Print Assumptions cache_exact_all.
Print Assumptions index_exact_all.
