(** C28 — executor.checkTx against the spec predicates, and the TxHeight window. *)
From Coq Require Import List ZArith NArith Bool Lia.
From C33 Require Import C28.Model C28.Spec C28.Defs C28.ProofsLib C28.ProofsGrp.
Import ListNotations.
Open Scope Z_scope.

Lemma flag_bound : ExpireBound < TxHeightFlag /\ 0 < ExpireBound.
Proof. unfold ExpireBound, TxHeightFlag. lia. Qed.

Lemma spec_live_iff : forall c e h bt, spec_live c e h bt = true <->
  e = 0 \/ (e <= ExpireBound /\ h < e)
  \/ (TxHeightFlag < e /\ e - TxHeightFlag - c_low c <= h /\ h <= e - TxHeightFlag + c_high c)
  \/ (ExpireBound < e /\ e <= TxHeightFlag /\ bt < e).
Proof.
  intros c e h bt. unfold spec_live.
  rewrite !orb_true_iff, !andb_true_iff, Z.eqb_eq, !Z.leb_le, !Z.ltb_lt. tauto.
Qed.

(** what a [false] from isExpire means *)
Lemma is_expire_false : forall c t h bt, is_expire c t h bt = false ->
  texp t = 0
  \/ (texp t <= ExpireBound /\ h < texp t)
  \/ (TxHeightFlag < texp t /\ tx_height (texp t) = texp t - TxHeightFlag
      /\ texp t - TxHeightFlag - c_low c <= h /\ h <= texp t - TxHeightFlag + c_high c)
  \/ (ExpireBound < texp t /\ texp t <= TxHeightFlag /\ bt < texp t).
Proof.
  intros c t h bt H. unfold is_expire in H. cbv zeta in H.
  pose proof flag_bound as [Hfb Hb0].
  destruct (Z.eqb_spec (texp t) 0) as [E0|E0]; [left; exact E0|].
  destruct (Z.leb_spec (texp t) ExpireBound) as [E1|E1].
  - apply Z.leb_gt in H. right. left. lia.
  - destruct (tx_height_cases (texp t)) as [[Hv Hg]|[Hv Hg]]; rewrite Hg in H.
    + destruct (Z.gtb_spec (texp t - TxHeightFlag) 0) as [E2|E2]; [|lia].
      apply negb_false_iff in H. apply andb_true_iff in H. destruct H as [Ha Hb].
      apply Z.leb_le in Ha. apply Z.leb_le in Hb.
      right. right. left. repeat split; lia.
    + destruct (Z.gtb_spec (-1) 0) as [E2|E2]; [lia|].
      apply Z.leb_gt in H. right. right. right. lia.
Qed.

Lemma live_of_not_expire : forall c t h bt,
  is_expire c t h bt = false -> spec_live c (texp t) h bt = true.
Proof.
  intros c t h bt H. apply spec_live_iff.
  destruct (is_expire_false c t h bt H) as [H1|[H1|[H1|H1]]].
  - left. exact H1.
  - right. left. exact H1.
  - right. right. left. destruct H1 as [Ha [_ [Hb Hc]]]. repeat split; assumption.
  - right. right. right. exact H1.
Qed.

(** what a [true] from Transaction.check means *)
Lemma check_fee_true : forall c t, check_fee c t = true ->
  (c_strict c = true -> tchain t = c_chain c)
  /\ (c_minfee c = 0
      \/ (c_minfee c <> 0 /\ tsize t <= c_maxsize c
          /\ (tsize t / 1000 + 1) * c_minfee c <= tfee t
          /\ (c_maxfee c <= 0 \/ tfee t <= c_maxfee c)
          /\ tchain t = c_chain c)).
Proof.
  intros c t H. unfold check_fee in H.
  set (X := (tsize t / 1000 + 1) * c_minfee c) in *.
  split.
  - intros Es. rewrite Es in H. cbn [andb] in H.
    destruct (Z.eqb_spec (tchain t) (c_chain c)) as [E|E]; [exact E|].
    cbn [negb] in H. discriminate.
  - destruct (c_strict c && negb (tchain t =? c_chain c)); [discriminate|].
    destruct (Z.eqb_spec (c_minfee c) 0) as [E0|E0]; [left; exact E0|].
    right.
    destruct (Z.gtb_spec (tsize t) (c_maxsize c)) as [E1|E1]; [discriminate|].
    destruct (Z.ltb_spec (tfee t) X) as [E2|E2]; [discriminate|].
    destruct (Z.gtb_spec (tfee t) (c_maxfee c)) as [E3|E3];
      destruct (Z.gtb_spec (c_maxfee c) 0) as [E4|E4];
      cbn [andb] in H; try discriminate; apply Z.eqb_eq in H;
      repeat split; try assumption; lia.
Qed.

Lemma fee_of_check : forall c t, check_fee c t = true -> spec_fee c t = true.
Proof.
  intros c t H. destruct (check_fee_true c t H) as [Hs Hm].
  unfold spec_fee.
  set (X := (tsize t / 1000 + 1) * c_minfee c) in *.
  apply andb_true_iff. split.
  - destruct (c_strict c); cbn [orb].
    + apply Z.eqb_eq. apply Hs. reflexivity.
    + destruct (Z.eqb_spec (c_minfee c) 0) as [E0|E0]; cbn [negb]; [reflexivity|].
      apply Z.eqb_eq. destruct Hm as [Hm|Hm]; [contradiction | tauto].
  - rewrite orb_true_iff, !andb_true_iff, orb_true_iff, Z.eqb_eq, !Z.leb_le. tauto.
Qed.

Lemma spec_of_check : forall c h bt t, 0 < h -> 0 < bt -> tgc t = 0 ->
  check_tx c h bt t = true -> spec_tx c h bt t = true.
Proof.
  intros c h bt t Hh Hb Hg H. pose proof (check_tx_live c h bt t Hh Hb H) as Hl.
  unfold check_tx in H.
  apply andb_true_iff in H. destruct H as [H H4]. apply andb_true_iff in H. destruct H as [H H3].
  apply andb_true_iff in H. destruct H as [_ H2].
  unfold spec_tx, spec_single. rewrite Hg, H2, H3. cbn [Z.eqb andb].
  rewrite (live_of_not_expire c t h bt Hl), (fee_of_check c t H4). reflexivity.
Qed.

(** a TxHeight transaction that is not expired at (h, bt) is inside its window *)
Lemma live_window : forall c h bt t,
  is_expire c t h bt = false -> tx_height (texp t) > 0 ->
  tx_height (texp t) - c_low c <= h /\ h <= tx_height (texp t) + c_high c.
Proof.
  intros c h bt t H1 Hg.
  pose proof flag_bound as [Hfb Hb0].
  assert (H0f : 0 < TxHeightFlag) by lia.
  destruct (tx_height_cases (texp t)) as [[Hv Hgv]|[Hv Hgv]]; [|lia].
  destruct (is_expire_false c t h bt H1) as [E|[E|[E|E]]]; lia.
Qed.

(** * groups *)

Lemma links_spec : forall g, links g = spec_links g.
Proof.
  induction g as [|t r IH]; [reflexivity|]. cbn [links spec_links].
  destruct r as [|u r']; [reflexivity|]. rewrite IH. reflexivity.
Qed.

Lemma forallb_ext_in : forall (A : Type) (f g : A -> bool) l,
  (forall x, In x l -> f x = g x) -> forallb f l = forallb g l.
Proof.
  intros A f g l H. induction l as [|a l IH]; [reflexivity|]. cbn [forallb].
  rewrite (H a (or_introl eq_refl)), IH; [reflexivity|].
  intros x Hx. apply H. right. exact Hx.
Qed.

Lemma forallb_or_const : forall (A : Type) (b : bool) (f : A -> bool) l,
  forallb (fun t => b || f t) l = true -> b || forallb f l = true.
Proof.
  intros A b f l H. destruct b; [reflexivity|]. cbn [orb] in *. exact H.
Qed.

Lemma check_group_spec : forall c g, check_group c g = true -> spec_group c g = true.
Proof.
  intros c g H. destruct g as [|hd tl]; [discriminate H|]. unfold check_group in H. unfold spec_group.
  apply andb_true_iff in H; destruct H as [H Xlinks].
  apply andb_true_iff in H; destruct H as [H Xgc].
  apply andb_true_iff in H; destruct H as [H Xhdrs].
  apply andb_true_iff in H; destruct H as [H Xhdr].
  apply andb_true_iff in H; destruct H as [H Xmax].
  apply andb_true_iff in H; destruct H as [H Xsum].
  apply andb_true_iff in H; destruct H as [H Xsize].
  apply andb_true_iff in H; destruct H as [Xchain Xfee0].
  assert (G1 : N.eqb (thdr hd) (th hd) = true) by (rewrite N.eqb_sym; exact Xhdr).
  assert (G2 : forallb (fun t => N.eqb (thdr t) (thdr hd)) tl = true).
  { rewrite <- Xhdrs. apply forallb_ext_in. intros x _. apply N.eqb_sym. }
  assert (G4 : spec_links (hd :: tl) = true) by (rewrite <- links_spec; exact Xlinks).
  assert (G8 : (c_maxfee c <=? 0) || (tfee hd <=? c_maxfee c) = true).
  { apply negb_true_iff in Xmax. apply andb_false_iff in Xmax. apply orb_true_iff.
    destruct Xmax as [E|E].
    - right. apply Z.leb_le. rewrite Z.gtb_ltb in E. apply Z.ltb_ge in E. exact E.
    - left. apply Z.leb_le. rewrite Z.gtb_ltb in E. apply Z.ltb_ge in E. exact E. }
  assert (G9 : negb (c_strict c) || forallb (fun t => tchain t =? c_chain c) (hd :: tl) = true).
  { apply (forallb_or_const tx (negb (c_strict c)) (fun t => tchain t =? c_chain c) (hd :: tl)). exact Xchain. }
  unfold sum_fee, real_fee in Xsum.
  rewrite G1, G2, Xgc, G4, Xfee0, Xsize, Xsum, G8, G9. reflexivity.
Qed.

Lemma group_rc_spec : forall c h bt g, group_rc c h bt g = true -> spec_group c g = true.
Proof.
  intros c h bt g H. unfold group_rc in H. apply andb_true_iff in H. destruct H as [_ H].
  apply check_group_spec. exact H.
Qed.

Lemma firstn_app_len : forall (A : Type) (a b : list A), firstn (length a) (a ++ b) = a.
Proof.
  intros A a b. rewrite firstn_app, Nat.sub_diag, firstn_all. cbn [firstn]. apply app_nil_r.
Qed.

Lemma skipn_app_len : forall (A : Type) (a b : list A), skipn (length a) (a ++ b) = b.
Proof.
  intros A a b. rewrite skipn_app, Nat.sub_diag, skipn_all. reflexivity.
Qed.

(** an accepted list splits into single transactions and whole groups as the oracle demands *)
Lemma okl_spec_fees : forall c h bt txs, 0 < h -> 0 < bt -> okl c h bt txs ->
  forall n, (length txs <= n)%nat -> spec_fees n c txs = true.
Proof.
  intros c h bt txs Hh Hb H.
  induction H as [|t0 r Hg Hc Hr IH|t0 g r Hgc Hlen Hok Hr IH]; intros n Hn.
  - destruct n; reflexivity.
  - destruct n as [|n]; [cbn [length] in Hn; lia|]. cbn [spec_fees].
    rewrite Hg. cbn [Z.eqb].
    pose proof (spec_of_check c h bt t0 Hh Hb Hg Hc) as Hs. unfold spec_tx in Hs.
    apply andb_true_iff in Hs. destruct Hs as [_ Hs]. rewrite Hs. cbn [andb].
    apply IH. cbn [length] in Hn. lia.
  - destruct n as [|n]; [rewrite app_length in Hn; cbn [length] in Hn; lia|].
    change ((t0 :: g) ++ r) with (t0 :: (g ++ r)). cbn [spec_fees].
    destruct (Z.eqb_spec (tgc t0) 0) as [E|E]; [lia|].
    change (t0 :: (g ++ r)) with ((t0 :: g) ++ r).
    rewrite Hlen, firstn_app_len, skipn_app_len.
    rewrite (group_rc_spec c h bt _ Hok).
    assert (L1 : (2 <=? tgc t0) = true) by (apply Z.leb_le; lia).
    assert (L2 : (tgc t0 <=? 20) = true) by (apply Z.leb_le; lia).
    assert (L3 : (length (t0 :: g) <=? length ((t0 :: g) ++ r))%nat = true).
    { apply Nat.leb_le. rewrite app_length. lia. }
    rewrite L1, L2, L3. cbn [andb]. apply IH.
    rewrite app_length in Hn. cbn [length] in Hn. lia.
Qed.

Lemma okl_spec_block : forall c h bt txs, 0 < h -> 0 < bt -> okl c h bt txs ->
  spec_block c h bt txs = true.
Proof.
  intros c h bt txs Hh Hb H. unfold spec_block. apply andb_true_iff. split.
  - apply forallb_forall. intros t Ht. apply live_of_not_expire.
    exact (okl_live c h bt txs Hh Hb H t Ht).
  - exact (okl_spec_fees c h bt txs Hh Hb H (length txs) (Nat.le_refl _)).
Qed.

(** a transaction with a GroupCount stands in its block inside its whole group *)
Lemma okl_whole : forall c h bt txs, okl c h bt txs ->
  forall t, In t txs -> tgc t <> 0 ->
  exists pre g post, txs = pre ++ g ++ post /\ In t g /\ spec_group c g = true.
Proof.
  intros c h bt txs H.
  induction H as [|t0 r Hg Hc Hr IH|t0 g r Hgc Hlen Hok Hr IH]; intros t Ht Hne.
  - destruct Ht.
  - destruct Ht as [Ht|Ht]; [subst t; contradiction|].
    destruct (IH t Ht Hne) as [pre [g [post [E [Hin Hs]]]]].
    exists (t0 :: pre), g, post. rewrite E. split; [reflexivity | split; assumption].
  - apply in_app_or in Ht. destruct Ht as [Ht|Ht].
    + exists [], (t0 :: g), r. split; [reflexivity|]. split; [exact Ht | exact (group_rc_spec c h bt _ Hok)].
    + destruct (IH t Ht Hne) as [pre [g' [post [E [Hin Hs]]]]].
      exists ((t0 :: g) ++ pre), g', post. rewrite E, <- app_assoc. split; [reflexivity | split; assumption].
Qed.
