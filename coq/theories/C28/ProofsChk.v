(** C28 — executor.checkTx against the spec predicates, and the TxHeight window. *)
From Coq Require Import List ZArith NArith Bool Lia.
From C33 Require Import C28.Model C28.Spec C28.Defs C28.ProofsLib.
Import ListNotations.
Open Scope Z_scope.

Lemma flag_bound : ExpireBound < TxHeightFlag /\ 0 < ExpireBound.
Proof. unfold ExpireBound, TxHeightFlag. lia. Qed.

Lemma spec_live_iff : forall c e h bt, spec_live c e h bt = true <->
  e = 0 \/ (e <= ExpireBound /\ h < e)
  \/ (TxHeightFlag < e /\ e - TxHeightFlag - c_low c <= h /\ h <= e - TxHeightFlag + c_high c)
  \/ (ExpireBound < e /\ e <= TxHeightFlag /\ bt < e).
Proof.
  intros c e h bt. unfold spec_live.
  rewrite !orb_true_iff, !andb_true_iff, Z.eqb_eq, !Z.leb_le, !Z.ltb_lt. tauto.
Qed.

(** what a [false] from isExpire means *)
Lemma is_expire_false : forall c t h bt, is_expire c t h bt = false ->
  texp t = 0
  \/ (texp t <= ExpireBound /\ h < texp t)
  \/ (TxHeightFlag < texp t /\ tx_height (texp t) = texp t - TxHeightFlag
      /\ texp t - TxHeightFlag - c_low c <= h /\ h <= texp t - TxHeightFlag + c_high c)
  \/ (ExpireBound < texp t /\ texp t <= TxHeightFlag /\ bt < texp t).
Proof.
  intros c t h bt H. unfold is_expire in H. cbv zeta in H.
  pose proof flag_bound as [Hfb Hb0].
  destruct (Z.eqb_spec (texp t) 0) as [E0|E0]; [left; exact E0|].
  destruct (Z.leb_spec (texp t) ExpireBound) as [E1|E1].
  - apply Z.leb_gt in H. right. left. lia.
  - destruct (tx_height_cases (texp t)) as [[Hv Hg]|[Hv Hg]]; rewrite Hg in H.
    + destruct (Z.gtb_spec (texp t - TxHeightFlag) 0) as [E2|E2]; [|lia].
      apply negb_false_iff in H. apply andb_true_iff in H. destruct H as [Ha Hb].
      apply Z.leb_le in Ha. apply Z.leb_le in Hb.
      right. right. left. repeat split; lia.
    + destruct (Z.gtb_spec (-1) 0) as [E2|E2]; [lia|].
      apply Z.leb_gt in H. right. right. right. lia.
Qed.

Lemma live_of_not_expire : forall c t h bt,
  is_expire c t h bt = false -> spec_live c (texp t) h bt = true.
Proof.
  intros c t h bt H. apply spec_live_iff.
  destruct (is_expire_false c t h bt H) as [H1|[H1|[H1|H1]]].
  - left. exact H1.
  - right. left. exact H1.
  - right. right. left. destruct H1 as [Ha [_ [Hb Hc]]]. repeat split; assumption.
  - right. right. right. exact H1.
Qed.

(** what a [true] from Transaction.check means *)
Lemma check_fee_true : forall c t, check_fee c t = true ->
  (c_strict c = true -> tchain t = c_chain c)
  /\ (c_minfee c = 0
      \/ (c_minfee c <> 0 /\ tsize t <= c_maxsize c
          /\ (tsize t / 1000 + 1) * c_minfee c <= tfee t
          /\ (c_maxfee c <= 0 \/ tfee t <= c_maxfee c)
          /\ tchain t = c_chain c)).
Proof.
  intros c t H. unfold check_fee in H.
  set (X := (tsize t / 1000 + 1) * c_minfee c) in *.
  split.
  - intros Es. rewrite Es in H. cbn [andb] in H.
    destruct (Z.eqb_spec (tchain t) (c_chain c)) as [E|E]; [exact E|].
    cbn [negb] in H. discriminate.
  - destruct (c_strict c && negb (tchain t =? c_chain c)); [discriminate|].
    destruct (Z.eqb_spec (c_minfee c) 0) as [E0|E0]; [left; exact E0|].
    right.
    destruct (Z.gtb_spec (tsize t) (c_maxsize c)) as [E1|E1]; [discriminate|].
    destruct (Z.ltb_spec (tfee t) X) as [E2|E2]; [discriminate|].
    destruct (Z.gtb_spec (tfee t) (c_maxfee c)) as [E3|E3];
      destruct (Z.gtb_spec (c_maxfee c) 0) as [E4|E4];
      cbn [andb] in H; try discriminate; apply Z.eqb_eq in H;
      repeat split; try assumption; lia.
Qed.

Lemma fee_of_check : forall c t, check_fee c t = true -> spec_fee c t = true.
Proof.
  intros c t H. destruct (check_fee_true c t H) as [Hs Hm].
  unfold spec_fee.
  set (X := (tsize t / 1000 + 1) * c_minfee c) in *.
  apply andb_true_iff. split.
  - destruct (c_strict c); cbn [orb].
    + apply Z.eqb_eq. apply Hs. reflexivity.
    + destruct (Z.eqb_spec (c_minfee c) 0) as [E0|E0]; cbn [negb]; [reflexivity|].
      apply Z.eqb_eq. destruct Hm as [Hm|Hm]; [contradiction | tauto].
  - rewrite orb_true_iff, !andb_true_iff, orb_true_iff, Z.eqb_eq, !Z.leb_le. tauto.
Qed.

Lemma spec_of_check : forall c h bt t, 0 < h -> 0 < bt ->
  check_tx c h bt t = true -> spec_tx c h bt t = true.
Proof.
  intros c h bt t Hh Hb H. unfold check_tx in H.
  apply andb_true_iff in H. destruct H as [H1 H2]. apply negb_true_iff in H1.
  rewrite (proj2 (Z.gtb_lt h 0) Hh), (proj2 (Z.gtb_lt bt 0) Hb) in H1. cbn [andb] in H1.
  unfold spec_tx. apply andb_true_iff. split.
  - apply live_of_not_expire. exact H1.
  - apply fee_of_check. exact H2.
Qed.

(** a TxHeight transaction accepted at (h, bt) is inside its window *)
Lemma check_window : forall c h bt t, 0 < h -> 0 < bt ->
  check_tx c h bt t = true -> tx_height (texp t) > 0 ->
  tx_height (texp t) - c_low c <= h /\ h <= tx_height (texp t) + c_high c.
Proof.
  intros c h bt t Hh Hb H Hg. unfold check_tx in H.
  apply andb_true_iff in H. destruct H as [H1 _]. apply negb_true_iff in H1.
  rewrite (proj2 (Z.gtb_lt h 0) Hh), (proj2 (Z.gtb_lt bt 0) Hb) in H1. cbn [andb] in H1.
  pose proof flag_bound as [Hfb Hb0].
  assert (H0f : 0 < TxHeightFlag) by lia.
  destruct (tx_height_cases (texp t)) as [[Hv Hgv]|[Hv Hgv]]; [|lia].
  destruct (is_expire_false c t h bt H1) as [E|[E|[E|E]]]; lia.
Qed.
