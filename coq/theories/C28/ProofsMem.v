(** C28 — the in-memory block cache is not observable: whatever blocks are in memory while an
    operation runs (as long as a block in memory under a hash IS the chain's block of that hash),
    connections and disconnections leave the same chain, index and window cache as with every
    block read from the database. *)
From Coq Require Import List ZArith NArith Bool Lia.
From C33 Require Import C28.Model C28.ModelMem.
Import ListNotations.
Open Scope Z_scope.

(** the block cache is coherent with the main chain [l]: a block held in memory under the hash
    of a main-chain block is that block (block hashes determine blocks) *)
Definition mem_ok (mem l : list blk) : Prop :=
  forall m b, In m mem -> In b l -> b_id m = b_id b -> m = b.

(** coherent before and after every operation of the history *)
Fixpoint mems_ok (c : cfg) (s : st) (ops : list (list blk * op)) : Prop :=
  match ops with
  | [] => True
  | mo :: r => mem_ok (fst mo) (chain s) /\ mem_ok (fst mo) (chain (step c s (snd mo)))
               /\ mems_ok c (step c s (snd mo)) r
  end.

Lemma get_block_ok : forall mem l h, mem_ok mem l -> get_block mem l h = block_at l h.
Proof.
  intros mem l h H. unfold get_block. destruct (block_at l h) as [b|] eqn:E; [|reflexivity].
  destruct (find (fun m => N.eqb (b_id m) (b_id b)) mem) as [m|] eqn:F; [|reflexivity].
  apply find_some in F. destruct F as [Hm Hid]. apply N.eqb_eq in Hid.
  unfold block_at in E. apply find_some in E. destruct E as [Hb _].
  rewrite (H m b Hm Hb Hid). reflexivity.
Qed.

Lemma cache_add_m_eq : forall c mem l b ca, mem_ok mem l -> cache_add_m c mem l b ca = cache_add c l b ca.
Proof. intros c mem l b ca H. unfold cache_add_m, cache_add. rewrite (get_block_ok mem l _ H). reflexivity. Qed.

Lemma cache_del_m_eq : forall c mem l h ca, mem_ok mem l -> cache_del_m c mem l h ca = cache_del c l h ca.
Proof. intros c mem l h ca H. unfold cache_del_m, cache_del. rewrite !(get_block_ok mem l _ H). reflexivity. Qed.

Lemma attach_m_eq : forall c mem s b, mem_ok mem (b :: chain s) -> attach_m c mem s b = attach c s b.
Proof. intros c mem s b H. unfold attach_m, attach. rewrite (cache_add_m_eq c mem _ b _ H). reflexivity. Qed.

Lemma connect_peer_m_eq : forall c mem s pool b,
  mem_ok mem (chain (fst (connect_peer c s pool b))) -> connect_peer_m c mem s pool b = connect_peer c s pool b.
Proof.
  intros c mem s pool b. unfold connect_peer_m, connect_peer.
  destruct (negb (linked s b)); [reflexivity|].
  destruct (negb (sig_stage pool (b_txs b))); [reflexivity|].
  destruct (negb (Nat.eqb (length (check_dup s (b_txs b))) (length (b_txs b)))); [reflexivity|].
  destruct (negb (all_true (exec_rc c (b_h b) (b_time b) (b_txs b)))); [reflexivity|].
  destruct (parent_time s >? b_time b); [reflexivity|].
  destruct (b_txs b) as [|t r] eqn:E; [reflexivity|].
  cbn [fst]. intro H. rewrite (attach_m_eq c mem s b H). reflexivity.
Qed.

Lemma connect_self_m_eq : forall c mem s b,
  mem_ok mem (chain (fst (fst (connect_self c s b)))) -> connect_self_m c mem s b = connect_self c s b.
Proof.
  intros c mem s b. unfold connect_self_m, connect_self.
  destruct (negb (linked s b)); [reflexivity|]. cbv zeta.
  destruct (parent_time s >? b_time b); [reflexivity|].
  destruct (keep _ _) as [|t r] eqn:E; [reflexivity|].
  cbn [fst]. intro H. rewrite (attach_m_eq c mem s _ H). reflexivity.
Qed.

Lemma disconnect_m_eq : forall c mem s, mem_ok mem (chain s) -> disconnect_m c mem s = disconnect c s.
Proof.
  intros c mem s H. unfold disconnect_m, disconnect.
  destruct (chain s) as [|b [|b' r]] eqn:E; try reflexivity.
  rewrite (cache_del_m_eq c mem _ _ _ H). reflexivity.
Qed.

Lemma step_m_eq : forall c s mem o, mem_ok mem (chain s) -> mem_ok mem (chain (step c s o)) ->
  step_m c s (mem, o) = step c s o.
Proof.
  intros c s mem o H1 H2. unfold step_m. cbn [fst snd]. destruct o as [pool b|b|]; cbn [step] in *.
  - rewrite (connect_peer_m_eq c mem s pool b H2). reflexivity.
  - rewrite (connect_self_m_eq c mem s b H2). reflexivity.
  - apply disconnect_m_eq; exact H1.
Qed.

Theorem block_cache_unobservable : forall c ops s, mems_ok c s ops -> run_m c s ops = run c s (map snd ops).
Proof.
  intros c ops. induction ops as [|[mem o] r IH]; intros s H; [reflexivity|].
  cbn [mems_ok fst snd] in H. destruct H as [H1 [H2 H3]].
  unfold run_m, run. cbn [fold_left map snd]. rewrite (step_m_eq c s mem o H1 H2).
  apply IH. exact H3.
Qed.

(** the single look-up, for every block list and height *)
Theorem get_block_is_block_at : forall mem l h, mem_ok mem l -> get_block mem l h = block_at l h.
Proof. exact get_block_ok. Qed.

(** ---- the hypothesis is satisfiable by a history in which it matters: window low = high = 1;
    block 2 carries a TxHeight transaction at the first height of its validity (1 .. 3); the
    chain grows to height 3 (the transaction leaves the window), the tip is disconnected while
    only the tip (first history) / the tip and the block that has to come back (second
    history) are in memory, and a block of height 3 repeats the transaction: a replay in both. ---- *)
Definition m_cfg : cfg := mkCfg 1 1 100000 1000000000 33 100000 true.
Definition m_gen : blk := mkBlk 1 0 0 1514533394 [].
Definition m_x : tx := mkTx 1 1 1 (TxHeightFlag + 2) 100000 240 33 true 0 0 0.
Definition m_p (i : N) : tx := mkTx i i i 0 100000 237 33 true 0 0 0.
Definition m_b2 : blk := mkBlk 2 1 1 1514533395 [m_x].
Definition m_b3 : blk := mkBlk 3 2 2 1514533396 [m_p 2].
Definition m_b4 : blk := mkBlk 4 3 3 1514533397 [m_p 3].
Definition m_b5 : blk := mkBlk 5 3 3 1514533398 [m_p 4; m_x].
Definition m_ops (at_disc : list blk) : list (list blk * op) :=
  [([], OPeer [] m_b2); ([m_b2], OPeer [] m_b3); ([m_b3], OPeer [] m_b4); (at_disc, ODisc); ([m_b3], OPeer [] m_b5)].

Lemma m_mem_ok : forall mem l, incl mem [m_b2; m_b3; m_b4] -> incl l [m_b4; m_b3; m_b2; m_gen] -> mem_ok mem l.
Proof.
  intros mem l Hm Hl m b Im Ib E. apply Hm in Im. apply Hl in Ib. cbn in Im, Ib.
  repeat (destruct Im as [Im|Im]; [subst m|]); try contradiction;
  repeat (destruct Ib as [Ib|Ib]; [subst b|]); try contradiction;
  try reflexivity; discriminate E.
Qed.

Example mems_satisfiable :
  mems_ok m_cfg (init m_gen) (m_ops [m_b4]) /\ mems_ok m_cfg (init m_gen) (m_ops [m_b4; m_b2])
  /\ (let s := run_m m_cfg (init m_gen) (firstn 4 (m_ops [m_b4])) in
      map b_id (chain s) = [3%N; 2%N; 1%N] /\ cache s = [(2, 1%N)])
  /\ map b_id (chain (run_m m_cfg (init m_gen) (m_ops [m_b4]))) = [3%N; 2%N; 1%N]
  /\ snd (connect_peer m_cfg (run_m m_cfg (init m_gen) (firstn 4 (m_ops [m_b4]))) [] m_b5) = EDup.
Proof.
  split; [|split; [|vm_compute; repeat split]];
  (cbn [mems_ok m_ops fst snd]; repeat split; try exact I;
   apply m_mem_ok; vm_compute; intros x Hx;
   repeat (destruct Hx as [Hx|Hx]; [subst x; cbn; tauto|]); contradiction).
Qed.
