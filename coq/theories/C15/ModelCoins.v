(** C15 — the coins executor (system/dapp/coins/executor/exec.go, coins.go) AS IT
    IS, as composite operations over the ledger, driven the way the block
    executor drives a driver: CheckTx, then Exec under the recovery of
    DriverBase.Exec; a transaction that fails leaves no write (the executor
    rolls the state DB back), a transaction that succeeds contributes the KV
    list of its receipt.

    Environment (inputs of a case, not modelled code):
    - [e_drivers]: the execDrivers table of system/dapp/register.go
      (executor address -> height from which it is a driver address),
    - [e_names]: the graph of address.ExecAddress on the executor names that
      occur (a hash: given, not modelled),
    - fork heights ForkTransferExec / ForkWithdraw,
    - [e_para]: the coins ExecType is configured for a para chain
      (GetRealToAddr takes the receiver from the payload). *)
From Coq Require Import List ZArith NArith Bool.
From C33 Require Import Lib.Harness C15.Model C15.Spec C15.ModelReceipt.
Import ListNotations.
Open Scope Z_scope.

Record cenv := mkEnv {
  e_drivers : list (bytes * Z);
  e_names : list (bytes * bytes);
  e_ftexec : Z;
  e_fwithdraw : Z;
  e_para : bool }.

Fixpoint blookup {A} (k : bytes) (l : list (bytes * A)) : option A :=
  match l with
  | [] => None
  | (k', v) :: tl => if bytes_eqb k k' then Some v else blookup k tl
  end.

(** payload: CoinsAction{Ty, Value}; [pto] is the To field of the payload *)
Inductive cact :=
| CTransfer (amt : Z) (pto : bytes)
| CTransferToExec (name : bytes) (amt : Z) (pto : bytes)
| CWithdraw (name : bytes) (amt : Z) (pto : bytes)
| CGenesis (ret : bytes) (amt : Z)
| CBad (genesis_ty : bool).
  (* no payload, unknown Ty, or a Ty whose value is of another kind:
     DecodePayloadValue fails or hands a nil value to Exec_<Ty> *)

(** [t_from] = tx.From() (derived from the public key), [t_to] = tx.To,
    [t_h] = height of the block the transaction is executed in *)
Record ctx := mkTx { t_h : Z; t_from : bytes; t_to : bytes; t_act : cact }.

Inductive cres :=
| COk
| CLedger (e : res)        (* error of account.DB, or ErrAmount of Coins.CheckTx *)
| CNotSupport              (* ErrActionNotSupport, also the recovered panic *)
| CToAddr                  (* ErrToAddrNotSameToExecAddr *)
| CReRun                   (* ErrReRunGenesis *)
| COther.                  (* any other error value: never produced by the model *)

Definition cres_eqb (a b : cres) : bool :=
  match a, b with
  | COk, COk | CNotSupport, CNotSupport | CToAddr, CToAddr | CReRun, CReRun | COther, COther => true
  | CLedger e, CLedger e' => res_eqb e e'
  | _, _ => false
  end.

(* types/fork.go IsFork *)
Definition is_fork (h f : Z) : bool := (h =? -1) || (f <=? h).

(* system/dapp/register.go IsDriverAddress *)
Definition is_driver (env : cenv) (a : bytes) (h : Z) : bool :=
  match blookup a (e_drivers env) with
  | Some dh => (dh <=? h) || (h =? -1)
  | None => false
  end.

(* exec.go isExecAddrMatch: address.ExecAddress(name) == to *)
Definition exec_addr_match (env : cenv) (name to : bytes) : bool :=
  match blookup name (e_names env) with
  | Some a => bytes_eqb a to
  | None => false
  end.

(* types/executor.go GetRealToAddr + getTo (genesis excluded) *)
Definition real_to (env : cenv) (tx : ctx) : bytes :=
  if e_para env then
    match t_act tx with
    | CTransfer _ p | CTransferToExec _ _ p | CWithdraw _ _ p => p
    | _ => t_to tx
    end
  else t_to tx.

(* ExecTypeBase.Amount: the payload's amount; a nil value reads as 0 *)
Definition act_amount (a : cact) : Z :=
  match a with
  | CTransfer m _ | CTransferToExec _ m _ | CWithdraw _ m _ | CGenesis _ m => m
  | CBad _ => 0
  end.

(* coins.go CheckTx (subCfg.DisableCheckTxAmount = false) *)
Definition coins_check_tx (tx : ctx) : bool := 0 <=? act_amount (t_act tx).

(** what Exec_<Ty> asks of the ledger, or the error it returns before *)
Definition coins_op (env : cenv) (tx : ctx) : cres + op :=
  let h := t_h tx in
  let from := t_from tx in
  let to := real_to env tx in
  match t_act tx with
  | CTransfer m _ =>
      if is_driver env to h then inr (OTransferToExec from to m) else inr (OTransfer from to m)
  | CTransferToExec name m _ =>
      if negb (is_fork h (e_ftexec env)) then inl CNotSupport else
      if negb (exec_addr_match env name to) then inl CToAddr else
      inr (OTransferToExec from to m)
  | CWithdraw name m _ =>
      let name' := if is_fork h (e_fwithdraw env) then name else [] in
      if is_driver env to h || exec_addr_match env name' to
      then inr (OTransferWithdraw from to m) else inl CNotSupport
  | CGenesis ret m =>
      if h =? 0 then
        (if is_driver env to h then inr (OGenesisInitExec ret m to) else inr (OGenesisInit to m))
      else inl CReRun
  | CBad g => if g && negb (h =? 0) then inl CReRun else inl CNotSupport
  end.

(** one transaction: state after, result, receipt *)
Definition coins_tx (env : cenv) (s : ledger) (tx : ctx) : ledger * cres * option receipt :=
  if negb (coins_check_tx tx) then (s, CLedger EAmount, None) else
  match coins_op env tx with
  | inl e => (s, e, None)
  | inr o =>
      match step [] s o with
      | (s', ROk) => (s', COk, Some (receipt_of [] s o))
      | (_, RPanic) => (s, CNotSupport, None)     (* recovered; writes rolled back *)
      | (_, e) => (s, CLedger e, None)
      end
  end.

Definition coins_run (env : cenv) (s : ledger) (txs : list ctx) : ledger :=
  fold_left (fun s tx => fst (fst (coins_tx env s tx))) txs s.

(** the ledger operations a list of transactions can ask for (guards, budgets) *)
Definition coins_ops (env : cenv) (txs : list ctx) : list op :=
  flat_map (fun tx => if coins_check_tx tx then
                        match coins_op env tx with inr o => [o] | inl _ => [] end
                      else []) txs.

(** read-backs after a transaction: sender, receiver, the sender's (for
    Genesis: the return address's) sub-account under the receiver *)
Definition tx_touched (env : cenv) (tx : ctx) : list query :=
  let to := real_to env tx in
  let holder := match t_act tx with CGenesis ret _ => ret | _ => t_from tx end in
  [QMain (t_from tx); QMain to; QSub holder to].

(** ** guard of the conservation theorem *)

(* amounts are int64 values *)
Definition tx_wf (tx : ctx) : bool :=
  let m := act_amount (t_act tx) in (- two63 <=? m) && (m <? two63).

(* head-room (Spec.headroom) for the ledger operations the transactions can ask
   for: supply + genesis grants <= MaxTokenBalance, sub-ledger total +
   deposits < 2^63 *)
Definition coins_guard (env : cenv) (s : ledger) (txs : list ctx) : bool :=
  forallb tx_wf txs && headroom s (coins_ops env txs).
