(** C15 — corollaries, refutation witnesses (the known findings) and
    non-vacuity examples. *)
From Coq Require Import List ZArith NArith Bool Lia String.
From C33 Require Import Lib.Harness C15.Model C15.Spec C15.ProofsBase C15.ProofsOps C15.Proofs.
Import ListNotations.
Open Scope Z_scope.

(** ** corollaries of [history_invariants] *)

Lemma invariants_partial : forall miners s ops,
  ledger_ok s = true -> hist_guard s ops = true ->
  let s' := run miners s ops in
  ledger_ok s' = true /\
  main_total s' = main_total s + deltas miners main_delta s ops /\
  sub_total s' = sub_total s + deltas miners sub_delta s ops /\
  all_steps good_step miners s ops.
Proof.
  intros miners s ops Hs G. destruct (history_invariants miners ops s Hs G) as (L & W & A).
  cbv zeta. split; [exact L|]. split; [|split; [|exact A]].
  - unfold main_total. rewrite W. f_equal.
    clear. revert s. induction ops as [|o tl IH]; intro s; simpl; [reflexivity|].
    destruct (step miners s o) as [s' r]. rewrite IH, gdelta_main. reflexivity.
  - unfold sub_total. rewrite W. f_equal.
    clear. revert s. induction ops as [|o tl IH]; intro s; simpl; [reflexivity|].
    destruct (step miners s o) as [s' r]. rewrite IH, gdelta_sub. reflexivity.
Qed.

Lemma weighted_sums_partial : forall miners s ops cm cf cs,
  ledger_ok s = true -> hist_guard s ops = true ->
  wsum (lw cm cf cs) (run miners s ops)
  = wsum (lw cm cf cs) s + deltas miners (gdelta cm cs) s ops.
Proof.
  intros miners s ops cm cf cs Hs G.
  destruct (history_invariants miners ops s Hs G) as (_ & W & _). apply W.
Qed.

Lemma exec_consistency_partial : forall miners e s ops,
  ledger_ok s = true -> hist_guard s ops = true ->
  gap e (run miners s ops) = gap e s + deltas miners (gap_delta e) s ops /\
  (forallb (fun o => gap_delta e o =? 0) ops = true -> gap e (run miners s ops) = gap e s).
Proof.
  intros miners e s ops Hs G.
  assert (gap e (run miners s ops) = gap e s + deltas miners (gap_delta e) s ops) as H
    by (unfold gap, gap_delta; apply weighted_sums_partial; assumption).
  split; [exact H|]. intro Z. rewrite H, deltas_zero by exact Z. lia.
Qed.

(** spellings of the HOLDER address that normalise alike read one account *)
Lemma same_account_partial : forall s a a' x,
  norm a = norm a' ->
  answer s (QMain a) = answer s (QMain a') /\ answer s (QSub a x) = answer s (QSub a' x).
Proof.
  intros s a a' x H. unfold answer, load_main, load_sub. rewrite H.
  split.
  - destruct (get (MainK (norm a')) s); reflexivity.
  - destruct (get (SubK x (norm a')) s); reflexivity.
Qed.

(** ** the full statements and their refutations *)

Definition w_lo : bytes := bs "0x43b72b02a359bf1a131210e974747368d064f8d4".
Definition w_up : bytes := bs "0x43B72B02A359BF1A131210E974747368D064F8D4".
Definition w_mix : bytes := bs "0x43b72B02a359Bf1A131210e974747368D064f8d4".
Definition w_ex : bytes := bs "1GaHYpWmqAJsqRwrpoNcB8VvgKtSwjcHqt".
Definition w_u1 : bytes := bs "14ZTV2wHG3uPHnA5cBJmNxAxxvbzS7Z5mE".
Definition w_u2 : bytes := bs "1EbDHAXpoiewjPLX9uqoz38HsKqMXayZrF".
Definition w_hx0 : bytes := bs "0x8f7e6d5c4b3a29180706f5e4d3c2b1a098765432".
Definition w_hx1 : bytes := bs "0x8F7E6D5C4B3A29180706F5E4D3C2B1A098765432".
Definition w_miner : bytes := bs "16htvcBNSEA7fZhAdLJphDwQRQJaHpyHTp".

(** finding 1: supply is conserved by every history (no guard) *)
Definition conservation_full : Prop :=
  forall miners s ops, ledger_ok s = true ->
  main_total (run miners s ops) = main_total s + deltas miners main_delta s ops /\
  sub_total (run miners s ops) = sub_total s + deltas miners sub_delta s ops.

Definition alias_witness : list op :=
  [OGenesisInitExec w_lo 1000 w_ex; OExecTransfer w_lo w_up w_ex 100].

(* 1000 granted, the sub-ledger holds 1100 *)
Example alias_witness_value :
  sub_total (run [] [] alias_witness) = 1100 /\ deltas [] sub_delta [] alias_witness = 1000 /\
  headroom [] alias_witness = true.
Proof. vm_compute. repeat split; reflexivity. Qed.

Lemma conservation_refuted : ~ conservation_full.
Proof.
  intro H. destruct (H [] [] alias_witness eq_refl) as [_ H2].
  vm_compute in H2. discriminate.
Qed.

Example alias_frozen_witness_value :
  let ops := [OGenesisInitExec w_lo 1000 w_ex; OExecFrozen w_mix w_ex 400;
              OExecTransferFrozen w_up w_lo w_ex 300] in
  sub_total (run [] [] ops) = 1300 /\ deltas [] sub_delta [] ops = 1000.
Proof. vm_compute. split; reflexivity. Qed.

(** finding 2: an operation that does not succeed changes nothing — false for
    the two operations that panic after their first save *)
Definition failed_op_atomic_full : Prop :=
  forall miners s o, ledger_ok s = true ->
  snd (step miners s o) <> ROk -> fst (step miners s o) = s.

Lemma failed_op_atomic_refuted : ~ failed_op_atomic_full.
Proof.
  intro H. specialize (H [] [] (OGenesisInitExec w_u1 0 w_ex) eq_refl).
  vm_compute in H. assert (RPanic <> ROk) as Hne by discriminate.
  specialize (H Hne). discriminate.
Qed.

Example withdraw_panic_witness :
  let s := run [] [] [OGenesisInit w_u1 max_token; OGenesisInitExec w_u1 1000 w_ex] in
  snd (step [] s (OTransferWithdraw w_u1 w_ex 10)) = RPanic /\
  sub_total (fst (step [] s (OTransferWithdraw w_u1 w_ex 10))) = 990 /\ sub_total s = 1000.
Proof. vm_compute. repeat split; reflexivity. Qed.

(** findings 3 and 5: nothing ever becomes negative (no guard) *)
Definition nonneg_full : Prop :=
  forall miners s ops, ledger_ok s = true -> ledger_ok (run miners s ops) = true.

Lemma nonneg_refuted : ~ nonneg_full.
Proof.
  intro H. specialize (H [] [] [OGenesisInit w_u1 (-5)] eq_refl).
  vm_compute in H. discriminate.
Qed.

(* 93 raw ExecDeposit calls wrap the int64 balance of one sub-account *)
Example sub_overflow_witness :
  let ops := repeat (OExecDeposit w_u1 w_ex (max_amount - 1)) 93 in
  forallb op_guard ops = true /\ ledger_ok (run [] [] ops) = false /\
  answer (run [] [] ops) (QSub w_u1 w_ex) = (-9146744073709551709, 0).
Proof. vm_compute. repeat split; reflexivity. Qed.

(** finding 4: case variants of one address are one account — false in the
    executor position *)
Definition same_account_full : Prop :=
  forall s a a' x x', norm a = norm a' -> norm x = norm x' ->
  answer s (QSub a x) = answer s (QSub a' x').

Lemma same_account_refuted : ~ same_account_full.
Proof.
  intro H.
  specialize (H (run [] [] [OGenesisInitExec w_u1 1000 w_hx0]) w_u1 w_u1 w_hx0 w_hx1
                eq_refl eq_refl).
  vm_compute in H. discriminate.
Qed.

(** ** non-vacuity: a history over several spellings that satisfies every guard
    and in which every operation succeeds *)
Definition plain_history : list op :=
  [OGenesisInit w_u1 1000; OTransfer w_u1 w_u2 300; OTransferToExec w_u2 w_miner 200;
   OExecFrozen w_u2 w_miner 150; OExecTransferFrozen w_u2 w_u1 w_miner 100;
   OExecActive w_u2 w_miner 50; OTransferWithdraw w_u1 w_miner 100;
   OExecDepositFrozen w_u1 w_miner 77; OMint w_lo 5; OBurn w_up 3; OTransfer w_mix w_u1 1;
   OExecTransfer w_u2 w_lo w_miner 20; OExecTransfer w_up w_u1 w_miner 5].

Example plain_history_guard :
  hist_guard [] plain_history = true /\
  forallb (fun o => gap_delta w_miner o =? 0) plain_history = true /\
  deltas [w_miner] main_delta [] plain_history = 1079 /\
  main_total (run [w_miner] [] plain_history) = 1079 /\
  sub_total (run [w_miner] [] plain_history) = 177 /\
  gap w_miner (run [w_miner] [] plain_history) = 0.
Proof. vm_compute. repeat split; reflexivity. Qed.

(* a non-empty well-formed start state with head-room *)
Example start_state_guard :
  let s := run [w_miner] [] plain_history in
  ledger_ok s = true /\ hist_guard s [OExecTransfer w_lo w_u2 w_miner 7; OGenesisInit w_up 5] = true.
Proof. vm_compute. split; reflexivity. Qed.

Example norm_examples :
  norm w_up = w_lo /\ norm w_mix = w_lo /\ norm w_u1 = w_u1 /\ norm w_hx1 = w_hx0.
Proof. vm_compute. repeat split; reflexivity. Qed.
