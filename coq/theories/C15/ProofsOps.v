(** C15 — every primitive operation: failure changes nothing, success keeps the
    ledger invariant and changes every linear weighted sum by the tabulated
    amount. *)
From Coq Require Import List ZArith NArith Bool Lia.
From C33 Require Import Lib.Harness C15.Model C15.Spec C15.ProofsBase.
Import ListNotations.
Open Scope Z_scope.

Definition dfun : Type := (bytes -> Z) -> (bytes -> Z) -> Z.

Definition pfacts (s : ledger) (p : ledger * res) (d : dfun) : Prop :=
  (snd p <> ROk -> fst p = s) /\ snd p <> RPanic /\
  (snd p = ROk ->
   ledger_ok (fst p) = true /\
   forall cm cf cs, wsum (lw cm cf cs) (fst p) = wsum (lw cm cf cs) s + d cm cs).

Lemma pfacts_fail : forall s e d, e <> ROk -> e <> RPanic -> pfacts s (s, e) d.
Proof.
  intros s e d H1 H2. unfold pfacts. simpl. split; [reflexivity|]. split; [exact H2|].
  intro H. contradiction.
Qed.

Ltac pf_fail := apply pfacts_fail; discriminate.

Lemma pfacts_ok : forall s s' (d : dfun),
  ledger_ok s' = true ->
  (forall cm cf cs, wsum (lw cm cf cs) s' = wsum (lw cm cf cs) s + d cm cs) ->
  pfacts s (s', ROk) d.
Proof.
  intros s s' d H1 H2. unfold pfacts. simpl. split; [intro H; contradiction|].
  split; [discriminate|]. intros _. split; assumption.
Qed.

Lemma max_token_lt : max_token < two63. Proof. unfold max_token, two63. lia. Qed.
Lemma max_amount_lt : max_amount < max_token. Proof. unfold max_token, max_amount. lia. Qed.

Lemma val_bounds : forall r, 0 <= a_bal r -> 0 <= a_frz r -> a_bal r <= val r /\ a_frz r <= val r.
Proof. intros r H1 H2. unfold val. lia. Qed.

(** ** main-account primitives *)

Lemma deposit_balance_facts : forall s x m,
  ledger_ok s = true -> main_total s <= max_token ->
  pfacts s (deposit_balance s x m) (fun cm _ => cm (norm x) * m).
Proof.
  intros s x m Hs Hm. unfold deposit_balance.
  destruct (check_amount m) eqn:C; simpl; [|pf_fail].
  apply check_amount_inv in C.
  destruct (load_main_ok s x Hs) as (Hn & Hb & Hf).
  pose proof (load_main_le s x Hs) as Hle. pose proof (val_bounds _ Hb Hf) as [Hv _].
  pose proof max_token_lt. pose proof max_amount_lt.
  destruct (safe_add (a_bal (load_main s x)) m) as [nb|] eqn:SA; [|pf_fail].
  apply safe_add_some in SA; [|lia|lia]. destruct SA as [-> Hle2].
  apply pfacts_ok.
  - apply ledger_ok_save_main; simpl; [exact Hs|lia|lia].
  - intros cm cf cs. rewrite (lw_save_main cm cf cs s x); [|exact Hs|reflexivity|reflexivity].
    simpl. f_equal. ring.
Qed.

Lemma deposit_balance_ok_inv : forall s x m s',
  deposit_balance s x m = (s', ROk) -> check_amount m = true.
Proof.
  intros s x m s' H. unfold deposit_balance in H.
  destruct (check_amount m); [reflexivity|]. simpl in H. discriminate.
Qed.

Lemma genesis_init_facts : forall s a m,
  ledger_ok s = true -> main_total s <= max_token -> 0 <= m < two63 ->
  pfacts s (genesis_init s a m) (fun cm _ => cm (norm a) * m).
Proof.
  intros s a m Hs Hm Hr. unfold genesis_init.
  destruct (load_main_ok s a Hs) as (Hn & Hb & Hf).
  pose proof (load_main_le s a Hs) as Hle. pose proof (val_bounds _ Hb Hf) as [Hv _].
  destruct (safe_add (a_bal (load_main s a)) m) as [nb|] eqn:SA; [|pf_fail].
  apply safe_add_some in SA; [|lia|lia]. destruct SA as [-> Hle2].
  apply pfacts_ok.
  - apply ledger_ok_save_main; simpl; [exact Hs|lia|lia].
  - intros cm cf cs. rewrite (lw_save_main cm cf cs s a); [|exact Hs|reflexivity|reflexivity].
    simpl. f_equal. ring.
Qed.

Lemma burn_facts : forall s a m,
  ledger_ok s = true -> main_total s <= max_token ->
  pfacts s (burn s a m) (fun cm _ => - (cm (norm a) * m)).
Proof.
  intros s a m Hs Hm. unfold burn.
  destruct (check_amount m) eqn:C; simpl; [|pf_fail].
  apply check_amount_inv in C.
  destruct (load_main_ok s a Hs) as (Hn & Hb & Hf).
  pose proof (load_main_le s a Hs) as Hle. pose proof (val_bounds _ Hb Hf) as [Hv _].
  pose proof max_token_lt.
  destruct (a_bal (load_main s a) <? m) eqn:B; [pf_fail|].
  apply Z.ltb_ge in B.
  rewrite wrap64_id by (unfold two63 in *; lia).
  apply pfacts_ok.
  - apply ledger_ok_save_main; simpl; [exact Hs|lia|lia].
  - intros cm cf cs. rewrite (lw_save_main cm cf cs s a); [|exact Hs|reflexivity|reflexivity].
    simpl. f_equal. ring.
Qed.

(** two spellings that pass the stored-address comparison and the balance
    check of Transfer have different storage keys *)
Lemma transfer_keys_differ : forall s f t m,
  0 < m < max_amount ->
  bytes_eqb (a_addr (load_main s f)) (a_addr (load_main s t)) = false ->
  (0 <=? wrap64 (a_bal (load_main s f) - m)) = true ->
  norm f <> norm t.
Proof.
  intros s f t m Hm E B Heq. unfold load_main in *. rewrite Heq in *.
  destruct (get (MainK (norm t)) s) as [r|].
  - rewrite bytes_eqb_refl in E. discriminate.
  - simpl in B. rewrite wrap64_id in B by (unfold two63, max_amount in *; lia).
    apply Z.leb_le in B. lia.
Qed.

Lemma transfer_facts : forall s f t m,
  ledger_ok s = true -> main_total s <= max_token ->
  pfacts s (transfer s f t m) (fun cm _ => (cm (norm t) - cm (norm f)) * m).
Proof.
  intros s f t m Hs Hm. unfold transfer.
  destruct (check_amount m) eqn:C; simpl; [|pf_fail].
  apply check_amount_inv in C.
  destruct (bytes_eqb (a_addr (load_main s f)) (a_addr (load_main s t))) eqn:E; [pf_fail|].
  destruct (0 <=? wrap64 (a_bal (load_main s f) - m)) eqn:B; [|pf_fail].
  pose proof (transfer_keys_differ s f t m C E B) as Hne.
  destruct (load_main_ok s f Hs) as (Hnf & Hbf & Hff).
  destruct (load_main_ok s t Hs) as (Hnt & Hbt & Hft).
  pose proof (load_main_le s f Hs) as Hlf. pose proof (load_main_le s t Hs) as Hlt.
  pose proof (val_bounds _ Hbf Hff) as [Hvf _]. pose proof (val_bounds _ Hbt Hft) as [Hvt _].
  pose proof max_token_lt. pose proof max_amount_lt.
  rewrite wrap64_id in * by (unfold two63 in *; lia).
  apply Z.leb_le in B.
  destruct (safe_add (a_bal (load_main s t)) m) as [nb|] eqn:SA; [|pf_fail].
  apply safe_add_some in SA; [|lia|lia]. destruct SA as [-> Hle2].
  set (rf' := set_bal (load_main s f) (a_bal (load_main s f) - m)).
  assert (ledger_ok (save_main s rf') = true) as Hs1
    by (apply ledger_ok_save_main; simpl; [exact Hs|lia|lia]).
  assert (load_main (save_main s rf') t = load_main s t) as Hlt1.
  { apply load_main_save_main_other. subst rf'. simpl. rewrite Hnf. exact Hne. }
  apply pfacts_ok.
  - apply ledger_ok_save_main; simpl; [exact Hs1|lia|lia].
  - intros cm cf cs.
    rewrite (lw_save_main cm cf cs (save_main s rf') t);
      [|exact Hs1|rewrite Hlt1; reflexivity|rewrite Hlt1; reflexivity].
    rewrite (lw_save_main cm cf cs s f); [|exact Hs|reflexivity|reflexivity].
    rewrite Hlt1. subst rf'. simpl. ring.
Qed.

Lemma transfer_ok_inv : forall s f t m s',
  transfer s f t m = (s', ROk) -> check_amount m = true /\ bytes_eqb f t = false.
Proof.
  intros s f t m s' H. unfold transfer in H.
  destruct (check_amount m) eqn:C; simpl in H; [|discriminate]. split; [reflexivity|].
  destruct (bytes_eqb f t) eqn:E; [|reflexivity]. apply bytes_eqb_eq in E. subst t.
  rewrite bytes_eqb_refl in H. discriminate.
Qed.

(** the conditions under which Transfer succeeds *)
Lemma transfer_succeeds : forall s f t m,
  ledger_ok s = true -> main_total s <= max_token ->
  check_amount m = true -> norm f <> norm t -> m <= a_bal (load_main s f) ->
  snd (transfer s f t m) = ROk.
Proof.
  intros s f t m Hs Hm C Hne Hb. unfold transfer. rewrite C. simpl.
  apply check_amount_inv in C.
  destruct (load_main_ok s f Hs) as (Hnf & Hbf & Hff).
  destruct (load_main_ok s t Hs) as (Hnt & Hbt & Hft).
  pose proof (load_main2_le s f t Hs Hne) as Hl2. unfold val in Hl2.
  pose proof max_token_lt.
  destruct (bytes_eqb (a_addr (load_main s f)) (a_addr (load_main s t))) eqn:E.
  { apply bytes_eqb_eq in E. rewrite E in Hnf. congruence. }
  rewrite wrap64_id by (unfold two63 in *; lia).
  assert (0 <=? a_bal (load_main s f) - m = true) as -> by (apply Z.leb_le; lia).
  rewrite safe_add_ok by lia. reflexivity.
Qed.

(** ** sub-ledger primitives *)

Lemma exec_frozen_facts : forall s a x m,
  ledger_ok s = true -> sub_total s < two63 ->
  pfacts s (exec_frozen s a x m) (fun _ _ => 0).
Proof.
  intros s a x m Hs Hm. unfold exec_frozen.
  destruct (bytes_eqb a x); [pf_fail|].
  destruct (check_amount m) eqn:C; simpl; [|pf_fail].
  apply check_amount_inv in C.
  destruct (load_sub_ok s a x Hs) as (Hn & Hb & Hf).
  pose proof (load_sub_le s a x Hs) as Hle. unfold val in Hle.
  assert (max_amount < two63) by (unfold max_amount, two63; lia).
  rewrite !wrap64_id by (unfold two63 in *; lia).
  destruct (a_bal (load_sub s a x) - m <? 0) eqn:B; [pf_fail|].
  apply Z.ltb_ge in B.
  rewrite !wrap64_id by (unfold two63 in *; lia).
  apply pfacts_ok.
  - apply ledger_ok_save_sub; simpl; [exact Hs|lia|lia].
  - intros cm cf cs. rewrite (lw_save_sub cm cf cs s a x); [|exact Hs|reflexivity].
    unfold val. simpl. ring.
Qed.

Lemma exec_active_facts : forall s a x m,
  ledger_ok s = true -> sub_total s < two63 ->
  pfacts s (exec_active s a x m) (fun _ _ => 0).
Proof.
  intros s a x m Hs Hm. unfold exec_active.
  destruct (bytes_eqb a x); [pf_fail|].
  destruct (check_amount m) eqn:C; simpl; [|pf_fail].
  apply check_amount_inv in C.
  destruct (load_sub_ok s a x Hs) as (Hn & Hb & Hf).
  pose proof (load_sub_le s a x Hs) as Hle. unfold val in Hle.
  assert (max_amount < two63) by (unfold max_amount, two63; lia).
  rewrite (wrap64_id (a_frz (load_sub s a x) - m)) by (unfold two63 in *; lia).
  destruct (a_frz (load_sub s a x) - m <? 0) eqn:B; [pf_fail|].
  apply Z.ltb_ge in B.
  rewrite !wrap64_id by (unfold two63 in *; lia).
  apply pfacts_ok.
  - apply ledger_ok_save_sub; simpl; [exact Hs|lia|lia].
  - intros cm cf cs. rewrite (lw_save_sub cm cf cs s a x); [|exact Hs|reflexivity].
    unfold val. simpl. ring.
Qed.

Lemma exec_deposit_facts : forall s a x m,
  ledger_ok s = true -> sub_total s + Z.max 0 m < two63 ->
  pfacts s (exec_deposit s a x m) (fun _ cs => cs x * m).
Proof.
  intros s a x m Hs Hm. unfold exec_deposit.
  destruct (bytes_eqb a x); [pf_fail|].
  destruct (check_amount m) eqn:C; simpl; [|pf_fail].
  apply check_amount_inv in C.
  destruct (load_sub_ok s a x Hs) as (Hn & Hb & Hf).
  pose proof (load_sub_le s a x Hs) as Hle. unfold val in Hle.
  rewrite !wrap64_id by (unfold two63 in *; lia).
  apply pfacts_ok.
  - apply ledger_ok_save_sub; simpl; [exact Hs|lia|lia].
  - intros cm cf cs. rewrite (lw_save_sub cm cf cs s a x); [|exact Hs|reflexivity].
    unfold val. simpl. ring.
Qed.

Lemma exec_deposit_succeeds : forall s a x m,
  bytes_eqb a x = false -> check_amount m = true -> snd (exec_deposit s a x m) = ROk.
Proof. intros s a x m E C. unfold exec_deposit. rewrite E, C. reflexivity. Qed.

Lemma exec_deposit_frozen_inner_facts : forall s a x m,
  ledger_ok s = true -> sub_total s + Z.max 0 m < two63 ->
  pfacts s (exec_deposit_frozen_inner s a x m) (fun _ cs => cs x * m).
Proof.
  intros s a x m Hs Hm. unfold exec_deposit_frozen_inner.
  destruct (bytes_eqb a x); [pf_fail|].
  destruct (check_amount m) eqn:C; simpl; [|pf_fail].
  apply check_amount_inv in C.
  destruct (load_sub_ok s a x Hs) as (Hn & Hb & Hf).
  pose proof (load_sub_le s a x Hs) as Hle. unfold val in Hle.
  rewrite !wrap64_id by (unfold two63 in *; lia).
  apply pfacts_ok.
  - apply ledger_ok_save_sub; simpl; [exact Hs|lia|lia].
  - intros cm cf cs. rewrite (lw_save_sub cm cf cs s a x); [|exact Hs|reflexivity].
    unfold val. simpl. ring.
Qed.

Lemma exec_deposit_frozen_inner_succeeds : forall s a x m,
  bytes_eqb a x = false -> check_amount m = true ->
  snd (exec_deposit_frozen_inner s a x m) = ROk.
Proof. intros s a x m E C. unfold exec_deposit_frozen_inner. rewrite E, C. reflexivity. Qed.

Lemma exec_withdraw_facts : forall s x a m,
  ledger_ok s = true -> sub_total s < two63 ->
  pfacts s (exec_withdraw s x a m) (fun _ cs => - (cs x * m)).
Proof.
  intros s x a m Hs Hm. unfold exec_withdraw.
  destruct (bytes_eqb a x); [pf_fail|].
  destruct (check_amount m) eqn:C; simpl; [|pf_fail].
  apply check_amount_inv in C.
  destruct (load_sub_ok s a x Hs) as (Hn & Hb & Hf).
  pose proof (load_sub_le s a x Hs) as Hle. unfold val in Hle.
  assert (max_amount < two63) by (unfold max_amount, two63; lia).
  rewrite !wrap64_id by (unfold two63 in *; lia).
  destruct (a_bal (load_sub s a x) - m <? 0) eqn:B; [pf_fail|].
  apply Z.ltb_ge in B.
  apply pfacts_ok.
  - apply ledger_ok_save_sub; simpl; [exact Hs|lia|lia].
  - intros cm cf cs. rewrite (lw_save_sub cm cf cs s a x); [|exact Hs|reflexivity].
    unfold val. simpl. ring.
Qed.

Lemma exec_withdraw_ok_inv : forall s x a m s',
  exec_withdraw s x a m = (s', ROk) ->
  bytes_eqb a x = false /\ check_amount m = true /\
  s' = save_sub s x (set_bal (load_sub s a x) (wrap64 (a_bal (load_sub s a x) - m))).
Proof.
  intros s x a m s' H. unfold exec_withdraw in H.
  destruct (bytes_eqb a x); [discriminate|].
  destruct (check_amount m); simpl in H; [|discriminate].
  destruct (wrap64 (a_bal (load_sub s a x) - m) <? 0); [discriminate|].
  inversion H. repeat split; reflexivity.
Qed.

Lemma norm_distinct_neq : forall f t,
  norm_distinct f t = true -> bytes_eqb f t = false -> norm f <> norm t.
Proof.
  intros f t H E. unfold norm_distinct in H. rewrite E in H. simpl in H.
  apply negb_true_iff in H. apply bytes_eqb_neq in H. exact H.
Qed.

Lemma exec_transfer_facts : forall s f t x m,
  ledger_ok s = true -> sub_total s < two63 -> norm_distinct f t = true ->
  pfacts s (exec_transfer s f t x m) (fun _ _ => 0).
Proof.
  intros s f t x m Hs Hm G. unfold exec_transfer.
  destruct (bytes_eqb f t) eqn:E; [pf_fail|].
  pose proof (norm_distinct_neq f t G E) as Hne.
  destruct (check_amount m) eqn:C; simpl; [|pf_fail].
  apply check_amount_inv in C.
  destruct (load_sub_ok s f x Hs) as (Hnf & Hbf & Hff).
  destruct (load_sub_ok s t x Hs) as (Hnt & Hbt & Hft).
  pose proof (load_sub2_le s f t x Hs Hne) as Hl2. unfold val in Hl2.
  assert (max_amount < two63) by (unfold max_amount, two63; lia).
  rewrite (wrap64_id (a_bal (load_sub s f x) - m)) by (unfold two63 in *; lia).
  destruct (a_bal (load_sub s f x) - m <? 0) eqn:B; [pf_fail|].
  apply Z.ltb_ge in B.
  rewrite !wrap64_id by (unfold two63 in *; lia).
  set (rf' := set_bal (load_sub s f x) (a_bal (load_sub s f x) - m)).
  assert (ledger_ok (save_sub s x rf') = true) as Hs1
    by (apply ledger_ok_save_sub; simpl; [exact Hs|lia|lia]).
  assert (load_sub (save_sub s x rf') t x = load_sub s t x) as Hlt1.
  { apply load_sub_save_sub_other. subst rf'. simpl. rewrite Hnf. exact Hne. }
  apply pfacts_ok.
  - apply ledger_ok_save_sub; simpl; [exact Hs1|lia|lia].
  - intros cm cf cs.
    rewrite (lw_save_sub cm cf cs (save_sub s x rf') t x); [|exact Hs1|rewrite Hlt1; reflexivity].
    rewrite (lw_save_sub cm cf cs s f x); [|exact Hs|reflexivity].
    rewrite Hlt1. subst rf'. unfold val. simpl. ring.
Qed.

Lemma exec_transfer_frozen_facts : forall s f t x m,
  ledger_ok s = true -> sub_total s < two63 -> norm_distinct f t = true ->
  pfacts s (exec_transfer_frozen s f t x m) (fun _ _ => 0).
Proof.
  intros s f t x m Hs Hm G. unfold exec_transfer_frozen.
  destruct (bytes_eqb f t) eqn:E; [pf_fail|].
  pose proof (norm_distinct_neq f t G E) as Hne.
  destruct (check_amount m) eqn:C; simpl; [|pf_fail].
  apply check_amount_inv in C.
  destruct (load_sub_ok s f x Hs) as (Hnf & Hbf & Hff).
  destruct (load_sub_ok s t x Hs) as (Hnt & Hbt & Hft).
  pose proof (load_sub2_le s f t x Hs Hne) as Hl2. unfold val in Hl2.
  assert (max_amount < two63) by (unfold max_amount, two63; lia).
  rewrite (wrap64_id (a_frz (load_sub s f x) - m)) by (unfold two63 in *; lia).
  destruct (a_frz (load_sub s f x) - m <? 0) eqn:B; [pf_fail|].
  apply Z.ltb_ge in B.
  rewrite !wrap64_id by (unfold two63 in *; lia).
  set (rf' := set_bf (load_sub s f x) (a_bal (load_sub s f x)) (a_frz (load_sub s f x) - m)).
  assert (ledger_ok (save_sub s x rf') = true) as Hs1
    by (apply ledger_ok_save_sub; simpl; [exact Hs|lia|lia]).
  assert (load_sub (save_sub s x rf') t x = load_sub s t x) as Hlt1.
  { apply load_sub_save_sub_other. subst rf'. simpl. rewrite Hnf. exact Hne. }
  apply pfacts_ok.
  - apply ledger_ok_save_sub; simpl; [exact Hs1|lia|lia].
  - intros cm cf cs.
    rewrite (lw_save_sub cm cf cs (save_sub s x rf') t x); [|exact Hs1|rewrite Hlt1; reflexivity].
    rewrite (lw_save_sub cm cf cs s f x); [|exact Hs|reflexivity].
    rewrite Hlt1. subst rf'. unfold val. simpl. ring.
Qed.
