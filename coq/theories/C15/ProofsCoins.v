(** C15 — the coins executor conserves supply except at genesis. *)
From Coq Require Import List ZArith NArith Bool Lia.
From C33 Require Import Lib.Harness C15.Model C15.Spec C15.ModelReceipt C15.ModelCoins
  C15.ProofsBase C15.ProofsOps C15.Proofs C15.ProofsReceipt C15.ProofsReceipt2.
Import ListNotations.
Open Scope Z_scope.

(** facts about a SUCCESSFUL call only (a panic is allowed: the executor rolls it back) *)
Definition okfacts (s : ledger) (p : ledger * res) (d : dfun) : Prop :=
  snd p = ROk ->
  ledger_ok (fst p) = true /\
  forall cm cf cs, wsum (lw cm cf cs) (fst p) = wsum (lw cm cf cs) s + d cm cs.

Lemma pfacts_okfacts : forall s p d, pfacts s p d -> okfacts s p d.
Proof. intros s p d (_ & _ & H). exact H. Qed.

Lemma okfacts_seq : forall s s1 p (d1 d2 d : dfun),
  pfacts s (s1, ROk) d1 -> okfacts s1 p d2 ->
  (forall cm cs, d cm cs = d1 cm cs + d2 cm cs) -> okfacts s p d.
Proof.
  intros s s1 p d1 d2 d (_ & _ & H1) H2 Hd Hok.
  destruct (H1 eq_refl) as [_ W1]. destruct (H2 Hok) as [L2 W2]. simpl in *.
  split; [exact L2|]. intros cm cf cs. rewrite W2, W1, Hd. ring.
Qed.

(** TransferWithdraw without the spelling guard: if it returns nil error, the
    tabulated deltas hold (otherwise it returned an error or panicked) *)
Lemma transfer_withdraw_okfacts : forall s f t m,
  ledger_ok s = true -> main_total s <= max_token -> sub_total s < two63 ->
  okfacts s (transfer_withdraw s f t m)
    (fun cm cs => (cm (norm f) - cm (norm t)) * m - cs t * m).
Proof.
  intros s f t m Hs Hm Hd. unfold transfer_withdraw.
  destruct (check_transfer s t m); try (intro X; discriminate X).
  pose proof (exec_withdraw_facts s t f m Hs Hd) as F.
  destruct (exec_withdraw s t f m) as [s1 r1] eqn:W.
  destruct r1; try (intro X; discriminate X).
  destruct (pfacts_ok_totals _ _ _ F) as (L1 & M1 & S1). simpl in M1, S1.
  assert (main_total s1 <= max_token) as Hm1 by (unfold c0 in M1; lia).
  pose proof (transfer_facts s1 t f m L1 Hm1) as F2.
  destruct (transfer s1 t f m) as [s2 r2] eqn:T.
  destruct r2; try (intro X; discriminate X).
  eapply okfacts_seq; [exact F|apply pfacts_okfacts; exact F2|]. intros; simpl; ring.
Qed.

(** GenesisInitExec without the amount / address guard *)
Lemma genesis_init_exec_okfacts : forall s a m x,
  ledger_ok s = true -> main_total s <= max_token -> sub_total s + Z.max 0 m < two63 ->
  0 <= m < two63 ->
  okfacts s (genesis_init_exec s a m x) (fun cm cs => cm (norm x) * m + cs x * m).
Proof.
  intros s a m x Hs Hm Hd Hr. unfold genesis_init_exec.
  pose proof (genesis_init_facts s x m Hs Hm Hr) as F.
  destruct (genesis_init s x m) as [s1 r1] eqn:G.
  destruct r1; try (intro X; discriminate X).
  destruct (pfacts_ok_totals _ _ _ F) as (L1 & M1 & S1). simpl in M1, S1.
  assert (sub_total s1 + Z.max 0 m < two63) as Hd1 by (unfold c0 in S1; lia).
  pose proof (exec_deposit_facts s1 a x m L1 Hd1) as F2.
  destruct (exec_deposit s1 a x m) as [s2 r2] eqn:D.
  destruct r2; try (intro X; discriminate X).
  eapply okfacts_seq; [exact F|apply pfacts_okfacts; exact F2|]. intros; simpl; ring.
Qed.

Definition tx_ops (env : cenv) (tx : ctx) : list op := coins_ops env [tx].

(** weighted-sum change caused by one transaction *)
Definition coins_delta (env : cenv) (f : op -> Z) (s : ledger) (tx : ctx) : Z :=
  if coins_check_tx tx then
    match coins_op env tx with
    | inr o => match step [] s o with (_, ROk) => f o | _ => 0 end
    | inl _ => 0
    end
  else 0.

Fixpoint coins_deltas (env : cenv) (f : op -> Z) (s : ledger) (txs : list ctx) : Z :=
  match txs with
  | [] => 0
  | tx :: tl => coins_delta env f s tx + coins_deltas env f (fst (fst (coins_tx env s tx))) tl
  end.

(** amount granted by a transaction: a successful Genesis action *)
Definition tx_granted (env : cenv) (s : ledger) (tx : ctx) : Z :=
  match coins_tx env s tx with
  | (_, COk, _) => match t_act tx with CGenesis _ m => m | _ => 0 end
  | _ => 0
  end.

Fixpoint coins_granted (env : cenv) (s : ledger) (txs : list ctx) : Z :=
  match txs with
  | [] => 0
  | tx :: tl => tx_granted env s tx + coins_granted env (fst (fst (coins_tx env s tx))) tl
  end.

Lemma coins_op_facts : forall env tx o s,
  coins_check_tx tx = true -> tx_wf tx = true -> coins_op env tx = inr o ->
  ledger_ok s = true -> main_total s + mint_budget o <= max_token ->
  sub_total s + dep_budget o < two63 ->
  okfacts s (step [] s o) (fun cm cs => gdelta cm cs o) /\
  main_delta o = match t_act tx with CGenesis _ m => m | _ => 0 end.
Proof.
  intros env tx o s C W O Hs Hm Hd. unfold coins_op in O.
  unfold coins_check_tx in C. apply Z.leb_le in C.
  unfold tx_wf in W. apply andb_true_iff in W as [_ W]. apply Z.ltb_lt in W.
  destruct (t_act tx) as [m p|name m p|name m p|ret m|g]; cbn [act_amount] in *.
  - destruct (is_driver env (real_to env tx) (t_h tx)); injection O as <-;
      cbn [mint_budget dep_budget step main_delta] in *; (split; [|reflexivity]).
    + apply pfacts_okfacts. eapply pfacts_ext;
        [apply transfer_to_exec_facts; [assumption|lia|lia]|]. reflexivity.
    + apply pfacts_okfacts. eapply pfacts_ext; [apply transfer_facts; [assumption|lia]|].
      reflexivity.
  - destruct (negb (is_fork (t_h tx) (e_ftexec env))); [discriminate|].
    destruct (negb (exec_addr_match env name (real_to env tx))); [discriminate|].
    injection O as <-. cbn [mint_budget dep_budget step main_delta] in *. split; [|reflexivity].
    apply pfacts_okfacts. eapply pfacts_ext;
      [apply transfer_to_exec_facts; [assumption|lia|lia]|]. reflexivity.
  - destruct (is_driver env (real_to env tx) (t_h tx) ||
              exec_addr_match env (if is_fork (t_h tx) (e_fwithdraw env) then name else [])
                (real_to env tx)); [|discriminate].
    injection O as <-. cbn [mint_budget dep_budget step main_delta] in *. split; [|reflexivity].
    apply transfer_withdraw_okfacts; [assumption|lia|lia].
  - destruct (t_h tx =? 0); [|discriminate].
    destruct (is_driver env (real_to env tx) (t_h tx)); injection O as <-;
      cbn [mint_budget dep_budget step main_delta] in *; (split; [|reflexivity]).
    + apply genesis_init_exec_okfacts; [assumption|lia|lia|lia].
    + apply pfacts_okfacts. eapply pfacts_ext;
        [apply genesis_init_facts; [assumption|lia|lia]|]. reflexivity.
  - destruct (g && negb (t_h tx =? 0)); discriminate.
Qed.

Lemma coins_ops_cons : forall env tx tl, coins_ops env (tx :: tl) = tx_ops env tx ++ coins_ops env tl.
Proof. intros. unfold tx_ops, coins_ops. simpl. rewrite app_nil_r. reflexivity. Qed.

Lemma zsum_app : forall f a b, zsum f (a ++ b) = zsum f a + zsum f b.
Proof. intros f a b. induction a as [|o tl IH]; simpl; [reflexivity|]. rewrite IH. ring. Qed.

Lemma coins_run_cons : forall env s tx tl,
  coins_run env s (tx :: tl) = coins_run env (fst (fst (coins_tx env s tx))) tl.
Proof. reflexivity. Qed.

Lemma tx_ops_unfold : forall env tx,
  tx_ops env tx = if coins_check_tx tx then
                    match coins_op env tx with inr o => [o] | inl _ => [] end
                  else [].
Proof. intros. unfold tx_ops, coins_ops. simpl. apply app_nil_r. Qed.

Lemma coins_op_inl_not_ok : forall env tx, coins_op env tx <> inl COk.
Proof.
  intros env tx. unfold coins_op.
  destruct (t_act tx) as [m p|name m p|name m p|ret m|g];
    repeat match goal with |- context [if ?c then _ else _] => destruct c end; discriminate.
Qed.

(** one transaction *)
Lemma coins_tx_facts : forall env s tx,
  ledger_ok s = true -> tx_wf tx = true ->
  main_total s + zsum mint_budget (tx_ops env tx) <= max_token ->
  sub_total s + zsum dep_budget (tx_ops env tx) < two63 ->
  let s' := fst (fst (coins_tx env s tx)) in
  ledger_ok s' = true /\
  (forall cm cf cs, wsum (lw cm cf cs) s'
     = wsum (lw cm cf cs) s + coins_delta env (gdelta cm cs) s tx) /\
  coins_delta env main_delta s tx = tx_granted env s tx /\
  (snd (fst (coins_tx env s tx)) <> COk -> s' = s) /\
  main_total s' <= main_total s + zsum mint_budget (tx_ops env tx) /\
  sub_total s' <= sub_total s + zsum dep_budget (tx_ops env tx).
Proof.
  intros env s tx Hs W Hm Hd.
  rewrite tx_ops_unfold in *.
  unfold coins_tx, coins_delta, tx_granted, coins_tx.
  revert Hm Hd.
  destruct (coins_check_tx tx) eqn:C; cbn [negb].
  2:{ intros Hm Hd. cbn [zsum fold_right fst snd] in *. repeat split; try assumption; intros; first [reflexivity|lia]. }
  destruct (coins_op env tx) as [e|o] eqn:O.
  { pose proof (coins_op_inl_not_ok env tx) as Hne. rewrite O in Hne.
    intros Hm Hd. cbn [zsum fold_right fst snd] in *.
    repeat split; try assumption; intros; try lia; try reflexivity.
    destruct e; try reflexivity. contradiction. }
  intros Hm Hd. cbn [zsum fold_right] in *.
  pose proof (zsum_nonneg_mint [o]) as Zm. pose proof (zsum_nonneg_dep [o]) as Zd.
  cbn [zsum fold_right] in Zm, Zd.
  assert (main_total s + mint_budget o <= max_token) as Hm' by lia.
  assert (sub_total s + dep_budget o < two63) as Hd' by lia.
  destruct (coins_op_facts env tx o s C W O Hs Hm' Hd') as [F Hg].
  destruct (step [] s o) as [s1 r1] eqn:St.
  destruct r1; cbn [fst snd];
    try (repeat split; try assumption; try (intros; lia); intro X; contradiction).
  destruct (F eq_refl) as [L Wg]. cbn [fst] in L, Wg.
  pose proof (Wg c1 c1 c0) as Wm. pose proof (Wg c0 c0 c1) as Ws.
  rewrite gdelta_main in Wm. rewrite gdelta_sub in Ws.
  fold (main_total s1) (main_total s) in Wm. fold (sub_total s1) (sub_total s) in Ws.
  pose proof (step_ok_pos [] s o s1 St) as Hpos.
  split; [exact L|]. split; [exact Wg|]. split; [exact Hg|]. split; [intro X; contradiction|].
  split.
  - rewrite Wm. destruct o; simpl in *; lia.
  - rewrite Ws. destruct o; simpl in *; lia.
Qed.

Theorem coins_actions_conserve : forall env txs s,
  ledger_ok s = true -> coins_guard env s txs = true ->
  let s' := coins_run env s txs in
  ledger_ok s' = true /\
  main_total s' = main_total s + coins_granted env s txs /\
  (forall cm cf cs, wsum (lw cm cf cs) s'
     = wsum (lw cm cf cs) s + coins_deltas env (gdelta cm cs) s txs).
Proof.
  intros env txs. induction txs as [|tx tl IH]; intros s Hs G.
  - simpl. split; [exact Hs|]. split; [lia|intros; lia].
  - unfold coins_guard in G. apply andb_true_iff in G as [G1 G2].
    simpl in G1. apply andb_true_iff in G1 as [Gw Gtl].
    unfold headroom in G2. rewrite coins_ops_cons, !zsum_app in G2.
    apply andb_true_iff in G2 as [Gm Gd]. apply Z.leb_le in Gm. apply Z.ltb_lt in Gd.
    pose proof (zsum_nonneg_mint (coins_ops env tl)) as Zm.
    pose proof (zsum_nonneg_dep (coins_ops env tl)) as Zd.
    destruct (coins_tx_facts env s tx Hs Gw ltac:(lia) ltac:(lia)) as (L & Wg & Hg & _ & Bm & Bd).
    rewrite coins_run_cons. cbn [coins_granted coins_deltas].
    set (s1 := fst (fst (coins_tx env s tx))) in *.
    assert (coins_guard env s1 tl = true) as G'.
    { unfold coins_guard, headroom. rewrite Gtl. simpl.
      apply andb_true_iff. split; [apply Z.leb_le|apply Z.ltb_lt]; lia. }
    destruct (IH s1 L G') as (IL & IM & IW).
    split; [exact IL|]. split.
    + rewrite IM. pose proof (Wg c1 c1 c0) as Wm.
      fold (main_total s1) (main_total s) in Wm. rewrite Wm, <- Hg.
      unfold coins_delta. destruct (coins_check_tx tx); [|lia].
      destruct (coins_op env tx) as [e|o]; [lia|].
      destruct (step [] s o) as [s2 r2]. destruct r2; try lia. rewrite gdelta_main. lia.
    + intros cm cf cs. rewrite IW, Wg. ring.
Qed.

(** no Genesis action succeeds above height 0: supply is constant *)
Lemma tx_granted_later : forall env s tx, (t_h tx =? 0) = false -> tx_granted env s tx = 0.
Proof.
  intros env s tx H. unfold tx_granted, coins_tx.
  destruct (negb (coins_check_tx tx)); [reflexivity|].
  destruct (t_act tx) as [m p|name m p|name m p|ret m|g] eqn:A;
    try (destruct (coins_op env tx) as [e|o]; [destruct e; reflexivity|];
         destruct (step [] s o) as [s1 r1]; destruct r1; reflexivity).
  unfold coins_op. cbv zeta. rewrite A, H. reflexivity.
Qed.

Lemma coins_granted_later : forall env txs s,
  forallb (fun tx => negb (t_h tx =? 0)) txs = true -> coins_granted env s txs = 0.
Proof.
  intros env txs. induction txs as [|tx tl IH]; intros s H; [reflexivity|].
  simpl in H. apply andb_true_iff in H as [H1 H2]. apply negb_true_iff in H1.
  cbn [coins_granted]. rewrite (tx_granted_later env s tx H1), (IH _ H2). reflexivity.
Qed.

(** a failed transaction writes nothing (by the roll-back); stated for the record *)
Lemma coins_tx_failed_same : forall env s tx,
  snd (fst (coins_tx env s tx)) <> COk -> fst (fst (coins_tx env s tx)) = s.
Proof.
  intros env s tx. unfold coins_tx.
  destruct (negb (coins_check_tx tx)); [reflexivity|].
  destruct (coins_op env tx) as [e|o]; [reflexivity|].
  destruct (step [] s o) as [s1 r1]. destruct r1; cbn [fst snd]; try reflexivity.
  intro X. contradiction.
Qed.

Theorem coins_actions_conserve_all : forall env txs s,
  ledger_ok s = true -> coins_guard env s txs = true ->
  let s' := coins_run env s txs in
  ledger_ok s' = true /\
  main_total s' = main_total s + coins_granted env s txs /\
  (forallb (fun tx => negb (t_h tx =? 0)) txs = true -> main_total s' = main_total s) /\
  (forall cm cf cs, wsum (lw cm cf cs) s'
     = wsum (lw cm cf cs) s + coins_deltas env (gdelta cm cs) s txs) /\
  (forall s0 tx, snd (fst (coins_tx env s0 tx)) <> COk -> fst (fst (coins_tx env s0 tx)) = s0).
Proof.
  intros env txs s Hs G s'.
  destruct (coins_actions_conserve env txs s Hs G) as (L & M & W).
  split; [exact L|]. split; [exact M|]. split.
  - intro H. fold s' in M. rewrite M, (coins_granted_later env txs s H). ring.
  - split; [exact W|]. intros s0 tx. apply coins_tx_failed_same.
Qed.

(** ** the state is the fold of the receipts' KV lists (what the chain stores) *)

Fixpoint coins_kvs (env : cenv) (s : ledger) (txs : list ctx) : list (key * acct) :=
  match txs with
  | [] => []
  | tx :: tl =>
      (match snd (coins_tx env s tx) with Some rc => r_kv rc | None => [] end)
      ++ coins_kvs env (fst (fst (coins_tx env s tx))) tl
  end.

Lemma coins_tx_keys_ok : forall env s tx, keys_ok s = true ->
  keys_ok (fst (fst (coins_tx env s tx))) = true /\
  fst (fst (coins_tx env s tx))
  = apply_kv (match snd (coins_tx env s tx) with Some rc => r_kv rc | None => [] end) s.
Proof.
  intros env s tx Hs. unfold coins_tx.
  destruct (negb (coins_check_tx tx)); [split; [exact Hs|reflexivity]|].
  destruct (coins_op env tx) as [e|o]; [split; [exact Hs|reflexivity]|].
  pose proof (step_keys_ok [] s o Hs) as K.
  pose proof (step_rprim [] s o) as R.
  destruct (step [] s o) as [s1 r1]. cbn [fst] in K.
  destruct r1; cbn [fst snd]; try (split; [exact Hs|reflexivity]).
  split; [exact K|]. destruct (R s1 Hs eq_refl) as [E _]. exact E.
Qed.

Theorem coins_state_from_receipts : forall env txs s, keys_ok s = true ->
  keys_ok (coins_run env s txs) = true /\
  coins_run env s txs = apply_kv (coins_kvs env s txs) s.
Proof.
  intros env txs. induction txs as [|tx tl IH]; intros s Hs; [split; [exact Hs|reflexivity]|].
  rewrite coins_run_cons. cbn [coins_kvs]. destruct (coins_tx_keys_ok env s tx Hs) as [K E].
  destruct (IH _ K) as [IK IE]. split; [exact IK|].
  rewrite apply_kv_app, <- E. exact IE.
Qed.
