(** C15 — composite operations, the per-step lemma and the history theorems. *)
From Coq Require Import List ZArith NArith Bool Lia.
From C33 Require Import Lib.Harness C15.Model C15.Spec C15.ProofsBase C15.ProofsOps.
Import ListNotations.
Open Scope Z_scope.

Lemma pfacts_ok_totals : forall s s' d,
  pfacts s (s', ROk) d ->
  ledger_ok s' = true /\ main_total s' = main_total s + d c1 c0 /\
  sub_total s' = sub_total s + d c0 c1.
Proof.
  intros s s' d (_ & _ & H). destruct (H eq_refl) as [H1 H2]. simpl in *.
  split; [exact H1|]. split; apply H2.
Qed.

Lemma pfacts_seq : forall s s1 s2 (d1 d2 d : dfun),
  pfacts s (s1, ROk) d1 -> pfacts s1 (s2, ROk) d2 ->
  (forall cm cs, d cm cs = d1 cm cs + d2 cm cs) ->
  pfacts s (s2, ROk) d.
Proof.
  intros s s1 s2 d1 d2 d (_ & _ & H1) (_ & _ & H2) Hd.
  destruct (H1 eq_refl) as [_ W1]. destruct (H2 eq_refl) as [L2 W2]. simpl in *.
  apply pfacts_ok; [exact L2|]. intros cm cf cs. rewrite W2, W1, Hd. ring.
Qed.

Lemma pfacts_ext : forall s p (d d' : dfun),
  pfacts s p d -> (forall cm cs, d cm cs = d' cm cs) -> pfacts s p d'.
Proof.
  intros s p d d' (H1 & H2 & H3) Hd. split; [exact H1|]. split; [exact H2|].
  intro H. destruct (H3 H) as [L W]. split; [exact L|].
  intros cm cf cs. rewrite W, Hd. reflexivity.
Qed.

Lemma pfacts_res : forall s s' r d, pfacts s (s', r) d -> r <> RPanic.
Proof. intros s s' r d (_ & H & _). exact H. Qed.

(** ** composites *)

Lemma transfer_to_exec_facts : forall s f t m,
  ledger_ok s = true -> main_total s <= max_token -> sub_total s + Z.max 0 m < two63 ->
  pfacts s (transfer_to_exec s f t m)
    (fun cm cs => (cm (norm t) - cm (norm f)) * m + cs t * m).
Proof.
  intros s f t m Hs Hm Hd. unfold transfer_to_exec.
  pose proof (transfer_facts s f t m Hs Hm) as F.
  destruct (transfer s f t m) as [s1 r1] eqn:T.
  pose proof (pfacts_res _ _ _ _ F) as Hnp.
  destruct r1; try (apply pfacts_fail; [discriminate|exact Hnp]); try contradiction.
  destruct (transfer_ok_inv _ _ _ _ _ T) as [C E].
  destruct (pfacts_ok_totals _ _ _ F) as (L1 & M1 & S1). simpl in M1, S1.
  pose proof (exec_deposit_succeeds s1 f t m E C) as Hok.
  assert (sub_total s1 + Z.max 0 m < two63) as Hd1 by (unfold c0 in S1; lia).
  pose proof (exec_deposit_facts s1 f t m L1 Hd1) as F2.
  destruct (exec_deposit s1 f t m) as [s2 r2]. simpl in Hok. subst r2.
  eapply pfacts_seq; [exact F|exact F2|]. intros; simpl; ring.
Qed.

Lemma check_transfer_cases : forall s a m,
  check_transfer s a m = EAmount \/ check_transfer s a m = ENoBalance \/
  (check_transfer s a m = ROk /\ check_amount m = true /\
   (wrap64 (a_bal (load_main s a) - m) <? 0) = false).
Proof.
  intros s a m. unfold check_transfer.
  destruct (check_amount m); simpl; [|left; reflexivity].
  destruct (wrap64 (a_bal (load_main s a) - m) <? 0); [right; left; reflexivity|].
  right; right. repeat split; reflexivity.
Qed.

Lemma transfer_withdraw_facts : forall s f t m,
  ledger_ok s = true -> main_total s <= max_token -> sub_total s < two63 ->
  norm_distinct f t = true ->
  pfacts s (transfer_withdraw s f t m)
    (fun cm cs => (cm (norm f) - cm (norm t)) * m - cs t * m).
Proof.
  intros s f t m Hs Hm Hd G. unfold transfer_withdraw.
  destruct (check_transfer_cases s t m) as [CT|[CT|(CT & C & B)]]; rewrite CT;
    try (apply pfacts_fail; discriminate).
  pose proof (exec_withdraw_facts s t f m Hs Hd) as F.
  destruct (exec_withdraw s t f m) as [s1 r1] eqn:W.
  pose proof (pfacts_res _ _ _ _ F) as Hnp.
  destruct r1; try (apply pfacts_fail; [discriminate|exact Hnp]); try contradiction.
  destruct (exec_withdraw_ok_inv _ _ _ _ _ W) as (E & _ & Hs1).
  destruct (pfacts_ok_totals _ _ _ F) as (L1 & M1 & S1). simpl in M1, S1.
  pose proof (norm_distinct_neq f t G E) as Hne.
  assert (main_total s1 <= max_token) as Hm1 by (unfold c0 in M1; lia).
  assert (m <= a_bal (load_main s1 t)) as Hb.
  { rewrite Hs1, load_main_save_sub.
    destruct (load_main_ok s t Hs) as (_ & Hbt & Hft).
    pose proof (load_main_le s t Hs) as Hle. unfold val in Hle.
    pose proof (check_amount_inv m C). pose proof max_token_lt.
    assert (max_amount < two63) by (unfold max_amount, two63; lia).
    rewrite wrap64_id in B by (unfold two63 in *; lia).
    apply Z.ltb_ge in B. lia. }
  assert (norm t <> norm f) as Hne' by congruence.
  pose proof (transfer_succeeds s1 t f m L1 Hm1 C Hne' Hb) as Hok.
  pose proof (transfer_facts s1 t f m L1 Hm1) as F2.
  destruct (transfer s1 t f m) as [s2 r2]. simpl in Hok. subst r2.
  eapply pfacts_seq; [exact F|exact F2|]. intros; simpl; ring.
Qed.

Lemma exec_issue_facts : forall miners s x m,
  ledger_ok s = true -> main_total s <= max_token ->
  pfacts s (exec_issue miners s x m) (fun cm _ => cm (norm x) * m).
Proof.
  intros miners s x m Hs Hm. unfold exec_issue.
  destruct (existsb (bytes_eqb x) miners); [|pf_fail].
  apply deposit_balance_facts; assumption.
Qed.

Lemma exec_issue_ok_inv : forall miners s x m s',
  exec_issue miners s x m = (s', ROk) -> check_amount m = true.
Proof.
  intros miners s x m s' H. unfold exec_issue in H.
  destruct (existsb (bytes_eqb x) miners); [|discriminate].
  eapply deposit_balance_ok_inv. exact H.
Qed.

Lemma exec_deposit_frozen_facts : forall miners s a x m,
  ledger_ok s = true -> main_total s <= max_token -> sub_total s + Z.max 0 m < two63 ->
  pfacts s (exec_deposit_frozen miners s a x m) (fun cm cs => cm (norm x) * m + cs x * m).
Proof.
  intros miners s a x m Hs Hm Hd. unfold exec_deposit_frozen.
  destruct (bytes_eqb a x) eqn:E; [pf_fail|].
  pose proof (exec_issue_facts miners s x m Hs Hm) as F.
  destruct (exec_issue miners s x m) as [s1 r1] eqn:I.
  pose proof (pfacts_res _ _ _ _ F) as Hnp.
  destruct r1; try (apply pfacts_fail; [discriminate|exact Hnp]); try contradiction.
  pose proof (exec_issue_ok_inv _ _ _ _ _ I) as C.
  destruct (pfacts_ok_totals _ _ _ F) as (L1 & M1 & S1). simpl in M1, S1.
  assert (sub_total s1 + Z.max 0 m < two63) as Hd1 by (unfold c0 in S1; lia).
  pose proof (exec_deposit_frozen_inner_succeeds s1 a x m E C) as Hok.
  pose proof (exec_deposit_frozen_inner_facts s1 a x m L1 Hd1) as F2.
  destruct (exec_deposit_frozen_inner s1 a x m) as [s2 r2]. simpl in Hok. subst r2.
  eapply pfacts_seq; [exact F|exact F2|]. intros; simpl; ring.
Qed.

Lemma genesis_init_exec_facts : forall s a m x,
  ledger_ok s = true -> main_total s <= max_token -> sub_total s + Z.max 0 m < two63 ->
  check_amount m = true -> bytes_eqb a x = false ->
  pfacts s (genesis_init_exec s a m x) (fun cm cs => cm (norm x) * m + cs x * m).
Proof.
  intros s a m x Hs Hm Hd C E. unfold genesis_init_exec.
  pose proof (check_amount_inv m C) as Cm.
  assert (0 <= m < two63) as Hr by (unfold max_amount, two63 in *; lia).
  pose proof (genesis_init_facts s x m Hs Hm Hr) as F.
  destruct (genesis_init s x m) as [s1 r1] eqn:I.
  pose proof (pfacts_res _ _ _ _ F) as Hnp.
  destruct r1; try (apply pfacts_fail; [discriminate|exact Hnp]); try contradiction.
  destruct (pfacts_ok_totals _ _ _ F) as (L1 & M1 & S1). simpl in M1, S1.
  assert (sub_total s1 + Z.max 0 m < two63) as Hd1 by (unfold c0 in S1; lia).
  pose proof (exec_deposit_succeeds s1 a x m E C) as Hok.
  pose proof (exec_deposit_facts s1 a x m L1 Hd1) as F2.
  destruct (exec_deposit s1 a x m) as [s2 r2]. simpl in Hok. subst r2.
  eapply pfacts_seq; [exact F|exact F2|]. intros; simpl; ring.
Qed.

(** ** one step *)

Lemma step_facts : forall miners s o,
  ledger_ok s = true -> main_total s + mint_budget o <= max_token ->
  sub_total s + dep_budget o < two63 -> op_guard o = true ->
  pfacts s (step miners s o) (fun cm cs => gdelta cm cs o).
Proof.
  intros miners s o Hs Hm Hd G.
  destruct o; simpl in *.
  - eapply pfacts_ext; [apply transfer_facts; [assumption|lia]|]. reflexivity.
  - eapply pfacts_ext; [apply transfer_to_exec_facts; [assumption|lia|lia]|]. reflexivity.
  - eapply pfacts_ext; [apply transfer_withdraw_facts; [assumption|lia|lia|assumption]|]. reflexivity.
  - eapply pfacts_ext; [apply exec_frozen_facts; [assumption|lia]|]. reflexivity.
  - eapply pfacts_ext; [apply exec_active_facts; [assumption|lia]|]. reflexivity.
  - eapply pfacts_ext; [apply exec_transfer_facts; [assumption|lia|assumption]|]. reflexivity.
  - eapply pfacts_ext; [apply exec_transfer_frozen_facts; [assumption|lia|assumption]|]. reflexivity.
  - eapply pfacts_ext; [apply exec_deposit_facts; [assumption|lia]|]. reflexivity.
  - eapply pfacts_ext; [apply exec_withdraw_facts; [assumption|lia]|]. reflexivity.
  - eapply pfacts_ext; [apply exec_deposit_frozen_facts; [assumption|lia|lia]|]. reflexivity.
  - eapply pfacts_ext; [apply exec_issue_facts; [assumption|lia]|]. reflexivity.
  - eapply pfacts_ext; [apply deposit_balance_facts; [assumption|lia]|]. reflexivity.
  - eapply pfacts_ext; [apply burn_facts; [assumption|lia]|]. reflexivity.
  - apply andb_true_iff in G as [G1 G2]. apply Z.leb_le in G1. apply Z.ltb_lt in G2.
    eapply pfacts_ext; [apply genesis_init_facts; [assumption|lia|lia]|]. reflexivity.
  - apply andb_true_iff in G as [G1 G2]. apply negb_true_iff in G2.
    eapply pfacts_ext; [apply genesis_init_exec_facts; [assumption|lia|lia|assumption|assumption]|].
    reflexivity.
Qed.

(** successful withdrawals/burns have a positive amount *)
Lemma step_ok_pos : forall miners s o s',
  step miners s o = (s', ROk) ->
  match o with
  | OBurn _ m | OTransferWithdraw _ _ m | OExecWithdraw _ _ m => 0 < m
  | _ => True
  end.
Proof.
  intros miners s o s' H. destruct o; try exact I; simpl in H.
  - unfold transfer_withdraw in H.
    destruct (check_transfer_cases s to amt) as [CT|[CT|(CT & C & _)]]; rewrite CT in H;
      try discriminate.
    apply check_amount_inv in C. lia.
  - apply exec_withdraw_ok_inv in H. destruct H as (_ & C & _).
    apply check_amount_inv in C. lia.
  - unfold burn in H. destruct (check_amount amt) eqn:C; simpl in H; [|discriminate].
    apply check_amount_inv in C. lia.
Qed.

Lemma gdelta_main : forall o, gdelta c1 c0 o = main_delta o.
Proof. intro o. destruct o; cbn [gdelta main_delta]; unfold c0, c1; ring. Qed.

Lemma gdelta_sub : forall o, gdelta c0 c1 o = sub_delta o.
Proof. intro o. destruct o; cbn [gdelta sub_delta]; unfold c0, c1; ring. Qed.

(** ** histories *)

(** [P] holds at every step of the history (state before, op, state after, result) *)
Fixpoint all_steps (P : ledger -> op -> ledger -> res -> Prop)
  (miners : list bytes) (s : ledger) (ops : list op) : Prop :=
  match ops with
  | [] => True
  | o :: tl => let (s', r) := step miners s o in P s o s' r /\ all_steps P miners s' tl
  end.

Definition good_step (s : ledger) (o : op) (s' : ledger) (r : res) : Prop :=
  r <> RPanic /\ (r <> ROk -> s' = s) /\
  ledger_ok s' = true /\ main_total s' <= max_token /\ sub_total s' < two63.

Lemma run_cons : forall miners s o tl,
  run miners s (o :: tl) = run miners (fst (step miners s o)) tl.
Proof. reflexivity. Qed.

Lemma zsum_nonneg_mint : forall ops, 0 <= zsum mint_budget ops.
Proof. induction ops as [|o tl IH]; simpl; [lia|]. destruct o; simpl; lia. Qed.

Lemma zsum_nonneg_dep : forall ops, 0 <= zsum dep_budget ops.
Proof. induction ops as [|o tl IH]; simpl; [lia|]. destruct o; simpl; lia. Qed.

Theorem history_invariants : forall miners ops s,
  ledger_ok s = true -> hist_guard s ops = true ->
  ledger_ok (run miners s ops) = true /\
  (forall cm cf cs,
     wsum (lw cm cf cs) (run miners s ops)
     = wsum (lw cm cf cs) s + deltas miners (gdelta cm cs) s ops) /\
  all_steps good_step miners s ops.
Proof.
  intros miners ops. induction ops as [|o tl IH]; intros s Hs G.
  - simpl. split; [exact Hs|]. split; [intros; lia|exact I].
  - unfold hist_guard in G. apply andb_true_iff in G as [G1 G2].
    simpl in G1. apply andb_true_iff in G1 as [Go Gtl].
    unfold headroom in G2. apply andb_true_iff in G2 as [Gm Gd].
    apply Z.leb_le in Gm. apply Z.ltb_lt in Gd. simpl in Gm, Gd.
    pose proof (zsum_nonneg_mint tl) as Zm. pose proof (zsum_nonneg_dep tl) as Zd.
    assert (main_total s + mint_budget o <= max_token) as Hm by lia.
    assert (sub_total s + dep_budget o < two63) as Hd by lia.
    pose proof (step_facts miners s o Hs Hm Hd Go) as F.
    rewrite run_cons. simpl deltas. simpl all_steps.
    pose proof (step_ok_pos miners s o) as Hpos.
    destruct (step miners s o) as [s' r] eqn:St.
    destruct F as (Ff & Fp & Fo). simpl in Ff, Fp, Fo. simpl fst.
    assert (ledger_ok s' = true /\ main_total s' <= main_total s + mint_budget o /\
            sub_total s' <= sub_total s + dep_budget o /\
            forall cm cf cs, wsum (lw cm cf cs) s'
              = wsum (lw cm cf cs) s + match r with ROk => gdelta cm cs o | _ => 0 end) as (L' & M' & S' & W').
    { destruct r; try (rewrite Ff by discriminate;
        repeat split; try assumption; try (intros; lia);
        destruct o; simpl; lia).
      destruct (Fo eq_refl) as [L W]. specialize (Hpos s' eq_refl).
      split; [exact L|].
      pose proof (W c1 c1 c0) as Wm. pose proof (W c0 c0 c1) as Ws.
      rewrite gdelta_main in Wm. rewrite gdelta_sub in Ws.
      fold (main_total s') (main_total s) in Wm. fold (sub_total s') (sub_total s) in Ws.
      split; [|split; [|exact W]].
      - rewrite Wm. destruct o; simpl in *; lia.
      - rewrite Ws. destruct o; simpl in *; lia. }
    assert (hist_guard s' tl = true) as G'.
    { unfold hist_guard, headroom. rewrite Gtl. simpl.
      apply andb_true_iff. split; [apply Z.leb_le|apply Z.ltb_lt]; lia. }
    destruct (IH s' L' G') as (IL & IW & IA).
    split; [exact IL|]. split.
    + intros cm cf cs. rewrite IW, W'. ring.
    + split; [|exact IA]. unfold good_step.
      split; [exact Fp|]. split; [exact Ff|]. split; [exact L'|]. split; lia.
Qed.

(** deltas of a table that is zero on every operation of the history *)
Lemma deltas_zero : forall miners f ops s,
  forallb (fun o => f o =? 0) ops = true -> deltas miners f s ops = 0.
Proof.
  intros miners f ops. induction ops as [|o tl IH]; intros s H; simpl; [reflexivity|].
  simpl in H. apply andb_true_iff in H as [H1 H2]. apply Z.eqb_eq in H1.
  destruct (step miners s o) as [s' r]. rewrite (IH s' H2). destruct r; lia.
Qed.

(** ** a returned error changes nothing (no precondition at all) *)

Lemma prim_error_same : forall (p : ledger * res) s,
  (snd p = ROk \/ fst p = s) -> is_error (snd p) = true -> fst p = s.
Proof. intros [s' r] s [H|H] E; simpl in *; [subst r; discriminate|exact H]. Qed.

Ltac err_branches :=
  repeat match goal with
  | |- context [if ?c then _ else _] => destruct c
  | |- context [match ?x with Some _ => _ | None => _ end] => destruct x
  end; simpl; auto.

Lemma transfer_err : forall s f t m, snd (transfer s f t m) = ROk \/ fst (transfer s f t m) = s.
Proof. intros. unfold transfer. err_branches. Qed.
Lemma deposit_balance_err : forall s x m,
  snd (deposit_balance s x m) = ROk \/ fst (deposit_balance s x m) = s.
Proof. intros. unfold deposit_balance. err_branches. Qed.
Lemma burn_err : forall s x m, snd (burn s x m) = ROk \/ fst (burn s x m) = s.
Proof. intros. unfold burn. err_branches. Qed.
Lemma exec_frozen_err : forall s a x m,
  snd (exec_frozen s a x m) = ROk \/ fst (exec_frozen s a x m) = s.
Proof. intros. unfold exec_frozen. err_branches. Qed.
Lemma exec_active_err : forall s a x m,
  snd (exec_active s a x m) = ROk \/ fst (exec_active s a x m) = s.
Proof. intros. unfold exec_active. err_branches. Qed.
Lemma exec_transfer_err : forall s f t x m,
  snd (exec_transfer s f t x m) = ROk \/ fst (exec_transfer s f t x m) = s.
Proof. intros. unfold exec_transfer. err_branches. Qed.
Lemma exec_transfer_frozen_err : forall s f t x m,
  snd (exec_transfer_frozen s f t x m) = ROk \/ fst (exec_transfer_frozen s f t x m) = s.
Proof. intros. unfold exec_transfer_frozen. err_branches. Qed.
Lemma exec_deposit_err : forall s a x m,
  snd (exec_deposit s a x m) = ROk \/ fst (exec_deposit s a x m) = s.
Proof. intros. unfold exec_deposit. err_branches. Qed.
Lemma exec_withdraw_err : forall s x a m,
  snd (exec_withdraw s x a m) = ROk \/ fst (exec_withdraw s x a m) = s.
Proof. intros. unfold exec_withdraw. err_branches. Qed.
Lemma genesis_init_err : forall s a m,
  snd (genesis_init s a m) = ROk \/ fst (genesis_init s a m) = s.
Proof. intros. unfold genesis_init. err_branches. Qed.
Lemma exec_issue_err : forall miners s x m,
  snd (exec_issue miners s x m) = ROk \/ fst (exec_issue miners s x m) = s.
Proof.
  intros. unfold exec_issue. destruct (existsb (bytes_eqb x) miners); simpl; auto.
  apply deposit_balance_err.
Qed.

Theorem error_changes_nothing : forall miners s o,
  is_error (snd (step miners s o)) = true -> fst (step miners s o) = s.
Proof.
  intros miners s o. destruct o; simpl.
  - apply prim_error_same, transfer_err.
  - unfold transfer_to_exec. destruct (transfer s from to amt) as [s1 r1].
    destruct r1; simpl; try reflexivity; try discriminate.
    destruct (exec_deposit s1 from to amt) as [s2 r2]. destruct r2; simpl; intro HH; discriminate HH.
  - unfold transfer_withdraw.
    destruct (check_transfer s to amt); simpl; try reflexivity; try discriminate.
    destruct (exec_withdraw s to from amt) as [s1 r1].
    destruct r1; simpl; try reflexivity; try discriminate.
    destruct (transfer s1 to from amt) as [s2 r2]. destruct r2; simpl; intro HH; discriminate HH.
  - apply prim_error_same, exec_frozen_err.
  - apply prim_error_same, exec_active_err.
  - apply prim_error_same, exec_transfer_err.
  - apply prim_error_same, exec_transfer_frozen_err.
  - apply prim_error_same, exec_deposit_err.
  - apply prim_error_same, exec_withdraw_err.
  - unfold exec_deposit_frozen. destruct (bytes_eqb a x) eqn:E; simpl; [reflexivity|].
    destruct (exec_issue miners s x amt) as [s1 r1] eqn:I.
    destruct r1; simpl; try reflexivity; try discriminate.
    pose proof (exec_issue_ok_inv _ _ _ _ _ I) as C.
    pose proof (exec_deposit_frozen_inner_succeeds s1 a x amt E C) as Hok.
    destruct (exec_deposit_frozen_inner s1 a x amt) as [s2 r2]. simpl in Hok. subst r2.
    simpl. discriminate.
  - apply prim_error_same, exec_issue_err.
  - apply prim_error_same, deposit_balance_err.
  - apply prim_error_same, burn_err.
  - apply prim_error_same, genesis_init_err.
  - unfold genesis_init_exec. destruct (genesis_init s x amt) as [s1 r1].
    destruct r1; simpl; try reflexivity; try discriminate.
    destruct (exec_deposit s1 a x amt) as [s2 r2]. destruct r2; simpl; intro HH; discriminate HH.
Qed.
