(** C15 — receipts of account.DB operations (account/account.go, execaccount.go,
    genesis.go) AS THEY ARE: every successful call returns a [types.Receipt]
    with Ty = ExecOk, the KV writes (key, encoded Account) in call order and
    one log per write (log type, ExecAddr for executor logs, Prev = clone of
    the loaded record, Current = the record that was saved).

    The receipt of an operation is a function of the state the operation ran
    in; composite operations merge the receipts of their parts (the second
    part runs in the state left by the first). *)
From Coq Require Import List ZArith NArith Bool.
From C33 Require Import Lib.Harness C15.Model.
Import ListNotations.
Open Scope Z_scope.

(** types/const.go *)
Definition ty_exec_ok : Z := 2.
Definition ty_transfer : Z := 3.
Definition ty_deposit : Z := 5.
Definition ty_exec_transfer : Z := 6.
Definition ty_exec_withdraw : Z := 7.
Definition ty_exec_deposit : Z := 8.
Definition ty_exec_frozen : Z := 9.
Definition ty_exec_active : Z := 10.
Definition ty_genesis_transfer : Z := 11.
Definition ty_genesis_deposit : Z := 12.   (* never reaches a receipt, see genesis_init_exec *)
Definition ty_mint : Z := 14.
Definition ty_burn : Z := 15.

(** one log: ReceiptAccountTransfer / ReceiptAccountMint / ReceiptAccountBurn
    ([l_exec] = None) or ReceiptExecAccountTransfer ([l_exec] = Some ExecAddr) *)
Record rlog := mkLog { l_ty : Z; l_exec : option bytes; l_prev : acct; l_cur : acct }.

Record receipt := mkRcpt { r_ty : Z; r_kv : list (key * acct); r_logs : list rlog }.

(* GetKVSet / GetExecKVSet: the key comes from the address stored in the record *)
Definition kv_main (r : acct) : key * acct := (MainK (norm (a_addr r)), r).
Definition kv_sub (x : bytes) (r : acct) : key * acct := (SubK x (norm (a_addr r)), r).

Definition rc1 (kv : key * acct) (l : rlog) : receipt := mkRcpt ty_exec_ok [kv] [l].

(* mergeReceipt keeps the Ty of the first receipt *)
Definition rc_merge (a b : receipt) : receipt :=
  mkRcpt (r_ty a) (r_kv a ++ r_kv b) (r_logs a ++ r_logs b).

(** ** account.go *)

(* Transfer: [nb] is the receiver balance computed by safeAdd *)
Definition rc_transfer (s : ledger) (from to : bytes) (amt : Z) : receipt :=
  let rf := load_main s from in
  let rt := load_main s to in
  let rf' := set_bal rf (wrap64 (a_bal rf - amt)) in
  let rt' := set_bal rt (match safe_add (a_bal rt) amt with Some nb => nb | None => a_bal rt end) in
  mkRcpt ty_exec_ok [kv_main rf'; kv_main rt']
         [mkLog ty_transfer None rf rf'; mkLog ty_transfer None rt rt'].

(* a single main-account write with a new balance *)
Definition rc_main (ty : Z) (s : ledger) (a : bytes) (nb : Z) : receipt :=
  let r := load_main s a in
  let r' := set_bal r nb in
  rc1 (kv_main r') (mkLog ty None r r').

Definition added (b amt : Z) : Z := match safe_add b amt with Some nb => nb | None => b end.

Definition rc_deposit_balance (s : ledger) (x : bytes) (amt : Z) : receipt :=
  rc_main ty_deposit s x (added (a_bal (load_main s x)) amt).

Definition rc_mint (s : ledger) (a : bytes) (amt : Z) : receipt :=
  rc_main ty_mint s a (added (a_bal (load_main s a)) amt).

Definition rc_burn (s : ledger) (a : bytes) (amt : Z) : receipt :=
  rc_main ty_burn s a (wrap64 (a_bal (load_main s a) - amt)).

Definition rc_genesis_init (s : ledger) (a : bytes) (amt : Z) : receipt :=
  rc_main ty_genesis_transfer s a (added (a_bal (load_main s a)) amt).

(** ** execaccount.go *)

(* one sub-account write *)
Definition rc_sub (ty : Z) (s : ledger) (a x : bytes) (nb nf : Z) : receipt :=
  let r := load_sub s a x in
  let r' := set_bf r nb nf in
  rc1 (kv_sub x r') (mkLog ty (Some x) r r').

Definition rc_exec_frozen (s : ledger) (a x : bytes) (amt : Z) : receipt :=
  let r := load_sub s a x in
  rc_sub ty_exec_frozen s a x (wrap64 (a_bal r - amt)) (wrap64 (a_frz r + amt)).

Definition rc_exec_active (s : ledger) (a x : bytes) (amt : Z) : receipt :=
  let r := load_sub s a x in
  rc_sub ty_exec_active s a x (wrap64 (a_bal r + amt)) (wrap64 (a_frz r - amt)).

Definition rc_exec_deposit (s : ledger) (a x : bytes) (amt : Z) : receipt :=
  let r := load_sub s a x in
  rc_sub ty_exec_deposit s a x (wrap64 (a_bal r + amt)) (a_frz r).

Definition rc_exec_deposit_frozen_inner (s : ledger) (a x : bytes) (amt : Z) : receipt :=
  let r := load_sub s a x in
  rc_sub ty_exec_deposit s a x (a_bal r) (wrap64 (a_frz r + amt)).

Definition rc_exec_withdraw (s : ledger) (x a : bytes) (amt : Z) : receipt :=
  let r := load_sub s a x in
  rc_sub ty_exec_withdraw s a x (wrap64 (a_bal r - amt)) (a_frz r).

(* execReceipt2: both records were loaded before either was saved *)
Definition rc_exec2 (x : bytes) (rf rf' rt rt' : acct) : receipt :=
  mkRcpt ty_exec_ok [kv_sub x rf'; kv_sub x rt']
         [mkLog ty_exec_transfer (Some x) rf rf'; mkLog ty_exec_transfer (Some x) rt rt'].

Definition rc_exec_transfer (s : ledger) (from to x : bytes) (amt : Z) : receipt :=
  let rf := load_sub s from x in
  let rt := load_sub s to x in
  rc_exec2 x rf (set_bal rf (wrap64 (a_bal rf - amt))) rt (set_bal rt (wrap64 (a_bal rt + amt))).

Definition rc_exec_transfer_frozen (s : ledger) (from to x : bytes) (amt : Z) : receipt :=
  let rf := load_sub s from x in
  let rt := load_sub s to x in
  rc_exec2 x rf (set_bf rf (a_bal rf) (wrap64 (a_frz rf - amt))) rt
           (set_bal rt (wrap64 (a_bal rt + amt))).

(** ** composites: the second receipt is computed in the state after the first part *)

Definition rc_transfer_to_exec (s : ledger) (from to : bytes) (amt : Z) : receipt :=
  rc_merge (rc_transfer s from to amt)
           (rc_exec_deposit (fst (transfer s from to amt)) from to amt).

Definition rc_transfer_withdraw (s : ledger) (from to : bytes) (amt : Z) : receipt :=
  rc_merge (rc_exec_withdraw s to from amt)
           (rc_transfer (fst (exec_withdraw s to from amt)) to from amt).

Definition rc_exec_deposit_frozen (miners : list bytes) (s : ledger) (a x : bytes) (amt : Z)
  : receipt :=
  rc_merge (rc_deposit_balance s x amt)
           (rc_exec_deposit_frozen_inner (fst (exec_issue miners s x amt)) a x amt).

(* GenesisInitExec sets receipt2.Ty := TyLogGenesisDeposit and then merges:
   mergeReceipt keeps the first receipt's Ty and the LOG of the deposit keeps
   TyLogExecDeposit, so the assignment has no effect on the result *)
Definition rc_genesis_init_exec (s : ledger) (a : bytes) (amt : Z) (x : bytes) : receipt :=
  rc_merge (rc_genesis_init s x amt)
           (rc_exec_deposit (fst (genesis_init s x amt)) a x amt).

Definition receipt_of (miners : list bytes) (s : ledger) (o : op) : receipt :=
  match o with
  | OTransfer f t m => rc_transfer s f t m
  | OTransferToExec f t m => rc_transfer_to_exec s f t m
  | OTransferWithdraw f t m => rc_transfer_withdraw s f t m
  | OExecFrozen a x m => rc_exec_frozen s a x m
  | OExecActive a x m => rc_exec_active s a x m
  | OExecTransfer f t x m => rc_exec_transfer s f t x m
  | OExecTransferFrozen f t x m => rc_exec_transfer_frozen s f t x m
  | OExecDeposit a x m => rc_exec_deposit s a x m
  | OExecWithdraw x a m => rc_exec_withdraw s x a m
  | OExecDepositFrozen a x m => rc_exec_deposit_frozen miners s a x m
  | OExecIssueCoins x m => rc_deposit_balance s x m
  | OMint a m => rc_mint s a m
  | OBurn a m => rc_burn s a m
  | OGenesisInit a m => rc_genesis_init s a m
  | OGenesisInitExec a m x => rc_genesis_init_exec s a m x
  end.

(** the call as the caller sees it: new state, result, receipt (nil receipt on
    every error and on a panic) *)
Definition step_r (miners : list bytes) (s : ledger) (o : op) : ledger * res * option receipt :=
  let (s', r) := step miners s o in
  (s', r, match r with ROk => Some (receipt_of miners s o) | _ => None end).

(** ** what a receipt means for the ledger *)

(* the writes of a receipt applied in order (what the chain does with them) *)
Definition apply_kv (kv : list (key * acct)) (s : ledger) : ledger :=
  fold_left (fun s e => put (fst e) (snd e) s) kv s.

(* LoadAccount / LoadExecAccount by storage key; a missing record reads as an
   empty account (the spelling is supplied by the reader) *)
Definition load_key (s : ledger) (k : key) (dflt : bytes) : acct :=
  match get k s with Some r => r | None => mkAcct dflt 0 0 end.

(* the storage key a log speaks about *)
Definition log_key (l : rlog) : key :=
  match l_exec l with
  | None => MainK (norm (a_addr (l_cur l)))
  | Some x => SubK x (norm (a_addr (l_cur l)))
  end.

Definition acct_eqb (a b : acct) : bool :=
  bytes_eqb (a_addr a) (a_addr b) && (a_bal a =? a_bal b) && (a_frz a =? a_frz b).

Definition key_in (k : key) (kv : list (key * acct)) : bool :=
  existsb (fun e => key_eqb k (fst e)) kv.

(* no storage key is written twice *)
Fixpoint keys_distinct (ks : list key) : bool :=
  match ks with
  | [] => true
  | k :: tl => negb (existsb (key_eqb k) tl) && keys_distinct tl
  end.

(* the operations whose receipt can write one key twice: executor-internal
   transfers between two spellings of one account (finding 1) *)
Definition rcpt_guard (o : op) : bool :=
  match o with
  | OExecTransfer f t _ _ | OExecTransferFrozen f t _ _ =>
      bytes_eqb f t || negb (bytes_eqb (norm f) (norm t))
  | _ => true
  end.
