(** C15 — when a receipt writes every key once (so that each log's Current is
    the account after the operation), and the refutation of the unguarded
    statement (finding 1). *)
From Coq Require Import List ZArith NArith Bool Lia.
From C33 Require Import Lib.Harness C15.Model C15.Spec C15.ModelReceipt C15.ProofsBase
  C15.ProofsOps C15.ProofsReceipt C15.ProofsReceipt2 C15.Proofs C15.ProofsRefute.
Import ListNotations.
Open Scope Z_scope.

Lemma main_key_neq : forall a b, a <> b -> bytes_eqb a b = false.
Proof. intros a b H. apply bytes_eqb_neq. exact H. Qed.

Lemma sub_key_neq : forall (x a b : bytes), a <> b -> bytes_eqb x x && bytes_eqb a b = false.
Proof. intros x a b H. rewrite (main_key_neq _ _ H). apply andb_false_r. Qed.

Lemma transfer_ok_keys : forall s f t m s', keys_ok s = true ->
  transfer s f t m = (s', ROk) -> norm f <> norm t.
Proof.
  intros s f t m s' Hs H. unfold transfer in H.
  destruct (check_amount m) eqn:C; simpl in H; [|discriminate].
  destruct (bytes_eqb (a_addr (load_main s f)) (a_addr (load_main s t))) eqn:E; [discriminate|].
  destruct (0 <=? wrap64 (a_bal (load_main s f) - m)) eqn:B; [|discriminate].
  apply check_amount_inv in C. eapply transfer_keys_differ; eassumption.
Qed.

Ltac kd_norm Hs :=
  cbn [r_kv rc_transfer rc_main rc_sub rc1 rc_merge rc_exec2 app map fst kv_main kv_sub
       set_bal set_bf a_addr keys_distinct existsb key_eqb orb negb andb];
  repeat rewrite (load_main_norm _ _ Hs); repeat rewrite (load_sub_norm _ _ _ Hs).

Lemma kd_transfer : forall s f t m, keys_ok s = true -> norm f <> norm t ->
  keys_distinct (map fst (r_kv (rc_transfer s f t m))) = true.
Proof.
  intros s f t m Hs Hne. unfold rc_transfer. kd_norm Hs.
  rewrite (main_key_neq _ _ Hne). reflexivity.
Qed.

Theorem receipt_keys_distinct : forall miners s o s',
  keys_ok s = true -> step miners s o = (s', ROk) -> rcpt_guard o = true ->
  keys_distinct (map fst (r_kv (receipt_of miners s o))) = true.
Proof.
  intros miners s o s' Hs H G. destruct o; cbn [step receipt_of rcpt_guard] in *;
    try reflexivity.
  - (* Transfer *)
    apply kd_transfer; [exact Hs|]. eapply transfer_ok_keys; eassumption.
  - (* TransferToExec *)
    unfold transfer_to_exec in H. destruct (transfer s from to amt) as [s1 r1] eqn:T.
    destruct r1; try discriminate.
    pose proof (transfer_ok_keys _ _ _ _ _ Hs T) as Hne.
    unfold rc_transfer_to_exec, rc_transfer, rc_exec_deposit. kd_norm Hs.
    rewrite (main_key_neq _ _ Hne). reflexivity.
  - (* TransferWithdraw *)
    unfold transfer_withdraw in H. unfold rc_transfer_withdraw.
    destruct (check_transfer s to amt); try discriminate.
    pose proof (keys_ok_exec_withdraw s to from amt Hs) as K1.
    destruct (exec_withdraw s to from amt) as [s1 r1] eqn:W. simpl in K1.
    destruct r1; try discriminate.
    destruct (transfer s1 to from amt) as [s2 r2] eqn:T. destruct r2; try discriminate.
    pose proof (transfer_ok_keys _ _ _ _ _ K1 T) as Hne.
    unfold rc_transfer, rc_exec_withdraw. cbn [fst].
    kd_norm K1. rewrite (main_key_neq _ _ Hne). reflexivity.
  - (* ExecTransfer *)
    unfold exec_transfer in H. destruct (bytes_eqb from to) eqn:E; [discriminate|].
    simpl in G. apply negb_true_iff in G. apply bytes_eqb_neq in G.
    unfold rc_exec_transfer. kd_norm Hs. rewrite (sub_key_neq _ _ _ G). reflexivity.
  - (* ExecTransferFrozen *)
    unfold exec_transfer_frozen in H. destruct (bytes_eqb from to) eqn:E; [discriminate|].
    simpl in G. apply negb_true_iff in G. apply bytes_eqb_neq in G.
    unfold rc_exec_transfer_frozen. kd_norm Hs. rewrite (sub_key_neq _ _ _ G). reflexivity.
Qed.

Theorem receipt_logs_after_partial : forall miners s o s',
  keys_ok s = true -> step miners s o = (s', ROk) -> rcpt_guard o = true ->
  logs_after s' (receipt_of miners s o).
Proof.
  intros miners s o s' Hs H G.
  destruct (receipt_matches_state miners s o s' Hs H) as (_ & _ & _ & _ & Ha).
  apply Ha. eapply receipt_keys_distinct; eassumption.
Qed.

Lemma receipt_logs_after_guarded : forall miners s o s',
  keys_ok s = true -> step miners s o = (s', ROk) -> rcpt_guard o = true ->
  keys_distinct (map fst (r_kv (receipt_of miners s o))) = true /\
  logs_after s' (receipt_of miners s o).
Proof.
  intros miners s o s' Hs H G. split.
  - exact (receipt_keys_distinct miners s o s' Hs H G).
  - exact (receipt_logs_after_partial miners s o s' Hs H G).
Qed.

(** the guard of the ledger theorems implies the receipt guard *)
Lemma op_guard_rcpt_guard : forall o, op_guard o = true -> rcpt_guard o = true.
Proof. intros o H. destruct o; try reflexivity; exact H. Qed.

(** unguarded: refuted by the finding-1 witness *)
Definition receipt_logs_after_full : Prop :=
  forall miners s o s', keys_ok s = true -> step miners s o = (s', ROk) ->
  logs_after s' (receipt_of miners s o).

Definition rw_state : ledger := run [] [] [OGenesisInitExec w_lo 1000 w_ex].
Definition rw_op : op := OExecTransfer w_lo w_up w_ex 100.

Example rw_receipt :
  (* the receipt writes the one record twice (900, then 1100) and its first
     log says "current 900" while the ledger holds 1100 *)
  map (fun e => a_bal (snd e)) (r_kv (receipt_of [] rw_state rw_op)) = [900; 1100] /\
  map (fun l => (a_bal (l_prev l), a_bal (l_cur l))) (r_logs (receipt_of [] rw_state rw_op))
    = [(1000, 900); (1000, 1100)] /\
  answer (fst (step [] rw_state rw_op)) (QSub w_lo w_ex) = (1100, 0) /\
  keys_distinct (map fst (r_kv (receipt_of [] rw_state rw_op))) = false /\
  rcpt_guard rw_op = false.
Proof. vm_compute. repeat split; reflexivity. Qed.

Lemma receipt_logs_after_refuted : ~ receipt_logs_after_full.
Proof.
  intro H.
  assert (keys_ok rw_state = true) as K by (vm_compute; reflexivity).
  assert (step [] rw_state rw_op = (fst (step [] rw_state rw_op), ROk)) as S
    by (vm_compute; reflexivity).
  specialize (H [] rw_state rw_op _ K S). unfold logs_after in H.
  assert (exists l, In l (r_logs (receipt_of [] rw_state rw_op)) /\
          get (log_key l) (fst (step [] rw_state rw_op)) <> Some (l_cur l)) as (l & Hl & Hn).
  { eexists. split; [left; reflexivity|]. vm_compute. discriminate. }
  rewrite Forall_forall in H. exact (Hn (H l Hl)).
Qed.

(** non-vacuity: a composite operation on a populated ledger, all parts of the theorem *)
Example receipt_plain :
  let s := run [w_miner] [] [OGenesisInit w_u1 1000; OTransferToExec w_u1 w_miner 300] in
  let o := OTransferWithdraw w_u1 w_miner 120 in
  let rc := receipt_of [w_miner] s o in
  keys_ok s = true /\ snd (step [w_miner] s o) = ROk /\ rcpt_guard o = true /\
  length (r_kv rc) = 3%nat /\ keys_distinct (map fst (r_kv rc)) = true /\
  map l_ty (r_logs rc) = [ty_exec_withdraw; ty_transfer; ty_transfer] /\
  map (fun l => (a_bal (l_prev l), a_bal (l_cur l))) (r_logs rc)
    = [(300, 180); (300, 180); (700, 820)].
Proof. vm_compute. repeat split; reflexivity. Qed.
