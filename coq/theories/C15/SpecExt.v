(** C15 — oracles for the extensions, evaluated on what the IMPLEMENTATION
    returned: receipts, coins transactions, several ledgers on one store. *)
From Coq Require Import List ZArith NArith Bool.
From C33 Require Import Lib.Harness C15.Model C15.Spec C15.ModelReceipt C15.ModelCoins
  C15.ModelFlat.
Import ListNotations.
Open Scope Z_scope.

(** * receipts

    [v] is the ledger as the receipts seen so far describe it (their KV lists
    applied in order to the empty store: what the chain would have stored). *)

Fixpoint aligned (kv : list (key * acct)) (logs : list rlog) : bool :=
  match kv, logs with
  | [], [] => true
  | e :: kt, l :: lt =>
      key_eqb (fst e) (log_key l) && acct_eqb (snd e) (l_cur l) && aligned kt lt
  | _, _ => false
  end.

(* Prev is the record before the call (an absent record reads as zero), Current
   is the record after it, both are one account *)
Definition log_ok (v v' : ledger) (l : rlog) : bool :=
  (match get (log_key l) v with
   | Some a => acct_eqb a (l_prev l)
   | None => (a_bal (l_prev l) =? 0) && (a_frz (l_prev l) =? 0)
   end) &&
  bytes_eqb (norm (a_addr (l_prev l))) (norm (a_addr (l_cur l))) &&
  (match get (log_key l) v' with
   | Some a => acct_eqb a (l_cur l)
   | None => false
   end).

(* [okres]: the call returned nil error *)
Definition rcpt_step (v : ledger) (okres : bool) (rc : option receipt) : ledger * bool :=
  match rc with
  | None => (v, negb okres)
  | Some rc =>
      let v' := apply_kv (r_kv rc) v in
      (v', okres && (r_ty rc =? ty_exec_ok) && aligned (r_kv rc) (r_logs rc)
           && forallb (log_ok v v') (r_logs rc))
  end.

(* the store at the end is what the receipts say; a record without any
   receipt may only be an empty one (left behind by a call that panicked
   after saving an unchanged balance) *)
Definition rv_final (v : ledger) (dump : list (key * acct)) : bool :=
  forallb (fun e => match get (fst e) v with
                    | Some r => acct_eqb r (snd e)
                    | None => (a_bal (snd e) =? 0) && (a_frz (snd e) =? 0)
                    end) dump &&
  forallb (fun e => existsb (fun d => key_eqb (fst d) (fst e) && acct_eqb (snd d) (snd e)) dump) v.

(** * coins transactions *)

Definition explicit_exec (a : cact) : bool :=
  match a with CTransferToExec _ _ _ | CWithdraw _ _ _ => true | _ => false end.

(* supply may only grow by a Genesis action of the genesis block *)
Definition granted (tx : ctx) : Z :=
  match t_act tx with
  | CGenesis _ m => if t_h tx =? 0 then m else 0
  | _ => 0
  end.

Definition val2 (p : Z * Z) : Z := fst p + snd p.

(** one observed transaction: [rb] are the (balance, frozen) pairs read back for
    [tx_touched env tx] after the driver returned [r] *)
Definition coins_obs_step (env : cenv) (v : view) (tx : ctx) (r : cres) (rb : list (Z * Z))
  : view * bool :=
  let qs := map ident_of (tx_touched env tx) in
  if negb (Nat.eqb (length qs) (length rb)) then (v, false) else
  let obs := combine qs rb in
  let v' := fold_left (fun v p => vput (fst p) (snd p) v) obs v in
  let nonneg := forallb (fun p => (0 <=? fst (snd p)) && (0 <=? snd (snd p))) obs in
  let consistent := forallb (fun p => pair_eqb (vget (fst p) v') (snd p)) obs in
  let okres :=
    match r with
    | COk =>
        let to := real_to env tx in
        let holder := match t_act tx with CGenesis ret _ => ret | _ => t_from tx end in
        let im := IMain (norm to) in
        let ih := ISub (norm to) (norm holder) in
        let dm := fst (vget im v') - fst (vget im v) in
        let ds := val2 (vget ih v') - val2 (vget ih v) in
        (* supply changes only by a genesis grant *)
        (vtotal true v' - vtotal true v =? granted tx) &&
        (* only the sender's sub-account under the receiver moves *)
        (vtotal false v' - vtotal false v =? ds) &&
        (* coins sent to / taken from an executor address are mirrored in the
           sub-account; a plain address gets no sub-account *)
        (if is_driver env to (t_h tx) || explicit_exec (t_act tx) then ds =? dm else ds =? 0)
    | _ => forallb (fun p => pair_eqb (vget (fst p) v) (snd p)) obs
    end in
  (v', nonneg && consistent && okres).

(** * several ledgers on one store *)

Fixpoint is_prefix (p b : bytes) : bool :=
  match p, b with
  | [], _ => true
  | c :: pt, d :: bt => (c =? d)%N && is_prefix pt bt
  | _, _ => false
  end.

(* every byte key of the store belongs to exactly one ledger *)
Definition keys_partitioned (lids : list lid) (keys : list bytes) : bool :=
  forallb (fun k => Nat.eqb (length (filter (fun l => is_prefix (lid_prefix l) k) lids)) 1) keys.

Fixpoint nth_view (i : nat) (vs : list view) : view :=
  match vs with [] => [] | v :: tl => match i with O => v | S j => nth_view j tl end end.

Fixpoint set_view (i : nat) (v : view) (vs : list view) : list view :=
  match vs with
  | [] => []
  | w :: tl => match i with O => v :: tl | S j => w :: set_view j v tl end
  end.

(** an operation through ledger [i]: [rbs] = the read-backs of [touched o]
    through EVERY ledger (ledger order).  Ledger [i] must pass the ordinary
    oracle, every other ledger must answer exactly as before. *)
Definition multi_obs_step (vs : list view) (i : nat) (o : op) (r : res)
  (rbs : list (list (Z * Z))) : list view * bool :=
  if negb (Nat.eqb (length rbs) (length vs)) then (vs, false) else
  let qs := map ident_of (touched o) in
  let others :=
    forallb (fun jv =>
      let j := fst jv in
      Nat.eqb j i ||
      (let rb := nth j rbs [] in
       Nat.eqb (length rb) (length qs) &&
       forallb (fun p => pair_eqb (vget (fst p) (snd jv)) (snd p)) (combine qs rb)))
      (combine (seq 0 (length vs)) vs) in
  let (vi', ok) := obs_step (nth_view i vs) o r (nth i rbs []) in
  (set_view i vi' vs, ok && others && (Nat.ltb i (length vs))).
