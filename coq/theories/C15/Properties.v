(** C15 — property theorems only. *)
From Coq Require Import List ZArith Bool.
From C33 Require Import C15.Model C15.Spec C15.Proofs C15.ProofsRefute
  C15.ModelReceipt C15.ModelCoins C15.ModelFlat
  C15.ProofsReceipt C15.ProofsReceipt2 C15.ProofsReceipt3 C15.ProofsCoins C15.ProofsFlat
  C15.ProofsFlatSim C15.ProofsFlatSim2.
Import ListNotations.
Open Scope Z_scope.

Theorem C15_invariants_partial : forall miners s ops,
  ledger_ok s = true -> hist_guard s ops = true ->
  let s' := run miners s ops in
  ledger_ok s' = true /\
  main_total s' = main_total s + deltas miners main_delta s ops /\
  sub_total s' = sub_total s + deltas miners sub_delta s ops /\
  all_steps good_step miners s ops.
Proof. exact invariants_partial. Qed.
Print Assumptions C15_invariants_partial.

Theorem C15_weighted_sums_partial : forall miners s ops cm cf cs,
  ledger_ok s = true -> hist_guard s ops = true ->
  wsum (lw cm cf cs) (run miners s ops)
  = wsum (lw cm cf cs) s + deltas miners (gdelta cm cs) s ops.
Proof. exact weighted_sums_partial. Qed.
Print Assumptions C15_weighted_sums_partial.

Theorem C15_exec_consistency_partial : forall miners e s ops,
  ledger_ok s = true -> hist_guard s ops = true ->
  gap e (run miners s ops) = gap e s + deltas miners (gap_delta e) s ops /\
  (forallb (fun o => gap_delta e o =? 0) ops = true -> gap e (run miners s ops) = gap e s).
Proof. exact exec_consistency_partial. Qed.
Print Assumptions C15_exec_consistency_partial.

Theorem C15_error_changes_nothing : forall miners s o,
  is_error (snd (step miners s o)) = true -> fst (step miners s o) = s.
Proof. exact error_changes_nothing. Qed.
Print Assumptions C15_error_changes_nothing.

Theorem C15_same_account_partial : forall s a a' x,
  norm a = norm a' ->
  answer s (QMain a) = answer s (QMain a') /\ answer s (QSub a x) = answer s (QSub a' x).
Proof. exact same_account_partial. Qed.
Print Assumptions C15_same_account_partial.

Theorem C15_conservation_refuted : ~ conservation_full.
Proof. exact conservation_refuted. Qed.
Print Assumptions C15_conservation_refuted.

Theorem C15_failed_op_atomic_refuted : ~ failed_op_atomic_full.
Proof. exact failed_op_atomic_refuted. Qed.
Print Assumptions C15_failed_op_atomic_refuted.

Theorem C15_nonneg_refuted : ~ nonneg_full.
Proof. exact nonneg_refuted. Qed.
Print Assumptions C15_nonneg_refuted.

Theorem C15_same_account_refuted : ~ same_account_full.
Proof. exact same_account_refuted. Qed.
Print Assumptions C15_same_account_refuted.

Theorem C15_keys_consistent : forall miners s o,
  keys_ok s = true -> keys_ok (fst (step miners s o)) = true.
Proof. exact step_keys_ok. Qed.
Print Assumptions C15_keys_consistent.

Theorem C15_receipt_matches_state : forall miners s o s',
  keys_ok s = true -> step miners s o = (s', ROk) ->
  let rc := receipt_of miners s o in
  s' = apply_kv (r_kv rc) s /\ r_ty rc = ty_exec_ok /\
  Forall2 kv_log_aligned (r_kv rc) (r_logs rc) /\
  logs_before s rc /\
  (keys_distinct (map fst (r_kv rc)) = true -> logs_after s' rc).
Proof. exact receipt_matches_state. Qed.
Print Assumptions C15_receipt_matches_state.

Theorem C15_receipt_logs_after_partial : forall miners s o s',
  keys_ok s = true -> step miners s o = (s', ROk) -> rcpt_guard o = true ->
  keys_distinct (map fst (r_kv (receipt_of miners s o))) = true /\
  logs_after s' (receipt_of miners s o).
Proof. exact receipt_logs_after_guarded. Qed.
Print Assumptions C15_receipt_logs_after_partial.

Theorem C15_receipt_logs_after_refuted : ~ receipt_logs_after_full.
Proof. exact receipt_logs_after_refuted. Qed.
Print Assumptions C15_receipt_logs_after_refuted.

Theorem C15_coins_actions_conserve : forall env txs s,
  ledger_ok s = true -> coins_guard env s txs = true ->
  let s' := coins_run env s txs in
  ledger_ok s' = true /\
  main_total s' = main_total s + coins_granted env s txs /\
  (forallb (fun tx => negb (t_h tx =? 0)) txs = true -> main_total s' = main_total s) /\
  (forall cm cf cs, wsum (lw cm cf cs) s'
     = wsum (lw cm cf cs) s + coins_deltas env (gdelta cm cs) s txs) /\
  (forall s0 tx, snd (fst (coins_tx env s0 tx)) <> COk -> fst (fst (coins_tx env s0 tx)) = s0).
Proof. exact coins_actions_conserve_all. Qed.
Print Assumptions C15_coins_actions_conserve.

Theorem C15_coins_state_from_receipts : forall env txs s, keys_ok s = true ->
  keys_ok (coins_run env s txs) = true /\
  coins_run env s txs = apply_kv (coins_kvs env s txs) s.
Proof. exact coins_state_from_receipts. Qed.
Print Assumptions C15_coins_state_from_receipts.

Theorem C15_ledger_keys_disjoint : forall l1 l2 k1 k2,
  lid_ok l1 = true -> lid_ok l2 = true ->
  flat_key l1 k1 = flat_key l2 k2 -> l1 = l2 /\ key_rest k1 = key_rest k2.
Proof. exact flat_key_lid_inj. Qed.
Print Assumptions C15_ledger_keys_disjoint.

Theorem C15_ledgers_independent : forall l' miners h w,
  lid_ok l' = true ->
  forallb (fun lo => lid_ok (fst lo)) h = true ->
  Forall (fun lo => fst lo <> l') h ->
  (forall k', fget (flat_key l' k') (frun miners w h) = fget (flat_key l' k') w) /\
  (forall q, fanswer l' (frun miners w h) q = fanswer l' w q).
Proof. exact history_independent. Qed.
Print Assumptions C15_ledgers_independent.

Theorem C15_flat_refines_ledger : forall l miners ops s w,
  flat_rel l s w -> keys_ok s = true -> forallb op_keys_ok ops = true ->
  results miners s ops = fresults l miners w ops /\
  flat_rel l (run miners s ops) (frun miners w (map (fun o => (l, o)) ops)) /\
  (forall q, key_ok (qkey q) = true ->
     fanswer l (frun miners w (map (fun o => (l, o)) ops)) q = answer (run miners s ops) q).
Proof. exact frun_sim. Qed.
Print Assumptions C15_flat_refines_ledger.
