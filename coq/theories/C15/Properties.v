(** C15 — property theorems only. *)
From Coq Require Import List ZArith Bool.
From C33 Require Import C15.Model C15.Spec C15.Proofs C15.ProofsRefute.
Import ListNotations.
Open Scope Z_scope.

Theorem C15_invariants_partial : forall miners s ops,
  ledger_ok s = true -> hist_guard s ops = true ->
  let s' := run miners s ops in
  ledger_ok s' = true /\
  main_total s' = main_total s + deltas miners main_delta s ops /\
  sub_total s' = sub_total s + deltas miners sub_delta s ops /\
  all_steps good_step miners s ops.
Proof. exact invariants_partial. Qed.
Print Assumptions C15_invariants_partial.

Theorem C15_weighted_sums_partial : forall miners s ops cm cf cs,
  ledger_ok s = true -> hist_guard s ops = true ->
  wsum (lw cm cf cs) (run miners s ops)
  = wsum (lw cm cf cs) s + deltas miners (gdelta cm cs) s ops.
Proof. exact weighted_sums_partial. Qed.
Print Assumptions C15_weighted_sums_partial.

Theorem C15_exec_consistency_partial : forall miners e s ops,
  ledger_ok s = true -> hist_guard s ops = true ->
  gap e (run miners s ops) = gap e s + deltas miners (gap_delta e) s ops /\
  (forallb (fun o => gap_delta e o =? 0) ops = true -> gap e (run miners s ops) = gap e s).
Proof. exact exec_consistency_partial. Qed.
Print Assumptions C15_exec_consistency_partial.

Theorem C15_error_changes_nothing : forall miners s o,
  is_error (snd (step miners s o)) = true -> fst (step miners s o) = s.
Proof. exact error_changes_nothing. Qed.
Print Assumptions C15_error_changes_nothing.

Theorem C15_same_account_partial : forall s a a' x,
  norm a = norm a' ->
  answer s (QMain a) = answer s (QMain a') /\ answer s (QSub a x) = answer s (QSub a' x).
Proof. exact same_account_partial. Qed.
Print Assumptions C15_same_account_partial.

Theorem C15_conservation_refuted : ~ conservation_full.
Proof. exact conservation_refuted. Qed.
Print Assumptions C15_conservation_refuted.

Theorem C15_failed_op_atomic_refuted : ~ failed_op_atomic_full.
Proof. exact failed_op_atomic_refuted. Qed.
Print Assumptions C15_failed_op_atomic_refuted.

Theorem C15_nonneg_refuted : ~ nonneg_full.
Proof. exact nonneg_refuted. Qed.
Print Assumptions C15_nonneg_refuted.

Theorem C15_same_account_refuted : ~ same_account_full.
Proof. exact same_account_refuted. Qed.
Print Assumptions C15_same_account_refuted.
