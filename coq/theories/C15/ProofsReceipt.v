(** C15 — receipts: the KV list of a receipt is exactly what the operation did
    to the ledger, and the logs are the accounts before / after. *)
From Coq Require Import List ZArith NArith Bool Lia.
From C33 Require Import Lib.Harness C15.Model C15.Spec C15.ModelReceipt C15.ProofsBase.
Import ListNotations.
Open Scope Z_scope.

(** ** key consistency alone (no sign condition): kept by EVERY operation *)

Definition key_okb (kr : key * acct) : bool :=
  match fst kr with
  | MainK a => bytes_eqb (norm (a_addr (snd kr))) a
  | SubK _ a => bytes_eqb (norm (a_addr (snd kr))) a
  end.

Definition keys_ok (s : ledger) : bool := forallb key_okb s.

Lemma ledger_ok_keys_ok : forall s, ledger_ok s = true -> keys_ok s = true.
Proof.
  induction s as [|[k r] tl IH]; simpl; intro H; [reflexivity|].
  apply andb_true_iff in H as [H1 H2]. rewrite (IH H2), andb_true_r.
  unfold rec_okb in H1. apply andb_true_iff in H1 as [H1 _]. apply andb_true_iff in H1 as [H1 _].
  unfold key_okb. simpl. exact H1.
Qed.

Lemma keys_ok_put : forall k r s,
  keys_ok s = true -> key_okb (k, r) = true -> keys_ok (put k r s) = true.
Proof.
  intros k r s Hs Hr. induction s as [|[k' r'] tl IH]; simpl.
  - rewrite Hr. reflexivity.
  - simpl in Hs. apply andb_true_iff in Hs as [H1 H2].
    destruct (key_eqb k k'); simpl.
    + rewrite Hr. exact H2.
    + rewrite H1. apply IH. exact H2.
Qed.

Lemma keys_ok_get : forall k r s,
  keys_ok s = true -> get k s = Some r -> key_okb (k, r) = true.
Proof.
  intros k r s Hs Hg. induction s as [|[k' r'] tl IH]; simpl in *.
  - discriminate.
  - apply andb_true_iff in Hs as [H1 H2].
    destruct (key_eqb k k') eqn:E.
    + apply key_eqb_eq in E. subst k'. inversion Hg. subst r'. exact H1.
    + apply IH; assumption.
Qed.

Lemma keys_ok_save_main : forall s r, keys_ok s = true -> keys_ok (save_main s r) = true.
Proof.
  intros s r Hs. unfold save_main. apply keys_ok_put; [exact Hs|].
  unfold key_okb. simpl. apply bytes_eqb_refl.
Qed.

Lemma keys_ok_save_sub : forall s x r, keys_ok s = true -> keys_ok (save_sub s x r) = true.
Proof.
  intros s x r Hs. unfold save_sub. apply keys_ok_put; [exact Hs|].
  unfold key_okb. simpl. apply bytes_eqb_refl.
Qed.

Lemma load_main_norm : forall s a, keys_ok s = true -> norm (a_addr (load_main s a)) = norm a.
Proof.
  intros s a Hs. unfold load_main. destruct (get (MainK (norm a)) s) eqn:G; [|reflexivity].
  apply (keys_ok_get _ _ _ Hs) in G. unfold key_okb in G. simpl in G.
  apply bytes_eqb_eq in G. exact G.
Qed.

Lemma load_sub_norm : forall s a x, keys_ok s = true -> norm (a_addr (load_sub s a x)) = norm a.
Proof.
  intros s a x Hs. unfold load_sub. destruct (get (SubK x (norm a)) s) eqn:G; [|reflexivity].
  apply (keys_ok_get _ _ _ Hs) in G. unfold key_okb in G. simpl in G.
  apply bytes_eqb_eq in G. exact G.
Qed.

Ltac split_ifs :=
  repeat match goal with
  | |- context [if ?c then _ else _] => destruct c
  | |- context [match safe_add ?a ?b with _ => _ end] => destruct (safe_add a b)
  end.

Ltac kk :=
  simpl; repeat first [ assumption | apply keys_ok_save_main | apply keys_ok_save_sub ].

Lemma keys_ok_transfer : forall s f t m, keys_ok s = true -> keys_ok (fst (transfer s f t m)) = true.
Proof. intros. unfold transfer. split_ifs; kk. Qed.

Lemma keys_ok_deposit_balance : forall s x m,
  keys_ok s = true -> keys_ok (fst (deposit_balance s x m)) = true.
Proof. intros. unfold deposit_balance. split_ifs; kk. Qed.

Lemma keys_ok_genesis_init : forall s a m,
  keys_ok s = true -> keys_ok (fst (genesis_init s a m)) = true.
Proof. intros. unfold genesis_init. split_ifs; kk. Qed.

Lemma keys_ok_exec_deposit : forall s a x m,
  keys_ok s = true -> keys_ok (fst (exec_deposit s a x m)) = true.
Proof. intros. unfold exec_deposit. split_ifs; kk. Qed.

Lemma keys_ok_exec_withdraw : forall s x a m,
  keys_ok s = true -> keys_ok (fst (exec_withdraw s x a m)) = true.
Proof. intros. unfold exec_withdraw. split_ifs; kk. Qed.

Lemma keys_ok_exec_deposit_frozen_inner : forall s a x m,
  keys_ok s = true -> keys_ok (fst (exec_deposit_frozen_inner s a x m)) = true.
Proof. intros. unfold exec_deposit_frozen_inner. split_ifs; kk. Qed.

Lemma keys_ok_exec_issue : forall miners s x m,
  keys_ok s = true -> keys_ok (fst (exec_issue miners s x m)) = true.
Proof.
  intros. unfold exec_issue. destruct (existsb (bytes_eqb x) miners); [|assumption].
  apply keys_ok_deposit_balance. assumption.
Qed.

(* a composite [match p with (s1, ROk) => match q s1 with (s2, ROk) => (s2, ROk) | _ => (s1, e) end
   | (_, e) => (s, e) end] keeps the invariant when both parts do *)
Ltac kk2 P Q :=
  match goal with
  | Hs : keys_ok ?s = true |- _ =>
      let s1 := fresh "s1" in let r1 := fresh "r1" in let H1 := fresh "H1" in
      pose proof (P Hs) as H1; simpl in H1;
      match type of H1 with keys_ok (fst ?p) = true => destruct p as [s1 r1] end;
      simpl in H1; destruct r1; simpl; try assumption;
      let s2 := fresh "s2" in let r2 := fresh "r2" in let H2 := fresh "H2" in
      pose proof (Q s1 H1) as H2; simpl in H2;
      match type of H2 with keys_ok (fst ?p) = true => destruct p as [s2 r2] end;
      simpl in H2; destruct r2; simpl; assumption
  end.

Theorem step_keys_ok : forall miners s o,
  keys_ok s = true -> keys_ok (fst (step miners s o)) = true.
Proof.
  intros miners s o Hs. destruct o; cbn [step].
  - apply keys_ok_transfer; assumption.
  - unfold transfer_to_exec.
    kk2 (fun H => keys_ok_transfer s from to amt H) (fun s1 H => keys_ok_exec_deposit s1 from to amt H).
  - unfold transfer_withdraw. destruct (check_transfer s to amt); simpl; try assumption.
    kk2 (fun H => keys_ok_exec_withdraw s to from amt H) (fun s1 H => keys_ok_transfer s1 to from amt H).
  - unfold exec_frozen. split_ifs; kk.
  - unfold exec_active. split_ifs; kk.
  - unfold exec_transfer. split_ifs; kk.
  - unfold exec_transfer_frozen. split_ifs; kk.
  - apply keys_ok_exec_deposit; assumption.
  - apply keys_ok_exec_withdraw; assumption.
  - unfold exec_deposit_frozen. destruct (bytes_eqb a x); simpl; [assumption|].
    kk2 (fun H => keys_ok_exec_issue miners s x amt H)
        (fun s1 H => keys_ok_exec_deposit_frozen_inner s1 a x amt H).
  - apply keys_ok_exec_issue; assumption.
  - apply keys_ok_deposit_balance; assumption.
  - unfold burn. split_ifs; kk.
  - apply keys_ok_genesis_init; assumption.
  - unfold genesis_init_exec.
    kk2 (fun H => keys_ok_genesis_init s x amt H) (fun s1 H => keys_ok_exec_deposit s1 a x amt H).
Qed.

Lemma run_keys_ok : forall miners ops s, keys_ok s = true -> keys_ok (run miners s ops) = true.
Proof.
  intros miners ops. induction ops as [|o tl IH]; intros s Hs; [exact Hs|].
  change (run miners s (o :: tl)) with (run miners (fst (step miners s o)) tl).
  apply IH. apply step_keys_ok. exact Hs.
Qed.

(** ** receipt facts *)

Definition kv_log_aligned (kv : key * acct) (l : rlog) : Prop :=
  fst kv = log_key l /\ snd kv = l_cur l.

Definition logs_before (s : ledger) (rc : receipt) : Prop :=
  Forall (fun l => l_prev l = load_key s (log_key l) (a_addr (l_prev l))) (r_logs rc).

Definition logs_after (s' : ledger) (rc : receipt) : Prop :=
  Forall (fun l => get (log_key l) s' = Some (l_cur l)) (r_logs rc).

Definition rprim (s s' : ledger) (rc : receipt) : Prop :=
  s' = apply_kv (r_kv rc) s /\ r_ty rc = ty_exec_ok /\
  Forall2 kv_log_aligned (r_kv rc) (r_logs rc) /\ logs_before s rc.

Lemma load_key_main : forall s a, keys_ok s = true ->
  load_key s (MainK (norm (a_addr (load_main s a)))) (a_addr (load_main s a)) = load_main s a.
Proof.
  intros s a Hs. rewrite (load_main_norm s a Hs). unfold load_key, load_main.
  destruct (get (MainK (norm a)) s); reflexivity.
Qed.

Lemma load_key_sub : forall s a x, keys_ok s = true ->
  load_key s (SubK x (norm (a_addr (load_sub s a x)))) (a_addr (load_sub s a x)) = load_sub s a x.
Proof.
  intros s a x Hs. rewrite (load_sub_norm s a x Hs). unfold load_key, load_sub.
  destruct (get (SubK x (norm a)) s); reflexivity.
Qed.

Lemma rprim_main : forall ty s a nb, keys_ok s = true ->
  rprim s (save_main s (set_bal (load_main s a) nb)) (rc_main ty s a nb).
Proof.
  intros ty s a nb Hs. unfold rprim, rc_main, rc1. cbn [r_kv r_ty r_logs].
  split; [reflexivity|]. split; [reflexivity|]. split.
  - constructor; [|constructor]. split; reflexivity.
  - constructor; [|constructor]. cbn [l_prev log_key l_exec l_cur set_bal a_addr].
    symmetry. apply load_key_main. exact Hs.
Qed.

Lemma rprim_sub : forall ty s a x nb nf, keys_ok s = true ->
  rprim s (save_sub s x (set_bf (load_sub s a x) nb nf)) (rc_sub ty s a x nb nf).
Proof.
  intros ty s a x nb nf Hs. unfold rprim, rc_sub, rc1. cbn [r_kv r_ty r_logs].
  split; [reflexivity|]. split; [reflexivity|]. split.
  - constructor; [|constructor]. split; reflexivity.
  - constructor; [|constructor]. cbn [l_prev log_key l_exec l_cur set_bf a_addr].
    symmetry. apply load_key_sub. exact Hs.
Qed.

Lemma set_bal_bf : forall r b, set_bal r b = set_bf r b (a_frz r).
Proof. reflexivity. Qed.

(** primitives: a successful call is one of the single-write shapes *)

Ltac prim_ok H :=
  repeat match type of H with
  | context [if ?c then _ else _] => destruct c eqn:?; simpl in H
  | context [match safe_add ?a ?b with _ => _ end] => destruct (safe_add a b) eqn:?; simpl in H
  end; try discriminate; injection H as <-.

Lemma rprim_deposit_balance : forall s x m s', keys_ok s = true ->
  deposit_balance s x m = (s', ROk) -> rprim s s' (rc_deposit_balance s x m).
Proof.
  intros s x m s' Hs H. unfold deposit_balance in H. prim_ok H.
  unfold rc_deposit_balance, added. rewrite Heqo. apply rprim_main. exact Hs.
Qed.

Lemma rprim_genesis_init : forall s a m s', keys_ok s = true ->
  genesis_init s a m = (s', ROk) -> rprim s s' (rc_genesis_init s a m).
Proof.
  intros s a m s' Hs H. unfold genesis_init in H. prim_ok H.
  unfold rc_genesis_init, added. rewrite Heqo. apply rprim_main. exact Hs.
Qed.

Lemma rprim_burn : forall s a m s', keys_ok s = true ->
  burn s a m = (s', ROk) -> rprim s s' (rc_burn s a m).
Proof.
  intros s a m s' Hs H. unfold burn in H. prim_ok H. apply rprim_main. exact Hs.
Qed.

Lemma rprim_exec_frozen : forall s a x m s', keys_ok s = true ->
  exec_frozen s a x m = (s', ROk) -> rprim s s' (rc_exec_frozen s a x m).
Proof.
  intros s a x m s' Hs H. unfold exec_frozen in H. prim_ok H. apply rprim_sub. exact Hs.
Qed.

Lemma rprim_exec_active : forall s a x m s', keys_ok s = true ->
  exec_active s a x m = (s', ROk) -> rprim s s' (rc_exec_active s a x m).
Proof.
  intros s a x m s' Hs H. unfold exec_active in H. prim_ok H. apply rprim_sub. exact Hs.
Qed.

Lemma rprim_exec_deposit : forall s a x m s', keys_ok s = true ->
  exec_deposit s a x m = (s', ROk) -> rprim s s' (rc_exec_deposit s a x m).
Proof.
  intros s a x m s' Hs H. unfold exec_deposit in H. prim_ok H.
  rewrite set_bal_bf. apply rprim_sub. exact Hs.
Qed.

Lemma rprim_exec_deposit_frozen_inner : forall s a x m s', keys_ok s = true ->
  exec_deposit_frozen_inner s a x m = (s', ROk) -> rprim s s' (rc_exec_deposit_frozen_inner s a x m).
Proof.
  intros s a x m s' Hs H. unfold exec_deposit_frozen_inner in H. prim_ok H.
  apply rprim_sub. exact Hs.
Qed.

Lemma rprim_exec_withdraw : forall s x a m s', keys_ok s = true ->
  exec_withdraw s x a m = (s', ROk) -> rprim s s' (rc_exec_withdraw s x a m).
Proof.
  intros s x a m s' Hs H. unfold exec_withdraw in H. prim_ok H.
  rewrite set_bal_bf. apply rprim_sub. exact Hs.
Qed.

Lemma rprim_exec_issue : forall miners s x m s', keys_ok s = true ->
  exec_issue miners s x m = (s', ROk) -> rprim s s' (rc_deposit_balance s x m).
Proof.
  intros miners s x m s' Hs H. unfold exec_issue in H.
  destruct (existsb (bytes_eqb x) miners); [|discriminate].
  apply rprim_deposit_balance; assumption.
Qed.

(** two writes: both records are loaded in [s] *)
Lemma rprim_transfer : forall s f t m s', keys_ok s = true ->
  transfer s f t m = (s', ROk) -> rprim s s' (rc_transfer s f t m).
Proof.
  intros s f t m s' Hs H. unfold transfer in H. prim_ok H.
  unfold rprim, rc_transfer. rewrite Heqo. cbn [r_kv r_ty r_logs].
  split; [reflexivity|]. split; [reflexivity|]. split.
  - repeat constructor.
  - constructor; [|constructor; [|constructor]];
      cbn [l_prev log_key l_exec l_cur set_bal a_addr]; symmetry; apply load_key_main; exact Hs.
Qed.

Lemma rprim_exec2 : forall s f t x rf' rt', keys_ok s = true ->
  a_addr rf' = a_addr (load_sub s f x) -> a_addr rt' = a_addr (load_sub s t x) ->
  rprim s (save_sub (save_sub s x rf') x rt') (rc_exec2 x (load_sub s f x) rf' (load_sub s t x) rt').
Proof.
  intros s f t x rf' rt' Hs Hf Ht. unfold rprim, rc_exec2. cbn [r_kv r_ty r_logs].
  split; [reflexivity|]. split; [reflexivity|]. split.
  - repeat constructor.
  - constructor; [|constructor; [|constructor]]; cbn [l_prev log_key l_exec l_cur].
    + rewrite Hf. symmetry. apply load_key_sub. exact Hs.
    + rewrite Ht. symmetry. apply load_key_sub. exact Hs.
Qed.

Lemma rprim_exec_transfer : forall s f t x m s', keys_ok s = true ->
  exec_transfer s f t x m = (s', ROk) -> rprim s s' (rc_exec_transfer s f t x m).
Proof.
  intros s f t x m s' Hs H. unfold exec_transfer in H. prim_ok H.
  unfold rc_exec_transfer. apply rprim_exec2; [exact Hs|reflexivity|reflexivity].
Qed.

Lemma rprim_exec_transfer_frozen : forall s f t x m s', keys_ok s = true ->
  exec_transfer_frozen s f t x m = (s', ROk) -> rprim s s' (rc_exec_transfer_frozen s f t x m).
Proof.
  intros s f t x m s' Hs H. unfold exec_transfer_frozen in H. prim_ok H.
  unfold rc_exec_transfer_frozen. apply rprim_exec2; [exact Hs|reflexivity|reflexivity].
Qed.
