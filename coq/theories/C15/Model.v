(** C15 — executable model of chain33's account ledger (account/account.go,
    account/execaccount.go, account/genesis.go, common/address/util.go) AS IT IS.

    The ledger is an association list from storage key to the stored
    [types.Account] record (address spelling, balance, frozen).  The common
    key prefix "mavl-<exec>-<symbol>-" is left out; a main-account key is the
    normalised address, an executor sub-account key is
    "exec-" ++ execaddr ++ ":" ++ normalised address, written here as the
    structured key [SubK execaddr (norm addr)] (assumption, stated in
    props/C15.py: address strings contain no ':' and do not start with
    "exec-", as is the case for every base58 / hex address).

    Go [int64] arithmetic is written explicitly with [wrap64]. *)
From Coq Require Import List ZArith NArith Bool.
From C33 Require Import Lib.Harness.
Import ListNotations.
Open Scope Z_scope.

Definition bytes := list N.

(** ** common/address/util.go: FormatAddrKey *)

Definition is_hex_char (c : N) : bool :=
  ((48 <=? c) && (c <=? 57) || (97 <=? c) && (c <=? 102) || (65 <=? c) && (c <=? 70))%N.

(* go-ethereum common.has0xPrefix / IsHexAddress *)
Definition strip0x (s : bytes) : bytes :=
  match s with
  | c0 :: c1 :: tl => if ((c0 =? 48) && ((c1 =? 120) || (c1 =? 88)))%N then tl else s
  | _ => s
  end.

Definition is_eth_address (s : bytes) : bool :=
  let t := strip0x s in
  Nat.eqb (length t) 40 && forallb is_hex_char t.

(* strings.ToLower on an ASCII string *)
Definition lower (c : N) : N := if ((65 <=? c) && (c <=? 90))%N then (c + 32)%N else c.

(* FormatAddrKey: eth-style addresses are lower-cased (whole string, prefix
   included), every other string is used as it is. *)
Definition norm (s : bytes) : bytes := if is_eth_address s then map lower s else s.

(** ** ledger *)

Inductive key := MainK (a : bytes) | SubK (x a : bytes).

Definition key_eqb (k1 k2 : key) : bool :=
  match k1, k2 with
  | MainK a, MainK b => bytes_eqb a b
  | SubK x a, SubK y b => bytes_eqb x y && bytes_eqb a b
  | _, _ => false
  end.

Record acct := mkAcct { a_addr : bytes; a_bal : Z; a_frz : Z }.

Definition ledger := list (key * acct).

Fixpoint get (k : key) (s : ledger) : option acct :=
  match s with
  | [] => None
  | (k', r) :: tl => if key_eqb k k' then Some r else get k tl
  end.

Fixpoint put (k : key) (r : acct) (s : ledger) : ledger :=
  match s with
  | [] => [(k, r)]
  | (k', r') :: tl => if key_eqb k k' then (k, r) :: tl else (k', r') :: put k r tl
  end.

(* LoadAccount / LoadExecAccount: a missing record is an empty account that
   carries the spelling of the query *)
Definition load_main (s : ledger) (a : bytes) : acct :=
  match get (MainK (norm a)) s with Some r => r | None => mkAcct a 0 0 end.

Definition load_sub (s : ledger) (a x : bytes) : acct :=
  match get (SubK x (norm a)) s with Some r => r | None => mkAcct a 0 0 end.

(* SaveAccount / SaveExecAccount: the key is computed from the address stored
   IN THE RECORD *)
Definition save_main (s : ledger) (r : acct) : ledger := put (MainK (norm (a_addr r))) r s.
Definition save_sub (s : ledger) (x : bytes) (r : acct) : ledger :=
  put (SubK x (norm (a_addr r))) r s.

(** ** int64 and limits *)

Definition two63 : Z := 9223372036854775808.
Definition two64 : Z := 18446744073709551616.
Definition wrap64 (z : Z) : Z := (z + two63) mod two64 - two63.

Definition max_amount : Z := 100000000000000000.      (* MaxCoin * coinPrecision = 1e9 * 1e8 *)
Definition max_token : Z := 9000000000000000000.      (* types.MaxTokenBalance *)

(* types.CheckAmount *)
Definition check_amount (a : Z) : bool := (0 <? a) && (a <? max_amount).

(* genesis.go safeAdd *)
Definition safe_add (b a : Z) : option Z :=
  let t := wrap64 (b + a) in
  if (t <? a) || (max_token <? t) then None else Some t.

(** ** results *)

(* EOther: any error value the model never produces (harness-side class) *)
Inductive res := ROk | EAmount | ENoBalance | ESameToRecv | ENotAllowDeposit | EOther | RPanic.

Definition res_eqb (a b : res) : bool :=
  match a, b with
  | ROk, ROk | EAmount, EAmount | ENoBalance, ENoBalance | ESameToRecv, ESameToRecv
  | ENotAllowDeposit, ENotAllowDeposit | EOther, EOther | RPanic, RPanic => true
  | _, _ => false
  end.

(* an error VALUE was returned (a panic is not a returned error) *)
Definition is_error (r : res) : bool :=
  match r with ROk | RPanic => false | _ => true end.

Definition set_bal (r : acct) (b : Z) : acct := mkAcct (a_addr r) b (a_frz r).
Definition set_bf (r : acct) (b f : Z) : acct := mkAcct (a_addr r) b f.

(** ** account.go *)

Definition transfer (s : ledger) (from to : bytes) (amt : Z) : ledger * res :=
  if negb (check_amount amt) then (s, EAmount) else
  let rf := load_main s from in
  let rt := load_main s to in
  if bytes_eqb (a_addr rf) (a_addr rt) then (s, ESameToRecv) else
  if 0 <=? wrap64 (a_bal rf - amt) then
    match safe_add (a_bal rt) amt with
    | None => (s, EAmount)
    | Some nb =>
        let s1 := save_main s (set_bal rf (wrap64 (a_bal rf - amt))) in
        (save_main s1 (set_bal rt nb), ROk)
    end
  else (s, ENoBalance).

Definition check_transfer (s : ledger) (from : bytes) (amt : Z) : res :=
  if negb (check_amount amt) then EAmount else
  if wrap64 (a_bal (load_main s from) - amt) <? 0 then ENoBalance else ROk.

Definition deposit_balance (s : ledger) (x : bytes) (amt : Z) : ledger * res :=
  if negb (check_amount amt) then (s, EAmount) else
  let r := load_main s x in
  match safe_add (a_bal r) amt with
  | None => (s, EAmount)
  | Some nb => (save_main s (set_bal r nb), ROk)
  end.

Definition mint (s : ledger) (a : bytes) (amt : Z) : ledger * res := deposit_balance s a amt.

Definition burn (s : ledger) (a : bytes) (amt : Z) : ledger * res :=
  if negb (check_amount amt) then (s, EAmount) else
  let r := load_main s a in
  if a_bal r <? amt then (s, ENoBalance) else
  (save_main s (set_bal r (wrap64 (a_bal r - amt))), ROk).

(** ** execaccount.go *)

Definition exec_frozen (s : ledger) (a x : bytes) (amt : Z) : ledger * res :=
  if bytes_eqb a x then (s, ESameToRecv) else
  if negb (check_amount amt) then (s, EAmount) else
  let r := load_sub s a x in
  if wrap64 (a_bal r - amt) <? 0 then (s, ENoBalance) else
  (save_sub s x (set_bf r (wrap64 (a_bal r - amt)) (wrap64 (a_frz r + amt))), ROk).

Definition exec_active (s : ledger) (a x : bytes) (amt : Z) : ledger * res :=
  if bytes_eqb a x then (s, ESameToRecv) else
  if negb (check_amount amt) then (s, EAmount) else
  let r := load_sub s a x in
  if wrap64 (a_frz r - amt) <? 0 then (s, ENoBalance) else
  (save_sub s x (set_bf r (wrap64 (a_bal r + amt)) (wrap64 (a_frz r - amt))), ROk).

(* from == to compares the RAW strings; both records are loaded before either
   is saved; the second save wins when both have one storage key *)
Definition exec_transfer (s : ledger) (from to x : bytes) (amt : Z) : ledger * res :=
  if bytes_eqb from to then (s, ESameToRecv) else
  if negb (check_amount amt) then (s, EAmount) else
  let rf := load_sub s from x in
  let rt := load_sub s to x in
  if wrap64 (a_bal rf - amt) <? 0 then (s, ENoBalance) else
  let s1 := save_sub s x (set_bal rf (wrap64 (a_bal rf - amt))) in
  (save_sub s1 x (set_bal rt (wrap64 (a_bal rt + amt))), ROk).

Definition exec_transfer_frozen (s : ledger) (from to x : bytes) (amt : Z) : ledger * res :=
  if bytes_eqb from to then (s, ESameToRecv) else
  if negb (check_amount amt) then (s, EAmount) else
  let rf := load_sub s from x in
  let rt := load_sub s to x in
  if wrap64 (a_frz rf - amt) <? 0 then (s, ENoBalance) else
  let s1 := save_sub s x (set_bf rf (a_bal rf) (wrap64 (a_frz rf - amt))) in
  (save_sub s1 x (set_bal rt (wrap64 (a_bal rt + amt))), ROk).

Definition exec_deposit (s : ledger) (a x : bytes) (amt : Z) : ledger * res :=
  if bytes_eqb a x then (s, ESameToRecv) else
  if negb (check_amount amt) then (s, EAmount) else
  let r := load_sub s a x in
  (save_sub s x (set_bal r (wrap64 (a_bal r + amt))), ROk).

(* unexported execDepositFrozen *)
Definition exec_deposit_frozen_inner (s : ledger) (a x : bytes) (amt : Z) : ledger * res :=
  if bytes_eqb a x then (s, ESameToRecv) else
  if negb (check_amount amt) then (s, EAmount) else
  let r := load_sub s a x in
  (save_sub s x (set_bf r (a_bal r) (wrap64 (a_frz r + amt))), ROk).

Definition exec_withdraw (s : ledger) (x a : bytes) (amt : Z) : ledger * res :=
  if bytes_eqb a x then (s, ESameToRecv) else
  if negb (check_amount amt) then (s, EAmount) else
  let r := load_sub s a x in
  if wrap64 (a_bal r - amt) <? 0 then (s, ENoBalance) else
  (save_sub s x (set_bal r (wrap64 (a_bal r - amt))), ROk).

(* ExecIssueCoins: [miners] = the executor addresses of cfg.GetMinerExecs() *)
Definition exec_issue (miners : list bytes) (s : ledger) (x : bytes) (amt : Z) : ledger * res :=
  if existsb (bytes_eqb x) miners then deposit_balance s x amt else (s, ENotAllowDeposit).

Definition exec_deposit_frozen (miners : list bytes) (s : ledger) (a x : bytes) (amt : Z)
  : ledger * res :=
  if bytes_eqb a x then (s, ESameToRecv) else
  match exec_issue miners s x amt with
  | (s1, ROk) =>
      match exec_deposit_frozen_inner s1 a x amt with
      | (s2, ROk) => (s2, ROk)
      | (_, e) => (s1, e)          (* error returned after the issue was saved *)
      end
  | (_, e) => (s, e)
  end.

Definition transfer_to_exec (s : ledger) (from to : bytes) (amt : Z) : ledger * res :=
  match transfer s from to amt with
  | (s1, ROk) =>
      match exec_deposit s1 from to amt with
      | (s2, ROk) => (s2, ROk)
      | (_, _) => (s1, RPanic)
      end
  | (_, e) => (s, e)
  end.

Definition transfer_withdraw (s : ledger) (from to : bytes) (amt : Z) : ledger * res :=
  match check_transfer s to amt with
  | ROk =>
      match exec_withdraw s to from amt with
      | (s1, ROk) =>
          match transfer s1 to from amt with
          | (s2, ROk) => (s2, ROk)
          | (_, _) => (s1, RPanic)
          end
      | (_, e) => (s, e)
      end
  | e => (s, e)
  end.

(** ** genesis.go *)

Definition genesis_init (s : ledger) (a : bytes) (amt : Z) : ledger * res :=
  let r := load_main s a in
  match safe_add (a_bal r) amt with
  | None => (s, EAmount)
  | Some nb => (save_main s (set_bal r nb), ROk)
  end.

Definition genesis_init_exec (s : ledger) (a : bytes) (amt : Z) (x : bytes) : ledger * res :=
  match genesis_init s x amt with
  | (s1, ROk) =>
      match exec_deposit s1 a x amt with
      | (s2, ROk) => (s2, ROk)
      | (_, _) => (s1, RPanic)
      end
  | (_, e) => (s, e)
  end.

(** ** operations *)

Inductive op :=
| OTransfer (from to : bytes) (amt : Z)
| OTransferToExec (from to : bytes) (amt : Z)
| OTransferWithdraw (from to : bytes) (amt : Z)
| OExecFrozen (a x : bytes) (amt : Z)
| OExecActive (a x : bytes) (amt : Z)
| OExecTransfer (from to x : bytes) (amt : Z)
| OExecTransferFrozen (from to x : bytes) (amt : Z)
| OExecDeposit (a x : bytes) (amt : Z)
| OExecWithdraw (x a : bytes) (amt : Z)
| OExecDepositFrozen (a x : bytes) (amt : Z)
| OExecIssueCoins (x : bytes) (amt : Z)
| OMint (a : bytes) (amt : Z)
| OBurn (a : bytes) (amt : Z)
| OGenesisInit (a : bytes) (amt : Z)
| OGenesisInitExec (a : bytes) (amt : Z) (x : bytes).

Definition step (miners : list bytes) (s : ledger) (o : op) : ledger * res :=
  match o with
  | OTransfer f t a => transfer s f t a
  | OTransferToExec f t a => transfer_to_exec s f t a
  | OTransferWithdraw f t a => transfer_withdraw s f t a
  | OExecFrozen a x m => exec_frozen s a x m
  | OExecActive a x m => exec_active s a x m
  | OExecTransfer f t x m => exec_transfer s f t x m
  | OExecTransferFrozen f t x m => exec_transfer_frozen s f t x m
  | OExecDeposit a x m => exec_deposit s a x m
  | OExecWithdraw x a m => exec_withdraw s x a m
  | OExecDepositFrozen a x m => exec_deposit_frozen miners s a x m
  | OExecIssueCoins x m => exec_issue miners s x m
  | OMint a m => mint s a m
  | OBurn a m => burn s a m
  | OGenesisInit a m => genesis_init s a m
  | OGenesisInitExec a m x => genesis_init_exec s a m x
  end.

Definition run (miners : list bytes) (s : ledger) (ops : list op) : ledger :=
  fold_left (fun s o => fst (step miners s o)) ops s.

(** ** read-backs (what the harness reads after every operation) *)

Inductive query := QMain (a : bytes) | QSub (a x : bytes).

Definition touched (o : op) : list query :=
  match o with
  | OTransfer f t _ => [QMain f; QMain t]
  | OTransferToExec f t _ | OTransferWithdraw f t _ => [QMain f; QMain t; QSub f t]
  | OExecFrozen a x _ | OExecActive a x _ | OExecDeposit a x _ | OExecWithdraw x a _
  | OExecDepositFrozen a x _ => [QSub a x; QMain x]
  | OExecTransfer f t x _ | OExecTransferFrozen f t x _ => [QSub f x; QSub t x]
  | OExecIssueCoins x _ => [QMain x]
  | OMint a _ | OBurn a _ | OGenesisInit a _ => [QMain a]
  | OGenesisInitExec a _ x => [QMain x; QSub a x]
  end.

Definition answer (s : ledger) (q : query) : Z * Z :=
  match q with
  | QMain a => let r := load_main s a in (a_bal r, a_frz r)
  | QSub a x => let r := load_sub s a x in (a_bal r, a_frz r)
  end.
