(** C15 — basic lemmas: keys, get/put, weighted sums, loads and saves. *)
From Coq Require Import List ZArith NArith Bool Lia.
From C33 Require Import Lib.Harness C15.Model C15.Spec.
Import ListNotations.
Open Scope Z_scope.

Arguments rec_okb : simpl never.

(** ** equality tests *)

Lemma bytes_eqb_eq : forall a b, bytes_eqb a b = true <-> a = b.
Proof. apply list_eqb_spec. intros x y. apply N.eqb_eq. Qed.

Lemma bytes_eqb_refl : forall a, bytes_eqb a a = true.
Proof. intro a. apply bytes_eqb_eq. reflexivity. Qed.

Lemma bytes_eqb_neq : forall a b, bytes_eqb a b = false <-> a <> b.
Proof.
  intros a b. split.
  - intros H E. apply bytes_eqb_eq in E. congruence.
  - intro H. destruct (bytes_eqb a b) eqn:E; [|reflexivity].
    apply bytes_eqb_eq in E. contradiction.
Qed.

Lemma key_eqb_eq : forall k k', key_eqb k k' = true <-> k = k'.
Proof.
  intros [a|x a] [b|y b]; simpl; split; intro H; try discriminate.
  - apply bytes_eqb_eq in H. congruence.
  - inversion H. apply bytes_eqb_refl.
  - apply andb_true_iff in H as [H1 H2]. apply bytes_eqb_eq in H1, H2. congruence.
  - inversion H. rewrite !bytes_eqb_refl. reflexivity.
Qed.

Lemma key_eqb_refl : forall k, key_eqb k k = true.
Proof. intro k. apply key_eqb_eq. reflexivity. Qed.

Lemma key_eqb_neq : forall k k', key_eqb k k' = false <-> k <> k'.
Proof.
  intros k k'. split.
  - intros H E. apply key_eqb_eq in E. congruence.
  - intro H. destruct (key_eqb k k') eqn:E; [|reflexivity].
    apply key_eqb_eq in E. contradiction.
Qed.

(** ** get / put *)

Lemma get_put_same : forall k r s, get k (put k r s) = Some r.
Proof.
  intros k r s. induction s as [|[k' r'] tl IH]; simpl.
  - rewrite key_eqb_refl. reflexivity.
  - destruct (key_eqb k k') eqn:E; simpl.
    + rewrite key_eqb_refl. reflexivity.
    + rewrite E. exact IH.
Qed.

Lemma get_put_other : forall k k' r s, k <> k' -> get k' (put k r s) = get k' s.
Proof.
  intros k k' r s Hne. induction s as [|[k0 r0] tl IH]; simpl.
  - assert (key_eqb k' k = false) as -> by (apply key_eqb_neq; congruence). reflexivity.
  - destruct (key_eqb k k0) eqn:E; simpl.
    + apply key_eqb_eq in E. subst k0.
      assert (key_eqb k' k = false) as -> by (apply key_eqb_neq; congruence). reflexivity.
    + destruct (key_eqb k' k0); [reflexivity|exact IH].
Qed.

Definition old_w (w : key -> acct -> Z) (k : key) (s : ledger) : Z :=
  match get k s with Some r0 => w k r0 | None => 0 end.

Lemma wsum_put : forall w k r s, wsum w (put k r s) = wsum w s - old_w w k s + w k r.
Proof.
  intros w k r s. unfold old_w. induction s as [|[k' r'] tl IH]; simpl.
  - lia.
  - destruct (key_eqb k k') eqn:E; simpl.
    + apply key_eqb_eq in E. subst k'. lia.
    + rewrite IH. lia.
Qed.

Lemma ledger_ok_put : forall k r s,
  ledger_ok s = true -> rec_okb (k, r) = true -> ledger_ok (put k r s) = true.
Proof.
  intros k r s Hs Hr. induction s as [|[k' r'] tl IH]; simpl.
  - rewrite Hr. reflexivity.
  - simpl in Hs. apply andb_true_iff in Hs as [H1 H2].
    destruct (key_eqb k k'); simpl.
    + rewrite Hr. exact H2.
    + rewrite H1. apply IH. exact H2.
Qed.

Lemma ledger_ok_get : forall k r s,
  ledger_ok s = true -> get k s = Some r -> rec_okb (k, r) = true.
Proof.
  intros k r s Hs Hg. induction s as [|[k' r'] tl IH]; simpl in *.
  - discriminate.
  - apply andb_true_iff in Hs as [H1 H2].
    destruct (key_eqb k k') eqn:E.
    + apply key_eqb_eq in E. subst k'. inversion Hg. subst r'. exact H1.
    + apply IH; assumption.
Qed.

(** ** bounds of single records by a non-negative weighted sum *)

Definition w_nonneg (w : key -> acct -> Z) (s : ledger) : Prop :=
  Forall (fun kr => 0 <= w (fst kr) (snd kr)) s.

Lemma wsum_nonneg : forall w s, w_nonneg w s -> 0 <= wsum w s.
Proof.
  intros w s H. induction H as [|[k r] tl Hx Htl IH]; simpl in *; lia.
Qed.

Lemma get_le_wsum : forall w s k r,
  w_nonneg w s -> get k s = Some r -> w k r <= wsum w s.
Proof.
  intros w s k r H. induction H as [|[k' r'] tl Hx Htl IH]; simpl; intro Hg.
  - discriminate.
  - pose proof (wsum_nonneg w tl Htl) as Hn. simpl in Hx.
    destruct (key_eqb k k') eqn:E.
    + apply key_eqb_eq in E. subst k'. inversion Hg. subst r'. lia.
    + specialize (IH Hg). lia.
Qed.

Lemma get2_le_wsum : forall w s k1 r1 k2 r2,
  w_nonneg w s -> k1 <> k2 -> get k1 s = Some r1 -> get k2 s = Some r2 ->
  w k1 r1 + w k2 r2 <= wsum w s.
Proof.
  intros w s k1 r1 k2 r2 H Hne. induction H as [|[k' r'] tl Hx Htl IH]; simpl; intros G1 G2.
  - discriminate.
  - simpl in Hx.
    destruct (key_eqb k1 k') eqn:E1; destruct (key_eqb k2 k') eqn:E2.
    + apply key_eqb_eq in E1, E2. congruence.
    + apply key_eqb_eq in E1. subst k'. inversion G1. subst r'.
      pose proof (get_le_wsum w tl k2 r2 Htl G2). lia.
    + apply key_eqb_eq in E2. subst k'. inversion G2. subst r'.
      pose proof (get_le_wsum w tl k1 r1 Htl G1). lia.
    + specialize (IH G1 G2). lia.
Qed.

Lemma ledger_ok_nonneg : forall s cm cf cs,
  ledger_ok s = true ->
  (forall a, 0 <= cm a) -> (forall a, 0 <= cf a) -> (forall a, 0 <= cs a) ->
  w_nonneg (lw cm cf cs) s.
Proof.
  intros s cm cf cs Hs Hm Hf Hc. unfold w_nonneg.
  induction s as [|[k r] tl IH]; constructor.
  - simpl in Hs. apply andb_true_iff in Hs as [H1 _].
    unfold rec_okb in H1. apply andb_true_iff in H1 as [H1 Hfr].
    apply andb_true_iff in H1 as [_ Hb]. apply Z.leb_le in Hb, Hfr.
    simpl. destruct k as [a|x a]; unfold lw, val.
    + specialize (Hm a). specialize (Hf a). nia.
    + specialize (Hc x). nia.
  - apply IH. simpl in Hs. apply andb_true_iff in Hs as [_ H2]. exact H2.
Qed.

(** ** loads *)

Lemma rec_okb_inv : forall k r, rec_okb (k, r) = true ->
  norm (a_addr r) = (match k with MainK a => a | SubK _ a => a end) /\ 0 <= a_bal r /\ 0 <= a_frz r.
Proof.
  intros k r H. unfold rec_okb in H.
  apply andb_true_iff in H as [H Hf]. apply andb_true_iff in H as [Hk Hb].
  apply Z.leb_le in Hb, Hf. split; [|split; assumption].
  destruct k; apply bytes_eqb_eq in Hk; exact Hk.
Qed.

Lemma load_main_ok : forall s a, ledger_ok s = true ->
  norm (a_addr (load_main s a)) = norm a /\ 0 <= a_bal (load_main s a) /\ 0 <= a_frz (load_main s a).
Proof.
  intros s a Hs. unfold load_main. destruct (get (MainK (norm a)) s) eqn:G.
  - apply (ledger_ok_get _ _ _ Hs) in G. apply rec_okb_inv in G. exact G.
  - simpl. repeat split; lia.
Qed.

Lemma load_sub_ok : forall s a x, ledger_ok s = true ->
  norm (a_addr (load_sub s a x)) = norm a /\ 0 <= a_bal (load_sub s a x) /\ 0 <= a_frz (load_sub s a x).
Proof.
  intros s a x Hs. unfold load_sub. destruct (get (SubK x (norm a)) s) eqn:G.
  - apply (ledger_ok_get _ _ _ Hs) in G. apply rec_okb_inv in G. exact G.
  - simpl. repeat split; lia.
Qed.

Lemma old_w_main : forall cm cf cs s a,
  old_w (lw cm cf cs) (MainK (norm a)) s
  = cm (norm a) * a_bal (load_main s a) + cf (norm a) * a_frz (load_main s a).
Proof.
  intros. unfold old_w, load_main. destruct (get (MainK (norm a)) s); simpl; lia.
Qed.

Lemma old_w_sub : forall cm cf cs s a x,
  old_w (lw cm cf cs) (SubK x (norm a)) s = cs x * val (load_sub s a x).
Proof.
  intros. unfold old_w, load_sub. destruct (get (SubK x (norm a)) s); simpl; unfold val; simpl; lia.
Qed.

(** ** saves *)

Lemma lw_save_main : forall cm cf cs s a r',
  ledger_ok s = true ->
  a_addr r' = a_addr (load_main s a) -> a_frz r' = a_frz (load_main s a) ->
  wsum (lw cm cf cs) (save_main s r')
  = wsum (lw cm cf cs) s + cm (norm a) * (a_bal r' - a_bal (load_main s a)).
Proof.
  intros cm cf cs s a r' Hs Ha Hf. unfold save_main.
  destruct (load_main_ok s a Hs) as [Hn _]. rewrite Ha, Hn.
  rewrite wsum_put, old_w_main. simpl. rewrite Hf. lia.
Qed.

Lemma lw_save_sub : forall cm cf cs s a x r',
  ledger_ok s = true ->
  a_addr r' = a_addr (load_sub s a x) ->
  wsum (lw cm cf cs) (save_sub s x r')
  = wsum (lw cm cf cs) s + cs x * (val r' - val (load_sub s a x)).
Proof.
  intros cm cf cs s a x r' Hs Ha. unfold save_sub.
  destruct (load_sub_ok s a x Hs) as [Hn _]. rewrite Ha, Hn.
  rewrite wsum_put, old_w_sub. simpl. lia.
Qed.

Lemma ledger_ok_save_main : forall s r',
  ledger_ok s = true -> 0 <= a_bal r' -> 0 <= a_frz r' -> ledger_ok (save_main s r') = true.
Proof.
  intros s r' Hs Hb Hf. unfold save_main. apply ledger_ok_put; [exact Hs|].
  unfold rec_okb. rewrite bytes_eqb_refl. simpl.
  apply andb_true_iff. split; apply Z.leb_le; assumption.
Qed.

Lemma ledger_ok_save_sub : forall s x r',
  ledger_ok s = true -> 0 <= a_bal r' -> 0 <= a_frz r' -> ledger_ok (save_sub s x r') = true.
Proof.
  intros s x r' Hs Hb Hf. unfold save_sub. apply ledger_ok_put; [exact Hs|].
  unfold rec_okb. rewrite bytes_eqb_refl. simpl.
  apply andb_true_iff. split; apply Z.leb_le; assumption.
Qed.

Lemma load_main_save_main_other : forall s r' a,
  norm (a_addr r') <> norm a -> load_main (save_main s r') a = load_main s a.
Proof.
  intros s r' a Hne. unfold load_main, save_main.
  rewrite get_put_other; [reflexivity|]. congruence.
Qed.

Lemma load_main_save_sub : forall s x r' a, load_main (save_sub s x r') a = load_main s a.
Proof.
  intros. unfold load_main, save_sub. rewrite get_put_other; [reflexivity|discriminate].
Qed.

Lemma load_sub_save_main : forall s r' a x, load_sub (save_main s r') a x = load_sub s a x.
Proof.
  intros. unfold load_sub, save_main. rewrite get_put_other; [reflexivity|discriminate].
Qed.

Lemma load_sub_save_sub_other : forall s x r' a,
  norm (a_addr r') <> norm a -> load_sub (save_sub s x r') a x = load_sub s a x.
Proof.
  intros s x r' a Hne. unfold load_sub, save_sub.
  rewrite get_put_other; [reflexivity|]. congruence.
Qed.

(** ** bounds of loaded records *)

Lemma c1_nonneg : forall a, 0 <= c1 a. Proof. intro; unfold c1; lia. Qed.
Lemma c0_nonneg : forall a, 0 <= c0 a. Proof. intro; unfold c0; lia. Qed.

Lemma load_main_le : forall s a, ledger_ok s = true -> val (load_main s a) <= main_total s.
Proof.
  intros s a Hs. unfold load_main, main_total.
  pose proof (ledger_ok_nonneg s c1 c1 c0 Hs c1_nonneg c1_nonneg c0_nonneg) as Hn.
  destruct (get (MainK (norm a)) s) eqn:G.
  - pose proof (get_le_wsum _ _ _ _ Hn G) as H. cbn [lw] in H. unfold c1, val in *. lia.
  - pose proof (wsum_nonneg _ _ Hn). unfold val. cbn [a_bal a_frz]. lia.
Qed.

Lemma load_main2_le : forall s a b, ledger_ok s = true -> norm a <> norm b ->
  val (load_main s a) + val (load_main s b) <= main_total s.
Proof.
  intros s a b Hs Hne.
  pose proof (load_main_le s a Hs) as Ha. pose proof (load_main_le s b Hs) as Hb.
  pose proof (ledger_ok_nonneg s c1 c1 c0 Hs c1_nonneg c1_nonneg c0_nonneg) as Hn.
  pose proof (wsum_nonneg _ _ Hn) as H0. fold (main_total s) in H0.
  unfold load_main in *.
  destruct (get (MainK (norm a)) s) eqn:Ga; destruct (get (MainK (norm b)) s) eqn:Gb;
    unfold val in *; cbn [a_bal a_frz] in *; try lia.
  assert (MainK (norm a) <> MainK (norm b)) as Hk by congruence.
  pose proof (get2_le_wsum _ _ _ _ _ _ Hn Hk Ga Gb) as H. cbn [lw] in H.
  unfold main_total in *. unfold c1 in *. lia.
Qed.

Lemma load_sub_le : forall s a x, ledger_ok s = true -> val (load_sub s a x) <= sub_total s.
Proof.
  intros s a x Hs. unfold load_sub, sub_total.
  pose proof (ledger_ok_nonneg s c0 c0 c1 Hs c0_nonneg c0_nonneg c1_nonneg) as Hn.
  destruct (get (SubK x (norm a)) s) eqn:G.
  - pose proof (get_le_wsum _ _ _ _ Hn G) as H. cbn [lw] in H. unfold c1, val in *. lia.
  - pose proof (wsum_nonneg _ _ Hn). unfold val. cbn [a_bal a_frz]. lia.
Qed.

Lemma load_sub2_le : forall s a b x, ledger_ok s = true -> norm a <> norm b ->
  val (load_sub s a x) + val (load_sub s b x) <= sub_total s.
Proof.
  intros s a b x Hs Hne.
  pose proof (load_sub_le s a x Hs) as Ha. pose proof (load_sub_le s b x Hs) as Hb.
  pose proof (ledger_ok_nonneg s c0 c0 c1 Hs c0_nonneg c0_nonneg c1_nonneg) as Hn.
  pose proof (wsum_nonneg _ _ Hn) as H0. fold (sub_total s) in H0.
  unfold load_sub in *.
  destruct (get (SubK x (norm a)) s) eqn:Ga; destruct (get (SubK x (norm b)) s) eqn:Gb;
    unfold val in *; cbn [a_bal a_frz] in *; try lia.
  assert (SubK x (norm a) <> SubK x (norm b)) as Hk by congruence.
  pose proof (get2_le_wsum _ _ _ _ _ _ Hn Hk Ga Gb) as H. cbn [lw] in H.
  unfold sub_total in *. unfold c1, val in *. lia.
Qed.

(** ** int64 *)

Lemma wrap64_id : forall z, - two63 <= z < two63 -> wrap64 z = z.
Proof.
  intros z H. unfold wrap64. rewrite Z.mod_small; [lia|].
  unfold two63, two64 in *. lia.
Qed.

Lemma safe_add_some : forall b a n,
  0 <= b <= max_token -> 0 <= a < two63 -> safe_add b a = Some n -> n = b + a /\ n <= max_token.
Proof.
  intros b a n Hb Ha H. unfold safe_add in H.
  destruct (Z_lt_dec (b + a) two63) as [Hlt|Hge].
  - rewrite wrap64_id in H by (unfold two63 in *; lia).
    destruct ((b + a <? a) || (max_token <? b + a)) eqn:E; [discriminate|].
    apply orb_false_iff in E as [_ E]. apply Z.ltb_ge in E. inversion H. lia.
  - exfalso.
    assert (wrap64 (b + a) = b + a - two64) as Hw.
    { unfold wrap64.
      replace (b + a + two63) with ((b + a + two63 - two64) + 1 * two64) by lia.
      rewrite Z.mod_add by (unfold two64; lia).
      rewrite Z.mod_small; unfold two63, two64, max_token in *; lia. }
    rewrite Hw in H.
    assert (b + a - two64 <? a = true) as Hc
      by (apply Z.ltb_lt; unfold two64, max_token in *; lia).
    rewrite Hc in H. discriminate.
Qed.

Lemma safe_add_ok : forall b a, 0 <= b -> 0 <= a -> b + a <= max_token -> safe_add b a = Some (b + a).
Proof.
  intros b a Hb Ha H. unfold safe_add.
  rewrite wrap64_id by (unfold two63, max_token in *; lia).
  assert (b + a <? a = false) as -> by (apply Z.ltb_ge; lia).
  assert (max_token <? b + a = false) as -> by (apply Z.ltb_ge; lia).
  reflexivity.
Qed.

Lemma check_amount_inv : forall m, check_amount m = true -> 0 < m < max_amount.
Proof.
  intros m H. unfold check_amount in H. apply andb_true_iff in H as [H1 H2].
  apply Z.ltb_lt in H1, H2. lia.
Qed.
