(** C15 — receipts of composite operations, the per-step receipt theorem, the
    distinct-key guard and the refutation of the unguarded "current = account
    after" reading. *)
From Coq Require Import List ZArith NArith Bool Lia.
From C33 Require Import Lib.Harness C15.Model C15.Spec C15.ModelReceipt C15.ProofsBase
  C15.ProofsOps C15.ProofsReceipt.
Import ListNotations.
Open Scope Z_scope.

Lemma rprim_mint : forall s a m s', keys_ok s = true ->
  mint s a m = (s', ROk) -> rprim s s' (rc_mint s a m).
Proof.
  intros s a m s' Hs H. unfold mint, deposit_balance in H. prim_ok H.
  unfold rc_mint, added. rewrite Heqo. apply rprim_main. exact Hs.
Qed.

(** ** merging *)

Lemma apply_kv_app : forall kv1 kv2 s, apply_kv (kv1 ++ kv2) s = apply_kv kv2 (apply_kv kv1 s).
Proof. intros. unfold apply_kv. apply fold_left_app. Qed.

Lemma get_apply_kv_other : forall kv k s, key_in k kv = false -> get k (apply_kv kv s) = get k s.
Proof.
  induction kv as [|[k0 r0] tl IH]; intros k s H; [reflexivity|].
  simpl in H. apply orb_false_iff in H as [H1 H2].
  change (apply_kv ((k0, r0) :: tl) s) with (apply_kv tl (put k0 r0 s)).
  rewrite (IH k _ H2). apply get_put_other. apply key_eqb_neq in H1. congruence.
Qed.

Lemma rprim_merge : forall s s1 s2 rc1 rc2,
  rprim s s1 rc1 -> rprim s1 s2 rc2 ->
  Forall (fun l => key_in (log_key l) (r_kv rc1) = false) (r_logs rc2) ->
  rprim s s2 (rc_merge rc1 rc2).
Proof.
  intros s s1 s2 rc1 rc2 (E1 & T1 & A1 & B1) (E2 & T2 & A2 & B2) Hfr.
  unfold rprim, rc_merge. cbn [r_kv r_ty r_logs].
  split; [rewrite apply_kv_app, <- E1; exact E2|]. split; [exact T1|]. split.
  - apply Forall2_app; assumption.
  - unfold logs_before in *. cbn [r_logs]. apply Forall_app. split; [exact B1|].
    rewrite Forall_forall in *. intros l Hl. rewrite (B2 l Hl) at 1.
    unfold load_key. rewrite E1. rewrite get_apply_kv_other by (apply Hfr; exact Hl).
    reflexivity.
Qed.

Ltac frame_main_sub :=
  repeat constructor; cbn [log_key l_exec l_cur r_kv rc_transfer rc_main rc_sub rc1
    rc_deposit_balance rc_genesis_init rc_exec_deposit rc_exec_deposit_frozen_inner
    rc_exec_withdraw key_in existsb fst kv_main kv_sub key_eqb orb]; reflexivity.

Lemma rprim_transfer_to_exec : forall s f t m s', keys_ok s = true ->
  transfer_to_exec s f t m = (s', ROk) -> rprim s s' (rc_transfer_to_exec s f t m).
Proof.
  intros s f t m s' Hs H. unfold transfer_to_exec in H. unfold rc_transfer_to_exec.
  pose proof (keys_ok_transfer s f t m Hs) as K1.
  destruct (transfer s f t m) as [s1 r1] eqn:T. simpl in K1.
  destruct r1; try discriminate.
  destruct (exec_deposit s1 f t m) as [s2 r2] eqn:D. destruct r2; try discriminate.
  injection H as <-. cbn [fst].
  eapply rprim_merge; [apply rprim_transfer; eassumption|apply rprim_exec_deposit; eassumption|].
  unfold rc_exec_deposit. frame_main_sub.
Qed.

Lemma rprim_transfer_withdraw : forall s f t m s', keys_ok s = true ->
  transfer_withdraw s f t m = (s', ROk) -> rprim s s' (rc_transfer_withdraw s f t m).
Proof.
  intros s f t m s' Hs H. unfold transfer_withdraw in H. unfold rc_transfer_withdraw.
  destruct (check_transfer s t m); try discriminate.
  pose proof (keys_ok_exec_withdraw s t f m Hs) as K1.
  destruct (exec_withdraw s t f m) as [s1 r1] eqn:W. simpl in K1.
  destruct r1; try discriminate.
  destruct (transfer s1 t f m) as [s2 r2] eqn:T. destruct r2; try discriminate.
  injection H as <-. cbn [fst].
  eapply rprim_merge; [apply rprim_exec_withdraw; eassumption|apply rprim_transfer; eassumption|].
  unfold rc_exec_withdraw. frame_main_sub.
Qed.

Lemma rprim_exec_deposit_frozen : forall miners s a x m s', keys_ok s = true ->
  exec_deposit_frozen miners s a x m = (s', ROk) ->
  rprim s s' (rc_exec_deposit_frozen miners s a x m).
Proof.
  intros miners s a x m s' Hs H. unfold exec_deposit_frozen in H. unfold rc_exec_deposit_frozen.
  destruct (bytes_eqb a x); try discriminate.
  pose proof (keys_ok_exec_issue miners s x m Hs) as K1.
  destruct (exec_issue miners s x m) as [s1 r1] eqn:I. simpl in K1.
  destruct r1; try discriminate.
  destruct (exec_deposit_frozen_inner s1 a x m) as [s2 r2] eqn:D. destruct r2; try discriminate.
  injection H as <-. cbn [fst].
  eapply rprim_merge; [eapply rprim_exec_issue; eassumption
                      |apply rprim_exec_deposit_frozen_inner; eassumption|].
  unfold rc_exec_deposit_frozen_inner. frame_main_sub.
Qed.

Lemma rprim_genesis_init_exec : forall s a m x s', keys_ok s = true ->
  genesis_init_exec s a m x = (s', ROk) -> rprim s s' (rc_genesis_init_exec s a m x).
Proof.
  intros s a m x s' Hs H. unfold genesis_init_exec in H. unfold rc_genesis_init_exec.
  pose proof (keys_ok_genesis_init s x m Hs) as K1.
  destruct (genesis_init s x m) as [s1 r1] eqn:G. simpl in K1.
  destruct r1; try discriminate.
  destruct (exec_deposit s1 a x m) as [s2 r2] eqn:D. destruct r2; try discriminate.
  injection H as <-. cbn [fst].
  eapply rprim_merge; [apply rprim_genesis_init; eassumption|apply rprim_exec_deposit; eassumption|].
  unfold rc_exec_deposit. frame_main_sub.
Qed.

Theorem step_rprim : forall miners s o s', keys_ok s = true ->
  step miners s o = (s', ROk) -> rprim s s' (receipt_of miners s o).
Proof.
  intros miners s o s' Hs H. destruct o; cbn [step receipt_of] in *.
  - apply rprim_transfer; assumption.
  - apply rprim_transfer_to_exec; assumption.
  - apply rprim_transfer_withdraw; assumption.
  - apply rprim_exec_frozen; assumption.
  - apply rprim_exec_active; assumption.
  - apply rprim_exec_transfer; assumption.
  - apply rprim_exec_transfer_frozen; assumption.
  - apply rprim_exec_deposit; assumption.
  - apply rprim_exec_withdraw; assumption.
  - apply rprim_exec_deposit_frozen; assumption.
  - eapply rprim_exec_issue; eassumption.
  - apply rprim_mint; assumption.
  - apply rprim_burn; assumption.
  - apply rprim_genesis_init; assumption.
  - apply rprim_genesis_init_exec; assumption.
Qed.

(** ** current = account after, when no key is written twice *)

Lemma get_apply_kv_in : forall kv k r s,
  keys_distinct (map fst kv) = true -> In (k, r) kv -> get k (apply_kv kv s) = Some r.
Proof.
  induction kv as [|[k0 r0] tl IH]; intros k r s Hd Hin; [contradiction|].
  cbn [map fst keys_distinct] in Hd. apply andb_true_iff in Hd as [Hn Hd].
  apply negb_true_iff in Hn.
  change (apply_kv ((k0, r0) :: tl) s) with (apply_kv tl (put k0 r0 s)).
  destruct Hin as [Heq|Hin].
  - injection Heq as <- <-. rewrite get_apply_kv_other.
    + apply get_put_same.
    + unfold key_in. rewrite <- Hn. clear. induction tl as [|e tl IH]; [reflexivity|].
      simpl. rewrite IH. reflexivity.
  - apply IH; assumption.
Qed.

Lemma aligned_after : forall kv logs s,
  Forall2 kv_log_aligned kv logs -> keys_distinct (map fst kv) = true ->
  Forall (fun l => get (log_key l) (apply_kv kv s) = Some (l_cur l)) logs.
Proof.
  intros kv logs s A Hd. rewrite Forall_forall. intros l Hl.
  assert (exists e, In e kv /\ kv_log_aligned e l) as (e & He & Ha & Hc).
  { clear Hd. induction A as [|e l0 kv' logs' Ha A IH]; [contradiction|].
    destruct Hl as [->|Hl]; [exists e; split; [left; reflexivity|exact Ha]|].
    destruct (IH Hl) as (e' & H1 & H2). exists e'. split; [right; exact H1|exact H2]. }
  rewrite <- Ha, <- Hc. apply get_apply_kv_in; [exact Hd|]. destruct e; exact He.
Qed.

Theorem receipt_matches_state : forall miners s o s',
  keys_ok s = true -> step miners s o = (s', ROk) ->
  let rc := receipt_of miners s o in
  s' = apply_kv (r_kv rc) s /\ r_ty rc = ty_exec_ok /\
  Forall2 kv_log_aligned (r_kv rc) (r_logs rc) /\
  logs_before s rc /\
  (keys_distinct (map fst (r_kv rc)) = true -> logs_after s' rc).
Proof.
  intros miners s o s' Hs H rc. destruct (step_rprim miners s o s' Hs H) as (E & T & A & B).
  fold rc in E, T, A, B. repeat split; try assumption.
  intro Hd. unfold logs_after. rewrite E. apply aligned_after; assumption.
Qed.
