(** C15 — several account.DB instances on ONE state store.

    account.NewAccountDB(cfg, execer, symbol, db) gives a ledger whose records
    live under the byte keys

      "mavl-" ++ execer ++ "-" ++ symbol ++ "-" ++ FormatAddrKey(addr)
      "mavl-" ++ execer ++ "-" ++ symbol ++ "-exec-" ++ execaddr ++ ":" ++ FormatAddrKey(addr)

    of the shared KV; execer / symbol containing '-' are rejected.
    NewCoinsAccount(cfg) is the instance (cfg.GetCoinExec(), cfg.GetCoinSymbol())
    without that check.

    The operations of Model.v are repeated here over an ABSTRACT store (a type
    with a read and a write by structured key); [gstep_ledger] shows that the
    instance "association list keyed by [key]" is Model.step itself, so this
    file adds no second model of the operations.  The flat instance reads and
    writes the shared byte-keyed store through [flat_key]. *)
From Coq Require Import List ZArith NArith Bool.
From C33 Require Import Lib.Harness C15.Model.
Import ListNotations.
Open Scope Z_scope.

Section Generic.
  Variable St : Type.
  Variable sget : key -> St -> option acct.
  Variable sput : key -> acct -> St -> St.

  Definition gload_main (s : St) (a : bytes) : acct :=
    match sget (MainK (norm a)) s with Some r => r | None => mkAcct a 0 0 end.
  Definition gload_sub (s : St) (a x : bytes) : acct :=
    match sget (SubK x (norm a)) s with Some r => r | None => mkAcct a 0 0 end.
  Definition gsave_main (s : St) (r : acct) : St := sput (MainK (norm (a_addr r))) r s.
  Definition gsave_sub (s : St) (x : bytes) (r : acct) : St := sput (SubK x (norm (a_addr r))) r s.

  Definition gtransfer (s : St) (from to : bytes) (amt : Z) : St * res :=
    if negb (check_amount amt) then (s, EAmount) else
    let rf := gload_main s from in
    let rt := gload_main s to in
    if bytes_eqb (a_addr rf) (a_addr rt) then (s, ESameToRecv) else
    if 0 <=? wrap64 (a_bal rf - amt) then
      match safe_add (a_bal rt) amt with
      | None => (s, EAmount)
      | Some nb =>
          let s1 := gsave_main s (set_bal rf (wrap64 (a_bal rf - amt))) in
          (gsave_main s1 (set_bal rt nb), ROk)
      end
    else (s, ENoBalance).

  Definition gcheck_transfer (s : St) (from : bytes) (amt : Z) : res :=
    if negb (check_amount amt) then EAmount else
    if wrap64 (a_bal (gload_main s from) - amt) <? 0 then ENoBalance else ROk.

  Definition gdeposit_balance (s : St) (x : bytes) (amt : Z) : St * res :=
    if negb (check_amount amt) then (s, EAmount) else
    let r := gload_main s x in
    match safe_add (a_bal r) amt with
    | None => (s, EAmount)
    | Some nb => (gsave_main s (set_bal r nb), ROk)
    end.

  Definition gburn (s : St) (a : bytes) (amt : Z) : St * res :=
    if negb (check_amount amt) then (s, EAmount) else
    let r := gload_main s a in
    if a_bal r <? amt then (s, ENoBalance) else
    (gsave_main s (set_bal r (wrap64 (a_bal r - amt))), ROk).

  Definition gexec_frozen (s : St) (a x : bytes) (amt : Z) : St * res :=
    if bytes_eqb a x then (s, ESameToRecv) else
    if negb (check_amount amt) then (s, EAmount) else
    let r := gload_sub s a x in
    if wrap64 (a_bal r - amt) <? 0 then (s, ENoBalance) else
    (gsave_sub s x (set_bf r (wrap64 (a_bal r - amt)) (wrap64 (a_frz r + amt))), ROk).

  Definition gexec_active (s : St) (a x : bytes) (amt : Z) : St * res :=
    if bytes_eqb a x then (s, ESameToRecv) else
    if negb (check_amount amt) then (s, EAmount) else
    let r := gload_sub s a x in
    if wrap64 (a_frz r - amt) <? 0 then (s, ENoBalance) else
    (gsave_sub s x (set_bf r (wrap64 (a_bal r + amt)) (wrap64 (a_frz r - amt))), ROk).

  Definition gexec_transfer (s : St) (from to x : bytes) (amt : Z) : St * res :=
    if bytes_eqb from to then (s, ESameToRecv) else
    if negb (check_amount amt) then (s, EAmount) else
    let rf := gload_sub s from x in
    let rt := gload_sub s to x in
    if wrap64 (a_bal rf - amt) <? 0 then (s, ENoBalance) else
    let s1 := gsave_sub s x (set_bal rf (wrap64 (a_bal rf - amt))) in
    (gsave_sub s1 x (set_bal rt (wrap64 (a_bal rt + amt))), ROk).

  Definition gexec_transfer_frozen (s : St) (from to x : bytes) (amt : Z) : St * res :=
    if bytes_eqb from to then (s, ESameToRecv) else
    if negb (check_amount amt) then (s, EAmount) else
    let rf := gload_sub s from x in
    let rt := gload_sub s to x in
    if wrap64 (a_frz rf - amt) <? 0 then (s, ENoBalance) else
    let s1 := gsave_sub s x (set_bf rf (a_bal rf) (wrap64 (a_frz rf - amt))) in
    (gsave_sub s1 x (set_bal rt (wrap64 (a_bal rt + amt))), ROk).

  Definition gexec_deposit (s : St) (a x : bytes) (amt : Z) : St * res :=
    if bytes_eqb a x then (s, ESameToRecv) else
    if negb (check_amount amt) then (s, EAmount) else
    let r := gload_sub s a x in
    (gsave_sub s x (set_bal r (wrap64 (a_bal r + amt))), ROk).

  Definition gexec_deposit_frozen_inner (s : St) (a x : bytes) (amt : Z) : St * res :=
    if bytes_eqb a x then (s, ESameToRecv) else
    if negb (check_amount amt) then (s, EAmount) else
    let r := gload_sub s a x in
    (gsave_sub s x (set_bf r (a_bal r) (wrap64 (a_frz r + amt))), ROk).

  Definition gexec_withdraw (s : St) (x a : bytes) (amt : Z) : St * res :=
    if bytes_eqb a x then (s, ESameToRecv) else
    if negb (check_amount amt) then (s, EAmount) else
    let r := gload_sub s a x in
    if wrap64 (a_bal r - amt) <? 0 then (s, ENoBalance) else
    (gsave_sub s x (set_bal r (wrap64 (a_bal r - amt))), ROk).

  Definition gexec_issue (miners : list bytes) (s : St) (x : bytes) (amt : Z) : St * res :=
    if existsb (bytes_eqb x) miners then gdeposit_balance s x amt else (s, ENotAllowDeposit).

  Definition gexec_deposit_frozen (miners : list bytes) (s : St) (a x : bytes) (amt : Z)
    : St * res :=
    if bytes_eqb a x then (s, ESameToRecv) else
    match gexec_issue miners s x amt with
    | (s1, ROk) =>
        match gexec_deposit_frozen_inner s1 a x amt with
        | (s2, ROk) => (s2, ROk)
        | (_, e) => (s1, e)
        end
    | (_, e) => (s, e)
    end.

  Definition gtransfer_to_exec (s : St) (from to : bytes) (amt : Z) : St * res :=
    match gtransfer s from to amt with
    | (s1, ROk) =>
        match gexec_deposit s1 from to amt with
        | (s2, ROk) => (s2, ROk)
        | (_, _) => (s1, RPanic)
        end
    | (_, e) => (s, e)
    end.

  Definition gtransfer_withdraw (s : St) (from to : bytes) (amt : Z) : St * res :=
    match gcheck_transfer s to amt with
    | ROk =>
        match gexec_withdraw s to from amt with
        | (s1, ROk) =>
            match gtransfer s1 to from amt with
            | (s2, ROk) => (s2, ROk)
            | (_, _) => (s1, RPanic)
            end
        | (_, e) => (s, e)
        end
    | e => (s, e)
    end.

  Definition ggenesis_init (s : St) (a : bytes) (amt : Z) : St * res :=
    let r := gload_main s a in
    match safe_add (a_bal r) amt with
    | None => (s, EAmount)
    | Some nb => (gsave_main s (set_bal r nb), ROk)
    end.

  Definition ggenesis_init_exec (s : St) (a : bytes) (amt : Z) (x : bytes) : St * res :=
    match ggenesis_init s x amt with
    | (s1, ROk) =>
        match gexec_deposit s1 a x amt with
        | (s2, ROk) => (s2, ROk)
        | (_, _) => (s1, RPanic)
        end
    | (_, e) => (s, e)
    end.

  Definition gstep (miners : list bytes) (s : St) (o : op) : St * res :=
    match o with
    | OTransfer f t a => gtransfer s f t a
    | OTransferToExec f t a => gtransfer_to_exec s f t a
    | OTransferWithdraw f t a => gtransfer_withdraw s f t a
    | OExecFrozen a x m => gexec_frozen s a x m
    | OExecActive a x m => gexec_active s a x m
    | OExecTransfer f t x m => gexec_transfer s f t x m
    | OExecTransferFrozen f t x m => gexec_transfer_frozen s f t x m
    | OExecDeposit a x m => gexec_deposit s a x m
    | OExecWithdraw x a m => gexec_withdraw s x a m
    | OExecDepositFrozen a x m => gexec_deposit_frozen miners s a x m
    | OExecIssueCoins x m => gexec_issue miners s x m
    | OMint a m => gdeposit_balance s a m
    | OBurn a m => gburn s a m
    | OGenesisInit a m => ggenesis_init s a m
    | OGenesisInitExec a m x => ggenesis_init_exec s a m x
    end.

  Definition ganswer (s : St) (q : query) : Z * Z :=
    match q with
    | QMain a => let r := gload_main s a in (a_bal r, a_frz r)
    | QSub a x => let r := gload_sub s a x in (a_bal r, a_frz r)
    end.
End Generic.

(** the association-list instance is the model of Model.v *)
Lemma gstep_ledger : forall miners s o, gstep ledger get put miners s o = step miners s o.
Proof. intros miners s o. destruct o; reflexivity. Qed.

Lemma ganswer_ledger : forall s q, ganswer ledger get s q = answer s q.
Proof. intros s q. destruct q; reflexivity. Qed.

(** ** the shared byte-keyed store *)

Definition flat := list (bytes * acct).

Fixpoint fget (k : bytes) (w : flat) : option acct :=
  match w with
  | [] => None
  | (k', r) :: tl => if bytes_eqb k k' then Some r else fget k tl
  end.

Fixpoint fput (k : bytes) (r : acct) (w : flat) : flat :=
  match w with
  | [] => [(k, r)]
  | (k', r') :: tl => if bytes_eqb k k' then (k, r) :: tl else (k', r') :: fput k r tl
  end.

(** ledger identity: (execer, symbol) *)
Definition lid : Type := (bytes * bytes)%type.

Definition dash : N := 45.      (* '-' *)
Definition colon : N := 58.     (* ':' *)
Definition s_mavl : bytes := [109; 97; 118; 108; 45]%N.       (* "mavl-" *)
Definition s_exec : bytes := [101; 120; 101; 99; 45]%N.       (* "exec-" *)

Definition has_dash (b : bytes) : bool := existsb (N.eqb dash) b.

(* account.go symbolPrefix *)
Definition lid_prefix (l : lid) : bytes := s_mavl ++ fst l ++ [dash] ++ snd l ++ [dash].

Definition key_rest (k : key) : bytes :=
  match k with
  | MainK a => a
  | SubK x a => s_exec ++ x ++ [colon] ++ a
  end.

(* AccountKey / execAccountKey *)
Definition flat_key (l : lid) (k : key) : bytes := lid_prefix l ++ key_rest k.

(* NewAccountDB: ErrExecNameNotAllow / ErrSymbolNameNotAllow *)
Inductive newres := NOk | NExecName | NSymbol.
Definition new_account_db (l : lid) : newres :=
  if has_dash (fst l) then NExecName else if has_dash (snd l) then NSymbol else NOk.

Definition lid_ok (l : lid) : bool := negb (has_dash (fst l)) && negb (has_dash (snd l)).

Definition fstep (l : lid) (miners : list bytes) (w : flat) (o : op) : flat * res :=
  gstep flat (fun k => fget (flat_key l k)) (fun k => fput (flat_key l k)) miners w o.

Definition fanswer (l : lid) (w : flat) (q : query) : Z * Z :=
  ganswer flat (fun k => fget (flat_key l k)) w q.

(** a history over several ledgers of one store *)
Definition frun (miners : list bytes) (w : flat) (h : list (lid * op)) : flat :=
  fold_left (fun w lo => fst (fstep (fst lo) miners w (snd lo))) h w.

(** ** when the byte keys of ONE ledger decode uniquely

    A main-account key must not look like a sub-account key (no "exec-" in
    front) and the executor part of a sub-account key must not contain the
    separator ':' — true of every base58 / hex address. *)
Definition no_colon (b : bytes) : bool := negb (existsb (N.eqb colon) b).

Fixpoint starts_with (p b : bytes) : bool :=
  match p, b with
  | [], _ => true
  | c :: pt, d :: bt => (c =? d)%N && starts_with pt bt
  | _, _ => false
  end.

Definition key_ok (k : key) : bool :=
  match k with
  | MainK a => negb (starts_with s_exec a)
  | SubK x _ => no_colon x
  end.

Definition qkey (q : query) : key :=
  match q with QMain a => MainK (norm a) | QSub a x => SubK x (norm a) end.

(* every record the operation can read or write has a uniquely decodable key *)
Definition op_keys_ok (o : op) : bool := forallb (fun q => key_ok (qkey q)) (touched o).
