(** C15 — correspondence cases with everything the Go implementation returned:
    - [Hist]: one operation history of account.DB on an empty ledger (results,
      read-backs, receipts, final dump);
    - [Coins]: a list of coins transactions executed by the real coins driver
      (CheckTx + Exec) on an empty store;
    - [Multi]: operations through several account.DB instances that share one
      store (byte-level keys). *)
From Coq Require Import List ZArith NArith Bool.
From C33 Require Export Lib.Harness C15.Model C15.Spec C15.ModelReceipt C15.ModelCoins
  C15.ModelFlat C15.SpecExt.
Import ListNotations.
Open Scope Z_scope.

(** one executed operation: the call, the result class, the (balance, frozen)
    pairs read back through LoadAccount/LoadExecAccount for [touched o], in
    that order, and the receipt that was returned (None = nil) *)
Definition obs : Type := (op * res * list (Z * Z) * option receipt)%type.

(** dump entry: storage key (parsed), stored address spelling, balance, frozen *)
Definition dent : Type := (key * bytes * (Z * Z))%type.

(** monomorphic constructors for the generated case files (they elaborate
    much faster than nested polymorphic pairs) *)
Inductive rbI := P (b f : Z).
Inductive xoI := XN | XS (x : bytes).
(* receipt entry in the usual shape: KV i = (k, {a, cb, cf}) and log i =
   {ty, x, Prev {a, pb, pf}, Current {a, cb, cf}} *)
Inductive entI := E (ty : Z) (x : xoI) (k : key) (a : bytes) (pb pf cb cf : Z).
Inductive kvI := KV (k : key) (a : bytes) (b f : Z).
Inductive logI := LG (ty : Z) (x : xoI) (pa : bytes) (pb pf : Z) (ca : bytes) (cb cf : Z).
(* RN: nil receipt; RA: the usual shape; RG: anything else, verbatim *)
Inductive rcI := RN | RA (rty : Z) (es : list entI)
               | RG (rty : Z) (kvs : list kvI) (logs : list logI).
Inductive obsI := Ob (o : op) (r : res) (rb : list rbI) (rc : rcI).
Inductive dentI := DE (k : key) (a : bytes) (b f : Z).
Definition rb_of (p : rbI) : Z * Z := match p with P b f => (b, f) end.
Definition xo_of (x : xoI) : option bytes := match x with XN => None | XS b => Some b end.
Definition ent_kv (e : entI) : key * acct :=
  match e with E _ _ k a _ _ cb cf => (k, mkAcct a cb cf) end.
Definition ent_log (e : entI) : rlog :=
  match e with E ty x _ a pb pf cb cf => mkLog ty (xo_of x) (mkAcct a pb pf) (mkAcct a cb cf) end.
Definition kv_of (e : kvI) : key * acct := match e with KV k a b f => (k, mkAcct a b f) end.
Definition log_of (l : logI) : rlog :=
  match l with
  | LG ty x pa pb pf ca cb cf => mkLog ty (xo_of x) (mkAcct pa pb pf) (mkAcct ca cb cf)
  end.
Definition rc_of (r : rcI) : option receipt :=
  match r with
  | RN => None
  | RA rty es => Some (mkRcpt rty (map ent_kv es) (map ent_log es))
  | RG rty kvs logs => Some (mkRcpt rty (map kv_of kvs) (map log_of logs))
  end.
Definition obs_of (x : obsI) : obs :=
  match x with Ob o r rb rc => (o, r, map rb_of rb, rc_of rc) end.
Definition dent_of (x : dentI) : dent := match x with DE k a b f => (k, a, (b, f)) end.

(** coins transaction with what the driver returned *)
Inductive txI := T (h : Z) (from to : bytes) (act : cact) (r : cres) (rb : list rbI) (rc : rcI).

(** operation through ledger number [li] of a shared store; [rbs]: read-backs
    of [touched o] through every ledger *)
Inductive mobsI := MOb (li : N) (o : op) (r : res) (rbs : list (list rbI)).
(** raw dump entry of the shared store: the byte key as a list of chunks *)
Inductive fdentI := FD (k : list bytes) (a : bytes) (b f : Z).
(** NewAccountDB attempt: execer, symbol, result *)
Inductive newI := NW (e s : bytes) (r : newres).

Inductive case :=
| Hist (guarded : bool) (miners : list bytes) (hI : list obsI) (dumpI : list dentI)
| Coins (guarded : bool) (env : cenv) (txs : list txI) (dumpI : list dentI)
| Multi (news : list newI) (miners : list bytes) (hI : list mobsI) (dumpI : list fdentI).

(** ** known-finding signatures (narrow; evaluated on the first divergence only) *)

Definition exec_param (o : op) : option bytes :=
  match o with
  | OTransferToExec _ t _ | OTransferWithdraw _ t _ => Some t
  | OExecFrozen _ x _ | OExecActive _ x _ | OExecTransfer _ _ x _ | OExecTransferFrozen _ _ x _
  | OExecDeposit _ x _ | OExecWithdraw x _ _ | OExecDepositFrozen _ x _
  | OGenesisInitExec _ _ x => Some x
  | _ => None
  end.

Definition spelling_clash (x : bytes) (o' : op) : bool :=
  match exec_param o' with
  | Some x' => negb (bytes_eqb x x') && bytes_eqb (norm x) (norm x')
  | None => false
  end.

Definition exec_spelling_clash (prev : list op) (o : op) : bool :=
  match exec_param o with
  | Some x => existsb (spelling_clash x) prev
  | None => false
  end.

Fixpoint spellings_consistent (prev : list op) (ops : list op) : bool :=
  match ops with
  | [] => true
  | o :: tl => negb (exec_spelling_clash prev o) && spellings_consistent (o :: prev) tl
  end.

Definition kf_code (prev : list op) (o : op) (r : res) : N :=
  match o, r with
  | OExecTransfer f t _ _, _ | OExecTransferFrozen f t _ _, _ =>
      if negb (norm_distinct f t) then 1%N
      else if exec_spelling_clash prev o then 4%N else 0%N
  | OTransferWithdraw _ _ _, RPanic | OGenesisInitExec _ _ _, RPanic => 2%N
  | OGenesisInit _ m, _ => if m <? 0 then 3%N else 0%N
  | OExecDeposit _ _ _, _ =>
      if exec_spelling_clash prev o then 4%N
      else if two63 <=? zsum dep_budget (o :: prev) then 5%N else 0%N
  | _, _ => if exec_spelling_clash prev o then 4%N else 0%N
  end.

(** ** receipts *)

Definition log_eqb (a b : rlog) : bool :=
  (l_ty a =? l_ty b) && option_eqb bytes_eqb (l_exec a) (l_exec b) &&
  acct_eqb (l_prev a) (l_prev b) && acct_eqb (l_cur a) (l_cur b).

Definition kv_eqb (a b : key * acct) : bool := key_eqb (fst a) (fst b) && acct_eqb (snd a) (snd b).

Definition receipt_eqb (a b : receipt) : bool :=
  (r_ty a =? r_ty b) && list_eqb kv_eqb (r_kv a) (r_kv b) && list_eqb log_eqb (r_logs a) (r_logs b).

Definition is_ok (r : res) : bool := match r with ROk => true | _ => false end.

(** ** the fold over one account.DB history *)

Definition rb_eqb (a b : list (Z * Z)) : bool := list_eqb pair_eqb a b.

(* state of the fold: model ledger, all model outputs agreed so far, spec view,
   ledger according to the receipts, first spec divergence (None = none yet),
   operations so far (reversed) *)
Record fstate := mkF {
  f_s : ledger; f_m : bool; f_v : view; f_rv : ledger; f_div : option N; f_prev : list op }.

Definition fold_obs (miners : list bytes) (st : fstate) (ob : obs) : fstate :=
  let '(o, r, rb, rc) := ob in
  let '(s', mr, mrc) := step_r miners (f_s st) o in
  let m_ok := res_eqb mr r && rb_eqb (map (answer s') (touched o)) rb
              && option_eqb receipt_eqb mrc rc in
  let (v', s_ok) := obs_step (f_v st) o r rb in
  let (rv', rc_ok) := rcpt_step (f_rv st) (is_ok r) rc in
  let div :=
    match f_div st with
    | Some c => Some c
    | None => if s_ok && rc_ok then None else Some (kf_code (f_prev st) o r)
    end in
  mkF s' (f_m st && m_ok) v' rv' div (o :: f_prev st).

Definition dent_eqb (s : ledger) (e : dent) : bool :=
  let '(k, a, p) := e in
  match get k s with
  | Some r => bytes_eqb (a_addr r) a && pair_eqb (a_bal r, a_frz r) p
  | None => false
  end.

Definition dump_agrees (s : ledger) (dump : list dent) : bool :=
  Nat.eqb (length s) (length dump) && forallb (dent_eqb s) dump.

Definition dent_kv (e : dent) : key * acct :=
  let '(k, a, p) := e in (k, mkAcct a (fst p) (snd p)).

Definition check_hist (guarded : bool) (miners : list bytes) (h : list obs) (dump : list dent)
  : verdict :=
  let ops := map (fun ob => fst (fst (fst ob))) h in
  let st := fold_left (fold_obs miners) h (mkF [] true [] [] None []) in
  let m := f_m st && dump_agrees (f_s st) dump
           && (if guarded then hist_guard [] ops && spellings_consistent [] ops else true) in
  match f_div st with
  | Some c => (m, false, if guarded then 0%N else c)
  | None =>
      let fin := final_ok (f_v st) (map (fun e => (fst (fst e), snd e)) dump)
                 && rv_final (f_rv st) (map dent_kv dump) in
      (m, fin, 0%N)
  end.

(** ** coins transactions *)

Record cstate := mkC { c_s : ledger; c_m : bool; c_v : view; c_rv : ledger; c_ok : bool }.

Definition tx_of (x : txI) : ctx := match x with T h f t a _ _ _ => mkTx h f t a end.

Definition is_cok (r : cres) : bool := match r with COk => true | _ => false end.

Definition fold_tx (env : cenv) (st : cstate) (x : txI) : cstate :=
  match x with
  | T h f t a r rbI rcI =>
      let tx := mkTx h f t a in
      let rb := map rb_of rbI in
      let rc := rc_of rcI in
      let '(s', mr, mrc) := coins_tx env (c_s st) tx in
      let m_ok := cres_eqb mr r && rb_eqb (map (answer s') (tx_touched env tx)) rb
                  && option_eqb receipt_eqb mrc rc in
      let (v', s_ok) := coins_obs_step env (c_v st) tx r rb in
      let (rv', rc_ok) := rcpt_step (c_rv st) (is_cok r) rc in
      mkC s' (c_m st && m_ok) v' rv' (c_ok st && s_ok && rc_ok)
  end.

Definition check_coins (guarded : bool) (env : cenv) (txs : list txI) (dump : list dent)
  : verdict :=
  let st := fold_left (fold_tx env) txs (mkC [] true [] [] true) in
  let m := c_m st && dump_agrees (c_s st) dump
           && (if guarded then coins_guard env [] (map tx_of txs) else true) in
  let fin := final_ok (c_v st) (map (fun e => (fst (fst e), snd e)) dump)
             && rv_final (c_rv st) (map dent_kv dump) in
  mk_verdict m (c_ok st && fin).

(** ** several ledgers on one store *)

Definition new_of (x : newI) : lid * newres := match x with NW e s r => ((e, s), r) end.

Record mstate := mkM { m_w : flat; m_m : bool; m_vs : list view; m_ok : bool }.

Definition fold_mobs (lids : list lid) (miners : list bytes) (st : mstate) (x : mobsI) : mstate :=
  match x with
  | MOb li o r rbsI =>
      let i := N.to_nat li in
      let rbs := map (map rb_of) rbsI in
      let l := nth i lids ([], []) in
      let (w', mr) := fstep l miners (m_w st) o in
      let m_ok' := res_eqb mr r &&
                   list_eqb rb_eqb (map (fun l' => map (fanswer l' w') (touched o)) lids) rbs in
      let (vs', s_ok) := multi_obs_step (m_vs st) i o r rbs in
      mkM w' (m_m st && m_ok') vs' (m_ok st && s_ok)
  end.

Definition fdent_key (e : fdentI) : bytes := match e with FD k _ _ _ => concat k end.

Definition fdent_eqb (w : flat) (e : fdentI) : bool :=
  match e with
  | FD k a b f =>
      match fget (concat k) w with
      | Some r => acct_eqb r (mkAcct a b f)
      | None => false
      end
  end.

(* operations of ledger [i] in order, for the guard of the ledger theorems *)
Definition ops_of_ledger (i : nat) (h : list mobsI) : list op :=
  flat_map (fun x => match x with MOb li o _ _ => if Nat.eqb (N.to_nat li) i then [o] else [] end) h.

Definition check_multi (news : list newI) (miners : list bytes) (h : list mobsI)
  (dump : list fdentI) : verdict :=
  let tried := map new_of news in
  (* the ledgers in use: the attempts that were accepted, in order *)
  let lids := map fst (filter (fun p => match snd p with NOk => true | _ => false end) tried) in
  let new_agree :=
    forallb (fun p => match new_account_db (fst p), snd p with
                      | NOk, NOk | NExecName, NExecName | NSymbol, NSymbol => true
                      | _, _ => false
                      end) tried in
  let st := fold_left (fold_mobs lids miners) h (mkM [] true (map (fun _ => []) lids) true) in
  let guards :=
    forallb (fun i => let ops := ops_of_ledger i h in
                      hist_guard [] ops && spellings_consistent [] ops && forallb op_keys_ok ops)
            (seq 0 (length lids)) in
  let m := m_m st && new_agree && guards &&
           Nat.eqb (length (m_w st)) (length dump) && forallb (fdent_eqb (m_w st)) dump in
  (* spec: accepted names have no '-', the key spaces partition the store *)
  let fin := forallb lid_ok lids && keys_partitioned lids (map fdent_key dump) in
  mk_verdict m (m_ok st && fin).

Definition check_case (c : case) : verdict :=
  match c with
  | Hist guarded miners hI dumpI => check_hist guarded miners (map obs_of hI) (map dent_of dumpI)
  | Coins guarded env txs dumpI => check_coins guarded env txs (map dent_of dumpI)
  | Multi news miners hI dumpI => check_multi news miners hI dumpI
  end.
