(** C15 — correspondence cases: one operation history on an empty ledger with
    everything the Go implementation returned. *)
From Coq Require Import List ZArith NArith Bool.
From C33 Require Export Lib.Harness C15.Model C15.Spec.
Import ListNotations.
Open Scope Z_scope.

(** one executed operation: the call, the result class, and the (balance,
    frozen) pairs read back through LoadAccount/LoadExecAccount for
    [touched o], in that order *)
Definition obs : Type := (op * res * list (Z * Z))%type.

(** dump entry: storage key (parsed), stored address spelling, balance, frozen *)
Definition dent : Type := (key * bytes * (Z * Z))%type.

(** monomorphic constructors for the generated case files (they elaborate
    much faster than nested polymorphic pairs) *)
Inductive rbI := P (b f : Z).
Inductive obsI := Ob (o : op) (r : res) (rb : list rbI).
Inductive dentI := DE (k : key) (a : bytes) (b f : Z).
Definition rb_of (p : rbI) : Z * Z := match p with P b f => (b, f) end.
Definition obs_of (x : obsI) : obs := match x with Ob o r rb => (o, r, map rb_of rb) end.
Definition dent_of (x : dentI) : dent := match x with DE k a b f => (k, a, (b, f)) end.

Inductive case :=
| Hist (guarded : bool) (miners : list bytes) (hI : list obsI) (dumpI : list dentI).

(** ** known-finding signatures (narrow; evaluated on the first divergence only) *)

Definition exec_param (o : op) : option bytes :=
  match o with
  | OTransferToExec _ t _ | OTransferWithdraw _ t _ => Some t
  | OExecFrozen _ x _ | OExecActive _ x _ | OExecTransfer _ _ x _ | OExecTransferFrozen _ _ x _
  | OExecDeposit _ x _ | OExecWithdraw x _ _ | OExecDepositFrozen _ x _
  | OGenesisInitExec _ _ x => Some x
  | _ => None
  end.

Definition spelling_clash (x : bytes) (o' : op) : bool :=
  match exec_param o' with
  | Some x' => negb (bytes_eqb x x') && bytes_eqb (norm x) (norm x')
  | None => false
  end.

Definition exec_spelling_clash (prev : list op) (o : op) : bool :=
  match exec_param o with
  | Some x => existsb (spelling_clash x) prev
  | None => false
  end.

Fixpoint spellings_consistent (prev : list op) (ops : list op) : bool :=
  match ops with
  | [] => true
  | o :: tl => negb (exec_spelling_clash prev o) && spellings_consistent (o :: prev) tl
  end.

Definition kf_code (prev : list op) (o : op) (r : res) : N :=
  match o, r with
  | OExecTransfer f t _ _, _ | OExecTransferFrozen f t _ _, _ =>
      if negb (norm_distinct f t) then 1%N
      else if exec_spelling_clash prev o then 4%N else 0%N
  | OTransferWithdraw _ _ _, RPanic | OGenesisInitExec _ _ _, RPanic => 2%N
  | OGenesisInit _ m, _ => if m <? 0 then 3%N else 0%N
  | OExecDeposit _ _ _, _ =>
      if exec_spelling_clash prev o then 4%N
      else if two63 <=? zsum dep_budget (o :: prev) then 5%N else 0%N
  | _, _ => if exec_spelling_clash prev o then 4%N else 0%N
  end.

(** ** the fold *)

Definition rb_eqb (a b : list (Z * Z)) : bool := list_eqb pair_eqb a b.

(* state of the fold: model ledger, all model outputs agreed so far, spec view,
   first spec divergence (None = none yet), operations so far (reversed) *)
Record fstate := mkF {
  f_s : ledger; f_m : bool; f_v : view; f_div : option N; f_prev : list op }.

Definition fold_obs (miners : list bytes) (st : fstate) (ob : obs) : fstate :=
  let '(o, r, rb) := ob in
  let (s', mr) := step miners (f_s st) o in
  let m_ok := res_eqb mr r && rb_eqb (map (answer s') (touched o)) rb in
  let (v', s_ok) := obs_step (f_v st) o r rb in
  let div :=
    match f_div st with
    | Some c => Some c
    | None => if s_ok then None else Some (kf_code (f_prev st) o r)
    end in
  mkF s' (f_m st && m_ok) v' div (o :: f_prev st).

Definition dent_eqb (s : ledger) (e : dent) : bool :=
  let '(k, a, p) := e in
  match get k s with
  | Some r => bytes_eqb (a_addr r) a && pair_eqb (a_bal r, a_frz r) p
  | None => false
  end.

Definition dump_agrees (s : ledger) (dump : list dent) : bool :=
  Nat.eqb (length s) (length dump) && forallb (dent_eqb s) dump.

Definition check_case (c : case) : verdict :=
  match c with
  | Hist guarded miners hI dumpI =>
      let h := map obs_of hI in
      let dump := map dent_of dumpI in
      let ops := map (fun ob => fst (fst ob)) h in
      let st := fold_left (fold_obs miners) h (mkF [] true [] None []) in
      let m := f_m st && dump_agrees (f_s st) dump
               && (if guarded then hist_guard [] ops && spellings_consistent [] ops else true) in
      match f_div st with
      | Some c => (m, false, if guarded then 0%N else c)
      | None =>
          let fin := final_ok (f_v st) (map (fun e => (fst (fst e), snd e)) dump) in
          (m, fin, 0%N)
      end
  end.
