(** C15 — one ledger of the shared byte-keyed store behaves exactly like the
    structured-key model of Model.v, as long as the keys it touches decode
    uniquely (ModelFlat.op_keys_ok). *)
From Coq Require Import List ZArith NArith Bool Lia.
From C33 Require Import Lib.Harness C15.Model C15.ModelFlat C15.ProofsBase C15.ProofsReceipt
  C15.ProofsFlat.
Import ListNotations.
Open Scope Z_scope.

Lemma starts_with_app : forall p b, starts_with p (p ++ b) = true.
Proof. induction p as [|c p IH]; intro b; simpl; [reflexivity|]. rewrite N.eqb_refl. apply IH. Qed.

Lemma split_at_colon : forall a a' b b',
  no_colon a = true -> no_colon a' = true ->
  a ++ colon :: b = a' ++ colon :: b' -> a = a' /\ b = b'.
Proof.
  unfold no_colon.
  induction a as [|c a IH]; intros a' b b' Ha Ha' E.
  - destruct a' as [|c' a']; simpl in E.
    + injection E as E. split; [reflexivity|exact E].
    + injection E as E1 E2. subst c'. cbn in Ha'. discriminate Ha'.
  - destruct a' as [|c' a']; simpl in E.
    + injection E as E1 E2. subst c. cbn in Ha. discriminate Ha.
    + injection E as E1 E2. subst c'. simpl in Ha, Ha'.
      apply negb_true_iff in Ha, Ha'.
      apply orb_false_iff in Ha as [_ Ha]. apply orb_false_iff in Ha' as [_ Ha'].
      destruct (IH a' b b') as [-> ->]; try (apply negb_true_iff; assumption); try exact E2.
      split; reflexivity.
Qed.

Lemma key_rest_inj : forall k k',
  key_ok k = true -> key_ok k' = true -> key_rest k = key_rest k' -> k = k'.
Proof.
  intros [a|x a] [a'|x' a'] H H' E; cbn [key_ok key_rest] in *.
  - congruence.
  - subst a. rewrite starts_with_app in H. discriminate H.
  - subst a'. rewrite starts_with_app in H'. discriminate H'.
  - apply app_inv_head in E.
    destruct (split_at_colon _ _ _ _ H H' E) as [-> ->]. reflexivity.
Qed.

Lemma flat_key_inj : forall l k k',
  key_ok k = true -> key_ok k' = true -> flat_key l k = flat_key l k' -> k = k'.
Proof.
  intros l k k' H H' E. unfold flat_key in E. apply app_inv_head in E.
  apply key_rest_inj; assumption.
Qed.

(** the relation: the byte-keyed store holds, under the keys of ledger [l],
    what the structured ledger holds *)
Definition flat_rel (l : lid) (s : ledger) (w : flat) : Prop :=
  forall k, key_ok k = true -> fget (flat_key l k) w = get k s.

Lemma flat_rel_empty : forall l, flat_rel l [] [].
Proof. intros l k _. reflexivity. Qed.

Section Sim.
  Variable l : lid.
  Local Notation fg := (fun k => fget (flat_key l k)).
  Local Notation fp := (fun k => fput (flat_key l k)).

  Lemma rel_put : forall s w k r,
    flat_rel l s w -> key_ok k = true -> flat_rel l (put k r s) (fput (flat_key l k) r w).
  Proof.
    intros s w k r R Hk k' Hk'.
    destruct (key_eqb k k') eqn:E.
    - apply key_eqb_eq in E. subst k'. rewrite fget_fput_same, get_put_same. reflexivity.
    - apply key_eqb_neq in E. rewrite get_put_other by exact E.
      rewrite fget_fput_other; [apply R; exact Hk'|].
      intro F. apply E. apply (flat_key_inj l); assumption.
  Qed.

  Lemma rel_load_main : forall s w a, flat_rel l s w -> key_ok (MainK (norm a)) = true ->
    gload_main flat fg w a = load_main s a.
  Proof. intros s w a R H. unfold gload_main, load_main. rewrite (R _ H). reflexivity. Qed.

  Lemma rel_load_sub : forall s w a x, flat_rel l s w -> key_ok (SubK x (norm a)) = true ->
    gload_sub flat fg w a x = load_sub s a x.
  Proof. intros s w a x R H. unfold gload_sub, load_sub. rewrite (R _ H). reflexivity. Qed.

  (* saving a record derived from the loaded one writes the loaded key *)
  Lemma rel_save_main : forall s0 s w a r,
    keys_ok s0 = true -> flat_rel l s w -> key_ok (MainK (norm a)) = true ->
    a_addr r = a_addr (load_main s0 a) ->
    flat_rel l (save_main s r) (gsave_main flat fp w r).
  Proof.
    intros s0 s w a r K R H E. unfold save_main, gsave_main.
    apply rel_put; [exact R|]. rewrite E, (load_main_norm s0 a K). exact H.
  Qed.

  Lemma rel_save_sub : forall s0 s w a x r,
    keys_ok s0 = true -> flat_rel l s w -> key_ok (SubK x (norm a)) = true ->
    a_addr r = a_addr (load_sub s0 a x) ->
    flat_rel l (save_sub s x r) (gsave_sub flat fp w x r).
  Proof.
    intros s0 s w a x r K R H E. unfold save_sub, gsave_sub.
    apply rel_put; [exact R|]. exact H.
  Qed.

  Definition sim (p : ledger * res) (q : flat * res) : Prop :=
    snd p = snd q /\ flat_rel l (fst p) (fst q).

  Ltac sim_ifs :=
    repeat match goal with
    | |- context [if ?c then _ else _] => destruct c
    | |- context [match safe_add ?a ?b with _ => _ end] => destruct (safe_add a b)
    end; split; cbn [fst snd]; try reflexivity; try assumption.

  Lemma sim_transfer : forall s w f t m,
    flat_rel l s w -> keys_ok s = true ->
    key_ok (MainK (norm f)) = true -> key_ok (MainK (norm t)) = true ->
    sim (transfer s f t m) (gtransfer flat fg fp w f t m).
  Proof.
    intros s w f t m R K Hf Ht. unfold transfer, gtransfer.
    rewrite (rel_load_main s w f R Hf), (rel_load_main s w t R Ht). sim_ifs.
    eapply (rel_save_main s _ _ t); [exact K| |exact Ht|reflexivity].
    eapply (rel_save_main s _ _ f); [exact K|exact R|exact Hf|reflexivity].
  Qed.

  Lemma sim_check_transfer : forall s w a m,
    flat_rel l s w -> key_ok (MainK (norm a)) = true ->
    check_transfer s a m = gcheck_transfer flat fg w a m.
  Proof.
    intros s w a m R H. unfold check_transfer, gcheck_transfer.
    rewrite (rel_load_main s w a R H). reflexivity.
  Qed.

  Lemma sim_deposit_balance : forall s w x m,
    flat_rel l s w -> keys_ok s = true -> key_ok (MainK (norm x)) = true ->
    sim (deposit_balance s x m) (gdeposit_balance flat fg fp w x m).
  Proof.
    intros s w x m R K H. unfold deposit_balance, gdeposit_balance.
    rewrite (rel_load_main s w x R H). sim_ifs.
    eapply (rel_save_main s _ _ x); [exact K|exact R|exact H|reflexivity].
  Qed.

  Lemma sim_genesis_init : forall s w a m,
    flat_rel l s w -> keys_ok s = true -> key_ok (MainK (norm a)) = true ->
    sim (genesis_init s a m) (ggenesis_init flat fg fp w a m).
  Proof.
    intros s w a m R K H. unfold genesis_init, ggenesis_init.
    rewrite (rel_load_main s w a R H). sim_ifs.
    eapply (rel_save_main s _ _ a); [exact K|exact R|exact H|reflexivity].
  Qed.

  Lemma sim_burn : forall s w a m,
    flat_rel l s w -> keys_ok s = true -> key_ok (MainK (norm a)) = true ->
    sim (burn s a m) (gburn flat fg fp w a m).
  Proof.
    intros s w a m R K H. unfold burn, gburn.
    rewrite (rel_load_main s w a R H). sim_ifs.
    eapply (rel_save_main s _ _ a); [exact K|exact R|exact H|reflexivity].
  Qed.

  Ltac sub1 s a x K R H :=
    eapply (rel_save_sub s _ _ a x); [exact K|exact R|exact H|reflexivity].

  Lemma sim_exec_frozen : forall s w a x m,
    flat_rel l s w -> keys_ok s = true -> key_ok (SubK x (norm a)) = true ->
    sim (exec_frozen s a x m) (gexec_frozen flat fg fp w a x m).
  Proof.
    intros s w a x m R K H. unfold exec_frozen, gexec_frozen.
    rewrite (rel_load_sub s w a x R H). sim_ifs. sub1 s a x K R H.
  Qed.

  Lemma sim_exec_active : forall s w a x m,
    flat_rel l s w -> keys_ok s = true -> key_ok (SubK x (norm a)) = true ->
    sim (exec_active s a x m) (gexec_active flat fg fp w a x m).
  Proof.
    intros s w a x m R K H. unfold exec_active, gexec_active.
    rewrite (rel_load_sub s w a x R H). sim_ifs. sub1 s a x K R H.
  Qed.

  Lemma sim_exec_deposit : forall s w a x m,
    flat_rel l s w -> keys_ok s = true -> key_ok (SubK x (norm a)) = true ->
    sim (exec_deposit s a x m) (gexec_deposit flat fg fp w a x m).
  Proof.
    intros s w a x m R K H. unfold exec_deposit, gexec_deposit.
    rewrite (rel_load_sub s w a x R H). sim_ifs. sub1 s a x K R H.
  Qed.

  Lemma sim_exec_deposit_frozen_inner : forall s w a x m,
    flat_rel l s w -> keys_ok s = true -> key_ok (SubK x (norm a)) = true ->
    sim (exec_deposit_frozen_inner s a x m) (gexec_deposit_frozen_inner flat fg fp w a x m).
  Proof.
    intros s w a x m R K H. unfold exec_deposit_frozen_inner, gexec_deposit_frozen_inner.
    rewrite (rel_load_sub s w a x R H). sim_ifs. sub1 s a x K R H.
  Qed.

  Lemma sim_exec_withdraw : forall s w x a m,
    flat_rel l s w -> keys_ok s = true -> key_ok (SubK x (norm a)) = true ->
    sim (exec_withdraw s x a m) (gexec_withdraw flat fg fp w x a m).
  Proof.
    intros s w x a m R K H. unfold exec_withdraw, gexec_withdraw.
    rewrite (rel_load_sub s w a x R H). sim_ifs. sub1 s a x K R H.
  Qed.

  Lemma sim_exec_transfer : forall s w f t x m,
    flat_rel l s w -> keys_ok s = true ->
    key_ok (SubK x (norm f)) = true -> key_ok (SubK x (norm t)) = true ->
    sim (exec_transfer s f t x m) (gexec_transfer flat fg fp w f t x m).
  Proof.
    intros s w f t x m R K Hf Ht. unfold exec_transfer, gexec_transfer.
    rewrite (rel_load_sub s w f x R Hf), (rel_load_sub s w t x R Ht). sim_ifs.
    eapply (rel_save_sub s _ _ t x); [exact K| |exact Ht|reflexivity].
    eapply (rel_save_sub s _ _ f x); [exact K|exact R|exact Hf|reflexivity].
  Qed.

  Lemma sim_exec_transfer_frozen : forall s w f t x m,
    flat_rel l s w -> keys_ok s = true ->
    key_ok (SubK x (norm f)) = true -> key_ok (SubK x (norm t)) = true ->
    sim (exec_transfer_frozen s f t x m) (gexec_transfer_frozen flat fg fp w f t x m).
  Proof.
    intros s w f t x m R K Hf Ht. unfold exec_transfer_frozen, gexec_transfer_frozen.
    rewrite (rel_load_sub s w f x R Hf), (rel_load_sub s w t x R Ht). sim_ifs.
    eapply (rel_save_sub s _ _ t x); [exact K| |exact Ht|reflexivity].
    eapply (rel_save_sub s _ _ f x); [exact K|exact R|exact Hf|reflexivity].
  Qed.

  Lemma sim_exec_issue : forall miners s w x m,
    flat_rel l s w -> keys_ok s = true -> key_ok (MainK (norm x)) = true ->
    sim (exec_issue miners s x m) (gexec_issue flat fg fp miners w x m).
  Proof.
    intros miners s w x m R K H. unfold exec_issue, gexec_issue.
    destruct (existsb (bytes_eqb x) miners); [|split; [reflexivity|exact R]].
    apply sim_deposit_balance; assumption.
  Qed.
End Sim.
