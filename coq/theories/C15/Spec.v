(** C15 — the abstract side: what the property text demands.

    Part 1: sums, the supply-delta table, the boolean guards of the partial
    theorems and the ledger invariant (used by Proofs/Properties).
    Part 2: the executable oracle that is evaluated on the balances the
    IMPLEMENTATION reported (used by Check). *)
From Coq Require Import List ZArith NArith Bool.
From C33 Require Import Lib.Harness C15.Model.
Import ListNotations.
Open Scope Z_scope.

(** * Part 1 *)

Definition val (r : acct) : Z := a_bal r + a_frz r.

Definition wsum (w : key -> acct -> Z) (s : ledger) : Z :=
  fold_right (fun kr acc => w (fst kr) (snd kr) + acc) 0 s.

(** linear weights: a main account under key [a] counts [cm a] per unit of
    balance and [cf a] per unit of frozen, a sub-account under executor
    spelling [x] counts [cs x] per unit of balance+frozen *)
Definition lw (cm cf cs : bytes -> Z) (k : key) (r : acct) : Z :=
  match k with
  | MainK a => cm a * a_bal r + cf a * a_frz r
  | SubK x _ => cs x * val r
  end.

Definition c0 (_ : bytes) : Z := 0.
Definition c1 (_ : bytes) : Z := 1.

(** total supply = everything held by main accounts (what GetTotalCoins walks);
    the executor sub-ledgers are accounted for separately *)
Definition main_total (s : ledger) : Z := wsum (lw c1 c1 c0) s.
Definition sub_total (s : ledger) : Z := wsum (lw c0 c0 c1) s.

(** executor [e] (a normalised address): its own balance minus everything held
    under any spelling of it *)
Definition ind (e a : bytes) : Z := if bytes_eqb a e then 1 else 0.
Definition gap (e : bytes) (s : ledger) : Z :=
  wsum (lw (ind e) c0 (fun x => - ind e (norm x))) s.

(** change of a weighted sum by a successful operation *)
Definition gdelta (cm cs : bytes -> Z) (o : op) : Z :=
  match o with
  | OTransfer f t m => (cm (norm t) - cm (norm f)) * m
  | OTransferToExec f t m => (cm (norm t) - cm (norm f)) * m + cs t * m
  | OTransferWithdraw f t m => (cm (norm f) - cm (norm t)) * m - cs t * m
  | OExecFrozen _ _ _ | OExecActive _ _ _ | OExecTransfer _ _ _ _ | OExecTransferFrozen _ _ _ _ => 0
  | OExecDeposit _ x m => cs x * m
  | OExecWithdraw x _ m => - (cs x * m)
  | OExecDepositFrozen _ x m | OGenesisInitExec _ m x => cm (norm x) * m + cs x * m
  | OExecIssueCoins x m => cm (norm x) * m
  | OMint a m | OGenesisInit a m => cm (norm a) * m
  | OBurn a m => - (cm (norm a) * m)
  end.

(** the documented supply changes of a SUCCESSFUL operation *)
Definition main_delta (o : op) : Z :=
  match o with
  | OMint _ m | OGenesisInit _ m | OGenesisInitExec _ m _ | OExecIssueCoins _ m
  | OExecDepositFrozen _ _ m => m
  | OBurn _ m => - m
  | _ => 0
  end.

Definition sub_delta (o : op) : Z :=
  match o with
  | OTransferToExec _ _ m | OExecDeposit _ _ m | OExecDepositFrozen _ _ m
  | OGenesisInitExec _ m _ => m
  | OTransferWithdraw _ _ m | OExecWithdraw _ _ m => - m
  | _ => 0
  end.

(** change of [gap e]: zero exactly for the operations that keep an executor's
    own balance in step with its sub-ledger *)
Definition gap_delta (e : bytes) (o : op) : Z := gdelta (ind e) (fun x => - ind e (norm x)) o.

(** guards *)
Definition norm_distinct (a b : bytes) : bool :=
  bytes_eqb a b || negb (bytes_eqb (norm a) (norm b)).

Definition op_guard (o : op) : bool :=
  match o with
  | OExecTransfer f t _ _ | OExecTransferFrozen f t _ _ => norm_distinct f t
  | OTransferWithdraw f t _ => norm_distinct f t
  | OGenesisInit _ m => (0 <=? m) && (m <? two63)
  | OGenesisInitExec a m x => check_amount m && negb (bytes_eqb a x)
  | _ => true
  end.

Definition mint_budget (o : op) : Z :=
  match o with
  | OMint _ m | OGenesisInit _ m | OGenesisInitExec _ m _ | OExecIssueCoins _ m
  | OExecDepositFrozen _ _ m => Z.max 0 m
  | _ => 0
  end.

Definition dep_budget (o : op) : Z :=
  match o with
  | OTransferToExec _ _ m | OExecDeposit _ _ m | OExecDepositFrozen _ _ m
  | OGenesisInitExec _ m _ => Z.max 0 m
  | _ => 0
  end.

Definition zsum (f : op -> Z) (ops : list op) : Z := fold_right (fun o acc => f o + acc) 0 ops.

Definition headroom (s : ledger) (ops : list op) : bool :=
  (main_total s + zsum mint_budget ops <=? max_token) &&
  (sub_total s + zsum dep_budget ops <? two63).

Definition hist_guard (s : ledger) (ops : list op) : bool :=
  forallb op_guard ops && headroom s ops.

(** ledger invariant: every record sits under the key of the address it
    stores, and nothing is negative *)
Definition rec_okb (kr : key * acct) : bool :=
  let (k, r) := kr in
  (match k with
   | MainK a => bytes_eqb (norm (a_addr r)) a
   | SubK _ a => bytes_eqb (norm (a_addr r)) a
   end) && (0 <=? a_bal r) && (0 <=? a_frz r).

Definition ledger_ok (s : ledger) : bool := forallb rec_okb s.

(** successful operations of a history, with the state they ran in *)
Fixpoint deltas (miners : list bytes) (f : op -> Z) (s : ledger) (ops : list op) : Z :=
  match ops with
  | [] => 0
  | o :: tl =>
      let (s', r) := step miners s o in
      (match r with ROk => f o | _ => 0 end) + deltas miners f s' tl
  end.

(** * Part 2: oracle on observed balances *)

Inductive ident := IMain (k : bytes) | ISub (x k : bytes).

Definition ident_eqb (a b : ident) : bool :=
  match a, b with
  | IMain k, IMain k' => bytes_eqb k k'
  | ISub x k, ISub x' k' => bytes_eqb x x' && bytes_eqb k k'
  | _, _ => false
  end.

(** spellings that differ only in hex letter case are ONE account — also in
    the executor position *)
Definition ident_of (q : query) : ident :=
  match q with
  | QMain a => IMain (norm a)
  | QSub a x => ISub (norm x) (norm a)
  end.

Definition ident_of_key (k : key) : ident :=
  match k with
  | MainK a => IMain (norm a)
  | SubK x a => ISub (norm x) (norm a)
  end.

Definition view := list (ident * (Z * Z)).

Fixpoint vget (i : ident) (v : view) : Z * Z :=
  match v with
  | [] => (0, 0)
  | (j, p) :: tl => if ident_eqb i j then p else vget i tl
  end.

Fixpoint vput (i : ident) (p : Z * Z) (v : view) : view :=
  match v with
  | [] => [(i, p)]
  | (j, q) :: tl => if ident_eqb i j then (i, p) :: tl else (j, q) :: vput i p tl
  end.

Definition vadd (i : ident) (p : Z * Z) (v : view) : view :=
  let q := vget i v in vput i (fst p + fst q, snd p + snd q) v.

Definition pair_eqb (a b : Z * Z) : bool := (fst a =? fst b) && (snd a =? snd b).

Definition vtotal (main : bool) (v : view) : Z :=
  fold_right (fun e acc =>
    match fst e with
    | IMain _ => if main then fst (snd e) + snd (snd e) + acc else acc
    | ISub _ _ => if main then acc else fst (snd e) + snd (snd e) + acc
    end) 0 v.

(** the executor position of an operation that works on a sub-ledger,
    together with the holder *)
Definition exec_pair (o : op) : option (bytes * bytes) :=   (* (exec, holder) *)
  match o with
  | OTransferToExec f t _ | OTransferWithdraw f t _ => Some (t, f)
  | OExecDepositFrozen a x _ | OGenesisInitExec a _ x => Some (x, a)
  | _ => None
  end.

(** one observed step: [rb] are the (balance, frozen) pairs read back for
    [touched o] after the operation returned [r] *)
Definition obs_step (v : view) (o : op) (r : res) (rb : list (Z * Z)) : view * bool :=
  let qs := map ident_of (touched o) in
  if negb (Nat.eqb (length qs) (length rb)) then (v, false) else
  let obs := combine qs rb in
  let v' := fold_left (fun v p => vput (fst p) (snd p) v) obs v in
  let nonneg := forallb (fun p => (0 <=? fst (snd p)) && (0 <=? snd (snd p))) obs in
  let consistent := forallb (fun p => pair_eqb (vget (fst p) v') (snd p)) obs in
  let okres :=
    match r with
    | ROk =>
        (vtotal true v' - vtotal true v =? main_delta o) &&
        (vtotal false v' - vtotal false v =? sub_delta o) &&
        (match exec_pair o with
         | Some (x, a) =>
             let im := IMain (norm x) in
             let ih := ISub (norm x) (norm a) in
             (fst (vget im v') - fst (vget im v) =?
              (fst (vget ih v') + snd (vget ih v')) - (fst (vget ih v) + snd (vget ih v)))
         | None => true
         end)
    | _ => forallb (fun p => pair_eqb (vget (fst p) v) (snd p)) obs
    end in
  (v', nonneg && consistent && okres).

(** the final dump (one entry per storage record) against the view built
    from the read-backs: nothing was changed behind the back of the API *)
Definition final_ok (v : view) (dump : list (key * (Z * Z))) : bool :=
  let d := fold_left (fun acc e => vadd (ident_of_key (fst e)) (snd e) acc) dump [] in
  forallb (fun e => (0 <=? fst (snd e)) && (0 <=? snd (snd e))) dump &&
  forallb (fun e => pair_eqb (vget (fst e) v) (snd e)) d &&
  forallb (fun e => pair_eqb (vget (fst e) d) (snd e)) v.
