(** C15 — simulation of composite operations, one step, whole histories. *)
From Coq Require Import List ZArith NArith Bool Lia.
From C33 Require Import Lib.Harness C15.Model C15.ModelFlat C15.ProofsBase C15.ProofsReceipt
  C15.ProofsFlat C15.ProofsFlatSim.
Import ListNotations.
Open Scope Z_scope.

Section Sim2.
  Variable l : lid.
  Local Notation fg := (fun k => fget (flat_key l k)).
  Local Notation fp := (fun k => fput (flat_key l k)).
  Local Notation sim := (sim l).

  (* run the first part on both sides; continue only when it succeeded *)
  Ltac first_part S K1 s1 w1 r1 R1 :=
    let E1 := fresh "E1" in
    destruct S as [E1 R1];
    match type of E1 with snd ?p = snd ?q =>
      let r1' := fresh "r1'" in
      destruct p as [s1 r1]; destruct q as [w1 r1'];
      cbn [fst snd] in E1, R1, K1; subst r1'
    end.

  Lemma sim_transfer_to_exec : forall s w f t m,
    flat_rel l s w -> keys_ok s = true ->
    key_ok (MainK (norm f)) = true -> key_ok (MainK (norm t)) = true ->
    key_ok (SubK t (norm f)) = true ->
    sim (transfer_to_exec s f t m) (gtransfer_to_exec flat fg fp w f t m).
  Proof.
    intros s w f t m R K Hf Ht Hs. unfold transfer_to_exec, gtransfer_to_exec.
    pose proof (keys_ok_transfer s f t m K) as K1.
    first_part (sim_transfer l s w f t m R K Hf Ht) K1 s1 w1 r1 R1.
    destruct r1; try (split; [reflexivity|exact R]).
    pose proof (keys_ok_exec_deposit s1 f t m K1) as K2.
    first_part (sim_exec_deposit l s1 w1 f t m R1 K1 Hs) K2 s2 w2 r2 R2.
    destruct r2; split; try reflexivity; assumption.
  Qed.

  Lemma sim_transfer_withdraw : forall s w f t m,
    flat_rel l s w -> keys_ok s = true ->
    key_ok (MainK (norm f)) = true -> key_ok (MainK (norm t)) = true ->
    key_ok (SubK t (norm f)) = true ->
    sim (transfer_withdraw s f t m) (gtransfer_withdraw flat fg fp w f t m).
  Proof.
    intros s w f t m R K Hf Ht Hs. unfold transfer_withdraw, gtransfer_withdraw.
    rewrite <- (sim_check_transfer l s w t m R Ht).
    destruct (check_transfer s t m); try (split; [reflexivity|exact R]).
    pose proof (keys_ok_exec_withdraw s t f m K) as K1.
    first_part (sim_exec_withdraw l s w t f m R K Hs) K1 s1 w1 r1 R1.
    destruct r1; try (split; [reflexivity|exact R]).
    pose proof (keys_ok_transfer s1 t f m K1) as K2.
    first_part (sim_transfer l s1 w1 t f m R1 K1 Ht Hf) K2 s2 w2 r2 R2.
    destruct r2; split; try reflexivity; assumption.
  Qed.

  Lemma sim_exec_deposit_frozen : forall miners s w a x m,
    flat_rel l s w -> keys_ok s = true ->
    key_ok (MainK (norm x)) = true -> key_ok (SubK x (norm a)) = true ->
    sim (exec_deposit_frozen miners s a x m) (gexec_deposit_frozen flat fg fp miners w a x m).
  Proof.
    intros miners s w a x m R K Hx Hs. unfold exec_deposit_frozen, gexec_deposit_frozen.
    destruct (bytes_eqb a x); [split; [reflexivity|exact R]|].
    pose proof (keys_ok_exec_issue miners s x m K) as K1.
    first_part (sim_exec_issue l miners s w x m R K Hx) K1 s1 w1 r1 R1.
    destruct r1; try (split; [reflexivity|exact R]).
    pose proof (keys_ok_exec_deposit_frozen_inner s1 a x m K1) as K2.
    first_part (sim_exec_deposit_frozen_inner l s1 w1 a x m R1 K1 Hs) K2 s2 w2 r2 R2.
    destruct r2; split; try reflexivity; assumption.
  Qed.

  Lemma sim_genesis_init_exec : forall s w a m x,
    flat_rel l s w -> keys_ok s = true ->
    key_ok (MainK (norm x)) = true -> key_ok (SubK x (norm a)) = true ->
    sim (genesis_init_exec s a m x) (ggenesis_init_exec flat fg fp w a m x).
  Proof.
    intros s w a m x R K Hx Hs. unfold genesis_init_exec, ggenesis_init_exec.
    pose proof (keys_ok_genesis_init s x m K) as K1.
    first_part (sim_genesis_init l s w x m R K Hx) K1 s1 w1 r1 R1.
    destruct r1; try (split; [reflexivity|exact R]).
    pose proof (keys_ok_exec_deposit s1 a x m K1) as K2.
    first_part (sim_exec_deposit l s1 w1 a x m R1 K1 Hs) K2 s2 w2 r2 R2.
    destruct r2; split; try reflexivity; assumption.
  Qed.

  Ltac keys G :=
    unfold op_keys_ok in G; cbn [touched forallb qkey] in G;
    repeat match type of G with
    | (_ && _) = true => let G1 := fresh "G" in apply andb_true_iff in G as [G1 G]
    end.

  Theorem fstep_sim : forall miners s w o,
    flat_rel l s w -> keys_ok s = true -> op_keys_ok o = true ->
    sim (step miners s o) (fstep l miners w o).
  Proof.
    intros miners s w o R K G. unfold fstep. destruct o; cbn [step gstep]; keys G.
    - apply sim_transfer; assumption.
    - apply sim_transfer_to_exec; assumption.
    - apply sim_transfer_withdraw; assumption.
    - apply sim_exec_frozen; assumption.
    - apply sim_exec_active; assumption.
    - apply sim_exec_transfer; assumption.
    - apply sim_exec_transfer_frozen; assumption.
    - apply sim_exec_deposit; assumption.
    - apply sim_exec_withdraw; assumption.
    - apply sim_exec_deposit_frozen; assumption.
    - apply sim_exec_issue; assumption.
    - apply sim_deposit_balance; assumption.
    - apply sim_burn; assumption.
    - apply sim_genesis_init; assumption.
    - apply sim_genesis_init_exec; assumption.
  Qed.

  (** results of a history, operation by operation *)
  Fixpoint results (miners : list bytes) (s : ledger) (ops : list op) : list res :=
    match ops with
    | [] => []
    | o :: tl => snd (step miners s o) :: results miners (fst (step miners s o)) tl
    end.

  Fixpoint fresults (miners : list bytes) (w : flat) (ops : list op) : list res :=
    match ops with
    | [] => []
    | o :: tl => snd (fstep l miners w o) :: fresults miners (fst (fstep l miners w o)) tl
    end.

  Theorem frun_sim : forall miners ops s w,
    flat_rel l s w -> keys_ok s = true -> forallb op_keys_ok ops = true ->
    results miners s ops = fresults miners w ops /\
    flat_rel l (run miners s ops) (frun miners w (map (fun o => (l, o)) ops)) /\
    (forall q, key_ok (qkey q) = true ->
       fanswer l (frun miners w (map (fun o => (l, o)) ops)) q = answer (run miners s ops) q).
  Proof.
    intros miners ops. induction ops as [|o tl IH]; intros s w R K G.
    - split; [reflexivity|]. split; [exact R|].
      intros q Hq. unfold frun, run. cbn [map fold_left]. unfold fanswer, ganswer, answer.
      destruct q; cbn [qkey] in Hq;
        [rewrite (rel_load_main l s w a R Hq)|rewrite (rel_load_sub l s w a x R Hq)]; reflexivity.
    - simpl in G. apply andb_true_iff in G as [Go Gtl].
      destruct (fstep_sim miners s w o R K Go) as [E R1].
      pose proof (step_keys_ok miners s o K) as K1.
      destruct (IH _ _ R1 K1 Gtl) as (I1 & I2 & I3).
      change (run miners s (o :: tl)) with (run miners (fst (step miners s o)) tl).
      change (frun miners w (map (fun o0 => (l, o0)) (o :: tl)))
        with (frun miners (fst (fstep l miners w o)) (map (fun o0 => (l, o0)) tl)).
      cbn [results fresults]. rewrite E, I1. repeat split; assumption.
  Qed.
End Sim2.

(** non-vacuity: base58 and hex addresses pass the guard; a string that looks
    like a sub-account key does not, and really shares its byte key *)
From Coq Require Import String.
From C33 Require Import C15.Spec C15.ProofsOps C15.Proofs C15.ProofsRefute.

Example plain_history_keys_ok : forallb op_keys_ok plain_history = true.
Proof. vm_compute. reflexivity. Qed.

Example odd_address_collides :
  let l := (bs "coins"%string, bs "bty"%string) in
  let a := bs "exec-a:b"%string in
  op_keys_ok (OMint a 5) = false /\
  flat_key l (MainK a) = flat_key l (SubK (bs "a"%string) (bs "b"%string)).
Proof. vm_compute. split; reflexivity. Qed.
