(** C15 — ledgers of different (execer, symbol) on one store share nothing. *)
From Coq Require Import List ZArith NArith Bool Lia String.
From C33 Require Import Lib.Harness C15.Model C15.ModelFlat C15.ProofsBase.
Import ListNotations.
Open Scope Z_scope.

(** ** byte keys of two ledgers never coincide *)

Lemma new_account_db_ok : forall l, new_account_db l = NOk <-> lid_ok l = true.
Proof.
  intros [e s]. unfold new_account_db, lid_ok. simpl.
  destruct (has_dash e); simpl; [split; discriminate|].
  destruct (has_dash s); simpl; split; try discriminate; reflexivity.
Qed.

Lemma split_at_dash : forall a a' b b',
  has_dash a = false -> has_dash a' = false ->
  a ++ dash :: b = a' ++ dash :: b' -> a = a' /\ b = b'.
Proof.
  induction a as [|c a IH]; intros a' b b' Ha Ha' E.
  - destruct a' as [|c' a']; simpl in E.
    + injection E as E. split; [reflexivity|exact E].
    + injection E as E1 E2. subst c'. cbn in Ha'. discriminate Ha'.
  - destruct a' as [|c' a']; simpl in E.
    + injection E as E1 E2. subst c. cbn in Ha. discriminate Ha.
    + injection E as E1 E2. subst c'. simpl in Ha, Ha'.
      apply orb_false_iff in Ha as [_ Ha]. apply orb_false_iff in Ha' as [_ Ha'].
      destruct (IH a' b b' Ha Ha' E2) as [-> ->]. split; reflexivity.
Qed.

Theorem flat_key_lid_inj : forall l1 l2 k1 k2,
  lid_ok l1 = true -> lid_ok l2 = true ->
  flat_key l1 k1 = flat_key l2 k2 -> l1 = l2 /\ key_rest k1 = key_rest k2.
Proof.
  intros [e1 s1] [e2 s2] k1 k2 H1 H2 E.
  unfold lid_ok in H1, H2. simpl in H1, H2.
  apply andb_true_iff in H1 as [He1 Hs1]. apply andb_true_iff in H2 as [He2 Hs2].
  apply negb_true_iff in He1, Hs1, He2, Hs2.
  unfold flat_key, lid_prefix in E. simpl fst in E. simpl snd in E.
  rewrite <- !app_assoc in E. apply app_inv_head in E.
  change ([dash] ++ s1 ++ [dash] ++ key_rest k1) with (dash :: (s1 ++ dash :: key_rest k1)) in E.
  change ([dash] ++ s2 ++ [dash] ++ key_rest k2) with (dash :: (s2 ++ dash :: key_rest k2)) in E.
  destruct (split_at_dash _ _ _ _ He1 He2 E) as [-> E'].
  destruct (split_at_dash _ _ _ _ Hs1 Hs2 E') as [-> E''].
  split; [reflexivity|exact E''].
Qed.

(** the check of NewAccountDB is needed: with a '-' two ledgers share keys *)
Example dash_collision :
  let l1 := (bs "a-b"%string, bs "c"%string) in let l2 := (bs "a"%string, bs "b-c"%string) in
  l1 <> l2 /\ new_account_db l1 = NExecName /\ new_account_db l2 = NSymbol /\
  forall k, flat_key l1 k = flat_key l2 k.
Proof.
  simpl. split; [discriminate|]. split; [reflexivity|]. split; [reflexivity|].
  intro k. reflexivity.
Qed.

(** ** flat store *)

Lemma fget_fput_same : forall k r w, fget k (fput k r w) = Some r.
Proof.
  intros k r w. induction w as [|[k' r'] tl IH]; simpl.
  - rewrite bytes_eqb_refl. reflexivity.
  - destruct (bytes_eqb k k') eqn:E; simpl.
    + rewrite bytes_eqb_refl. reflexivity.
    + rewrite E. exact IH.
Qed.

Lemma fget_fput_other : forall k k' r w, k <> k' -> fget k' (fput k r w) = fget k' w.
Proof.
  intros k k' r w Hne. induction w as [|[k0 r0] tl IH]; simpl.
  - assert (bytes_eqb k' k = false) as -> by (apply bytes_eqb_neq; congruence). reflexivity.
  - destruct (bytes_eqb k k0) eqn:E; simpl.
    + apply bytes_eqb_eq in E. subst k0.
      assert (bytes_eqb k' k = false) as -> by (apply bytes_eqb_neq; congruence). reflexivity.
    + destruct (bytes_eqb k' k0); [reflexivity|exact IH].
Qed.

(** ** frame: an operation only writes through its own [sput] *)

Section Frame.
  Variable St : Type.
  Variable sget : key -> St -> option acct.
  Variable sput : key -> acct -> St -> St.
  Variable P : St -> St -> Prop.
  Hypothesis P_refl : forall s, P s s.
  Hypothesis P_trans : forall a b c, P a b -> P b c -> P a c.
  Hypothesis P_put : forall k r s, P s (sput k r s).

  Local Notation gs := (gstep St sget sput).

  Lemma P_save_main : forall s r, P s (gsave_main St sput s r).
  Proof. intros. apply P_put. Qed.
  Lemma P_save_sub : forall s x r, P s (gsave_sub St sput s x r).
  Proof. intros. apply P_put. Qed.

  Ltac fr_ifs :=
    repeat match goal with
    | |- context [if ?c then _ else _] => destruct c
    | |- context [match safe_add ?a ?b with _ => _ end] => destruct (safe_add a b)
    end; simpl;
    repeat first [ apply P_refl
                 | eapply P_trans; [|first [apply P_save_main | apply P_save_sub]] ].

  Lemma fr_transfer : forall s f t m, P s (fst (gtransfer St sget sput s f t m)).
  Proof. intros. unfold gtransfer. fr_ifs. Qed.
  Lemma fr_deposit_balance : forall s x m, P s (fst (gdeposit_balance St sget sput s x m)).
  Proof. intros. unfold gdeposit_balance. fr_ifs. Qed.
  Lemma fr_genesis_init : forall s a m, P s (fst (ggenesis_init St sget sput s a m)).
  Proof. intros. unfold ggenesis_init. fr_ifs. Qed.
  Lemma fr_exec_deposit : forall s a x m, P s (fst (gexec_deposit St sget sput s a x m)).
  Proof. intros. unfold gexec_deposit. fr_ifs. Qed.
  Lemma fr_exec_withdraw : forall s x a m, P s (fst (gexec_withdraw St sget sput s x a m)).
  Proof. intros. unfold gexec_withdraw. fr_ifs. Qed.
  Lemma fr_exec_deposit_frozen_inner : forall s a x m,
    P s (fst (gexec_deposit_frozen_inner St sget sput s a x m)).
  Proof. intros. unfold gexec_deposit_frozen_inner. fr_ifs. Qed.
  Lemma fr_exec_issue : forall miners s x m, P s (fst (gexec_issue St sget sput miners s x m)).
  Proof.
    intros. unfold gexec_issue. destruct (existsb (bytes_eqb x) miners); [|apply P_refl].
    apply fr_deposit_balance.
  Qed.

  (* composite: first part [p] from [s], second part [q] from the state of [p] *)
  Ltac fr2 A B :=
    let F1 := fresh "F1" in
    pose proof A as F1;
    match type of F1 with P _ (fst ?p) =>
      let s1 := fresh "s1" in let r1 := fresh "r1" in
      destruct p as [s1 r1]; simpl in F1; destruct r1; simpl; try apply P_refl;
      let F2 := fresh "F2" in
      pose proof (B s1) as F2;
      match type of F2 with P _ (fst ?q) =>
        let s2 := fresh "s2" in let r2 := fresh "r2" in
        destruct q as [s2 r2]; simpl in F2; destruct r2; simpl;
        first [ exact F1 | eapply P_trans; [exact F1|exact F2] ]
      end
    end.

  Theorem gstep_frame : forall miners s o, P s (fst (gs miners s o)).
  Proof.
    intros miners s o. destruct o; cbn [gstep].
    - apply fr_transfer.
    - unfold gtransfer_to_exec.
      fr2 (fr_transfer s from to amt) (fun s1 => fr_exec_deposit s1 from to amt).
    - unfold gtransfer_withdraw. destruct (gcheck_transfer St sget s to amt); simpl; try apply P_refl.
      fr2 (fr_exec_withdraw s to from amt) (fun s1 => fr_transfer s1 to from amt).
    - unfold gexec_frozen. fr_ifs.
    - unfold gexec_active. fr_ifs.
    - unfold gexec_transfer. fr_ifs.
    - unfold gexec_transfer_frozen. fr_ifs.
    - apply fr_exec_deposit.
    - apply fr_exec_withdraw.
    - unfold gexec_deposit_frozen. destruct (bytes_eqb a x); simpl; [apply P_refl|].
      fr2 (fr_exec_issue miners s x amt) (fun s1 => fr_exec_deposit_frozen_inner s1 a x amt).
    - apply fr_exec_issue.
    - apply fr_deposit_balance.
    - unfold gburn. fr_ifs.
    - apply fr_genesis_init.
    - unfold ggenesis_init_exec.
      fr2 (fr_genesis_init s x amt) (fun s1 => fr_exec_deposit s1 a x amt).
  Qed.
End Frame.

(** ** independence *)

(* byte keys outside the key space of ledger [l] *)
Definition outside (l : lid) (fk : bytes) : Prop := forall k, fk <> flat_key l k.

Definition same_outside (l : lid) (w w' : flat) : Prop :=
  forall fk, outside l fk -> fget fk w' = fget fk w.

Theorem fstep_frame : forall l miners w o, same_outside l w (fst (fstep l miners w o)).
Proof.
  intros l miners w o. unfold fstep.
  apply (gstep_frame flat (fun k => fget (flat_key l k)) (fun k => fput (flat_key l k))
           (same_outside l)).
  - intros s fk _. reflexivity.
  - intros a b c H1 H2 fk Ho. rewrite (H2 fk Ho). apply H1. exact Ho.
  - intros k r s fk Ho. apply fget_fput_other. intro E. apply (Ho k). symmetry. exact E.
Qed.

Lemma other_ledger_outside : forall l l' k',
  lid_ok l = true -> lid_ok l' = true -> l <> l' -> outside l (flat_key l' k').
Proof.
  intros l l' k' H H' Hne k E.
  destruct (flat_key_lid_inj l' l k' k H' H E) as [El _]. congruence.
Qed.

Theorem ledgers_independent : forall l l' miners w o,
  lid_ok l = true -> lid_ok l' = true -> l <> l' ->
  (forall k', fget (flat_key l' k') (fst (fstep l miners w o)) = fget (flat_key l' k') w) /\
  (forall q, fanswer l' (fst (fstep l miners w o)) q = fanswer l' w q).
Proof.
  intros l l' miners w o H H' Hne.
  assert (forall k', fget (flat_key l' k') (fst (fstep l miners w o)) = fget (flat_key l' k') w) as F.
  { intro k'. apply fstep_frame. apply other_ledger_outside; assumption. }
  split; [exact F|].
  intro q. unfold fanswer, ganswer, gload_main, gload_sub. destruct q; rewrite F; reflexivity.
Qed.

(** whole histories: the operations on other ledgers never change what ledger
    [l'] holds or answers *)
Theorem history_independent : forall l' miners h w,
  lid_ok l' = true ->
  forallb (fun lo => lid_ok (fst lo)) h = true ->
  Forall (fun lo => fst lo <> l') h ->
  (forall k', fget (flat_key l' k') (frun miners w h) = fget (flat_key l' k') w) /\
  (forall q, fanswer l' (frun miners w h) q = fanswer l' w q).
Proof.
  intros l' miners h. induction h as [|[l o] tl IH]; intros w H' Hok Hne.
  - split; reflexivity.
  - simpl in Hok. apply andb_true_iff in Hok as [Hl Hok].
    inversion Hne as [|x y Hx Hy]. subst. simpl in Hx.
    change (frun miners w ((l, o) :: tl)) with (frun miners (fst (fstep l miners w o)) tl).
    destruct (IH (fst (fstep l miners w o)) H' Hok Hy) as [I1 I2].
    destruct (ledgers_independent l l' miners w o Hl H' Hx) as (F1 & F2).
    split.
    + intro k'. rewrite I1. apply F1.
    + intro q. rewrite I2. apply F2.
Qed.
