(** C16 extension — what the unknown fields do to the property clauses:
    full-strength statements, refutations, partial theorems with boolean guards. *)
From Coq Require Import String List NArith ZArith Lia Bool.
From C33 Require Import Lib.Harness C16.Proto C16.Model C16.Spec C16.Proofs
                        C16.ProtoUnknown C16.ModelUnknown C16.ProofsUnknown.
Import ListNotations.
Open Scope list_scope.

(** * "the hash changes when any other field changes", for decoded messages *)
Definition C16_hash_binds_message_full : Prop :=
  forall (H : list N -> list N), (forall a b, H a = H b -> a = b) ->
  forall d1 d2, wf_txb (d_tx d1) = true -> wf_txb (d_tx d2) = true ->
    (tx_hash_d H d1 = tx_hash_d H d2 -> d_unk d1 = d_unk d2) /\
    (full_hash_d H d1 = full_hash_d H d2 -> encode_d d1 = encode_d d2).

Definition toy_signed : tx := sign_tx 1 toy_pub toy_sg toy_tx.
Definition toy_unk : list N := [96; 5]%N.          (* field 12, varint 5 *)
Definition toy_d : dtx := mk_dtx toy_signed [] toy_unk.

Lemma hash_binds_message_refuted : ~ C16_hash_binds_message_full.
Proof.
  intro F. specialize (F (fun x => x) (fun a b E => E) (plain toy_signed) toy_d eq_refl eq_refl).
  destruct F as [F _]. specialize (F eq_refl). discriminate F.
Qed.

(** what does hold: the declared fields are bound as before, whatever the
    unknown parts; and with the guard "no unknown fields" the message is *)
Lemma hash_binds_message_partial :
  forall (HT : Type) (H : list N -> HT), (forall a b, H a = H b -> a = b) ->
  forall d1 d2, wf_txb (d_tx d1) = true -> wf_txb (d_tx d2) = true ->
    (full_hash_d H d1 = full_hash_d H d2 -> d_tx d1 = d_tx d2) /\
    (full_hash_d H d1 = full_hash_d H d2 -> has_unknown d1 = false -> has_unknown d2 = false -> d1 = d2) /\
    (tx_hash_d H d1 = tx_hash_d H d2 ->
       execer (d_tx d1) = execer (d_tx d2) /\ payload (d_tx d1) = payload (d_tx d2) /\
       fee (d_tx d1) = fee (d_tx d2) /\ expire (d_tx d1) = expire (d_tx d2) /\
       nonce (d_tx d1) = nonce (d_tx d2) /\ to_ (d_tx d1) = to_ (d_tx d2) /\
       groupCount (d_tx d1) = groupCount (d_tx d2) /\ next (d_tx d1) = next (d_tx d2) /\
       chainID (d_tx d1) = chainID (d_tx d2)).
Proof.
  intros HT H Hinj d1 d2 W1 W2.
  destruct (hash_ignores_unknown HT H d1) as [A1 B1].
  destruct (hash_ignores_unknown HT H d2) as [A2 B2].
  split; [|split].
  - rewrite B1, B2. intro E. apply (fullhash_binds HT H Hinj); assumption.
  - rewrite B1, B2. intros E U1 U2. apply (fullhash_binds HT H Hinj) in E; try assumption.
    destruct d1 as [t1 s1 u1], d2 as [t2 s2 u2]. cbn [d_tx] in E. subst t2.
    unfold has_unknown in U1, U2. cbn [d_unk d_sunk] in U1, U2.
    destruct u1, s1, u2, s2; try discriminate. reflexivity.
  - rewrite A1, A2. intro E. apply (hash_binds HT H Hinj); assumption.
Qed.

(** * "a signature produced with the sender's key verifies", for decoded messages *)
Definition C16_sign_then_verify_message_full : Prop :=
  forall ds verify mall issued m ty pub sg h d,
    ideal_scheme verify mall issued ->
    load ds (crypto_id ty) h = Some d ->
    issued (d_id d) pub (sign_msg_d m) sg ->
    check_sign_d ds verify (sign_d ty pub sg m) h = true.

Lemma signed_bytes_sign_d ty pub sg m :
  signed_bytes_d (sign_d ty pub sg m) = encode_tx (set_sig None (d_tx m)).
Proof. rewrite signed_bytes_d_eq. unfold sign_d, set_sig_d. cbn [d_tx]. destruct (d_tx m); reflexivity. Qed.

Lemma sign_msg_d_eq m : sign_msg_d m = encode_tx (set_sig None (d_tx m)) ++ d_unk m.
Proof.
  unfold sign_msg_d. rewrite encode_d_split. unfold set_sig_d. cbn [d_tx d_sunk d_unk].
  rewrite encode_d_plain. reflexivity.
Qed.

Lemma check_sign_d_sign_d ds verify ty pub sg m h :
  check_sign_d ds verify (sign_d ty pub sg m) h =
  match load ds (crypto_id ty) h with
  | None => false
  | Some dr => verify (d_id dr) (encode_tx (set_sig None (d_tx m))) pub sg
  end.
Proof. unfold check_sign_d. rewrite signed_bytes_sign_d. reflexivity. Qed.

(** guard: the message itself carries no unknown fields *)
Lemma sign_then_verify_message_partial :
  forall ds verify mall issued m ty pub sg h d,
    has_tx_unknown m = false ->
    ideal_scheme verify mall issued ->
    load ds (crypto_id ty) h = Some d ->
    issued (d_id d) pub (sign_msg_d m) sg ->
    check_sign_d ds verify (sign_d ty pub sg m) h = true.
Proof.
  intros ds verify mall issued m ty pub sg h d U [Mr Vi] L I.
  rewrite check_sign_d_sign_d, L. apply Vi. exists sg. split; [|apply Mr].
  rewrite sign_msg_d_eq in I. unfold has_tx_unknown in U. destruct (d_unk m); [|discriminate].
  rewrite app_nil_r in I. exact I.
Qed.

(** exactly: when the key signed nothing else, the freshly signed message
    verifies only if it had no unknown fields *)
Lemma sign_then_verify_message_exact :
  forall ds verify mall issued m ty pub sg h,
    ideal_scheme verify mall issued ->
    only_issued issued (crypto_id ty) pub (sign_msg_d m) sg ->
    check_sign_d ds verify (sign_d ty pub sg m) h = true ->
    d_unk m = [].
Proof.
  intros ds verify mall issued m ty pub sg h [Mr Vi] Only C.
  rewrite check_sign_d_sign_d in C.
  destruct (load ds (crypto_id ty) h) as [d|] eqn:L; [|discriminate].
  apply load_id in L. rewrite L in C.
  apply Vi in C as (s0 & I & _). apply Only in I as (_ & Em & _).
  rewrite sign_msg_d_eq in Em.
  rewrite <- (app_nil_r (encode_tx (set_sig None (d_tx m)))) in Em at 1.
  apply app_inv_head in Em. symmetry. exact Em.
Qed.

(** refutation: the toy scheme of [Proofs], issuing for the bytes [Sign] signs *)
Definition toyu_msg : list N := sign_msg_d (mk_dtx toy_tx [] toy_unk).
Definition toyu_issued (id : Z) (p m s : list N) : Prop :=
  id = 1%Z /\ p = toy_pub /\ m = toyu_msg /\ s = toy_sg.
Definition toyu_verify (id : Z) (m p s : list N) : bool :=
  Z.eqb id 1 && bytes_eqb p toy_pub && bytes_eqb m toyu_msg && toy_mall id toy_sg s.

Lemma toyu_ideal : ideal_scheme toyu_verify toy_mall toyu_issued.
Proof.
  split; [apply toy_mall_refl|].
  intros id m p s. unfold toyu_verify, toyu_issued. split.
  - rewrite !andb_true_iff. intros [[[E1 E2] E3] E4].
    apply Z.eqb_eq in E1. apply bytes_eqb_eq in E2. apply bytes_eqb_eq in E3. subst.
    exists toy_sg. auto.
  - intros (s0 & (E1 & E2 & E3 & E4) & M). subst.
    rewrite Z.eqb_refl. cbn [andb].
    rewrite (proj2 (bytes_eqb_eq toy_pub toy_pub) eq_refl).
    rewrite (proj2 (bytes_eqb_eq _ _) eq_refl). exact M.
Qed.

Lemma sign_then_verify_message_refuted : ~ C16_sign_then_verify_message_full.
Proof.
  intro F.
  specialize (F toy_ds toyu_verify toy_mall toyu_issued (mk_dtx toy_tx [] toy_unk) 1%Z toy_pub toy_sg 20%Z
                (mk_drv 1 true 0) toyu_ideal eq_refl).
  assert (I : toyu_issued (d_id (mk_drv 1 true 0)) toy_pub (sign_msg_d (mk_dtx toy_tx [] toy_unk)) toy_sg)
    by (repeat split; reflexivity).
  specialize (F I). vm_compute in F. discriminate F.
Qed.

(** * Non-vacuity *)
Example ex_unknown_same_hashes :
  tx_hash_d (fun x => x) toy_d = tx_hash_d (fun x => x) (plain toy_signed) /\
  full_hash_d (fun x => x) toy_d = full_hash_d (fun x => x) (plain toy_signed) /\
  encode_d toy_d <> encode_d (plain toy_signed).
Proof. repeat split; try reflexivity. vm_compute. discriminate. Qed.

Example ex_unknown_decodes : wire_decode (encode_d toy_d) = Some toy_d.
Proof. vm_compute. reflexivity. Qed.

Example ex_guard_partial :
  has_tx_unknown (plain toy_tx) = false /\ has_tx_unknown (mk_dtx toy_tx [] toy_unk) = true /\
  check_sign_d toy_ds toy_verify (sign_d 1 toy_pub toy_sg (plain toy_tx)) 20 = true.
Proof. repeat split; reflexivity. Qed.
