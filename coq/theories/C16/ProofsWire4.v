(** C16 extension — decoder round trip for messages with unknown fields
    (varint, length-delimited, fixed32, fixed64 fields in canonical form;
    groups and over-long varints are covered by the correspondence check only). *)
From Coq Require Import List NArith ZArith Lia Bool.
From C33 Require Import Lib.Harness C16.Proto C16.Model C16.Spec C16.Proofs
                        C16.ProtoUnknown C16.ModelUnknown C16.ProofsUnknown
                        C16.ProofsWire C16.ProofsWire2.
Import ListNotations.
Open Scope list_scope.

(** a well-formed field in canonical form *)
Definition simple_fieldb (f : wfield) : bool :=
  fn_okb (w_fn f) &&
  match w_wt f, w_val f with
  | 0%N, WVar v => (v <? 2 ^ 64)%N && bytes_eqb (w_raw f) (varint v)
  | 2%N, WBytes b => len_okb b && bytes_eqb (w_raw f) (varint (N.of_nat (length b)) ++ b)
  | 1%N, WOther => (length (w_raw f) =? 8)%nat
  | 5%N, WOther => (length (w_raw f) =? 4)%nat
  | _, _ => false
  end.

(** the decoder of Transaction treats it as unknown (default branch of [step_tx]) *)
Definition tx_unknownb (f : wfield) : bool :=
  match w_fn f, w_wt f, w_val f with
  | 1%N, 2%N, WBytes _ | 2%N, 2%N, WBytes _ | 3%N, 2%N, WBytes _ | 7%N, 2%N, WBytes _
  | 9%N, 2%N, WBytes _ | 10%N, 2%N, WBytes _ => false
  | 4%N, 0%N, WVar _ | 5%N, 0%N, WVar _ | 6%N, 0%N, WVar _ | 8%N, 0%N, WVar _ | 11%N, 0%N, WVar _ => false
  | _, _, _ => true
  end.

Lemma parse_field_fixed fuel fn wt k raw r :
  fn_okb fn = true -> ((wt = 1 /\ k = 8) \/ (wt = 5 /\ k = 4))%N -> N.of_nat (length raw) = k ->
  parse_field (S fuel) (key fn wt ++ raw ++ r) = Some (mk_wf fn wt WOther raw, r).
Proof.
  intros Hfn Hw Hl. unfold fn_okb in Hfn. apply andb_true_iff in Hfn as [H1 H2].
  apply N.leb_le in H1. apply N.leb_le in H2.
  unfold parse_field, key.
  assert (Wt : (wt < 8)%N) by (destruct Hw as [[-> _]|[-> _]]; lia).
  rewrite get_varint64_varint
    by (change (2 ^ 64)%N with 18446744073709551616%N; change (2 ^ 29 - 1)%N with 536870911%N in H2; lia).
  destruct (tag_div fn wt Wt) as [Ed Em]. rewrite Ed, Em.
  unfold max_field. destruct (N.ltb_spec fn 1); [lia|]. destruct (N.ltb_spec (2 ^ 29 - 1) fn); [lia|].
  cbn [orb].
  destruct Hw as [[-> ->]|[-> ->]]; cbn [skip_value]; rewrite <- Hl, split_at_app, consumed_app; reflexivity.
Qed.

Lemma parse_simple fuel f r :
  simple_fieldb f = true -> parse_field (S fuel) (unk_field f ++ r) = Some (f, r).
Proof.
  unfold simple_fieldb, unk_field. destruct f as [fn wt val raw]. cbn [w_fn w_wt w_val w_raw].
  rewrite andb_true_iff. intros [Hfn H]. rewrite <- app_assoc.
  destruct wt as [|[[|[]|]|[|[]|]|]]; destruct val as [v|b|]; try discriminate.
  - apply andb_true_iff in H as [Hv Hr]. apply N.ltb_lt in Hv. apply bytes_eqb_eq in Hr. subst raw.
    apply parse_field_var; assumption.
  - apply Nat.eqb_eq in H.
    apply (parse_field_fixed fuel fn 5 4); [assumption|right; split; reflexivity|rewrite H; reflexivity].
  - apply andb_true_iff in H as [Hv Hr]. apply len_okb_lt in Hv. apply bytes_eqb_eq in Hr. subst raw.
    pose proof (parse_field_bytes fuel fn b r Hfn Hv) as P. unfold len_delim in P.
    rewrite <- !app_assoc in P. rewrite <- app_assoc. exact P.
  - apply Nat.eqb_eq in H.
    apply (parse_field_fixed fuel fn 1 8); [assumption|left; split; reflexivity|rewrite H; reflexivity].
Qed.

Lemma parses_simple ufs rest fs :
  forallb simple_fieldb ufs = true -> parses rest fs -> parses (unk_bytes ufs ++ rest) (ufs ++ fs).
Proof.
  induction ufs as [|f ufs IH]; intros S P; [exact P|].
  cbn [forallb] in S. apply andb_true_iff in S as [Sf S].
  unfold unk_bytes. cbn [flat_map app]. rewrite <- app_assoc.
  apply parses_cons; [apply key_nonnil| |apply IH; assumption].
  intro fuel. apply parse_simple, Sf.
Qed.

(** the fields of a transaction followed by anything that parses *)
Lemma parses_tx_app t rest fs :
  tx_len_okb t = true -> parses rest fs -> parses (encode_tx t ++ rest) (fields_tx t ++ fs).
Proof.
  unfold tx_len_okb. rewrite !andb_true_iff. intros [[[[[L1 L2] L3] L7] L9] L10] P.
  unfold encode_tx, fields_tx. rewrite <- !app_assoc.
  apply parses_bytes; [reflexivity|exact L1|]. apply parses_bytes; [reflexivity|exact L2|].
  apply parses_msg; [reflexivity| |].
  { destruct (signature t) as [s|]; cbn [option_map]; [|reflexivity].
    apply andb_true_iff in L3 as [_ L3]. exact L3. }
  apply parses_int; [reflexivity|]. apply parses_int; [reflexivity|]. apply parses_int; [reflexivity|].
  apply parses_bytes; [reflexivity|exact L7|]. apply parses_int; [reflexivity|].
  apply parses_bytes; [reflexivity|exact L9|]. apply parses_bytes; [reflexivity|exact L10|].
  apply parses_int; [reflexivity|]. exact P.
Qed.

Lemma fold_unknown ufs : forall t su u,
  forallb tx_unknownb ufs = true ->
  fold_left step_tx ufs (Some (mk_dtx t su u)) = Some (mk_dtx t su (u ++ unk_bytes ufs)).
Proof.
  induction ufs as [|f ufs IH]; intros t su u U.
  - cbn. rewrite app_nil_r. reflexivity.
  - cbn [forallb] in U. apply andb_true_iff in U as [Uf U]. cbn [fold_left].
    assert (E : step_tx (Some (mk_dtx t su u)) f = Some (mk_dtx t su (u ++ unk_field f))).
    { unfold tx_unknownb in Uf. unfold step_tx. cbn [d_tx d_sunk d_unk].
      destruct (w_fn f) as [|[[[[]|[]|]|[[]|[]|]|]|[[[]|[]|]|[[]|[]|]|]|]];
        destruct (w_wt f) as [|[[]|[]|]]; destruct (w_val f); try discriminate; reflexivity. }
    rewrite E, IH by exact U. unfold unk_bytes. cbn [flat_map]. rewrite <- app_assoc. reflexivity.
Qed.

Theorem wire_decode_encode_unknown t ufs :
  wire_okb t = true -> forallb simple_fieldb ufs = true -> forallb tx_unknownb ufs = true ->
  wire_decode (encode_d (mk_dtx t [] (unk_bytes ufs))) = Some (mk_dtx t [] (unk_bytes ufs)).
Proof.
  intros W S U. rewrite encode_d_split. cbn [d_tx d_sunk d_unk]. rewrite encode_d_nounk.
  pose proof W as W0. unfold wire_okb in W. rewrite !andb_true_iff in W. destruct W as [[Wf Wu] L].
  unfold wire_decode.
  assert (P : parses (encode_tx t ++ unk_bytes ufs) (fields_tx t ++ ufs)).
  { pose proof (parses_tx_app t _ _ L (parses_simple ufs [] [] S parses_nil)) as Q.
    rewrite !app_nil_r in Q. exact Q. }
  rewrite (parses_parse_fields _ _ P), fold_left_app.
  pose proof (wire_decode_encode_plain t W0) as D. unfold wire_decode in D.
  rewrite (parses_parse_fields _ _ (parses_tx t L)) in D. rewrite D.
  unfold plain. rewrite (fold_unknown ufs t [] [] U). reflexivity.
Qed.

(** hence: the canonical encoding determines the message, unknown part included *)
Example ex_simple_unknown :
  forallb simple_fieldb [mk_wf 12 0 (WVar 5) [5]%N; mk_wf 15 2 (WBytes [97; 98]%N) [2; 97; 98]%N;
                         mk_wf 4 1 WOther [1; 2; 3; 4; 5; 6; 7; 8]%N] = true /\
  forallb tx_unknownb [mk_wf 12 0 (WVar 5) [5]%N; mk_wf 15 2 (WBytes [97; 98]%N) [2; 97; 98]%N;
                       mk_wf 4 1 WOther [1; 2; 3; 4; 5; 6; 7; 8]%N] = true.
Proof. split; vm_compute; reflexivity. Qed.
