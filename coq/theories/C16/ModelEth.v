(** C16 extension — the secp256k1eth driver's message handling
    (system/crypto/secp256k1eth/secp256k1eth.go [VerifyBytes],
    system/crypto/secp256k1eth/types/types.go [DecodeTxAction]) as the code is.

    [VerifyBytes msg sig] does NOT always verify [sig] over [msg]:
      - [msg] is decoded as a transaction; when its payload decodes as an EVM
        action (execer contains "evm") or a coins transfer whose note is
        non-empty, the note is taken to be a raw Ethereum transaction and the
        signature is checked over THAT transaction's signing hash; only
        nonce / amount / code / to of the action are compared with it
        ("note mode");
      - otherwise the signature is checked over Keccak-256 of [msg].

    Not modelled (oracles of the correspondence check, parameters of the
    theorems): RLP / typed-transaction parsing and the signing hash
    ([etypes.Transaction.UnmarshalBinary], [LondonSigner.Hash]), Keccak-256,
    public-key parsing + ECDSA recovery ([inner]), and [address.ExecAddress]
    ([xaddr]). *)
From Coq Require Import List NArith ZArith Bool.
From C33 Require Import Lib.Harness C16.Proto C16.Model C16.ProtoUnknown C16.ModelUnknown.
Import ListNotations.
Open Scope list_scope.
Open Scope N_scope.

(** * EVMAction4Chain33 { uint64 amount=1; uint64 gasLimit=2; uint32 gasPrice=3;
      bytes code=4; bytes para=5; string alias=6; string note=7; string contractAddr=8 } *)
Record evmact := mk_ea {
  ea_amount : N; ea_gaslimit : N; ea_gasprice : N; ea_code : list N; ea_para : list N;
  ea_alias : list N; ea_note : list N; ea_caddr : list N }.
Definition ea0 : evmact := mk_ea 0 0 0 [] [] [] [] [].

Definition step_ea (acc : option evmact) (f : wfield) : option evmact :=
  match acc with
  | None => None
  | Some a =>
      match w_fn f, w_wt f, w_val f with
      | 1%N, 0%N, WVar v => Some (mk_ea v (ea_gaslimit a) (ea_gasprice a) (ea_code a) (ea_para a) (ea_alias a) (ea_note a) (ea_caddr a))
      | 2%N, 0%N, WVar v => Some (mk_ea (ea_amount a) v (ea_gasprice a) (ea_code a) (ea_para a) (ea_alias a) (ea_note a) (ea_caddr a))
      | 3%N, 0%N, WVar v => Some (mk_ea (ea_amount a) (ea_gaslimit a) (v mod 2 ^ 32)%N (ea_code a) (ea_para a) (ea_alias a) (ea_note a) (ea_caddr a))
      | 4%N, 2%N, WBytes b => Some (mk_ea (ea_amount a) (ea_gaslimit a) (ea_gasprice a) b (ea_para a) (ea_alias a) (ea_note a) (ea_caddr a))
      | 5%N, 2%N, WBytes b => Some (mk_ea (ea_amount a) (ea_gaslimit a) (ea_gasprice a) (ea_code a) b (ea_alias a) (ea_note a) (ea_caddr a))
      | 6%N, 2%N, WBytes b => if utf8_valid b then Some (mk_ea (ea_amount a) (ea_gaslimit a) (ea_gasprice a) (ea_code a) (ea_para a) b (ea_note a) (ea_caddr a)) else None
      | 7%N, 2%N, WBytes b => if utf8_valid b then Some (mk_ea (ea_amount a) (ea_gaslimit a) (ea_gasprice a) (ea_code a) (ea_para a) (ea_alias a) b (ea_caddr a)) else None
      | 8%N, 2%N, WBytes b => if utf8_valid b then Some (mk_ea (ea_amount a) (ea_gaslimit a) (ea_gasprice a) (ea_code a) (ea_para a) (ea_alias a) (ea_note a) b) else None
      | _, _, _ => Some a
      end
  end.
Definition decode_evmact (b : list N) : option evmact :=
  match parse_fields b with None => None | Some fs => fold_left step_ea fs (Some ea0) end.

(** * CoinsActionChain33 { oneof value { AssetsTransferChain33 transfer=1;
      AssetsTransferToExecChain33 transferToExec=2; } int32 ty=3; }
    AssetsTransferChain33 { string cointoken=1; int64 amount=2; bytes note=3; string to=4 }
    AssetsTransferToExecChain33 { string cointoken=1; int64 amount=2; bytes note=3;
      string execName=4; string to=5 } *)
Record xfer := mk_xf { xf_amount : N; xf_note : list N; xf_to : list N }.
Definition xf0 : xfer := mk_xf 0 [] [].

Definition step_xfer (acc : option xfer) (f : wfield) : option xfer :=
  match acc with
  | None => None
  | Some x =>
      match w_fn f, w_wt f, w_val f with
      | 1%N, 2%N, WBytes b => if utf8_valid b then Some x else None
      | 2%N, 0%N, WVar v => Some (mk_xf v (xf_note x) (xf_to x))      (* uint64(int64(v)) = v *)
      | 3%N, 2%N, WBytes b => Some (mk_xf (xf_amount x) b (xf_to x))
      | 4%N, 2%N, WBytes b => if utf8_valid b then Some (mk_xf (xf_amount x) (xf_note x) b) else None
      | _, _, _ => Some x
      end
  end.
(** transferToExec: only its decoding errors matter *)
Definition step_xexec (acc : option unit) (f : wfield) : option unit :=
  match acc with
  | None => None
  | Some u =>
      match w_fn f, w_wt f, w_val f with
      | 1%N, 2%N, WBytes b | 4%N, 2%N, WBytes b | 5%N, 2%N, WBytes b => if utf8_valid b then Some u else None
      | _, _, _ => Some u
      end
  end.

Inductive oneof := ONone | OTransfer (x : xfer) | OToExec.

Definition step_coins (acc : option oneof) (f : wfield) : option oneof :=
  match acc with
  | None => None
  | Some o =>
      match w_fn f, w_wt f, w_val f with
      | 1%N, 2%N, WBytes b =>
          match parse_fields b with
          | None => None
          | Some fs =>
              (* same member already set: merged into it; else a fresh message *)
              let start := match o with OTransfer x => x | _ => xf0 end in
              option_map OTransfer (fold_left step_xfer fs (Some start))
          end
      | 2%N, 2%N, WBytes b =>
          match parse_fields b with
          | None => None
          | Some fs => option_map (fun _ => OToExec) (fold_left step_xexec fs (Some tt))
          end
      | _, _, _ => Some o
      end
  end.
Definition decode_coins (b : list N) : option oneof :=
  match parse_fields b with None => None | Some fs => fold_left step_coins fs (Some ONone) end.

(** * Helpers: strings.Contains, hex *)
Fixpoint starts_with (p l : list N) : bool :=
  match p, l with
  | [], _ => true
  | x :: p', y :: l' => N.eqb x y && starts_with p' l'
  | _ :: _, [] => false
  end.
Fixpoint contains (pat l : list N) : bool :=
  starts_with pat l || match l with [] => false | _ :: tl => contains pat tl end.

Definition hexdig (c : N) : option N :=
  if (48 <=? c) && (c <=? 57) then Some (c - 48)
  else if (97 <=? c) && (c <=? 102) then Some (c - 87)
  else if (65 <=? c) && (c <=? 70) then Some (c - 55)
  else None.
(** encoding/hex.DecodeString on an even-length string, errors dropped by the
    caller: the bytes decoded before the first invalid character *)
Fixpoint hex_prefix (s : list N) : list N :=
  match s with
  | a :: b :: tl =>
      match hexdig a, hexdig b with
      | Some x, Some y => (16 * x + y)%N :: hex_prefix tl
      | _, _ => []
      end
  | _ => []
  end.
(** go-ethereum common.FromHex *)
Definition eth_from_hex (s : list N) : list N :=
  let s1 := match s with
            | 48%N :: x :: tl => if N.eqb x 120 || N.eqb x 88 then tl else s
            | _ => s
            end in
  let s2 := if Nat.odd (length s1) then 48%N :: s1 else s1 in
  hex_prefix s2.
Definition hexchar (n : N) : N := if n <? 10 then 48 + n else 87 + n.
Definition to_hex (b : list N) : list N := flat_map (fun x => [hexchar (x / 16); hexchar (x mod 16)]) b.

(** * DecodeTxAction *)
Record action := mk_act { a_note : list N; a_to : list N; a_amount : N; a_code : list N; a_nonce : Z }.

Definition evm_str : list N := [101; 118; 109]%N.

(** from the three fields of the decoded transaction it looks at; [xaddr] =
    address.ExecAddress(string(execer)) *)
Definition action_of (xaddr execer payload : list N) (nonce : Z) : option action :=
  let coins :=
    match decode_coins payload with
    | Some (OTransfer x) => Some (mk_act (xf_note x) (xf_to x) (xf_amount x) [] nonce)
    | _ => None
    end in
  if contains evm_str execer then
    match decode_evmact payload with
    | Some ea =>
        let '(code, to) :=
          match ea_code ea with
          | _ :: _ => (ea_code ea, [])
          | [] => if bytes_eqb (ea_caddr ea) xaddr then ([], to_hex (ea_para ea))
                  else (ea_para ea, ea_caddr ea)
          end in
        Some (mk_act (eth_from_hex (ea_note ea)) to (ea_amount ea) code nonce)
    | None => coins
    end
  else coins.

Definition decode_tx_action (xaddr : list N -> list N) (msg : list N) : option action :=
  match wire_decode msg with
  | None => None
  | Some d => let t := d_tx d in action_of (xaddr (execer t)) (execer t) (payload t) (nonce t)
  end.

(** * VerifyBytes *)
Record ethview := mk_ev {
  e_chain : Z;              (* etx.ChainId().Int64() *)
  e_nonce : Z;              (* int64(etx.Nonce()) *)
  e_value : N;              (* etx.Value() *)
  e_data  : list N;
  e_to    : option (list N);
  e_sighash : list N        (* NewLondonSigner(etx.ChainId()).Hash(etx) *)
}.

(** what the signature is verified over *)
Inductive hsrc := HMsg (msg : list N) | HEth (sighash : list N).

Record ethcfg := mk_ec { c_chain : Z; c_prec : N }.   (* evmChainID, coinsPrecision (0 read as 1e8) *)

Definition eth_amount (cfg : ethcfg) (value : N) : N :=
  ((value / (10 ^ 18 / c_prec cfg)) mod 2 ^ 64)%N.

Definition note_mode (act : option action) : bool :=
  match act with Some a => match a_note a with [] => false | _ => true end | None => false end.

Definition eth_verify (cfg : ethcfg) (xaddr : list N -> list N)
    (parse : list N -> option ethview) (inner : hsrc -> list N -> list N -> bool)
    (msg pub sg : list N) : bool :=
  let act := decode_tx_action xaddr msg in
  match act with
  | Some a =>
      match a_note a with
      | [] => inner (HMsg msg) pub sg
      | _ :: _ =>
          match parse (a_note a) with
          | None => false
          | Some e =>
              Z.eqb (e_chain e) (c_chain cfg) && Z.eqb (a_nonce a) (e_nonce e) &&
              N.eqb (eth_amount cfg (e_value e)) (a_amount a) &&
              bytes_eqb (e_data e) (a_code a) &&
              match e_to e with None => true | Some to => bytes_eqb (eth_from_hex (a_to a)) to end &&
              inner (HEth (e_sighash e)) pub sg
          end
      end
  | None => inner (HMsg msg) pub sg
  end.

Definition eth_id : Z := 260.

(** the driver table seen by [check_sign]: secp256k1eth as above, every other
    driver [other] *)
Definition verify_with_eth (cfg : ethcfg) (xaddr : list N -> list N)
    (parse : list N -> option ethview) (inner : hsrc -> list N -> list N -> bool)
    (other : Z -> list N -> list N -> list N -> bool)
    (id : Z) (msg pub sg : list N) : bool :=
  if Z.eqb id eth_id then eth_verify cfg xaddr parse inner msg pub sg else other id msg pub sg.
