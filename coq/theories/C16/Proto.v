(** Protobuf (proto3) wire encoding for the field kinds chain33 messages use:
    varint ([int32]/[int64], negatives as the 10-byte two's complement of the
    sign-extended 64-bit value), length-delimited ([bytes], [string],
    sub-message), omission of default values, fields emitted in field-number
    order.  Decoders for one field at a time ("is the next key mine? then read
    it, else I have the default value") with the round-trip lemmas from which
    injectivity of a message encoding follows.

    Written for C16 (Transaction/Signature); shaped to be moved to [Lib/Proto.v]
    and reused (C17: [Transactions]).  Stdlib only, axiom-free.  Byte strings
    are [list N]. *)
From Coq Require Import List NArith ZArith Lia Bool.
Import ListNotations.
Open Scope N_scope.

(** * Base-128 varints *)
Fixpoint varint_aux (f : nat) (n : N) : list N :=
  match f with
  | O => [n]
  | S f' => if n <? 128 then [n] else (n mod 128 + 128) :: varint_aux f' (n / 128)
  end.

(** Fuel = number of bits of [n]: always enough (one step consumes 7 bits). *)
Definition varint (n : N) : list N := varint_aux (N.to_nat (N.size n)) n.

Fixpoint get_varint (l : list N) : option (N * list N) :=
  match l with
  | [] => None
  | b :: tl =>
      if b <? 128 then Some (b, tl)
      else match get_varint tl with
           | Some (v, r) => Some ((b - 128) + 128 * v, r)
           | None => None
           end
  end.

Lemma get_varint_aux : forall f n r,
  n < 2 ^ (N.of_nat f) * 128 -> get_varint (varint_aux f n ++ r) = Some (n, r).
Proof.
  induction f as [|f IH]; intros n r Hn.
  - cbn [varint_aux app get_varint].
    assert (E1 : 2 ^ N.of_nat 0 = 1) by reflexivity. rewrite E1 in Hn.
    destruct (N.ltb_spec n 128); [reflexivity | lia].
  - cbn [varint_aux]. destruct (N.ltb_spec n 128) as [L|G].
    + cbn [app get_varint]. destruct (N.ltb_spec n 128); [reflexivity | lia].
    + cbn [app get_varint].
      pose proof (N.mod_lt n 128 ltac:(lia)) as Hm.
      pose proof (N.div_mod n 128 ltac:(lia)) as Hdm.
      rewrite Nat2N.inj_succ, N.pow_succ_r' in Hn.
      assert (Hp : 1 <= 2 ^ N.of_nat f)
        by (apply N.lt_pred_le, N.neq_0_lt_0, N.pow_nonzero; lia).
      set (m := n mod 128) in *. set (q := n / 128) in *.
      set (p := 2 ^ N.of_nat f) in *.
      destruct (N.ltb_spec (m + 128) 128) as [L2|G2]; [lia|].
      rewrite IH by (fold p; nia).
      f_equal. f_equal. lia.
Qed.

Lemma get_varint_varint : forall n r, get_varint (varint n ++ r) = Some (n, r).
Proof.
  intros n r. unfold varint. apply get_varint_aux.
  rewrite N2Nat.id. pose proof (N.size_gt n).
  assert (1 <= 2 ^ N.size n) by (apply N.lt_pred_le, N.neq_0_lt_0, N.pow_nonzero; lia).
  nia.
Qed.

Lemma varint_inj : forall a b, varint a = varint b -> a = b.
Proof.
  intros a b E. pose proof (get_varint_varint a []) as Ha.
  rewrite E, get_varint_varint in Ha. congruence.
Qed.

(** * Integers: Go [uint64(int64(v))] and back *)
Definition u64 (z : Z) : N := Z.to_N (z mod 2 ^ 64).
Definition s64 (n : N) : Z :=
  if n <? 2 ^ 63 then Z.of_N n else (Z.of_N n - 2 ^ 64)%Z.

Definition int64b (z : Z) : bool := ((- 2 ^ 63 <=? z) && (z <? 2 ^ 63))%Z.
Definition int32b (z : Z) : bool := ((- 2 ^ 31 <=? z) && (z <? 2 ^ 31))%Z.

Lemma int32b_int64b z : int32b z = true -> int64b z = true.
Proof.
  unfold int32b, int64b. rewrite !andb_true_iff, !Z.leb_le, !Z.ltb_lt. lia.
Qed.

Lemma s64_u64 : forall z, int64b z = true -> s64 (u64 z) = z.
Proof.
  intros z Hz. unfold int64b in Hz.
  apply andb_true_iff in Hz as [H1 H2]. apply Z.leb_le in H1. apply Z.ltb_lt in H2.
  unfold s64, u64.
  assert (Hpos : (0 <= z mod 2 ^ 64 < 2 ^ 64)%Z) by (apply Z.mod_pos_bound; lia).
  destruct (Z_lt_le_dec z 0) as [Neg|Pos].
  - assert (E : (z mod 2 ^ 64 = z + 2 ^ 64)%Z).
    { symmetry. apply Z.mod_unique with (q := (-1)%Z); lia. }
    rewrite E. destruct (N.ltb_spec (Z.to_N (z + 2 ^ 64)) (2 ^ 63)) as [L|G].
    + exfalso. apply N2Z.inj_lt in L. rewrite Z2N.id in L by lia.
      change (Z.of_N (2 ^ 63)) with (2 ^ 63)%Z in L. lia.
    + rewrite Z2N.id by lia. lia.
  - rewrite Z.mod_small by lia.
    destruct (N.ltb_spec (Z.to_N z) (2 ^ 63)) as [L|G].
    + apply Z2N.id; lia.
    + exfalso. apply N2Z.inj_le in G. rewrite Z2N.id in G by lia.
      change (Z.of_N (2 ^ 63)) with (2 ^ 63)%Z in G. lia.
Qed.

Lemma u64_zero_iff : forall z, int64b z = true -> (u64 z = 0 <-> z = 0%Z).
Proof.
  intros z Hz. split; intro E.
  - rewrite <- (s64_u64 z Hz), E. reflexivity.
  - subst. reflexivity.
Qed.

(** * Field encoders.  Wire types: 0 = varint, 2 = length-delimited. *)
Definition key (fn wt : N) : list N := varint (fn * 8 + wt).

Definition len_delim (fn : N) (b : list N) : list N :=
  key fn 2 ++ varint (N.of_nat (length b)) ++ b.

(** [bytes] / [string] (proto3: empty = default = omitted; Go nil and empty
    slices are the same on the wire) *)
Definition enc_bytes (fn : N) (b : list N) : list N :=
  match b with [] => [] | _ => len_delim fn b end.

(** [int32] / [int64] (proto3: 0 omitted) *)
Definition enc_int (fn : N) (z : Z) : list N :=
  if (z =? 0)%Z then [] else key fn 0 ++ varint (u64 z).

(** singular sub-message given by its encoded body: absent pointer omitted, a
    present message with all-default fields is emitted with length 0 *)
Definition enc_msg (fn : N) (o : option (list N)) : list N :=
  match o with None => [] | Some b => len_delim fn b end.

(** repeated sub-message (each element emitted, even if empty) *)
Definition enc_rep_msg (fn : N) (bs : list (list N)) : list N :=
  flat_map (len_delim fn) bs.

(** * One-field decoders: value and remaining input *)
Definition take_len (l : list N) : option (list N * list N) :=
  match get_varint l with
  | Some (n, r) =>
      if N.of_nat (length r) <? n then None
      else Some (firstn (N.to_nat n) r, skipn (N.to_nat n) r)
  | None => None
  end.

Definition dec_bytes (fn : N) (l : list N) : option (list N * list N) :=
  match get_varint l with
  | Some (k, r) => if k =? fn * 8 + 2 then take_len r else Some ([], l)
  | None => Some ([], l)
  end.

Definition dec_int (fn : N) (l : list N) : option (Z * list N) :=
  match get_varint l with
  | Some (k, r) =>
      if k =? fn * 8 + 0 then
        match get_varint r with Some (v, r') => Some (s64 v, r') | None => None end
      else Some (0%Z, l)
  | None => Some (0%Z, l)
  end.

Definition dec_msg (fn : N) (l : list N) : option (option (list N) * list N) :=
  match get_varint l with
  | Some (k, r) =>
      if k =? fn * 8 + 2 then
        match take_len r with Some (b, r') => Some (Some b, r') | None => None end
      else Some (None, l)
  | None => Some (None, l)
  end.

(** * "The rest of the input starts with the key of a later field (or is not a
      field at all)": what makes the one-field decoders deterministic. *)
Definition key_above (fn : N) (l : list N) : bool :=
  match get_varint l with
  | Some (k, _) => fn * 8 + 7 <? k
  | None => true
  end.

Lemma key_above_nil fn : key_above fn [] = true.
Proof. reflexivity. Qed.

Lemma key_above_mono fn fn' l : fn <= fn' -> key_above fn' l = true -> key_above fn l = true.
Proof.
  unfold key_above. destruct (get_varint l) as [[k r]|]; [|reflexivity].
  rewrite !N.ltb_lt. lia.
Qed.

(** every field encoder yields [[]] or something starting with its key *)
Definition field_shape (fn : N) (e : list N) : Prop :=
  e = [] \/ exists wt rest, wt <= 7 /\ e = key fn wt ++ rest.

Lemma enc_bytes_shape fn b : field_shape fn (enc_bytes fn b).
Proof.
  destruct b as [|x b]; [left; reflexivity|]. right.
  exists 2, (varint (N.of_nat (length (x :: b))) ++ x :: b). split; [lia|reflexivity].
Qed.

Lemma enc_int_shape fn z : field_shape fn (enc_int fn z).
Proof.
  unfold enc_int. destruct (z =? 0)%Z; [left; reflexivity|]. right.
  exists 0, (varint (u64 z)). split; [lia|reflexivity].
Qed.

Lemma enc_msg_shape fn o : field_shape fn (enc_msg fn o).
Proof.
  destruct o as [b|]; [|left; reflexivity]. right.
  exists 2, (varint (N.of_nat (length b)) ++ b). split; [lia|reflexivity].
Qed.

Lemma key_above_field fn fn' e l :
  fn < fn' -> field_shape fn' e -> key_above fn' l = true -> key_above fn (e ++ l) = true.
Proof.
  intros Hlt [->|(wt & rest & Hwt & ->)] Hl.
  - apply key_above_mono with fn'; [lia|exact Hl].
  - unfold key_above, key. rewrite <- app_assoc, get_varint_varint. apply N.ltb_lt. lia.
Qed.

(** * Round trips of the one-field decoders *)
Lemma take_len_ok b r : take_len (varint (N.of_nat (length b)) ++ b ++ r) = Some (b, r).
Proof.
  unfold take_len. rewrite get_varint_varint.
  destruct (N.ltb_spec (N.of_nat (length (b ++ r))) (N.of_nat (length b))) as [L|G].
  - rewrite app_length in L. lia.
  - rewrite Nat2N.id. rewrite firstn_app, Nat.sub_diag, firstn_all, firstn_O, app_nil_r.
    rewrite skipn_app, Nat.sub_diag, skipn_all. reflexivity.
Qed.

Lemma dec_default_bytes fn l : key_above fn l = true -> dec_bytes fn l = Some ([], l).
Proof.
  unfold key_above, dec_bytes. destruct (get_varint l) as [[k r]|]; [|reflexivity].
  rewrite N.ltb_lt. intro H. destruct (N.eqb_spec k (fn * 8 + 2)); [lia|reflexivity].
Qed.

Lemma dec_bytes_enc fn b l :
  key_above fn l = true -> dec_bytes fn (enc_bytes fn b ++ l) = Some (b, l).
Proof.
  intro Hl. destruct b as [|x b].
  - apply dec_default_bytes, Hl.
  - unfold enc_bytes, len_delim, dec_bytes, key. rewrite <- !app_assoc, get_varint_varint.
    rewrite N.eqb_refl. apply take_len_ok.
Qed.

Lemma dec_int_enc fn z l :
  int64b z = true -> key_above fn l = true -> dec_int fn (enc_int fn z ++ l) = Some (z, l).
Proof.
  intros Hz Hl. unfold enc_int. destruct (Z.eqb_spec z 0) as [->|Nz].
  - unfold key_above in Hl. unfold dec_int. cbn [app].
    destruct (get_varint l) as [[k r]|]; [|reflexivity].
    apply N.ltb_lt in Hl. destruct (N.eqb_spec k (fn * 8 + 0)); [lia|reflexivity].
  - unfold dec_int, key. rewrite <- !app_assoc, get_varint_varint, N.eqb_refl.
    rewrite get_varint_varint, s64_u64 by exact Hz. reflexivity.
Qed.

Lemma dec_msg_enc fn o l :
  key_above fn l = true -> dec_msg fn (enc_msg fn o ++ l) = Some (o, l).
Proof.
  intro Hl. destruct o as [b|].
  - unfold enc_msg, len_delim, dec_msg, key. rewrite <- !app_assoc, get_varint_varint.
    rewrite N.eqb_refl, take_len_ok. reflexivity.
  - unfold key_above in Hl. unfold dec_msg. cbn [enc_msg app].
    destruct (get_varint l) as [[k r]|]; [|reflexivity].
    apply N.ltb_lt in Hl. destruct (N.eqb_spec k (fn * 8 + 2)); [lia|reflexivity].
Qed.

(** * Examples (non-vacuity; values cross-checked against golang/protobuf by the harness) *)
Example varint_300 : varint 300 = [172; 2]. Proof. reflexivity. Qed.
Example enc_int_neg1 : enc_int 4 (-1) = [32; 255; 255; 255; 255; 255; 255; 255; 255; 255; 1].
Proof. reflexivity. Qed.
Example enc_int_zero : enc_int 4 0 = []. Proof. reflexivity. Qed.
Example enc_bytes_ab : enc_bytes 1 [97; 98] = [10; 2; 97; 98]. Proof. reflexivity. Qed.
Example enc_msg_empty : enc_msg 3 (Some []) = [26; 0]. Proof. reflexivity. Qed.
Example dec_int_neg1 : dec_int 4 (enc_int 4 (-1) ++ [40; 1]) = Some ((-1)%Z, [40; 1]).
Proof. reflexivity. Qed.
