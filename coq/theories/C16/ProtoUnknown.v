(** The protobuf wire format as google.golang.org/protobuf (v1.34, the library
    behind golang/protobuf 1.5 [proto.Unmarshal] = [types.Decode]) consumes it:
    any field order, repeated occurrences, every wire type, unknown fields.

    [parse_fields] cuts a byte string into fields the way
    [impl.MessageInfo.unmarshalPointer] walks it (tag by [ConsumeVarint]: at
    most 10 bytes, the 10th < 2; field number in 1 .. 2^29-1; an end-group tag
    at message level is an error; value by the field's own consumer or by
    [protowire.ConsumeFieldValue], which agree on how many bytes a value of a
    given wire type occupies).  Groups (wire type 3) are skipped with their
    nested fields; inside a group [protowire.ConsumeTag] allows numbers up to
    2^31-1.  The recursion limit (10000 nested groups) is not modelled: fuel is
    derived from the input length, inputs are far shorter.

    An unknown field is kept as [protowire.AppendTag] (canonical key) followed
    by the value bytes exactly as they were on the wire: [w_raw]. *)
From Coq Require Import List NArith ZArith Lia Bool.
From C33 Require Import C16.Proto.
Import ListNotations.
Open Scope N_scope.

(** * protowire.ConsumeVarint *)
Fixpoint get_varint_n (k : nat) (l : list N) : option (N * list N) :=
  match k, l with
  | O, _ => None                       (* an 11th byte: overflow *)
  | _, [] => None                      (* truncated *)
  | S k', b :: tl =>
      if b <? 128 then
        match k' with
        | O => if b <? 2 then Some (b, tl) else None   (* 10th byte carries bit 63 only *)
        | _ => Some (b, tl)
        end
      else match get_varint_n k' tl with
           | Some (v, r) => Some ((b - 128) + 128 * v, r)
           | None => None
           end
  end.
Definition get_varint64 (l : list N) : option (N * list N) := get_varint_n 10 l.

(** * Values *)
Inductive wval :=
| WVar (v : N)            (* wire type 0 *)
| WBytes (b : list N)     (* wire type 2 *)
| WOther.                 (* fixed64 (1), fixed32 (5), group (3): only the raw bytes matter here *)

Record wfield := mk_wf { w_fn : N; w_wt : N; w_val : wval; w_raw : list N }.

Definition split_at (n : N) (l : list N) : option (list N * list N) :=
  if N.of_nat (length l) <? n then None
  else Some (firstn (N.to_nat n) l, skipn (N.to_nat n) l).

(** the part of [l] in front of its suffix [r] *)
Definition consumed (l r : list N) : list N := firstn (length l - length r) l.

Definition max_field : N := 2 ^ 29 - 1.
Definition max_group_field : N := 2 ^ 31 - 1.

(** [skip_value fuel fn wt l]: the input after one value of wire type [wt]
    (ConsumeFieldValue); [skip_group]: after the fields of group [fn] and its
    end tag. *)
Fixpoint skip_value (fuel : nat) (fn wt : N) (l : list N) {struct fuel} : option (list N) :=
  match fuel with
  | O => None
  | S f =>
      match wt with
      | 0 => match get_varint64 l with Some (_, r) => Some r | None => None end
      | 1 => match split_at 8 l with Some (_, r) => Some r | None => None end
      | 2 => match get_varint64 l with
             | Some (n, r) => match split_at n r with Some (_, r') => Some r' | None => None end
             | None => None
             end
      | 3 => skip_group f fn l
      | 5 => match split_at 4 l with Some (_, r) => Some r | None => None end
      | _ => None                       (* 4: stray end group; 6, 7: reserved *)
      end
  end
with skip_group (fuel : nat) (fn : N) (l : list N) {struct fuel} : option (list N) :=
  match fuel with
  | O => None
  | S f =>
      match get_varint64 l with
      | None => None
      | Some (tag, r) =>
          let n2 := tag / 8 in
          let t2 := tag mod 8 in
          if (n2 <? 1) || (max_group_field <? n2) then None
          else if t2 =? 4 then (if n2 =? fn then Some r else None)
          else match skip_value f n2 t2 r with
               | Some r' => skip_group f fn r'
               | None => None
               end
      end
  end.

Definition value_of (wt : N) (raw : list N) : wval :=
  match wt with
  | 0 => match get_varint64 raw with Some (v, _) => WVar v | None => WOther end
  | 2 => match get_varint64 raw with Some (_, b) => WBytes b | None => WOther end
  | _ => WOther
  end.

(** one field from the front of a message body *)
Definition parse_field (fuel : nat) (l : list N) : option (wfield * list N) :=
  match get_varint64 l with
  | None => None
  | Some (tag, r) =>
      let fn := tag / 8 in
      let wt := tag mod 8 in
      if (fn <? 1) || (max_field <? fn) then None
      else match skip_value fuel fn wt r with
           | None => None
           | Some r' => let raw := consumed r r' in Some (mk_wf fn wt (value_of wt raw) raw, r')
           end
  end.

Fixpoint parse_fields_aux (fuel : nat) (l : list N) : option (list wfield) :=
  match l with
  | [] => Some []
  | _ :: _ =>
      match fuel with
      | O => None
      | S f =>
          match parse_field (S f) l with
          | None => None
          | Some (fd, r) =>
              match parse_fields_aux f r with
              | Some fs => Some (fd :: fs)
              | None => None
              end
          end
      end
  end.

(** every field and every nesting level consumes at least one byte *)
Definition parse_fields (l : list N) : option (list wfield) :=
  parse_fields_aux (S (length l)) l.

(** how an unknown field is remembered *)
Definition unk_field (f : wfield) : list N := key (w_fn f) (w_wt f) ++ w_raw f.
Definition unk_bytes (fs : list wfield) : list N := flat_map unk_field fs.

(** * Go conversions of a decoded varint *)
Definition s32 (v : N) : Z :=
  let m := v mod 2 ^ 32 in
  if m <? 2 ^ 31 then Z.of_N m else (Z.of_N m - 2 ^ 32)%Z.

(** * unicode/utf8.Valid *)
Definition inr (lo hi x : N) : bool := (lo <=? x) && (x <=? hi).
Fixpoint utf8_valid (l : list N) : bool :=
  match l with
  | [] => true
  | a :: t1 =>
      if a <? 128 then utf8_valid t1
      else if inr 194 223 a then
        match t1 with b :: t2 => inr 128 191 b && utf8_valid t2 | _ => false end
      else if inr 224 239 a then
        match t1 with
        | b :: c :: t3 =>
            (if a =? 224 then inr 160 191 b else if a =? 237 then inr 128 159 b else inr 128 191 b)
            && inr 128 191 c && utf8_valid t3
        | _ => false
        end
      else if inr 240 244 a then
        match t1 with
        | b :: c :: d :: t4 =>
            (if a =? 240 then inr 144 191 b else if a =? 244 then inr 128 143 b else inr 128 191 b)
            && inr 128 191 c && inr 128 191 d && utf8_valid t4
        | _ => false
        end
      else false
  end.

(** * Examples *)
Example gv_10 : get_varint64 [255;255;255;255;255;255;255;255;255;1;7] = Some (2 ^ 64 - 1, [7]).
Proof. reflexivity. Qed.
Example gv_overflow : get_varint64 [255;255;255;255;255;255;255;255;255;2] = None.
Proof. reflexivity. Qed.
Example gv_overlong : get_varint64 [133; 0; 9] = Some (5, [9]).
Proof. reflexivity. Qed.
Example pf_unknown :
  option_map (map unk_field) (parse_fields [96; 5; 122; 2; 97; 98; 99; 8; 1; 100])
  = Some [[96; 5]; [122; 2; 97; 98]; [99; 8; 1; 100]].
Proof. reflexivity. Qed.
Example pf_endgroup : parse_fields [100] = None. Proof. reflexivity. Qed.
Example pf_tag_overlong : option_map (map unk_field) (parse_fields [224; 128; 0; 5]) = Some [[96; 5]].
Proof. reflexivity. Qed.
Example utf8_ok : utf8_valid [229; 156; 176; 45; 195; 188; 240; 159; 152; 128] = true.
Proof. reflexivity. Qed.
Example utf8_bad : utf8_valid [237; 160; 128] = false /\ utf8_valid [192; 128] = false /\ utf8_valid [97; 200] = false.
Proof. repeat split; reflexivity. Qed.
