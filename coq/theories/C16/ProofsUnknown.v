(** C16 extension — proofs about unknown protobuf fields. *)
From Coq Require Import String List NArith ZArith Lia Bool.
From C33 Require Import Lib.Harness C16.Proto C16.Model C16.Spec C16.Proofs
                        C16.ProtoUnknown C16.ModelUnknown.
Import ListNotations.
Open Scope list_scope.

(** * A message without unknown fields is encoded like the declared fields *)
Lemma encode_d_plain t sunk : encode_d (mk_dtx (set_sig None t) sunk []) = encode_tx (set_sig None t).
Proof. unfold encode_d, encode_tx. cbn. rewrite !app_nil_r. reflexivity. Qed.

Lemma encode_d_nounk t : encode_d (mk_dtx t [] []) = encode_tx t.
Proof.
  unfold encode_d, encode_tx, encode_sig_u. cbn [d_tx d_sunk d_unk]. rewrite !app_nil_r.
  destruct (signature t) as [s|]; cbn [option_map]; [rewrite app_nil_r|]; reflexivity.
Qed.

Lemma encode_d_split d :
  encode_d d = encode_d (mk_dtx (d_tx d) (d_sunk d) []) ++ d_unk d.
Proof. unfold encode_d. cbn [d_tx d_sunk d_unk]. rewrite app_nil_r, <- !app_assoc. reflexivity. Qed.

(** * Hash, FullHash, checkSign do not see them *)
Lemma hash_pre_d_eq d : hash_pre_d d = hash_pre (d_tx d).
Proof.
  unfold hash_pre_d, hash_pre, set_header_d, set_sig_d, clone_tx_d, upd. cbn [d_tx d_sunk d_unk].
  destruct (d_tx d); cbn. unfold encode_d, encode_tx. cbn. rewrite !app_nil_r. reflexivity.
Qed.

Lemma full_pre_d_eq d : full_pre_d d = full_pre (d_tx d).
Proof. unfold full_pre_d, full_pre, clone_d. apply encode_d_nounk. Qed.

Lemma signed_bytes_d_eq d : signed_bytes_d d = signed_bytes (d_tx d).
Proof.
  unfold signed_bytes_d, signed_bytes, set_sig_d, clone_tx_d. cbn [d_tx d_sunk d_unk].
  apply encode_d_plain.
Qed.

Lemma hash_ignores_unknown :
  forall (HT : Type) (H : list N -> HT) d,
    tx_hash_d H d = tx_hash H (d_tx d) /\ full_hash_d H d = full_hash H (d_tx d).
Proof.
  intros. unfold tx_hash_d, full_hash_d, tx_hash, full_hash.
  rewrite hash_pre_d_eq, full_pre_d_eq. split; reflexivity.
Qed.

(** in particular: any two unknown parts give the same hashes *)
Lemma hash_same_for_any_unknown :
  forall (HT : Type) (H : list N -> HT) t su1 u1 su2 u2,
    tx_hash_d H (mk_dtx t su1 u1) = tx_hash_d H (mk_dtx t su2 u2) /\
    full_hash_d H (mk_dtx t su1 u1) = full_hash_d H (mk_dtx t su2 u2).
Proof.
  intros. destruct (hash_ignores_unknown HT H (mk_dtx t su1 u1)) as [A1 B1].
  destruct (hash_ignores_unknown HT H (mk_dtx t su2 u2)) as [A2 B2].
  cbn [d_tx] in *. rewrite A1, A2, B1, B2. split; reflexivity.
Qed.

Lemma checksign_ignores_unknown :
  forall ds verify d h, check_sign_d ds verify d h = check_sign ds verify (d_tx d) h.
Proof. intros. unfold check_sign_d, check_sign. rewrite signed_bytes_d_eq. reflexivity. Qed.

(** * Clone / CloneTx *)
Lemma clone_drops_unknown :
  forall (HT : Type) (H : list N -> HT) d,
    encode_d (clone_d d) = encode_tx (d_tx d) /\
    d_unk (clone_tx_d d) = [] /\ d_sunk (clone_tx_d d) = d_sunk d /\
    tx_hash_d H (clone_d d) = tx_hash_d H d /\ full_hash_d H (clone_d d) = full_hash_d H d /\
    tx_hash_d H (clone_tx_d d) = tx_hash_d H d /\ full_hash_d H (clone_tx_d d) = full_hash_d H d.
Proof.
  intros HT H d.
  split; [unfold clone_d; rewrite clone_id; apply encode_d_nounk|].
  split; [reflexivity|]. split; [reflexivity|].
  destruct (hash_ignores_unknown HT H d) as [A B].
  destruct (hash_ignores_unknown HT H (clone_d d)) as [A1 B1].
  destruct (hash_ignores_unknown HT H (clone_tx_d d)) as [A2 B2].
  unfold clone_d, clone_tx_d in *. cbn [d_tx] in *. rewrite clone_id in *. rewrite clone_tx_id in *.
  rewrite A, B, A1, B1, A2, B2. repeat split; reflexivity.
Qed.

(** the copy is the same message only when there was nothing to drop *)
Lemma clone_same_encoding_iff d :
  encode_d (clone_d d) = encode_d d <-> (d_unk d = [] /\ (signature (d_tx d) = None \/ d_sunk d = [])).
Proof.
  unfold clone_d. rewrite clone_id, encode_d_nounk. unfold encode_d, encode_tx, encode_sig_u.
  set (t := d_tx d).
  split.
  - intro E. apply app_inv_head in E. apply app_inv_head in E.
    destruct (signature t) as [s|] eqn:Sg; cbn [option_map enc_msg] in E.
    + unfold len_delim in E. rewrite <- !app_assoc in E. apply app_inv_head in E.
      set (R1 := enc_int 4 (fee t) ++ _) in E at 1.
      apply (f_equal take_len) in E.
      rewrite take_len_ok in E.
      rewrite (app_assoc (encode_sig s) (d_sunk d)) in E.
      rewrite take_len_ok in E.
      injection E as E1 E2.
      assert (Su : d_sunk d = []).
      { rewrite <- (app_nil_r (encode_sig s)) in E1 at 1. apply app_inv_head in E1. auto. }
      split; [|right; exact Su].
      subst R1. repeat apply app_inv_head in E2.
      rewrite <- (app_nil_r (enc_int 11 (chainID t))) in E2 at 1. apply app_inv_head in E2.
      symmetry. exact E2.
    + cbn [enc_msg app] in E. repeat apply app_inv_head in E.
      rewrite <- (app_nil_r (enc_int 11 (chainID t))) in E at 1. apply app_inv_head in E.
      split; [symmetry; exact E|left; reflexivity].
  - intros [U S]. rewrite U. destruct S as [S|S].
    + rewrite S. cbn [option_map]. rewrite !app_nil_r. reflexivity.
    + rewrite S. destruct (signature t); cbn [option_map]; rewrite ?app_nil_r; reflexivity.
Qed.
