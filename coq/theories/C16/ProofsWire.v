(** C16 extension — the general decoder inverts the encoder:
    [wire_decode (encode_tx t) = Some (plain t)] for every transaction Go can
    hold (int ranges, valid UTF-8 in [to], lengths below 2^64). *)
From Coq Require Import List NArith ZArith Lia Bool.
From C33 Require Import Lib.Harness C16.Proto C16.Model C16.Spec C16.Proofs
                        C16.ProtoUnknown C16.ModelUnknown.
Import ListNotations.
Open Scope list_scope.

(** * ConsumeVarint reads back a canonical varint below 2^64 *)
Lemma gvn_cons k b tl :
  get_varint_n (S k) (b :: tl) =
  if (b <? 128)%N then
    match k with
    | O => if (b <? 2)%N then Some (b, tl) else None
    | _ => Some (b, tl)
    end
  else match get_varint_n k tl with
       | Some (v, r) => Some ((b - 128) + 128 * v, r)%N
       | None => None
       end.
Proof. reflexivity. Qed.

Lemma get_varint_n_aux : forall k f n r,
  (n < 2 ^ (N.of_nat f) * 128)%N -> (n < 2 * 128 ^ N.of_nat k)%N ->
  get_varint_n (S k) (varint_aux f n ++ r) = Some (n, r).
Proof.
  induction k as [|k IH]; intros f n r Hf Hk.
  - (* one byte allowed, n < 2 *)
    cbn in Hk.
    destruct f as [|f]; cbn [varint_aux].
    + cbn [app get_varint_n]. destruct (N.ltb_spec n 128); [|lia].
      destruct (N.ltb_spec n 2); [reflexivity|lia].
    + destruct (N.ltb_spec n 128); [|lia]. cbn [app get_varint_n].
      destruct (N.ltb_spec n 128); [|lia]. destruct (N.ltb_spec n 2); [reflexivity|lia].
  - destruct f as [|f]; cbn [varint_aux].
    + cbn in Hf. cbn [app get_varint_n].
      destruct (N.ltb_spec n 128); [reflexivity|lia].
    + destruct (N.ltb_spec n 128) as [L|G].
      * cbn [app get_varint_n]. destruct (N.ltb_spec n 128); [reflexivity|lia].
      * cbn [app]. rewrite gvn_cons.
        pose proof (N.mod_lt n 128 ltac:(lia)) as Hm.
        pose proof (N.div_mod n 128 ltac:(lia)) as Hdm.
        rewrite Nat2N.inj_succ, N.pow_succ_r' in Hf, Hk.
        assert (Hp : (1 <= 2 ^ N.of_nat f)%N)
          by (apply N.lt_pred_le, N.neq_0_lt_0, N.pow_nonzero; lia).
        assert (Hq : (1 <= 128 ^ N.of_nat k)%N)
          by (apply N.lt_pred_le, N.neq_0_lt_0, N.pow_nonzero; lia).
        set (m := (n mod 128)%N) in *. set (q := (n / 128)%N) in *.
        set (p := (2 ^ N.of_nat f)%N) in *. set (p2 := (128 ^ N.of_nat k)%N) in *.
        destruct (N.ltb_spec (m + 128) 128) as [L2|G2]; [lia|].
        rewrite IH by (fold p; fold p2; nia).
        f_equal. f_equal. lia.
Qed.

Lemma get_varint64_varint : forall n r, (n < 2 ^ 64)%N -> get_varint64 (varint n ++ r) = Some (n, r).
Proof.
  intros n r Hn. unfold get_varint64, varint. apply get_varint_n_aux.
  - rewrite N2Nat.id. pose proof (N.size_gt n).
    assert (1 <= 2 ^ N.size n)%N by (apply N.lt_pred_le, N.neq_0_lt_0, N.pow_nonzero; lia).
    nia.
  - change (2 * 128 ^ N.of_nat 9)%N with (2 ^ 64)%N. exact Hn.
Qed.

(** * One field *)
Lemma consumed_app (x r : list N) : consumed (x ++ r) r = x.
Proof.
  unfold consumed. rewrite app_length, Nat.add_sub, firstn_app, Nat.sub_diag, firstn_all.
  cbn [firstn]. apply app_nil_r.
Qed.

Lemma split_at_app (b r : list N) : split_at (N.of_nat (length b)) (b ++ r) = Some (b, r).
Proof.
  unfold split_at. destruct (N.ltb_spec (N.of_nat (length (b ++ r))) (N.of_nat (length b))) as [L|G].
  - rewrite app_length in L. lia.
  - rewrite Nat2N.id, firstn_app, Nat.sub_diag, firstn_all, skipn_app, Nat.sub_diag, skipn_all.
    cbn [firstn skipn app]. rewrite app_nil_r. reflexivity.
Qed.

Definition fn_okb (fn : N) : bool := ((1 <=? fn) && (fn <=? 2 ^ 29 - 1))%N.

Lemma tag_div fn wt : (wt < 8)%N -> ((fn * 8 + wt) / 8 = fn /\ (fn * 8 + wt) mod 8 = wt)%N.
Proof.
  intro H. split.
  - rewrite N.div_add_l by lia. rewrite N.div_small by lia. lia.
  - rewrite N.add_comm, N.mod_add by lia. apply N.mod_small; lia.
Qed.

Lemma parse_field_var fuel fn v r :
  fn_okb fn = true -> (v < 2 ^ 64)%N ->
  parse_field (S fuel) (key fn 0 ++ varint v ++ r) = Some (mk_wf fn 0 (WVar v) (varint v), r).
Proof.
  intros Hfn Hv. unfold fn_okb in Hfn. apply andb_true_iff in Hfn as [H1 H2].
  apply N.leb_le in H1. apply N.leb_le in H2.
  unfold parse_field, key.
  rewrite get_varint64_varint by (change (2 ^ 64)%N with 18446744073709551616%N; change (2 ^ 29 - 1)%N with 536870911%N in H2; lia).
  destruct (tag_div fn 0 ltac:(lia)) as [Ed Em]. rewrite Ed, Em.
  unfold max_field. destruct (N.ltb_spec fn 1); [lia|]. destruct (N.ltb_spec (2 ^ 29 - 1) fn); [lia|].
  cbn [orb skip_value]. rewrite get_varint64_varint by exact Hv.
  rewrite consumed_app. unfold value_of.
  rewrite <- (app_nil_r (varint v)) at 1. rewrite get_varint64_varint by exact Hv. reflexivity.
Qed.

Lemma parse_field_bytes fuel fn b r :
  fn_okb fn = true -> (N.of_nat (length b) < 2 ^ 64)%N ->
  parse_field (S fuel) (len_delim fn b ++ r) =
  Some (mk_wf fn 2 (WBytes b) (varint (N.of_nat (length b)) ++ b), r).
Proof.
  intros Hfn Hv. unfold fn_okb in Hfn. apply andb_true_iff in Hfn as [H1 H2].
  apply N.leb_le in H1. apply N.leb_le in H2.
  unfold parse_field, len_delim, key. rewrite <- !app_assoc.
  rewrite get_varint64_varint by (change (2 ^ 64)%N with 18446744073709551616%N; change (2 ^ 29 - 1)%N with 536870911%N in H2; lia).
  destruct (tag_div fn 2 ltac:(lia)) as [Ed Em]. rewrite Ed, Em.
  unfold max_field. destruct (N.ltb_spec fn 1); [lia|]. destruct (N.ltb_spec (2 ^ 29 - 1) fn); [lia|].
  cbn [orb skip_value]. rewrite get_varint64_varint by exact Hv.
  rewrite split_at_app.
  replace (varint (N.of_nat (length b)) ++ b ++ r) with ((varint (N.of_nat (length b)) ++ b) ++ r)
    by (rewrite <- app_assoc; reflexivity).
  rewrite consumed_app. unfold value_of.
  rewrite get_varint64_varint by exact Hv. reflexivity.
Qed.

(** * Sequences of fields, independent of the fuel *)
Definition parses (l : list N) (fs : list wfield) : Prop :=
  forall g, (length l < g)%nat -> parse_fields_aux g l = Some fs.

Lemma parses_nil : parses [] [].
Proof. intros g _. destruct g; reflexivity. Qed.

Lemma parses_cons e fd rest fs :
  e <> [] ->
  (forall fuel, parse_field (S fuel) (e ++ rest) = Some (fd, rest)) ->
  parses rest fs -> parses (e ++ rest) (fd :: fs).
Proof.
  intros Ne Pf Pr g Hg. destruct e as [|x e]; [congruence|].
  destruct g as [|g]; [cbn in Hg; lia|].
  cbn [app parse_fields_aux]. change (x :: e ++ rest) with ((x :: e) ++ rest).
  rewrite Pf. rewrite Pr; [reflexivity|].
  cbn [app length] in Hg. rewrite app_length in Hg. lia.
Qed.

Lemma parses_parse_fields l fs : parses l fs -> parse_fields l = Some fs.
Proof. intro P. apply P. lia. Qed.

(** fields of the three encoders *)
Definition f_bytes (fn : N) (b : list N) : list wfield :=
  match b with [] => [] | _ => [mk_wf fn 2 (WBytes b) (varint (N.of_nat (length b)) ++ b)] end.
Definition f_int (fn : N) (z : Z) : list wfield :=
  if (z =? 0)%Z then [] else [mk_wf fn 0 (WVar (u64 z)) (varint (u64 z))].
Definition f_msg (fn : N) (o : option (list N)) : list wfield :=
  match o with None => [] | Some b => [mk_wf fn 2 (WBytes b) (varint (N.of_nat (length b)) ++ b)] end.

Definition len_okb (b : list N) : bool := (N.of_nat (length b) <? 2 ^ 64)%N.

Lemma u64_lt z : (u64 z < 2 ^ 64)%N.
Proof.
  unfold u64. pose proof (Z.mod_pos_bound z (2 ^ 64) ltac:(lia)) as H.
  apply N2Z.inj_lt. rewrite Z2N.id by lia. change (Z.of_N (2 ^ 64)) with (2 ^ 64)%Z. lia.
Qed.

Lemma key_nonnil fn wt rest : key fn wt ++ rest <> [].
Proof.
  unfold key, varint. destruct (N.to_nat (N.size (fn * 8 + wt))); cbn [varint_aux].
  - discriminate.
  - destruct (_ <? 128)%N; discriminate.
Qed.

Lemma len_okb_lt b : len_okb b = true -> (N.of_nat (length b) < 2 ^ 64)%N.
Proof. unfold len_okb. apply N.ltb_lt. Qed.

Lemma parses_ld fn b rest fs :
  fn_okb fn = true -> (N.of_nat (length b) < 2 ^ 64)%N -> parses rest fs ->
  parses (len_delim fn b ++ rest) (mk_wf fn 2 (WBytes b) (varint (N.of_nat (length b)) ++ b) :: fs).
Proof.
  intros Hfn Hl P.
  apply parses_cons; [unfold len_delim; apply key_nonnil| |exact P].
  intro fuel. apply parse_field_bytes; assumption.
Qed.

Lemma parses_bytes fn b rest fs :
  fn_okb fn = true -> len_okb b = true -> parses rest fs ->
  parses (enc_bytes fn b ++ rest) (f_bytes fn b ++ fs).
Proof.
  intros Hfn Hl P. apply len_okb_lt in Hl. destruct b as [|x b]; [exact P|].
  exact (parses_ld fn (x :: b) rest fs Hfn Hl P).
Qed.

Lemma parses_int fn z rest fs :
  fn_okb fn = true -> parses rest fs -> parses (enc_int fn z ++ rest) (f_int fn z ++ fs).
Proof.
  intros Hfn P. unfold enc_int, f_int. destruct (z =? 0)%Z; [exact P|]. cbn [app].
  apply parses_cons; [apply key_nonnil| |exact P].
  intro fuel. rewrite <- app_assoc. apply parse_field_var; [assumption|apply u64_lt].
Qed.

Lemma parses_msg fn o rest fs :
  fn_okb fn = true -> match o with Some b => len_okb b | None => true end = true -> parses rest fs ->
  parses (enc_msg fn o ++ rest) (f_msg fn o ++ fs).
Proof.
  intros Hfn Hl P. destruct o as [b|]; [|exact P].
  apply len_okb_lt in Hl. exact (parses_ld fn b rest fs Hfn Hl P).
Qed.
