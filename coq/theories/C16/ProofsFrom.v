(** C16 — Transaction.From() and the sender gate of Transaction.CheckSign
    (repair of finding 11, /repo 909acb0).

    [check_sign] (Model.v) is what CheckSign did before the repair and still is
    the part after the gate (signature present, types.CheckSign); the whole of
    Transaction.CheckSign is [check_sign_tx].  [check_sign_tx_split] carries
    every statement about [check_sign] over. *)
From Coq Require Import String List NArith ZArith Lia Bool.
From C33 Require Import Lib.Harness C16.Proto C16.Model C16.Spec C16.Proofs.
Import ListNotations.
Open Scope list_scope.

(** * From() *)
Lemma from_value adrv t :
  tx_from adrv t =
  Some (match adrv (addr_id (sig_ty t)) (sig_pub t) with AAddr a => a | ANone | APanic => [] end).
Proof. unfold tx_from, from_addr. destruct (adrv _ _); reflexivity. Qed.

(** From() returns a string for every transaction: any ty (all 2^32), any key,
    no signature at all, whatever the address drivers do *)
Lemma from_total : forall adrv t, exists a, tx_from adrv t = Some a.
Proof. intros adrv t. rewrite from_value. eexists. reflexivity. Qed.

Lemma from_usable adrv t :
  usable adrv (sig_ty t) (sig_pub t) = true ->
  exists a, adrv (addr_id (sig_ty t)) (sig_pub t) = AAddr a /\ tx_from adrv t = Some a.
Proof.
  unfold usable. intro U. rewrite from_value.
  destruct (adrv (addr_id (sig_ty t)) (sig_pub t)) as [| |a]; try discriminate.
  exists a. split; reflexivity.
Qed.

Lemma from_unusable adrv t :
  usable adrv (sig_ty t) (sig_pub t) = false -> tx_from adrv t = Some [].
Proof.
  unfold usable. intro U. rewrite from_value.
  destruct (adrv (addr_id (sig_ty t)) (sig_pub t)); try reflexivity. discriminate.
Qed.

(** * The gate *)
Lemma from_addr_usable adrv t :
  match from_addr adrv t with Some _ => true | None => false end = usable adrv (sig_ty t) (sig_pub t).
Proof. unfold from_addr, usable. destruct (adrv _ _); reflexivity. Qed.

Lemma check_sign_tx_split adrv ds verify t h :
  check_sign_tx adrv ds verify t h = usable adrv (sig_ty t) (sig_pub t) && check_sign ds verify t h.
Proof.
  unfold check_sign_tx. rewrite <- from_addr_usable.
  destruct (signature t) as [s|] eqn:Sg.
  - destruct (from_addr adrv t); reflexivity.
  - rewrite (unsigned_fails ds verify t h Sg). apply eq_sym, andb_false_r.
Qed.

Lemma check_sign_tx_true adrv ds verify t h :
  check_sign_tx adrv ds verify t h = true ->
  usable adrv (sig_ty t) (sig_pub t) = true /\ check_sign ds verify t h = true.
Proof. rewrite check_sign_tx_split. apply andb_true_iff. Qed.

Lemma check_sign_false_tx adrv ds verify t h :
  check_sign ds verify t h = false -> check_sign_tx adrv ds verify t h = false.
Proof. intro C. rewrite check_sign_tx_split, C. apply andb_false_r. Qed.

(** a signature type / key for which no driver derives an address is refused,
    whatever the signature driver says *)
Lemma unusable_rejected :
  forall adrv ds verify t s h,
    signature t = Some s ->
    (forall a, adrv (addr_id (s_ty s)) (s_pub s) <> AAddr a) ->
    check_sign_tx adrv ds verify t h = false.
Proof.
  intros adrv ds verify t s h Sg N. rewrite check_sign_tx_split.
  unfold usable, sig_ty, sig_pub. rewrite Sg.
  destruct (adrv (addr_id (s_ty s)) (s_pub s)) as [| |a] eqn:E; try reflexivity.
  exfalso. exact (N a eq_refl).
Qed.

(** accepted => there is a signature, a driver derives the sender address from
    its type and key, From() is that address, and the driver part accepted *)
Lemma accepted_has_sender :
  forall adrv ds verify t h,
    check_sign_tx adrv ds verify t h = true ->
    exists s a, signature t = Some s /\ adrv (addr_id (s_ty s)) (s_pub s) = AAddr a /\
                tx_from adrv t = Some a /\ check_sign ds verify t h = true.
Proof.
  intros adrv ds verify t h C. apply check_sign_tx_true in C as [U C].
  destruct (signature t) as [s|] eqn:Sg.
  - destruct (from_usable adrv t U) as (a & E & F). exists s, a.
    unfold sig_ty, sig_pub in E. rewrite Sg in E. auto.
  - rewrite (unsigned_fails ds verify t h Sg) in C. discriminate.
Qed.

(** * The property clauses for the whole of Transaction.CheckSign *)
Lemma sig_of_sign_tx ty pub sg t :
  sig_ty (sign_tx ty pub sg t) = ty /\ sig_pub (sign_tx ty pub sg t) = pub.
Proof. split; reflexivity. Qed.

Lemma sign_then_verify_tx :
  forall adrv ds verify mall issued t ty pub sg h d,
    ideal_scheme verify mall issued ->
    load ds (crypto_id ty) h = Some d ->
    issued (d_id d) pub (sign_msg t) sg ->
    usable adrv ty pub = true ->
    check_sign_tx adrv ds verify (sign_tx ty pub sg t) h = true.
Proof.
  intros adrv ds verify mall issued t ty pub sg h d Id L I U.
  rewrite check_sign_tx_split. destruct (sig_of_sign_tx ty pub sg t) as [-> ->].
  rewrite U. exact (sign_then_verify ds verify mall issued t ty pub sg h d Id L I).
Qed.

(** the guard is needed: a type whose address format has no driver is not a
    type to sign with - the honest signer is refused as well *)
Lemma sign_unusable_refused :
  forall adrv ds verify t ty pub sg h,
    usable adrv ty pub = false ->
    check_sign_tx adrv ds verify (sign_tx ty pub sg t) h = false.
Proof.
  intros adrv ds verify t ty pub sg h U. rewrite check_sign_tx_split.
  destruct (sig_of_sign_tx ty pub sg t) as [-> ->]. rewrite U. reflexivity.
Qed.

Lemma altered_fails_tx_partial :
  forall adrv ds verify mall issued t ty pub sg t' s' h,
    ideal_scheme verify mall issued ->
    only_issued issued (crypto_id ty) pub (sign_msg t) sg ->
    wf_txb t = true -> wf_txb t' = true ->
    signature t' = Some s' -> crypto_id (s_ty s') = crypto_id ty ->
    (set_sig None t' <> set_sig None t \/ s_pub s' <> pub \/
     mall (crypto_id ty) sg (s_sig s') = false) ->
    check_sign_tx adrv ds verify t' h = false.
Proof.
  intros adrv ds verify mall issued t ty pub sg t' s' h Id Only W W' Sg Eid Alt.
  apply check_sign_false_tx.
  exact (altered_fails_partial ds verify mall issued t ty pub sg t' s' h Id Only W W' Sg Eid Alt).
Qed.

Lemma disabled_fails_tx :
  forall adrv ds verify t s h,
    (0 <= h)%Z -> signature t = Some s ->
    enabled ds (crypto_id (s_ty s)) h = false ->
    check_sign_tx adrv ds verify t h = false.
Proof.
  intros adrv ds verify t s h Hh Sg E. apply check_sign_false_tx.
  exact (disabled_fails ds verify t s h Hh Sg E).
Qed.

Lemma unsigned_fails_tx :
  forall adrv ds verify t h, signature t = None -> check_sign_tx adrv ds verify t h = false.
Proof. intros adrv ds verify t h Sg. unfold check_sign_tx. rewrite Sg. reflexivity. Qed.

Lemma disabled_or_unsigned_fails_tx :
  forall adrv ds verify t h,
    (signature t = None \/
     exists s, (0 <= h)%Z /\ signature t = Some s /\ enabled ds (crypto_id (s_ty s)) h = false) ->
    check_sign_tx adrv ds verify t h = false.
Proof.
  intros adrv ds verify t h [Sg | (s & Hh & Sg & E)].
  - exact (unsigned_fails_tx adrv ds verify t h Sg).
  - exact (disabled_fails_tx adrv ds verify t s h Hh Sg E).
Qed.

(** * Examples: the address drivers of /repo in miniature *)
(** 0, 1: hash of the key (any key); 2: eth, panics on an empty key; 3: utxo,
    registered, panics "implement me"; 4..7: no driver *)
Definition toy_adrv (id : Z) (pub : list N) : aout :=
  if Z.eqb id 0 || Z.eqb id 1 then AAddr (Z.to_N id :: 58%N :: pub)
  else if Z.eqb id 2 then match pub with [] => APanic | _ :: _ => AAddr (2%N :: 120%N :: pub) end
  else if Z.eqb id 3 then APanic
  else ANone.

(** ty = secp256k1 | 3<<12 (utxo), | 5<<12 (no driver): signed by the key
    holder, accepted by the signature driver - refused, and From() is "" *)
Example ex_unusable_refused :
  check_sign toy_ds toy_verify (sign_tx 12289 toy_pub toy_sg toy_tx) 20 = true /\
  check_sign_tx toy_adrv toy_ds toy_verify (sign_tx 12289 toy_pub toy_sg toy_tx) 20 = false /\
  tx_from toy_adrv (sign_tx 12289 toy_pub toy_sg toy_tx) = Some [] /\
  check_sign_tx toy_adrv toy_ds toy_verify (sign_tx 20481 toy_pub toy_sg toy_tx) 20 = false /\
  tx_from toy_adrv (sign_tx 20481 toy_pub toy_sg toy_tx) = Some [].
Proof. vm_compute. repeat split; reflexivity. Qed.

(** usable formats: accepted, with the driver's address as sender *)
Example ex_usable_accepted :
  usable toy_adrv 1 toy_pub = true /\
  check_sign_tx toy_adrv toy_ds toy_verify (sign_tx 1 toy_pub toy_sg toy_tx) 20 = true /\
  tx_from toy_adrv (sign_tx 1 toy_pub toy_sg toy_tx) = Some (0%N :: 58%N :: toy_pub) /\
  check_sign_tx toy_adrv toy_ds toy_verify (sign_tx 8193 toy_pub toy_sg toy_tx) 20 = true /\
  tx_from toy_adrv (sign_tx 8193 toy_pub toy_sg toy_tx) = Some (2%N :: 120%N :: toy_pub).
Proof. vm_compute. repeat split; reflexivity. Qed.

(** eth format with an empty key, and no signature at all: From() answers *)
Example ex_from_edge :
  tx_from toy_adrv (sign_tx 8193 [] toy_sg toy_tx) = Some [] /\
  check_sign_tx toy_adrv toy_ds (fun _ _ _ _ => true) (sign_tx 8193 [] toy_sg toy_tx) 20 = false /\
  tx_from toy_adrv toy_tx = Some [0%N; 58%N] /\
  signature toy_tx = None.
Proof. vm_compute. repeat split; reflexivity. Qed.
