(** C16 extension — a decoded [types.Transaction] as golang/protobuf holds it:
    the declared fields ([Model.tx]) plus the unknown fields that
    [proto.Unmarshal] keeps (in the message and in its [Signature]
    sub-message), and the general decoder [wire_decode] = [types.Decode] on
    arbitrary wire bytes (any field order, repeated fields: last value wins,
    sub-message occurrences are merged, a known number with another wire type
    is an unknown field, invalid UTF-8 in [to] is an error).

    What the hand-written copies do with the unknown part (types/tx.go,
    types/types.go):
      CloneTx          copies the 11 declared fields, shares the Signature
                       pointer: drops the message's unknown fields, keeps the
                       signature's
      Signature.Clone  copies ty, pubkey, signature: drops them
      Clone            CloneTx + Signature.Clone: drops both
      Hash             CloneTx, Signature = nil, Header = nil
      FullHash         Clone
      checkSign        CloneTx, Signature = nil (after the sender gate, which
                       reads Signature.ty / pubkey only)
      Sign             encodes the transaction itself with Signature = nil:
                       the unknown fields ARE in the signed bytes
      types.Encode / Size / proto.Clone / proto.Equal keep everything. *)
From Coq Require Import List NArith ZArith Bool.
From C33 Require Import Lib.Harness C16.Proto C16.Model C16.ProtoUnknown.
Import ListNotations.
Open Scope list_scope.

Record dtx := mk_dtx {
  d_tx   : tx;              (* declared fields *)
  d_sunk : list N;          (* unknown bytes held by the Signature message ([] if none / no signature) *)
  d_unk  : list N           (* unknown bytes held by the Transaction message *)
}.

Definition plain (t : tx) : dtx := mk_dtx t [] [].

(** * Marshal: declared fields in number order, then the unknown bytes *)
Definition encode_sig_u (s : sigt) (sunk : list N) : list N := encode_sig s ++ sunk.

Definition encode_d (d : dtx) : list N :=
  let t := d_tx d in
  enc_bytes 1 (execer t) ++ enc_bytes 2 (payload t) ++
  enc_msg 3 (option_map (fun s => encode_sig_u s (d_sunk d)) (signature t)) ++
  enc_int 4 (fee t) ++ enc_int 5 (expire t) ++ enc_int 6 (nonce t) ++
  enc_bytes 7 (to_ t) ++ enc_int 8 (groupCount t) ++
  enc_bytes 9 (header t) ++ enc_bytes 10 (next t) ++ enc_int 11 (chainID t) ++ d_unk d.

(** * Unmarshal *)
Definition sig0 : sigt := mk_sig 0 [] [].

Definition step_sig (acc : option (sigt * list N)) (f : wfield) : option (sigt * list N) :=
  match acc with
  | None => None
  | Some (s, u) =>
      match w_fn f, w_wt f, w_val f with
      | 1%N, 0%N, WVar v => Some (mk_sig (s32 v) (s_pub s) (s_sig s), u)
      | 2%N, 2%N, WBytes b => Some (mk_sig (s_ty s) b (s_sig s), u)
      | 3%N, 2%N, WBytes b => Some (mk_sig (s_ty s) (s_pub s) b, u)
      | _, _, _ => Some (s, u ++ unk_field f)
      end
  end.

(** merge one occurrence of field 3 into the signature held so far *)
Definition merge_sig (cur : option sigt) (sunk : list N) (body : list N) : option (sigt * list N) :=
  match parse_fields body with
  | None => None
  | Some fs => fold_left step_sig fs (Some (match cur with Some s => s | None => sig0 end, sunk))
  end.

Definition upd (d : dtx) (t : tx) : dtx := mk_dtx t (d_sunk d) (d_unk d).

Definition step_tx (acc : option dtx) (f : wfield) : option dtx :=
  match acc with
  | None => None
  | Some d =>
      let t := d_tx d in
      match w_fn f, w_wt f, w_val f with
      | 1%N, 2%N, WBytes b => Some (upd d (mk_tx b (payload t) (signature t) (fee t) (expire t) (nonce t) (to_ t) (groupCount t) (header t) (next t) (chainID t)))
      | 2%N, 2%N, WBytes b => Some (upd d (mk_tx (execer t) b (signature t) (fee t) (expire t) (nonce t) (to_ t) (groupCount t) (header t) (next t) (chainID t)))
      | 3%N, 2%N, WBytes b =>
          match merge_sig (signature t) (d_sunk d) b with
          | None => None
          | Some (s, u) => Some (mk_dtx (set_sig (Some s) t) u (d_unk d))
          end
      | 4%N, 0%N, WVar v => Some (upd d (mk_tx (execer t) (payload t) (signature t) (s64 v) (expire t) (nonce t) (to_ t) (groupCount t) (header t) (next t) (chainID t)))
      | 5%N, 0%N, WVar v => Some (upd d (mk_tx (execer t) (payload t) (signature t) (fee t) (s64 v) (nonce t) (to_ t) (groupCount t) (header t) (next t) (chainID t)))
      | 6%N, 0%N, WVar v => Some (upd d (mk_tx (execer t) (payload t) (signature t) (fee t) (expire t) (s64 v) (to_ t) (groupCount t) (header t) (next t) (chainID t)))
      | 7%N, 2%N, WBytes b =>
          if utf8_valid b
          then Some (upd d (mk_tx (execer t) (payload t) (signature t) (fee t) (expire t) (nonce t) b (groupCount t) (header t) (next t) (chainID t)))
          else None
      | 8%N, 0%N, WVar v => Some (upd d (mk_tx (execer t) (payload t) (signature t) (fee t) (expire t) (nonce t) (to_ t) (s32 v) (header t) (next t) (chainID t)))
      | 9%N, 2%N, WBytes b => Some (upd d (set_header b t))
      | 10%N, 2%N, WBytes b => Some (upd d (mk_tx (execer t) (payload t) (signature t) (fee t) (expire t) (nonce t) (to_ t) (groupCount t) (header t) b (chainID t)))
      | 11%N, 0%N, WVar v => Some (upd d (mk_tx (execer t) (payload t) (signature t) (fee t) (expire t) (nonce t) (to_ t) (groupCount t) (header t) (next t) (s32 v)))
      | _, _, _ => Some (mk_dtx t (d_sunk d) (d_unk d ++ unk_field f))
      end
  end.

Definition tx0 : tx := mk_tx [] [] None 0 0 0 [] 0 [] [] 0.

Definition wire_decode (w : list N) : option dtx :=
  match parse_fields w with
  | None => None
  | Some fs => fold_left step_tx fs (Some (plain tx0))
  end.

(** * The hand-written copies *)
Definition clone_tx_d (d : dtx) : dtx := mk_dtx (clone_tx (d_tx d)) (d_sunk d) [].
Definition clone_d (d : dtx) : dtx := mk_dtx (clone (d_tx d)) [] [].
Definition set_sig_d (s : option sigt) (d : dtx) : dtx :=
  mk_dtx (set_sig s (d_tx d)) [] (d_unk d).     (* a new / absent Signature message has no unknown fields *)
Definition set_header_d (h : list N) (d : dtx) : dtx := upd d (set_header h (d_tx d)).

Definition hash_pre_d (d : dtx) : list N := encode_d (set_header_d [] (set_sig_d None (clone_tx_d d))).
Definition full_pre_d (d : dtx) : list N := encode_d (clone_d d).
Definition tx_hash_d {HT : Type} (H : list N -> HT) (d : dtx) : HT := H (hash_pre_d d).
Definition full_hash_d {HT : Type} (H : list N -> HT) (d : dtx) : HT := H (full_pre_d d).

(** bytes checkSign hands to the driver / bytes Sign hands to the private key *)
Definition signed_bytes_d (d : dtx) : list N := encode_d (set_sig_d None (clone_tx_d d)).
Definition sign_msg_d (d : dtx) : list N := encode_d (set_sig_d None d).
Definition sign_d (ty : Z) (pub sg : list N) (d : dtx) : dtx := set_sig_d (Some (mk_sig ty pub sg)) d.

Definition check_sign_d (ds : list drv) (verify : Z -> list N -> list N -> list N -> bool)
    (d : dtx) (h : Z) : bool :=
  match signature (d_tx d) with
  | None => false
  | Some s =>
      match load ds (crypto_id (s_ty s)) h with
      | None => false
      | Some dr => verify (d_id dr) (signed_bytes_d d) (s_pub s) (s_sig s)
      end
  end.

(** Transaction.CheckSign of a decoded message: the sender gate looks at the
    declared ty and pubkey only *)
Definition check_sign_tx_d (adrv : Z -> list N -> aout) (ds : list drv)
    (verify : Z -> list N -> list N -> list N -> bool) (d : dtx) (h : Z) : bool :=
  match signature (d_tx d) with
  | None => false
  | Some _ =>
      match from_addr adrv (d_tx d) with
      | None => false
      | Some _ => check_sign_d ds verify d h
      end
  end.

Definition has_unknown (d : dtx) : bool :=
  match d_unk d, d_sunk d with [], [] => false | _, _ => true end.
Definition has_tx_unknown (d : dtx) : bool := match d_unk d with [] => false | _ => true end.
