(** C16 — property theorems only. *)
From Coq Require Import List NArith ZArith Bool.
From C33 Require Import C16.Proto C16.Model C16.Spec C16.Proofs C16.ProofsFrom.
From C33 Require Import C16.ProtoUnknown C16.ModelUnknown C16.ModelEth C16.SpecExt
                        C16.ProofsUnknown C16.ProofsUnknown2 C16.ProofsExt
                        C16.ProofsWire C16.ProofsWire2 C16.ProofsWire3 C16.ProofsWire4.

(** The wire encoding determines the transaction (decoder round trip). *)
Theorem C16_decode_encode : forall t, wf_txb t = true -> decode_tx (encode_tx t) = Some t.
Proof. exact decode_tx_encode. Qed.
Print Assumptions C16_decode_encode.

Theorem C16_encode_injective : forall t1 t2,
  wf_txb t1 = true -> wf_txb t2 = true -> encode_tx t1 = encode_tx t2 -> t1 = t2.
Proof. exact encode_tx_injective. Qed.
Print Assumptions C16_encode_injective.

Theorem C16_hash_ignores_sig_and_header :
  forall (HT : Type) (H : list N -> HT) t sg hd,
    tx_hash H (set_header hd (set_sig sg t)) = tx_hash H t.
Proof. exact hash_ignores_sig_and_header. Qed.
Print Assumptions C16_hash_ignores_sig_and_header.

Theorem C16_hash_binds :
  forall (HT : Type) (H : list N -> HT),
    (forall a b, H a = H b -> a = b) ->
    forall t1 t2, wf_txb t1 = true -> wf_txb t2 = true ->
    tx_hash H t1 = tx_hash H t2 ->
    execer t1 = execer t2 /\ payload t1 = payload t2 /\ fee t1 = fee t2 /\
    expire t1 = expire t2 /\ nonce t1 = nonce t2 /\ to_ t1 = to_ t2 /\
    groupCount t1 = groupCount t2 /\ next t1 = next t2 /\ chainID t1 = chainID t2.
Proof. exact hash_binds. Qed.
Print Assumptions C16_hash_binds.

Theorem C16_fullhash_binds :
  forall (HT : Type) (H : list N -> HT),
    (forall a b, H a = H b -> a = b) ->
    forall t1 t2, wf_txb t1 = true -> wf_txb t2 = true ->
    full_hash H t1 = full_hash H t2 -> t1 = t2.
Proof. exact fullhash_binds. Qed.
Print Assumptions C16_fullhash_binds.

Theorem C16_clone_preserves_hash_fullhash :
  forall (HT : Type) (H : list N -> HT) t,
    tx_hash H (clone t) = tx_hash H t /\ full_hash H (clone t) = full_hash H t /\
    tx_hash H (clone_tx t) = tx_hash H t /\ full_hash H (clone_tx t) = full_hash H t.
Proof. exact clone_preserves. Qed.
Print Assumptions C16_clone_preserves_hash_fullhash.

Theorem C16_sign_then_verify :
  forall ds verify mall issued t ty pub sg h d,
    ideal_scheme verify mall issued ->
    load ds (crypto_id ty) h = Some d ->
    issued (d_id d) pub (sign_msg t) sg ->
    check_sign ds verify (sign_tx ty pub sg t) h = true.
Proof. exact sign_then_verify. Qed.
Print Assumptions C16_sign_then_verify.

Theorem C16_altered_fails_partial :
  forall ds verify mall issued t ty pub sg t' s' h,
    ideal_scheme verify mall issued ->
    only_issued issued (crypto_id ty) pub (sign_msg t) sg ->
    wf_txb t = true -> wf_txb t' = true ->
    signature t' = Some s' -> crypto_id (s_ty s') = crypto_id ty ->
    (set_sig None t' <> set_sig None t \/ s_pub s' <> pub \/
     mall (crypto_id ty) sg (s_sig s') = false) ->
    check_sign ds verify t' h = false.
Proof. exact altered_fails_partial. Qed.
Print Assumptions C16_altered_fails_partial.

Theorem C16_altered_fails_refuted : ~ C16_altered_fails_full.
Proof. exact altered_fails_refuted. Qed.
Print Assumptions C16_altered_fails_refuted.

Theorem C16_disabled_fails :
  forall ds verify t s h,
    (0 <= h)%Z -> signature t = Some s ->
    enabled ds (crypto_id (s_ty s)) h = false ->
    check_sign ds verify t h = false.
Proof. exact disabled_fails. Qed.
Print Assumptions C16_disabled_fails.

Theorem C16_unsigned_fails :
  forall ds verify t h, signature t = None -> check_sign ds verify t h = false.
Proof. exact unsigned_fails. Qed.
Print Assumptions C16_unsigned_fails.

(** * Extension: unknown protobuf fields of a decoded message *)
Theorem C16_hash_ignores_unknown_fields :
  forall (HT : Type) (H : list N -> HT) d,
    tx_hash_d H d = tx_hash H (d_tx d) /\ full_hash_d H d = full_hash H (d_tx d).
Proof. exact hash_ignores_unknown. Qed.
Print Assumptions C16_hash_ignores_unknown_fields.

Theorem C16_checksign_ignores_unknown_fields :
  forall ds verify d h, check_sign_d ds verify d h = check_sign ds verify (d_tx d) h.
Proof. exact checksign_ignores_unknown. Qed.
Print Assumptions C16_checksign_ignores_unknown_fields.

Theorem C16_clone_drops_unknown_fields :
  forall (HT : Type) (H : list N -> HT) d,
    encode_d (clone_d d) = encode_tx (d_tx d) /\
    d_unk (clone_tx_d d) = nil /\ d_sunk (clone_tx_d d) = d_sunk d /\
    tx_hash_d H (clone_d d) = tx_hash_d H d /\ full_hash_d H (clone_d d) = full_hash_d H d /\
    tx_hash_d H (clone_tx_d d) = tx_hash_d H d /\ full_hash_d H (clone_tx_d d) = full_hash_d H d.
Proof. exact clone_drops_unknown. Qed.
Print Assumptions C16_clone_drops_unknown_fields.

Theorem C16_clone_same_encoding_iff :
  forall d, encode_d (clone_d d) = encode_d d <->
            (d_unk d = nil /\ (signature (d_tx d) = None \/ d_sunk d = nil)).
Proof. exact clone_same_encoding_iff. Qed.
Print Assumptions C16_clone_same_encoding_iff.

Theorem C16_hash_binds_message_refuted : ~ C16_hash_binds_message_full.
Proof. exact hash_binds_message_refuted. Qed.
Print Assumptions C16_hash_binds_message_refuted.

Theorem C16_hash_binds_message_partial :
  forall (HT : Type) (H : list N -> HT), (forall a b, H a = H b -> a = b) ->
  forall d1 d2, wf_txb (d_tx d1) = true -> wf_txb (d_tx d2) = true ->
    (full_hash_d H d1 = full_hash_d H d2 -> d_tx d1 = d_tx d2) /\
    (full_hash_d H d1 = full_hash_d H d2 -> has_unknown d1 = false -> has_unknown d2 = false -> d1 = d2) /\
    (tx_hash_d H d1 = tx_hash_d H d2 ->
       execer (d_tx d1) = execer (d_tx d2) /\ payload (d_tx d1) = payload (d_tx d2) /\
       fee (d_tx d1) = fee (d_tx d2) /\ expire (d_tx d1) = expire (d_tx d2) /\
       nonce (d_tx d1) = nonce (d_tx d2) /\ to_ (d_tx d1) = to_ (d_tx d2) /\
       groupCount (d_tx d1) = groupCount (d_tx d2) /\ next (d_tx d1) = next (d_tx d2) /\
       chainID (d_tx d1) = chainID (d_tx d2)).
Proof. exact hash_binds_message_partial. Qed.
Print Assumptions C16_hash_binds_message_partial.

Theorem C16_sign_then_verify_message_refuted : ~ C16_sign_then_verify_message_full.
Proof. exact sign_then_verify_message_refuted. Qed.
Print Assumptions C16_sign_then_verify_message_refuted.

Theorem C16_sign_then_verify_message_partial :
  forall ds verify mall issued m ty pub sg h d,
    has_tx_unknown m = false ->
    ideal_scheme verify mall issued ->
    load ds (crypto_id ty) h = Some d ->
    issued (d_id d) pub (sign_msg_d m) sg ->
    check_sign_d ds verify (sign_d ty pub sg m) h = true.
Proof. exact sign_then_verify_message_partial. Qed.
Print Assumptions C16_sign_then_verify_message_partial.

Theorem C16_sign_then_verify_message_exact :
  forall ds verify mall issued m ty pub sg h,
    ideal_scheme verify mall issued ->
    only_issued issued (crypto_id ty) pub (sign_msg_d m) sg ->
    check_sign_d ds verify (sign_d ty pub sg m) h = true ->
    d_unk m = nil.
Proof. exact sign_then_verify_message_exact. Qed.
Print Assumptions C16_sign_then_verify_message_exact.

(** * Extension: Signature.ty and the sender *)
Theorem C16_ty_only_selects_driver :
  forall ds verify t s ty' h,
    signature t = Some s -> crypto_id ty' = crypto_id (s_ty s) ->
    check_sign ds verify (set_ty ty' t) h = check_sign ds verify t h /\
    hash_pre (set_ty ty' t) = hash_pre t /\ signed_bytes (set_ty ty' t) = signed_bytes t.
Proof. exact ty_only_selects_driver. Qed.
Print Assumptions C16_ty_only_selects_driver.

Theorem C16_sender_bound_refuted : ~ C16_sender_bound_full.
Proof. exact sender_bound_refuted. Qed.
Print Assumptions C16_sender_bound_refuted.

Theorem C16_sender_bound_partial :
  forall adrv ds verify mall issued t ty pub sg t' s' h,
    Z.eqb (addr_id (s_ty s')) (addr_id ty) = true ->
    ideal_scheme verify mall issued ->
    only_issued issued (crypto_id ty) pub (sign_msg t) sg ->
    wf_txb t = true -> wf_txb t' = true ->
    signature t' = Some s' -> crypto_id (s_ty s') = crypto_id ty ->
    check_sign_tx adrv ds verify t' h = true ->
    sender_of t' = sender_of (sign_tx ty pub sg t) /\
    tx_from adrv t' = tx_from adrv (sign_tx ty pub sg t).
Proof. exact sender_bound_partial. Qed.
Print Assumptions C16_sender_bound_partial.

(** * Transaction.From() and the sender gate of Transaction.CheckSign
      (finding 11 repaired: From() panicked for address ids without a usable
      driver, CheckSign accepted such types) *)
(** From() returns a string for every ty, every key, with or without a
    signature, whatever the address drivers do ([None] = panic). *)
Theorem C16_from_total : forall adrv t, exists a, tx_from adrv t = Some a.
Proof. exact from_total. Qed.
Print Assumptions C16_from_total.

(** Transaction.CheckSign = a sender address is derivable, and what CheckSign
    was before ([check_sign]: signature present, types.CheckSign). *)
Theorem C16_checksign_is_gate_and_driver :
  forall adrv ds verify t h,
    check_sign_tx adrv ds verify t h = usable adrv (sig_ty t) (sig_pub t) && check_sign ds verify t h.
Proof. exact check_sign_tx_split. Qed.
Print Assumptions C16_checksign_is_gate_and_driver.

(** An address id (or key) for which no driver derives an address is refused,
    whatever the signature driver answers. *)
Theorem C16_unusable_addr_id_rejected :
  forall adrv ds verify t s h,
    signature t = Some s ->
    (forall a, adrv (addr_id (s_ty s)) (s_pub s) <> AAddr a) ->
    check_sign_tx adrv ds verify t h = false.
Proof. exact unusable_rejected. Qed.
Print Assumptions C16_unusable_addr_id_rejected.

Theorem C16_accepted_has_sender :
  forall adrv ds verify t h,
    check_sign_tx adrv ds verify t h = true ->
    exists s a, signature t = Some s /\ adrv (addr_id (s_ty s)) (s_pub s) = AAddr a /\
                tx_from adrv t = Some a /\ check_sign ds verify t h = true.
Proof. exact accepted_has_sender. Qed.
Print Assumptions C16_accepted_has_sender.

(** The clauses of the property for the whole of Transaction.CheckSign. *)
Theorem C16_sign_then_verify_tx :
  forall adrv ds verify mall issued t ty pub sg h d,
    ideal_scheme verify mall issued ->
    load ds (crypto_id ty) h = Some d ->
    issued (d_id d) pub (sign_msg t) sg ->
    usable adrv ty pub = true ->
    check_sign_tx adrv ds verify (sign_tx ty pub sg t) h = true.
Proof. exact sign_then_verify_tx. Qed.
Print Assumptions C16_sign_then_verify_tx.

Theorem C16_altered_fails_tx_partial :
  forall adrv ds verify mall issued t ty pub sg t' s' h,
    ideal_scheme verify mall issued ->
    only_issued issued (crypto_id ty) pub (sign_msg t) sg ->
    wf_txb t = true -> wf_txb t' = true ->
    signature t' = Some s' -> crypto_id (s_ty s') = crypto_id ty ->
    (set_sig None t' <> set_sig None t \/ s_pub s' <> pub \/
     mall (crypto_id ty) sg (s_sig s') = false) ->
    check_sign_tx adrv ds verify t' h = false.
Proof. exact altered_fails_tx_partial. Qed.
Print Assumptions C16_altered_fails_tx_partial.

Theorem C16_disabled_or_unsigned_fails_tx :
  forall adrv ds verify t h,
    (signature t = None \/
     exists s, (0 <= h)%Z /\ signature t = Some s /\ enabled ds (crypto_id (s_ty s)) h = false) ->
    check_sign_tx adrv ds verify t h = false.
Proof. exact disabled_or_unsigned_fails_tx. Qed.
Print Assumptions C16_disabled_or_unsigned_fails_tx.

(** ty acts through the driver id and through whether its address format has a
    driver; unknown fields reach neither. *)
Theorem C16_ty_selects_driver_and_sender :
  forall adrv ds verify t s ty' h,
    signature t = Some s -> crypto_id ty' = crypto_id (s_ty s) ->
    usable adrv ty' (s_pub s) = usable adrv (s_ty s) (s_pub s) ->
    check_sign_tx adrv ds verify (set_ty ty' t) h = check_sign_tx adrv ds verify t h.
Proof. exact ty_selects_driver_and_sender. Qed.
Print Assumptions C16_ty_selects_driver_and_sender.

Theorem C16_checksign_tx_ignores_unknown_fields :
  forall adrv ds verify d h, check_sign_tx_d adrv ds verify d h = check_sign_tx adrv ds verify (d_tx d) h.
Proof. exact checksign_tx_ignores_unknown. Qed.
Print Assumptions C16_checksign_tx_ignores_unknown_fields.

(** * Extension: the secp256k1eth driver in note mode *)
Theorem C16_eth_same_action_same_verdict :
  forall cfg xaddr parse inner other ds t t' s h,
    signature t = Some s -> crypto_id (s_ty s) = eth_id ->
    decodes_plainb t = true -> decodes_plainb t' = true ->
    execer t' = execer t -> payload t' = payload t -> nonce t' = nonce t ->
    signature t' = signature t ->
    note_mode (action_of (xaddr (execer t)) (execer t) (payload t) (nonce t)) = true ->
    check_sign ds (ethv cfg xaddr parse inner other) t' h = check_sign ds (ethv cfg xaddr parse inner other) t h.
Proof. exact eth_same_action_same_verdict. Qed.
Print Assumptions C16_eth_same_action_same_verdict.

Theorem C16_eth_unbound_outer_fields :
  forall cfg xaddr parse inner other ds t s h fee' expire' to' gc' hd' nx' cid',
    signature t = Some s -> crypto_id (s_ty s) = eth_id ->
    decodes_plainb t = true ->
    decodes_plainb (with_outer t fee' expire' to' gc' hd' nx' cid') = true ->
    note_mode (action_of (xaddr (execer t)) (execer t) (payload t) (nonce t)) = true ->
    check_sign ds (ethv cfg xaddr parse inner other) (with_outer t fee' expire' to' gc' hd' nx' cid') h =
    check_sign ds (ethv cfg xaddr parse inner other) t h.
Proof. exact eth_unbound_outer_fields. Qed.
Print Assumptions C16_eth_unbound_outer_fields.

Theorem C16_eth_accepted_binds :
  forall cfg xaddr parse inner other ds t' s' h,
    signature t' = Some s' -> crypto_id (s_ty s') = eth_id ->
    decodes_plainb t' = true ->
    check_sign ds (ethv cfg xaddr parse inner other) t' h = true ->
    forall a, action_of (xaddr (execer t')) (execer t') (payload t') (nonce t') = Some a ->
    a_note a <> nil ->
    exists e, parse (a_note a) = Some e /\
              inner (HEth (e_sighash e)) (s_pub s') (s_sig s') = true /\
              e_chain e = c_chain cfg /\ nonce t' = e_nonce e /\
              eth_amount cfg (e_value e) = a_amount a /\ e_data e = a_code a /\
              (forall to, e_to e = Some to -> eth_from_hex (a_to a) = to).
Proof. exact eth_accepted_binds. Qed.
Print Assumptions C16_eth_accepted_binds.

Theorem C16_eth_altered_fails_refuted : ~ C16_eth_altered_fails_full.
Proof. exact eth_altered_fails_refuted. Qed.
Print Assumptions C16_eth_altered_fails_refuted.

(** * Extension: the general decoder (types.Decode) against the encoder *)
Theorem C16_wire_decode_encode :
  forall t, wire_okb t = true -> wire_decode (encode_tx t) = Some (plain t).
Proof. exact wire_decode_encode_plain. Qed.
Print Assumptions C16_wire_decode_encode.

Theorem C16_signed_bytes_decode :
  forall t, wire_okb t = true -> wire_decode (signed_bytes t) = Some (plain (set_sig None t)).
Proof. exact signed_bytes_decode. Qed.
Print Assumptions C16_signed_bytes_decode.

Theorem C16_wire_decode_injective_refuted : ~ C16_wire_decode_injective_full.
Proof. exact wire_decode_injective_refuted. Qed.
Print Assumptions C16_wire_decode_injective_refuted.

Theorem C16_wire_decode_injective_partial :
  forall t1 t2, wire_okb t1 = true -> wire_okb t2 = true ->
    wire_decode (encode_tx t1) = wire_decode (encode_tx t2) -> t1 = t2.
Proof. exact wire_decode_injective_partial. Qed.
Print Assumptions C16_wire_decode_injective_partial.

(** the eth theorem with the decoding guard discharged *)
Theorem C16_eth_unbound_outer_fields_ok :
  forall cfg xaddr parse inner other ds t s h fee' expire' to' gc' hd' nx' cid',
    wire_okb t = true -> outer_okb fee' expire' to' gc' hd' nx' cid' = true ->
    signature t = Some s -> crypto_id (s_ty s) = eth_id ->
    note_mode (action_of (xaddr (execer t)) (execer t) (payload t) (nonce t)) = true ->
    check_sign ds (ethv cfg xaddr parse inner other) (with_outer t fee' expire' to' gc' hd' nx' cid') h =
    check_sign ds (ethv cfg xaddr parse inner other) t h.
Proof. exact eth_unbound_outer_fields_ok. Qed.
Print Assumptions C16_eth_unbound_outer_fields_ok.

Theorem C16_wire_decode_encode_unknown :
  forall t ufs,
    wire_okb t = true -> forallb simple_fieldb ufs = true -> forallb tx_unknownb ufs = true ->
    wire_decode (encode_d (mk_dtx t nil (unk_bytes ufs))) = Some (mk_dtx t nil (unk_bytes ufs)).
Proof. exact wire_decode_encode_unknown. Qed.
Print Assumptions C16_wire_decode_encode_unknown.
