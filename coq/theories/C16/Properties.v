(** C16 — property theorems only. *)
From Coq Require Import List NArith ZArith Bool.
From C33 Require Import C16.Proto C16.Model C16.Spec C16.Proofs.

(** The wire encoding determines the transaction (decoder round trip). *)
Theorem C16_decode_encode : forall t, wf_txb t = true -> decode_tx (encode_tx t) = Some t.
Proof. exact decode_tx_encode. Qed.
Print Assumptions C16_decode_encode.

Theorem C16_encode_injective : forall t1 t2,
  wf_txb t1 = true -> wf_txb t2 = true -> encode_tx t1 = encode_tx t2 -> t1 = t2.
Proof. exact encode_tx_injective. Qed.
Print Assumptions C16_encode_injective.

Theorem C16_hash_ignores_sig_and_header :
  forall (HT : Type) (H : list N -> HT) t sg hd,
    tx_hash H (set_header hd (set_sig sg t)) = tx_hash H t.
Proof. exact hash_ignores_sig_and_header. Qed.
Print Assumptions C16_hash_ignores_sig_and_header.

Theorem C16_hash_binds :
  forall (HT : Type) (H : list N -> HT),
    (forall a b, H a = H b -> a = b) ->
    forall t1 t2, wf_txb t1 = true -> wf_txb t2 = true ->
    tx_hash H t1 = tx_hash H t2 ->
    execer t1 = execer t2 /\ payload t1 = payload t2 /\ fee t1 = fee t2 /\
    expire t1 = expire t2 /\ nonce t1 = nonce t2 /\ to_ t1 = to_ t2 /\
    groupCount t1 = groupCount t2 /\ next t1 = next t2 /\ chainID t1 = chainID t2.
Proof. exact hash_binds. Qed.
Print Assumptions C16_hash_binds.

Theorem C16_fullhash_binds :
  forall (HT : Type) (H : list N -> HT),
    (forall a b, H a = H b -> a = b) ->
    forall t1 t2, wf_txb t1 = true -> wf_txb t2 = true ->
    full_hash H t1 = full_hash H t2 -> t1 = t2.
Proof. exact fullhash_binds. Qed.
Print Assumptions C16_fullhash_binds.

Theorem C16_clone_preserves_hash_fullhash :
  forall (HT : Type) (H : list N -> HT) t,
    tx_hash H (clone t) = tx_hash H t /\ full_hash H (clone t) = full_hash H t /\
    tx_hash H (clone_tx t) = tx_hash H t /\ full_hash H (clone_tx t) = full_hash H t.
Proof. exact clone_preserves. Qed.
Print Assumptions C16_clone_preserves_hash_fullhash.

Theorem C16_sign_then_verify :
  forall ds verify mall issued t ty pub sg h d,
    ideal_scheme verify mall issued ->
    load ds (crypto_id ty) h = Some d ->
    issued (d_id d) pub (sign_msg t) sg ->
    check_sign ds verify (sign_tx ty pub sg t) h = true.
Proof. exact sign_then_verify. Qed.
Print Assumptions C16_sign_then_verify.

Theorem C16_altered_fails_partial :
  forall ds verify mall issued t ty pub sg t' s' h,
    ideal_scheme verify mall issued ->
    only_issued issued (crypto_id ty) pub (sign_msg t) sg ->
    wf_txb t = true -> wf_txb t' = true ->
    signature t' = Some s' -> crypto_id (s_ty s') = crypto_id ty ->
    (set_sig None t' <> set_sig None t \/ s_pub s' <> pub \/
     mall (crypto_id ty) sg (s_sig s') = false) ->
    check_sign ds verify t' h = false.
Proof. exact altered_fails_partial. Qed.
Print Assumptions C16_altered_fails_partial.

Theorem C16_altered_fails_refuted : ~ C16_altered_fails_full.
Proof. exact altered_fails_refuted. Qed.
Print Assumptions C16_altered_fails_refuted.

Theorem C16_disabled_fails :
  forall ds verify t s h,
    (0 <= h)%Z -> signature t = Some s ->
    enabled ds (crypto_id (s_ty s)) h = false ->
    check_sign ds verify t h = false.
Proof. exact disabled_fails. Qed.
Print Assumptions C16_disabled_fails.

Theorem C16_unsigned_fails :
  forall ds verify t h, signature t = None -> check_sign ds verify t h = false.
Proof. exact unsigned_fails. Qed.
Print Assumptions C16_unsigned_fails.
