(** C16 extension — the eth theorems without the decoding guard, and the
    decoder round trip for messages that carry unknown fields. *)
From Coq Require Import List NArith ZArith Lia Bool.
From C33 Require Import Lib.Harness C16.Proto C16.Model C16.Spec C16.Proofs
                        C16.ProtoUnknown C16.ModelUnknown C16.ModelEth C16.SpecExt
                        C16.ProofsWire C16.ProofsWire2 C16.ProofsExt.
Import ListNotations.
Open Scope list_scope.

Lemma wire_ok_decodes_plain t : wire_okb t = true -> decodes_plainb t = true.
Proof.
  intro W. unfold decodes_plainb. rewrite (signed_bytes_decode t W). cbn [d_tx plain].
  apply tx_eqb_refl.
Qed.

(** outer fields that Go can hold *)
Definition outer_okb (fee' expire' : Z) (to' : list N) (gc' : Z) (hd' nx' : list N) (cid' : Z) : bool :=
  int64b fee' && int64b expire' && utf8_valid to' && len_okb to' && int32b gc' &&
  len_okb hd' && len_okb nx' && int32b cid'.

Lemma with_outer_ok t fee' expire' to' gc' hd' nx' cid' :
  wire_okb t = true -> outer_okb fee' expire' to' gc' hd' nx' cid' = true ->
  wire_okb (with_outer t fee' expire' to' gc' hd' nx' cid') = true.
Proof.
  unfold wire_okb, outer_okb, wf_txb, wf_ints, tx_len_okb, with_outer.
  cbn [execer payload signature fee expire nonce to_ groupCount header next chainID].
  rewrite !andb_true_iff.
  intros [[[Ws [[[[_ _] Wn] _] _]] _] [[[[[L1 L2] L3] _] _] _]]
         [[[[[[[O1 O2] O3] O4] O5] O6] O7] O8].
  repeat split; assumption.
Qed.

Theorem eth_unbound_outer_fields_ok :
  forall cfg xaddr parse inner other ds t s h fee' expire' to' gc' hd' nx' cid',
    wire_okb t = true -> outer_okb fee' expire' to' gc' hd' nx' cid' = true ->
    signature t = Some s -> crypto_id (s_ty s) = eth_id ->
    note_mode (action_of (xaddr (execer t)) (execer t) (payload t) (nonce t)) = true ->
    check_sign ds (ethv cfg xaddr parse inner other) (with_outer t fee' expire' to' gc' hd' nx' cid') h =
    check_sign ds (ethv cfg xaddr parse inner other) t h.
Proof.
  intros cfg xaddr parse inner other ds t s h fee' expire' to' gc' hd' nx' cid' W O Sg Id NM.
  apply (eth_unbound_outer_fields cfg xaddr parse inner other ds t s); try assumption.
  - apply wire_ok_decodes_plain, W.
  - apply wire_ok_decodes_plain, with_outer_ok; assumption.
Qed.

Example ex_outer_ok :
  wire_okb (ethtoy_tx 100) = true /\ outer_okb 999999 0 [49]%N 0 [] [] 0 = true.
Proof. split; vm_compute; reflexivity. Qed.

(** * The decoder is not injective: repeated declared fields (last value wins),
      explicit defaults, any field order *)
Definition C16_wire_decode_injective_full : Prop :=
  forall w1 w2 d, wire_decode w1 = Some d -> wire_decode w2 = Some d -> w1 = w2.

Lemma wire_decode_injective_refuted : ~ C16_wire_decode_injective_full.
Proof.
  intro F.
  specialize (F (encode_tx toy_tx) ([32; 7]%N ++ encode_tx toy_tx) (plain toy_tx)).
  assert (A : wire_decode (encode_tx toy_tx) = Some (plain toy_tx)) by (vm_compute; reflexivity).
  assert (B : wire_decode ([32; 7]%N ++ encode_tx toy_tx) = Some (plain toy_tx)) by (vm_compute; reflexivity).
  specialize (F A B). vm_compute in F. discriminate F.
Qed.

(** on canonical encodings it is (guard: what Go can hold) *)
Lemma wire_decode_injective_partial :
  forall t1 t2, wire_okb t1 = true -> wire_okb t2 = true ->
    wire_decode (encode_tx t1) = wire_decode (encode_tx t2) -> t1 = t2.
Proof.
  intros t1 t2 W1 W2 E. rewrite (wire_decode_encode_plain t1 W1), (wire_decode_encode_plain t2 W2) in E.
  injection E as E. exact E.
Qed.
