(** C16 — the property text as an executable oracle over the implementation's
    observables, and the narrow signatures of the recorded findings.

    "A transaction's hash ignores its signature and group header but changes
    when any other field changes, and cloning preserves both its hash and its
    full hash.  A signature produced with the sender's key verifies for every
    signature type enabled at that height, and verification fails if any signed
    field (including the group header), the public key or the signature bytes
    are altered, or at heights where the type is disabled." *)
From Coq Require Import String List NArith ZArith Bool.
From C33 Require Import Lib.Harness C16.Proto C16.Model.
Import ListNotations.
Open Scope list_scope.

Definition sig_eqb (a b : sigt) : bool :=
  Z.eqb (s_ty a) (s_ty b) && bytes_eqb (s_pub a) (s_pub b) && bytes_eqb (s_sig a) (s_sig b).

(** all fields except signature and header *)
Definition core_eqb (a b : tx) : bool :=
  bytes_eqb (execer a) (execer b) && bytes_eqb (payload a) (payload b) &&
  Z.eqb (fee a) (fee b) && Z.eqb (expire a) (expire b) && Z.eqb (nonce a) (nonce b) &&
  bytes_eqb (to_ a) (to_ b) && Z.eqb (groupCount a) (groupCount b) &&
  bytes_eqb (next a) (next b) && Z.eqb (chainID a) (chainID b).

(** the signed fields: everything except the signature *)
Definition unsigned_eqb (a b : tx) : bool :=
  core_eqb a b && bytes_eqb (header a) (header b).

Definition tx_eqb (a b : tx) : bool :=
  unsigned_eqb a b && option_eqb sig_eqb (signature a) (signature b).

(** Hash(t1) = Hash(t2) exactly when ...; FullHash(t1) = FullHash(t2) exactly when ... *)
Definition spec_hash_eq (a b : tx) : bool := core_eqb a b.
Definition spec_full_eq (a b : tx) : bool := tx_eqb a b.

(** the type with this crypto id is enabled at height h (h >= 0) *)
Definition enabled (ds : list drv) (id h : Z) : bool :=
  existsb (fun d => Z.eqb (d_id d) id && d_enable d && (0 <=? d_height d)%Z && (d_height d <=? h)%Z) ds.

(** [t0] was signed honestly by Transaction.Sign; [t'] is what is presented to
    CheckSign(h); [impl] is the outcome: 0 = false, 1 = true, 2 = panic.
    Negative "heights" and a changed [ty] that still names an enabled type are
    outside the property text (no claim between true and false); a panic is
    never acceptable. *)
Definition spec_verify (ds : list drv) (h : Z) (t0 t' : tx) (impl : N) : bool :=
  let ok := N.eqb impl 1 in
  let fails := N.eqb impl 0 in
  negb (N.eqb impl 2) &&
  match signature t0, signature t' with
  | Some s0, Some s' =>
      if tx_eqb t0 t' then
        if (h <? 0)%Z then true else Bool.eqb ok (enabled ds (crypto_id (s_ty s0)) h)
      else if unsigned_eqb t0 t' && bytes_eqb (s_pub s0) (s_pub s') && bytes_eqb (s_sig s0) (s_sig s')
      then (* only ty differs *)
        if (h <? 0)%Z then true
        else if enabled ds (crypto_id (s_ty s')) h then true else fails
      else fails
  | Some _, None => fails
  | None, _ => true
  end.

(** * Signatures of the recorded findings (known_findings/C16.json) *)
Definition n_secp256k1 : N :=
  nx "FFFFFFFFFFFFFFFFFFFFFFFFFFFFFFFEBAAEDCE6AF48A03BBFD25E8CD0364141"%string.
Definition l_ed25519 : N :=
  nx "1000000000000000000000000000000014DEF9DEA2F79CD65812631A5CF5D3ED"%string.

Definition be_val (l : list N) : N := fold_left (fun a b => a * 256 + b)%N l 0%N.
Definition le_val (l : list N) : N := be_val (rev l).

Fixpoint prefixb (p l : list N) : bool :=
  match p, l with
  | [], _ => true
  | x :: p', y :: l' => N.eqb x y && prefixb p' l'
  | _ :: _, [] => false
  end.

Definition lenN (l : list N) : N := N.of_nat (length l).

(** strict two-integer DER sequence with short-form lengths *)
Definition der_rs (s : list N) : option (N * N) :=
  match s with
  | 48 :: len :: 2 :: rl :: tl =>
      let r := firstn (N.to_nat rl) tl in
      match skipn (N.to_nat rl) tl with
      | 2 :: sl :: sv =>
          if N.eqb (lenN sv) sl && N.eqb len (4 + rl + sl) && N.eqb (lenN r) rl
          then Some (be_val r, be_val sv) else None
      | _ => None
      end
  | _ => None
  end%N.

Definition only_sig_differs (t0 t' : tx) (s0 s' : sigt) : bool :=
  unsigned_eqb t0 t' && Z.eqb (s_ty s0) (s_ty s') && bytes_eqb (s_pub s0) (s_pub s') &&
  negb (bytes_eqb (s_sig s0) (s_sig s')).
Definition only_pub_differs (t0 t' : tx) (s0 s' : sigt) : bool :=
  unsigned_eqb t0 t' && Z.eqb (s_ty s0) (s_ty s') && bytes_eqb (s_sig s0) (s_sig s') &&
  negb (bytes_eqb (s_pub s0) (s_pub s')).

Definition id_in (id : Z) (l : list Z) : bool := existsb (Z.eqb id) l.

(** 1: secp256k1, DER (r, s) -> DER (r, n - s) *)
Definition kf_high_s (id : Z) (a b : list N) : bool :=
  Z.eqb id 1 &&
  match der_rs a, der_rs b with
  | Some (r, s), Some (r', s') => N.eqb r r' && N.eqb (s + s') n_secp256k1
  | _, _ => false
  end.
(** 2: bytes appended after a complete signature (secp256k1, ed25519, secp256r1, sm2) *)
Definition kf_trailing (id : Z) (a b : list N) : bool :=
  id_in id [1; 2; 257; 258]%Z && prefixb a b && (length a <? length b)%nat.
(** 3: ed25519, S -> S + L *)
Definition kf_ed_s_plus_l (id : Z) (a b : list N) : bool :=
  Z.eqb id 2 && (length a =? 64)%nat && (length b =? 64)%nat &&
  bytes_eqb (firstn 32 a) (firstn 32 b) &&
  N.eqb (le_val (skipn 32 b)) (le_val (skipn 32 a) + l_ed25519).
(** 4: secp256r1 / sm2, 33-byte public key extended to 65 bytes (tail ignored) *)
Definition kf_pub_tail (id : Z) (a b : list N) : bool :=
  id_in id [257; 258]%Z && (length a =? 33)%nat && (length b =? 65)%nat && prefixb a b.
(** 5: secp256r1 / sm2, signature wrapped as CertSignature{signature = sig [, cert]} *)
Definition kf_cert_wrap (id : Z) (a b : list N) : bool :=
  id_in id [257; 258]%Z && (length a <? 128)%nat &&
  prefixb (10%N :: lenN a :: a) b &&
  match skipn (2 + length a) b with
  | [] => Z.eqb id 258
  | k :: _ => N.eqb k 18
  end.
(** 6: secp256k1eth, 65-byte uncompressed public key replaced by the 33-byte
    compressed form of the same point *)
Definition kf_eth_pub_compressed (id : Z) (a b : list N) : bool :=
  Z.eqb id 260 && (length a =? 65)%nat && (length b =? 33)%nat &&
  bytes_eqb (firstn 32 (skipn 1 a)) (skipn 1 b) &&
  N.eqb (hd 0%N a) 4 && N.eqb (hd 0%N b) (2 + (nth 64 a 0%N) mod 2).

(** 7: sm2, CheckSign panics (nil dereference in gmsm sm2.Decompress) when the
    presented compressed public key has an x coordinate with no point on the
    curve: x^3 + a x + b is a quadratic non-residue mod p *)
Definition p_sm2 : N := nx "FFFFFFFEFFFFFFFFFFFFFFFFFFFFFFFFFFFFFFFF00000000FFFFFFFFFFFFFFFF"%string.
Definition b_sm2 : N := nx "28E9FA9E9D9F5E344D5A9E4BCF6509A7F39789F515AB8F92DDBCBD414D940E93"%string.
Fixpoint powmod_pos (b : N) (e : positive) (m : N) : N :=
  match e with
  | xH => b mod m
  | xO e' => let r := powmod_pos b e' m in (r * r) mod m
  | xI e' => let r := powmod_pos b e' m in (((r * r) mod m) * b) mod m
  end%N.
Definition powmod (b e m : N) : N :=
  match e with N0 => 1 mod m | Npos q => powmod_pos b q m end%N.
Definition sm2_x_off_curve (pub : list N) : bool :=
  let x := (be_val (firstn 32 (skipn 1 pub)) mod p_sm2)%N in
  let y2 := ((x * x * x + (p_sm2 - 3) * x + b_sm2) mod p_sm2)%N in
  N.eqb (powmod y2 ((p_sm2 - 1) / 2) p_sm2) (p_sm2 - 1).
Definition kf_sm2_panic (id : Z) (pub : list N) (impl : N) : bool :=
  Z.eqb id 258 && N.eqb impl 2 &&
  ((length pub =? 33)%nat || (length pub =? 65)%nat) && negb (N.eqb (hd 0%N pub) 4) &&
  sm2_x_off_curve pub.

Definition kf_classify (t0 t' : tx) (impl : N) : N :=
  match signature t0, signature t' with
  | Some s0, Some s' =>
      let id := crypto_id (s_ty s0) in
      if N.eqb impl 2 then
        if kf_sm2_panic (crypto_id (s_ty s')) (s_pub s') impl then 7 else 0
      else if only_sig_differs t0 t' s0 s' then
        let a := s_sig s0 in let b := s_sig s' in
        if kf_high_s id a b then 1
        else if kf_trailing id a b then 2
        else if kf_ed_s_plus_l id a b then 3
        else if kf_cert_wrap id a b then 5
        else 0
      else if only_pub_differs t0 t' s0 s' then
        let a := s_pub s0 in let b := s_pub s' in
        if kf_pub_tail id a b then 4
        else if kf_eth_pub_compressed id a b then 6
        else 0
      else 0
  | _, _ => 0
  end%N.

(** * Statement vocabulary for the signature theorems

    The drivers are not verified.  They are replaced by an ideal signature
    functionality: [issued id pub msg sig] is the set of signatures the
    functionality handed out for driver [id]; [verify] accepts exactly those,
    up to the scheme's own malleability relation [mall] (equivalent encodings
    of one signature). *)
Definition ideal_scheme
    (verify : Z -> list N -> list N -> list N -> bool)
    (mall : Z -> list N -> list N -> bool)
    (issued : Z -> list N -> list N -> list N -> Prop) : Prop :=
  (forall id s, mall id s s = true) /\
  (forall id m p s, verify id m p s = true <->
                    exists s0, issued id p m s0 /\ mall id s0 s = true).

(** the functionality issued exactly one signature for driver [id] *)
Definition only_issued (issued : Z -> list N -> list N -> list N -> Prop)
    (id : Z) (pub msg sg : list N) : Prop :=
  forall p m s, issued id p m s <-> (p = pub /\ m = msg /\ s = sg).

(** the property text at full strength: *any* change of the signature bytes
    makes verification fail *)
Definition C16_altered_fails_full : Prop :=
  forall ds verify mall issued t ty pub sg t' s' h,
    ideal_scheme verify mall issued ->
    only_issued issued (crypto_id ty) pub (sign_msg t) sg ->
    wf_txb t = true -> wf_txb t' = true ->
    signature t' = Some s' -> crypto_id (s_ty s') = crypto_id ty ->
    (set_sig None t' <> set_sig None t \/ s_pub s' <> pub \/ s_sig s' <> sg) ->
    check_sign ds verify t' h = false.
