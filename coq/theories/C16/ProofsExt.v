(** C16 extension — Signature.ty / sender, and the secp256k1eth note mode. *)
From Coq Require Import String List NArith ZArith Lia Bool.
From C33 Require Import Lib.Harness C16.Proto C16.Model C16.Spec C16.Proofs C16.ProofsFrom
                        C16.ProtoUnknown C16.ModelUnknown C16.ModelEth C16.SpecExt C16.ProofsUnknown.
Import ListNotations.
Open Scope list_scope.

(** * Signature.ty *)
Definition set_ty (ty' : Z) (t : tx) : tx :=
  set_sig (option_map (fun s => mk_sig ty' (s_pub s) (s_sig s)) (signature t)) t.

(** what From() is computed from *)
Definition sender_of (t : tx) : option (Z * list N) :=
  option_map (fun s => (addr_id (s_ty s), s_pub s)) (signature t).

(** ty enters Hash, the signed bytes and CheckSign only through the driver id *)
Lemma ty_only_selects_driver :
  forall ds verify t s ty' h,
    signature t = Some s -> crypto_id ty' = crypto_id (s_ty s) ->
    check_sign ds verify (set_ty ty' t) h = check_sign ds verify t h /\
    hash_pre (set_ty ty' t) = hash_pre t /\ signed_bytes (set_ty ty' t) = signed_bytes t.
Proof.
  intros ds verify t s ty' h Sg E.
  destruct t as [e p sg0 f x n o g hd nx c]. cbn [signature] in Sg. subst sg0.
  unfold set_ty, check_sign. cbn [signature option_map set_sig s_ty s_pub s_sig
    execer payload fee expire nonce to_ groupCount header next chainID].
  rewrite E. repeat split; reflexivity.
Qed.

(** the whole of Transaction.CheckSign: ty also decides whether a sender
    address can be derived (address id bits 12-14); among types with the same
    driver id and the same answer to that, the verdict is the same *)
Lemma set_ty_sig ty' t s :
  signature t = Some s -> sig_ty (set_ty ty' t) = ty' /\ sig_pub (set_ty ty' t) = s_pub s.
Proof. intro Sg. unfold sig_ty, sig_pub, set_ty. cbn [signature set_sig]. rewrite Sg. split; reflexivity. Qed.

Lemma ty_selects_driver_and_sender :
  forall adrv ds verify t s ty' h,
    signature t = Some s -> crypto_id ty' = crypto_id (s_ty s) ->
    usable adrv ty' (s_pub s) = usable adrv (s_ty s) (s_pub s) ->
    check_sign_tx adrv ds verify (set_ty ty' t) h = check_sign_tx adrv ds verify t h.
Proof.
  intros adrv ds verify t s ty' h Sg E U.
  rewrite !check_sign_tx_split.
  destruct (set_ty_sig ty' t s Sg) as [-> ->].
  destruct (ty_only_selects_driver ds verify t s ty' h Sg E) as (-> & _).
  unfold sig_ty, sig_pub. rewrite Sg, U. reflexivity.
Qed.

(** unknown fields do not reach the gate either *)
Lemma checksign_tx_ignores_unknown :
  forall adrv ds verify d h, check_sign_tx_d adrv ds verify d h = check_sign_tx adrv ds verify (d_tx d) h.
Proof.
  intros adrv ds verify d h. unfold check_sign_tx_d, check_sign_tx.
  rewrite checksign_ignores_unknown. reflexivity.
Qed.

(** full strength: whoever is accepted with the honest signature is the
    sender the signer meant (same address format of the same key) *)
Definition C16_sender_bound_full : Prop :=
  forall adrv ds verify mall issued t ty pub sg t' s' h,
    ideal_scheme verify mall issued ->
    only_issued issued (crypto_id ty) pub (sign_msg t) sg ->
    wf_txb t = true -> wf_txb t' = true ->
    signature t' = Some s' -> crypto_id (s_ty s') = crypto_id ty ->
    check_sign_tx adrv ds verify t' h = true ->
    sender_of t' = sender_of (sign_tx ty pub sg t) /\
    tx_from adrv t' = tx_from adrv (sign_tx ty pub sg t).

(** still refuted after the repair of finding 11 (finding 10: the address id
    bits are not signed): between two address formats that both have a driver
    anyone can move the transaction to the other account of the key *)
Lemma sender_bound_refuted : ~ C16_sender_bound_full.
Proof.
  intro F.
  specialize (F toy_adrv toy_ds toy_verify toy_mall toy_issued1 toy_tx 1%Z toy_pub toy_sg
                (sign_tx 4097 toy_pub toy_sg toy_tx) (mk_sig 4097 toy_pub toy_sg) 20%Z
                toy_ideal toy_only eq_refl eq_refl eq_refl eq_refl).
  assert (C : check_sign_tx toy_adrv toy_ds toy_verify (sign_tx 4097 toy_pub toy_sg toy_tx) 20 = true)
    by (vm_compute; reflexivity).
  destruct (F C) as [F1 _]. vm_compute in F1. discriminate F1.
Qed.

(** guard: the address-format bits are the signer's; then the sender is bound *)
Lemma sender_bound_partial :
  forall adrv ds verify mall issued t ty pub sg t' s' h,
    Z.eqb (addr_id (s_ty s')) (addr_id ty) = true ->
    ideal_scheme verify mall issued ->
    only_issued issued (crypto_id ty) pub (sign_msg t) sg ->
    wf_txb t = true -> wf_txb t' = true ->
    signature t' = Some s' -> crypto_id (s_ty s') = crypto_id ty ->
    check_sign_tx adrv ds verify t' h = true ->
    sender_of t' = sender_of (sign_tx ty pub sg t) /\
    tx_from adrv t' = tx_from adrv (sign_tx ty pub sg t).
Proof.
  intros adrv ds verify mall issued t ty pub sg t' s' h G Id Only W W' Sg Eid C.
  apply check_sign_tx_true in C as [_ C].
  destruct (accepted_is_issued ds verify mall issued t ty pub sg t' s' h Id Only W W' Sg Eid C)
    as (_ & Ep & _).
  apply Z.eqb_eq in G. split.
  - unfold sender_of. rewrite Sg. cbn [option_map sign_tx set_sig signature s_ty s_pub].
    rewrite G, Ep. reflexivity.
  - rewrite !from_value. destruct (sig_of_sign_tx ty pub sg t) as [-> ->].
    unfold sig_ty, sig_pub. rewrite Sg, G, Ep. reflexivity.
Qed.

Example ex_addr_id : addr_id 1 = 0%Z /\ addr_id 4097 = 1%Z /\ addr_id 8452 = 2%Z /\ addr_id 28673 = 7%Z /\
                     crypto_id 4097 = 1%Z /\ crypto_id 1073741825 = 1%Z /\ crypto_id 32769 <> 1%Z.
Proof. repeat split; try reflexivity. vm_compute. discriminate. Qed.

(** * secp256k1eth *)
Section Eth.
  Variable cfg : ethcfg.
  Variable xaddr : list N -> list N.
  Variable parse : list N -> option ethview.
  Variable inner : hsrc -> list N -> list N -> bool.
  Variable other : Z -> list N -> list N -> list N -> bool.

  Definition ethv := verify_with_eth cfg xaddr parse inner other.

  (** the decision once the action is known *)
  Definition eth_verify_act (act : option action) (msg pub sg : list N) : bool :=
    match act with
    | Some a =>
        match a_note a with
        | [] => inner (HMsg msg) pub sg
        | _ :: _ =>
            match parse (a_note a) with
            | None => false
            | Some e =>
                Z.eqb (e_chain e) (c_chain cfg) && Z.eqb (a_nonce a) (e_nonce e) &&
                N.eqb (eth_amount cfg (e_value e)) (a_amount a) &&
                bytes_eqb (e_data e) (a_code a) &&
                match e_to e with None => true | Some to => bytes_eqb (eth_from_hex (a_to a)) to end &&
                inner (HEth (e_sighash e)) pub sg
            end
        end
    | None => inner (HMsg msg) pub sg
    end.

  Lemma eth_verify_unfold msg pub sg :
    eth_verify cfg xaddr parse inner msg pub sg = eth_verify_act (decode_tx_action xaddr msg) msg pub sg.
  Proof. reflexivity. Qed.

  (** in note mode the message itself is not looked at any further *)
  Lemma note_mode_ignores_msg act m1 m2 pub sg :
    note_mode act = true -> eth_verify_act act m1 pub sg = eth_verify_act act m2 pub sg.
  Proof.
    unfold note_mode, eth_verify_act. destruct act as [a|]; [|discriminate].
    destruct (a_note a); [discriminate|reflexivity].
  Qed.

  (** guard: the signed bytes decode back to the declared fields (true of every
      well-formed transaction; checked on each case by the harness) *)
  Definition decodes_plainb (t : tx) : bool :=
    match wire_decode (signed_bytes t) with
    | Some d => tx_eqb (d_tx d) (set_sig None t)
    | None => false
    end.

  Lemma decodes_plain_action t :
    decodes_plainb t = true ->
    decode_tx_action xaddr (signed_bytes t) =
    action_of (xaddr (execer t)) (execer t) (payload t) (nonce t).
  Proof.
    unfold decodes_plainb, decode_tx_action. destruct (wire_decode (signed_bytes t)) as [d|]; [|discriminate].
    intro E. unfold tx_eqb, unsigned_eqb, core_eqb in E. rewrite !andb_true_iff in E.
    destruct E as [[[[[[[[[[E1 E2] _] _] E5] _] _] _] _] _] _].
    apply bytes_eqb_eq in E1. apply bytes_eqb_eq in E2. apply Z.eqb_eq in E5.
    destruct t; cbn in *. rewrite E1, E2, E5. reflexivity.
  Qed.

  (** ** Which outer fields the eth signature does not bind *)
  Lemma eth_same_action_same_verdict :
    forall ds t t' s h,
      signature t = Some s -> crypto_id (s_ty s) = eth_id ->
      decodes_plainb t = true -> decodes_plainb t' = true ->
      execer t' = execer t -> payload t' = payload t -> nonce t' = nonce t ->
      signature t' = signature t ->
      note_mode (action_of (xaddr (execer t)) (execer t) (payload t) (nonce t)) = true ->
      check_sign ds ethv t' h = check_sign ds ethv t h.
  Proof.
    intros ds t t' s h Sg Id D D' Ee Ep En Es NM. unfold check_sign. rewrite Es, Sg.
    destruct (load ds (crypto_id (s_ty s)) h) as [d|] eqn:L; [|reflexivity].
    apply load_id in L. rewrite L, Id.
    unfold ethv, verify_with_eth. rewrite Z.eqb_refl.
    rewrite !eth_verify_unfold, (decodes_plain_action t D), (decodes_plain_action t' D').
    rewrite Ee, Ep, En. apply note_mode_ignores_msg, NM.
  Qed.

  (** the seven outer fields by name *)
  Definition with_outer (t : tx) (fee' expire' : Z) (to' : list N) (gc' : Z) (hd' nx' : list N) (cid' : Z) : tx :=
    mk_tx (execer t) (payload t) (signature t) fee' expire' (nonce t) to' gc' hd' nx' cid'.

  Lemma eth_unbound_outer_fields :
    forall ds t s h fee' expire' to' gc' hd' nx' cid',
      signature t = Some s -> crypto_id (s_ty s) = eth_id ->
      decodes_plainb t = true ->
      decodes_plainb (with_outer t fee' expire' to' gc' hd' nx' cid') = true ->
      note_mode (action_of (xaddr (execer t)) (execer t) (payload t) (nonce t)) = true ->
      check_sign ds ethv (with_outer t fee' expire' to' gc' hd' nx' cid') h = check_sign ds ethv t h.
  Proof.
    intros. eapply eth_same_action_same_verdict; eauto.
  Qed.

  (** ** What an accepted note-mode transaction does bind *)
  Lemma eth_accepted_binds :
    forall ds t' s' h,
      signature t' = Some s' -> crypto_id (s_ty s') = eth_id ->
      decodes_plainb t' = true ->
      check_sign ds ethv t' h = true ->
      forall a, action_of (xaddr (execer t')) (execer t') (payload t') (nonce t') = Some a ->
      a_note a <> [] ->
      exists e, parse (a_note a) = Some e /\
                inner (HEth (e_sighash e)) (s_pub s') (s_sig s') = true /\
                e_chain e = c_chain cfg /\ nonce t' = e_nonce e /\
                eth_amount cfg (e_value e) = a_amount a /\ e_data e = a_code a /\
                (forall to, e_to e = Some to -> eth_from_hex (a_to a) = to).
  Proof.
    intros ds t' s' h Sg Id D C a A NE. unfold check_sign in C. rewrite Sg in C.
    destruct (load ds (crypto_id (s_ty s')) h) as [d|] eqn:L; [|discriminate].
    apply load_id in L. rewrite L, Id in C.
    unfold ethv, verify_with_eth in C. rewrite Z.eqb_refl in C.
    rewrite eth_verify_unfold, (decodes_plain_action t' D), A in C.
    unfold eth_verify_act in C.
    assert (An : a_nonce a = nonce t').
    { unfold action_of in A.
      destruct (contains evm_str (execer t')); [destruct (decode_evmact (payload t')) as [ea|]|].
      - destruct (ea_code ea); [destruct (bytes_eqb (ea_caddr ea) (xaddr (execer t')))|];
          injection A as <-; reflexivity.
      - destruct (decode_coins (payload t')) as [[|x|]|]; try discriminate. injection A as <-. reflexivity.
      - destruct (decode_coins (payload t')) as [[|x|]|]; try discriminate. injection A as <-. reflexivity. }
    destruct (a_note a) as [|n0 nt] eqn:En; [congruence|].
    destruct (parse (n0 :: nt)) as [e|]; [|discriminate].
    rewrite !andb_true_iff in C. destruct C as [[[[[C1 C2] C3] C4] C5] C6].
    exists e. split; [reflexivity|]. split; [exact C6|].
    apply Z.eqb_eq in C1. apply Z.eqb_eq in C2. apply N.eqb_eq in C3. apply bytes_eqb_eq in C4.
    repeat split; auto; try congruence.
    intros to Et. rewrite Et in C5. apply bytes_eqb_eq in C5. exact C5.
  Qed.
End Eth.

(** * The altered-fails clause for the eth driver *)
(** the key signed exactly one thing: the Ethereum transaction with signing hash [h0] *)
Definition inner_only (inner : hsrc -> list N -> list N -> bool) (h0 pub sg : list N) : Prop :=
  forall src p s, inner src p s = true <-> (src = HEth h0 /\ p = pub /\ s = sg).

Definition C16_eth_altered_fails_full : Prop :=
  forall cfg xaddr parse inner other ds t t' s' h h0 pub sg,
    inner_only inner h0 pub sg ->
    wf_txb t = true -> wf_txb t' = true ->
    signature t = Some (mk_sig eth_id pub sg) ->
    check_sign ds (verify_with_eth cfg xaddr parse inner other) t h = true ->
    signature t' = Some s' -> crypto_id (s_ty s') = eth_id ->
    (set_sig None t' <> set_sig None t \/ s_pub s' <> pub \/ s_sig s' <> sg) ->
    check_sign ds (verify_with_eth cfg xaddr parse inner other) t' h = false.

Definition ethtoy_cfg : ethcfg := mk_ec 0 (10 ^ 8).
Definition ethtoy_xaddr (_ : list N) : list N := [88]%N.
Definition ethtoy_view : ethview := mk_ev 0 77 0 [] None [1; 2; 3]%N.
Definition ethtoy_parse (_ : list N) : option ethview := Some ethtoy_view.
Definition ethtoy_inner (src : hsrc) (p s : list N) : bool :=
  match src with
  | HEth h => bytes_eqb h [1; 2; 3]%N && bytes_eqb p toy_pub && bytes_eqb s toy_sg
  | HMsg _ => false
  end.
Definition ethtoy_ds : list drv := [mk_drv 260 true 0].
(** execer "evm", payload = EVMAction4Chain33{note: "00"}, nonce 77 *)
Definition ethtoy_tx (fee' : Z) : tx :=
  mk_tx [101; 118; 109]%N [58; 2; 48; 48]%N (Some (mk_sig 260 toy_pub toy_sg)) fee' 0 77
        [49]%N 0 [] [] 0.

Lemma ethtoy_inner_only : inner_only ethtoy_inner [1; 2; 3]%N toy_pub toy_sg.
Proof.
  intros src p s. unfold ethtoy_inner. split.
  - destruct src as [m|hh]; [discriminate|]. rewrite !andb_true_iff. intros [[A B] C].
    apply bytes_eqb_eq in A. apply bytes_eqb_eq in B. apply bytes_eqb_eq in C. subst. auto.
  - intros (-> & -> & ->). reflexivity.
Qed.

Lemma eth_altered_fails_refuted : ~ C16_eth_altered_fails_full.
Proof.
  intro F.
  specialize (F ethtoy_cfg ethtoy_xaddr ethtoy_parse ethtoy_inner (fun _ _ _ _ => false) ethtoy_ds
                (ethtoy_tx 100) (ethtoy_tx 999999) (mk_sig 260 toy_pub toy_sg) 5%Z [1; 2; 3]%N toy_pub toy_sg
                ethtoy_inner_only eq_refl eq_refl eq_refl).
  assert (C : check_sign ethtoy_ds (verify_with_eth ethtoy_cfg ethtoy_xaddr ethtoy_parse ethtoy_inner
                                     (fun _ _ _ _ => false)) (ethtoy_tx 100) 5 = true)
    by (vm_compute; reflexivity).
  specialize (F C eq_refl eq_refl).
  assert (C' : check_sign ethtoy_ds (verify_with_eth ethtoy_cfg ethtoy_xaddr ethtoy_parse ethtoy_inner
                                      (fun _ _ _ _ => false)) (ethtoy_tx 999999) 5 = true)
    by (vm_compute; reflexivity).
  rewrite F in C'; [discriminate|].
  left. vm_compute. discriminate.
Qed.

(** non-vacuity of the eth lemmas: the toy transaction satisfies their guards *)
Example ex_eth_guards :
  decodes_plainb (ethtoy_tx 100) = true /\ decodes_plainb (ethtoy_tx 999999) = true /\
  note_mode (action_of (ethtoy_xaddr []) (execer (ethtoy_tx 100)) (payload (ethtoy_tx 100)) 77) = true /\
  ethtoy_tx 999999 = with_outer (ethtoy_tx 100) 999999 0 [49]%N 0 [] [] 0.
Proof. repeat split; vm_compute; reflexivity. Qed.
