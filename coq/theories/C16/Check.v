(** C16 — correspondence cases: inputs plus what the Go implementation returned. *)
From Coq Require Import String List NArith ZArith Bool.
From C33 Require Import Lib.Harness C16.Proto C16.Spec C16.ProtoUnknown C16.SpecExt.
From C33 Require Export C16.Model C16.ModelUnknown C16.ModelEth.
Import ListNotations.
Open Scope list_scope.

(** [nrep n b]: n copies of byte b (compact literals for long payloads) *)
Definition nrep (n b : N) : list N := N.iter n (cons b) [].

(** one-field alterations of a transaction (keeps the case terms small) *)
Inductive mut :=
| MSame
| MExecer (b : list N) | MPayload (b : list N) | MFee (z : Z) | MExpire (z : Z) | MNonce (z : Z)
| MTo (b : list N) | MGroupCount (z : Z) | MHeader (b : list N) | MNext (b : list N) | MChainID (z : Z)
| MSigNone | MTy (z : Z) | MPub (b : list N) | MSigBytes (b : list N)
| MUnknownField.   (* a field of the Go struct the model does not have *)

Definition upd_sig (f : sigt -> sigt) (t : tx) : tx :=
  set_sig (option_map f (signature t)) t.

Definition apply_mut (t : tx) (m : mut) : tx :=
  match m with
  | MSame | MUnknownField => t
  | MExecer b => mk_tx b (payload t) (signature t) (fee t) (expire t) (nonce t) (to_ t) (groupCount t) (header t) (next t) (chainID t)
  | MPayload b => mk_tx (execer t) b (signature t) (fee t) (expire t) (nonce t) (to_ t) (groupCount t) (header t) (next t) (chainID t)
  | MFee z => mk_tx (execer t) (payload t) (signature t) z (expire t) (nonce t) (to_ t) (groupCount t) (header t) (next t) (chainID t)
  | MExpire z => mk_tx (execer t) (payload t) (signature t) (fee t) z (nonce t) (to_ t) (groupCount t) (header t) (next t) (chainID t)
  | MNonce z => mk_tx (execer t) (payload t) (signature t) (fee t) (expire t) z (to_ t) (groupCount t) (header t) (next t) (chainID t)
  | MTo b => mk_tx (execer t) (payload t) (signature t) (fee t) (expire t) (nonce t) b (groupCount t) (header t) (next t) (chainID t)
  | MGroupCount z => mk_tx (execer t) (payload t) (signature t) (fee t) (expire t) (nonce t) (to_ t) z (header t) (next t) (chainID t)
  | MHeader b => set_header b t
  | MNext b => mk_tx (execer t) (payload t) (signature t) (fee t) (expire t) (nonce t) (to_ t) (groupCount t) (header t) b (chainID t)
  | MChainID z => mk_tx (execer t) (payload t) (signature t) (fee t) (expire t) (nonce t) (to_ t) (groupCount t) (header t) (next t) z
  | MSigNone => set_sig None t
  | MTy z => upd_sig (fun s => mk_sig z (s_pub s) (s_sig s)) t
  | MPub b => upd_sig (fun s => mk_sig (s_ty s) b (s_sig s)) t
  | MSigBytes b => upd_sig (fun s => mk_sig (s_ty s) (s_pub s) b) t
  end.

(** second transaction of a pair: the first with one field altered, or given in full *)
Inductive palt := PMut (m : mut) | PFull (t : tx).
Definition apply_palt (t : tx) (a : palt) : tx :=
  match a with PMut m => apply_mut t m | PFull t2 => t2 end.
Definition or_same (enc : list N) (o : option (list N)) : list N :=
  match o with None => enc | Some b => b end.

(** wire bytes relative to enc = encode_tx t0:
    pre ++ firstn cut enc ++ ins ++ skipn cut enc, or given in full *)
Inductive wire := WEdit (pre : list N) (cut : N) (ins : list N) | WRaw (w : list N).
Definition wire_bytes (t0 : tx) (w : wire) : list N :=
  match w with
  | WRaw b => b
  | WEdit pre cut ins =>
      let enc := encode_tx t0 in
      pre ++ firstn (N.to_nat cut) enc ++ ins ++ skipn (N.to_nat cut) enc
  end.

Inductive case :=
| CSchema (txf sgf : list (N * N * list N))
    (* (field number, kind, name) of every exported field of types.Transaction /
       types.Signature, by reflection *)
| CEnc (t : tx) (enc : list N) (clone_enc clonetx_enc hashpre : option (list N))
       (hash_sha_ok full_sha_ok clone_hash_ok : bool)
    (* enc = types.Encode(tx); clone_enc = Encode(tx.Clone()); clonetx_enc =
       Encode(CloneTx(tx)); hashpre = Encode(proto.Clone(tx) with Signature and
       Header cleared by the harness) - each [None] when byte-equal to enc (the
       harness compares); hash_sha_ok: sha256(hashpre) = tx.Hash();
       full_sha_ok: sha256(clone_enc) = tx.FullHash(); clone_hash_ok: Clone()
       has the same Hash and FullHash *)
| CPair (t1 : tx) (t2 : palt) (hash_eq full_eq : bool)
    (* Hash(t1) = Hash(t2), FullHash(t1) = FullHash(t2) *)
| CVerify (ds : list (Z * bool * Z)) (aids : list Z) (h : Z) (t0 : tx) (alt : mut) (msg : list N) (drv_out impl : N)
    (* ds: the driver registry configuration (id, enable, enable height); aids:
       the address ids whose driver derives an address from a public key; t0
       signed by Transaction.Sign; t' = apply_mut t0 alt presented: impl =
       t'.CheckSign(h).  msg = Encode(proto.Clone(t') with
       Signature cleared by the harness), drv_out = the selected driver's
       Validate(msg, pubkey, signature) called directly by the harness.
       Outcomes: 0 = false / error, 1 = true / nil, 2 = panic. *)
| CWireErr (t0 : tx) (w : wire)
    (* types.Decode(w) returned an error *)
| CWire (ds : list (Z * bool * Z)) (aids : list Z) (h : Z) (t0 : tx) (w : wire)
        (dec : palt) (sunk unk : list N)
        (reenc clone_enc clonetx_enc : option (list N))
        (hash_plain full_plain clone_ok : bool) (drv_out impl : N)
    (* t0 signed by Transaction.Sign; d = types.Decode(w): declared fields =
       apply_palt t0 dec, sunk / unk = ProtoReflect().GetUnknown() of d.Signature
       / d.  strip d = a fresh struct with the declared fields only (built by
       the harness).  reenc = Encode(d), clone_enc = Encode(d.Clone()),
       clonetx_enc = Encode(CloneTx(d)), each None when equal to Encode(strip d).
       hash_plain: d.Hash() = sha256(Encode(strip d, Signature = Header = nil));
       full_plain: d.FullHash() = sha256(Encode(strip d)); clone_ok: Clone() and
       CloneTx() keep Hash and FullHash.  drv_out = the driver's Validate on
       Encode(strip d, Signature = nil); impl = d.CheckSign(h). *)
| CResign (ds : list (Z * bool * Z)) (aids : list Z) (h : Z) (t : tx) (sunk unk : list N) (ty : Z)
          (signed : option (list N)) (drv_out impl : N)
    (* d decoded from wire bytes (declared fields t with the new signature,
       unknown bytes sunk / unk before signing): d.Sign(ty, key) then
       impl = d.CheckSign(h).  signed = the bytes the key was asked to sign
       (None when equal to Encode(strip d, Signature = nil)); drv_out =
       Validate(Encode(strip d, Signature = nil), pubkey, new signature). *)
| CFrom (ds : list (Z * bool * Z)) (aids : list Z) (h : Z) (t0 : tx) (ty' : Z)
        (drv_out chk : N) (f0 f1 : option (list N))
    (* aids: address ids whose driver derives an address from a public key; t0 signed with its ty; presented
       with ty' (nothing else changed): chk = CheckSign(h), f0 / f1 = From() of
       t0 / of the presented transaction (None = panic) *)
| CFromAny (ds : list (Z * bool * Z)) (aids : list Z) (h : Z) (t' : tx) (drv_out chk : N) (f1 : option (list N))
    (* an arbitrary presented transaction (any ty, any / empty / no public key,
       no relation to an honest signer): chk = CheckSign(h), f1 = From(),
       drv_out = the driver's Validate called directly by the harness *)
| CAction (msg xa : list N) (impl : option (list N * list N * N * list N * Z))
    (* secp256k1eth/types.DecodeTxAction(msg): (Note, To, Amount, Code, Nonce) or
       error; xa = address.ExecAddress(execer of the decoded msg) *)
| CEth (ds : list (Z * bool * Z)) (aids : list Z) (h : Z) (cfg : Z * N) (t0 : tx) (alt : mut) (xa0 xa note : list N)
       (ev : option (Z * Z * N * list N * option (list N))) (same_eth : bool)
       (inner_msg inner_eth impl : N).
    (* cfg = (evmChainID, coinsPrecision); t0 honest (an Ethereum-signed raw
       transaction wrapped as rpc/ethrpc AssembleChain33Tx does, or signed by
       Transaction.Sign), t' = apply_mut t0 alt presented: impl = t'.CheckSign(h).
       xa0 / xa = ExecAddress(execer) of t0 / t'; note = DecodeTxAction(msg').Note
       ([] on error); ev = the note parsed by go-ethereum (chain id, nonce, value,
       data, to) or None; inner_msg / inner_eth = key parsing + Ecrecover +
       VerifySignature over Keccak(msg') / over the London signing hash;
       same_eth: the notes of t0 and t' both parse and have the same signing hash *)

Definition schema_eqb (a b : list (N * N * list N)) : bool :=
  list_eqb (fun x y => match x, y with (f, k, n), (f', k', n') =>
                         N.eqb f f' && N.eqb k k' && bytes_eqb n n' end) a b.

Definition mk_ds (dsl : list (Z * bool * Z)) : list drv :=
  map (fun x => match x with (i, e, hh) => mk_drv i e hh end) dsl.

Definition check_case (c : case) : verdict :=
  match c with
  | CSchema txf sgf =>
      let m := schema_eqb txf tx_schema && schema_eqb sgf sig_schema in
      mk_verdict m true
  | CEnc t enc clone_enc0 clonetx_enc0 hashpre0 hash_sha_ok full_sha_ok clone_hash_ok =>
      let clone_enc := or_same enc clone_enc0 in
      let clonetx_enc := or_same enc clonetx_enc0 in
      let hashpre := or_same enc hashpre0 in
      let m := bytes_eqb (encode_tx t) enc && bytes_eqb (full_pre t) clone_enc &&
               bytes_eqb (encode_tx (clone_tx t)) clonetx_enc &&
               bytes_eqb (hash_pre t) hashpre && hash_sha_ok && full_sha_ok in
      let s := bytes_eqb clone_enc enc && bytes_eqb clonetx_enc enc && clone_hash_ok &&
               wf_txb t && option_eqb tx_eqb (decode_tx enc) (Some t) in
      mk_verdict m s
  | CPair t1 alt hash_eq full_eq =>
      let t2 := apply_palt t1 alt in
      let m := Bool.eqb hash_eq (bytes_eqb (hash_pre t1) (hash_pre t2)) &&
               Bool.eqb full_eq (bytes_eqb (full_pre t1) (full_pre t2)) in
      let s := Bool.eqb hash_eq (spec_hash_eq t1 t2) && Bool.eqb full_eq (spec_full_eq t1 t2) in
      mk_verdict m s
  | CVerify dsl aids h t0 alt msg drv_out impl =>
      let ds := map (fun x => match x with (i, e, hh) => mk_drv i e hh end) dsl in
      let t' := apply_mut t0 alt in
      (* the model's gate (signature present, a sender address derivable,
         driver known and enabled) and the message it hands to the driver; the
         driver's answer is the oracle *)
      let predicted := if check_sign_tx (adrv_of aids [1%N]) ds (fun _ _ _ _ => true) t' h then drv_out else 0%N in
      let m := bytes_eqb msg (signed_bytes t') && N.eqb impl predicted in
      let s := spec_verify ds h t0 t' impl in
      (m, s, if s then 0%N else kf_classify t0 t' impl)
  | CWireErr t0 w =>
      mk_verdict (match wire_decode (wire_bytes t0 w) with None => true | Some _ => false end) true
  | CWire dsl aids h t0 w dec sunk unk reenc0 clone_enc0 clonetx_enc0 hash_plain full_plain clone_ok drv_out impl =>
      let ds := mk_ds dsl in
      let di := mk_dtx (apply_palt t0 dec) sunk unk in
      let plain_enc := encode_tx (d_tx di) in
      let m :=
        match wire_decode (wire_bytes t0 w) with
        | None => false
        | Some d =>
            tx_eqb (d_tx d) (d_tx di) && bytes_eqb (d_sunk d) sunk && bytes_eqb (d_unk d) unk &&
            bytes_eqb (encode_d d) (or_same plain_enc reenc0) &&
            bytes_eqb (encode_d (clone_d d)) (or_same plain_enc clone_enc0) &&
            bytes_eqb (encode_d (clone_tx_d d)) (or_same plain_enc clonetx_enc0) &&
            Bool.eqb hash_plain (bytes_eqb (hash_pre_d d) (hash_pre (d_tx d))) &&
            Bool.eqb full_plain (bytes_eqb (full_pre_d d) (full_pre (d_tx d))) &&
            bytes_eqb (signed_bytes_d d) (signed_bytes (d_tx d)) &&
            N.eqb impl (if check_sign_tx_d (adrv_of aids [1%N]) ds (fun _ _ _ _ => true) d h then drv_out else 0%N)
        end in
      let s := spec_wire ds h t0 di hash_plain full_plain clone_ok impl in
      (m, s, if s then 0%N
             else if kf_unknown_ignored ds h t0 di hash_plain full_plain clone_ok impl then 8%N
             else if spec_wire_hash di hash_plain full_plain && clone_ok then kf_classify t0 (d_tx di) impl
             else 0%N)
  | CResign dsl aids h t sunk unk ty signed0 drv_out impl =>
      let ds := mk_ds dsl in
      let d := mk_dtx t sunk unk in
      let plain_msg := encode_tx (set_sig None t) in
      let signed := or_same plain_msg signed0 in
      let m := bytes_eqb (sign_msg_d d) signed &&
               match signature t with
               | Some s' =>
                   Z.eqb (s_ty s') ty &&
                   N.eqb impl (if check_sign_tx_d (adrv_of aids [1%N]) ds (fun _ _ _ _ => true) (sign_d ty (s_pub s') (s_sig s') d) h
                               then drv_out else 0%N)
               | None => false
               end in
      let s := spec_resign ds h ty impl in
      (m, s, if s then 0%N else if kf_resign_unknown d plain_msg signed impl then 9%N else 0%N)
  | CFrom dsl aids h t0 ty' drv_out chk f0 f1 =>
      let ds := mk_ds dsl in
      let t' := apply_mut t0 (MTy ty') in
      let ty0 := sig_ty t0 in
      let pub := sig_pub t0 in
      let m := N.eqb chk (if check_sign_tx (adrv_of aids [1%N]) ds (fun _ _ _ _ => true) t' h then drv_out else 0%N) &&
               from_agrees aids ty0 pub f0 && from_agrees aids ty' pub f1 &&
               Bool.eqb (is_some f0) (is_some (tx_from (adrv_of aids [1%N]) t0)) &&
               Bool.eqb (is_some f1) (is_some (tx_from (adrv_of aids [1%N]) t')) &&
               match f0, f1 with
               | Some a, Some b =>
                   if sender_usable aids ty0 pub && sender_usable aids ty' pub
                   then Bool.eqb (bytes_eqb a b) (Z.eqb (addr_id ty0) (addr_id ty'))
                   else true
               | _, _ => true
               end in
      let s1 := spec_from_bound ds aids h ty0 ty' pub chk in
      let s2 := spec_from_total aids ty' pub chk f1 && is_some f0 in
      (m, s1 && s2,
       if s1 && s2 then 0%N
       else if negb s1 then (if kf_ty_unbound ty0 ty' chk then 10%N else 0%N)
       else 0%N)
  | CFromAny dsl aids h t' drv_out chk f1 =>
      let ds := mk_ds dsl in
      let m := N.eqb chk (if check_sign_tx (adrv_of aids [1%N]) ds (fun _ _ _ _ => true) t' h then drv_out else 0%N) &&
               from_agrees aids (sig_ty t') (sig_pub t') f1 &&
               Bool.eqb (is_some f1) (is_some (tx_from (adrv_of aids [1%N]) t')) in
      let s := negb (N.eqb chk 2) && spec_from_total aids (sig_ty t') (sig_pub t') chk f1 in
      mk_verdict m s
  | CAction msg xa impl =>
      let mo := option_map (fun a => (a_note a, a_to a, a_amount a, a_code a, a_nonce a))
                           (decode_tx_action (fun _ => xa) msg) in
      let m := option_eqb (fun x y => match x, y with
                 | (n1, t1, a1, c1, k1), (n2, t2, a2, c2, k2) =>
                     bytes_eqb n1 n2 && bytes_eqb t1 t2 && N.eqb a1 a2 && bytes_eqb c1 c2 && Z.eqb k1 k2
                 end) mo impl in
      mk_verdict m true
  | CEth dsl aids h cfg t0 alt xa0 xa note ev same_eth inner_msg inner_eth impl =>
      let ds := mk_ds dsl in
      let t' := apply_mut t0 alt in
      let evv := option_map (fun x => match x with (c, n, v, dt, to) => mk_ev c n v dt to [] end) ev in
      let inner := fun (src : hsrc) (_ _ : list N) =>
                     match src with HMsg _ => N.eqb inner_msg 1 | HEth _ => N.eqb inner_eth 1 end in
      let vfy := verify_with_eth (mk_ec (fst cfg) (snd cfg)) (fun _ => xa) (fun _ => evv) inner
                                 (fun _ _ _ _ => false) in
      let act := decode_tx_action (fun _ => xa) (signed_bytes t') in
      let m := N.eqb impl (if check_sign_tx (adrv_of aids [1%N]) ds vfy t' h then 1%N else 0%N) &&
               bytes_eqb (match act with Some a => a_note a | None => [] end) note in
      let s := spec_verify ds h t0 t' impl in
      (m, s, if s then 0%N
             else if kf_eth_unbound xa0 xa t0 t' same_eth impl then 12%N
             else if kf_eth_sign_note xa t0 t' (match ev with None => true | Some _ => false end) impl then 13%N
             else kf_classify t0 t' impl)
  end.
