(** C16 — correspondence cases: inputs plus what the Go implementation returned. *)
From Coq Require Import String List NArith ZArith Bool.
From C33 Require Import Lib.Harness C16.Proto C16.Spec.
From C33 Require Export C16.Model.
Import ListNotations.
Open Scope list_scope.

(** [nrep n b]: n copies of byte b (compact literals for long payloads) *)
Definition nrep (n b : N) : list N := N.iter n (cons b) [].

(** one-field alterations of a transaction (keeps the case terms small) *)
Inductive mut :=
| MSame
| MExecer (b : list N) | MPayload (b : list N) | MFee (z : Z) | MExpire (z : Z) | MNonce (z : Z)
| MTo (b : list N) | MGroupCount (z : Z) | MHeader (b : list N) | MNext (b : list N) | MChainID (z : Z)
| MSigNone | MTy (z : Z) | MPub (b : list N) | MSigBytes (b : list N)
| MUnknownField.   (* a field of the Go struct the model does not have *)

Definition upd_sig (f : sigt -> sigt) (t : tx) : tx :=
  set_sig (option_map f (signature t)) t.

Definition apply_mut (t : tx) (m : mut) : tx :=
  match m with
  | MSame | MUnknownField => t
  | MExecer b => mk_tx b (payload t) (signature t) (fee t) (expire t) (nonce t) (to_ t) (groupCount t) (header t) (next t) (chainID t)
  | MPayload b => mk_tx (execer t) b (signature t) (fee t) (expire t) (nonce t) (to_ t) (groupCount t) (header t) (next t) (chainID t)
  | MFee z => mk_tx (execer t) (payload t) (signature t) z (expire t) (nonce t) (to_ t) (groupCount t) (header t) (next t) (chainID t)
  | MExpire z => mk_tx (execer t) (payload t) (signature t) (fee t) z (nonce t) (to_ t) (groupCount t) (header t) (next t) (chainID t)
  | MNonce z => mk_tx (execer t) (payload t) (signature t) (fee t) (expire t) z (to_ t) (groupCount t) (header t) (next t) (chainID t)
  | MTo b => mk_tx (execer t) (payload t) (signature t) (fee t) (expire t) (nonce t) b (groupCount t) (header t) (next t) (chainID t)
  | MGroupCount z => mk_tx (execer t) (payload t) (signature t) (fee t) (expire t) (nonce t) (to_ t) z (header t) (next t) (chainID t)
  | MHeader b => set_header b t
  | MNext b => mk_tx (execer t) (payload t) (signature t) (fee t) (expire t) (nonce t) (to_ t) (groupCount t) (header t) b (chainID t)
  | MChainID z => mk_tx (execer t) (payload t) (signature t) (fee t) (expire t) (nonce t) (to_ t) (groupCount t) (header t) (next t) z
  | MSigNone => set_sig None t
  | MTy z => upd_sig (fun s => mk_sig z (s_pub s) (s_sig s)) t
  | MPub b => upd_sig (fun s => mk_sig (s_ty s) b (s_sig s)) t
  | MSigBytes b => upd_sig (fun s => mk_sig (s_ty s) (s_pub s) b) t
  end.

(** second transaction of a pair: the first with one field altered, or given in full *)
Inductive palt := PMut (m : mut) | PFull (t : tx).
Definition apply_palt (t : tx) (a : palt) : tx :=
  match a with PMut m => apply_mut t m | PFull t2 => t2 end.
Definition or_same (enc : list N) (o : option (list N)) : list N :=
  match o with None => enc | Some b => b end.

Inductive case :=
| CSchema (txf sgf : list (N * N * list N))
    (* (field number, kind, name) of every exported field of types.Transaction /
       types.Signature, by reflection *)
| CEnc (t : tx) (enc : list N) (clone_enc clonetx_enc hashpre : option (list N))
       (hash_sha_ok full_sha_ok clone_hash_ok : bool)
    (* enc = types.Encode(tx); clone_enc = Encode(tx.Clone()); clonetx_enc =
       Encode(CloneTx(tx)); hashpre = Encode(proto.Clone(tx) with Signature and
       Header cleared by the harness) - each [None] when byte-equal to enc (the
       harness compares); hash_sha_ok: sha256(hashpre) = tx.Hash();
       full_sha_ok: sha256(clone_enc) = tx.FullHash(); clone_hash_ok: Clone()
       has the same Hash and FullHash *)
| CPair (t1 : tx) (t2 : palt) (hash_eq full_eq : bool)
    (* Hash(t1) = Hash(t2), FullHash(t1) = FullHash(t2) *)
| CVerify (ds : list (Z * bool * Z)) (h : Z) (t0 : tx) (alt : mut) (msg : list N) (drv_out impl : N).
    (* ds: the driver registry configuration (id, enable, enable height); t0
       signed by Transaction.Sign; t' = apply_mut t0 alt presented: impl =
       t'.CheckSign(h).  msg = Encode(proto.Clone(t') with
       Signature cleared by the harness), drv_out = the selected driver's
       Validate(msg, pubkey, signature) called directly by the harness.
       Outcomes: 0 = false / error, 1 = true / nil, 2 = panic. *)

Definition schema_eqb (a b : list (N * N * list N)) : bool :=
  list_eqb (fun x y => match x, y with (f, k, n), (f', k', n') =>
                         N.eqb f f' && N.eqb k k' && bytes_eqb n n' end) a b.

Definition check_case (c : case) : verdict :=
  match c with
  | CSchema txf sgf =>
      let m := schema_eqb txf tx_schema && schema_eqb sgf sig_schema in
      mk_verdict m true
  | CEnc t enc clone_enc0 clonetx_enc0 hashpre0 hash_sha_ok full_sha_ok clone_hash_ok =>
      let clone_enc := or_same enc clone_enc0 in
      let clonetx_enc := or_same enc clonetx_enc0 in
      let hashpre := or_same enc hashpre0 in
      let m := bytes_eqb (encode_tx t) enc && bytes_eqb (full_pre t) clone_enc &&
               bytes_eqb (encode_tx (clone_tx t)) clonetx_enc &&
               bytes_eqb (hash_pre t) hashpre && hash_sha_ok && full_sha_ok in
      let s := bytes_eqb clone_enc enc && bytes_eqb clonetx_enc enc && clone_hash_ok &&
               wf_txb t && option_eqb tx_eqb (decode_tx enc) (Some t) in
      mk_verdict m s
  | CPair t1 alt hash_eq full_eq =>
      let t2 := apply_palt t1 alt in
      let m := Bool.eqb hash_eq (bytes_eqb (hash_pre t1) (hash_pre t2)) &&
               Bool.eqb full_eq (bytes_eqb (full_pre t1) (full_pre t2)) in
      let s := Bool.eqb hash_eq (spec_hash_eq t1 t2) && Bool.eqb full_eq (spec_full_eq t1 t2) in
      mk_verdict m s
  | CVerify dsl h t0 alt msg drv_out impl =>
      let ds := map (fun x => match x with (i, e, hh) => mk_drv i e hh end) dsl in
      let t' := apply_mut t0 alt in
      (* the model's gate (signature present, driver known and enabled) and
         the message it hands to the driver; the driver's answer is the oracle *)
      let predicted := if check_sign ds (fun _ _ _ _ => true) t' h then drv_out else 0%N in
      let m := bytes_eqb msg (signed_bytes t') && N.eqb impl predicted in
      let s := spec_verify ds h t0 t' impl in
      (m, s, if s then 0%N else kf_classify t0 t' impl)
  end.
