(** C16 extension — the property text evaluated on the implementation's
    observables for the newly covered parts, and the narrow signatures of
    findings 8-13:

    - a decoded message that carries unknown protobuf fields (it is a different
      message: [types.Encode], [Size], [proto.Equal] see them; [Sign] signs them);
    - [Signature.ty] bits outside the driver-selecting mask and [From()];
    - transactions verified by the secp256k1eth driver in note mode. *)
From Coq Require Import List NArith ZArith Bool.
From C33 Require Import Lib.Harness C16.Proto C16.Model C16.Spec
                        C16.ProtoUnknown C16.ModelUnknown C16.ModelEth.
Import ListNotations.
Open Scope list_scope.

(** * Unknown fields *)
(** "the hash ... changes when any other field changes": a message with
    unknown fields differs from the same message without them, so its Hash
    (message-level unknown fields) and its FullHash (also those inside the
    Signature) must not be the hashes of the stripped message; without unknown
    fields they are.  [hash_plain] / [full_plain]: Hash(d) = Hash(strip d),
    FullHash(d) = FullHash(strip d) as observed. *)
Definition spec_wire_hash (d : dtx) (hash_plain full_plain : bool) : bool :=
  Bool.eqb hash_plain (negb (has_tx_unknown d)) && Bool.eqb full_plain (negb (has_unknown d)).

(** "verification fails if any signed field ... is altered": the bytes [Sign]
    signs contain the unknown fields, so presenting the honestly signed [t0]
    with unknown fields added must fail; otherwise as [spec_verify]. *)
Definition spec_wire_verify (ds : list drv) (h : Z) (t0 : tx) (d : dtx) (impl : N) : bool :=
  if tx_eqb t0 (d_tx d) && has_tx_unknown d
  then (if (h <? 0)%Z then negb (N.eqb impl 2) else N.eqb impl 0)
  else spec_verify ds h t0 (d_tx d) impl.

Definition spec_wire (ds : list drv) (h : Z) (t0 : tx) (d : dtx)
    (hash_plain full_plain clone_ok : bool) (impl : N) : bool :=
  spec_wire_hash d hash_plain full_plain && clone_ok && spec_wire_verify ds h t0 d impl.

(** 8: unknown fields are ignored by Hash, FullHash and CheckSign: every
    failing clause fails in exactly that way *)
Definition kf_unknown_ignored (ds : list drv) (h : Z) (t0 : tx) (d : dtx)
    (hash_plain full_plain clone_ok : bool) (impl : N) : bool :=
  has_unknown d && clone_ok &&
  (if has_tx_unknown d then hash_plain else true) && full_plain &&
  (spec_wire_verify ds h t0 d impl ||
   (tx_eqb t0 (d_tx d) && has_tx_unknown d && N.eqb impl 1)).

(** "a signature produced with the sender's key verifies": [Sign] then
    [CheckSign] at a height where the type is enabled *)
Definition spec_resign (ds : list drv) (h : Z) (ty : Z) (impl : N) : bool :=
  if (h <? 0)%Z then negb (N.eqb impl 2)
  else N.eqb impl (if enabled ds (crypto_id ty) h then 1 else 0).

(** 9: Sign signed the unknown fields, checkSign dropped them *)
Definition kf_resign_unknown (d : dtx) (plain_msg signed_msg : list N) (impl : N) : bool :=
  has_tx_unknown d && N.eqb impl 0 && bytes_eqb signed_msg (plain_msg ++ d_unk d).

(** * Signature.ty and From() *)
(** The address drivers of the process as the harness found them: [aids] = the
    ids whose driver derives an address from a regular public key (in /repo
    0 = btc, 1 = btcMultiSign, 2 = eth; 3 = utxo is registered but panics,
    4..7 have no driver - both give no sender).  The eth driver (id 2) slices
    pubKey[1:] and panics on an empty key.  The derived string is the
    driver's; [a] stands for it. *)
Definition eth_aid : Z := 2.
Definition adrv_of (aids : list Z) (a : list N) (id : Z) (pub : list N) : aout :=
  if existsb (Z.eqb id) aids then
    if Z.eqb id eth_aid && match pub with [] => true | _ :: _ => false end then APanic else AAddr a
  else ANone.

(** a sender address can be derived for this signature type and key *)
Definition sender_usable (aids : list Z) (ty : Z) (pub : list N) : bool :=
  match adrv_of aids [] (addr_id ty) pub with AAddr _ => true | _ => false end.

(** [t0] honestly signed with type [ty0] and key [pub]; presented with [ty']
    (everything else unchanged): [chk] = CheckSign(h), [f0] / [f1] = From() of
    [t0] / of the presented transaction ([None] = panic).
    - ty' <> ty0 naming the same driver: nothing the signer produced covers
      the difference, yet ty decides the sender address format: must fail
      (title of the property: the signature binds every field it is not part of);
    - From() never panics, whatever the verdict (it is asked before the
      signature is checked), and an accepted transaction has a sender: a
      driver derives an address for its type and key. *)
Definition spec_from_bound (ds : list drv) (aids : list Z) (h : Z) (ty0 ty' : Z) (pub : list N) (chk : N) : bool :=
  negb (N.eqb chk 2) &&
  if (h <? 0)%Z then true
  else if Z.eqb ty0 ty' then
    (* an address format without a usable driver is not a registered format:
       no claim here, [spec_from_total] demands that it is not accepted *)
    if sender_usable aids ty0 pub then Bool.eqb (N.eqb chk 1) (enabled ds (crypto_id ty0) h) else true
  else if Z.eqb (crypto_id ty0) (crypto_id ty') then N.eqb chk 0
  else if enabled ds (crypto_id ty') h then true else N.eqb chk 0.
Definition is_some {A : Type} (o : option A) : bool := match o with Some _ => true | None => false end.
Definition spec_from_total (aids : list Z) (ty' : Z) (pub : list N) (chk : N) (f1 : option (list N)) : bool :=
  is_some f1 && (if N.eqb chk 1 then sender_usable aids ty' pub else true).

(** what From() returned against the model: never a panic; the empty string
    exactly when no sender can be derived *)
Definition from_agrees (aids : list Z) (ty : Z) (pub : list N) (f : option (list N)) : bool :=
  match f with
  | None => false
  | Some a => Bool.eqb (match a with [] => true | _ :: _ => false end) (negb (sender_usable aids ty pub))
  end.

(** 10: only ty differs, same crypto id, accepted *)
Definition kf_ty_unbound (ty0 ty' : Z) (chk : N) : bool :=
  negb (Z.eqb ty0 ty') && Z.eqb (crypto_id ty0) (crypto_id ty') && N.eqb chk 1.
(** 11 (fixed in 909acb0: From() panicked for an address id without a usable
    driver and CheckSign accepted such a type) has no signature any more: a
    panic of From() or an accepted transaction without a sender is a violation. *)

(** * secp256k1eth note mode *)
Definition action_eqb (a b : action) : bool :=
  bytes_eqb (a_note a) (a_note b) && bytes_eqb (a_to a) (a_to b) && N.eqb (a_amount a) (a_amount b) &&
  bytes_eqb (a_code a) (a_code b) && Z.eqb (a_nonce a) (a_nonce b).

Definition tx_action (xa : list N) (t : tx) : option action :=
  if utf8_valid (to_ t) then action_of xa (execer t) (payload t) (nonce t) else None.

(** 12: eth note mode, the presented transaction differs from the honest one
    only where DecodeTxAction does not look (or in spellings it normalises):
    same Signature message, both in note mode, same decoded action - the note
    itself may differ when both notes are Ethereum transactions with the same
    signing hash ([same_eth]: the (v, r, s) carried inside the note are not
    looked at) -, accepted *)
Definition action_eqb_upto_note (a b : action) : bool :=
  bytes_eqb (a_to a) (a_to b) && N.eqb (a_amount a) (a_amount b) &&
  bytes_eqb (a_code a) (a_code b) && Z.eqb (a_nonce a) (a_nonce b).
Definition kf_eth_unbound (xa0 xa' : list N) (t0 t' : tx) (same_eth : bool) (impl : N) : bool :=
  N.eqb impl 1 && negb (tx_eqb t0 t') &&
  match signature t0, signature t' with
  | Some s0, Some s' =>
      sig_eqb s0 s' && Z.eqb (crypto_id (s_ty s0)) eth_id &&
      match tx_action xa0 t0, tx_action xa' t' with
      | Some a0, Some a' => note_mode (Some a0) && note_mode (Some a') &&
                            (action_eqb a0 a' || (same_eth && action_eqb_upto_note a0 a'))
      | _, _ => false
      end
  | _, _ => false
  end.

(** 13: an unaltered transaction signed by Transaction.Sign with a
    secp256k1eth key is rejected because its payload carries a non-empty note
    that is not an Ethereum transaction ([noparse]: UnmarshalBinary failed) *)
Definition kf_eth_sign_note (xa : list N) (t0 t' : tx) (noparse : bool) (impl : N) : bool :=
  N.eqb impl 0 && tx_eqb t0 t' && noparse &&
  match signature t0 with
  | Some s0 => Z.eqb (crypto_id (s_ty s0)) eth_id && note_mode (tx_action xa t0)
  | None => false
  end.
