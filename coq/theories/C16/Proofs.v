(** C16 — proofs. *)
From Coq Require Import String List NArith ZArith Lia Bool.
From C33 Require Import Lib.Harness C16.Proto C16.Model C16.Spec.
Import ListNotations.
Open Scope list_scope.

(** * The encoding is injective (via the decoder) *)
Ltac ka :=
  repeat (eapply key_above_field;
          [ | first [apply enc_bytes_shape | apply enc_int_shape | apply enc_msg_shape] | ];
          [ reflexivity | ]);
  apply key_above_nil.

Lemma decode_sig_encode s : wf_sigb s = true -> decode_sig (encode_sig s) = Some s.
Proof.
  intro W. unfold wf_sigb in W. apply int32b_int64b in W.
  unfold decode_sig, encode_sig.
  rewrite <- (app_nil_r (enc_bytes 3 (s_sig s))).
  rewrite dec_int_enc by (first [exact W | ka]). cbn [bind].
  rewrite dec_bytes_enc by ka. cbn [bind].
  rewrite dec_bytes_enc by ka. cbn [bind at_end].
  destruct s; reflexivity.
Qed.

Lemma decode_opt_sig_encode o :
  wf_optsig o = true -> decode_opt_sig (option_map encode_sig o) = Some o.
Proof.
  destruct o as [s|]; cbn [wf_optsig option_map decode_opt_sig]; [|reflexivity].
  intro W. rewrite decode_sig_encode by exact W. reflexivity.
Qed.

Lemma wf_txb_parts t : wf_txb t = true ->
  wf_optsig (signature t) = true /\ int64b (fee t) = true /\ int64b (expire t) = true /\
  int64b (nonce t) = true /\ int64b (groupCount t) = true /\ int64b (chainID t) = true.
Proof.
  unfold wf_txb, wf_ints. rewrite !andb_true_iff.
  intros [Hs [[[[Hf He] Hn] Hg] Hc]].
  repeat split; auto using int32b_int64b.
Qed.

Theorem decode_tx_encode t : wf_txb t = true -> decode_tx (encode_tx t) = Some t.
Proof.
  intro W. apply wf_txb_parts in W as (Hs & Hf & He & Hn & Hg & Hc).
  unfold decode_tx, encode_tx.
  rewrite <- (app_nil_r (enc_int 11 (chainID t))).
  rewrite dec_bytes_enc by ka. cbn [bind].
  rewrite dec_bytes_enc by ka. cbn [bind].
  rewrite dec_msg_enc by ka. cbn [bind].
  rewrite decode_opt_sig_encode by exact Hs.
  rewrite dec_int_enc by (first [assumption | ka]). cbn [bind].
  rewrite dec_int_enc by (first [assumption | ka]). cbn [bind].
  rewrite dec_int_enc by (first [assumption | ka]). cbn [bind].
  rewrite dec_bytes_enc by ka. cbn [bind].
  rewrite dec_int_enc by (first [assumption | ka]). cbn [bind].
  rewrite dec_bytes_enc by ka. cbn [bind].
  rewrite dec_bytes_enc by ka. cbn [bind].
  rewrite dec_int_enc by (first [assumption | ka]). cbn [bind at_end].
  destruct t; reflexivity.
Qed.

Theorem encode_tx_injective t1 t2 :
  wf_txb t1 = true -> wf_txb t2 = true -> encode_tx t1 = encode_tx t2 -> t1 = t2.
Proof.
  intros W1 W2 E. pose proof (decode_tx_encode t1 W1) as D1.
  rewrite E, (decode_tx_encode t2 W2) in D1. congruence.
Qed.

(** * Clones *)
Lemma clone_tx_id t : clone_tx t = t.
Proof. destruct t; reflexivity. Qed.

Lemma clone_id t : clone t = t.
Proof.
  unfold clone. rewrite clone_tx_id.
  destruct t as [e p [[ty pk sg]|] f x n o g hd nx c]; reflexivity.
Qed.

Lemma wf_cleared t : wf_txb t = true -> wf_txb (set_sig None t) = true.
Proof.
  unfold wf_txb. rewrite !andb_true_iff. intros [_ H]. split; [reflexivity|exact H].
Qed.

Lemma wf_cleared_header t hd : wf_txb t = true -> wf_txb (set_header hd t) = true.
Proof. unfold wf_txb. intro H. exact H. Qed.

(** * Hash / FullHash *)
Lemma hash_pre_ignores t sg hd : hash_pre (set_header hd (set_sig sg t)) = hash_pre t.
Proof. destruct t; reflexivity. Qed.

Lemma hash_ignores_sig_and_header :
  forall (HT : Type) (H : list N -> HT) t sg hd,
    tx_hash H (set_header hd (set_sig sg t)) = tx_hash H t.
Proof. intros. unfold tx_hash. rewrite hash_pre_ignores. reflexivity. Qed.

Lemma hash_binds :
  forall (HT : Type) (H : list N -> HT),
    (forall a b, H a = H b -> a = b) ->
    forall t1 t2, wf_txb t1 = true -> wf_txb t2 = true ->
    tx_hash H t1 = tx_hash H t2 ->
    execer t1 = execer t2 /\ payload t1 = payload t2 /\ fee t1 = fee t2 /\
    expire t1 = expire t2 /\ nonce t1 = nonce t2 /\ to_ t1 = to_ t2 /\
    groupCount t1 = groupCount t2 /\ next t1 = next t2 /\ chainID t1 = chainID t2.
Proof.
  intros HT H Hinj t1 t2 W1 W2 E. unfold tx_hash, hash_pre in E. apply Hinj in E.
  rewrite !clone_tx_id in E.
  apply encode_tx_injective in E;
    [| apply wf_cleared_header, wf_cleared; assumption
     | apply wf_cleared_header, wf_cleared; assumption].
  destruct t1, t2. cbn in E. inversion E; subst. cbn. repeat split; reflexivity.
Qed.

Lemma fullhash_binds :
  forall (HT : Type) (H : list N -> HT),
    (forall a b, H a = H b -> a = b) ->
    forall t1 t2, wf_txb t1 = true -> wf_txb t2 = true ->
    full_hash H t1 = full_hash H t2 -> t1 = t2.
Proof.
  intros HT H Hinj t1 t2 W1 W2 E. unfold full_hash, full_pre in E. apply Hinj in E.
  rewrite !clone_id in E. apply encode_tx_injective; assumption.
Qed.

Lemma clone_preserves :
  forall (HT : Type) (H : list N -> HT) t,
    tx_hash H (clone t) = tx_hash H t /\ full_hash H (clone t) = full_hash H t /\
    tx_hash H (clone_tx t) = tx_hash H t /\ full_hash H (clone_tx t) = full_hash H t.
Proof. intros. rewrite clone_id, clone_tx_id. repeat split; reflexivity. Qed.

(** * Sign / CheckSign *)
Lemma signed_bytes_sign_tx ty pub sg t : signed_bytes (sign_tx ty pub sg t) = sign_msg t.
Proof. destruct t; reflexivity. Qed.

Lemma load_id ds id h d : load ds id h = Some d -> d_id d = id.
Proof.
  unfold load. destruct (find _ ds) as [d0|] eqn:F; [|discriminate].
  apply find_some in F as [_ F]. apply Z.eqb_eq in F.
  destruct (_ || _); [|discriminate]. intro E. injection E as <-. exact F.
Qed.

Lemma sign_then_verify :
  forall ds verify mall issued t ty pub sg h d,
    ideal_scheme verify mall issued ->
    load ds (crypto_id ty) h = Some d ->
    issued (d_id d) pub (sign_msg t) sg ->
    check_sign ds verify (sign_tx ty pub sg t) h = true.
Proof.
  intros ds verify mall issued t ty pub sg h d [Mr Vi] L I.
  unfold check_sign. cbn [sign_tx set_sig signature s_ty s_pub s_sig].
  rewrite L. change (mk_tx _ _ _ _ _ _ _ _ _ _ _) with (sign_tx ty pub sg t).
  rewrite signed_bytes_sign_tx. apply Vi. exists sg. split; [exact I|apply Mr].
Qed.

(** accepted => the signed fields, the key and (up to [mall]) the signature
    are the issued ones *)
Lemma accepted_is_issued :
  forall ds verify mall issued t ty pub sg t' s' h,
    ideal_scheme verify mall issued ->
    only_issued issued (crypto_id ty) pub (sign_msg t) sg ->
    wf_txb t = true -> wf_txb t' = true ->
    signature t' = Some s' -> crypto_id (s_ty s') = crypto_id ty ->
    check_sign ds verify t' h = true ->
    set_sig None t' = set_sig None t /\ s_pub s' = pub /\ mall (crypto_id ty) sg (s_sig s') = true.
Proof.
  intros ds verify mall issued t ty pub sg t' s' h [Mr Vi] Only W W' Sg Id C.
  unfold check_sign in C. rewrite Sg in C.
  destruct (load ds (crypto_id (s_ty s')) h) as [d|] eqn:L; [|discriminate].
  apply load_id in L. rewrite L, Id in C.
  apply Vi in C as (s0 & I & M). apply Only in I as (Ep & Em & Es). subst s0.
  unfold signed_bytes, sign_msg in Em. rewrite clone_tx_id in Em.
  apply encode_tx_injective in Em; [| apply wf_cleared; assumption | apply wf_cleared; assumption].
  auto.
Qed.

Lemma altered_fails_partial :
  forall ds verify mall issued t ty pub sg t' s' h,
    ideal_scheme verify mall issued ->
    only_issued issued (crypto_id ty) pub (sign_msg t) sg ->
    wf_txb t = true -> wf_txb t' = true ->
    signature t' = Some s' -> crypto_id (s_ty s') = crypto_id ty ->
    (set_sig None t' <> set_sig None t \/ s_pub s' <> pub \/
     mall (crypto_id ty) sg (s_sig s') = false) ->
    check_sign ds verify t' h = false.
Proof.
  intros ds verify mall issued t ty pub sg t' s' h Id Only W W' Sg Eid Alt.
  destruct (check_sign ds verify t' h) eqn:C; [|reflexivity]. exfalso.
  destruct (accepted_is_issued ds verify mall issued t ty pub sg t' s' h Id Only W W' Sg Eid C)
    as (E1 & E2 & E3).
  destruct Alt as [A|[A|A]]; [apply A, E1 | apply A, E2 | rewrite E3 in A; discriminate].
Qed.

(** * Disabled / unknown types *)
Lemma enabled_false_load ds id h :
  (0 <= h)%Z -> enabled ds id h = false -> load ds id h = None.
Proof.
  intros Hh. unfold enabled, load. induction ds as [|d ds IH]; cbn [existsb find]; [reflexivity|].
  intro E. apply orb_false_iff in E as [E1 E2].
  destruct (Z.eqb (d_id d) id) eqn:Eid.
  - cbn [andb] in E1. destruct (Z.ltb_spec h 0); [lia|]. cbn [orb].
    rewrite E1. reflexivity.
  - apply IH, E2.
Qed.

Lemma disabled_fails :
  forall ds verify t s h,
    (0 <= h)%Z -> signature t = Some s ->
    enabled ds (crypto_id (s_ty s)) h = false ->
    check_sign ds verify t h = false.
Proof.
  intros ds verify t s h Hh Sg E. unfold check_sign. rewrite Sg.
  rewrite (enabled_false_load _ _ _ Hh E). reflexivity.
Qed.

Lemma unsigned_fails : forall ds verify t h, signature t = None -> check_sign ds verify t h = false.
Proof. intros ds verify t h Sg. unfold check_sign. rewrite Sg. reflexivity. Qed.

(** * A scheme with the ECDSA symmetry: (r, s) ~ (r, q - s) on two-byte toy
      signatures, q = 251.  It is an ideal scheme in the sense above, and it
      refutes the full-strength statement. *)
Definition toy_mall (_ : Z) (a b : list N) : bool :=
  match a, b with
  | [r; s], [r'; s'] => (N.eqb r r' && (N.eqb s s' || N.eqb (s + s') 251))%N
  | _, _ => bytes_eqb a b
  end.

Definition toy_tx : tx :=
  mk_tx (bs "coins"%string) (hx "0a0b0c"%string) None 100000 0 77
        (bs "1JmFaA6unrCFYEWPGRi7uuXY1KthTJxJEP"%string)
        0 [] [] 0.
Definition toy_pub : list N := hx "02aabbcc"%string.
Definition toy_sg : list N := [7; 100]%N.
Definition toy_sg' : list N := [7; 151]%N.
Definition toy_ds : list drv := [mk_drv 1 true 0; mk_drv 2 true 10].

Definition toy_issued1 (id : Z) (p m s : list N) : Prop :=
  id = 1%Z /\ p = toy_pub /\ m = sign_msg toy_tx /\ s = toy_sg.
Definition toy_verify (id : Z) (m p s : list N) : bool :=
  Z.eqb id 1 && bytes_eqb p toy_pub && bytes_eqb m (sign_msg toy_tx) && toy_mall id toy_sg s.

Lemma bytes_eqb_eq a b : bytes_eqb a b = true <-> a = b.
Proof. apply list_eqb_spec. intros x y. apply N.eqb_eq. Qed.

Lemma toy_mall_refl id s : toy_mall id s s = true.
Proof.
  unfold toy_mall.
  destruct s as [|r [|s [|x tl]]]; try (apply bytes_eqb_eq; reflexivity).
  rewrite !N.eqb_refl. reflexivity.
Qed.

Lemma toy_ideal : ideal_scheme toy_verify toy_mall toy_issued1.
Proof.
  split; [apply toy_mall_refl|].
  intros id m p s. unfold toy_verify, toy_issued1. split.
  - rewrite !andb_true_iff. intros [[[E1 E2] E3] E4].
    apply Z.eqb_eq in E1. apply bytes_eqb_eq in E2. apply bytes_eqb_eq in E3. subst.
    exists toy_sg. auto.
  - intros (s0 & (E1 & E2 & E3 & E4) & M). subst.
    rewrite Z.eqb_refl. cbn [andb].
    rewrite (proj2 (bytes_eqb_eq toy_pub toy_pub) eq_refl).
    rewrite (proj2 (bytes_eqb_eq _ _) eq_refl). exact M.
Qed.

Lemma toy_only : only_issued toy_issued1 (crypto_id 1) toy_pub (sign_msg toy_tx) toy_sg.
Proof.
  unfold only_issued, toy_issued1. intros p m s. split.
  - intros (_ & A & B & C). auto.
  - intros (A & B & C). split; [reflexivity|auto].
Qed.

Lemma altered_fails_refuted : ~ C16_altered_fails_full.
Proof.
  intro F.
  specialize (F toy_ds toy_verify toy_mall toy_issued1 toy_tx 1%Z toy_pub toy_sg
                (sign_tx 1 toy_pub toy_sg' toy_tx) (mk_sig 1 toy_pub toy_sg') 20%Z
                toy_ideal toy_only eq_refl eq_refl eq_refl eq_refl).
  assert (C : check_sign toy_ds toy_verify (sign_tx 1 toy_pub toy_sg' toy_tx) 20 = true)
    by (vm_compute; reflexivity).
  rewrite F in C; [discriminate|].
  right. right. cbn [s_sig]. unfold toy_sg', toy_sg. intro E. inversion E.
Qed.

(** * Non-vacuity: the hypotheses of the theorems are satisfiable *)
Example ex_wf : wf_txb toy_tx = true /\ wf_txb (sign_tx 1 toy_pub toy_sg toy_tx) = true.
Proof. split; reflexivity. Qed.

Example ex_roundtrip :
  decode_tx (encode_tx (sign_tx 1 toy_pub toy_sg toy_tx)) = Some (sign_tx 1 toy_pub toy_sg toy_tx).
Proof. vm_compute. reflexivity. Qed.

(** an injective "hash" exists (the identity), and the hash theorems say
    something about it *)
Example ex_hash_binds :
  tx_hash (fun x => x) toy_tx <> tx_hash (fun x => x) (set_header [1%N] (mk_tx (bs "coins"%string) (hx "0a0b0c"%string) None 100001 0 77
        (bs "1JmFaA6unrCFYEWPGRi7uuXY1KthTJxJEP"%string) 0 [] [] 0)).
Proof. vm_compute. discriminate. Qed.

Example ex_hash_ignores :
  tx_hash (fun x => x) (set_header [9%N] (sign_tx 1 toy_pub toy_sg toy_tx)) = tx_hash (fun x => x) toy_tx.
Proof. apply (hash_ignores_sig_and_header _ (fun x => x) toy_tx). Qed.

(** the ideal-scheme hypotheses hold for the toy scheme, so the theorems apply *)
Example ex_sign_then_verify :
  check_sign toy_ds toy_verify (sign_tx 1 toy_pub toy_sg toy_tx) 20 = true.
Proof.
  apply (sign_then_verify toy_ds toy_verify toy_mall toy_issued1 toy_tx 1%Z toy_pub toy_sg 20%Z
           (mk_drv 1 true 0) toy_ideal eq_refl).
  repeat split; reflexivity.
Qed.

(** guard of the partial theorem: a signature outside the malleability class *)
Example ex_guard : toy_mall 1 toy_sg [7; 3]%N = false /\ toy_mall 1 toy_sg toy_sg' = true.
Proof. split; reflexivity. Qed.

Example ex_altered_sig_fails :
  check_sign toy_ds toy_verify (sign_tx 1 toy_pub [7; 3]%N toy_tx) 20 = false.
Proof.
  apply (altered_fails_partial toy_ds toy_verify toy_mall toy_issued1 toy_tx 1%Z toy_pub toy_sg
           (sign_tx 1 toy_pub [7; 3]%N toy_tx) (mk_sig 1 toy_pub [7; 3]%N) 20%Z
           toy_ideal toy_only eq_refl eq_refl eq_refl eq_refl).
  right. right. reflexivity.
Qed.

Example ex_altered_header_fails :
  check_sign toy_ds toy_verify (set_header [1%N] (sign_tx 1 toy_pub toy_sg toy_tx)) 20 = false.
Proof.
  apply (altered_fails_partial toy_ds toy_verify toy_mall toy_issued1 toy_tx 1%Z toy_pub toy_sg
           (set_header [1%N] (sign_tx 1 toy_pub toy_sg toy_tx)) (mk_sig 1 toy_pub toy_sg) 20%Z
           toy_ideal toy_only eq_refl eq_refl eq_refl eq_refl).
  left. vm_compute. discriminate.
Qed.

Example ex_disabled :
  check_sign toy_ds toy_verify (sign_tx 2 toy_pub toy_sg toy_tx) 9 = false /\
  enabled toy_ds (crypto_id 2) 9 = false /\ enabled toy_ds (crypto_id 2) 10 = true.
Proof. repeat split; reflexivity. Qed.
