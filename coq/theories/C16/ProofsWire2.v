(** C16 extension — [wire_decode (encode_tx t) = Some (plain t)]. *)
From Coq Require Import List NArith ZArith Lia Bool.
From C33 Require Import Lib.Harness C16.Proto C16.Model C16.Spec C16.Proofs
                        C16.ProtoUnknown C16.ModelUnknown C16.ProofsWire.
Import ListNotations.
Open Scope list_scope.

Lemma s32_u64 z : int32b z = true -> s32 (u64 z) = z.
Proof.
  intro Hz. unfold int32b in Hz. apply andb_true_iff in Hz as [H1 H2].
  apply Z.leb_le in H1. apply Z.ltb_lt in H2.
  change (2 ^ 31)%Z with 2147483648%Z in *.
  unfold s32, u64.
  assert (E : Z.of_N (Z.to_N (z mod 2 ^ 64) mod 2 ^ 32) = (z mod 2 ^ 32)%Z).
  { rewrite N2Z.inj_mod. rewrite Z2N.id by (apply Z.mod_pos_bound; lia).
    change (Z.of_N (2 ^ 32)) with (2 ^ 32)%Z.
    symmetry. apply Znumtheory.Zmod_div_mod; try lia.
    exists (2 ^ 32)%Z. reflexivity. }
  set (m := (Z.to_N (z mod 2 ^ 64) mod 2 ^ 32)%N) in *.
  change (2 ^ 32)%Z with 4294967296%Z in *.
  destruct (Z_lt_le_dec z 0) as [Neg|Pos].
  - assert (Em : (z mod 4294967296 = z + 4294967296)%Z)
      by (symmetry; apply Z.mod_unique with (q := (-1)%Z); lia).
    destruct (N.ltb_spec m (2 ^ 31)) as [L|G].
    + exfalso. apply N2Z.inj_lt in L. change (Z.of_N (2 ^ 31)) with 2147483648%Z in L. lia.
    + lia.
  - assert (Em : (z mod 4294967296 = z)%Z) by (apply Z.mod_small; lia).
    destruct (N.ltb_spec m (2 ^ 31)) as [L|G].
    + lia.
    + exfalso. apply N2Z.inj_le in G. change (Z.of_N (2 ^ 31)) with 2147483648%Z in G. lia.
Qed.

(** * Signature *)
Definition sig_len_okb (s : sigt) : bool := len_okb (s_pub s) && len_okb (s_sig s).

Definition fields_sig (s : sigt) : list wfield :=
  f_int 1 (s_ty s) ++ f_bytes 2 (s_pub s) ++ f_bytes 3 (s_sig s).

Lemma parses_sig s : sig_len_okb s = true -> parses (encode_sig s) (fields_sig s).
Proof.
  intro L. apply andb_true_iff in L as [L1 L2]. unfold encode_sig, fields_sig.
  rewrite <- (app_nil_r (enc_bytes 3 (s_sig s))), <- (app_nil_r (f_bytes 3 (s_sig s))).
  apply parses_int; [reflexivity|]. apply parses_bytes; [reflexivity|exact L1|].
  apply parses_bytes; [reflexivity|exact L2|]. apply parses_nil.
Qed.

Lemma fold_sig s :
  wf_sigb s = true -> fold_left step_sig (fields_sig s) (Some (sig0, [])) = Some (s, []).
Proof.
  intro W. unfold wf_sigb in W. destruct s as [ty pk sg]. cbn [s_ty s_pub s_sig] in *.
  unfold fields_sig, f_int. cbn [s_ty s_pub s_sig].
  destruct (Z.eqb_spec ty 0) as [->|Nz]; destruct pk as [|p0 pk]; destruct sg as [|g0 sg];
    cbn; rewrite ?(s32_u64 ty W); reflexivity.
Qed.

Lemma merge_sig_encode s :
  wf_sigb s = true -> sig_len_okb s = true -> merge_sig None [] (encode_sig s) = Some (s, []).
Proof.
  intros W L. unfold merge_sig. rewrite (parses_parse_fields _ _ (parses_sig s L)).
  apply fold_sig, W.
Qed.

(** * Transaction *)
Definition tx_len_okb (t : tx) : bool :=
  len_okb (execer t) && len_okb (payload t) &&
  match signature t with Some s => sig_len_okb s && len_okb (encode_sig s) | None => true end &&
  len_okb (to_ t) && len_okb (header t) && len_okb (next t).

(** everything Go can hold *)
Definition wire_okb (t : tx) : bool := wf_txb t && utf8_valid (to_ t) && tx_len_okb t.

Definition fields_tx (t : tx) : list wfield :=
  f_bytes 1 (execer t) ++ f_bytes 2 (payload t) ++
  f_msg 3 (option_map encode_sig (signature t)) ++
  f_int 4 (fee t) ++ f_int 5 (expire t) ++ f_int 6 (nonce t) ++
  f_bytes 7 (to_ t) ++ f_int 8 (groupCount t) ++
  f_bytes 9 (header t) ++ f_bytes 10 (next t) ++ f_int 11 (chainID t).

Lemma parses_tx t : tx_len_okb t = true -> parses (encode_tx t) (fields_tx t).
Proof.
  unfold tx_len_okb. rewrite !andb_true_iff. intros [[[[[L1 L2] L3] L7] L9] L10].
  unfold encode_tx, fields_tx.
  rewrite <- (app_nil_r (enc_int 11 (chainID t))), <- (app_nil_r (f_int 11 (chainID t))).
  apply parses_bytes; [reflexivity|exact L1|]. apply parses_bytes; [reflexivity|exact L2|].
  apply parses_msg; [reflexivity| |].
  { destruct (signature t) as [s|]; cbn [option_map]; [|reflexivity].
    apply andb_true_iff in L3 as [_ L3]. exact L3. }
  apply parses_int; [reflexivity|]. apply parses_int; [reflexivity|]. apply parses_int; [reflexivity|].
  apply parses_bytes; [reflexivity|exact L7|]. apply parses_int; [reflexivity|].
  apply parses_bytes; [reflexivity|exact L9|]. apply parses_bytes; [reflexivity|exact L10|].
  apply parses_int; [reflexivity|]. apply parses_nil.
Qed.

(** the transaction with the fields above number [k] still at their defaults *)
Definition trunc (k : nat) (t : tx) : tx :=
  mk_tx (if (1 <=? k)%nat then execer t else []) (if (2 <=? k)%nat then payload t else [])
        (if (3 <=? k)%nat then signature t else None) (if (4 <=? k)%nat then fee t else 0%Z)
        (if (5 <=? k)%nat then expire t else 0%Z) (if (6 <=? k)%nat then nonce t else 0%Z)
        (if (7 <=? k)%nat then to_ t else []) (if (8 <=? k)%nat then groupCount t else 0%Z)
        (if (9 <=? k)%nat then header t else []) (if (10 <=? k)%nat then next t else [])
        (if (11 <=? k)%nat then chainID t else 0%Z).

Ltac step_bytes t :=
  destruct t as [e p sg f x n o g hd nx c]; unfold trunc; cbn [Nat.leb execer payload signature fee expire nonce to_ groupCount header next chainID];
  match goal with |- fold_left step_tx (f_bytes _ ?b) _ = _ => destruct b end; reflexivity.

Ltac step_int t H :=
  destruct t as [e p sg f x n o g hd nx c]; unfold trunc; cbn [Nat.leb execer payload signature fee expire nonce to_ groupCount header next chainID] in *;
  unfold f_int;
  match goal with |- fold_left step_tx (if (?z =? 0)%Z then _ else _) _ = _ =>
    destruct (Z.eqb_spec z 0) as [->|Nz]; [reflexivity|]; cbn; rewrite H; reflexivity end.

Lemma st1 t : fold_left step_tx (f_bytes 1 (execer t)) (Some (plain (trunc 0 t))) = Some (plain (trunc 1 t)).
Proof. step_bytes t. Qed.
Lemma st2 t : fold_left step_tx (f_bytes 2 (payload t)) (Some (plain (trunc 1 t))) = Some (plain (trunc 2 t)).
Proof. step_bytes t. Qed.
Lemma st3 t :
  wf_optsig (signature t) = true ->
  match signature t with Some s => sig_len_okb s | None => true end = true ->
  fold_left step_tx (f_msg 3 (option_map encode_sig (signature t))) (Some (plain (trunc 2 t))) =
  Some (plain (trunc 3 t)).
Proof.
  intros W L. destruct t as [e p sg f x n o g hd nx c]. unfold trunc.
  cbn [Nat.leb execer payload signature fee expire nonce to_ groupCount header next chainID] in *.
  destruct sg as [s|]; [|reflexivity].
  cbn [option_map f_msg fold_left step_tx w_fn w_wt w_val plain d_tx d_sunk d_unk signature].
  cbn [wf_optsig] in W. rewrite (merge_sig_encode s W L). reflexivity.
Qed.
Lemma st4 t : int64b (fee t) = true ->
  fold_left step_tx (f_int 4 (fee t)) (Some (plain (trunc 3 t))) = Some (plain (trunc 4 t)).
Proof. intro H. apply s64_u64 in H. step_int t H. Qed.
Lemma st5 t : int64b (expire t) = true ->
  fold_left step_tx (f_int 5 (expire t)) (Some (plain (trunc 4 t))) = Some (plain (trunc 5 t)).
Proof. intro H. apply s64_u64 in H. step_int t H. Qed.
Lemma st6 t : int64b (nonce t) = true ->
  fold_left step_tx (f_int 6 (nonce t)) (Some (plain (trunc 5 t))) = Some (plain (trunc 6 t)).
Proof. intro H. apply s64_u64 in H. step_int t H. Qed.
Lemma st7 t : utf8_valid (to_ t) = true ->
  fold_left step_tx (f_bytes 7 (to_ t)) (Some (plain (trunc 6 t))) = Some (plain (trunc 7 t)).
Proof.
  intro U. destruct t as [e p sg f x n o g hd nx c]. unfold trunc.
  cbn [Nat.leb execer payload signature fee expire nonce to_ groupCount header next chainID] in *.
  destruct o as [|o0 o]; [reflexivity|].
  cbn [f_bytes fold_left step_tx w_fn w_wt w_val]. rewrite U. reflexivity.
Qed.
Lemma st8 t : int32b (groupCount t) = true ->
  fold_left step_tx (f_int 8 (groupCount t)) (Some (plain (trunc 7 t))) = Some (plain (trunc 8 t)).
Proof. intro H. apply s32_u64 in H. step_int t H. Qed.
Lemma st9 t : fold_left step_tx (f_bytes 9 (header t)) (Some (plain (trunc 8 t))) = Some (plain (trunc 9 t)).
Proof. step_bytes t. Qed.
Lemma st10 t : fold_left step_tx (f_bytes 10 (next t)) (Some (plain (trunc 9 t))) = Some (plain (trunc 10 t)).
Proof. step_bytes t. Qed.
Lemma st11 t : int32b (chainID t) = true ->
  fold_left step_tx (f_int 11 (chainID t)) (Some (plain (trunc 10 t))) = Some (plain (trunc 11 t)).
Proof. intro H. apply s32_u64 in H. step_int t H. Qed.

Lemma trunc_0 t : trunc 0 t = tx0. Proof. reflexivity. Qed.
Lemma trunc_11 t : trunc 11 t = t. Proof. destruct t; reflexivity. Qed.

Theorem wire_decode_encode_plain t : wire_okb t = true -> wire_decode (encode_tx t) = Some (plain t).
Proof.
  unfold wire_okb. rewrite !andb_true_iff. intros [[W U] L].
  unfold wire_decode. rewrite (parses_parse_fields _ _ (parses_tx t L)).
  unfold wf_txb, wf_ints in W. rewrite !andb_true_iff in W.
  destruct W as [Ws [[[[Wf We] Wn] Wg] Wc]].
  assert (Ls : match signature t with Some s => sig_len_okb s | None => true end = true).
  { unfold tx_len_okb in L. rewrite !andb_true_iff in L. destruct L as [[[[[_ _] L3] _] _] _].
    destruct (signature t); [apply andb_true_iff in L3 as [L3 _]; exact L3|reflexivity]. }
  unfold fields_tx. rewrite !fold_left_app. rewrite <- (trunc_0 t).
  rewrite st1, st2, (st3 t Ws Ls), (st4 t Wf), (st5 t We), (st6 t Wn), (st7 t U), (st8 t Wg), st9, st10, (st11 t Wc).
  rewrite trunc_11. reflexivity.
Qed.

(** consequences *)
Lemma wire_okb_cleared t : wire_okb t = true -> wire_okb (set_sig None t) = true.
Proof.
  unfold wire_okb, wf_txb, tx_len_okb. destruct t; cbn. rewrite !andb_true_iff.
  intros [[[_ W] U] [[[[[L1 L2] _] L7] L9] L10]]. repeat split; assumption.
Qed.

Theorem signed_bytes_decode t :
  wire_okb t = true -> wire_decode (signed_bytes t) = Some (plain (set_sig None t)).
Proof.
  intro W. unfold signed_bytes. rewrite clone_tx_id. apply wire_decode_encode_plain, wire_okb_cleared, W.
Qed.

Example ex_wire_ok : wire_okb (sign_tx 1 toy_pub toy_sg toy_tx) = true.
Proof. vm_compute. reflexivity. Qed.

(** * The guard of the eth theorems holds for every transaction Go can hold *)
Lemma bytes_eqb_refl b : bytes_eqb b b = true.
Proof. apply bytes_eqb_eq. reflexivity. Qed.

Lemma tx_eqb_refl t : tx_eqb t t = true.
Proof.
  unfold tx_eqb, unsigned_eqb, core_eqb. rewrite !bytes_eqb_refl, !Z.eqb_refl. cbn [andb].
  destruct (signature t) as [s|]; [|reflexivity]. cbn [option_eqb]. unfold sig_eqb.
  rewrite Z.eqb_refl, !bytes_eqb_refl. reflexivity.
Qed.
