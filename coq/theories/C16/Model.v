(** C16 — executable model of the transaction codec, hashes and signature
    check of chain33 (types/tx.go, types/sign.go, types/block.go CheckSign,
    common/crypto/crypto.go Load / WithLoadOptionEnableCheck), as the code is.

    Byte strings are [list N]; Go [nil] and empty slices/strings are both [[]]
    (they are indistinguishable on the wire).  [int32]/[int64] values are [Z].
    SHA-256 and the signature drivers are not modelled here: hashes are taken
    over [hash_pre]/[full_pre] by a function given from outside, and the
    driver's verdict is a function argument of [check_sign]. *)
From Coq Require Import List NArith ZArith Bool String.
Open Scope string_scope.
From C33 Require Import Lib.Harness C16.Proto.
Import ListNotations.
Open Scope list_scope.

(** message Signature { int32 ty = 1; bytes pubkey = 2; bytes signature = 3; } *)
Record sigt := mk_sig { s_ty : Z; s_pub : list N; s_sig : list N }.

(** message Transaction (transaction.proto) *)
Record tx := mk_tx {
  execer     : list N;        (* bytes  1 *)
  payload    : list N;        (* bytes  2 *)
  signature  : option sigt;   (* Signature 3 (pointer: nil = absent) *)
  fee        : Z;             (* int64  4 *)
  expire     : Z;             (* int64  5 *)
  nonce      : Z;             (* int64  6 *)
  to_        : list N;        (* string 7 *)
  groupCount : Z;             (* int32  8 *)
  header     : list N;        (* bytes  9 *)
  next       : list N;        (* bytes 10 *)
  chainID    : Z              (* int32 11 *)
}.

(** What the model knows about the two Go structs: (field number, kind, name).
    kinds: 0 int64, 1 int32, 2 bytes, 3 string, 4 message pointer.
    The harness obtains the same list by reflection; a difference is a
    correspondence break (a field the model does not know). *)
Definition tx_schema : list (N * N * list N) :=
  [ (1, 2, bs "execer"); (2, 2, bs "payload"); (3, 4, bs "signature"); (4, 0, bs "fee");
    (5, 0, bs "expire"); (6, 0, bs "nonce"); (7, 3, bs "to"); (8, 1, bs "groupCount");
    (9, 2, bs "header"); (10, 2, bs "next"); (11, 1, bs "chainID") ]%N.
Definition sig_schema : list (N * N * list N) :=
  [ (1, 1, bs "ty"); (2, 2, bs "pubkey"); (3, 2, bs "signature") ]%N.

(** * Wire encoding (types.Encode = deterministic proto.Marshal) *)
Definition encode_sig (s : sigt) : list N :=
  enc_int 1 (s_ty s) ++ enc_bytes 2 (s_pub s) ++ enc_bytes 3 (s_sig s).

Definition encode_tx (t : tx) : list N :=
  enc_bytes 1 (execer t) ++ enc_bytes 2 (payload t) ++
  enc_msg 3 (option_map encode_sig (signature t)) ++
  enc_int 4 (fee t) ++ enc_int 5 (expire t) ++ enc_int 6 (nonce t) ++
  enc_bytes 7 (to_ t) ++ enc_int 8 (groupCount t) ++
  enc_bytes 9 (header t) ++ enc_bytes 10 (next t) ++ enc_int 11 (chainID t).

(** Decoder for canonical encodings (fields in order, no unknown fields). *)
Definition bind {A B : Type} (o : option (A * list N)) (f : A -> list N -> option B) : option B :=
  match o with Some (a, r) => f a r | None => None end.
Definition at_end {B : Type} (r : list N) (b : B) : option B :=
  match r with [] => Some b | _ :: _ => None end.

Definition decode_sig (l : list N) : option sigt :=
  bind (dec_int 1 l) (fun ty r1 =>
  bind (dec_bytes 2 r1) (fun pk r2 =>
  bind (dec_bytes 3 r2) (fun sg r3 => at_end r3 (mk_sig ty pk sg)))).

Definition decode_opt_sig (o : option (list N)) : option (option sigt) :=
  match o with
  | None => Some None
  | Some b => option_map Some (decode_sig b)
  end.

Definition decode_tx (l : list N) : option tx :=
  bind (dec_bytes 1 l) (fun f1 r1 =>
  bind (dec_bytes 2 r1) (fun f2 r2 =>
  bind (dec_msg 3 r2) (fun f3b r3 =>
  match decode_opt_sig f3b with
  | None => None
  | Some f3 =>
  bind (dec_int 4 r3) (fun f4 r4 =>
  bind (dec_int 5 r4) (fun f5 r5 =>
  bind (dec_int 6 r5) (fun f6 r6 =>
  bind (dec_bytes 7 r6) (fun f7 r7 =>
  bind (dec_int 8 r7) (fun f8 r8 =>
  bind (dec_bytes 9 r8) (fun f9 r9 =>
  bind (dec_bytes 10 r9) (fun f10 r10 =>
  bind (dec_int 11 r10) (fun f11 r11 =>
    at_end r11 (mk_tx f1 f2 f3 f4 f5 f6 f7 f8 f9 f10 f11)))))))))
  end))).

(** Field values that Go can hold. *)
Definition wf_sigb (s : sigt) : bool := int32b (s_ty s).
Definition wf_optsig (o : option sigt) : bool :=
  match o with None => true | Some s => wf_sigb s end.
Definition wf_ints (t : tx) : bool :=
  int64b (fee t) && int64b (expire t) && int64b (nonce t) &&
  int32b (groupCount t) && int32b (chainID t).
Definition wf_txb (t : tx) : bool := wf_optsig (signature t) && wf_ints t.

(** * Field updates *)
Definition set_sig (s : option sigt) (t : tx) : tx :=
  mk_tx (execer t) (payload t) s (fee t) (expire t) (nonce t) (to_ t)
        (groupCount t) (header t) (next t) (chainID t).
Definition set_header (h : list N) (t : tx) : tx :=
  mk_tx (execer t) (payload t) (signature t) (fee t) (expire t) (nonce t) (to_ t)
        (groupCount t) h (next t) (chainID t).

(** * CloneTx / Clone: field-by-field copies (tx.go) *)
Definition clone_tx (t : tx) : tx :=
  {| execer := execer t; payload := payload t; signature := signature t;
     fee := fee t; expire := expire t; nonce := nonce t; to_ := to_ t;
     groupCount := groupCount t; header := header t; next := next t;
     chainID := chainID t |}.
Definition clone_sig (s : sigt) : sigt :=
  {| s_ty := s_ty s; s_pub := s_pub s; s_sig := s_sig s |}.
Definition clone (t : tx) : tx :=
  set_sig (option_map clone_sig (signature t)) (clone_tx t).

(** * Hash / FullHash: SHA-256 of these bytes *)
Definition hash_pre (t : tx) : list N :=
  encode_tx (set_header [] (set_sig None (clone_tx t))).
Definition full_pre (t : tx) : list N := encode_tx (clone t).

Definition tx_hash {HT : Type} (H : list N -> HT) (t : tx) : HT := H (hash_pre t).
Definition full_hash {HT : Type} (H : list N -> HT) (t : tx) : HT := H (full_pre t).

(** * Sign / checkSign *)
(** bytes that are signed and verified: the encoding without the signature
    (Sign encodes the transaction itself, checkSign a CloneTx copy) *)
Definition signed_bytes (t : tx) : list N := encode_tx (set_sig None (clone_tx t)).

(** Transaction.Sign with the driver's outputs [pub] = priv.PubKey().Bytes()
    and [sg] = priv.Sign(Encode(tx with Signature = nil)).Bytes() *)
Definition sign_msg (t : tx) : list N := encode_tx (set_sig None t).
Definition sign_tx (ty : Z) (pub sg : list N) (t : tx) : tx :=
  set_sig (Some (mk_sig ty pub sg)) t.

(** crypto driver registry entry: type id, enable flag, enable height *)
Record drv := mk_drv { d_id : Z; d_enable : bool; d_height : Z }.

(** types.ExtractCryptoID: signID & 0x3fff8fff (int32, two's complement) *)
Definition crypto_id (ty : Z) : Z := Z.land ty 0x3fff8fff.

(** crypto.GetName + crypto.Load(name, height): unknown id -> "unknown" -> no
    driver; negative height skips the enable check. *)
Definition load (ds : list drv) (id h : Z) : option drv :=
  match find (fun d => Z.eqb (d_id d) id) ds with
  | None => None
  | Some d =>
      if (h <? 0)%Z || (d_enable d && (0 <=? d_height d)%Z && (d_height d <=? h)%Z)
      then Some d else None
  end.

(** Transaction.checkSign(height) without the sender gate: signature present,
    then types.CheckSign(data, execer, sign, height) (no executor-specific
    driver override; the same function checks block signatures).
    [verify id msg pub sig] is the driver's Validate.  The whole of
    Transaction.CheckSign is [check_sign_tx] below. *)
Definition check_sign (ds : list drv) (verify : Z -> list N -> list N -> list N -> bool)
    (t : tx) (h : Z) : bool :=
  match signature t with
  | None => false
  | Some s =>
      match load ds (crypto_id (s_ty s)) h with
      | None => false
      | Some d => verify (d_id d) (signed_bytes t) (s_pub s) (s_sig s)
      end
  end.

(** * Sender address, and the sender gate of Transaction.checkSign *)
(** types.ExtractAddressID: (signID & 0x7000) >> 12 *)
Definition addr_id (ty : Z) : Z := Z.shiftr (Z.land ty 0x7000) 12.

(** One address driver call as Transaction.fromAddr makes it.  Address
    drivers are not modelled, [adrv id pub] is given from outside:
      ANone    address.LoadDriver(id, -1) finds no driver with this id
      APanic   the driver's PubKeyToAddr panics on this key
               (utxo: "implement me"; eth: empty key)
      AAddr a  it returns the address a *)
Inductive aout := ANone | APanic | AAddr (a : list N).

(** Signature.GetTy / GetPubkey of a possibly nil Signature *)
Definition sig_ty (t : tx) : Z := match signature t with Some s => s_ty s | None => 0%Z end.
Definition sig_pub (t : tx) : list N := match signature t with Some s => s_pub s | None => [] end.

(** Transaction.fromAddr: [Some a] = (a, true), [None] = ("", false).  The
    driver is loaded with LoadDriver (an error, not MustLoadDriver's panic) and
    the deferred recover confines a panic of the driver. *)
Definition from_addr (adrv : Z -> list N -> aout) (t : tx) : option (list N) :=
  match adrv (addr_id (sig_ty t)) (sig_pub t) with
  | AAddr a => Some a
  | ANone | APanic => None
  end.

(** a sender address can be derived for this signature type and key *)
Definition usable (adrv : Z -> list N -> aout) (ty : Z) (pub : list N) : bool :=
  match adrv (addr_id ty) pub with AAddr _ => true | ANone | APanic => false end.

(** Transaction.From() as an outcome: [Some a] = returns the string a,
    [None] = panics.  There is no panicking path: without a derivable sender
    the result is the empty string. *)
Definition tx_from (adrv : Z -> list N -> aout) (t : tx) : option (list N) :=
  Some (match from_addr adrv t with Some a => a | None => [] end).

(** Transaction.CheckSign(height): signature present, a sender address can be
    derived from it, then types.CheckSign *)
Definition check_sign_tx (adrv : Z -> list N -> aout) (ds : list drv)
    (verify : Z -> list N -> list N -> list N -> bool) (t : tx) (h : Z) : bool :=
  match signature t with
  | None => false
  | Some _ =>
      match from_addr adrv t with
      | None => false
      | Some _ => check_sign ds verify t h
      end
  end.
