(** C06 — the goBadgerDBIt wrapper (end bound exclusive, Seek clamped into
    the range) refines the same abstract iterator as the LevelDB/memdb one. *)
From Coq Require Import String.
From Coq Require Import List NArith Bool Lia.
From C33 Require Import Lib.Harness Lib.Bytes Lib.OMap C06.Model C06.Spec C06.ProofsIter.
Import ListNotations.

(** iteration order on keys *)
Definition ord (rv : bool) (a b : key) : bool := if rv then bltb b a else bltb a b.

Fixpoint ds (rv : bool) (l : list entry) : Prop :=
  match l with
  | [] => True
  | x :: tl => Forall (fun y => ord rv (fst x) (fst y) = true) tl /\ ds rv tl
  end.

Lemma ds_sorted (m : store) : sorted m -> ds false m.
Proof.
  induction m as [|x m IH]; simpl; auto. intros [LB S]. split; auto.
  unfold lb_all in LB. rewrite Forall_forall in *. intros y Hy. apply bltb_lt. auto.
Qed.

Lemma ds_snoc rv a x : ds rv a -> (forall y, In y a -> ord rv (fst y) (fst x) = true) -> ds rv (a ++ [x]).
Proof.
  induction a as [|z a IH]; simpl.
  - intros _ _. split; [constructor|exact I].
  - intros [F D] H. split.
    + apply Forall_app. split; auto.
    + apply IH; auto.
Qed.

Lemma ds_rev (m : store) : sorted m -> ds true (rev m).
Proof.
  induction m as [|x m IH]; simpl; auto. intros [LB S].
  apply ds_snoc; auto. intros y Hy. apply in_rev in Hy. unfold ord. apply bltb_lt.
  eapply lb_all_In; eauto.
Qed.

Lemma ds_drop_until rv g l : ds rv l -> ds rv (drop_until g l).
Proof.
  induction l as [|x l IH]; simpl; auto. intros [F D]. destruct (g x); simpl; auto.
Qed.

Lemma drop_until_incl {A} (g : A -> bool) l : incl (drop_until g l) l.
Proof.
  induction l as [|x l IH]; simpl; [apply incl_refl|].
  destruct (g x); [apply incl_refl | apply incl_tl, IH].
Qed.

Lemma seek_pred_mono rv k x y :
  seek_pred rv k x = true -> ord rv (fst x) (fst y) = true -> seek_pred rv k y = true.
Proof.
  unfold seek_pred, ord. destruct rv; intros H1 H2.
  - apply bltb_bleb. eapply bltb_bleb_trans; eauto.
  - apply bltb_bleb. eapply bleb_bltb_trans; eauto.
Qed.

(** a predicate that is upward closed in iteration order holds on everything
    that [drop_until] keeps *)
Lemma drop_until_Forall rv (g : entry -> bool) l :
  (forall x y, g x = true -> ord rv (fst x) (fst y) = true -> g y = true) ->
  ds rv l -> Forall (fun x => g x = true) (drop_until g l).
Proof.
  intro M. induction l as [|x l IH]; simpl; [constructor|]. intros [F D].
  destruct (g x) eqn:G; [|auto]. constructor; auto.
  rewrite Forall_forall in *. intros y Hy. eapply M; eauto.
Qed.

Lemma drop_until_id {A} (g : A -> bool) l : Forall (fun x => g x = true) l -> drop_until g l = l.
Proof. destruct l as [|x l]; auto. intro F. inversion F; subst. simpl. rewrite H1. reflexivity. Qed.

Lemma filter_drop_until_comm rv (f g : entry -> bool) l :
  (forall x y, g x = true -> ord rv (fst x) (fst y) = true -> g y = true) ->
  ds rv l -> filter f (drop_until g l) = drop_until g (filter f l).
Proof.
  intro M. induction l as [|x l IH]; simpl; auto. intros [F D].
  destruct (g x) eqn:G.
  - simpl. destruct (f x).
    + simpl. rewrite G. reflexivity.
    + symmetry. apply drop_until_id. apply Forall_forall. intros y Hy.
      apply filter_In in Hy as [Hy _]. rewrite Forall_forall in F. eapply M; eauto.
  - rewrite (IH D). destruct (f x); simpl; [rewrite G|]; reflexivity.
Qed.

Lemma filter_drop_until_same {A} (f g : A -> bool) l :
  (forall x, In x l -> g x = false -> f x = false) -> filter f (drop_until g l) = filter f l.
Proof.
  induction l as [|x l IH]; simpl; auto. intro H.
  destruct (g x) eqn:G; [reflexivity|].
  rewrite (H x) by auto. apply IH. intros y Hy. apply H. auto.
Qed.

Lemma filter_none {A} (f : A -> bool) l : Forall (fun x => f x = false) l -> filter f l = [].
Proof.
  induction l as [|x l IH]; simpl; auto. intro F. inversion F; subst. rewrite H1. auto.
Qed.

Lemma opt_cases {A} (o : option A) : o = None \/ exists a, o = Some a.
Proof. destruct o; eauto. Qed.

Lemma bool_cases (b : bool) : b = true \/ b = false.
Proof. destruct b; auto. Qed.


(** * more list / order facts *)
Lemma drop_until_ext {A} (f g : A -> bool) l :
  (forall x, In x l -> f x = g x) -> drop_until f l = drop_until g l.
Proof.
  induction l as [|x l IH]; simpl; auto. intro H.
  rewrite <- (H x) by auto. destruct (f x); [reflexivity|]. apply IH. intros y Hy. apply H. auto.
Qed.

Lemma bltb_nil_r k : bltb k [] = false.
Proof. destruct k; reflexivity. Qed.

Lemma bleb_cons_nil a r : bleb (a :: r) [] = false.
Proof. reflexivity. Qed.

Lemma bltb_beqb_false a b : bltb a b = true -> beqb a b = false.
Proof. unfold bltb, beqb. destruct (bcmp a b); auto; discriminate. Qed.

(** nothing but the empty string is below "\x00" *)
Lemma bltb_zero y : bltb y [0%N] = true -> y = [].
Proof.
  destruct y as [|a r]; auto. unfold bltb. destruct a as [|p]; simpl.
  - destruct r; discriminate.
  - discriminate.
Qed.

(** the library Seek(k): forward for every k, reverse for a non-empty k *)
Lemma b_seek_drop rv (l : list entry) k : rv = false \/ nonempty k = true ->
  b_seek rv l k = drop_until (seek_pred rv k) l.
Proof.
  intro H. destruct k as [|a k]; [|reflexivity].
  destruct H as [->|H]; [|discriminate]. simpl.
  destruct l as [|x l]; auto. simpl. rewrite bleb_nil_l. reflexivity.
Qed.

Lemma skip_end_incl e (c : list entry) : incl (skip_end e c) c.
Proof.
  destruct c as [|x tl]; simpl; [apply incl_refl|].
  destruct (at_end e (fst x)); [apply incl_tl|]; apply incl_refl.
Qed.

Lemma skip_end_none (c : list entry) : skip_end None c = c.
Proof. destruct c; reflexivity. Qed.

(** going down: "first entry <= e, stepping over e itself" = "first entry < e" *)
Lemma skip_le_lt e (l : list entry) : ds true l ->
  skip_end (Some e) (drop_until (fun x => bleb (fst x) e) l) = drop_until (fun x => bltb (fst x) e) l.
Proof.
  induction l as [|x l IH]; [reflexivity|]. intro H. simpl in H. destruct H as [F D].
  cbn [drop_until]. rewrite bleb_lt_or_eq.
  destruct (bltb _ e) eqn:L; cbn [orb].
  - cbn [skip_end at_end]. unfold key in *. rewrite (bltb_beqb_false _ _ L). reflexivity.
  - destruct (beqb _ e) eqn:E.
    + cbn [skip_end at_end]. unfold key in *. rewrite E. apply beqb_eq in E. symmetry. apply drop_until_id.
      rewrite Forall_forall in *. intros y Hy. specialize (F y Hy). unfold ord in F.
      rewrite <- E. exact F.
    + apply IH. exact D.
Qed.

Definition keys_nonempty (m : store) : bool := forallb (fun e => nonempty (fst e)) m.

Section Badger.
Variables (m : store) (start : key) (end_ : option key) (rv : bool).
Hypothesis Hm : sorted m.

Let e' := spec_end start end_.
Let all := if rv then rev m else m.
Let inr (x : entry) : bool := in_range (Some start) e' (fst x).
Let LSb := filter inr all.

(** entry side / exit side of the range in iteration order *)
Definition ent (x : entry) : bool :=
  if rv then match e' with Some e => bltb (fst x) e | None => true end
  else bleb start (fst x).
Definition ext (x : entry) : bool :=
  if rv then bleb start (fst x)
  else match e' with Some e => bltb (fst x) e | None => true end.

Lemma inr_ent_ext x : inr x = ent x && ext x.
Proof. unfold inr, in_range, ent, ext. destruct rv; auto. apply andb_comm. Qed.

Lemma all_in x : In x all -> In x m.
Proof. unfold all. destruct rv; auto. intro H. apply in_rev. exact H. Qed.

Lemma ds_all : ds rv all.
Proof. unfold all. destruct rv; [apply ds_rev | apply ds_sorted]; exact Hm. Qed.

Lemma all_length : length all = length m.
Proof. unfold all. destruct rv; [apply rev_length|reflexivity]. Qed.

Lemma LSb_spec : spec_list m start end_ rv = LSb.
Proof.
  unfold spec_list, spec_range, range_filter, filter_keys, LSb, all, inr.
  destruct rv; auto. rewrite filter_rev'. reflexivity.
Qed.

(** Valid(): "not on end" and checkKey's [<= end] together are the exclusive test *)
Lemma valid_inr x :
  negb (at_end e' (fst x)) && check_key start e' (fst x) = inr x.
Proof.
  unfold inr, check_key, in_range, at_end. destruct e' as [e|]; [|reflexivity].
  unfold beqb, bleb, bltb. destruct (bcmp start _); destruct (bcmp _ e); reflexivity.
Qed.

Lemma ext_mono x y : ext x = false -> ord rv (fst x) (fst y) = true -> ext y = false.
Proof.
  unfold ext, ord. destruct rv.
  - intros H1 H2. destruct (bleb start (fst y)) eqn:B; auto.
    rewrite (bltb_bleb _ _ (bleb_bltb_trans _ _ _ B H2)) in H1. discriminate.
  - destruct e' as [e|]; [|discriminate]. intros H1 H2.
    destruct (bltb (fst y) e) eqn:B; auto.
    rewrite (bltb_trans _ _ _ H2 B) in H1. discriminate.
Qed.

Lemma ent_mono x y : ent x = true -> ord rv (fst x) (fst y) = true -> ent y = true.
Proof.
  unfold ent, ord. destruct rv.
  - destruct e' as [e|]; auto. intros H1 H2. eapply bltb_trans; eauto.
  - intros H1 H2. apply bltb_bleb. eapply bleb_bltb_trans; eauto.
Qed.

(** in-range entries form a prefix of the list *)
Fixpoint pfx (l : list entry) : Prop :=
  match l with
  | [] => True
  | x :: tl => (inr x = false -> Forall (fun y => inr y = false) tl) /\ pfx tl
  end.

Lemma pfx_none l : Forall (fun y => inr y = false) l -> pfx l.
Proof.
  induction l as [|x l IH]; simpl; auto. intro F. inversion F; subst. split; auto.
Qed.

Lemma pfx_ent l : ds rv l -> Forall (fun x => ent x = true) l -> pfx l.
Proof.
  induction l as [|x l IH]; simpl; auto. intros [F D] E. inversion E; subst.
  split; auto. intro Hx. rewrite inr_ent_ext, H1 in Hx. simpl in Hx.
  rewrite Forall_forall in *. intros y Hy. rewrite inr_ent_ext.
  rewrite (ext_mono x y Hx (F y Hy)). apply andb_false_r.
Qed.

Definition RB (cur s : list entry) : Prop :=
  s = filter inr cur /\ pfx cur /\ incl cur all.

Definition mkb (cur : list entry) : bad_it := mk_bad_it all start e' rv cur.

Lemma obs_RB cur s : RB cur s ->
  mk_ires (bad_valid (mkb cur)) (bad_valid (mkb cur)) (bad_entry (mkb cur)) = spec_obs s.
Proof.
  intros [-> [P I]]. unfold bad_valid, bad_entry, mkb. simpl.
  destruct cur as [|x tl]; [reflexivity|]. simpl.
  rewrite (valid_inr x).
  destruct (inr x) eqn:E; [reflexivity|].
  destruct P as [P _]. rewrite (filter_none inr tl (P E)). reflexivity.
Qed.

Lemma next_RB cur s : RB cur s -> RB (tl cur) (tl s).
Proof.
  intros [-> [P I]]. destruct cur as [|x tl]; [repeat split; auto|].
  simpl in *. destruct P as [P1 P2]. repeat split; auto.
  - destruct (inr x) eqn:E; [reflexivity|]. rewrite (filter_none inr tl (P1 eq_refl)). reflexivity.
  - eapply incl_tran; [|exact I]. apply incl_tl, incl_refl.
Qed.

(** nothing is in range: every sublist of [all] stands for the empty list *)
Lemma RB_none cur : incl cur all -> (forall x, In x all -> inr x = false) -> RB cur LSb.
Proof.
  intros I N. unfold RB, LSb. split; [|split; auto].
  - rewrite (filter_none inr all) by (apply Forall_forall; auto).
    symmetry. apply filter_none. apply Forall_forall. auto.
  - apply pfx_none. apply Forall_forall. auto.
Qed.

(** the first entry on the entry side of the range, and all that follow *)
Lemma ent_RB : RB (drop_until ent all) LSb.
Proof.
  unfold RB, LSb. split; [|split].
  - symmetry. apply filter_drop_until_same. intros x _ G. rewrite inr_ent_ext, G. reflexivity.
  - apply pfx_ent; [apply ds_drop_until, ds_all|].
    apply (drop_until_Forall rv); [exact ent_mono | exact ds_all].
  - apply drop_until_incl.
Qed.

(** library Seek(k) when everything at or after k (in iteration order) is on
    the entry side of the range *)
Lemma seek_RB_gen k : (forall x, seek_pred rv k x = true -> ent x = true) ->
  RB (drop_until (seek_pred rv k) all) (drop_until (seek_pred rv k) LSb).
Proof.
  intro HE. unfold RB, LSb. split; [|split].
  - symmetry. apply (filter_drop_until_comm rv); [apply seek_pred_mono | apply ds_all].
  - apply pfx_ent; [apply ds_drop_until, ds_all|].
    pose proof (drop_until_Forall rv (seek_pred rv k) all (seek_pred_mono rv k) ds_all) as F.
    rewrite Forall_forall in *. intros x Hx. apply HE. apply F. exact Hx.
  - apply drop_until_incl.
Qed.

Lemma LSb_ent x : In x LSb -> ent x = true.
Proof.
  unfold LSb. intro H. apply filter_In in H as [_ H]. rewrite inr_ent_ext in H.
  apply andb_true_iff in H. tauto.
Qed.

Lemma LSb_all x : In x LSb -> In x all.
Proof. unfold LSb. intro H. apply filter_In in H. tauto. Qed.

(** ** Rewind *)
Lemma rewind_fwd_RB : rv = false -> RB (b_seek false all start) LSb.
Proof.
  intro Er. rewrite b_seek_drop by auto.
  rewrite (drop_until_ext (seek_pred false start) ent).
  - exact ent_RB.
  - intros x _. unfold seek_pred, ent. rewrite Er. reflexivity.
Qed.

Lemma rewind_rev_RB : rv = true -> RB (bad_rewind_rev all e') LSb.
Proof.
  intro Er. unfold bad_rewind_rev.
  destruct (opt_cases e') as [Ee|[e Ee]]; rewrite Ee.
  - (* no upper bound: the library rewinds *)
    rewrite skip_end_none. simpl.
    replace all with (drop_until ent all) at 1; [exact ent_RB|].
    apply drop_until_id. apply Forall_forall. intros x _. unfold ent. rewrite Er, Ee. reflexivity.
  - destruct e as [|a e0].
    + (* empty non-nil end: nothing is in range *)
      apply RB_none; [eapply incl_tran; [apply skip_end_incl|]; simpl; apply incl_refl|].
      intros x _. unfold inr, in_range. rewrite Ee, bltb_nil_r. apply andb_false_r.
    + rewrite b_seek_drop by (right; reflexivity).
      pose proof ds_all as D. rewrite Er in D.
      assert (EQ : skip_end (@Some key (a :: e0)) (drop_until (seek_pred true (a :: e0)) all) =
                   drop_until ent all).
      { transitivity (drop_until (fun x : entry => bltb (fst x) (a :: e0)) all).
        - exact (skip_le_lt (a :: e0) all D).
        - apply drop_until_ext. intros x _. unfold ent. rewrite Er, Ee. reflexivity. }
      rewrite EQ. exact ent_RB.
Qed.

Lemma rewind_RB : RB (bad_rewind_cur rv all start e') LSb.
Proof.
  unfold bad_rewind_cur. destruct (bool_cases rv) as [Er|Er]; rewrite Er.
  - apply rewind_rev_RB; exact Er.
  - apply rewind_fwd_RB; exact Er.
Qed.

(** ** Seek *)
Lemma seek_fwd_RB k : rv = false ->
  RB (bad_seek_fwd all start k) (drop_until (seek_pred false k) LSb).
Proof.
  intro Er. unfold bad_seek_fwd. rewrite b_seek_drop by auto.
  set (k' := if bltb k start then start else k).
  assert (Hk' : bleb start k' = true).
  { unfold k'. destruct (bltb k start) eqn:B; [apply bleb_refl|].
    rewrite bleb_nbltb, B. reflexivity. }
  assert (G : RB (drop_until (seek_pred rv k') all) (drop_until (seek_pred rv k') LSb)).
  { apply seek_RB_gen. intros x Hx. unfold seek_pred, ent in *. rewrite Er in *.
    eapply bleb_trans; eauto. }
  rewrite Er in G.
  replace (drop_until (seek_pred false k) LSb) with (drop_until (seek_pred false k') LSb); [exact G|].
  unfold k'. destruct (bltb k start) eqn:B; [|reflexivity].
  (* target below start: both targets keep every in-range entry *)
  assert (HS : forall x, In x LSb -> bleb start (fst x) = true).
  { intros x Hx. pose proof (LSb_ent x Hx) as E. unfold ent in E. rewrite Er in E. exact E. }
  rewrite (drop_until_id (seek_pred false start) LSb).
  - symmetry. apply drop_until_id. apply Forall_forall. intros x Hx. unfold seek_pred.
    apply bltb_bleb. eapply bltb_bleb_trans; [exact B | apply HS; exact Hx].
  - apply Forall_forall. intros x Hx. unfold seek_pred. apply HS. exact Hx.
Qed.

Section Rev.
Hypothesis Hne : keys_nonempty m = true.

Lemma all_nonempty x : In x all -> nonempty (fst x) = true.
Proof.
  intro H. apply all_in in H. unfold keys_nonempty in Hne.
  rewrite forallb_forall in Hne. apply Hne. exact H.
Qed.

Lemma seek_rev_RB k : rv = true ->
  RB (bad_seek_rev all e' k) (drop_until (seek_pred true k) LSb).
Proof.
  intro Er. unfold bad_seek_rev.
  destruct (match e' with Some e => bleb e k | None => false end) eqn:C.
  - (* target at or above the end bound: Rewind *)
    destruct (opt_cases e') as [Ee|[e Ee]]; rewrite Ee in C; [discriminate|].
    rewrite (drop_until_id (seek_pred true k) LSb); [apply rewind_rev_RB; exact Er|].
    apply Forall_forall. intros x Hx. pose proof (LSb_ent x Hx) as E.
    unfold ent in E. rewrite Er, Ee in E. unfold seek_pred.
    apply bltb_bleb. eapply bltb_bleb_trans; eauto.
  - destruct k as [|a k0].
    + (* empty target: nothing is at or below it *)
      assert (T : tl (b_seek true all [0%N]) = []).
      { rewrite b_seek_drop by (right; reflexivity).
        pose proof ds_all as D. rewrite Er in D.
        pose proof (ds_drop_until true (seek_pred true [0%N]) all D) as D2.
        pose proof (drop_until_Forall true (seek_pred true [0%N]) all (seek_pred_mono true [0%N]) D) as F.
        pose proof (drop_until_incl (seek_pred true [0%N]) all) as I.
        destruct (drop_until (seek_pred true [0%N]) all) as [|x t]; [reflexivity|].
        destruct t as [|y t]; [reflexivity|]. exfalso.
        simpl in D2. destruct D2 as [D2 _]. pose proof (Forall_inv D2) as Oy.
        pose proof (Forall_inv F) as Px. cbv beta in Oy, Px.
        unfold ord in Oy. unfold seek_pred in Px.
        pose proof (bltb_zero _ (bltb_bleb_trans _ _ _ Oy Px)) as Z.
        assert (Iy : In y all) by (apply I; right; left; reflexivity).
        apply all_nonempty in Iy. rewrite Z in Iy. discriminate. }
      rewrite T.
      rewrite (drop_until_all_false (seek_pred true []) LSb).
      * unfold RB. split; [reflexivity|]. split; [exact I|]. intros x [].
      * intros x Hx. apply LSb_all, all_nonempty in Hx. unfold seek_pred.
        destruct (fst x); [discriminate|reflexivity].
    + rewrite b_seek_drop by (right; reflexivity).
      assert (G : RB (drop_until (seek_pred rv (a :: k0)) all) (drop_until (seek_pred rv (a :: k0)) LSb)).
      { apply seek_RB_gen. intros x Hx. unfold seek_pred, ent in *. rewrite Er in *.
        destruct (opt_cases e') as [Ee|[e Ee]]; rewrite Ee in *; [reflexivity|].
        eapply bleb_bltb_trans; [exact Hx|]. rewrite bltb_nbleb, C. reflexivity. }
      rewrite Er in G. exact G.
Qed.

Lemma seek_RB_all k : RB (bad_seek_cur rv all start e' k) (drop_until (seek_pred rv k) LSb).
Proof.
  unfold bad_seek_cur. destruct (bool_cases rv) as [Er|Er]; rewrite Er.
  - apply seek_rev_RB; exact Er.
  - apply seek_fwd_RB; exact Er.
Qed.
End Rev.

Lemma bad_open_eq : bad_open m start end_ rv = mkb (bad_rewind_cur rv all start e').
Proof. unfold bad_open, mkb. rewrite resolve_end_spec. reflexivity. Qed.

(** ** one wrapper call *)
Lemma step_rewind cur :
  it_step (ItB (mkb cur)) IRewind = (ItB (mkb (bad_rewind_cur rv all start e')), spec_obs LSb).
Proof.
  simpl. unfold bad_rewind, bad_set_cur. simpl. fold (mkb (bad_rewind_cur rv all start e')).
  rewrite (obs_RB _ _ rewind_RB). reflexivity.
Qed.

Lemma step_next cur s : RB cur s ->
  it_step (ItB (mkb cur)) INext = (ItB (mkb (tl cur)), spec_obs (tl s)).
Proof.
  intro HR. simpl. unfold bad_next, bad_set_cur. simpl. fold (mkb (tl cur)).
  rewrite (obs_RB _ _ (next_RB _ _ HR)). reflexivity.
Qed.

Lemma step_seek cur k : keys_nonempty m = true ->
  it_step (ItB (mkb cur)) (ISeek k) =
    (ItB (mkb (bad_seek_cur rv all start e' k)), spec_obs (drop_until (seek_pred rv k) LSb)).
Proof.
  intro Hne. simpl. unfold bad_seek, bad_set_cur. simpl. fold (mkb (bad_seek_cur rv all start e' k)).
  rewrite (obs_RB _ _ (seek_RB_all Hne k)). reflexivity.
Qed.

Definition ok_posb (cur : list entry) (p : spec_pos) : Prop :=
  match p with Some s => RB cur s | None => True end.

Lemma step_simb cur p o : keys_nonempty m = true ->
  ok_posb cur p -> (o = INext -> p <> None) ->
  exists cur' s',
    it_step (ItB (mkb cur)) o = (ItB (mkb cur'), spec_obs s') /\
    spec_step rv LSb p o = Some s' /\ RB cur' s'.
Proof.
  intros Hne Hp Hn. destruct o as [|k|].
  - exists (bad_rewind_cur rv all start e'), LSb.
    split; [apply step_rewind|]. split; [reflexivity | exact rewind_RB].
  - exists (bad_seek_cur rv all start e' k), (drop_until (seek_pred rv k) LSb).
    split; [apply step_seek; exact Hne|]. split; [reflexivity | apply seek_RB_all; exact Hne].
  - destruct p as [s|]; [|exfalso; apply Hn; auto]. simpl in Hp.
    exists (tl cur), (tl s).
    split; [apply step_next; exact Hp|]. split; [reflexivity | apply next_RB; exact Hp].
Qed.

Lemma run_simb (Hne : keys_nonempty m = true) : forall iops cur s, RB cur s ->
  map Some (it_run (ItB (mkb cur)) iops) = spec_run rv LSb (Some s) iops.
Proof.
  induction iops as [|o iops IH]; intros cur s HR; [reflexivity|].
  destruct (step_simb cur (Some s) o Hne HR) as [c' [s' [E1 [E2 HR']]]]; [discriminate|].
  cbn [it_run]. rewrite E1. cbn [map spec_run]. rewrite E2. cbn [option_map].
  f_equal. apply IH; auto.
Qed.

Lemma run_simb_positioned (Hne : keys_nonempty m = true) iops cur : positioned iops = true ->
  map Some (it_run (ItB (mkb cur)) iops) = spec_run rv LSb None iops.
Proof.
  destruct iops as [|o iops]; [reflexivity|]. intros P.
  destruct (step_simb cur None o Hne I) as [c' [s' [E1 [E2 HR']]]]; [intros ->; discriminate|].
  cbn [it_run]. rewrite E1. cbn [map spec_run]. rewrite E2. cbn [option_map].
  f_equal. apply run_simb; auto.
Qed.

(** Rewind; Next while valid (no Seek: no condition on the keys) *)
Lemma collect_simb : forall fuel cur s, RB cur s -> (length s < fuel)%nat ->
  it_collect_from fuel (ItB (mkb cur)) (spec_obs s) = s.
Proof.
  induction fuel as [|f IH]; intros cur s HR Hf; [lia|].
  destruct s as [|x s']; [reflexivity|].
  cbn [it_collect_from spec_obs].
  rewrite (step_next cur (x :: s') HR).
  rewrite IH; [destruct x; reflexivity | apply (next_RB _ _ HR) | simpl in Hf; simpl; lia].
Qed.

Lemma badger_refines_sec iops : keys_nonempty m = true -> positioned iops = true ->
  map Some (it_run (it_open BBadger m start end_ rv) iops) =
  spec_run rv (spec_list m start end_ rv) None iops.
Proof.
  intros Hne P. simpl it_open. rewrite bad_open_eq, LSb_spec.
  apply run_simb_positioned; auto.
Qed.

Lemma badger_collect_sec : it_collect BBadger m start end_ rv = spec_list m start end_ rv.
Proof.
  unfold it_collect. simpl it_open. rewrite bad_open_eq, LSb_spec.
  rewrite step_rewind.
  apply collect_simb; [exact rewind_RB|].
  assert (length LSb <= length all)%nat by apply filter_length_le'.
  pose proof all_length.
  lia.
Qed.

End Badger.

(** * the Badger wrapper refines the abstract iterator.  [keys_nonempty]: a
    Badger store holds no empty key (Txn.Set rejects it); only a reverse
    Seek with an empty target needs it. *)
Theorem badger_iter_refines (m : store) start end_ rv iops :
  sorted m -> keys_nonempty m = true -> positioned iops = true ->
  map Some (it_run (it_open BBadger m start end_ rv) iops) =
  spec_run rv (spec_list m start end_ rv) None iops.
Proof. intros. apply badger_refines_sec; auto. Qed.

Theorem badger_iter_collect (m : store) start end_ rv :
  sorted m ->
  it_collect BBadger m start end_ rv = spec_list m start end_ rv.
Proof. intros. apply badger_collect_sec; auto. Qed.

Theorem badger_seek_spec (m : store) start end_ rv k pre_ops :
  sorted m -> keys_nonempty m = true -> positioned (pre_ops ++ [ISeek k]) = true ->
  List.last (it_run (it_open BBadger m start end_ rv) (pre_ops ++ [ISeek k])) (false, false, [], []) =
  match (if rv then seek_le k (spec_range m start end_) else seek_ge k (spec_range m start end_)) with
  | Some e => (true, true, fst e, snd e)
  | None => (false, false, [], [])
  end.
Proof. intros S N P. apply seek_spec_of_refines. apply badger_iter_refines; auto. Qed.

(** * examples: the inputs of the two repaired findings, and non-vacuity *)
Definition wit_store : store :=
  [(bs "a", bs "va"); (bs "a1", bs "va1"); (bs "a2", bs "va2"); (bs "b", bs "vb"); (bs "c", bs "vc")]%string.

Lemma wit_sorted : sorted wit_store.
Proof. apply sortedb_iff. vm_compute. reflexivity. Qed.

(** a stored key equal to the exclusive end bound is not visited (prefix and
    explicit range, both directions) *)
Example badger_end_exclusive_example :
  it_collect BBadger wit_store (bs "a"%string) None false =
    [(bs "a", bs "va"); (bs "a1", bs "va1"); (bs "a2", bs "va2")]%string /\
  it_collect BBadger wit_store (bs "a"%string) (Some (bs "b"%string)) true =
    [(bs "a2", bs "va2"); (bs "a1", bs "va1"); (bs "a", bs "va")]%string.
Proof. vm_compute. split; reflexivity. Qed.

(** Seek targets outside the range and the empty target are clamped *)
Example badger_seek_clamped_example :
  sorted wit_store /\ keys_nonempty wit_store = true /\
  it_run (it_open BBadger wit_store (bs "a1"%string) (Some (bs "bz"%string)) false)
         [ISeek (bs "a"%string); ISeek []; ISeek (bs "c"%string)] =
    [(true, true, bs "a1", bs "va1"); (true, true, bs "a1", bs "va1"); (false, false, [], [])]%string /\
  it_run (it_open BBadger wit_store (bs "a1"%string) (Some (bs "b"%string)) true)
         [ISeek (bs "c"%string); ISeek (bs "b"%string); ISeek []; ISeek (bs "a"%string)] =
    [(true, true, bs "a2", bs "va2"); (true, true, bs "a2", bs "va2"); (false, false, [], []);
     (false, false, [], [])]%string.
Proof. split; [exact wit_sorted|]. vm_compute. repeat split. Qed.

(** [keys_nonempty] cannot be dropped from the statement about the model: with an
    empty key in the list (a state no Badger store reaches) a reverse
    Seek(empty) differs.  This is a limit of the domain, not a finding. *)
Example badger_empty_key_outside_domain :
  map Some (it_run (it_open BBadger [([], bs "v")]%string [] (Some empty_value) true) [ISeek []]) <>
  spec_run true (spec_list [([], bs "v")]%string [] (Some empty_value) true) None [ISeek []].
Proof. vm_compute. discriminate. Qed.

(** hypotheses of the LevelDB/memdb theorems are satisfiable, non-trivially *)
Example ldb_example :
  sorted wit_store /\ not_badger BLdb = true /\
  positioned [ISeek (bs "a2"%string); INext; IRewind] = true /\
  it_collect BLdb wit_store (bs "a"%string) None true =
    [(bs "a2", bs "va2"); (bs "a1", bs "va1"); (bs "a", bs "va")]%string /\
  it_collect BMem wit_store (bs "a"%string) (Some (bs "b"%string)) false =
    [(bs "a", bs "va"); (bs "a1", bs "va1"); (bs "a2", bs "va2")]%string /\
  succ_prefix (bs "a"%string) <> Some empty_value.
Proof. split; [exact wit_sorted|]. vm_compute. repeat split; discriminate. Qed.
